------------------------------ MODULE KadCache ------------------------------
(***************************************************************************)
(* Implementation-shaped specification of kademlia.Cache                   *)
(* (/repo/p/kademlia/cache.go, distance.go).                               *)
(*                                                                         *)
(* One action per public mutating method; the read-only methods are state  *)
(* functions (ForEachSeq, Closest, Closer, Matching, WouldPut, ...) whose  *)
(* laws are invariants.  Keys are byte sequences, times are small naturals *)
(* (0 is Go's zero time.Time: "no expiry" for ExpiresAt).                  *)
(*                                                                         *)
(* The same property operators are evaluated (a) by TLC over the reachable *)
(* states of this model and (b) by KadCacheTrace over traces recorded from *)
(* the real Cache.                                                         *)
(***************************************************************************)
EXTENDS Integers, Sequences, FiniteSets, Bitwise, TLC

CONSTANTS
    Locus,      \* byte sequence, the cache's locus
    Keys,       \* set of byte sequences used as entry keys
    Queries,    \* set of byte sequences used as query keys
    Vals,       \* set of values
    Times,      \* set of naturals used as Put's now (CreatedAt)
    TouchTimes, \* set of naturals used as CreatedAt by Touch (0 = fn left CreatedAt zero)
    ExpTimes,   \* set of naturals used as Expire's now
    Exps,       \* set of naturals used as ExpiresAt (0 = never)
    Configs,    \* set of <<max, minPerBucket, prefill>> ; prefill is a set of keys
    MaxOps      \* depth bound (number of mutating operations)

VARIABLES
    cmax, cmin, \* constructor parameters (constant along a behaviour)
    ents,       \* function: present key -> [v, c, e]   (value, CreatedAt, ExpiresAt)
    nb,         \* len(kc.buckets): buckets are created lazily up to the highest index used
    minExp,     \* function bucket index -> bucket.minExpiresAt (0 = zero time)
    count,      \* kc.count, maintained incrementally exactly as coded
    panicked,   \* TRUE once an operation would panic
    last,       \* the last operation and what it reported (output only)
    nops        \* number of operations so far (depth bound only)

vars == <<cmax, cmin, ents, nb, minExp, count, panicked, last, nops>>
view == <<cmax, cmin, ents, nb, minExp, count, panicked>>

-----------------------------------------------------------------------------
(* Byte-string arithmetic, as coded in distance.go *)

Min2(a, b) == IF a < b THEN a ELSE b
Max2(a, b) == IF a > b THEN a ELSE b

LZ8(x) == IF x >= 128 THEN 0 ELSE IF x >= 64 THEN 1 ELSE IF x >= 32 THEN 2
          ELSE IF x >= 16 THEN 3 ELSE IF x >= 8 THEN 4 ELSE IF x >= 4 THEN 5
          ELSE IF x >= 2 THEN 6 ELSE IF x >= 1 THEN 7 ELSE 8

\* LeadingZeros(x []byte)
RECURSIVE LZ(_)
LZ(s) == IF s = <<>> THEN 0
         ELSE IF s[1] = 0 THEN 8 + LZ(Tail(s)) ELSE LZ8(s[1])

\* Distance(a, b): XOR over the common length
Dist(a, b) == [i \in 1..Min2(Len(a), Len(b)) |-> a[i] ^^ b[i]]

\* bytes.Compare
RECURSIVE BytesCmp(_, _)
BytesCmp(a, b) ==
    IF a = <<>> /\ b = <<>> THEN 0
    ELSE IF a = <<>> THEN -1
    ELSE IF b = <<>> THEN 1
    ELSE IF a[1] < b[1] THEN -1
    ELSE IF a[1] > b[1] THEN 1
    ELSE BytesCmp(Tail(a), Tail(b))

\* The property-level order: bytes.Compare(Distance(x,a), Distance(x,b))
DistCmpSpecRaw(x, a, b) == BytesCmp(Dist(x, a), Dist(x, b))
SpecTab == [t \in Queries \X Keys \X Keys |-> DistCmpSpecRaw(t[1], t[2], t[3])]
DistCmpSpec(x, a, b) == IF x \in Queries /\ a \in Keys /\ b \in Keys THEN SpecTab[<<x, a, b>>]
                        ELSE DistCmpSpecRaw(x, a, b)
DistLeq(x, a, b) == DistCmpSpec(x, a, b) <= 0
DistLt(x, a, b) == DistCmpSpec(x, a, b) < 0

\* DistanceCmp as coded (distance.go:63)
RECURSIVE CmpLoop(_, _, _, _, _)
CmpLoop(x, a, b, i, l) ==
    IF i > l THEN 0
    ELSE LET xa == x[i] ^^ a[i]
             xb == x[i] ^^ b[i]
         IN IF xa < xb THEN -1 ELSE IF xb < xa THEN 1 ELSE CmpLoop(x, a, b, i + 1, l)
DistCmpCodedRaw(x, a, b) ==
    LET l == Min2(Len(x), Min2(Len(a), Len(b)))
        c == CmpLoop(x, a, b, 1, l)
    IN IF c # 0 THEN c
       ELSE IF Len(x) = l THEN 0
       ELSE IF Len(a) < Len(b) THEN -1
       ELSE IF Len(b) < Len(a) THEN 1
       ELSE 0

CodedTab == [t \in Queries \X Keys \X Keys |-> DistCmpCodedRaw(t[1], t[2], t[3])]
DistCmpCoded(x, a, b) == IF x \in Queries /\ a \in Keys /\ b \in Keys THEN CodedTab[<<x, a, b>>]
                         ELSE DistCmpCodedRaw(x, a, b)

\* bucketIndex (cache.go:268): dist has len(locus); XOR over the common prefix, rest zero
Pad(s, n) == [i \in 1..n |-> IF i <= Len(s) THEN s[i] ELSE 0]
BucketRaw(k) == LZ(Pad(Dist(Locus, k), Len(Locus)))
\* constant-level tables (TLC evaluates them once): pure speed-ups, same values as the raw operators
BucketTab == [k \in Keys |-> BucketRaw(k)]
Bucket(k) == IF k \in Keys THEN BucketTab[k] ELSE BucketRaw(k)
NBuckets == 8 * Len(Locus) + 1          \* bucket indexes 0 .. 8*len(locus)

\* HasPrefix(x, prefix, nbits) (distance.go:33); caller guarantees nbits <= 8*len(prefix)
HasPrefix(x, prefix, nbits) ==
    IF Len(x) * 8 < nbits THEN FALSE
    ELSE LZ(Pad(Dist(x, prefix), Len(x))) >= nbits

-----------------------------------------------------------------------------
(* Helpers over a content function E : present key -> entry *)

InB(E, i) == {k \in DOMAIN E : Bucket(k) = i}
Put1(E, k, r) == [x \in (DOMAIN E) \cup {k} |-> IF x = k THEN r ELSE E[x]]
Del(E, S) == [x \in (DOMAIN E) \ S |-> E[x]]
Expired(r, t) == r.e # 0 /\ r.e < t

\* updateMinExpires (cache.go:389)
UpdMin(m, x) == IF x = 0 THEN m ELSE IF m = 0 \/ x < m THEN x ELSE m

RECURSIVE MinExpOf(_, _)
MinExpOf(E, S) == IF S = {} THEN 0
                  ELSE LET k == CHOOSE k \in S : TRUE
                       IN UpdMin(MinExpOf(E, S \ {k}), E[k].e)

NoRes == [op |-> "none"]

-----------------------------------------------------------------------------
(* Initial states: every constructor configuration; optional prefill       *)
(* (performed by the replayer as Puts at time 1, no expiry, value Vals[1]) *)

PrefillEnts(S) == [k \in S |-> [v |-> CHOOSE v \in Vals : \A w \in Vals : v <= w, c |-> 1, e |-> 0]]
MaxBucket(S) == IF S = {} THEN -1 ELSE CHOOSE m \in {Bucket(k) : k \in S} : \A k \in S : Bucket(k) <= m

Init ==
    \E cfg \in Configs :
        /\ cmax = cfg[1]
        /\ cmin = cfg[2]
        /\ ents = PrefillEnts(cfg[3])
        /\ nb = MaxBucket(cfg[3]) + 1
        /\ minExp = [i \in 0..(NBuckets - 1) |-> 0]
        /\ count = Cardinality(cfg[3])
        /\ panicked = FALSE
        /\ last = NoRes
        /\ nops = 0

-----------------------------------------------------------------------------
(* Update (cache.go:91) with fn producing entry r for key k.                *)
(* evict (cache.go:274): lowest-index bucket holding more than cmin         *)
(* entries; if there is none (possible exactly at the constructor's         *)
(* boundary max = 8*len(locus)*minPerBucket, because there are              *)
(* 8*len(locus)+1 buckets) the lowest-index non-empty bucket.  Within the   *)
(* bucket: an entry with the greatest CreatedAt (ties: map order).          *)

\* (only occupied buckets can qualify, so the search ranges over those: same result, cheaper)
BucketsOf(E) == {Bucket(k) : k \in DOMAIN E}
EvictBucket(E, n) ==
    LET occ == {i \in BucketsOf(E) : i < n}
        over == {i \in occ : Cardinality(InB(E, i)) > cmin}
        S == IF over # {} THEN over ELSE occ
    IN CHOOSE i \in S : \A j \in S : i <= j

Newest(E, S) == {k \in S : \A j \in S : E[k].c >= E[j].c}

DoUpdate(opname, k, r, t) ==
    IF cmax = 0 THEN
        /\ last' = [op |-> opname, key |-> k, v |-> r.v, t |-> t, e |-> r.e, hasEv |-> FALSE, ev |-> <<>>, added |-> FALSE]
        /\ UNCHANGED <<ents, nb, minExp, count>>
    ELSE
        LET lz == Bucket(k)
            nb1 == Max2(nb, lz + 1)
            exists == k \in DOMAIN ents
            E1 == Put1(ents, k, r)
            c1 == IF exists THEN count ELSE count + 1
            me1 == [minExp EXCEPT ![lz] = UpdMin(@, r.e)]
        IN IF c1 > cmax THEN
               LET b == EvictBucket(E1, nb1) IN
               \E v \in Newest(E1, InB(E1, b)) :
                   /\ ents' = Del(E1, {v})
                   /\ count' = c1 - 1
                   /\ nb' = nb1
                   /\ minExp' = me1
                   /\ last' = [op |-> opname, key |-> k, v |-> r.v, t |-> t, e |-> r.e, hasEv |-> TRUE, ev |-> v, added |-> (v # k)]
           ELSE
               /\ ents' = E1
               /\ count' = c1
               /\ nb' = nb1
               /\ minExp' = me1
               /\ last' = [op |-> opname, key |-> k, v |-> r.v, t |-> t, e |-> r.e, hasEv |-> FALSE, ev |-> <<>>, added |-> ~exists]

\* Put(key, v, now, expiresAt) (cache.go:78)
Put(k, v, t, e) ==
    /\ ~panicked /\ nops < MaxOps
    /\ DoUpdate("put", k, [v |-> v, c |-> t, e |-> e], t)
    /\ nops' = nops + 1
    /\ UNCHANGED <<cmax, cmin, panicked>>

\* Update(key, fn) with the fn DHTNode.AddPeer uses (dht_node.go:60): keeps CreatedAt of an
\* existing entry, sets it for a new one; always refreshes value and ExpiresAt.
Touch(k, v, t, e) ==
    /\ ~panicked /\ nops < MaxOps
    /\ DoUpdate("touch", k, [v |-> v, c |-> IF k \in DOMAIN ents THEN ents[k].c ELSE t, e |-> e], t)
    /\ nops' = nops + 1
    /\ UNCHANGED <<cmax, cmin, panicked>>

\* Delete(key) (cache.go:157)
Delete(k) ==
    /\ ~panicked /\ nops < MaxOps
    /\ LET b == Bucket(k) IN
       IF b >= nb \/ k \notin DOMAIN ents THEN
           /\ last' = [op |-> "delete", key |-> k, deleted |-> FALSE]
           /\ UNCHANGED <<ents, count, minExp>>
       ELSE
           LET E1 == Del(ents, {k}) IN
           /\ ents' = E1
           /\ count' = count - 1
           /\ minExp' = [minExp EXCEPT ![b] = MinExpOf(E1, InB(E1, b))]
           /\ last' = [op |-> "delete", key |-> k, deleted |-> TRUE]
    /\ nops' = nops + 1
    /\ UNCHANGED <<cmax, cmin, nb, panicked>>

\* Expire(out, now) (cache.go:292): only buckets whose minExpiresAt is before now are scanned;
\* minExpiresAt is not recomputed afterwards (stays a lower bound).
ExpireSet(t) == {k \in DOMAIN ents : Bucket(k) < nb /\ minExp[Bucket(k)] < t /\ Expired(ents[k], t)}
Expire(t) ==
    /\ ~panicked /\ nops < MaxOps
    /\ LET S == ExpireSet(t) IN
       /\ ents' = Del(ents, S)
       /\ count' = count - Cardinality(S)
       /\ last' = [op |-> "expire", t |-> t, out |-> S]
    /\ nops' = nops + 1
    /\ UNCHANGED <<cmax, cmin, nb, minExp, panicked>>

Next ==
    \/ \E k \in Keys, v \in Vals, t \in Times, e \in Exps : Put(k, v, t, e)
    \/ \E k \in Keys, v \in Vals, t \in TouchTimes, e \in Exps : Touch(k, v, t, e)
    \/ \E k \in Keys : Delete(k)
    \/ \E t \in ExpTimes : Expire(t)

Spec == Init /\ [][Next]_vars

-----------------------------------------------------------------------------
(* Read-only methods as state functions (as coded)                         *)

\* Get(key) (cache.go:63)
GetOf(E, n, k) == IF Bucket(k) < n /\ k \in DOMAIN E THEN E[k].v ELSE 0   \* 0 = absent

\* bucket.forEach: entries of one bucket sorted by DistanceLt(q, a, b)
RECURSIVE SortBy(_, _)
SortBy(S, q) == IF S = {} THEN <<>>
                ELSE LET m == CHOOSE x \in S : \A y \in S : DistCmpCoded(q, x, y) <= 0
                     IN <<m>> \o SortBy(S \ {m}, q)

\* shallower buckets in decreasing index (empty buckets contribute nothing)
RECURSIVE DownOcc(_, _, _)
DownOcc(E, S, q) == IF S = {} THEN <<>>
                    ELSE LET m == CHOOSE i \in S : \A j \in S : j <= i
                         IN SortBy(InB(E, m), q) \o DownOcc(E, S \ {m}, q)

\* ForEach(k, fn) (cache.go:175): bucket lz(locus^k) first, then the entries of all deeper
\* buckets merged in distance order, then shallower buckets in decreasing index.
ForEachSeq(E, n, q) ==
    LET lz == LZ(Dist(Locus, q))
        own == SortBy({k \in DOMAIN E : Bucket(k) = lz /\ lz < n}, q)
        deeper == SortBy({k \in DOMAIN E : Bucket(k) > lz /\ Bucket(k) < n}, q)
    IN own \o deeper \o DownOcc(E, {i \in BucketsOf(E) : i < lz /\ i < n}, q)

\* Closest(key) (cache.go:195)
ClosestOf(E, n, q) == LET s == ForEachSeq(E, n, q) IN IF s = <<>> THEN <<>> ELSE <<s[1]>>

\* ForEachCloser(x, fn) (cache.go:247): stops at the first entry not closer to x than the locus
RECURSIVE TakeWhileCloser(_, _)
TakeWhileCloser(s, x) ==
    IF s = <<>> THEN <<>>
    ELSE IF DistCmpCoded(x, s[1], Locus) < 0 THEN <<s[1]>> \o TakeWhileCloser(Tail(s), x)
    ELSE <<>>
CloserSeq(E, n, x) == TakeWhileCloser(ForEachSeq(E, n, x), x)

\* ForEachMatching(prefix, nbits, fn) (cache.go:232)
MatchingSeq(E, n, prefix, nbits) ==
    LET l == (nbits + 7) \div 8
        s == ForEachSeq(E, n, SubSeq(prefix, 1, l))
    IN SelectSeq(s, LAMBDA k : HasPrefix(k, prefix, nbits))

\* WouldPut(key) (cache.go:127)
WouldPutOf(E, n, c, k) ==
    LET i == Bucket(k) IN
    \/ c + 1 <= cmax
    \/ i >= n
    \/ k \in DOMAIN E
    \/ \E j \in 0..(i - 1) : Cardinality(InB(E, j)) > cmin      \* a farther bucket has something to evict

-----------------------------------------------------------------------------
(* Property operators (C18, C19).  They mention only the observable state  *)
(* (E = contents, c = reported count) so KadCacheTrace evaluates the same   *)
(* operators on the recorded projection of the real object.                 *)

CountExactP(E, c) == c = Cardinality(DOMAIN E)
BoundedP(E, c) == Cardinality(DOMAIN E) <= cmax /\ c <= cmax

IsPermOf(s, S) == /\ Len(s) = Cardinality(S)
                  /\ {s[i] : i \in 1..Len(s)} = S
SortedBy(s, q) == \A i \in 1..(Len(s) - 1) : DistLeq(q, s[i], s[i + 1])

\* C19: an enumeration s relative to q over contents E
ForEachOK(E, q, s) == IsPermOf(s, DOMAIN E) /\ SortedBy(s, q)
ClosestOK(E, q, c) == IF DOMAIN E = {} THEN c = <<>>
                      ELSE /\ Len(c) = 1 /\ c[1] \in DOMAIN E
                           /\ \A k \in DOMAIN E : DistLeq(q, c[1], k)
CloserOK(E, x, s) == /\ {s[i] : i \in 1..Len(s)} = {k \in DOMAIN E : DistLt(x, k, Locus)}
                     /\ Len(s) = Cardinality({s[i] : i \in 1..Len(s)})
MatchingOK(E, prefix, nbits, s) ==
                     /\ {s[i] : i \in 1..Len(s)} = {k \in DOMAIN E : HasPrefix(k, prefix, nbits)}
                     /\ Len(s) = Cardinality({s[i] : i \in 1..Len(s)})

\* C18 action-level laws over (E, E', reported result r)
LegalDisappearP(E, E2, r) ==
    \A k \in (DOMAIN E) \ (DOMAIN E2) :
        \/ r.op = "delete" /\ r.key = k /\ r.deleted
        \/ r.op = "expire" /\ Expired(E[k], r.t) /\ k \in r.out
        \/ r.op \in {"put", "touch"} /\ r.hasEv /\ r.ev = k

OnlyAddsKeyP(E, E2, r) ==
    \A k \in (DOMAIN E2) \ (DOMAIN E) : r.op \in {"put", "touch"} /\ r.key = k

\* a stored value changes only by a Put/Update of that very key (=> lookups return the latest value)
UnrelatedUntouchedP(E, E2, r) ==
    \A k \in (DOMAIN E) \cap (DOMAIN E2) :
        (E2[k].v # E[k].v) => (r.op \in {"put", "touch"} /\ r.key = k)

\* the victim is never closer to the locus than a kept entry that sits outside the per-bucket minimum
NoCloserVictimP(E, E2, r) ==
    (r.op \in {"put", "touch"} /\ r.hasEv) =>
        LET E1 == (DOMAIN E) \cup {r.key}
            cnt(i) == Cardinality({k \in E1 : Bucket(k) = i})
        IN /\ r.ev \in E1
           /\ \A k \in E1 \ {r.ev} : Bucket(k) < Bucket(r.ev) => cnt(Bucket(k)) <= cmin
           /\ r.added = (r.ev # r.key)

\* the victim comes from a NON-PROTECTED bucket (one holding more than the per-bucket minimum, counting the entry
\* being put) whenever such a bucket exists; only when every bucket is within its minimum may a protected one pay
VictimUnprotectedP(E, E2, r) ==
    (r.op \in {"put", "touch"} /\ r.hasEv) =>
        LET E1 == (DOMAIN E) \cup {r.key}
            cnt(i) == Cardinality({k \in E1 : Bucket(k) = i})
        IN r.ev \in E1 =>
             \/ cnt(Bucket(r.ev)) > cmin
             \/ \A k \in E1 : cnt(Bucket(k)) <= cmin

ReportedVictimGoneP(E, E2, r) ==
    (r.op \in {"put", "touch"} /\ r.hasEv) => r.ev \notin DOMAIN E2

EvictOnlyWhenFullP(E, E2, r) ==
    (r.op \in {"put", "touch"} /\ r.hasEv) => Cardinality((DOMAIN E) \cup {r.key}) > cmax

ExpireExactP(E, E2, r) ==
    r.op = "expire" =>
        /\ DOMAIN E2 = {k \in DOMAIN E : ~Expired(E[k], r.t)}
        /\ r.out = (DOMAIN E) \ (DOMAIN E2)

DeleteExactP(E, E2, r) ==
    r.op = "delete" => /\ DOMAIN E2 = (DOMAIN E) \ {r.key}
                       /\ r.deleted = (r.key \in DOMAIN E)

PutStoresP(E, E2, r, v, c, e) ==
    (r.op = "put" /\ cmax > 0 /\ ~(r.hasEv /\ r.ev = r.key)) =>
        /\ r.key \in DOMAIN E2
        /\ E2[r.key] = [v |-> v, c |-> c, e |-> e]
        /\ r.added = (r.key \notin DOMAIN E)

-----------------------------------------------------------------------------
(* Invariants and action properties of the model                            *)

TypeOK ==
    /\ DOMAIN ents \subseteq Keys
    /\ nb \in 0..NBuckets
    /\ count \in Int
    /\ panicked \in BOOLEAN

CountExact == CountExactP(ents, count)
Bounded == BoundedP(ents, count)
NoPanic == ~panicked
BucketsCover == \A k \in DOMAIN ents : Bucket(k) < nb
\* minExpiresAt is a lower bound of the non-zero expiry times of its bucket (what Expire relies on)
MinExpSound == \A k \in DOMAIN ents : ents[k].e # 0 =>
                   (minExp[Bucket(k)] # 0 /\ minExp[Bucket(k)] <= ents[k].e)

\* (one evaluation of the enumeration per query key)
ForEachSorted == \A q \in Queries :
                    LET s == ForEachSeq(ents, nb, q) IN
                    /\ ForEachOK(ents, q, s)
                    /\ ClosestOK(ents, q, IF s = <<>> THEN <<>> ELSE <<s[1]>>)       \* ClosestIsMin
                    /\ CloserOK(ents, q, TakeWhileCloser(s, q))                      \* CloserExact
ClosestIsMin == \A q \in Queries : ClosestOK(ents, q, ClosestOf(ents, nb, q))
CloserExact == \A q \in Queries : CloserOK(ents, q, CloserSeq(ents, nb, q))
\* prefix lengths at byte boundaries and their neighbours (the replayer uses the same sample)
MatchBits == {0, 1, 2, 5, 7, 8, 9, 15, 16, 17, 24}
MatchingExact == \A q \in Queries : \A nbits \in MatchBits \cap 0..(8 * Len(q)) :
                     MatchingOK(ents, q, nbits, MatchingSeq(ents, nb, q, nbits))
GetFaithful == \A k \in Keys : GetOf(ents, nb, k) = (IF k \in DOMAIN ents THEN ents[k].v ELSE 0)
\* WouldPut never says "no" to a key that Put would in fact keep
WouldPutSound == \A k \in Keys : (k \in DOMAIN ents) => WouldPutOf(ents, nb, count, k)

StepLaws ==
    /\ LegalDisappearP(ents, ents', last')
    /\ OnlyAddsKeyP(ents, ents', last')
    /\ UnrelatedUntouchedP(ents, ents', last')
    /\ NoCloserVictimP(ents, ents', last')
    /\ VictimUnprotectedP(ents, ents', last')
    /\ ReportedVictimGoneP(ents, ents', last')
    /\ EvictOnlyWhenFullP(ents, ents', last')
    /\ ExpireExactP(ents, ents', last')
    /\ DeleteExactP(ents, ents', last')
StepLawsProp == [][StepLaws]_vars

=============================================================================
