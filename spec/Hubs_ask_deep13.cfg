SPECIFICATION Spec
CONSTANTS
  Hub = "ask"
  D = {d1, d2, d3}
  R = {r1, r2}
  C = {c1}
  P = {}
  Cap = 0
  BugNoClosedCase = FALSE
  BugNilErr = FALSE
INVARIANTS Safety
PROPERTIES EndsPromptly
CHECK_DEADLOCK FALSE
