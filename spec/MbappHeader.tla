----------------------------- MODULE MbappHeader -----------------------------
(***************************************************************************)
(* mbapp.Header (/repo/p/mbapp/message.go): six big-endian words of W bits *)
(* (Go: W = 32, HeaderSize = 24 bytes)                                     *)
(*                                                                         *)
(*    word 0   ask(1) reply(1) | unused mode bits | response code (W/4)    *)
(*    word 1   origin time (PhaseTime32)                                   *)
(*    word 2   counter                                                     *)
(*    word 3   total size                                                  *)
(*    word 4   part index (W/2) | part count (W/2)                         *)
(*    word 5   timeout (ms)                                                *)
(*                                                                         *)
(* Two descriptions of the codec: the LAYOUT (a field is a range of bits,  *)
(* most significant bit of word 0 first: Get / Set) and the code AS CODED  *)
(* (read-modify-write of a word with masks and shifts, in integer          *)
(* arithmetic: CodedGet / CodedSet).  TLC checks over scaled words (W = 4, *)
(* 8) that they agree and that the laws hold; at W = 32 (word values do    *)
(* not fit TLC's integers) the module is the case generator and            *)
(* MbappHeaderTrace evaluates the laws, over bits, on what the real        *)
(* setters and getters did.                                                *)
(*                                                                         *)
(* A case is (h, f, v): the header before, the field, and the integer the  *)
(* sender holds (IW bits, wider than any field: Swarm.send converts an int *)
(* with uint16(partCount) / uint32(totalSize), the conversion truncates).  *)
(***************************************************************************)
EXTENDS Integers, Sequences, FiniteSets, TLC, Json

CONSTANTS W,          \* bits per word
          IW,         \* bits of the sender's integer
          AllBits,    \* TRUE: one-hot / one-cold headers for every bit; FALSE: for the field boundaries only
          AllValues   \* TRUE: every IW-bit value; FALSE: value classes

ASSUME Shape == W \in Nat /\ W % 4 = 0 /\ IW > W

VARIABLES h, f, v

NWords == 6
HBits == NWords * W
EW == W \div 4
HW == W \div 2
Fields == {"ask", "reply", "err", "origin", "counter", "size", "pidx", "pcnt", "timeout"}
Flags == {"ask", "reply"}
Off == [ask |-> 0, reply |-> 1, err |-> W - EW, origin |-> W, counter |-> 2 * W, size |-> 3 * W,
        pidx |-> 4 * W, pcnt |-> 4 * W + HW, timeout |-> 5 * W]
Wid == [ask |-> 1, reply |-> 1, err |-> EW, origin |-> W, counter |-> W, size |-> W,
        pidx |-> HW, pcnt |-> HW, timeout |-> W]

-----------------------------------------------------------------------------
(* the layout *)
Trunc(x, w) == SubSeq(x, Len(x) - w + 1, Len(x))           \* the low w bits
Get(hd, fl) == SubSeq(hd, Off[fl] + 1, Off[fl] + Wid[fl])
Set(hd, fl, x) == [i \in 1..Len(hd) |-> IF i > Off[fl] /\ i <= Off[fl] + Wid[fl] THEN Trunc(x, Wid[fl])[i - Off[fl]] ELSE hd[i]]
GetAll(hd) == [g \in Fields |-> Get(hd, g)]

-----------------------------------------------------------------------------
(* message.go as coded, over word values *)
RECURSIVE Val(_)
Val(b) == IF b = <<>> THEN 0 ELSE 2 * Val(SubSeq(b, 1, Len(b) - 1)) + b[Len(b)]
Bits(x, n) == [i \in 1..n |-> (x \div (2 ^ (n - i))) % 2]
WordOf == [ask |-> 0, reply |-> 0, err |-> 0, origin |-> 1, counter |-> 2, size |-> 3, pidx |-> 4, pcnt |-> 4, timeout |-> 5]
GetWord(hd, k) == Val(SubSeq(hd, k * W + 1, (k + 1) * W))                                  \* getUint32 (message.go:129)
PutWord(hd, k, x) == [i \in 1..Len(hd) |-> IF i > k * W /\ i <= (k + 1) * W THEN Bits(x, W)[i - k * W] ELSE hd[i]]   \* setUint32
BitOf(x, b) == (x \div (2 ^ b)) % 2                                                         \* getBit (message.go:160)
SetBitTo(x, b, yes) == IF yes THEN (IF BitOf(x, b) = 1 THEN x ELSE x + 2 ^ b)               \* setBit / unsetBit
                       ELSE (IF BitOf(x, b) = 1 THEN x - 2 ^ b ELSE x)
AskBit == W - 1      \* isAskBit = 31
ReplyBit == W - 2    \* isReplyBit = 30
\* the parameter conversion at the call site (uint8(..), uint16(..), uint32(..)), then the setter's update of the word
CodedWord(x, fl, a) ==
    CASE fl = "ask" -> SetBitTo(x, AskBit, a % 2 = 1)
      [] fl = "reply" -> SetBitTo(x, ReplyBit, a % 2 = 1)
      [] fl = "err" -> (x - (x % (2 ^ EW))) + (a % (2 ^ EW))                    \* x &= ^0xFF; x |= 0xFF & v
      [] fl = "pidx" -> (x % (2 ^ HW)) + (a % (2 ^ HW)) * (2 ^ HW)            \* x&0x0000_FFFF | v<<16
      [] fl = "pcnt" -> (x - (x % (2 ^ HW))) + (a % (2 ^ HW))                   \* x&0xFFFF_0000 | v
      [] OTHER -> a % (2 ^ W)                                                 \* setUint32
CodedSet(hd, fl, a) == PutWord(hd, WordOf[fl], CodedWord(GetWord(hd, WordOf[fl]), fl, a))
CodedGet(hd, fl) ==
    LET x == GetWord(hd, WordOf[fl]) IN
    CASE fl = "ask" -> BitOf(x, AskBit)
      [] fl = "reply" -> BitOf(x, ReplyBit)
      [] fl = "err" -> x % (2 ^ EW)
      [] fl = "pidx" -> x \div (2 ^ HW)
      [] fl = "pcnt" -> x % (2 ^ HW)
      [] OTHER -> x

-----------------------------------------------------------------------------
(* Laws over observables: gb / ga = what every getter returned before / after the setter (bits) *)
RoundTripP(fl, x, ga) == ga[fl] = Trunc(x, Wid[fl])
FrameP(fl, gb, ga) == \A g \in Fields \ {fl} : gb[g] = ga[g]
HeaderSizeP(bytes) == bytes * 8 = HBits
\* ParseMessage: a message shorter than the header is an error, any other is split at the header size
ShortRejectedP(n, err, hl, bl) == IF n * 8 < HBits THEN err ELSE ~err /\ hl * 8 = HBits /\ bl = n - hl

\* The flags.  What Swarm.send is asked to emit (swarm.go: Tell, Ask, handleAskRequest; extractErrorCode gives 0 or 0xff)
\* as <<ask, reply, response code # 0>>, and what handleMessage does with each combination as coded (swarm.go:200).
Emits == {<<0, 0, 0>>, <<1, 0, 0>>, <<1, 1, 0>>, <<1, 1, 1>>}
AcceptCoded(a, r) == IF a = 0 THEN "tell" ELSE IF r = 0 THEN "askreq" ELSE "reply"
KindOf(c) == AcceptCoded(c[1], c[2])
Accepted(outcome) == outcome \in {"tell", "askreq", "reply"}
\* exactly the emitted combinations are accepted, each as what it was sent as
FlagsExactP(emitted, a, r, e, outcome) == Accepted(outcome) => <<a, r, e>> \in emitted
FlagsCompleteP(emitted, a, r, e, outcome) == <<a, r, e>> \in emitted => outcome = AcceptCoded(a, r)
\* model fact (recorded finding G07:FlagsExact): as coded the receiver looks at the reply bit and the response code
\* only after it saw the ask bit / the reply bit, so it accepts four combinations no sender emits
LenientCombos == {c \in {0, 1} \X {0, 1} \X {0, 1} : c \notin Emits}

-----------------------------------------------------------------------------
(* Case generator *)
Zeros(n) == [i \in 1..n |-> 0]
Ones(n) == [i \in 1..n |-> 1]
Alt(n, p) == [i \in 1..n |-> (i + p) % 2]
OneHot(n, k) == [i \in 1..n |-> IF i = k THEN 1 ELSE 0]
OneCold(n, k) == [i \in 1..n |-> IF i = k THEN 0 ELSE 1]
BoundaryBits == (UNION {{Off[g], Off[g] + 1, Off[g] + Wid[g], Off[g] + Wid[g] + 1} : g \in Fields}) \cap (1..HBits)
HotBits == IF AllBits THEN 1..HBits ELSE BoundaryBits
HeaderClasses == {Zeros(HBits), Ones(HBits), Alt(HBits, 0), Alt(HBits, 1)}
                 \cup {OneHot(HBits, k) : k \in HotBits} \cup {OneCold(HBits, k) : k \in HotBits}
\* the value whose set bits are the positions S (0 = least significant)
FromLow(S) == [i \in 1..IW |-> IF (IW - i) \in S THEN 1 ELSE 0]
ValueClasses(fl) ==
    LET w == Wid[fl] IN
    IF fl \in Flags THEN {FromLow({}), FromLow({0})}
    ELSE IF AllValues THEN [1..IW -> {0, 1}]
    ELSE {FromLow(S) : S \in {{}, {0}, 0..(w - 1), 1..(w - 1), {w - 1}, {w - 2}, {w}, {w, 0}, 0..(IW - 1), w..(IW - 1),
                              {k \in 0..(IW - 1) : k % 2 = 0}, {k \in 0..(IW - 1) : k % 2 = 1}}
                             \cup {{k} : k \in {7, 8, 15, 16, 23, 24} \cap (0..(w - 1))}}

Init == h \in HeaderClasses /\ f \in Fields /\ v \in ValueClasses(f)
Next == UNCHANGED <<h, f, v>>
Spec == Init /\ [][Next]_<<h, f, v>>

\* the layout obeys the laws
LayoutLaws == LET h1 == Set(h, f, v) IN RoundTripP(f, v, GetAll(h1)) /\ FrameP(f, GetAll(h), GetAll(h1)) /\ Len(h1) = HBits
\* the code is the layout (small W only)
CodedIsLayout == LET h1 == CodedSet(h, f, Val(v)) IN
                 /\ h1 = Set(h, f, v)
                 /\ \A g \in Fields : Bits(CodedGet(h1, g), Wid[g]) = Get(h1, g)
\* setters never touch the unused mode bits
UnusedKept == LET h1 == Set(h, f, v) IN \A i \in 3..(W - EW) : h1[i] = h[i]
Dump == PrintT(ToJson(<<"CASE", h, f, v>>))

ASSUME FieldsDisjoint == \A g1, g2 \in Fields : g1 # g2 => (Off[g1] + Wid[g1] <= Off[g2] \/ Off[g2] + Wid[g2] <= Off[g1])
ASSUME FieldsInside == \A g \in Fields : Off[g] >= 0 /\ Off[g] + Wid[g] <= HBits
ASSUME FlagsLenientAsCoded == LenientCombos = {<<0, 0, 1>>, <<0, 1, 0>>, <<0, 1, 1>>, <<1, 0, 1>>}
                              /\ \A c \in Emits : KindOf(c) \in {"tell", "askreq", "reply"}
=============================================================================
