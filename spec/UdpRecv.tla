------------------------------ MODULE UdpRecv ------------------------------
(***************************************************************************)
(* Implementation-shaped model of udpswarm.Swarm.Receive                    *)
(* (/repo/s/udpswarm/udpswarm.go:67-108), the one C13 anchor whose Receive  *)
(* is not a hub: a semaphore (recvSem, capacity 1) serialises the readers,  *)
(* the holder polls the socket with a 25 ms read deadline and looks at its  *)
(* context at the top of every attempt.                                     *)
(*                                                                         *)
(* Go-select idiom as in Hubs.tla.  A reader parked in ReadFromUDP is woken *)
(* only by a datagram (Tell hands it over) or by its read deadline (Tick);  *)
(* Cancel does NOT wake it - that is the window in which a datagram can     *)
(* arrive at a receiver whose context has already ended.                    *)
(*                                                                         *)
(* BugCtxAfterRead models the seeded change "check ctx directly after       *)
(* ReadFromUDP": it also overrides a successful read (datagram dropped).    *)
(***************************************************************************)
EXTENDS Naturals, Sequences, FiniteSets, TLC

CONSTANTS R,                \* receive ops
          M,                \* datagrams (one Tell each)
          BugCtxAfterRead

None == 0

VARIABLES sock,     \* datagrams queued in the socket buffer (loopback: lossless, FIFO)
          sem,      \* holder of recvSem or None
          rpc, rctx, rgot, rres,
          told, cbn, dropped

vars == <<sock, sem, rpc, rctx, rgot, rres, told, cbn, dropped>>

Init == /\ sock = <<>> /\ sem = None
        /\ rpc = [r \in R |-> "idle"] /\ rctx = [r \in R |-> FALSE]
        /\ rgot = [r \in R |-> None] /\ rres = [r \in R |-> "none"]
        /\ told = {} /\ cbn = [m \in M |-> 0] /\ dropped = {}

ParkedAcq == {r \in R : rpc[r] = "parkacq"}
InRead == {r \in R : rpc[r] = "inread"}

\* `<-s.recvSem` (udpswarm.go:79): a sender parked on the full channel completes at once
Release(pc) ==
  IF ParkedAcq # {}
  THEN \E w \in ParkedAcq : sem' = w /\ rpc' = [pc EXCEPT ![w] = "chk"]
  ELSE sem' = None /\ rpc' = pc

RCall(r) == /\ rpc[r] = "idle" /\ rpc' = [rpc EXCEPT ![r] = "acq"]
            /\ UNCHANGED <<sock, sem, rctx, rgot, rres, told, cbn, dropped>>

\* udpswarm.go:72-76  select { s.recvSem <- struct{}{} ; <-ctx.Done() }
RAcq(r) ==
  /\ rpc[r] = "acq"
  /\ \/ sem = None /\ sem' = r /\ rpc' = [rpc EXCEPT ![r] = "chk"] /\ UNCHANGED rres
     \/ rctx[r] /\ rpc' = [rpc EXCEPT ![r] = "ret"] /\ rres' = [rres EXCEPT ![r] = "ctx"] /\ UNCHANGED sem
     \/ sem # None /\ ~rctx[r] /\ rpc' = [rpc EXCEPT ![r] = "parkacq"] /\ UNCHANGED <<sem, rres>>
  /\ UNCHANGED <<sock, rctx, rgot, told, cbn, dropped>>

\* udpswarm.go:94-96  top of the poll loop: if ctx.Err() != nil { return }   (absent in the seeded variant)
RChk(r) ==
  /\ rpc[r] = "chk"
  /\ IF rctx[r] /\ ~BugCtxAfterRead
     THEN /\ Release([rpc EXCEPT ![r] = "ret"]) /\ rres' = [rres EXCEPT ![r] = "ctx"]
     ELSE /\ rpc' = [rpc EXCEPT ![r] = "read"] /\ UNCHANGED <<sem, rres>>
  /\ UNCHANGED <<sock, rctx, rgot, told, cbn, dropped>>

\* the reader r obtains datagram m (from the buffer or directly from a Tell): udpswarm.go:100-103, 78-88
Obtain(r, m, pc) ==
  IF BugCtxAfterRead /\ rctx[r]
  THEN /\ dropped' = dropped \cup {m}                       \* taken off the socket, seen by nobody
       /\ Release([pc EXCEPT ![r] = "ret"]) /\ rres' = [rres EXCEPT ![r] = "ctx"] /\ UNCHANGED rgot
  ELSE /\ Release([pc EXCEPT ![r] = "cb"]) /\ rgot' = [rgot EXCEPT ![r] = m] /\ UNCHANGED <<rres, dropped>>

\* udpswarm.go:97-100  SetReadDeadline; ReadFromUDP
RRead(r) ==
  /\ rpc[r] = "read"
  /\ IF sock # <<>>
     THEN Obtain(r, Head(sock), rpc) /\ sock' = Tail(sock)
     ELSE rpc' = [rpc EXCEPT ![r] = "inread"] /\ UNCHANGED <<sock, sem, rgot, rres, dropped>>
  /\ UNCHANGED <<rctx, told, cbn>>

\* the 25 ms read deadline of a parked reader fires: os.ErrDeadlineExceeded, next attempt
Tick(r) ==
  /\ rpc[r] = "inread"
  /\ IF BugCtxAfterRead /\ rctx[r]
     THEN Release([rpc EXCEPT ![r] = "ret"]) /\ rres' = [rres EXCEPT ![r] = "ctx"]
     ELSE rpc' = [rpc EXCEPT ![r] = "chk"] /\ UNCHANGED <<sem, rres>>
  /\ UNCHANGED <<sock, rctx, rgot, told, cbn, dropped>>

\* a peer's Tell: the datagram reaches the socket; a reader parked in ReadFromUDP gets it at once
Tell(m) ==
  /\ m \notin told /\ told' = told \cup {m}
  /\ IF InRead # {}
     THEN \E r \in InRead : Obtain(r, m, rpc) /\ UNCHANGED sock
     ELSE sock' = Append(sock, m) /\ UNCHANGED <<sem, rpc, rgot, rres, dropped>>
  /\ UNCHANGED <<rctx, cbn>>

RCbBegin(r) == /\ rpc[r] = "cb" /\ rpc' = [rpc EXCEPT ![r] = "incb"] /\ cbn' = [cbn EXCEPT ![rgot[r]] = @ + 1]
               /\ UNCHANGED <<sock, sem, rctx, rgot, rres, told, dropped>>
RCbEnd(r) == /\ rpc[r] = "incb" /\ rpc' = [rpc EXCEPT ![r] = "ret"] /\ rres' = [rres EXCEPT ![r] = "ok"]
             /\ UNCHANGED <<sock, sem, rctx, rgot, told, cbn, dropped>>

\* ctx.Done wakes only an op parked in the select on recvSem
Cancel(r) ==
  /\ ~rctx[r] /\ rpc[r] # "ret"
  /\ rctx' = [rctx EXCEPT ![r] = TRUE]
  /\ IF rpc[r] = "parkacq"
     THEN rpc' = [rpc EXCEPT ![r] = "ret"] /\ rres' = [rres EXCEPT ![r] = "ctx"]
     ELSE UNCHANGED <<rpc, rres>>
  /\ UNCHANGED <<sock, sem, rgot, told, cbn, dropped>>

RStep(r) == RAcq(r) \/ RChk(r) \/ RRead(r) \/ Tick(r) \/ RCbBegin(r) \/ RCbEnd(r)
Next == \/ \E r \in R : RCall(r) \/ Cancel(r) \/ RStep(r)
        \/ \E m \in M : Tell(m)
Spec == Init /\ [][Next]_vars /\ \A r \in R : WF_vars(RStep(r))

----------------------------------------------------------------------------
\* C13: a datagram is never lost because a receiver was cancelled at the same moment:
\* it is still in the socket, or a receiver holds it and runs (ran) its callback
NotLostByCancel == /\ dropped = {}
                   /\ \A m \in told : \/ \E i \in 1..Len(sock) : sock[i] = m
                                      \/ \E r \in R : rgot[r] = m
ExactlyOnce == \A m \in M : cbn[m] <= 1 /\ Cardinality({r \in R : rgot[r] = m}) <= 1
RetTruthful == /\ \A r \in R : (rpc[r] = "ret" /\ rres[r] = "ok") => rgot[r] # None
               /\ \A r \in R : (rpc[r] = "ret" /\ rres[r] = "ctx") => (rctx[r] /\ rgot[r] = None)
OneReader == Cardinality({r \in R : rpc[r] \in {"chk", "read", "inread"}}) <= 1
Safety == NotLostByCancel /\ ExactlyOnce /\ RetTruthful /\ OneReader
\* C13: cancellation is prompt (weak fairness on the op's own steps, the read deadline included)
CancelEnds == \A r \in R : (rctx[r] /\ rpc[r] # "idle") ~> (rpc[r] = "ret")
\* a healthy receiver gets a datagram that is there
Served == \A m \in M : (m \in told /\ \E r \in R : rpc[r] \notin {"idle", "ret"} /\ ~rctx[r]) ~>
                          ((\E r \in R : rgot[r] = m) \/ (\A r \in R : rpc[r] \in {"idle", "ret"} \/ rctx[r]))
=============================================================================
