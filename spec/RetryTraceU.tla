----------------------------- MODULE RetryTraceU -----------------------------
(* The backoff parameters of the cases being validated: those of RetryBackoff.cfg (the driver    *)
(* overwrites this module in its scratch copy when it uses others).                               *)
TExpInit == 100
TExpEvery == 2
TCapAt == 3000
TLinM == 30
TLinB == 100
TFloorAt == 250
=============================================================================
