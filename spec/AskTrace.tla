------------------------------ MODULE AskTrace ------------------------------
(***************************************************************************)
(* Trace specification for C11: the abstract swarm ledger of DESIGN        *)
(* Appendix B folded over a log recorded by harness/cmd/askreplay from the *)
(* real swarms (ndjson, one event per line, sorted by the global sequence  *)
(* number, behaviours separated by "reset" events).                        *)
(*                                                                         *)
(*   Ask(id, asker address, destination, request digest, len(resp))        *)
(*   AskRet(id, n, error class, digest(resp[:n]))                          *)
(*   HBegin(id seen in the payload, invocation, src address, request       *)
(*          digest) / HEnd(id, invocation, n returned, digest(resp[:n]))   *)
(*   Close(node) / CloseRet(node), Cancel(id), Timeout(id)                 *)
(*                                                                         *)
(* The property operators of Ask.tla on these observations:                *)
(*   OwnAnswer       AskRet(ok, n, d) is legal iff some handler invocation *)
(*                   for the SAME request id ended with the same (n, d),   *)
(*                   saw exactly the request digest and the asker's        *)
(*                   address.                                              *)
(*   FailureIsError  AskRet(ok) is illegal if every invocation for the id  *)
(*                   returned n < 0, if the destination's CloseRet         *)
(*                   precedes the Ask call, or if the answer (or n) is     *)
(*                   larger than the buffer; an Ask whose context ended    *)
(*                   must have returned (any Timeout event is illegal).    *)
(* Only Call-before / Ret-after inferences: Ask, Close, Cancel are logged  *)
(* before the call, AskRet and CloseRet after the return, HBegin/HEnd as   *)
(* first/last statement of the handler.                                    *)
(*                                                                         *)
(* Validation never blocks: every line is consumed; falsified operators    *)
(* are printed as <<"VIOL", line, behaviour, {"Operator/cause"}>>, steps   *)
(* that Ask.tla does not predict but that falsify nothing as               *)
(* <<"DRIFT", line, behaviour, {what}>>.                                   *)
(***************************************************************************)
EXTENDS Integers, Sequences, FiniteSets, TLC, Json, IOUtils

Log == ndJsonDeserialize(IOEnv.TRACE)
NShards == atoi(IOEnv.NSHARDS)

VARIABLES l, fresh, starts,
          asked,      \* [id -> [reqd, src, server, buf, late]]        Ask calls
          handled,    \* [id -> set of [n, d, src, reqd]]             finished handler invocations
          hb,         \* [<<id, inv>> -> [src, reqd]]                 handler invocations begun
          closing,    \* nodes whose Close has been called
          closeRet,   \* nodes whose Close has returned
          cancelled   \* ids whose context was ended by the driver
tvars == <<l, fresh, starts, asked, handled, hb, closing, closeRet, cancelled>>

Resets == {i \in 1..Len(Log) : Log[i].ev = "reset"}
ComputeStarts == {1} \cup {CHOOSE i \in Resets : i >= c /\ \A j \in Resets : j >= c => i <= j :
                      c \in {c2 \in {(k * Len(Log)) \div NShards + 1 : k \in 1..(NShards - 1)} :
                                 \E i \in Resets : i >= c2}}

Empty == <<>>      \* the function with empty domain

TraceInit ==
  /\ starts = ComputeStarts /\ l \in starts /\ fresh = TRUE
  /\ asked = Empty /\ handled = Empty /\ hb = Empty
  /\ closing = {} /\ closeRet = {} /\ cancelled = {}

Get(f, k, dflt) == IF k \in DOMAIN f THEN f[k] ELSE dflt

----------------------------------------------------------------------------
(* the operators, on one AskRet(ok) event *)

Matches(a, h, ev) == h.n = ev.n /\ h.d = ev.d /\ h.reqd = a.reqd /\ h.src = a.src

\* FailureIsError: the causes for which a success is illegal
FailureCauses(ev) ==
  LET a == asked[ev.id]
      H == Get(handled, ev.id, {})
      match == \E h \in H : Matches(a, h, ev)
  IN  (IF a.late THEN {"FailureIsError/closed-destination"} ELSE {})
      \cup (IF ev.n > a.buf \/ (~match /\ \E h \in H : h.n > a.buf)
            THEN {"FailureIsError/response-too-long"} ELSE {})
      \cup (IF ~match /\ H # {} /\ \A h \in H : h.n < 0
            THEN {"FailureIsError/negative-return"} ELSE {})

\* OwnAnswer: why the returned bytes are not this request's answer
OwnAnswerCauses(ev) ==
  LET a == asked[ev.id]
      H == Get(handled, ev.id, {})
      match == \E h \in H : Matches(a, h, ev)
  IN  IF match THEN {}
      ELSE IF \E h \in H : h.n = ev.n /\ h.d = ev.d /\ h.src # a.src THEN {"OwnAnswer/wrong-src"}
      ELSE IF \E h \in H : h.n = ev.n /\ h.d = ev.d /\ h.reqd # a.reqd THEN {"OwnAnswer/wrong-request"}
      ELSE IF ev.n > 0 /\ \E h \in Get(handled, -1, {}) : h.d = ev.d THEN {"OwnAnswer/wrong-request"}
      ELSE IF ev.n > 0 /\ \E j \in DOMAIN handled : j # ev.id /\ \E h \in handled[j] : h.d = ev.d
           THEN {"OwnAnswer/crossed"}
      ELSE IF H = {} THEN {"OwnAnswer/no-handler"}
      ELSE {"OwnAnswer/wrong-bytes"}

\* what Ask.tla does not predict: an error although nothing failed
Unexplained(ev) ==
  LET a == asked[ev.id]
      H == Get(handled, ev.id, {})
  IN  /\ ev.err \notin {"ctx", "mtu"}
      /\ ev.id \notin cancelled
      /\ a.server \notin closing
      /\ (H = {} \/ \E h \in H : h.n >= 0 /\ h.n <= a.buf)

----------------------------------------------------------------------------
TraceNext ==
  /\ l <= Len(Log)
  /\ (fresh \/ l \notin starts)
  /\ fresh' = FALSE /\ starts' = starts /\ l' = l + 1
  /\ LET ev == Log[l] IN
     CASE ev.ev = "reset" ->
            /\ asked' = Empty /\ handled' = Empty /\ hb' = Empty
            /\ closing' = {} /\ closeRet' = {} /\ cancelled' = {}
            /\ (ev.info # "ok") => PrintT(ToJson(<<"DRIFT", l, ev.beh, {"build-error"}>>))
       [] ev.ev = "Ask" ->
            /\ asked' = (ev.id :> [reqd |-> ev.reqd, src |-> ev.src, server |-> ev.info, buf |-> ev.buf,
                                   late |-> (ev.info \in closeRet)]) @@ asked
            /\ UNCHANGED <<handled, hb, closing, closeRet, cancelled>>
       [] ev.ev = "HBegin" ->
            /\ hb' = (<<ev.id, ev.inv>> :> [src |-> ev.src, reqd |-> ev.reqd]) @@ hb
            /\ UNCHANGED <<asked, handled, closing, closeRet, cancelled>>
            /\ LET ds == (IF ev.id < 0 THEN {"unknown-request"} ELSE {})
                         \cup (IF ev.id >= 0 /\ ev.inv > 1 THEN {"handled-twice"} ELSE {})
                         \cup (IF ev.id >= 0 /\ ev.id \notin DOMAIN asked THEN {"handler-before-ask"} ELSE {})
               IN (ds # {}) => PrintT(ToJson(<<"DRIFT", l, ev.beh, ds>>))
       [] ev.ev = "HEnd" ->
            /\ LET b == Get(hb, <<ev.id, ev.inv>>, [src |-> "?", reqd |-> "?"])
                   rec == [n |-> ev.n, d |-> ev.d, src |-> b.src, reqd |-> b.reqd]
               IN handled' = (ev.id :> (Get(handled, ev.id, {}) \cup {rec})) @@ handled
            /\ UNCHANGED <<asked, hb, closing, closeRet, cancelled>>
       [] ev.ev = "AskRet" ->
            /\ UNCHANGED <<asked, handled, hb, closing, closeRet, cancelled>>
            /\ IF ev.id \notin DOMAIN asked
               THEN PrintT(ToJson(<<"DRIFT", l, ev.beh, {"ret-without-call"}>>))
               ELSE IF ev.err = "nil"
               THEN LET vs == FailureCauses(ev) \cup OwnAnswerCauses(ev)
                    IN (vs # {}) => PrintT(ToJson(<<"VIOL", l, ev.beh, vs>>))
               ELSE LET ds == (IF Unexplained(ev) THEN {"unexplained-error"} ELSE {})
                              \cup (IF ev.err = "panic" THEN {"panic-in-ask"} ELSE {})
                    IN (ds # {}) => PrintT(ToJson(<<"DRIFT", l, ev.beh, ds>>))
       [] ev.ev = "Close" ->
            /\ closing' = closing \cup {ev.node}
            /\ UNCHANGED <<asked, handled, hb, closeRet, cancelled>>
       [] ev.ev = "CloseRet" ->
            /\ closeRet' = closeRet \cup {ev.node}
            /\ UNCHANGED <<asked, handled, hb, closing, cancelled>>
       [] ev.ev = "Cancel" ->
            /\ cancelled' = cancelled \cup {ev.id}
            /\ UNCHANGED <<asked, handled, hb, closing, closeRet>>
       [] ev.ev = "Timeout" ->
            \* the error must arrive by the deadline: no Timeout event is ever legal
            /\ UNCHANGED <<asked, handled, hb, closing, closeRet, cancelled>>
            /\ PrintT(ToJson(<<"VIOL", l, ev.beh,
                   {IF ev.info = "in-handler" THEN "FailureIsError/deadline-in-handler" ELSE "FailureIsError/deadline"}>>))
       [] ev.ev \in {"Slow", "Stall", "CloseSlow", "ServeNoop", "HarnessStuck", "HarnessPanic"} ->
            /\ UNCHANGED <<asked, handled, hb, closing, closeRet, cancelled>>
            /\ PrintT(ToJson(<<"DRIFT", l, ev.beh, {ev.ev}>>))
       [] OTHER ->
            UNCHANGED <<asked, handled, hb, closing, closeRet, cancelled>>

TraceSpec == TraceInit /\ [][TraceNext]_tvars
AllConsumed == TLCGet("distinct") >= Len(Log) + 1
=============================================================================
