SPECIFICATION Spec
CONSTANTS
  Ks = {6, 10, 40}
  Rs = {8, 15, 60}
  Js = {100}
  Patterns = {"both", "a2b", "b2a"}
  Horizon = 40
INVARIANTS NoIdleTeardown NeverWithoutSession Dump
CHECK_DEADLOCK FALSE
