SPECIFICATION GenSpec
CONSTANTS
  Locus <- L32
  Keys <- K32Keys
  Queries <- K32Queries
  Configs <- K32Configs
  Vals = {1, 2, 3}
  Times = {1, 2, 3, 4}
  TouchTimes = {0, 2, 5}
  ExpTimes = {1, 2, 3, 4, 5}
  Exps = {0, 1, 2, 3, 4}
  MaxOps = 40
CHECK_DEADLOCK FALSE
