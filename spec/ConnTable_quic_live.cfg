SPECIFICATION FairSpec
CONSTANTS
  Nodes = {1, 2}
  Ids = {1, 2, 3}
  Transport = "quic"
  MaxConn = 3
  MaxOps = 2
  MaxEnv = 0
  Fixes <- MCFixes
PROPERTIES AllReturn EventuallyQuiet
CHECK_DEADLOCK FALSE
