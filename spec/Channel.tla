------------------------------ MODULE Channel ------------------------------
(***************************************************************************)
(* Implementation-shaped model of p2pke.Channel (/repo/p/p2pke/channel.go) *)
(* for two endpoints "a" and "b": the three session slots (previous,       *)
(* current, next), promotion, the tie-break between simultaneous           *)
(* handshakes, the acceptance predicate and key continuity, the rekey and  *)
(* handshake timers, and restart of an endpoint (fresh channel, possibly   *)
(* under another key).  Sessions are abstracted to (role, hello id,        *)
(* responder id, progress index, remote key) with Session.Deliver as a     *)
(* pure operator (the exact machine is Session.tla).                       *)
(*                                                                         *)
(* One action per critical section of channel.go.  Real time enters only   *)
(* through RekeyFire (the rekey timer firing after RekeyAfterTime), which  *)
(* is an environment action here; expiry by time is ChannelTime.tla.       *)
(***************************************************************************)
EXTENDS Naturals, Sequences, FiniteSets, TLC

CONSTANTS
    MaxS,           \* total number of sessions that may be created
    MaxRestart,     \* restarts of endpoint "a"
    MaxRekey,       \* rekey-timer expirations
    MaxSendCalls,   \* Send calls per endpoint
    AcceptA, AcceptB,   \* keys each side's AcceptKey predicate accepts
    RestartKeys,    \* keys endpoint "a" may come back with after a restart
    Eager           \* TRUE: zero-delay timers fire before anything else happens (timely timers)

Ch == {"a", "b"}
Peer(c) == IF c = "a" THEN "b" ELSE "a"
Accept(c) == IF c = "a" THEN AcceptA ELSE AcceptB
None == 0

VARIABLES
    S,          \* sequence of session records (index = session id)
    slot,       \* [Ch -> [0..2 -> session id or None]]   previous, current, next
    bound,      \* [Ch -> key or "none"]                  Channel.remoteKey
    rts,        \* [Ch -> Nat]                            Channel.remoteTimestamp
    key,        \* [Ch -> key]                            the endpoint's own key
    pending,    \* [Ch -> Nat]        number of Send calls blocked in getOrInit
    sends,      \* [Ch -> Nat]        Send calls so far
    rekey,      \* [Ch -> {"off","now","later"}]          rekeyTimer: Reset(0) / Reset(RekeyAfterTime)
    hsArmed,    \* [Ch -> BOOLEAN]                        handshakeTimer pending
    net,        \* set of messages (monotone: loss, duplication, reordering, replay for free)
    gen,        \* [Ch -> Nat] incarnation
    restarts, rekeys,
    clock,      \* hello timestamps (strictly increasing per created initiator session)
    appFrom,    \* ghost: [Ch -> set of <<key, data id>>] application data handed up, with the bound key at that time
    sentTo,     \* ghost: [Ch -> set of keys] remote keys of sessions used to encrypt application data
    everBound,  \* ghost: [Ch -> set of keys] every value `bound` had in this incarnation
    dup,        \* ghost: TRUE once one data record was handed up twice by one endpoint incarnation
    last
vars == <<S, slot, bound, rts, key, pending, sends, rekey, hsArmed, net, gen, restarts, rekeys, clock, appFrom, sentTo, everBound, dup, last>>
view == <<S, slot, bound, rts, key, pending, sends, rekey, hsArmed, net, gen, restarts, rekeys, clock, appFrom, sentTo, everBound, dup>>

\* session record: own, gen, init, h (hello id = id of the initiator session), ts (hello timestamp),
\* hkey (key claimed in the hello), rs (responder session id), hs, rkey, nout (data counter)
Ready(SS, s) == IF SS[s].init THEN SS[s].hs >= 4 ELSE SS[s].hs >= 3
CanRecv(SS, s) == SS[s].hs >= 2

Msg(t, h, rs, to) == [t |-> t, h |-> h, rs |-> rs, to |-> to, fromInit |-> FALSE, n |-> 0]
Data(h, rs, to, fromInit, n) == [t |-> "DATA", h |-> h, rs |-> rs, to |-> to, fromInit |-> fromInit, n |-> n]
Even(t) == t \in {"IH", "ID"}

\* writeHandshake: the session's current handshake message, as a set
Cur(SS, s) == LET r == SS[s] IN
    IF r.init /\ r.hs = 0 THEN {Msg("IH", r.h, None, Peer(r.own))}
    ELSE IF r.init /\ r.hs = 2 THEN {Msg("ID", r.h, r.rs, Peer(r.own))}
    ELSE IF ~r.init /\ r.hs = 1 THEN {Msg("RH", r.h, s, Peer(r.own))}
    ELSE IF ~r.init /\ r.hs = 3 THEN {Msg("RD", r.h, s, Peer(r.own))}
    ELSE {}

\* Session.Deliver as a pure operator: [err, app, hs, rs, rkey]
Res(err, app, hs, rs, rkey, seen) == [err |-> err, app |-> app, hs |-> hs, rs |-> rs, rkey |-> rkey, seen |-> seen]
Same(r, err) == Res(err, FALSE, r.hs, r.rs, r.rkey, r.seen)
SDeliver(SS, s, m) == LET r == SS[s] IN
    IF m.t = "DATA" THEN
        IF ~CanRecv(SS, s) THEN Same(r, TRUE)
        ELSE IF m.h = r.h /\ m.rs = (IF r.init THEN r.rs ELSE s) /\ m.fromInit # r.init
             THEN IF m.n \in r.seen THEN Same(r, FALSE)       \* replay filter: (false, nil, nil)
                  ELSE Res(FALSE, TRUE, 8, r.rs, r.rkey, r.seen \cup {m.n})
             ELSE Same(r, TRUE)
    ELSE IF r.init /\ r.hs = 0 /\ m.t = "RH" THEN
        IF m.h = r.h THEN Res(FALSE, FALSE, 2, m.rs, SS[m.rs].okey, r.seen) ELSE Same(r, TRUE)
    ELSE IF ~r.init /\ r.hs = 1 /\ m.t = "ID" THEN
        IF m.h = r.h /\ m.rs = s THEN Res(FALSE, FALSE, 3, r.rs, r.rkey, r.seen) ELSE Same(r, TRUE)
    ELSE IF r.init /\ r.hs = 2 /\ m.t = "RD" THEN
        IF m.h = r.h /\ m.rs = r.rs THEN Res(FALSE, FALSE, 4, r.rs, r.rkey, r.seen) ELSE Same(r, TRUE)
    ELSE IF (r.init /\ ~Even(m.t)) \/ (~r.init /\ Even(m.t)) THEN
        \* only an exact repeat of a consumed handshake message is answered again (session.go readHandshake)
        IF \/ (~r.init /\ m.t = "IH" /\ r.hs >= 1 /\ m.h = r.h)
           \/ (r.init /\ m.t = "RH" /\ r.hs >= 2 /\ m.h = r.h /\ m.rs = r.rs)
           \/ (~r.init /\ m.t = "ID" /\ r.hs >= 3 /\ m.h = r.h /\ m.rs = s)
           \/ (r.init /\ m.t = "RD" /\ r.hs >= 4 /\ m.h = r.h /\ m.rs = r.rs)
        THEN Same(r, FALSE) ELSE Same(r, TRUE)
    ELSE Same(r, TRUE)

Upd(SS, s, res) == [SS EXCEPT ![s].hs = res.hs, ![s].rs = res.rs, ![s].rkey = res.rkey, ![s].seen = res.seen]

\* checkKey (channel.go:371)
CheckKey(c, k) == IF bound[c] # "none" THEN bound[c] = k ELSE k \in Accept(c)

\* Channel.Deliver's loop over the slots (channel.go:143) as a recursive walk from slot i.
\* W: [S, sl, bnd, rts, out, rekey, app (session that produced app data or None), done]
W(SS, sl, bnd, rt, out, rk, app, done) ==
    [S |-> SS, sl |-> sl, bnd |-> bnd, rts |-> rt, out |-> out, rekey |-> rk, app |-> app, done |-> done]
RECURSIVE Walk(_, _, _, _, _)
Walk(c, m, i, SS, sl) ==
    IF i > 2 THEN W(SS, sl, bound[c], rts[c], {}, rekey[c], None, FALSE)
    ELSE LET s == sl[i] IN
    IF s = None THEN Walk(c, m, i + 1, SS, sl)
    ELSE LET res == SDeliver(SS, s, m) IN
    IF res.err THEN Walk(c, m, i + 1, SS, sl)
    ELSE LET SS2 == Upd(SS, s, res)
             becameReady == ~Ready(SS, s) /\ Ready(SS2, s)
         IN
    IF becameReady THEN
        \* onReadySession (channel.go:332): checkKey, then promote; the session is in slot 2
        IF ~CheckKey(c, SS2[s].rkey)
        THEN W(SS2, [sl EXCEPT ![2] = None], bound[c], rts[c], {}, rekey[c], None, TRUE)     \* "wrong peer": dropped, data too
        ELSE LET sl2 == [sl EXCEPT ![0] = sl[1], ![1] = s, ![2] = None]
                 rk2 == IF SS2[s].init THEN "later" ELSE rekey[c]
             IN IF res.app THEN W(SS2, sl2, SS2[s].rkey, SS2[s].ts, {}, rk2, s, TRUE)
                \* (promotion happens in slot 2, the last one: with or without a reply the loop is over)
                ELSE W(SS2, sl2, SS2[s].rkey, SS2[s].ts, Cur(SS2, s), rk2, None, TRUE)
    ELSE IF res.app THEN W(SS2, sl, bound[c], rts[c], {}, rekey[c], s, TRUE)
    ELSE IF Cur(SS2, s) = {} THEN Walk(c, m, i + 1, SS2, sl)
    ELSE W(SS2, sl, bound[c], rts[c], Cur(SS2, s), rekey[c], None, TRUE)

NewSess(c, init, h, ts, hkey, hs, rkey) ==
    [own |-> c, gen |-> gen[c], okey |-> key[c], init |-> init, h |-> h, ts |-> ts, hkey |-> hkey,
     rs |-> None, hs |-> hs, rkey |-> rkey, nout |-> 0, seen |-> {}]

Deliver(c, m) ==
    /\ m \in net /\ m.to = c
    /\ LET w == Walk(c, m, 0, S, slot[c]) IN
       IF w.done \/ m.t # "IH"
       THEN /\ S' = w.S /\ slot' = [slot EXCEPT ![c] = w.sl] /\ bound' = [bound EXCEPT ![c] = w.bnd]
            /\ rts' = [rts EXCEPT ![c] = w.rts]
            /\ net' = net \cup w.out /\ rekey' = [rekey EXCEPT ![c] = w.rekey]
            /\ appFrom' = IF w.app = None THEN appFrom ELSE [appFrom EXCEPT ![c] = @ \cup {<<w.bnd, m.n, m.h>>}]
            /\ dup' = (dup \/ (w.app # None /\ \E x \in appFrom[c] : x[2] = m.n /\ x[3] = m.h))
            /\ everBound' = [everBound EXCEPT ![c] = @ \cup ({w.bnd} \ {"none"})]
            /\ last' = [a |-> "deliver", c |-> c, m |-> m, app |-> (w.app # None), err |-> ~w.done, out |-> w.out]
            /\ UNCHANGED <<hsArmed, key, pending, sends, gen, restarts, rekeys, clock, sentTo>>
       ELSE \* an InitHello no session took: repeated hello?  otherwise newResp + proposeNewSession
       IF \E i \in 0..2 : w.sl[i] # None /\ w.S[w.sl[i]].h = m.h
       THEN /\ S' = w.S /\ last' = [a |-> "deliver", c |-> c, m |-> m, app |-> FALSE, err |-> FALSE, out |-> {}]
            /\ UNCHANGED <<dup, slot, bound, rts, net, rekey, appFrom, everBound, hsArmed, key, pending, sends, gen, restarts, rekeys, clock, sentTo>>
       ELSE LET ih == S[m.h] IN
       IF ih.ts < rts[c] \/ ~CheckKey(c, ih.hkey) \/ Len(w.S) >= MaxS
       THEN /\ S' = w.S /\ last' = [a |-> "deliver", c |-> c, m |-> m, app |-> FALSE, err |-> TRUE, out |-> {}]
            /\ UNCHANGED <<dup, slot, bound, rts, net, rekey, appFrom, everBound, hsArmed, key, pending, sends, gen, restarts, rekeys, clock, sentTo>>
       ELSE LET n == Len(w.S) + 1
                SS == Append(w.S, NewSess(c, FALSE, m.h, ih.ts, ih.hkey, 1, ih.hkey))
                cur2 == w.sl[2]
            IN IF cur2 # None /\ SS[cur2].h < m.h
               THEN \* keep the existing prospective session and answer with ITS handshake message
                    /\ S' = w.S /\ net' = net \cup Cur(w.S, cur2)
                    /\ rekey' = [rekey EXCEPT ![c] = IF w.S[cur2].init THEN "later" ELSE @]
                    /\ last' = [a |-> "deliver", c |-> c, m |-> m, app |-> FALSE, err |-> FALSE, out |-> Cur(w.S, cur2),
                                cmp |-> <<SS[cur2].h, m.h>>]       \* the two hello ids whose order decided
                    /\ UNCHANGED <<dup, slot, bound, rts, appFrom, everBound, hsArmed, key, pending, sends, gen, restarts, rekeys, clock, sentTo>>
               ELSE /\ S' = SS /\ slot' = [slot EXCEPT ![c] = [w.sl EXCEPT ![2] = n]]
                    /\ net' = net \cup Cur(SS, n)
                    /\ last' = [a |-> "deliver", c |-> c, m |-> m, app |-> FALSE, err |-> FALSE, out |-> Cur(SS, n),
                                cmp |-> IF cur2 # None THEN <<SS[cur2].h, m.h>> ELSE <<>>]
                    /\ UNCHANGED <<dup, bound, rts, rekey, appFrom, everBound, hsArmed, key, pending, sends, gen, restarts, rekeys, clock, sentTo>>

\* Send -> getOrInit (channel.go:409): no current session: make sure a handshake is under way and wait
SendCall(c) ==
    /\ sends[c] < MaxSendCalls
    /\ sends' = [sends EXCEPT ![c] = @ + 1]
    /\ pending' = [pending EXCEPT ![c] = @ + 1]
    /\ rekey' = [rekey EXCEPT ![c] = IF slot[c][1] = None /\ slot[c][2] = None THEN "now" ELSE @]
    /\ last' = [a |-> "sendcall", c |-> c]
    /\ UNCHANGED <<S, slot, bound, rts, key, hsArmed, net, gen, restarts, rekeys, clock, appFrom, sentTo, everBound, dup>>

\* the blocked Send finds a current session (woken through `ready`) and encrypts with it
SendCommit(c) ==
    /\ pending[c] > 0 /\ slot[c][1] # None
    /\ LET s == slot[c][1]
           d == Data(S[s].h, (IF S[s].init THEN S[s].rs ELSE s), Peer(c), S[s].init, S[s].nout) IN
       /\ net' = net \cup {d}
       /\ S' = [S EXCEPT ![s].nout = @ + 1]
       /\ sentTo' = [sentTo EXCEPT ![c] = @ \cup {S[s].rkey}]
       /\ last' = [a |-> "sendcommit", c |-> c, out |-> {d}]
    /\ pending' = [pending EXCEPT ![c] = @ - 1]
    /\ UNCHANGED <<slot, bound, rts, key, sends, rekey, hsArmed, gen, restarts, rekeys, clock, appFrom, everBound, dup>>

\* onRekey (channel.go:438)
OnRekey(c) ==
    /\ rekey[c] = "now"
    /\ rekey' = [rekey EXCEPT ![c] = IF slot[c][2] = None /\ Len(S) < MaxS THEN "later" ELSE "off"]
    /\ IF slot[c][2] = None /\ Len(S) < MaxS
       THEN LET n == Len(S) + 1 IN
            /\ S' = Append(S, NewSess(c, TRUE, n, clock + 1, key[c], 0, "none"))
            /\ slot' = [slot EXCEPT ![c][2] = n]
            /\ clock' = clock + 1
            /\ hsArmed' = [hsArmed EXCEPT ![c] = TRUE]
       ELSE UNCHANGED <<S, slot, clock, hsArmed>>
    /\ last' = [a |-> "onrekey", c |-> c]
    /\ UNCHANGED <<bound, rts, key, pending, sends, net, gen, restarts, rekeys, appFrom, sentTo, everBound, dup>>

\* the rekey timer expires after RekeyAfterTime (environment: time passes)
RekeyFire(c) ==
    /\ rekey[c] = "later" /\ rekeys < MaxRekey
    /\ rekeys' = rekeys + 1
    /\ rekey' = [rekey EXCEPT ![c] = "now"]
    /\ last' = [a |-> "rekeyfire", c |-> c]
    /\ UNCHANGED <<S, slot, bound, rts, key, pending, sends, hsArmed, net, gen, restarts, clock, appFrom, sentTo, everBound, dup>>

\* onHandshake (channel.go:454): send the handshake message of every session that is not ready
\* (the timer re-arms itself every HandshakeBackoff while there is something to send; a firing that
\* only repeats messages already on the monotone network changes nothing and is left out)
HsOuts(c) == UNION {IF slot[c][i] # None /\ ~Ready(S, slot[c][i]) THEN Cur(S, slot[c][i]) ELSE {} : i \in 0..2}
HsDue(c) == hsArmed[c] /\ (HsOuts(c) = {} \/ ~(HsOuts(c) \subseteq net))
OnHandshake(c) ==
    /\ HsDue(c)
    /\ net' = net \cup HsOuts(c)
    /\ hsArmed' = [hsArmed EXCEPT ![c] = (HsOuts(c) # {})]
    /\ last' = [a |-> "onhandshake", c |-> c, out |-> HsOuts(c)]
    /\ UNCHANGED <<S, slot, bound, rts, key, pending, sends, rekey, gen, restarts, rekeys, clock, appFrom, sentTo, everBound, dup>>

\* endpoint "a" restarts: a fresh Channel (possibly under another key) at the same address
Restart(k) ==
    /\ restarts < MaxRestart /\ restarts' = restarts + 1
    /\ gen' = [gen EXCEPT !["a"] = @ + 1]
    /\ key' = [key EXCEPT !["a"] = k]
    /\ slot' = [slot EXCEPT !["a"] = [i \in 0..2 |-> None]]
    /\ bound' = [bound EXCEPT !["a"] = "none"] /\ rts' = [rts EXCEPT !["a"] = 0]
    /\ pending' = [pending EXCEPT !["a"] = 0]
    /\ rekey' = [rekey EXCEPT !["a"] = "off"] /\ hsArmed' = [hsArmed EXCEPT !["a"] = FALSE]
    /\ everBound' = [everBound EXCEPT !["a"] = {}]
    /\ appFrom' = [appFrom EXCEPT !["a"] = {}] /\ sentTo' = [sentTo EXCEPT !["a"] = {}]
    /\ last' = [a |-> "restart", c |-> "a", key |-> k]
    /\ UNCHANGED <<S, sends, net, rekeys, clock, dup>>

Init ==
    /\ S = <<>> /\ slot = [c \in Ch |-> [i \in 0..2 |-> None]]
    /\ bound = [c \in Ch |-> "none"] /\ rts = [c \in Ch |-> 0]
    /\ key = [c \in Ch |-> IF c = "a" THEN "A" ELSE "B"]
    /\ pending = [c \in Ch |-> 0] /\ sends = [c \in Ch |-> 0]
    /\ rekey = [c \in Ch |-> "off"] /\ hsArmed = [c \in Ch |-> FALSE]
    /\ net = {} /\ gen = [c \in Ch |-> 0] /\ restarts = 0 /\ rekeys = 0 /\ clock = 0
    /\ appFrom = [c \in Ch |-> {}] /\ sentTo = [c \in Ch |-> {}] /\ everBound = [c \in Ch |-> {}] /\ dup = FALSE
    /\ last = [a |-> "init"]

TimerDue == \E c \in Ch : rekey[c] = "now" \/ HsDue(c) \/ (pending[c] > 0 /\ slot[c][1] # None)
Timers == \E c \in Ch : OnRekey(c) \/ OnHandshake(c) \/ SendCommit(c)
Env == \/ \E c \in Ch : SendCall(c) \/ RekeyFire(c) \/ \E m \in net : Deliver(c, m)
       \/ \E k \in RestartKeys : Restart(k)
Next == IF Eager /\ TimerDue THEN Timers ELSE (Timers \/ Env)

\* fairness: timers fire, and the (reliable) network eventually delivers EVERY message it carries
\* (per message, not per message type: retransmissions of an old message must not starve a new one)
Ids == 1..MaxS
Fair == \A c \in Ch :
            /\ WF_vars(SendCommit(c)) /\ WF_vars(OnRekey(c)) /\ WF_vars(OnHandshake(c))
            /\ \A t \in {"IH", "RH", "ID", "RD"}, h \in Ids, rs \in {None} \cup Ids : WF_vars(Deliver(c, Msg(t, h, rs, c)))
            /\ \A h \in Ids, rs \in Ids, fi \in BOOLEAN, n \in 0..(MaxSendCalls - 1) : WF_vars(Deliver(c, Data(h, rs, c, fi, n)))
Spec == Init /\ [][Next]_vars
FairSpec == Spec /\ Fair

-----------------------------------------------------------------------------
(* Properties *)

\* the code's own slot invariant (channel.go:56): previous and current ready, next not ready
SlotsWellFormed == \A c \in Ch : /\ (slot[c][0] # None => Ready(S, slot[c][0]))
                                 /\ (slot[c][1] # None => Ready(S, slot[c][1]))
                                 /\ (slot[c][2] # None => ~Ready(S, slot[c][2]))

(* C05 *)
\* ready / data from / data to only for an accepted key
OnlyAccepted == \A c \in Ch : /\ everBound[c] \subseteq Accept(c)
                              /\ {x[1] : x \in appFrom[c]} \subseteq Accept(c)
                              /\ sentTo[c] \subseteq Accept(c)
\* the same key forever (per incarnation)
Continuity == \A c \in Ch : Cardinality(everBound[c]) <= 1
                            /\ \A s \in {slot[c][0], slot[c][1]} \ {None} : S[s].rkey = bound[c]
\* a handshake presenting another key leaves the established session alone
Undisturbed == [][\A c \in Ch :
                    (/\ slot[c][1] # None /\ last'.a = "deliver" /\ last'.c = c /\ last'.m.t = "IH"
                     /\ S[last'.m.h].hkey # bound[c])
                    => slot'[c] = slot[c] /\ bound'[c] = bound[c]]_vars

(* C02 at channel level: each data record is handed up at most once per incarnation, across rotation *)
AtMostOnceP == ~dup

(* C07: a pending Send completes (fair network and timers), whatever happened before *)
\* Known finding (known_findings.json, C07:Converges:hopeless-prospective-session): after a RESTART of the
\* peer, a handshake message that refers to a session which no longer exists, or which has already
\* completed with another partner (an in-flight or replayed InitHello / RespHello), installs a prospective
\* session that can never complete; it occupies slot 2, so no new handshake is started, until it expires
\* (RejectAfterTime).  The predicate is exactly that state; everything else must converge.
Dead(x) == S[x].gen < gen[S[x].own]
Gone(x) == Dead(x) \/ \A i \in 0..2 : slot[S[x].own][i] # x          \* its endpoint no longer has that session
Hopeless(s) == \/ (~S[s].init /\ S[s].hs = 1 /\ (Gone(S[s].h) \/ (S[S[s].h].hs >= 2 /\ S[S[s].h].rs # s)))
               \/ (S[s].init /\ S[s].hs = 2 /\ Gone(S[s].rs))
KF_StaleHello == restarts > 0 /\ \E c \in Ch : slot[c][2] # None /\ Hopeless(slot[c][2])
\* the model's session budget is spent: a further InitHello cannot be answered in the MODEL (Deliver refuses it when
\* Len(S) >= MaxS), which says nothing about the code; liveness is claimed for behaviours within the budget
Exhausted == Len(S) >= MaxS
Converges == \A c \in Ch : (pending[c] > 0) ~> (pending[c] = 0 \/ KF_StaleHello \/ Exhausted)
=============================================================================
