SPECIFICATION Spec
CONSTANTS
  Addrs = {0, 1, 2}
  Unknown = 7
  QLen = 1
  Kind = "vs"
  TfKind = "none"
  Wrap = "none"
  Allow <- AllowAll
  N0 = 2
  Sizes = {"s"}
  TFs = {"pass"}
  Ctxs = {"wait"}
  Handlers = {"echo"}
  PairKinds = {}
  MaxOps = 2
  MaxAsks = 1
INVARIANTS DropRemovesHolds
CHECK_DEADLOCK FALSE
