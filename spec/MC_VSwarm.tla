----------------------------- MODULE MC_VSwarm -----------------------------
(* Model checking of VSwarm.tla: the realm driven by every group of operations of a bounded alphabet, the   *)
(* laws (operators over the history of observations) evaluated on every step the model can take.           *)
(* The as-coded model satisfies every law except the two recorded findings (KnownLaws); the configs         *)
(* VSwarm_kf_*.cfg state those as invariants and must be violated.                                          *)
EXTENDS VSwarm

CONSTANTS
    N0,          \* nodes that exist at the start
    Sizes,       \* payload size classes used by tells / asks
    TFs,         \* decisions of the scripted transform
    Ctxs,        \* contexts of Receive: "wait" | "cancelled"
    Handlers,    \* ask handlers: "echo" | "neg"
    PairKinds,   \* which racing pairs are explored
    MaxOps,      \* groups per behaviour
    MaxAsks      \* blocked asks at a time; blocked Receives / ServeAsks per node

VARIABLES st, H, nops, nid, viol
vars == <<st, H, nops, nid, viol>>

TfChoices == IF TfKind = "script" THEN TFs ELSE {"-"}
Pending(s) == UNION {s.pr[a] : a \in Addrs} \cup UNION {{sv.id : sv \in s.ps[a]} : a \in Addrs} \cup {k.id : k \in s.pa}

\* an empty payload cannot carry the number of its tell: a behaviour has at most one empty tell per (sender, destination)
\* -- per destination where a transform may rewrite the source -- so that a delivery is attributed to its tell without ambiguity
ZUsed(a, b) == \E t \in H.t : t.sz = "z" /\ t.dst = b /\ (t.src = a \/ TfKind = "script")
\* the single operations that make sense in state s, numbered id
Singles(s, id) ==
       (IF Kind = "mem" /\ Cardinality(s.own) \in Addrs THEN {OpNew(id)} ELSE {})
  \cup (IF Kind = "vs" THEN {OpCreate(id, b) : b \in Addrs} ELSE {})
  \cup {o \in {OpTell(id, a, b, sz, tf) : a \in s.own, b \in AllAddrs, sz \in Sizes, tf \in TfChoices} : o.sz # "z" \/ ~ZUsed(o.a, o.b)}
  \cup {OpRecv(id, a, c) : a \in {a \in s.own : Cardinality(s.pr[a]) < MaxAsks}, c \in (IF Wrap = "wl" THEN Ctxs \ {"cancelled"} ELSE Ctxs)}
  \cup (IF Wrap = "map" THEN {} ELSE
        {OpServe(id, a, h) : a \in {a \in s.own : Cardinality(s.ps[a]) < MaxAsks}, h \in Handlers}
        \cup (IF Cardinality(s.pa) < MaxAsks
              THEN {OpAsk(id, a, b, sz) : a \in s.own, b \in AllAddrs, sz \in Sizes \ {"z"}} ELSE {}))
  \cup {OpClose(id, a) : a \in s.own}
  \cup {OpCancel(id, t) : t \in Pending(s)}

\* racing pairs (the second operation is numbered id + 1): kind -> the two operation types and how they must meet
P1(k) == CASE k \in {"tt", "tc", "tr"} -> {"tell"} [] k = "rc" -> {"recv"} [] k \in {"ac", "aa", "as"} -> {"ask"} [] k = "sc" -> {"serve"}
           [] k = "cc" -> {"close"} [] k = "nn" -> {"new", "create"} [] k = "xc" -> {"cancel"}
P2(k) == CASE k \in {"tt"} -> {"tell"} [] k \in {"tc", "rc", "ac", "sc", "cc"} -> {"close"} [] k = "tr" -> {"recv"} [] k = "aa" -> {"ask"}
           [] k = "as" -> {"serve"} [] k = "nn" -> {"new", "create"} [] k = "xc" -> {"tell", "close", "serve"}
PairOK(k, o1, o2) ==
    CASE k = "tt" -> o1.b = o2.b /\ o1.b \in Addrs
      [] k = "tc" -> o2.a = o1.b \/ o2.a = o1.a
      [] k = "tr" -> o2.a = o1.b
      [] k = "rc" -> o1.a = o2.a
      [] k = "ac" -> o2.a = o1.b
      [] k = "aa" -> o1.b = o2.b /\ o1.b \in Addrs
      [] k = "as" -> o2.a = o1.b
      [] k = "sc" -> o1.a = o2.a
      [] k = "cc" -> o1.a = o2.a
      [] k = "nn" -> o2.op = o1.op /\ (o1.op = "create" => o1.b = o2.b)
      [] k = "xc" -> TRUE
Pairs(s, id) ==
    LET S1 == Singles(s, id)  S2 == Singles(s, id + 1) IN
    UNION {{<<o1, o2>> \in {o \in S1 : o.op \in P1(k)} \X {o \in S2 : o.op \in P2(k)} :
               /\ PairOK(k, o1, o2) /\ ~(o1.sz = "z" /\ o2.sz = "z" /\ o1.b = o2.b /\ (o1.a = o2.a \/ TfKind = "script"))
               /\ ~(o1.op = "new" /\ o2.op = "new" /\ Cardinality(s.own) + 1 \notin Addrs)} : k \in PairKinds}
Groups(s, id) == {<<o>> : o \in Singles(s, id)} \cup Pairs(s, id)

Init ==
    /\ st = InitSt(N0) /\ H = InitH(N0) /\ nops = 0 /\ nid = 1 /\ viol = {}
Do(g) ==
    /\ nops < MaxOps
    /\ \E out \in GroupOutcomes(st, g) :
        LET E == ModelEvent(nops + 1, g, out, FALSE) IN
        /\ st' = out.st
        /\ viol' = StepLaws(H, E)
        /\ H' = Extend(H, E)
    /\ nops' = nops + 1
    /\ nid' = nid + Len(g)
Next == \E g \in Groups(st, nid) : Do(g)
Spec == Init /\ [][Next]_vars

\* ---- what is checked
TypeOK ==
    /\ st.open \subseteq st.own /\ st.own \subseteq Addrs
    /\ \A a \in Addrs : Len(st.q[a]) <= QLen /\ (a \notin st.open => st.q[a] = <<>> /\ st.pr[a] = {} /\ st.ps[a] = {})
    /\ \A a \in Addrs : ~(st.pr[a] # {} /\ \E i \in 1..Len(st.q[a]) : Admit(a, st.q[a][i].src))      \* nobody waits next to a message
    /\ \A k \in st.pa : k.to \in st.open /\ st.ps[k.to] = {}                                    \* nor next to a server
LawsHold == viol \subseteq KnownLaws
\* the recorded findings, stated as invariants: these must FAIL on the as-coded model
ClosedCannotSendHolds == "ClosedCannotSend" \notin viol
DropRemovesHolds == "DropRemoves" \notin viol
\* the history agrees with the model: what the laws call "must be queued" is queued (the laws are not stronger than the code)
NullE(i) == [i |-> i, ops |-> <<>>, done |-> {}, obs |-> {}, len |-> -1, panic |-> "", last |-> FALSE]
MustIsQueued == \A a \in st.open : \A t \in Must(H, NullE(nops + 1), a) :
    Delivered(H, NullE(nops + 1), t) \/ ~Admit(a, t.src) \/ \E i \in 1..Len(st.q[a]) : st.q[a][i].id = t.id
=============================================================================
