SPECIFICATION ReflectSpec
CONSTANTS
  Sess <- Cross
  Role <- CrossRole
  KeyOf <- CrossKey
  EphOf <- CrossEph
  SessIdx <- CrossIdx
  MaxForge = 4
  MaxSend = 0
  Window = 2
  Weak = {}
VIEW view
INVARIANTS TypeOK AuthBeforeUse Agreement HonestPair Authentic AtMostOnce NonceUnique DataCountersHigh
CHECK_DEADLOCK FALSE
