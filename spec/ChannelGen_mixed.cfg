SPECIFICATION GenSpec
CONSTANTS
  MaxS = 9
  MaxRestart = 1
  MaxRekey = 2
  MaxSendCalls = 3
  AcceptA = {"A", "B", "M"}
  AcceptB = {"A", "B", "M"}
  RestartKeys = {"A", "M"}
  Eager = TRUE
  MaxSteps = 36
CHECK_DEADLOCK FALSE
