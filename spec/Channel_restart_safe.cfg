SPECIFICATION Spec
CONSTANTS
  MaxS = 6
  MaxRestart = 1
  MaxRekey = 0
  MaxSendCalls = 2
  AcceptA = {"A", "B", "M"}
  AcceptB = {"A", "B", "M"}
  RestartKeys = {"A", "M"}
  Eager = FALSE
VIEW view
INVARIANTS SlotsWellFormed OnlyAccepted Continuity AtMostOnceP
PROPERTIES Undisturbed 
CHECK_DEADLOCK FALSE
