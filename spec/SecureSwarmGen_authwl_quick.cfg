SPECIFICATION GenSpec
CONSTANTS
  Kinds <- AllKinds
  WLA <- WLNoM
  WLB <- OnlyAll
  Weak <- NoWeak
  MaxConn = 3
  MaxSend = 4
  MaxAdv = 9
  CacheMax = 16
  Asks = {FALSE, TRUE}
  Fam = "auth"
  Depth = 3
  DepthAtomic = 1
  MaxSteps = 8
CHECK_DEADLOCK FALSE
