SPECIFICATION Spec
CONSTANTS
  Kinds <- OnlyQUIC
  WLA <- OnlyAll
  WLB <- OnlyAll
  Weak <- NoWeak
  MaxConn = 2
  MaxSend = 2
  MaxAdv = 2
  CacheMax = 16
  Extras = {}
  Asks = {FALSE}
INVARIANTS Attribution DialSafety Whitelist
CHECK_DEADLOCK FALSE
