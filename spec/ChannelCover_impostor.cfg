SPECIFICATION CoverSpec
CONSTANTS
  MaxS = 4
  MaxRestart = 1
  MaxRekey = 0
  MaxSendCalls = 1
  AcceptA = {"B"}
  AcceptB = {"A"}
  RestartKeys = {"M"}
  Eager = TRUE
  MaxSteps = 0
VIEW view
INVARIANTS DumpEvery
CHECK_DEADLOCK FALSE
