-------------------------------- MODULE Ask --------------------------------
(***************************************************************************)
(* C11: an Ask returns its own handler's answer or an error.               *)
(*                                                                         *)
(* Implementation-shaped model of the three ways the library carries an    *)
(* ask from the asker to the destination's handler and the answer back:    *)
(*                                                                         *)
(*  Mode = "hub"     rendezvous in the asker's goroutine through the       *)
(*                   destination's swarmutil.AskHub: s/vswarm (memswarm)   *)
(*                   and everything that forwards to it in the same call   *)
(*                   (p/p2pmux, s/multiswarm, s/wlswarm).  The handler     *)
(*                   writes into the ASKER's buffer.                       *)
(*                     s/vswarm/vswarm.go:120-148 ask                      *)
(*                     s/swarmutil/hubs.go:136-151 AskHub.Deliver          *)
(*                     s/swarmutil/hubs.go:120-134 AskHub.ServeAsk         *)
(*  Mode = "stream"  one reliable stream / request per ask, the server     *)
(*                   answers from its own MTU-sized buffer and the asker   *)
(*                   copies: s/quicswarm (Ask :137-172, handleAsk :349-375)*)
(*                   and s/sshswarm (swarm.go Ask, conn.go loop/Send).     *)
(*  Mode = "mbapp"   p/mbapp: ask over a tell-only datagram swarm.  The    *)
(*                   request and the (multi-part) reply are fragments on   *)
(*                   a SET network (reordering, duplication of reply       *)
(*                   fragments and loss for free); the asker keeps an      *)
(*                   in-flight table keyed (counter, originTime, dst).     *)
(*                     p/mbapp/swarm.go:67-105 Ask, :214-235               *)
(*                     handleAskRequest, :237-247 handleAskReply           *)
(*                     p/mbapp/asker.go createAsk/getAndRemoveAsk/complete *)
(*                                                                         *)
(* The hub-level rendezvous is the AskHub of Hubs.tla (spec 3.1) reduced   *)
(* to what C11 observes: the Deliver select (closed / ctx / hand-over to a *)
(* ServeAsk caller), the commit point after the hand-over, and Close.      *)
(* Go-select idiom as in Hubs.tla: a select is one atomic action that      *)
(* takes a ready case; after close(q.closed) no hand-over is possible any  *)
(* more (a receiver cannot be parked on q.reqs once q.closed is readable). *)
(*                                                                         *)
(* The model is of the code AFTER the repairs F02 (AskHub stores           *)
(* p2p.ErrClosed for a nil reason), F09/F10 (mbapp and sshswarm return     *)
(* io.ErrShortBuffer instead of truncating), F11 (sshswarm answers         *)
(* "not ok" when its hub refuses the request).  Bug* constants restore the *)
(* old behaviours and KeyOT / KeyDst weaken the in-flight key, to show     *)
(* that the operators do tell (Ask_*_bug*.cfg must FAIL).                  *)
(*                                                                         *)
(* Requests ARRIVE at the destination before anybody serves them: in hub   *)
(* mode the asker is parked in the Deliver select, in stream and mbapp     *)
(* mode the request is handed to AskHub.Deliver by a connection / receive  *)
(* worker and waits there ("pend") until a ServeAsk call takes it (Serve), *)
(* so any number of asks can be committed at a destination while no        *)
(* ServeAsk call is active.  The handler record keeps WHICH payload the    *)
(* handler was handed (req): the code hands each waiting request its own   *)
(* bytes; BugReqAlias models a waiting request that is only a reference    *)
(* into a receive buffer which the next arrival overwrites.                *)
(*                                                                         *)
(* Response sizes are classes relative to the buffer the ASKER passed      *)
(* (the request carries that length): the handler returns                  *)
(*    "neg" (n < 0), "zero" (0), "small", "exact" (= len(resp)),           *)
(*    "over" (> len(resp): only possible where the server answers from its *)
(*           own buffer; in hub mode the handler sees the asker's buffer   *)
(*           and an honest handler reports failure instead).               *)
(***************************************************************************)
EXTENDS Naturals, FiniteSets, TLC

CONSTANTS
  Askers, Servers,     \* sets of strings
  K,                   \* ask operations 1..N (unique request ids; the request payload carries k)
  Mode,                \* "hub" | "stream" | "mbapp"
  Serial,              \* the destination serves one ask at a time (mux / multiswarm serve loop, one ssh connection)
  Classes,             \* handler result classes explored
  CtrVals,             \* mbapp: counter values (a small set: wrap-around / restart makes them collide)
  MaxNow,              \* mbapp: clock ticks 0..MaxNow (originTime, millisecond granularity)
  BugNilErr,           \* F02  hubs.go CloseWithError(nil) stores nil: Deliver on a closed hub returns (0, nil)
  BugTrunc,            \* F09/F10  copy(resp, reply) without a length check
  BugOkOnHubErr,       \* F11  sshswarm Conn.loop replies (true, "") when askHub.Deliver fails
  BugNegOk,            \* a negative handler result is not mapped to an error
  BugReqAlias,         \* a request waiting for ServeAsk aliases a receive buffer: the next arrival overwrites it
  KeyOT, KeyDst        \* mbapp in-flight key contains originTime / destination (TRUE, TRUE = the code)

ASSUME Mode \in {"hub", "stream", "mbapp"}
ASSUME Classes \subseteq {"neg", "zero", "small", "exact", "over"}

VARIABLES
  ask,     \* [K -> record]   the Ask calls
  hnd,     \* [K -> record]   the handler invocation for the request whose payload carries k
  srv,     \* [Servers -> "open" | "closing" | "closed"]   Close called (effects done) / Close returned
  net,     \* mbapp: set of datagrams
  infl,    \* mbapp: [Askers -> set of [ctr, ot, dst, k]]   asker.inFlight (a map: one entry per key)
  coll,    \* mbapp: [Askers -> set of <<k, part>>]        fragLayer collectors of reply parts
  used,    \* mbapp: full keys <<a, ctr, ot, dst>> ever used (assumption: never reused, see MCall)
  now      \* mbapp: clock

vars == <<ask, hnd, srv, net, infl, coll, used, now>>

Idle == [pc |-> "idle", a |-> "-", s |-> "-", ctx |-> FALSE, late |-> FALSE, ctr |-> 0, ot |-> 0,
         res |-> "-", n |-> "-", got |-> 0]
NoH  == [st |-> "none", src |-> "-", req |-> 0, n |-> "-"]

Init ==
  /\ ask = [k \in K |-> Idle]
  /\ hnd = [k \in K |-> NoH]
  /\ srv = [s \in Servers |-> "open"]
  /\ net = {} /\ infl = [a \in Askers |-> {}] /\ coll = [a \in Askers |-> {}] /\ used = {} /\ now = 0

----------------------------------------------------------------------------
(* helpers *)

Called(k) == ask[k].pc # "idle"
Returned(k) == ask[k].pc = "ret"
\* asks are numbered in call order (symmetry reduction over K only)
NextToCall(k) == ~Called(k) /\ \A j \in K : j < k => Called(j)

HubClosed(s) == srv[s] # "open"
\* a serial destination has one handler running at a time
Busy(s) == Serial /\ \E j \in K : hnd[j].st = "in" /\ ask[j].s = s

\* what the handler returns for class c: in hub mode it is handed the asker's buffer
HN(c) == IF Mode = "hub" /\ c = "over" THEN "neg" ELSE c

Ret(k, res, n, got) ==
  ask' = [ask EXCEPT ![k].pc = "ret", ![k].res = res, ![k].n = n, ![k].got = got]

\* how the asker's side maps the answer (handler result hn, response id rid) to Ask's result
\*   hub:    vswarm.go:143-147  n < 0 => error
\*   stream: quicswarm.go:366-368 + readFrame (io.ErrShortBuffer); sshswarm Reply(false) / length check
\*   mbapp:  swarm.go:95-103 errCode > 0 => AppError; asker.go complete: length check
RetAnswer(k, hn, rid) ==
  IF hn = "neg" THEN (IF BugNegOk THEN Ret(k, "ok", "zero", rid) ELSE Ret(k, "err", "-", 0))
  ELSE IF hn = "over" THEN (IF BugTrunc THEN Ret(k, "ok", "exact", rid) ELSE Ret(k, "err", "-", 0))
  ELSE Ret(k, "ok", hn, rid)

\* hub mode: the ServeAsk caller takes the request straight from the parked asker
Enter(k) == hnd' = [hnd EXCEPT ![k] = [st |-> "in", src |-> ask[k].a, req |-> k, n |-> "-"]]
\* stream / mbapp: the request is handed to AskHub.Deliver and waits for a ServeAsk call
Pend(k) ==
  hnd' = [j \in K |->
            IF j = k THEN [st |-> "pend", src |-> ask[k].a, req |-> k, n |-> "-"]
            ELSE IF BugReqAlias /\ hnd[j].st = "pend" /\ ask[j].s = ask[k].s
                 THEN [hnd[j] EXCEPT !.req = k]          \* the waiting request now reads as the newcomer
                 ELSE hnd[j]]
\* hubs.go:129 case req := <-q.reqs: a ServeAsk call takes a waiting request
Serve(k) ==
  /\ hnd[k].st = "pend" /\ srv[ask[k].s] = "open" /\ ~Busy(ask[k].s)
  /\ hnd' = [hnd EXCEPT ![k].st = "in"]

----------------------------------------------------------------------------
(* the environment: contexts and Close (CloseDst at any step) *)

\* the context of ask k ends (cancel or deadline)
Timeout(k) ==
  /\ Called(k) /\ ~Returned(k) /\ ~ask[k].ctx
  /\ ask' = [ask EXCEPT ![k].ctx = TRUE]
  /\ UNCHANGED <<hnd, srv, net, infl, coll, used, now>>

\* Close(s) is called: the hubs are closed (CloseWithError), the inner swarm / listener / sessions too
CloseCall(s) ==
  /\ srv[s] = "open"
  /\ srv' = [srv EXCEPT ![s] = "closing"]
  /\ UNCHANGED <<ask, hnd, net, infl, coll, used, now>>

CloseRet(s) ==
  /\ srv[s] = "closing"
  /\ srv' = [srv EXCEPT ![s] = "closed"]
  /\ UNCHANGED <<ask, hnd, net, infl, coll, used, now>>

----------------------------------------------------------------------------
(* Mode "hub": vswarm.ask -> AskHub.Deliver ; AskHub.ServeAsk -> handler *)

HCall(k, a, s) ==
  /\ Mode = "hub" /\ NextToCall(k)
  /\ ask' = [ask EXCEPT ![k] = [Idle EXCEPT !.pc = "sel", !.a = a, !.s = s, !.late = (srv[s] = "closed")]]
  /\ UNCHANGED <<hnd, srv, net, infl, coll, used, now>>

\* hubs.go:145-146  case <-q.closed: return 0, q.err      (F02: q.err was nil)
HSelClosed(k) ==
  /\ Mode = "hub" /\ ask[k].pc = "sel" /\ HubClosed(ask[k].s)
  /\ IF BugNilErr THEN Ret(k, "ok", "zero", 0) ELSE Ret(k, "err", "-", 0)
  /\ UNCHANGED <<hnd, srv, net, infl, coll, used, now>>

\* hubs.go:143-144  case <-ctx.Done(): return 0, ctx.Err()
HSelCtx(k) ==
  /\ Mode = "hub" /\ ask[k].pc = "sel" /\ ask[k].ctx
  /\ Ret(k, "err", "-", 0)
  /\ UNCHANGED <<hnd, srv, net, infl, coll, used, now>>

\* hubs.go:147 case q.reqs <- req  meets  hubs.go:129 case req := <-q.reqs ; then <-req.done (commit point)
HMeet(k) ==
  /\ Mode = "hub" /\ ask[k].pc = "sel" /\ srv[ask[k].s] = "open" /\ ~Busy(ask[k].s)
  /\ ask' = [ask EXCEPT ![k].pc = "wait"]
  /\ Enter(k)
  /\ UNCHANGED <<srv, net, infl, coll, used, now>>

\* hubs.go:130-131 req.n = fn(...); close(req.done) ; hubs.go:148-149 ; vswarm.go:143-147
HHandlerRet(k, c) ==
  /\ Mode = "hub" /\ hnd[k].st = "in" /\ ask[k].pc = "wait"
  /\ hnd' = [hnd EXCEPT ![k].st = "done", ![k].n = HN(c)]
  /\ RetAnswer(k, HN(c), hnd[k].req)
  /\ UNCHANGED <<srv, net, infl, coll, used, now>>

----------------------------------------------------------------------------
(* Mode "stream": quicswarm / sshswarm *)

SCall(k, a, s) ==
  /\ Mode = "stream" /\ NextToCall(k)
  /\ ask' = [ask EXCEPT ![k] = [Idle EXCEPT !.pc = "wire", !.a = a, !.s = s, !.late = (srv[s] = "closed")]]
  /\ UNCHANGED <<hnd, srv, net, infl, coll, used, now>>

\* the request reaches the destination's hub: quicswarm.go:361 / conn.go loop askHub.Deliver
SArrive(k) ==
  /\ Mode = "stream" /\ ask[k].pc = "wire"
  /\ \/ /\ HubClosed(ask[k].s)                            \* Deliver returns q.err
        /\ IF BugOkOnHubErr THEN Ret(k, "ok", "zero", 0)  \* F11: req.Reply(true, resp[:0])
           ELSE Ret(k, "err", "-", 0)                     \* Reply(false) / stream torn down
        /\ UNCHANGED hnd
     \/ /\ srv[ask[k].s] = "open"
        /\ ask' = [ask EXCEPT ![k].pc = "wait"]
        /\ Pend(k)
  /\ UNCHANGED <<srv, net, infl, coll, used, now>>

\* a ServeAsk call takes the waiting request
SServe(k) ==
  /\ Mode = "stream" /\ Serve(k)
  /\ UNCHANGED <<ask, srv, net, infl, coll, used, now>>

\* the hub is closed while the request waits: Deliver returns q.err
SPendClosed(k) ==
  /\ Mode = "stream" /\ hnd[k].st = "pend" /\ HubClosed(ask[k].s)
  /\ hnd' = [hnd EXCEPT ![k].st = "none"]
  /\ IF ask[k].pc # "wait" THEN UNCHANGED ask
     ELSE IF BugOkOnHubErr THEN Ret(k, "ok", "zero", 0) ELSE Ret(k, "err", "-", 0)
  /\ UNCHANGED <<srv, net, infl, coll, used, now>>

\* no connection / the connection dies because the destination closed (dial error, session closed)
SAbort(k) ==
  /\ Mode = "stream" /\ ask[k].pc \in {"wire", "wait"} /\ HubClosed(ask[k].s)
  /\ Ret(k, "err", "-", 0)
  /\ UNCHANGED <<hnd, srv, net, infl, coll, used, now>>

\* stream deadline / context: the asker stops waiting; the handler may still be running
SCtx(k) ==
  /\ Mode = "stream" /\ ask[k].pc \in {"wire", "wait"} /\ ask[k].ctx
  /\ Ret(k, "err", "-", 0)
  /\ UNCHANGED <<hnd, srv, net, infl, coll, used, now>>

\* the handler returns; the reply travels back if the asker still waits
SHandlerRet(k, c) ==
  /\ Mode = "stream" /\ hnd[k].st = "in"
  /\ hnd' = [hnd EXCEPT ![k].st = "done", ![k].n = HN(c)]
  /\ IF ask[k].pc = "wait" THEN RetAnswer(k, HN(c), hnd[k].req) ELSE UNCHANGED ask
  /\ UNCHANGED <<srv, net, infl, coll, used, now>>

----------------------------------------------------------------------------
(* Mode "mbapp" *)

Key(k) == [ctr |-> ask[k].ctr, ot |-> ask[k].ot, dst |-> ask[k].s]
SameKey(e1, e2) == /\ e1.ctr = e2.ctr
                   /\ (KeyOT => e1.ot = e2.ot)
                   /\ (KeyDst => e1.dst = e2.dst)
NParts(n) == IF n \in {"exact", "over"} THEN 2 ELSE 1

\* swarm.go:67-92: counter, originTime, createAsk (a map store: replaces an entry with the same key), send.
\* The counter is a free choice from CtrVals (increment, 2^32 wrap-around, a restarted asker);
\* ASSUMPTION: one asker never uses the same (counter, originTime, dst) twice (a wrap within 1 ms).
MCall(k, a, s, c) ==
  /\ Mode = "mbapp" /\ NextToCall(k)
  /\ <<a, c, now, s>> \notin used
  /\ used' = used \cup {<<a, c, now, s>>}
  /\ ask' = [ask EXCEPT ![k] = [Idle EXCEPT !.pc = "wait", !.a = a, !.s = s, !.late = (srv[s] = "closed"),
                                          !.ctr = c, !.ot = now]]
  /\ LET e == [ctr |-> c, ot |-> now, dst |-> s, k |-> k]
     IN infl' = [infl EXCEPT ![a] = {x \in @ : ~SameKey(x, e)} \cup {e}]
  /\ net' = net \cup {[t |-> "req", k |-> k, p |-> 1]}
  /\ UNCHANGED <<hnd, srv, coll, now>>

\* the request datagram is delivered (requests are not duplicated: one handler invocation per request);
\* swarm.go:214-224 handleAskRequest -> asks.Deliver: a closed hub or a closed inner swarm drops it,
\* otherwise it waits in the hub for a ServeAsk call
MReqDeliver(k) ==
  /\ Mode = "mbapp" /\ [t |-> "req", k |-> k, p |-> 1] \in net
  /\ net' = net \ {[t |-> "req", k |-> k, p |-> 1]}
  /\ IF srv[ask[k].s] = "open" THEN Pend(k) ELSE UNCHANGED hnd
  /\ UNCHANGED <<ask, srv, infl, coll, used, now>>

MServe(k) ==
  /\ Mode = "mbapp" /\ Serve(k)
  /\ UNCHANGED <<ask, srv, net, infl, coll, used, now>>

\* the hub is closed while the request waits: Deliver returns the error, nothing is sent back
MPendClosed(k) ==
  /\ Mode = "mbapp" /\ hnd[k].st = "pend" /\ HubClosed(ask[k].s)
  /\ hnd' = [hnd EXCEPT ![k].st = "none"]
  /\ UNCHANGED <<ask, srv, net, infl, coll, used, now>>

\* swarm.go:225-234: the handler returned n; reply (errCode, respBuf[:n]) sent as NParts fragments
\* through the inner swarm, which refuses when it is closed
MHandlerRet(k, c) ==
  /\ Mode = "mbapp" /\ hnd[k].st = "in"
  /\ hnd' = [hnd EXCEPT ![k].st = "done", ![k].n = HN(c)]
  /\ net' = IF srv[ask[k].s] = "open"
            THEN net \cup {[t |-> "rep", k |-> k, p |-> p] : p \in 1..NParts(HN(c))}
            ELSE net
  /\ UNCHANGED <<ask, srv, infl, coll, used, now>>

\* A reply fragment of the answer to request k2 reaches the asker (it stays in the network: duplicates).
\* fragment.go handlePart: collector per (src, counter, originTime); when complete
\* swarm.go:237-247 handleAskReply: getAndRemoveAsk((counter, originTime), src) ; ask.complete ;
\* Ask returns, deferred removeAsk(id) deletes by key.
MRepDeliver(k2, p) ==
  /\ Mode = "mbapp" /\ [t |-> "rep", k |-> k2, p |-> p] \in net
  /\ LET a == ask[k2].a
         np == NParts(hnd[k2].n)
         have == coll[a] \cup {<<k2, p>>}
         complete == \A q \in 1..np : <<k2, q>> \in have
         match == {e \in infl[a] : SameKey(e, Key(k2))}
     IN IF ~complete
        THEN /\ coll' = [coll EXCEPT ![a] = have]
             /\ UNCHANGED <<ask, infl>>
        ELSE /\ coll' = [coll EXCEPT ![a] = {x \in have : x[1] # k2}]
             /\ IF match = {}
                THEN UNCHANGED <<ask, infl>>              \* "got reply for non existent ask"
                ELSE LET e == CHOOSE x \in match : TRUE   \* a map: at most one entry per key
                         k1 == e.k
                     IN /\ infl' = [infl EXCEPT ![a] = {x \in @ : x # e /\ ~SameKey(x, Key(k1))}]
                        /\ IF ask[k1].pc = "wait" THEN RetAnswer(k1, hnd[k2].n, hnd[k2].req) ELSE UNCHANGED ask
  /\ UNCHANGED <<hnd, srv, net, used, now>>

\* asker.go:21-28 await: case <-ctx.Done(): abort ; swarm.go:80 deferred removeAsk
MCtx(k) ==
  /\ Mode = "mbapp" /\ ask[k].pc = "wait" /\ ask[k].ctx
  /\ Ret(k, "err", "-", 0)
  /\ infl' = [infl EXCEPT ![ask[k].a] = {x \in @ : ~SameKey(x, Key(k))}]
  /\ UNCHANGED <<hnd, srv, net, coll, used, now>>

Tick ==
  /\ Mode = "mbapp" /\ now < MaxNow
  /\ now' = now + 1
  /\ UNCHANGED <<ask, hnd, srv, net, infl, coll, used>>

----------------------------------------------------------------------------
Env == \/ \E k \in K : Timeout(k)
       \/ \E s \in Servers : CloseCall(s) \/ CloseRet(s)
       \/ Tick
       \/ \E k \in K, a \in Askers, s \in Servers :
             HCall(k, a, s) \/ SCall(k, a, s) \/ \E c \in CtrVals : MCall(k, a, s, c)

HandlerRet(k, c) == HHandlerRet(k, c) \/ SHandlerRet(k, c) \/ MHandlerRet(k, c)
\* the steps of ask k that the code takes by itself
AskStep(k) == \/ HSelClosed(k) \/ HSelCtx(k)
              \/ SArrive(k) \/ SAbort(k) \/ SCtx(k) \/ SPendClosed(k)
              \/ MCtx(k) \/ MPendClosed(k)
\* the destination's application calls ServeAsk and is handed a waiting request
ServeStart(k) == HMeet(k) \/ SServe(k) \/ MServe(k)
Network == \E k \in K : MReqDeliver(k) \/ \E p \in 1..2 : MRepDeliver(k, p)

Next == \/ Env
        \/ \E k \in K : AskStep(k) \/ ServeStart(k)
        \/ \E k \in K, c \in Classes : HandlerRet(k, c)
        \/ Network

\* handlers terminate and a started call keeps running; nothing is assumed about environment and network
Fairness == /\ \A k \in K : WF_vars(AskStep(k))
            /\ \A k \in K : WF_vars(\E c \in Classes : HandlerRet(k, c))

Spec == Init /\ [][Next]_vars /\ Fairness

----------------------------------------------------------------------------
(* Property operators over observables: what Ask returned (res, n, got = identity of the bytes), *)
(* what the handler saw and returned, Close returns, context ends.                               *)

TypeOK ==
  /\ \A k \in K : /\ ask[k].pc \in {"idle", "sel", "wire", "wait", "ret"}
                  /\ ask[k].res \in {"-", "ok", "err"}
                  /\ ask[k].n \in {"-", "zero", "small", "exact", "over"}
                  /\ ask[k].got \in K \cup {0}
                  /\ hnd[k].st \in {"none", "pend", "in", "done"}
                  /\ hnd[k].req \in K \cup {0}
  /\ \A s \in Servers : srv[s] \in {"open", "closing", "closed"}

Ok(k) == Returned(k) /\ ask[k].res = "ok"

\* a successful Ask returns exactly what the handler invocation for THIS request produced, and that
\* handler saw this request and the asker's address
OwnAnswer ==
  \A k \in K : Ok(k) =>
     /\ ask[k].got = k
     /\ hnd[k].st = "done" /\ hnd[k].n = ask[k].n
     /\ hnd[k].src = ask[k].a /\ hnd[k].req = k

\* a failure is never reported as a success: negative handler result, destination closed before the
\* call, response longer than the buffer
FailureIsError ==
  \A k \in K : Ok(k) =>
     /\ ~ask[k].late
     /\ ask[k].n # "over"
     /\ (hnd[k].st = "done" => hnd[k].n \notin {"neg", "over"})

Safety == TypeOK /\ OwnAnswer /\ FailureIsError

\* ... and the error arrives by the deadline.  In hub mode the asker is committed once the handler has
\* the request (hubs.go:148 `<-req.done` does not look at ctx): it returns when the handler does
\* (recorded finding C11:FailureIsError:askhub/deadline-in-handler).
ByDeadline ==
  \A k \in K : (ask[k].ctx /\ ~(Mode = "hub" /\ hnd[k].st = "in")) ~> Returned(k)
HandlerBounded ==
  \A k \in K : (hnd[k].st = "in") ~> (hnd[k].st = "done")

\* exploration statistics / anti-vacuity (used as an invariant that must be VIOLATED in selftest configs)
SomeSuccess == \E k \in K : Ok(k)
=============================================================================
