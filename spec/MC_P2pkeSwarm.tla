--------------------------- MODULE MC_P2pkeSwarm ---------------------------
EXTENDS P2pkeSwarm
AllFixed == {"lastSent", "close", "evict", "empty"}
NoLastSent == AllFixed \ {"lastSent"}
NoClose == AllFixed \ {"close"}
NoEvict == AllFixed \ {"evict"}
NoEmpty == AllFixed \ {"empty"}
Both == {"A", "B"}
OnlyB == {"B"}
\* destinations: the right identity, a wrong identity (the dialler's own key) at the peer's address, the dead address
DA_full == {<<"B", "b">>, <<"A", "b">>, <<"B", "x">>}
DA_ident == {<<"B", "b">>, <<"A", "b">>}
DA_good == {<<"B", "b">>}
DA_dead == {<<"B", "b">>, <<"B", "x">>}
DB_good == {<<"A", "a">>}
=============================================================================
