------------------------------- MODULE ChordU -------------------------------
(* Point sets for Chord.tla; the driver overwrites this module in its scratch copy (quick: samples,     *)
(* thorough: the whole 1-byte ring and a larger 2-byte sample).                                          *)
EXTENDS Integers
U1As == 0..255
U1Bs == {0, 1, 2, 127, 128, 129, 254, 255}
U1Cs == {0, 1, 127, 128, 255}
U2As == {0, 1, 255, 256, 257, 32767, 32768, 32769, 65279, 65280, 65534, 65535}
U2Bs == U2As
U2Cs == {0, 1, 32768, 65535}
=============================================================================
