SPECIFICATION Spec
CONSTANTS
  MaxN = 17
  MaxOps = 2
INVARIANTS Laws Dump
PROPERTIES PanicOnlyOutOfRange
CHECK_DEADLOCK FALSE
