------------------------------ MODULE DHTNode ------------------------------
(***************************************************************************)
(* Implementation-shaped specification of kademlia.DHTNode, the SERVER side *)
(* of the DHT (/repo/p/kademlia/dht_node.go, dht_messages.go).  The client  *)
(* side (dht.go) is DHT.tla (C20), whose responders are scripted fakes:     *)
(* this module says what a REAL node answers.                               *)
(*                                                                         *)
(* A node is two kademlia Caches over one (truncated) locus:                *)
(*    P  peers  id  -> info   NewCache(locus, PeerCacheSize, minPerBucket 1)*)
(*    D  data   key -> value  NewCache(locus, DataCacheSize, minPerBucket 0)*)
(* as cache VALUES [E, n, me, c] manipulated with the functions of          *)
(* DHTNodeOps (= KadCache's actions, see TieProp there).  NewDHTNode cuts   *)
(* the locus to PeerCacheSize/8 bytes when PeerCacheSize < 256 (so that     *)
(* NewCache's precondition holds): Locus is that prefix of LocalID, and the *)
(* peer cache prefers peers by their first len(Locus) bytes only            *)
(* (TruncatedLocus; with PeerCacheSize < 8 every entry is in bucket 0 and   *)
(* the caches keep the OLDEST entries).                                     *)
(*                                                                         *)
(* One action per mutating public method, executed at a clock value t       *)
(* (DHTNodeParams.Now) that is the current one or the next:                 *)
(*    AddPeer RemovePeer Put HandlePut, and Tick (the clock advances and a  *)
(*    read-only method is called).                                          *)
(* The read-only methods are state functions (GetPeer, ListPeers,           *)
(* ListNodeInfos, Get, WouldAdd, Count, HandleGet, HandleFindNode,          *)
(* closerNodes) whose laws are invariants.                                  *)
(*                                                                         *)
(* KF_NeverExpires (AS CODED, recorded finding G05:TTLHonoured:dhtnode/     *)
(* never-expires): nothing ever expires in a DHTNode.  Cache.Get ignores    *)
(* its `now` argument and DHTNode never calls Cache.Expire, so peers and    *)
(* values stay visible (and counted, and occupy capacity) past ExpiresAt.   *)
(* The INTENDED behaviour ("purge" \in Orig: every method first drops the   *)
(* entries whose ExpiresAt is before now) satisfies TTLHonoured             *)
(* (DHTNode_purge.cfg); the as-coded model violates it (DHTNode_kf_ttl.cfg).*)
(* All other laws are stated so that an entry past its implied expiry is a  *)
(* don't-care: it may stay (TTLHonoured reports it) or vanish at any call.  *)
(*                                                                         *)
(* Orig \subseteq {"remove","accept0","ttlovf","closer","purge"}: the first *)
(* four turn on the behaviour BEFORE the corresponding repair (anti-vacuity *)
(* self-tests DHTNode_orig_*.cfg: the laws must fail in such a model).      *)
(*                                                                         *)
(* Law operators (suffix P / the sets ObsLaws, NodeStepLaws) mention only       *)
(* observables: the maps id->info and key->value as returned by GetPeer /   *)
(* Get over the universe, reported results, and the expiry times implied by *)
(* the INPUTS (time of the call + TTL).  DHTNodeTrace evaluates the same    *)
(* operators on observations of the real object.                            *)
(***************************************************************************)
EXTENDS DHTNodeOps

CONSTANTS
    LocalID,     \* byte sequence: params.LocalID (Locus is its prefix of PeerCacheSize/8 bytes)
    PeerIDs,     \* ids AddPeer / RemovePeer are called with (LocalID among them)
    DataKeys,    \* keys Put / HandlePut are called with
    Infos,       \* peer infos (naturals >= 1)
    DVals,       \* data values (naturals >= 1)
    PutTTLs,     \* ttl of Put (time units)
    HPutTTLs,    \* ttl of HandlePut (Huge = a TTLms whose conversion to time.Duration overflows)
    PeerTTL,     \* params.MaxPeerTTL
    MaxDataTTL,  \* params.MaxDataTTL
    MaxNow,      \* the clock runs over 1..MaxNow
    NodeConfigs, \* set of <<PeerCacheSize, DataCacheSize, prefilled peer ids>>
    Targets,     \* HandleFindNode / ListNodeInfos targets
    Limits,      \* their limits
    Orig         \* unrepaired behaviours to model (self-tests); {} = the code as it is

VARIABLES
    pmax, dmax,  \* PeerCacheSize, DataCacheSize (constant along a behaviour)
    P, D,        \* the two caches
    now,         \* the clock value of the last call
    gpx, gdx,    \* ghosts: the expiry time of every id / key implied by the INPUTS so far (NextPx, NextDx)
    gpb, gdb     \* ghosts: since when an id has been a peer without interruption / when a key was last put

nvars == <<vars, pmax, dmax, P, D, now, gpx, gdx, gpb, gdb>>
nview == <<pmax, dmax, P, D, now>>

Huge == 99
PeerMin == 1
DataMin == 0
ListLimits == {-1, 0, 1, 2}
ToSet(s) == {s[i] : i \in 1..Len(s)}
Distinct(s) == Cardinality(ToSet(s)) = Len(s)
HQueries == DataKeys \cup Targets

ASSUME /\ LocalID \in PeerIDs
       /\ Locus = SubSeq(LocalID, 1, Len(Locus))
       /\ \A cfg \in NodeConfigs : cfg[1] \div 8 = Len(Locus) /\ Cardinality(cfg[3]) <= cfg[1]
       /\ PeerIDs \cup DataKeys \subseteq Keys /\ HQueries \subseteq Queries

-----------------------------------------------------------------------------
(* The methods, as functions of the two caches *)

Proj(C) == [k \in DOMAIN C.E |-> C.E[k].v]
ExpOf(C) == [k \in DOMAIN C.E |-> C.E[k].e]

\* as coded: no method of DHTNode removes expired entries (the intended variant would: Cache.Expire(nil, now) first)
KF_NeverExpires == "purge" \notin Orig
PurgeC(C, t) == IF KF_NeverExpires THEN C ELSE ExpireC(C, t)

\* HandlePut's ttl (dht_node.go): min(TTLms, MaxDataTTL), computed without overflow
EffTTL(ttl) == IF ttl = Huge /\ "ttlovf" \in Orig THEN -50
               ELSE IF ttl > MaxDataTTL THEN MaxDataTTL ELSE ttl

\* closerNodes(key) (dht_node.go): the peers, nearest to key first, as long as they are closer to the key
\* than LocalID is.  (Before the repair: Cache.ForEachCloser, which compares with the TRUNCATED locus.)
RECURSIVE TakeWhileCloserTo(_, _, _)
TakeWhileCloserTo(s, x, ref) ==
    IF s = <<>> THEN <<>>
    ELSE IF DistCmpCoded(x, s[1], ref) < 0 THEN <<s[1]>> \o TakeWhileCloserTo(Tail(s), x, ref)
    ELSE <<>>
CloserNodesOf(Pc, x) == TakeWhileCloserTo(ForEachSeq(Pc.E, Pc.n, x), x, IF "closer" \in Orig THEN Locus ELSE LocalID)

\* ListNodeInfos(key, n), HandleFindNode(req) = ListNodeInfos(target, min(limit, 10))
ListNodeInfosOf(Pc, x, n) == LET s == ForEachSeq(Pc.E, Pc.n, x) IN SubSeq(s, 1, Min2(Max2(0, n), Len(s)))
FindNodeOf(Pc, x, limit) == ListNodeInfosOf(Pc, x, Min2(limit, 10))
\* ListPeers(limit): ForEach(nil, ...), every distance to nil is equal: some order; limit <= 0 = no limit
ListPeersOf(Pc, limit) == LET s == ForEachSeq(Pc.E, Pc.n, <<>>) IN
                          IF limit > 0 THEN SubSeq(s, 1, Min2(limit, Len(s))) ELSE s

\* wasAccepted (dht_node.go) and the capacity-0 guard
AcceptedOf(u, k, dmx) == /\ (u.added \/ ~u.hasEv \/ u.ev # k)
                         /\ (dmx > 0 \/ "accept0" \in Orig)

NoOut(P1, D1) == [P |-> P1, D |-> D1, ret |-> FALSE, acc |-> FALSE, closer |-> <<>>]

\* every possible outcome of one call o = [op, key, v, ttl, t]
NodeOutcomes(Pc, Dc, pmx, dmx, o) ==
    LET P1 == PurgeC(Pc, o.t)
        D1 == PurgeC(Dc, o.t)
    IN CASE o.op = "tick" -> {NoOut(P1, D1)}
         [] o.op = "addpeer" ->                                                      \* dht_node.go AddPeer
              IF o.key = LocalID THEN {NoOut(P1, D1)}
              ELSE {[NoOut(u.C, D1) EXCEPT !.ret = u.added] :
                       u \in UpdateC(P1, pmx, PeerMin, o.key,
                                     [v |-> o.v, c |-> IF o.key \in DOMAIN P1.E THEN P1.E[o.key].c ELSE o.t,
                                      e |-> o.t + PeerTTL])}
         [] o.op = "rmpeer" ->                                                       \* RemovePeer
              LET d == DeleteC(P1, o.key) IN
              {[NoOut(d.C, D1) EXCEPT !.ret = IF "remove" \in Orig THEN d.nonnil ELSE d.deleted]}
         [] o.op = "put" ->                                                          \* Put
              {[NoOut(P1, u.C) EXCEPT !.ret = u.added] :
                  u \in UpdateC(D1, dmx, DataMin, o.key, [v |-> o.v, c |-> o.t, e |-> o.t + o.ttl])}
         [] o.op = "hput" ->                                                         \* HandlePut
              {[NoOut(P1, u.C) EXCEPT !.acc = AcceptedOf(u, o.key, dmx), !.closer = CloserNodesOf(P1, o.key)] :
                  u \in UpdateC(D1, dmx, DataMin, o.key, [v |-> o.v, c |-> o.t, e |-> o.t + EffTTL(o.ttl)])}

\* expiry implied by the inputs: an entry lives through ExpiresAt (Expire drops ExpiresAt < now)
NextPx(px, c) == IF c.op = "addpeer" /\ c.key # LocalID
                 THEN [k \in (DOMAIN px) \cup {c.key} |-> IF k = c.key THEN c.t + PeerTTL ELSE px[k]] ELSE px
LawTTL(c) == IF c.op = "hput" THEN (IF c.ttl > MaxDataTTL THEN MaxDataTTL ELSE c.ttl) ELSE c.ttl
NextDx(dx, c) == IF c.op \in {"put", "hput"}
                 THEN [k \in (DOMAIN dx) \cup {c.key} |-> IF k = c.key THEN c.t + LawTTL(c) ELSE dx[k]] ELSE dx
\* seniority implied by the inputs: AddPeer of a known peer keeps it, every put starts afresh (CreatedAt).
\* ap = the ids present before the call, lp = those of them not past their expiry; the seniority of a peer that
\* is re-added while present but past its expiry is not determined (kept as coded, fresh if it had been purged)
NextPb(pb, ap, lp, c) == IF c.op = "addpeer" /\ c.key # LocalID /\ c.key \notin lp
                         THEN IF c.key \in ap THEN [k \in (DOMAIN pb) \ {c.key} |-> pb[k]]
                              ELSE [k \in (DOMAIN pb) \cup {c.key} |-> IF k = c.key THEN c.t ELSE pb[k]]
                         ELSE pb
NextDb(db, c) == IF c.op \in {"put", "hput"}
                 THEN [k \in (DOMAIN db) \cup {c.key} |-> IF k = c.key THEN c.t ELSE db[k]] ELSE db

-----------------------------------------------------------------------------
(* The state machine *)

MkOp(op, k, v, ttl, t) == [op |-> op, key |-> k, v |-> v, ttl |-> ttl, t |-> t]
OpsAt(t) ==
    {MkOp("addpeer", id, v, 0, t) : id \in PeerIDs, v \in Infos}
    \cup {MkOp("rmpeer", id, 0, 0, t) : id \in PeerIDs}
    \cup {MkOp("put", k, v, ttl, t) : k \in DataKeys, v \in DVals, ttl \in PutTTLs}
    \cup {MkOp("hput", k, v, ttl, t) : k \in DataKeys, v \in DVals, ttl \in HPutTTLs}

\* the peers NewDHTNode's caller added at time 1 (info = the least one)
MinInfo == CHOOSE v \in Infos : \A w \in Infos : v <= w
PrefillC(S) ==
    LET E == [k \in S |-> [v |-> MinInfo, c |-> 1, e |-> 1 + PeerTTL]] IN
    MkCache(E, MaxBucket(S) + 1, [i \in 0..(NBuckets - 1) |-> IF InB(E, i) # {} THEN 1 + PeerTTL ELSE 0], Cardinality(S))

NodeInit ==
    /\ \E cfg \in NodeConfigs :
          /\ pmax = cfg[1] /\ dmax = cfg[2]
          /\ P = IF cfg[1] = 0 THEN EmptyC ELSE PrefillC(cfg[3])
    /\ D = EmptyC
    /\ now = 1
    /\ gpx = ExpOf(P) /\ gdx = <<>>
    /\ gpb = [k \in DOMAIN P.E |-> P.E[k].c] /\ gdb = <<>>
    \* KadCache's own variables are not used (the caches are the values P and D); nops, panicked, last are
    /\ cmax = 0 /\ cmin = 0 /\ ents = <<>> /\ nb = 0 /\ minExp = <<>> /\ count = 0
    /\ panicked = FALSE /\ last = NoRes /\ nops = 0

Do(o) ==
    /\ ~panicked /\ nops < MaxOps
    /\ \E out \in NodeOutcomes(P, D, pmax, dmax, o) :
          /\ P' = out.P /\ D' = out.D
          /\ last' = [op |-> o.op, key |-> o.key, v |-> o.v, ttl |-> o.ttl, t |-> o.t,
                      ret |-> out.ret, acc |-> out.acc, closer |-> out.closer]
    /\ now' = o.t
    /\ gpx' = NextPx(gpx, o) /\ gdx' = NextDx(gdx, o)
    /\ gpb' = NextPb(gpb, DOMAIN P.E, {k \in DOMAIN P.E : ~Expired(P.E[k], o.t)}, o) /\ gdb' = NextDb(gdb, o)
    /\ nops' = nops + 1
    /\ UNCHANGED <<pmax, dmax, cmax, cmin, ents, nb, minExp, count, panicked>>

NodeNext ==
    \/ \E t \in {now, now + 1} \cap 1..MaxNow : \E o \in OpsAt(t) : Do(o)
    \/ now + 1 <= MaxNow /\ Do(MkOp("tick", <<>>, 0, 0, now + 1))

NodeSpec == NodeInit /\ [][NodeNext]_nvars

-----------------------------------------------------------------------------
(* What can be observed of a node at its current clock value (the replayer  *)
(* logs exactly this record after every call)                               *)

NodeObs(Pc, Dc, pmx, dmx) ==
    LET pm == Proj(Pc) IN
    [peers |-> pm,
     has |-> DOMAIN pm,
     data |-> [k \in {k \in DOMAIN Dc.E : GetC(Dc, k) # 0} |-> GetC(Dc, k)],
     count |-> Dc.c,
     list |-> [n \in ListLimits |-> ListPeersOf(Pc, n)],
     hget |-> [q \in HQueries |-> LET s == CloserNodesOf(Pc, q) IN
                                  [v |-> GetC(Dc, q), s |-> s, si |-> [i \in 1..Len(s) |-> pm[s[i]]]]],
     find |-> [x \in Targets \X Limits |-> FindNodeOf(Pc, x[1], x[2])],
     infos |-> [x \in Targets \X Limits |-> ListNodeInfosOf(Pc, x[1], x[2])],
     would |-> [k \in DataKeys |-> WouldAddC2(Dc, dmx, DataMin, k)],
     \* (through the verif hook DHTNode.VerifCaches + Cache.VerifDump: CreatedAt and ExpiresAt of every entry)
     pst |-> [k \in DOMAIN Pc.E |-> [c |-> Pc.E[k].c, e |-> Pc.E[k].e]],
     dst |-> [k \in DOMAIN Dc.E |-> [c |-> Dc.E[k].c, e |-> Dc.E[k].e]]]

-----------------------------------------------------------------------------
(* LAWS over one observation o (a record shaped like NodeObs)               *)

\* a list of peers relative to x: present, no duplicates, nearest first
NearestFirstP(pm, x, s) == /\ ToSet(s) \subseteq DOMAIN pm /\ Distinct(s) /\ SortedBy(s, x)
\* ... and nobody outside the list is nearer than somebody inside
PrefixOfNearestP(pm, x, s) == \A p \in (DOMAIN pm) \ ToSet(s) : \A i \in 1..Len(s) : DistLeq(x, s[i], p)

\* closerNodes: all and only the peers strictly closer to the key than the node itself, nearest first
CloserSoundP(pm, x, s) == /\ NearestFirstP(pm, x, s)
                          /\ \A i \in 1..Len(s) : s[i] # LocalID /\ DistLt(x, s[i], LocalID)
CloserCompleteP(pm, x, s) == \A p \in DOMAIN pm : DistLt(x, p, LocalID) => p \in ToSet(s)
CloserInfoP(pm, s, si) == Len(si) = Len(s) /\ \A i \in 1..Len(s) : s[i] \in DOMAIN pm => si[i] = pm[s[i]]

\* ListNodeInfos(key, n): the n nearest peers; HandleFindNode: n = min(limit, 10)
NearestNP(pm, x, n, s) == /\ Len(s) = Min2(Max2(0, n), Cardinality(DOMAIN pm))
                          /\ NearestFirstP(pm, x, s) /\ PrefixOfNearestP(pm, x, s)
ListPeersP(pm, limit, s) == /\ Len(s) = (IF limit > 0 THEN Min2(limit, Cardinality(DOMAIN pm)) ELSE Cardinality(DOMAIN pm))
                            /\ ToSet(s) \subseteq DOMAIN pm /\ Distinct(s)

ObsLawNames == {"CountIsData", "Bounded", "SelfNeverPeer", "HasIsGetPeer", "ListPeers", "HandleGetIsGet",
                "CloserSound", "CloserComplete", "CloserInfo", "FindNode", "FindNodeCap", "ListNodeInfos", "WouldAddAbsentOnly", "DumpIsObserved"}
ObsLaws(o, pmx, dmx) ==
    {nm \in ObsLawNames :
        CASE nm = "CountIsData" -> o.count # Cardinality(DOMAIN o.data)
          [] nm = "Bounded" -> Cardinality(DOMAIN o.peers) > pmx \/ Cardinality(DOMAIN o.data) > dmx
          [] nm = "SelfNeverPeer" -> LocalID \in DOMAIN o.peers
          [] nm = "HasIsGetPeer" -> o.has # DOMAIN o.peers
          [] nm = "ListPeers" -> \E n \in DOMAIN o.list : ~ListPeersP(o.peers, n, o.list[n])
          \* HandleGet answers what Get answers (the value stored under THAT key, none when there is none)
          [] nm = "HandleGetIsGet" -> \E q \in DOMAIN o.hget : o.hget[q].v # (IF q \in DOMAIN o.data THEN o.data[q] ELSE 0)
          [] nm = "CloserSound" -> \E q \in DOMAIN o.hget : ~CloserSoundP(o.peers, q, o.hget[q].s)
          [] nm = "CloserComplete" -> \E q \in DOMAIN o.hget : ~CloserCompleteP(o.peers, q, o.hget[q].s)
          [] nm = "CloserInfo" -> \E q \in DOMAIN o.hget : ~CloserInfoP(o.peers, o.hget[q].s, o.hget[q].si)
          [] nm = "FindNode" -> \E x \in DOMAIN o.find : x[2] <= 10 /\ ~NearestNP(o.peers, x[1], x[2], o.find[x])
          [] nm = "FindNodeCap" -> \E x \in DOMAIN o.find : x[2] > 10 /\ ~NearestNP(o.peers, x[1], 10, o.find[x])
          [] nm = "ListNodeInfos" -> \E x \in DOMAIN o.infos : ~NearestNP(o.peers, x[1], x[2], o.infos[x])
          [] nm = "WouldAddAbsentOnly" -> \E k \in DOMAIN o.would : o.would[k] /\ k \in DOMAIN o.data
          \* the caches hold exactly what GetPeer / Get show
          [] nm = "DumpIsObserved" -> DOMAIN o.pst # DOMAIN o.peers \/ DOMAIN o.dst # DOMAIN o.data}

-----------------------------------------------------------------------------
(* LAWS over one call: observation before (o1, with the expiry times px1,   *)
(* dx1 implied by the inputs so far), the call c = [op, key, v, ttl, t],    *)
(* what it returned (r = [ret, acc, closer]) and the observation after (o2, *)
(* px2, dx2).                                                               *)

Live(m, x, t) == {k \in DOMAIN m : k \in DOMAIN x /\ x[k] >= t}
Restrict(m, S) == [k \in S |-> m[k]]

\* which entry left a cache although alive and not removed by the call itself
Victims(live, m2, c, ops) == {k \in live \cup (IF c.op \in ops THEN {c.key} ELSE {}) : k \notin DOMAIN m2}
                             \ (IF c.op = "rmpeer" THEN {c.key} ELSE {})
\* KadCache's NoCloserVictimP / EvictOnlyWhenFullP with the capacity and per-bucket minimum explicit
\* within its bucket the victim is (one of) the newest: "entries that have existed for longer are more likely to remain" (cache.go)
VictimNewestC(S, v, born) == \A k \in S \ {v} : (Bucket(k) = Bucket(v) /\ k \in DOMAIN born /\ v \in DOMAIN born) => born[k] <= born[v]
NoCloserVictimC(S, v, mn) == LET cnt(i) == Cardinality({k \in S : Bucket(k) = i}) IN
                             \A k \in S \ {v} : Bucket(k) < Bucket(v) => cnt(Bucket(k)) <= mn

NodeStepLawNames == {"TTLHonoured", "OnlyExpiredVanish", "PeerLegalDisappear", "PeerOnlyAdds", "AddPeerReturn", "AddPeerStores",
                     "PeerInfoLatest", "RemoveExact", "PeerVictim", "PeerVictimNewest", "DataVictimNewest", "DataLegalDisappear",
                     "DataOnlyAdds", "ValueLatest", "PutReturn", "PutStores", "AcceptedIffStored", "HandlePutCloser", "DataVictim",
                     "WouldAddSound", "ExpiryStamp", "CreatedStamp"}
NodeStepLaws(o1, px1, dx1, pb1, db1, c, r, o2, pmx, dmx) ==
    LET t == c.t
        px2 == NextPx(px1, c)
        dx2 == NextDx(dx1, c)
        ap == DOMAIN o1.peers                   \* present before the call
        ad == DOMAIN o1.data
        lp == Live(o1.peers, px1, t)            \* ... and not past their implied expiry at the call's clock value
        ld == Live(o1.data, dx1, t)
        sp == ap \ lp                           \* stale: may stay (TTLHonoured) or vanish at any call
        sd == ad \ ld
        isP == c.op \in {"addpeer", "rmpeer"}
        isD == c.op \in {"put", "hput"}
        pv == Victims(lp, o2.peers, c, {"addpeer"}) \ (IF c.key = LocalID THEN {LocalID} ELSE {})
        dv == Victims(ld, o2.data, c, {"put", "hput"})
        k == c.key
        pb2 == NextPb(pb1, ap, lp, c)
        db2 == NextDb(db1, c)
    IN {nm \in NodeStepLawNames :
        CASE
          \* nothing is served past its time to live
             nm = "TTLHonoured" -> \/ \E p \in DOMAIN o2.peers : p \notin DOMAIN px2 \/ px2[p] < t
                                   \/ \E q \in DOMAIN o2.data : q \notin DOMAIN dx2 \/ dx2[q] < t
          \* a call that does not touch a cache leaves its live entries, adds nothing and changes no value
          [] nm = "OnlyExpiredVanish" ->
                 \/ (~isP /\ ~(/\ lp \subseteq DOMAIN o2.peers /\ DOMAIN o2.peers \subseteq ap
                                /\ \A p \in DOMAIN o2.peers : o2.peers[p] = o1.peers[p]))
                 \/ (~isD /\ ~(/\ ld \subseteq DOMAIN o2.data /\ DOMAIN o2.data \subseteq ad
                                /\ \A q \in DOMAIN o2.data : o2.data[q] = o1.data[q]))
          [] nm = "PeerLegalDisappear" -> isP /\ \E p \in lp \ DOMAIN o2.peers :
                                              ~(\/ c.op = "rmpeer" /\ k = p
                                                \/ c.op = "addpeer" /\ k # p /\ k \notin lp /\ k # LocalID)
          [] nm = "PeerOnlyAdds" -> \E p \in (DOMAIN o2.peers) \ ap : ~(c.op = "addpeer" /\ k = p)
          \* AddPeer returns true exactly when the id was not a peer and is one now; never for the own id
          [] nm = "AddPeerReturn" -> c.op = "addpeer" /\
                                        IF k \in sp THEN r.ret /\ k \notin DOMAIN o2.peers
                                        ELSE r.ret # (k \notin lp /\ k \in DOMAIN o2.peers)
          \* refreshing a known peer never loses it; whoever is stored carries the given info
          [] nm = "AddPeerStores" -> c.op = "addpeer" /\ \/ (k \in lp /\ k \notin DOMAIN o2.peers)
                                                         \/ (k \in DOMAIN o2.peers /\ o2.peers[k] # c.v)
          [] nm = "PeerInfoLatest" -> \E p \in ap \cap DOMAIN o2.peers : o2.peers[p] # o1.peers[p] /\ ~(c.op = "addpeer" /\ k = p)
          [] nm = "RemoveExact" -> c.op = "rmpeer" /\ \/ k \in DOMAIN o2.peers
                                                      \/ (k \notin sp /\ r.ret # (k \in lp))
                                                      \/ ~(lp \ {k} \subseteq DOMAIN o2.peers /\ DOMAIN o2.peers \subseteq ap \ {k})
          \* eviction: only when full, at most one live victim, never one closer to the locus than a kept entry outside the
          \* minimum (the buckets counted with or without the stale entries)
          [] nm = "PeerVictim" -> c.op = "addpeer" /\ pv # {} /\
                                     ~(/\ Cardinality(pv) = 1
                                       /\ Cardinality(ap \cup {k}) > pmx
                                       /\ LET v == CHOOSE v \in pv : TRUE IN
                                          NoCloserVictimC(ap \cup {k}, v, PeerMin) \/ NoCloserVictimC(lp \cup {k}, v, PeerMin))
          [] nm = "PeerVictimNewest" -> c.op = "addpeer" /\ Cardinality(pv) = 1 /\ ~VictimNewestC(lp \cup {k}, CHOOSE v \in pv : TRUE, pb2)
          [] nm = "DataVictimNewest" -> isD /\ Cardinality(dv) = 1 /\ ~VictimNewestC(ld \cup {k}, CHOOSE v \in dv : TRUE, db2)
          [] nm = "DataLegalDisappear" -> isD /\ \E q \in ld \ DOMAIN o2.data : ~(k # q /\ k \notin ld)
          [] nm = "DataOnlyAdds" -> \E q \in (DOMAIN o2.data) \ ad : ~(isD /\ k = q)
          \* a stored value changes only by a put of that very key, to the value put (never another key's value)
          [] nm = "ValueLatest" -> \E q \in ad \cap DOMAIN o2.data : o2.data[q] # o1.data[q] /\ ~(isD /\ k = q)
          [] nm = "PutReturn" -> c.op = "put" /\
                                    IF k \in sd THEN r.ret /\ k \notin DOMAIN o2.data
                                    ELSE r.ret # (k \notin ld /\ k \in DOMAIN o2.data)
          \* overwriting a live key is never refused; whatever is stored under the key is the value put
          [] nm = "PutStores" -> isD /\ \/ (k \in ld /\ k \notin DOMAIN o2.data)
                                        \/ (k \in DOMAIN o2.data /\ o2.data[k] # c.v)
          \* Accepted <=> a Get at the same instant returns the value
          [] nm = "AcceptedIffStored" -> c.op = "hput" /\ r.acc # (k \in DOMAIN o2.data /\ o2.data[k] = c.v)
          [] nm = "HandlePutCloser" -> c.op = "hput" /\ ~(CloserSoundP(o2.peers, k, r.closer) /\ CloserCompleteP(o2.peers, k, r.closer))
          [] nm = "DataVictim" -> isD /\ dv # {} /\
                                     ~(/\ Cardinality(dv) = 1
                                       /\ Cardinality(ad \cup {k}) > dmx
                                       /\ LET v == CHOOSE v \in dv : TRUE IN
                                          NoCloserVictimC(ad \cup {k}, v, DataMin) \/ NoCloserVictimC(ld \cup {k}, v, DataMin))
          \* WouldAdd said yes (at this clock value) => the put is kept.  (capacity 0: recorded as G02 ... would/zero-cap)
          [] nm = "WouldAddSound" -> isD /\ dmx > 0 /\ k \in DOMAIN o1.would /\ o1.would[k] /\ ld = DOMAIN o1.data
                                         /\ k \notin DOMAIN o2.data
          \* the stamps the caches hold come from DHTNodeParams.Now: ExpiresAt = the call's clock value + MaxPeerTTL /
          \* the put's ttl / min(TTLms, MaxDataTTL); CreatedAt = the clock value of the AddPeer that introduced the peer / of the put
          [] nm = "ExpiryStamp" -> \/ \E p \in DOMAIN o2.pst : p \notin DOMAIN px2 \/ o2.pst[p].e # px2[p]
                                   \/ \E q \in DOMAIN o2.dst : q \notin DOMAIN dx2 \/ o2.dst[q].e # dx2[q]
          [] nm = "CreatedStamp" -> \/ \E p \in (DOMAIN o2.pst) \cap DOMAIN pb2 : o2.pst[p].c # pb2[p]
                                    \/ \E q \in (DOMAIN o2.dst) \cap DOMAIN db2 : o2.dst[q].c # db2[q]}

-----------------------------------------------------------------------------
(* Invariants and action properties of the model *)

NodeTypeOK == /\ DOMAIN P.E \subseteq PeerIDs /\ DOMAIN D.E \subseteq DataKeys
              /\ now \in 1..MaxNow /\ P.n \in 0..NBuckets /\ D.n \in 0..NBuckets

\* the intended variant: every reachable state is purged at its clock value (each call purges first)
Purged == \A k \in DOMAIN P.E : ~Expired(P.E[k], now)
Purged2 == \A k \in DOMAIN D.E : ~Expired(D.E[k], now)

\* KadCache's state laws on both caches
CachesOK ==
    /\ CountExactP(P.E, P.c) /\ CountExactP(D.E, D.c)
    /\ \A k \in DOMAIN P.E : Bucket(k) < P.n
    /\ \A k \in DOMAIN D.E : Bucket(k) < D.n
    /\ \A k \in DOMAIN P.E : P.me[Bucket(k)] # 0 /\ P.me[Bucket(k)] <= P.E[k].e
    /\ \A k \in DOMAIN D.E : D.me[Bucket(k)] # 0 /\ D.me[Bucket(k)] <= D.E[k].e

\* the expiry times the caches hold are the ones the inputs imply
GhostAgrees == /\ \A k \in DOMAIN P.E : k \in DOMAIN gpx /\ gpx[k] = P.E[k].e
               /\ \A k \in DOMAIN D.E : k \in DOMAIN gdx /\ gdx[k] = D.E[k].e
               /\ \A k \in (DOMAIN P.E) \cap DOMAIN gpb : gpb[k] = P.E[k].c
               /\ \A k \in DOMAIN D.E : k \in DOMAIN gdb /\ gdb[k] = D.E[k].c

ObsLawsHold == ObsLaws(NodeObs(P, D, pmax, dmax), pmax, dmax) = {}

\* the recorded finding is excused in the as-coded model (and only there)
KnownLaws == IF KF_NeverExpires THEN {"TTLHonoured"} ELSE {}
StepViolations == NodeStepLaws(NodeObs(P, D, pmax, dmax), gpx, gdx, gpb, gdb, last', last', NodeObs(P', D', pmax, dmax), pmax, dmax)
NodeStepLawsHold == StepViolations \ KnownLaws = {}
NodeStepLawsProp == [][NodeStepLawsHold]_nvars
\* the law of the finding alone (violated by the as-coded model: DHTNode_kf_ttl.cfg; satisfied by the intended one)
TTLHonouredProp == [][ "TTLHonoured" \notin StepViolations ]_nvars
=============================================================================
