------------------------------ MODULE MC_Stack ------------------------------
(* Constants for Stack.tla / StackGen.tla. *)
EXTENDS Stack
Fill(n, b) == [i \in 1..n |-> b]
\* every layer kind; the mux channel ids are chosen for their header sizes: fixed 2/4/8 bytes,
\* varint 1/2/10 bytes, string names of 0/19/127/128 bytes (headers 1/20/128/130 bytes)
AllLayers == {[k |-> "frag", tag |-> "small"], [k |-> "frag", tag |-> "huge"],
              [k |-> "mbapp", tag |-> "small"], [k |-> "mbapp", tag |-> "huge"],
              [k |-> "u16", c |-> M!Ones(16)], [k |-> "u32", c |-> M!Ones(32)], [k |-> "u64", c |-> M!Ones(64)],
              [k |-> "var", c |-> {}], [k |-> "var", c |-> M!IntBits(128)], [k |-> "var", c |-> M!Ones(64)],
              [k |-> "str", c |-> <<>>], [k |-> "str", c |-> M!Name19], [k |-> "str", c |-> Fill(127, 99)], [k |-> "str", c |-> Fill(128, 99)],
              [k |-> "p2pke"]}
\* beneath the top in the quick tier: one configuration per header-size class
FewLayers == {[k |-> "frag", tag |-> "huge"], [k |-> "mbapp", tag |-> "huge"],
              [k |-> "u16", c |-> M!Ones(16)], [k |-> "u64", c |-> M!Ones(64)],
              [k |-> "var", c |-> M!IntBits(128)], [k |-> "str", c |-> M!Name19], [k |-> "p2pke"]}
MtuSet == {64, 100, 576, 1280, 65536}
MtuSet3 == {64, 576, 65536}
\* small enough that mbapp's 16-bit part count limits MTU() to 65535 / 131070 bytes
MtuSmall == {25, 26}
MtuSetQ == MtuSet \cup MtuSmall
BaseV == {"vswarm"}
BaseVN == {"vswarm", "netsim"}
=============================================================================
