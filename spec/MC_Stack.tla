------------------------------ MODULE MC_Stack ------------------------------
(* Constants for Stack.tla / StackGen.tla. *)
EXTENDS Stack
Fill(n, b) == [i \in 1..n |-> b]
\* every layer kind; the mux channel ids are chosen for their header sizes: fixed 2/4/8 bytes,
\* varint 1/2/10 bytes, string names of 0/19/127/128 bytes (headers 1/20/128/130 bytes)
AllLayers == {[k |-> "frag", tag |-> "small"], [k |-> "frag", tag |-> "huge"],
              [k |-> "mbapp", tag |-> "small"], [k |-> "mbapp", tag |-> "huge"],
              [k |-> "u16", c |-> M!Ones(16)], [k |-> "u32", c |-> M!Ones(32)], [k |-> "u64", c |-> M!Ones(64)],
              [k |-> "var", c |-> {}], [k |-> "var", c |-> M!IntBits(128)], [k |-> "var", c |-> M!Ones(64)],
              [k |-> "str", c |-> <<>>], [k |-> "str", c |-> M!Name19], [k |-> "str", c |-> Fill(127, 99)], [k |-> "str", c |-> Fill(128, 99)],
              [k |-> "p2pke"]}
\* beneath the top in the quick tier: one configuration per header-size class
FewLayers == {[k |-> "frag", tag |-> "huge"], [k |-> "mbapp", tag |-> "huge"],
              [k |-> "u16", c |-> M!Ones(16)], [k |-> "u64", c |-> M!Ones(64)],
              [k |-> "var", c |-> M!IntBits(128)], [k |-> "str", c |-> M!Name19], [k |-> "p2pke"]}
\* mux layers with k in {2, 3} channels of DIFFERENT header lengths on the same mux, every channel as the one
\* the stack continues on, every order of first use (TLC enumerates the permutations), every kind of first use
VarChans == <<{}, M!IntBits(300), M!Bit(40)>>                        \* headers of 1, 2 and 6 bytes
StrChans == <<Fill(1, 99), Fill(20, 99), Fill(200, 99)>>             \* headers of 2, 21 and 202 bytes
IdxSeqs == {<<1, 2>>, <<1, 3>>, <<2, 3>>, <<1, 2, 3>>}
Perms(n) == {p \in [1..n -> 1..n] : \A i, j \in 1..n : p[i] = p[j] => i = j}
SibOf(kind, pool, uses) ==
    {[k |-> kind, chans |-> [j \in 1..Len(ix) |-> pool[ix[j]]], own |-> o, ord |-> p, use |-> u] :
        ix \in IdxSeqs, o \in 1..3, p \in Perms(2) \cup Perms(3), u \in uses}
SibFilter(S) == {t \in S : t.own <= Len(t.chans) /\ Len(t.ord) = Len(t.chans)}
SibLayers == SibFilter(SibOf("var", VarChans, {"mtu", "tell", "ask"}) \cup SibOf("str", StrChans, {"mtu", "tell", "ask"}))
SibLayersMtu == SibFilter(SibOf("var", VarChans, {"mtu"}) \cup SibOf("str", StrChans, {"mtu"}))
NoLayers == {}
MtuSib == {64, 576}
MtuSet == {64, 100, 576, 1280, 65536}
MtuSet3 == {64, 576, 65536}
\* small enough that mbapp's 16-bit part count limits MTU() to 65535 / 131070 bytes
MtuSmall == {25, 26}
MtuSetQ == MtuSet \cup MtuSmall
BaseV == {"vswarm"}
BaseVN == {"vswarm", "netsim"}
=============================================================================
