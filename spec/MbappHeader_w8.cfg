SPECIFICATION Spec
CONSTANTS
  W = 8
  IW = 9
  AllBits = TRUE
  AllValues = TRUE
INVARIANTS LayoutLaws CodedIsLayout UnusedKept
CHECK_DEADLOCK FALSE
