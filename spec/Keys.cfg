SPECIFICATION Spec
CONSTANTS
  Rich = FALSE
  StrictIdText = TRUE
INVARIANTS RoundTripLaw EqualIffEncodingEqualLaw NonCanonicalLaw IdRoundTripLaw OrderPreservingLaw RejectInvalidLaw Dump
CHECK_DEADLOCK FALSE
