SPECIFICATION Spec
CONSTANTS
  Rich = FALSE
  LengthFastPath = FALSE
  StrictIdText = TRUE
INVARIANTS RoundTripLaw CanonicalDERLaw EqualIffEncodingEqualLaw NonCanonicalLaw IdRoundTripLaw OrderPreservingLaw RejectInvalidLaw Dump
CHECK_DEADLOCK FALSE
