-------------------------- MODULE ChannelTimeTrace --------------------------
(* One event per timed scenario run on two real channels (chanreplay -timed): the case, the number of  *)
(* InitHellos the pair emitted, how many Sends were issued / returned nil, how many payloads arrived.   *)
EXTENDS Integers, Sequences, FiniteSets, TLC, Json, IOUtils
Log == ndJsonDeserialize(IOEnv.TRACE)
VARIABLE l
\* observed handshakes may exceed the model's bound by one (a rekey that falls on the edge of the window); the
\* bound is ChannelTime!MaxHellosAt evaluated at the REAL duration of the traffic phase (a busy machine stretches it)
\* Both endpoints may own an armed rekey timer (after a simultaneous open both were initiators of a prospective
\* session, and proposeNewSession arms the timer for each): up to two InitHellos per rekey interval are rekeys,
\* not idle teardown.
Bound(ev) == 2 * (1 + (ev.ticks \div ev.R)) + (IF ev.pat = "both" THEN 0 ELSE (ev.ticks \div ev.K) + 1)
Viol(ev) ==
    (IF ev.panic THEN {"NoPanic"} ELSE {})
    \* (steady-traffic cases only: the short traffic phase of the after-expiry cases ends within a tick of the first
    \* rekey, so its hello count is not comparable with the model's bound)
    \cup (IF ~ev.panic /\ ev.post = "none" /\ ev.hellos > Bound(ev) + 1 /\ 2 * ev.stall_ms < ev.kms THEN {"NoIdleTeardown"} ELSE {})
    \cup (IF ~ev.panic /\ ev.sendfail > 0 /\ ev.stall_ms < 200 THEN {"SendSurvives"} ELSE {})
    \* the same peer after total expiry: traffic must flow again
    \cup (IF ~ev.panic /\ ev.post = "resume" /\ ev.resume_fail > 0 /\ ev.stall_ms < 200 THEN {"SendSurvives"} ELSE {})
    \* a Send that waited through the rest of the outage completes once the network has healed
    \cup (IF ~ev.panic /\ ev.post = "pending" /\ ev.pending_fail > 0 /\ ev.stall_ms < 200 THEN {"SendSurvives"} ELSE {})
    \* another key in the peer's place after total expiry: nothing handed to it, nothing accepted from it, binding unchanged
    \cup (IF ~ev.panic /\ ev.post = "stranger" /\ (ev.to_stranger > 0 \/ ev.from_stranger > 0 \/ ev.rk_changed)
          THEN {"Continuity"} ELSE {})
    \cup (IF ~ev.panic /\ ev.dups > 0 THEN {"AtMostOnce"} ELSE {})
    \cup (IF ~ev.panic /\ ev.unknown > 0 THEN {"Authentic"} ELSE {})
TraceInit == l = 1
TraceNext == /\ l <= Len(Log) /\ l' = l + 1
             /\ LET vs == Viol(Log[l]) IN (vs # {}) => PrintT(ToJson(<<"VIOL", l, Log[l].beh, vs>>))
TraceSpec == TraceInit /\ [][TraceNext]_l
AllConsumed == TLCGet("distinct") >= Len(Log) + 1
=============================================================================
