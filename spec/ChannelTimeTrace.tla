-------------------------- MODULE ChannelTimeTrace --------------------------
(* One event per timed scenario run on two real channels (chanreplay -timed): the case, the number of  *)
(* InitHellos the pair emitted, how many Sends were issued / returned nil, how many payloads arrived.   *)
EXTENDS Integers, Sequences, FiniteSets, TLC, Json, IOUtils
Log == ndJsonDeserialize(IOEnv.TRACE)
VARIABLE l
\* observed handshakes may exceed the model's bound by one (a rekey that falls on the edge of the window)
Viol(ev) ==
    (IF ev.panic THEN {"NoPanic"} ELSE {})
    \cup (IF ~ev.panic /\ ev.hellos > ev.maxhellos + 1 /\ 2 * ev.stall_ms < ev.kms THEN {"NoIdleTeardown"} ELSE {})
    \cup (IF ~ev.panic /\ ev.sendfail > 0 /\ ev.stall_ms < 200 THEN {"SendSurvives"} ELSE {})
    \cup (IF ~ev.panic /\ ev.dups > 0 THEN {"AtMostOnce"} ELSE {})
    \cup (IF ~ev.panic /\ ev.unknown > 0 THEN {"Authentic"} ELSE {})
TraceInit == l = 1
TraceNext == /\ l <= Len(Log) /\ l' = l + 1
             /\ LET vs == Viol(Log[l]) IN (vs # {}) => PrintT(ToJson(<<"VIOL", l, Log[l].beh, vs>>))
TraceSpec == TraceInit /\ [][TraceNext]_l
AllConsumed == TLCGet("distinct") >= Len(Log) + 1
=============================================================================
