-------------------------- MODULE P2pkeTimerTrace --------------------------
(* Binds P2pkeTimer.tla to the real p2pke.Timer (timerreplay -mode replay | hammer).  The Timer's    *)
(* fields are not observable: the log has call / ret events of Reset, Stop, StopSync, IsPending and   *)
(* fs / fe (fn's first / last statement), totally ordered by one atomic counter; the log is sorted.   *)
(* Inference only from Call-before / Ret-after: an operation takes effect between its call and its    *)
(* ret event; fn really starts before fs and really ends after fe.                                    *)
(* Monitor (per behaviour, reset when "beh" changes):                                                 *)
(*  open       call id -> [op, clean]: calls without ret; clean = no Reset call was open at the call   *)
(*             and none started since                                                                 *)
(*  quiet      a clean StopSync returned and no Reset call started since          (property b)        *)
(*  cleanStop  a clean Stop / StopSync returned and no Reset call started since   (property d)        *)
(*  fnOpen     fs without fe                                                      (property a)        *)
(*  fe1, fe2   counter of the latest fe and of the one before; lastResetRet; nfs, nresets (c)         *)
(*  armedClean a short Reset returned with no Stop/StopSync call open or started since, no fs since   *)
(* VIOL operators: NoConcurrentFn (a), QuietAfterStopSync (b), FnNeedsLiveReset (c), StoppedNotPending*)
(* (d).  DRIFT: ResetLeadsToFn (timing: a wait of 80x the delay saw no fn), Malformed.                *)
EXTENDS Integers, Sequences, FiniteSets, TLC, Json, IOUtils

Log == ndJsonDeserialize(IOEnv.TRACE)
VARIABLES l, m
M0 == [beh |-> -1, open |-> <<>>, openResets |-> 0, openStops |-> 0, quiet |-> FALSE, cleanStop |-> FALSE,
       fnOpen |-> 0, fe1 |-> 0, fe2 |-> 0, lastResetRet |-> 0, nfs |-> 0, nresets |-> 0, armedClean |-> FALSE]

IsStop(op) == op \in {"stop", "stopsync"}
Put(f, k, v) == [x \in DOMAIN f \cup {k} |-> IF x = k THEN v ELSE f[x]]
Del(f, k) == [x \in DOMAIN f \ {k} |-> f[x]]

\* (c) a legitimate fn start needs a Reset whose effect can be later than the isPending test of the
\* previous fn run, which is itself later than the fe before that one (runMu serialises the callbacks).
LiveResetPossible(s) == s.nresets > s.nfs /\ (s.openResets > 0 \/ s.lastResetRet > s.fe2)

Step(s0, ev) ==
    LET s == IF ev.beh = s0.beh THEN s0 ELSE [M0 EXCEPT !.beh = ev.beh] IN
    CASE ev.ev = "call" /\ ev.op = "reset" ->
           [viol |-> {}, drift |-> {},
            s |-> [s EXCEPT !.open = Put([k \in DOMAIN s.open |-> [s.open[k] EXCEPT !.clean = FALSE]], ev.id,
                                         [op |-> "reset", clean |-> s.openStops = 0, nfs |-> s.nfs]),
                            !.openResets = @ + 1, !.quiet = FALSE, !.cleanStop = FALSE, !.nresets = @ + 1,
                            !.armedClean = FALSE]]
      [] ev.ev = "call" /\ IsStop(ev.op) ->
           [viol |-> {}, drift |-> {},
            s |-> [s EXCEPT !.open = Put([k \in DOMAIN s.open |-> IF s.open[k].op = "reset" THEN [s.open[k] EXCEPT !.clean = FALSE] ELSE s.open[k]],
                                         ev.id, [op |-> ev.op, clean |-> s.openResets = 0, nfs |-> s.nfs]),
                            !.openStops = @ + 1, !.armedClean = FALSE]]
      [] ev.ev = "call" /\ ev.op = "ispending" ->
           [viol |-> {}, drift |-> {}, s |-> [s EXCEPT !.open = Put(s.open, ev.id, [op |-> "ispending", clean |-> s.cleanStop, nfs |-> s.nfs])]]
      [] ev.ev = "call" /\ ev.op = "wait" -> [viol |-> {}, drift |-> {}, s |-> s]
      [] ev.ev = "ret" /\ ev.op = "wait" ->
           [viol |-> {}, drift |-> IF ~ev.res /\ s.armedClean THEN {"ResetLeadsToFn"} ELSE {}, s |-> s]
      [] ev.ev = "ret" /\ ev.id \notin DOMAIN s.open -> [viol |-> {}, drift |-> {"Malformed"}, s |-> s]
      [] ev.ev = "ret" /\ ev.op = "reset" ->
           [viol |-> {}, drift |-> {},
            s |-> [s EXCEPT !.open = Del(s.open, ev.id), !.openResets = @ - 1, !.lastResetRet = ev.seq,
                            !.armedClean = (ev.d = "s" /\ s.open[ev.id].clean /\ s.nfs = s.open[ev.id].nfs)]]
      [] ev.ev = "ret" /\ IsStop(ev.op) ->
           LET c == s.open[ev.id].clean
               q == ev.op = "stopsync" /\ c IN
           [viol |-> IF q /\ s.fnOpen > 0 THEN {"QuietAfterStopSync"} ELSE {}, drift |-> {},
            s |-> [s EXCEPT !.open = Del(s.open, ev.id), !.openStops = @ - 1,
                            !.quiet = (@ \/ q), !.cleanStop = (@ \/ c)]]
      [] ev.ev = "ret" /\ ev.op = "ispending" ->
           [viol |-> IF ev.res /\ s.open[ev.id].clean THEN {"StoppedNotPending"} ELSE {}, drift |-> {},
            s |-> [s EXCEPT !.open = Del(s.open, ev.id)]]
      [] ev.ev = "fs" ->
           [viol |-> (IF s.fnOpen > 0 THEN {"NoConcurrentFn"} ELSE {})
                     \cup (IF s.quiet THEN {"QuietAfterStopSync"} ELSE {})
                     \cup (IF ~LiveResetPossible(s) THEN {"FnNeedsLiveReset"} ELSE {}),
            drift |-> {},
            s |-> [s EXCEPT !.fnOpen = @ + 1, !.nfs = @ + 1, !.armedClean = FALSE]]
      [] ev.ev = "fe" ->
           [viol |-> {}, drift |-> {}, s |-> [s EXCEPT !.fnOpen = @ - 1, !.fe2 = s.fe1, !.fe1 = ev.seq]]
      [] OTHER -> [viol |-> {}, drift |-> {"Malformed"}, s |-> s]

TraceInit == l = 1 /\ m = M0
TraceNext == /\ l <= Len(Log)
             /\ LET r == Step(m, Log[l]) IN
                /\ m' = r.s
                /\ (r.viol # {}) => PrintT(ToJson(<<"VIOL", l, Log[l].beh, r.viol>>))
                /\ (r.drift # {}) => PrintT(ToJson(<<"DRIFT", l, Log[l].beh, r.drift>>))
             /\ l' = l + 1
TraceSpec == TraceInit /\ [][TraceNext]_<<l, m>>
AllConsumed == TLCGet("distinct") >= Len(Log) + 1
=============================================================================
