SPECIFICATION NodeSpec
CONSTANTS
  Locus <- L0Locus
  Keys <- L0Keys
  Queries <- L0Queries
  Vals <- NNone
  Times <- NNone
  TouchTimes <- NNone
  ExpTimes <- NNone
  Exps <- NNone
  Configs <- NNone
  MaxOps = 2
  LocalID <- NLocal
  PeerIDs <- L0Peers
  DataKeys <- L0Data
  Infos = {1, 2}
  DVals = {1, 2}
  PutTTLs = {0, 2}
  HPutTTLs = {1, 3, 99}
  PeerTTL = 1
  MaxDataTTL = 2
  MaxNow = 3
  NodeConfigs <- L0Configs
  Targets <- L0Targets
  Limits <- L0Limits
  Orig <- NNone
VIEW nview
INVARIANTS NodeTypeOK
PROPERTIES TTLHonouredProp
CHECK_DEADLOCK FALSE
