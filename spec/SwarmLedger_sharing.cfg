SPECIFICATION Spec
CONSTANTS
  Senders = {1, 2}
  MaxMsgs = 2
  Sharing = TRUE
  Kinds = {"mem", "udp", "frag/mem64", "frag/dup/mem64", "mbapp/dup/mem128", "p2pke/dup/mem", "mbapp/mem128", "strmux/mem", "u16mux/mem", "u32mux/mem", "u64mux/mem", "varmux/mem", "multi/mem", "map/mem", "p2pke/mem", "p2pke/udp", "wl/p2pke/mem", "frag/p2pke/mem", "mbapp/p2pke/mem", "strmux/mbapp/mem128", "quic/mem", "ssh"}
  SenderCounts = {3}
  ReceiverCounts = {2}
  SizeClasses = {0, 1, 7, 64, 200, 250, 500, 750, 999, 1000}
INVARIANTS NoMix BufferStable
CHECK_DEADLOCK FALSE
