----------------------------- MODULE ChannelGen -----------------------------
(* Behaviour generation for harness/cmd/chanreplay.  Timers are eager (zero-delay timers fire    *)
(* before the environment acts again), which is what the replayer reproduces by waiting for the   *)
(* real timers' effects after every environment action.                                           *)
EXTENDS Channel, Json
CONSTANT MaxSteps
VARIABLES hist, done
genvars == <<vars, hist, done>>

Snap(c) == [slots |-> [i \in 0..2 |-> IF slot[c][i] = None THEN [p |-> FALSE, init |-> FALSE, ready |-> FALSE, rkey |-> "none"]
                                       ELSE [p |-> TRUE, init |-> S[slot[c][i]].init, ready |-> Ready(S, slot[c][i]),
                                             rkey |-> S[slot[c][i]].rkey]],
            bound |-> bound[c], pending |-> pending[c]]
Rec == [act |-> last', a |-> [slots |-> Snap("a").slots', bound |-> bound'["a"], pending |-> pending'["a"]],
                       b |-> [slots |-> Snap("b").slots', bound |-> bound'["b"], pending |-> pending'["b"]],
        kf |-> KF_StaleHello']
GenInit == Init /\ hist = <<>> /\ done = FALSE
Dump == PrintT(ToJson(<<"BEH", [hist |-> hist, acceptA |-> AcceptA, acceptB |-> AcceptB]>>))
Finish == /\ ~done /\ (Len(hist) >= MaxSteps \/ ~ENABLED Next)
          /\ ~(Eager /\ TimerDue)
          /\ Dump /\ done' = TRUE /\ UNCHANGED <<vars, hist>>
RandEnv == \/ \E c \in {RandomElement(Ch)} : SendCall(c)
           \/ \E c \in {RandomElement(Ch)} : RekeyFire(c)
           \/ net # {} /\ \E m \in {RandomElement(net)} : Deliver(m.to, m)
           \/ net # {} /\ \E m \in {RandomElement(net)} : Deliver(m.to, m)
           \/ net # {} /\ \E m \in {RandomElement(net)} : Deliver(m.to, m)
           \/ \E k \in {RandomElement(RestartKeys)} : Restart(k)
RandNext == IF TimerDue THEN Timers ELSE RandEnv
GenNext == \/ ((Len(hist) < MaxSteps \/ TimerDue) /\ RandNext /\ hist' = Append(hist, Rec) /\ UNCHANGED done)
           \/ Finish
GenSpec == GenInit /\ [][GenNext]_genvars

CoverNext == Next /\ hist' = Append(hist, Rec) /\ UNCHANGED done
CoverSpec == GenInit /\ [][CoverNext]_genvars
DumpEvery == (hist # <<>> /\ ~(Eager /\ TimerDue)) => Dump
=============================================================================
