SPECIFICATION Spec
CONSTANTS
  InnerMtus <- MtuSet
  Bases <- BaseV
  TopLayers <- SibLayersMtu
  LowLayers <- FewLayers
  Depth = 2
  SizeCap = 300000
INVARIANTS Honest
CHECK_DEADLOCK FALSE
