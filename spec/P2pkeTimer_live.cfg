SPECIFICATION FairSpec
CONSTANTS
  Threads = {t1, t2}
  MaxOps = 2
INVARIANTS TypeOK NoConcurrentFn QuietAfterStopSync OncePerReset StoppedNotPending
PROPERTIES FnNeedsLiveReset ResetLeadsToFn RunsOnceThenRests
CHECK_DEADLOCK FALSE
