SPECIFICATION Spec
CONSTANTS
  Rich = TRUE
  Fixed = TRUE
INVARIANTS NoModelPanic Dump
CHECK_DEADLOCK FALSE
