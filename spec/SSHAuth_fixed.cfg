SPECIFICATION ASpec
CONSTANTS
  CacheMax = 16
  MaxSteps = 6
  Fixed = TRUE
INVARIANTS RecordedIsProven NeverProvesOther CacheBounded
CHECK_DEADLOCK FALSE
