--------------------------- MODULE SecureSwarmGen ---------------------------
(***************************************************************************)
(* Script generation for harness/cmd/secreplay.  A script is the sequence  *)
(* of ENVIRONMENT steps of a behaviour of SecureSwarm.tla (Tell / Ask /    *)
(* reply calls of the honest nodes, the adversary's steps); the steps the  *)
(* real swarms take by themselves (Answer, DialerCheck, Accept, Transmit,  *)
(* DeliverUp, LookupInHandler) are run to completion between them, so the  *)
(* final state is the model's prediction of who is handed which payload    *)
(* under which identity.  TLC enumerates EVERY script of a family (model   *)
(* checking mode, no VIEW: one behaviour per path) or samples the          *)
(* unrestricted family "mixed" (simulation).  Families:                    *)
(*   pair    A and B only: a Tell/Ask of A to (any identity, B), B's       *)
(*           answer (to Src or to A's address), a second Tell of A to (any *)
(*           identity, B) or a reply; every whitelist pair in WLA x WLB.   *)
(*   auth    M dials A: every sequence of <= Depth authentication steps    *)
(*           (SSH: Query(k)/Signed(k), k any key; P2PKE/QUIC: handshake    *)
(*           attempts presenting any key with its own / no / a captured    *)
(*           proof), then a Tell and an Ask of M and A's reply to what it  *)
(*           saw.                                                          *)
(*   answer  A sends to (any identity, M's transport address) while M      *)
(*           presents any key with / without proof; M sends back; A sends  *)
(*           to (any identity, M's address) again over what now exists.    *)
(***************************************************************************)
EXTENDS MC_SecureSwarm, Json

CONSTANTS Fam, Depth, DepthAtomic, MaxSteps

VARIABLES hist, ph, done
genvars == <<vars, hist, ph, done>>

GenInit == Init /\ hist = <<>> /\ ph = 0 /\ done = FALSE

Quiescent == ~InHandler /\ ~DataReady /\ \A c \in CIdx : ~HsBusy(c)
Settle == IF InHandler THEN Lookup ELSE IF DataReady THEN DataPath ELSE Handshake

PairOf(i) == {sends[i].from, sends[i].t}
\* a spliced InitHello leaves a prospective session at the victim that can never complete and that may or may
\* not be replaced by M's next attempt (known finding C07:Converges:hopeless-prospective-session): no prediction
NoSplice == \A j \in 1..Len(hist) : hist[j].a = "present" => hist[j].proof # "splice"
Sure(i) == /\ sends[i].sure
           /\ Weak = {}
           /\ NoSplice
           /\ (sends[i].lk /\ kind = "p2pke") => Fam # "mixed"     \* a random walk interleaves held handshakes freely
           /\ kind = "p2pke" => \A j \in 1..Len(sends) : sends[j].st = "err" => PairOf(j) # PairOf(i)
DlOf(i) == {d \in dlv : d.p = i}
Exp == [i \in 1..Len(sends) |->
          [p |-> i, from |-> sends[i].from, st |-> sends[i].st, sure |-> Sure(i), lk |-> sends[i].lk, res |-> sends[i].res,
           dl |-> DlOf(i) # {},
           at |-> IF DlOf(i) # {} THEN (CHOOSE d \in DlOf(i) : TRUE).at ELSE "-",
           src |-> IF DlOf(i) # {} THEN (CHOOSE d \in DlOf(i) : TRUE).src ELSE "-",
           seen |-> \E w \in saw : w.p = i]]
Dump == PrintT(ToJson(<<"BEH", [kind |-> kind, wl |-> wl, hist |-> hist, exp |-> Exp, fam |-> Fam]>>))

Finish == /\ Dump /\ done' = TRUE /\ UNCHANGED <<vars, hist, ph>>

\* step wrappers: the action plus its script record
DoTell(n, x, t, ask, nph) ==
    /\ Tell(n, x, t, ask)
    /\ hist' = Append(hist, [a |-> "tell", n |-> n, x |-> x, t |-> t, ask |-> ask, p |-> Len(sends'),
                             c |-> sends'[Len(sends')].c, newc |-> Len(conns') > Len(conns)])
    /\ ph' = nph /\ UNCHANGED done
DoReply(n, dl, ask, nph) ==
    /\ Reply(n, dl, ask)
    /\ hist' = Append(hist, [a |-> "reply", n |-> n, re |-> dl.p, ask |-> ask, p |-> Len(sends'),
                             c |-> sends'[Len(sends')].c, newc |-> Len(conns') > Len(conns)])
    /\ ph' = nph /\ UNCHANGED done
\* the same calls issued WITHOUT waiting for their result (the script goes on while they block); "join" collects them
DoTellA(n, x, t, nph) ==
    /\ Tell(n, x, t, FALSE)
    /\ hist' = Append(hist, [a |-> "tell", n |-> n, x |-> x, t |-> t, ask |-> FALSE, p |-> Len(sends'), async |-> TRUE,
                             c |-> sends'[Len(sends')].c, newc |-> Len(conns') > Len(conns)])
    /\ ph' = nph /\ UNCHANGED done
DoLookup(n, x, t, async, nph) ==
    /\ LookupKey(n, x, t)
    /\ hist' = Append(hist, [a |-> "lookup", n |-> n, x |-> x, t |-> t, p |-> Len(sends'), async |-> async,
                             c |-> sends'[Len(sends')].c, newc |-> Len(conns') > Len(conns)])
    /\ ph' = nph /\ UNCHANGED done
\* wait for the calls issued asynchronously; one that still waits runs into the end of its context
DoJoin(nph) ==
    /\ IF \E i \in 1..Len(sends) : Waiting(i) THEN \E i \in 1..Len(sends) : Timeout(i) ELSE UNCHANGED vars
    /\ hist' = Append(hist, [a |-> "join"])
    /\ ph' = nph /\ UNCHANGED done
DoMHello(c, k, proof, nph) ==
    /\ MHello(c, k, proof)
    /\ hist' = Append(hist, [a |-> "hello", c |-> c, k |-> k, proof |-> proof])
    /\ ph' = nph /\ UNCHANGED done
DoMFinish(c, nph) ==
    /\ MFinish(c)
    /\ hist' = Append(hist, [a |-> "finish", c |-> c])
    /\ ph' = nph /\ UNCHANGED done
DoMListen(k, proof, nph) ==
    /\ MListen(k, proof)
    /\ hist' = Append(hist, [a |-> "mlisten", k |-> k, proof |-> proof])
    /\ ph' = nph /\ UNCHANGED done
DoMDial(t, nph) ==
    /\ MDial(t)
    /\ hist' = Append(hist, [a |-> "mdial", c |-> Len(conns'), t |-> t])
    /\ ph' = nph /\ UNCHANGED done
DoMPresentX(c, k, proof, extra, nph) ==
    /\ MPresentX(c, k, proof, extra)
    /\ hist' = Append(hist, [a |-> "present", c |-> c, k |-> k, proof |-> proof, extra |-> extra])
    /\ ph' = nph /\ UNCHANGED done
DoMListenX(k, proof, extra, nph) ==
    /\ MListenX(k, proof, extra)
    /\ hist' = Append(hist, [a |-> "mlisten", k |-> k, proof |-> proof, extra |-> extra])
    /\ ph' = nph /\ UNCHANGED done
DoMPresent(c, k, proof, nph) ==
    /\ MPresent(c, k, proof)
    /\ hist' = Append(hist, [a |-> "present", c |-> c, k |-> k, proof |-> proof])
    /\ ph' = nph /\ UNCHANGED done
DoMQuery(c, k, nph) ==
    /\ MQuery(c, k)
    /\ hist' = Append(hist, [a |-> "query", c |-> c, k |-> k])
    /\ ph' = nph /\ UNCHANGED done
DoMSigned(c, k, nph) ==
    /\ MSigned(c, k)
    /\ hist' = Append(hist, [a |-> "signed", c |-> c, k |-> k])
    /\ ph' = nph /\ UNCHANGED done
DoMSend(c, ask, nph) ==
    /\ MSend(c, ask)
    /\ hist' = Append(hist, [a |-> "msend", c |-> c, ask |-> ask, p |-> Len(sends'), peer |-> Peer(c, "M"),
                             role |-> IF conns[c].d = "M" THEN "dial" ELSE "answer"])
    /\ ph' = nph /\ UNCHANGED done
Skip(nph) == ph' = nph /\ UNCHANGED <<vars, hist, done>>

DlAt(n) == {d \in dlv : d.at = n}
MConn == {c \in CIdx : conns[c].d = "M"}            \* connections M dialled
AConn == {c \in CIdx : conns[c].a = "M"}            \* connections somebody dialled to M

-----------------------------------------------------------------------------
PairNext ==
    \/ ph = 0 /\ \E x \in Nodes, ask \in Asks : DoTell("A", x, "B", ask, 1)
    \/ ph = 1 /\ \/ DoTell("B", "A", "A", FALSE, 2)
                 \/ \E dl \in DlAt("B") : DoReply("B", dl, FALSE, 2)
    \/ ph = 2 /\ \/ \E x \in Nodes : DoTell("A", x, "B", FALSE, 3)
                 \/ \E dl \in DlAt("A") : DoReply("A", dl, FALSE, 3)
    \/ ph = 3 /\ Finish

AuthOver(c) == \/ adv >= (IF kind = "ssh" THEN Depth ELSE DepthAtomic)
               \/ conns[c].ast = "open"
               \/ (kind = "ssh" /\ conns[c].au.st # "auth")
AuthNext ==
    \* optional prologue (P2PKE): B talks to M, which lets M capture B's signed timestamp
    \/ ph = 0 /\ \/ Skip(1)
                 \/ kind = "p2pke" /\ DoTell("B", "M", "M", FALSE, 1)
    \/ ph = 1 /\ DoMDial("A", 2)
    \/ ph = 2 /\ \E c \in MConn :
          IF AuthOver(c) THEN Skip(3)
          ELSE \/ \E k \in Nodes : DoMQuery(c, k, 2) \/ DoMSigned(c, k, 2)
               \/ \E k \in Nodes, proof \in {"own", "none", "splice"} : DoMPresent(c, k, proof, 2)
    \/ ph = 3 /\ \E c \in MConn : DoMSend(c, FALSE, 4)
    \/ ph = 4 /\ IF kind # "p2pke" /\ TRUE \in Asks THEN \E c \in MConn : DoMSend(c, TRUE, 5) ELSE Skip(5)
    \/ ph = 5 /\ IF DlAt("A") # {}
                 THEN \E dl \in DlAt("A") : (\A d2 \in DlAt("A") : dl.p <= d2.p) /\ DoReply("A", dl, FALSE, 6)
                 ELSE Skip(6)
    \/ ph = 6 /\ Finish

AnswerNext ==
    \/ ph = 0 /\ \/ Skip(1)
                 \/ \E k \in Nodes, proof \in {"own", "none", "data"} : DoMListen(k, proof, 1)
    \/ ph = 1 /\ \E x \in Nodes, ask \in Asks : DoTell("A", x, "M", ask, 2)
    \/ ph = 2 /\ IF AConn # {} THEN \E c \in AConn : DoMSend(c, FALSE, 3) ELSE Skip(3)
    \/ ph = 3 /\ \/ \E x \in Nodes : DoTell("A", x, "M", FALSE, 4)
                 \/ \E dl \in DlAt("A") : DoReply("A", dl, FALSE, 4)
    \/ ph = 4 /\ Finish

(* race: an INBOUND handshake / connection from M's transport address exists at A when A calls Tell or            *)
(* LookupPublicKey for (any identity, M's address).  P2PKE: M's InitHello (any claim, with or without proof) has  *)
(* created the channel and M withholds InitDone; the call is issued while the handshake is in flight, and M then  *)
(* completes it (or never does), or M completes first and the call comes afterwards.  QUIC / SSH: the inbound     *)
(* session / connection of M is established, then the call.  Finally M writes into whatever it has.              *)
RaceIds == IF Depth >= 1 THEN Nodes ELSE {"B", "M"}
RaceNext ==
    \/ ph = 0 /\ DoMDial("A", 1)
    \/ ph = 1 /\ \E c \in MConn :
          IF kind = "p2pke"
          THEN \E k \in Nodes, proof \in {"own", "none"} :
                  \* Depth = 0: one InitHello that can complete and one that is refused
                  (Depth >= 1 \/ <<k, proof>> \in {<<"M", "own">>, <<"B", "none">>}) /\ DoMHello(c, k, proof, 2)
          ELSE IF kind = "quic" THEN DoMPresent(c, "M", "own", 10)
          ELSE DoMSigned(c, "M", 10)
    \/ ph = 2 /\ \/ \E x \in RaceIds : DoTellA("A", x, "M", 3) \/ DoLookup("A", x, "M", TRUE, 3)
                 \/ \E c \in MConn : DoMFinish(c, 10)
    \/ ph = 3 /\ \/ \E c \in MConn : DoMFinish(c, 4)
                 \/ Skip(4)
    \/ ph = 4 /\ DoJoin(5)
    \/ ph = 10 /\ \E x \in RaceIds : DoTell("A", x, "M", FALSE, 5) \/ DoLookup("A", x, "M", FALSE, 5)
    \/ ph = 5 /\ \E c \in MConn : DoMSend(c, FALSE, 6)
    \/ ph = 6 /\ Finish

(* cred: credential presentations of a certificate-based transport (quicswarm).  M presents a chain            *)
(* (leaf key, proof, one additional unproven certificate): own Ed25519 / own ECDSA (not loadable by the registry) / *)
(* a victim's key as leaf, with its own signature or none, followed by nothing / a victim's certificate / its own  *)
(* Ed25519 certificate.  Inbound: M dials A, then a Tell and an Ask of M and A's reply.  Outbound: A sends to      *)
(* (any identity, M's address) while M answers with the chain, then M writes back.  Depth = 0 keeps the classes    *)
(* named in the design (a proven leaf with any extra; an unproven leaf alone), Depth = 1 takes the full product.   *)
CredSet == {cr \in [k : Keys, proof : {"own", "none"}, extra : Extras \cup {"-"}] :
               \/ Depth >= 1
               \/ (cr.proof = "own" /\ cr.k \in {"M", "Me"})
               \/ cr.extra = "-"}
CredNext ==
    \/ ph = 0 /\ \/ DoMDial("A", 1)
                 \/ \E cr \in CredSet : IF cr = [k |-> "M", proof |-> "own", extra |-> "-"] THEN Skip(20)
                                        ELSE DoMListenX(cr.k, cr.proof, cr.extra, 20)
    \* inbound
    \/ ph = 1 /\ \E c \in MConn, cr \in CredSet : DoMPresentX(c, cr.k, cr.proof, cr.extra, 3)
    \/ ph = 3 /\ \E c \in MConn : DoMSend(c, FALSE, 4)
    \/ ph = 4 /\ \E c \in MConn : DoMSend(c, TRUE, 5)
    \/ ph = 5 /\ IF DlAt("A") # {}
                 THEN \E dl \in DlAt("A") : (\A d2 \in DlAt("A") : dl.p <= d2.p) /\ DoReply("A", dl, FALSE, 6)
                 ELSE Skip(6)
    \/ ph = 6 /\ Finish
    \* outbound
    \/ ph = 20 /\ \E x \in (IF Depth >= 1 THEN Nodes ELSE {"B", "M"}) :
                        DoTell("A", x, "M", FALSE, 21) \/ DoLookup("A", x, "M", FALSE, 21)
    \/ ph = 21 /\ IF AConn # {} THEN \E c \in AConn : DoMSend(c, FALSE, 6) ELSE Skip(6)

\* unrestricted random walk (simulation mode)
MixedNext ==
    IF Len(hist) >= MaxSteps THEN Finish
    ELSE \/ \E n \in {RandomElement(Honest)}, x \in {RandomElement(Nodes)}, t \in {RandomElement(Nodes)},
              ask \in {RandomElement(Asks)} : DoTell(n, x, t, ask, 0)
         \/ dlv # {} /\ \E dl \in {RandomElement(dlv)}, ask \in {RandomElement(Asks)} : DoReply(dl.at, dl, ask, 0)
         \/ \E k \in {RandomElement(Nodes)}, proof \in {RandomElement({"own", "none", "data"})} : DoMListen(k, proof, 0)
         \/ \E t \in {RandomElement(Honest)} : DoMDial(t, 0)
         \/ conns # <<>> /\ \E c \in {RandomElement(CIdx)}, k \in {RandomElement(Nodes)} :
                \/ DoMQuery(c, k, 0) \/ DoMSigned(c, k, 0)
                \/ \E proof \in {RandomElement({"own", "none", "splice"})} : DoMPresent(c, k, proof, 0)
         \/ conns # <<>> /\ \E c \in {RandomElement(CIdx)}, ask \in {RandomElement(Asks)} : DoMSend(c, ask, 0)
         \/ conns # <<>> /\ \E c \in {RandomElement(CIdx)}, k \in {RandomElement(Nodes)},
                               proof \in {RandomElement({"own", "none"})} : DoMHello(c, k, proof, 0)
         \/ conns # <<>> /\ \E c \in {RandomElement(CIdx)} : DoMFinish(c, 0)
         \/ \E n \in {RandomElement(Honest)}, x \in {RandomElement(Nodes)}, t \in {RandomElement(Nodes)} :
                IF \E c \in CIdx : conns[c].held THEN DoTellA(n, x, t, 0) \/ DoLookup(n, x, t, TRUE, 0)
                ELSE DoLookup(n, x, t, FALSE, 0)
         \/ (\E i \in 1..Len(sends) : Waiting(i)) /\ DoJoin(0)
         \/ Len(hist) >= 3 /\ Finish

FamNext == CASE Fam = "pair"   -> PairNext
             [] Fam = "auth"   -> AuthNext
             [] Fam = "answer" -> AnswerNext
             [] Fam = "race"   -> RaceNext
             [] Fam = "cred"   -> CredNext
             [] OTHER          -> MixedNext

GenNext == \/ ~Quiescent /\ Settle /\ UNCHANGED <<hist, ph, done>>
           \/ Quiescent /\ ~done /\ FamNext
GenSpec == GenInit /\ [][GenNext]_genvars
=============================================================================
