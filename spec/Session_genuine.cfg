SPECIFICATION Spec
CONSTANTS
  Sess <- Pair
  Role <- PairRole
  KeyOf <- PairKey
  EphOf <- PairEph
  SessIdx <- PairIdx
  MaxForge = 0
  MaxSend = 2
  Window = 2
  Weak = {}
VIEW view
INVARIANTS TypeOK AuthBeforeUse Agreement HonestPair Authentic AtMostOnce NonceUnique DataCountersHigh NoPermanentFailure DataFlows
PROPERTIES Monotone
CHECK_DEADLOCK FALSE
