SPECIFICATION Spec
CONSTANTS
  Layers = {"frag", "mbapp"}
  Caps = {1, 2, 3, 5}
  NSources = 3
  MaxParts = 40
  HugeParts = {254, 255, 256, 257, 300}
  MaxSteps = 400
CHECK_DEADLOCK FALSE
