------------------------------- MODULE MC_DHT -------------------------------
EXTENDS DHT

RECURSIVE SetToSeq(_)
SetToSeq(S) == IF S = {} THEN <<>>
               ELSE LET m == CHOOSE x \in S : \A y \in S : x <= y IN <<m>> \o SetToSeq(S \ {m})

\* every subset of the universe (ascending), plus lists with duplicates / out of order / repeating
SubsetReplies == {SetToSeq(S) : S \in SUBSET Nodes}
DupReplies == {<<a, b, a>> : a, b \in Nodes}
AllReplies == SubsetReplies \cup DupReplies
\* the model-checking configs use every subset plus a few duplicated / unordered lists (the admission
\* loop treats a list as the set of its elements: Admit's contains check)
SomeDupReplies == {r \in DupReplies : r[1] > r[2] /\ r[1] - r[2] <= 2} \cup {<<2, 2, 2>>}
McReplies == SubsetReplies \cup SomeDupReplies

\* initial peer lists of size 0..k (as multisets: the loop sorts first), plus two unsorted ones
Multisets(k) == UNION {{s \in [1..n -> Nodes] : \A i \in 1..(n - 1) : s[i] <= s[i + 1]} : n \in 0..k}
Init3 == Multisets(3) \cup {<<3, 1>>, <<2, 3, 2>>}
Init2 == Multisets(2) \cup {<<3, 1>>, <<2, 3, 2>>}

\* the exhaustive small case family of DHTGen
SmallInitials == {<<>>, <<0>>, <<2>>, <<1, 2>>, <<2, 2>>, <<2, 1, 2>>, <<0, 2>>}
SmallMins == {0}
SmallGetInitials == {<<1, 2>>, <<2, 2>>, <<0, 2>>}

\* distance functions with ties (a key shorter than the peer ids), used for get / put besides the identity
TieDists4 == {<<1, 1, 2, 2>>}
TieDists5 == {<<1, 1, 2, 2, 3>>}
\* the tie part of the exhaustive small case family: nodes 0 and 1 tie, node 2 is farther
SmallTieDist == <<1, 1, 2>>
SmallTieInitials == {<<0, 1, 0>>, <<1, 0, 1>>, <<2>>, <<0, 0, 1>>}
NoDists == {}

AllOps == {"findnode", "join", "get", "put"}
MinsAll == {0, 1, 3}
=============================================================================
