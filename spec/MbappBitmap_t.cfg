SPECIFICATION Spec
CONSTANTS
  MaxN = 17
  MaxOps = 3
INVARIANTS Laws Dump
PROPERTIES PanicOnlyOutOfRange
CHECK_DEADLOCK FALSE
