SPECIFICATION GenSpec
CONSTANTS
  Kinds <- AllKinds
  WLA <- AllWL
  WLB <- AllWL
  Weak <- NoWeak
  MaxConn = 3
  MaxSend = 6
  MaxAdv = 9
  CacheMax = 16
  Extras = {}
  Asks = {FALSE, TRUE}
  Fam = "mixed"
  Depth = 0
  DepthAtomic = 0
  MaxSteps = 9
CHECK_DEADLOCK FALSE
