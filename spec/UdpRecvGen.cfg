SPECIFICATION GenSpec
CONSTANTS
  R = {r1, r2, r3, r4}
  M = {m1}
  BugCtxAfterRead = FALSE
  RLate = r4
  Ks = {1, 2, 3}
  Poss = {"before", "ct", "tc", "after"}
CHECK_DEADLOCK FALSE
