---------------------------- MODULE MC_KadCache ----------------------------
EXTENDS KadCache

\* locus 0xA5; two keys in each of buckets 0,1,2, one in bucket 7, the locus itself (bucket 8)
SmallLocus == <<165>>
SmallKeys == {<<37>>, <<218>>, <<229>>, <<230>>, <<133>>, <<128>>, <<164>>, <<165>>}
SmallQueries == {<<165>>, <<37>>, <<90>>, <<229>>, <<128>>, <<181>>, <<>>, <<37, 7>>}
SmallConfigs == {<<0, 0, {}>>, <<1, 0, {}>>, <<2, 0, {}>>, <<3, 0, {}>>}

\* boundary max = 8*len(locus)*minPerBucket: one key per bucket 0..7 prefilled, then anything
OnePerBucket == {<<37>>, <<229>>, <<133>>, <<181>>, <<173>>, <<161>>, <<167>>, <<164>>}
BoundaryKeys == OnePerBucket \cup {<<165>>, <<218>>, <<230>>}
BoundaryConfigs == {<<8, 1, OnePerBucket>>, <<9, 1, OnePerBucket>>}

\* two-byte locus: byte-boundary buckets 7, 8, 9, 16
WideLocus == <<165, 60>>
\* entry keys have the locus' length (the realistic use); query keys may be shorter or longer
WideKeys == {<<37, 60>>, <<164, 60>>, <<165, 188>>, <<165, 124>>, <<165, 61>>, <<165, 60>>, <<164, 188>>, <<37, 195>>}
WideQueries == {<<165, 60>>, <<165>>, <<37>>, <<165, 188>>, <<165, 195>>, <<>>, <<164, 0, 9>>}
WideConfigs == {<<2, 0, {}>>, <<3, 0, {}>>}

\* focus: a tiny universe (two keys in bucket 1, one in bucket 2) whose whole transition graph is small
\* enough to execute EVERY model transition on the real cache (edge cover)
FocusKeys == {<<229>>, <<230>>, <<133>>}
FocusQueries == {<<165>>, <<229>>, <<37>>}
FocusConfigs == {<<2, 0, {}>>, <<3, 0, {}>>}

\* 32-byte locus (the size DHTNode uses): 257 buckets; keys by flipped bit + salted tail
L32 == [i \in 1..32 |-> (i * 37 + 11) % 256]
Mask(bit) == CASE bit % 8 = 0 -> 128 [] bit % 8 = 1 -> 64 [] bit % 8 = 2 -> 32 [] bit % 8 = 3 -> 16
               [] bit % 8 = 4 -> 8 [] bit % 8 = 5 -> 4 [] bit % 8 = 6 -> 2 [] OTHER -> 1
Flip(L, bit, salt) == LET bi == (bit \div 8) + 1 IN
    [i \in 1..Len(L) |-> IF i = bi THEN L[i] ^^ Mask(bit)
                          ELSE IF i > bi THEN (L[i] + salt) % 256 ELSE L[i]]
\* shared-prefix lengths on both sides of every byte, 8-byte-word and half boundary (a word-wise LeadingZeros or
\* comparison must agree with the bit-wise one there), each with two different tails
K32Keys == {Flip(L32, b, s) : b \in {0, 1, 7, 8, 9, 20, 63, 64, 65, 70, 100, 127, 128, 130, 192, 254}, s \in {0, 3}}
           \cup {L32, Flip(L32, 255, 0)}
K32Queries == {L32, SubSeq(L32, 1, 1), SubSeq(L32, 1, 2), <<>>, Flip(L32, 0, 5), Flip(L32, 8, 1),
               Flip(L32, 100, 0), L32 \o <<7>>, SubSeq(Flip(L32, 9, 0), 1, 3)}
K32Configs == {<<4, 0, {}>>, <<6, 0, {}>>, <<9, 0, {}>>}
=============================================================================
