--------------------------- MODULE KadCacheTraceU ---------------------------
(* Default universe for KadCacheTrace (no speed-up tables).  The driver overwrites this module *)
(* in its scratch copy with the literal key/query sets of the trace being validated.           *)
TKeys == {}
TQueries == {}
=============================================================================
