SPECIFICATION Spec
CONSTANTS
  MaxS = 6
  MaxRestart = 0
  MaxRekey = 2
  MaxSendCalls = 2
  AcceptA = {"A", "B", "M"}
  AcceptB = {"A", "B", "M"}
  RestartKeys = {"A"}
  Eager = FALSE
VIEW view
INVARIANTS SlotsWellFormed OnlyAccepted Continuity AtMostOnceP
PROPERTIES Undisturbed 
CHECK_DEADLOCK FALSE
