---------------------------- MODULE MC_PhaseTime ----------------------------
(* Model-checking instance of PhaseTime: the existential facts (tightness of the skew bound,  *)
(* the pre-1970 defect of the truncated remainder, what a millisecond field does to units # 1 ms) *)
(* are assumptions TLC evaluates once.                                                           *)
EXTENDS PhaseTime

\* instants from two periods before 1970 to four periods after
MCXMin == -(2 * P)
MCXMax == 4 * P

ASSUME FaithfulScaling == Faithful
ASSUME SkewBoundIsTight == SkewTight
ASSUME Pre1970Broken == NegBroken
ASSUME MilliFieldBreaksTwoMs == (M % 2 = 0) => MilliFieldBroken(2)
=============================================================================
