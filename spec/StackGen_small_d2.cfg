SPECIFICATION Spec
CONSTANTS
  InnerMtus <- MtuSmall
  Bases <- BaseV
  TopLayers <- AllLayers
  LowLayers <- FewLayers
  Depth = 2
  SizeCap = 300000
INVARIANTS Dump
CHECK_DEADLOCK FALSE
