SPECIFICATION CoverSpec
CONSTANTS
  Sess <- Pair
  Role <- PairRole
  KeyOf <- PairKey
  EphOf <- PairEph
  SessIdx <- PairIdx
  MaxForge = 2
  MaxSend = 1
  Window = 1000
  Weak = {}
  MaxSteps = 0
VIEW view
INVARIANTS DumpEvery
CHECK_DEADLOCK FALSE
