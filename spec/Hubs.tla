-------------------------------- MODULE Hubs --------------------------------
(***************************************************************************)
(* Implementation-shaped model of the rendezvous primitives of             *)
(*   /repo/s/swarmutil/hubs.go   (TellHub, AskHub)                         *)
(*   /repo/s/swarmutil/queue.go  (Queue)                                   *)
(* used by properties C12 (Close ends everything) and C13 (cancellation is *)
(* prompt, each message goes to exactly one receiver).                     *)
(*                                                                         *)
(* Go-select idiom (DESIGN Appendix D): a `select` is ONE atomic action    *)
(* that takes a ready case (nondeterministically) or PARKS the op.  A send *)
(* or receive on an unbuffered channel is ready iff a counterpart op is    *)
(* parked on it; a receive on a closed channel is always ready; `default`  *)
(* is ready iff nothing else is.  A parked op is resumed by the            *)
(* counterpart's select (rendezvous: both ops move), by Close (only if its *)
(* select lists the closed channel) or by Cancel (only if it lists         *)
(* ctx.Done()).  Buffered channels are sequences; a send to a buffered     *)
(* channel on which a receiver is parked hands the value over directly.    *)
(*                                                                         *)
(* The model is of the code AFTER the repairs of F01 (closed case in the   *)
(* blocking select of TellHub.Receive) and F02 (AskHub substitutes         *)
(* p2p.ErrClosed for a nil close reason).  The two Bug* constants restore  *)
(* the code as it was, to show that the properties below do tell.          *)
(***************************************************************************)
EXTENDS Naturals, Sequences, FiniteSets, TLC

CONSTANTS Hub,             \* "tell" | "ask" | "queue"
          D,               \* deliver ops (TellHub.Deliver / AskHub.Deliver / Queue.Deliver), one message each
          R,               \* receive ops (TellHub.Receive / AskHub.ServeAsk / Queue.Receive)
          C,               \* close ops (calls of Close / CloseWithError)
          P,               \* purge ops (Queue.Purge)
          Cap,             \* queue capacity (maxLen); number of pre-allocated buffers
          BugNoClosedCase, \* F01: hubs.go:44 blocking select of TellHub.Receive without `case <-q.closed`
          BugNilErr        \* F02: AskHub.CloseWithError(nil) stores nil

ASSUME Hub \in {"tell", "ask", "queue"}
ASSUME Cap \in Nat

Bufs == 1..Cap
None == 0          \* "no message" / "no buffer"; ops and buffers are never 0

VARIABLES
  closed,    \* close(q.closed) happened
  cerr,      \* q.err: "unset" | "ErrClosed" | "nil"
  once,      \* closeOnce: "none" | <close op running Do> | "done"
  closeRet,  \* some Close call has returned
  panicked,  \* a panic(...) statement of queue.go was reached
  rpc, rctx, rgot, rres, rlate,          \* receive ops
  dpc, dctx, dres, dlate, cbn, cbDone,   \* deliver ops; cbn[d] = callbacks begun for d's message
  cpc, drained,                          \* close ops; Queue.Close drain counter
  ppc,                                   \* purge ops
  fl, qu,                                \* Queue.freelist, Queue.queue (buffered channels of buffers)
  content,                               \* content[b]: None (zeroed) or the deliver op whose message it holds
  dhold, rhold, phold, void              \* who owns which buffer; void = handed "back to the void" by Close

hubvars == <<closed, cerr, once, closeRet, panicked>>
rvars == <<rpc, rctx, rgot, rres, rlate>>
dvars == <<dpc, dctx, dres, dlate, cbn, cbDone>>
cvars == <<cpc, drained>>
qvars == <<fl, qu, content, dhold, rhold, phold, void>>
vars == <<hubvars, rvars, dvars, cvars, ppc, qvars>>

IsQueue == Hub = "queue"

Init ==
  /\ closed = FALSE /\ cerr = "unset" /\ once = "none" /\ closeRet = FALSE /\ panicked = FALSE
  /\ rpc = [r \in R |-> "idle"] /\ rctx = [r \in R |-> FALSE] /\ rgot = [r \in R |-> None]
  /\ rres = [r \in R |-> "none"] /\ rlate = [r \in R |-> FALSE]
  /\ dpc = [d \in D |-> "idle"] /\ dctx = [d \in D |-> FALSE] /\ dres = [d \in D |-> "none"]
  /\ dlate = [d \in D |-> FALSE] /\ cbn = [d \in D |-> 0] /\ cbDone = [d \in D |-> FALSE]
  /\ cpc = [c \in C |-> "idle"] /\ drained = 0
  /\ ppc = [p \in P |-> "idle"]
  /\ fl = IF IsQueue THEN [i \in 1..Cap |-> i] ELSE <<>>      \* queue.go:22-27 freelist pre-filled
  /\ qu = <<>>
  /\ content = [b \in Bufs |-> None]
  /\ dhold = [d \in D |-> None] /\ rhold = [r \in R |-> None] /\ phold = [p \in P |-> None]
  /\ void = {}

----------------------------------------------------------------------------
(* helpers *)

\* what `return q.err` yields once the hub is closed
ErrVal(e) == IF e = "nil" THEN "nil" ELSE "closed"
\* does the blocking select of the receive op list the closed channel?
ListsClosed == Hub # "tell" \/ ~BugNoClosedCase

ParkedD == {d \in D : dpc[d] = "park"}
ParkedR == {r \in R : rpc[r] = "park"}
ParkedDrain == {c \in C : cpc[c] = "parkdrain"}
ParkedPurge == {p \in P : ppc[p] = "parkrecv"}

RRet(r, res) == /\ rpc' = [rpc EXCEPT ![r] = "ret"] /\ rres' = [rres EXCEPT ![r] = res]
DRet(d, res) == /\ dpc' = [dpc EXCEPT ![d] = "ret"] /\ dres' = [dres EXCEPT ![d] = res]

\* unbuffered rendezvous on q.delivers / q.reqs: both ops move
Meet(r, d) ==
  /\ rpc' = [rpc EXCEPT ![r] = "cb"] /\ rgot' = [rgot EXCEPT ![r] = d]
  /\ dpc' = [dpc EXCEPT ![d] = "wait"]

----------------------------------------------------------------------------
(* TellHub.Receive (hubs.go:30-58), AskHub.ServeAsk (hubs.go:120-134), Queue.Receive (queue.go:77-89) *)
(* (line numbers of the repaired files)                                                            *)

RCall(r) ==
  /\ rpc[r] = "idle"
  /\ rpc' = [rpc EXCEPT ![r] = IF IsQueue THEN "sel2" ELSE "chk"]
  /\ rlate' = [rlate EXCEPT ![r] = closeRet]
  /\ UNCHANGED <<hubvars, rctx, rgot, rres, dvars, cvars, ppc, qvars>>

\* hubs.go:31 / hubs.go:121  checkClosed()
RChk(r) ==
  /\ rpc[r] = "chk"
  /\ IF closed THEN RRet(r, ErrVal(cerr))
     ELSE /\ rpc' = [rpc EXCEPT ![r] = IF Hub = "tell" THEN "sel1" ELSE "sel2"] /\ UNCHANGED rres
  /\ UNCHANGED <<hubvars, rctx, rgot, rlate, dvars, cvars, ppc, qvars>>

\* hubs.go:34-42  select { <-closed ; req := <-delivers ; default }   (TellHub only)
RSel1(r) ==
  /\ rpc[r] = "sel1"
  /\ \/ closed /\ RRet(r, ErrVal(cerr)) /\ UNCHANGED <<rgot, dpc>>
     \/ \E d \in ParkedD : Meet(r, d) /\ UNCHANGED rres
     \/ ~closed /\ ParkedD = {} /\ rpc' = [rpc EXCEPT ![r] = "sel2"] /\ UNCHANGED <<rgot, rres, dpc>>
  /\ UNCHANGED <<hubvars, rctx, rlate, dctx, dres, dlate, cbn, cbDone, cvars, ppc, qvars>>

\* hubs.go:44-56 (TellHub; `case <-q.closed` at :47 added by the F01 repair), hubs.go:124-133 (AskHub)
\* select { <-ctx.Done ; <-closed ; req := <-delivers }
RSel2Hub(r) ==
  /\ ~IsQueue /\ rpc[r] = "sel2"
  /\ \/ rctx[r] /\ RRet(r, "ctx") /\ UNCHANGED <<rgot, dpc>>
     \/ closed /\ ListsClosed /\ RRet(r, ErrVal(cerr)) /\ UNCHANGED <<rgot, dpc>>
     \/ \E d \in ParkedD : Meet(r, d) /\ UNCHANGED rres
     \/ /\ ~rctx[r] /\ ~(closed /\ ListsClosed) /\ ParkedD = {}
        /\ rpc' = [rpc EXCEPT ![r] = "park"] /\ UNCHANGED <<rgot, rres, dpc>>
  /\ UNCHANGED <<hubvars, rctx, rlate, dctx, dres, dlate, cbn, cbDone, cvars, ppc, qvars>>

\* queue.go:78-84  select { <-ctx.Done ; <-closed ; msg := <-queue }
RSel2Queue(r) ==
  /\ IsQueue /\ rpc[r] = "sel2"
  /\ \/ rctx[r] /\ RRet(r, "ctx") /\ UNCHANGED <<rgot, rhold, qu>>
     \/ closed /\ RRet(r, "closed") /\ UNCHANGED <<rgot, rhold, qu>>
     \/ /\ qu # <<>>
        /\ rpc' = [rpc EXCEPT ![r] = "cb"] /\ rgot' = [rgot EXCEPT ![r] = content[Head(qu)]]
        /\ rhold' = [rhold EXCEPT ![r] = Head(qu)] /\ qu' = Tail(qu) /\ UNCHANGED rres
     \/ /\ ~rctx[r] /\ ~closed /\ qu = <<>>
        /\ rpc' = [rpc EXCEPT ![r] = "park"] /\ UNCHANGED <<rgot, rres, rhold, qu>>
  /\ UNCHANGED <<hubvars, rctx, rlate, dvars, cvars, ppc, fl, content, dhold, phold, void>>

\* the callback starts: fn(req.msg) hubs.go:40,54,130 / fn(msg) queue.go:84
RCbBegin(r) ==
  /\ rpc[r] = "cb"
  /\ rpc' = [rpc EXCEPT ![r] = "incb"]
  /\ cbn' = [cbn EXCEPT ![rgot[r]] = @ + 1]
  /\ UNCHANGED <<hubvars, rctx, rgot, rres, rlate, dpc, dctx, dres, dlate, cbDone, cvars, ppc, qvars>>

\* the callback returns; hubs: close(req.done) and return nil (hubs.go:39-41,53-55,131-132);
\* queue: continue with zeroMessage / freelist <- msg
RCbEnd(r) ==
  /\ rpc[r] = "incb"
  /\ cbDone' = [cbDone EXCEPT ![rgot[r]] = TRUE]
  /\ IF IsQueue THEN rpc' = [rpc EXCEPT ![r] = "free"] /\ UNCHANGED rres
     ELSE RRet(r, "ok")
  /\ UNCHANGED <<hubvars, rctx, rgot, rlate, dpc, dctx, dres, dlate, cbn, cvars, ppc, qvars>>

\* send of buffer b on the buffered channel q.freelist by the op that owns it: a parked
\* Close drain loop takes it directly, otherwise it is appended (never full: Cap buffers in total)
FreeBuf(b) ==
  /\ content' = [content EXCEPT ![b] = None]                \* zeroMessage
  /\ IF ParkedDrain # {}
     THEN \E c \in ParkedDrain :
             /\ cpc' = [cpc EXCEPT ![c] = "drain"] /\ drained' = drained + 1
             /\ void' = void \cup {b} /\ UNCHANGED fl
     ELSE /\ fl' = Append(fl, b) /\ UNCHANGED <<cpc, drained, void>>

\* queue.go:85-87  zeroMessage(&msg); q.freelist <- msg; return nil
RFree(r) ==
  /\ IsQueue /\ rpc[r] = "free"
  /\ FreeBuf(rhold[r])
  /\ rhold' = [rhold EXCEPT ![r] = None]
  /\ RRet(r, "ok")
  /\ UNCHANGED <<hubvars, rctx, rgot, rlate, dvars, ppc, qu, dhold, phold>>

----------------------------------------------------------------------------
(* TellHub.Deliver (hubs.go:62-77), AskHub.Deliver (hubs.go:136-151) *)

DCall(d) ==
  /\ dpc[d] = "idle"
  /\ dpc' = [dpc EXCEPT ![d] = "sel"]
  /\ dlate' = [dlate EXCEPT ![d] = closeRet]
  /\ UNCHANGED <<hubvars, rvars, dctx, dres, cbn, cbDone, cvars, ppc, qvars>>

\* hubs.go:67-76 / 142-150  select { <-closed ; <-ctx.Done ; delivers <- req }
DSelHub(d) ==
  /\ ~IsQueue /\ dpc[d] = "sel"
  /\ \/ closed /\ DRet(d, ErrVal(cerr)) /\ UNCHANGED <<rpc, rgot>>
     \/ dctx[d] /\ DRet(d, "ctx") /\ UNCHANGED <<rpc, rgot>>
     \/ \E r \in ParkedR : Meet(r, d) /\ UNCHANGED dres
     \/ /\ ~closed /\ ~dctx[d] /\ ParkedR = {}
        /\ dpc' = [dpc EXCEPT ![d] = "park"] /\ UNCHANGED <<dres, rpc, rgot>>
  /\ UNCHANGED <<hubvars, rctx, rres, rlate, dctx, dlate, cbn, cbDone, cvars, ppc, qvars>>

\* hubs.go:74 / 148  <-req.done   (the context is no longer consulted: commit point passed)
DWait(d) ==
  /\ dpc[d] = "wait" /\ cbDone[d]
  /\ DRet(d, "ok")
  /\ UNCHANGED <<hubvars, rvars, dctx, dlate, cbn, cbDone, cvars, ppc, qvars>>

(* Queue.Deliver / DeliverVec (queue.go:38-75): never blocks *)
\* queue.go:42-55  select { <-closed ; m2 := <-freelist ; default }   + copyMessage
DSelQueue(d) ==
  /\ IsQueue /\ dpc[d] = "sel"
  /\ \/ closed /\ DRet(d, "false") /\ UNCHANGED <<fl, content, dhold>>
     \/ /\ fl # <<>>
        /\ dhold' = [dhold EXCEPT ![d] = Head(fl)] /\ fl' = Tail(fl)
        /\ content' = [content EXCEPT ![Head(fl)] = d]
        /\ dpc' = [dpc EXCEPT ![d] = "put"] /\ UNCHANGED dres
     \/ ~closed /\ fl = <<>> /\ DRet(d, "false") /\ UNCHANGED <<fl, content, dhold>>
  /\ UNCHANGED <<hubvars, rvars, dctx, dlate, cbn, cbDone, cvars, ppc, qu, rhold, phold, void>>

\* queue.go:47-52  select { q.queue <- m2: return true ; default: panic }
DPutQueue(d) ==
  /\ IsQueue /\ dpc[d] = "put"
  /\ LET b == dhold[d] IN
     \/ \E r \in ParkedR :                                   \* a receiver parked on q.queue takes it directly
           /\ rpc' = [rpc EXCEPT ![r] = "cb"] /\ rgot' = [rgot EXCEPT ![r] = content[b]]
           /\ rhold' = [rhold EXCEPT ![r] = b]
           /\ UNCHANGED <<qu, cpc, drained, void, ppc, phold, panicked>>
     \/ \E c \in ParkedDrain :                               \* so does a parked Close drain loop
           /\ cpc' = [cpc EXCEPT ![c] = "drain"] /\ drained' = drained + 1 /\ void' = void \cup {b}
           /\ UNCHANGED <<qu, rpc, rgot, rhold, ppc, phold, panicked>>
     \/ \E p \in ParkedPurge :                               \* and a Purge blocked in `<-q.queue`
           /\ ppc' = [ppc EXCEPT ![p] = "free"] /\ phold' = [phold EXCEPT ![p] = b]
           /\ UNCHANGED <<qu, rpc, rgot, rhold, cpc, drained, void, panicked>>
     \/ /\ ParkedR = {} /\ ParkedDrain = {} /\ ParkedPurge = {}
        /\ IF Len(qu) < Cap THEN qu' = Append(qu, b) /\ UNCHANGED panicked
           ELSE panicked' = TRUE /\ UNCHANGED qu
        /\ UNCHANGED <<rpc, rgot, rhold, cpc, drained, void, ppc, phold>>
  /\ dhold' = [dhold EXCEPT ![d] = None]
  /\ DRet(d, "true")
  /\ UNCHANGED <<closed, cerr, once, closeRet, rctx, rres, rlate, dctx, dlate, cbn, cbDone, fl, content>>

----------------------------------------------------------------------------
(* ctx cancellation: wakes exactly the parked ops whose select lists ctx.Done() *)

CancelR(r) ==
  /\ ~rctx[r] /\ rpc[r] # "ret"
  /\ rctx' = [rctx EXCEPT ![r] = TRUE]
  /\ IF rpc[r] = "park" THEN RRet(r, "ctx") ELSE UNCHANGED <<rpc, rres>>
  /\ UNCHANGED <<hubvars, rgot, rlate, dvars, cvars, ppc, qvars>>

CancelD(d) ==
  /\ ~IsQueue /\ ~dctx[d] /\ dpc[d] # "ret"
  /\ dctx' = [dctx EXCEPT ![d] = TRUE]
  /\ IF dpc[d] = "park" THEN DRet(d, "ctx") ELSE UNCHANGED <<dpc, dres>>
  /\ UNCHANGED <<hubvars, rvars, dlate, cbn, cbDone, cvars, ppc, qvars>>

----------------------------------------------------------------------------
(* Close *)

CCall(c) ==
  /\ cpc[c] = "idle"
  /\ cpc' = [cpc EXCEPT ![c] = "once"]
  /\ UNCHANGED <<hubvars, rvars, dvars, drained, ppc, qvars>>

\* hubs.go:88-96 (TellHub; nil -> ErrClosed), hubs.go:167-175 (AskHub; same after the F02 repair)
\* closeOnce.Do(func() { q.err = err; close(q.closed) }) : wakes the parked ops that list q.closed
COnceHub(c) ==
  /\ ~IsQueue /\ cpc[c] = "once"
  /\ IF once = "none"
     THEN LET e == IF Hub = "ask" /\ BugNilErr THEN "nil" ELSE "ErrClosed" IN
          /\ closed' = TRUE /\ cerr' = e /\ once' = "done"
          /\ dpc' = [d \in D |-> IF dpc[d] = "park" THEN "ret" ELSE dpc[d]]
          /\ dres' = [d \in D |-> IF dpc[d] = "park" THEN ErrVal(e) ELSE dres[d]]
          /\ rpc' = [r \in R |-> IF rpc[r] = "park" /\ ListsClosed THEN "ret" ELSE rpc[r]]
          /\ rres' = [r \in R |-> IF rpc[r] = "park" /\ ListsClosed THEN ErrVal(e) ELSE rres[r]]
     ELSE UNCHANGED <<closed, cerr, once, dpc, dres, rpc, rres>>
  /\ cpc' = [cpc EXCEPT ![c] = "ret"]
  /\ closeRet' = TRUE
  /\ UNCHANGED <<panicked, rctx, rgot, rlate, dctx, dlate, cbn, cbDone, drained, ppc, qvars>>

\* queue.go:102-105  closeOnce.Do: close(q.closed), then the drain loop; a second caller of Do waits
COnceQueue(c) ==
  /\ IsQueue /\ cpc[c] = "once"
  /\ CASE once = "none" ->
            /\ closed' = TRUE /\ once' = c
            /\ rpc' = [r \in R |-> IF rpc[r] = "park" THEN "ret" ELSE rpc[r]]
            /\ rres' = [r \in R |-> IF rpc[r] = "park" THEN "closed" ELSE rres[r]]
            /\ cpc' = [cpc EXCEPT ![c] = "drain"]
            /\ UNCHANGED closeRet
       [] once = "done" ->
            /\ cpc' = [cpc EXCEPT ![c] = "ret"] /\ closeRet' = TRUE
            /\ UNCHANGED <<closed, once, rpc, rres>>
       [] OTHER ->
            /\ cpc' = [cpc EXCEPT ![c] = "waitonce"]
            /\ UNCHANGED <<closed, once, rpc, rres, closeRet>>
  /\ UNCHANGED <<cerr, panicked, rctx, rgot, rlate, dvars, drained, ppc, qvars>>

\* queue.go:107-116  for i < cap(freelist) { select { <-freelist ; <-queue } } ; panic if len(queue) != 0
CDrain(c) ==
  /\ IsQueue /\ cpc[c] = "drain"
  /\ IF drained = Cap
     THEN /\ once' = "done" /\ cpc' = [cpc EXCEPT ![c] = "ret"] /\ closeRet' = TRUE
          /\ panicked' = (panicked \/ qu # <<>>)
          /\ UNCHANGED <<drained, fl, qu, void>>
     ELSE /\ \/ fl # <<>> /\ void' = void \cup {Head(fl)} /\ fl' = Tail(fl) /\ drained' = drained + 1
                /\ UNCHANGED <<qu, cpc>>
             \/ qu # <<>> /\ void' = void \cup {Head(qu)} /\ qu' = Tail(qu) /\ drained' = drained + 1
                /\ UNCHANGED <<fl, cpc>>
             \/ fl = <<>> /\ qu = <<>> /\ cpc' = [cpc EXCEPT ![c] = "parkdrain"]
                /\ UNCHANGED <<fl, qu, void, drained>>
          /\ UNCHANGED <<once, closeRet, panicked>>
  /\ UNCHANGED <<closed, cerr, rvars, dvars, ppc, content, dhold, rhold, phold>>

\* sync.Once: the second caller returns when the first one's function has returned
CWaitOnce(c) ==
  /\ cpc[c] = "waitonce" /\ once = "done"
  /\ cpc' = [cpc EXCEPT ![c] = "ret"] /\ closeRet' = TRUE
  /\ UNCHANGED <<closed, cerr, once, panicked, rvars, dvars, drained, ppc, qvars>>

----------------------------------------------------------------------------
(* Queue.Purge (queue.go:92-100): for len(q.queue) > 0 { m := <-q.queue; zero; freelist <- m }     *)
(* The length test and the receive are two steps: a concurrent Receive can take the message in     *)
(* between, and Purge then blocks in `<-q.queue` (no closed / ctx case).  Modelled as coded;       *)
(* Purge has no caller in the repository and is outside the text of C12/C13, so it is not part of  *)
(* CloseEnds.                                                                                      *)

PCall(p) ==
  /\ IsQueue /\ ppc[p] = "idle"
  /\ ppc' = [ppc EXCEPT ![p] = "len"]
  /\ UNCHANGED <<hubvars, rvars, dvars, cvars, qvars>>

PLen(p) ==
  /\ ppc[p] = "len"
  /\ ppc' = [ppc EXCEPT ![p] = IF Len(qu) > 0 THEN "recv" ELSE "ret"]
  /\ UNCHANGED <<hubvars, rvars, dvars, cvars, qvars>>

PRecv(p) ==
  /\ ppc[p] = "recv"
  /\ IF qu # <<>>
     THEN /\ phold' = [phold EXCEPT ![p] = Head(qu)] /\ qu' = Tail(qu) /\ ppc' = [ppc EXCEPT ![p] = "free"]
     ELSE /\ ppc' = [ppc EXCEPT ![p] = "parkrecv"] /\ UNCHANGED <<phold, qu>>
  /\ UNCHANGED <<hubvars, rvars, dvars, cvars, fl, content, dhold, rhold, void>>

PFree(p) ==
  /\ ppc[p] = "free"
  /\ FreeBuf(phold[p])
  /\ phold' = [phold EXCEPT ![p] = None]
  /\ ppc' = [ppc EXCEPT ![p] = "len"]
  /\ UNCHANGED <<hubvars, rvars, dvars, qu, dhold, rhold>>

----------------------------------------------------------------------------
RStep(r) == RChk(r) \/ RSel1(r) \/ RSel2Hub(r) \/ RSel2Queue(r) \/ RCbBegin(r) \/ RCbEnd(r) \/ RFree(r)
DStep(d) == DSelHub(d) \/ DWait(d) \/ DSelQueue(d) \/ DPutQueue(d)
CStep(c) == COnceHub(c) \/ COnceQueue(c) \/ CDrain(c) \/ CWaitOnce(c)
PStep(p) == PLen(p) \/ PRecv(p) \/ PFree(p)

\* the environment: callers and contexts
Env == \/ \E r \in R : RCall(r) \/ CancelR(r)
       \/ \E d \in D : DCall(d) \/ CancelD(d)
       \/ \E c \in C : CCall(c)
       \/ \E p \in P : PCall(p)

Next == \/ Env
        \/ \E r \in R : RStep(r)
        \/ \E d \in D : DStep(d)
        \/ \E c \in C : CStep(c)
        \/ \E p \in P : PStep(p)

\* Weak fairness on every op's own steps (a started call keeps running; callbacks terminate).
\* Nothing is assumed about the environment: it may never call, cancel or close.
Fairness == /\ \A r \in R : WF_vars(RStep(r))
            /\ \A d \in D : WF_vars(DStep(d))
            /\ \A c \in C : WF_vars(CStep(c))
            /\ \A p \in P : WF_vars(PStep(p))

Spec == Init /\ [][Next]_vars /\ Fairness

----------------------------------------------------------------------------
(* Property operators: over observable state only (calls, returns, callbacks) *)

RPcs == {"idle", "chk", "sel1", "sel2", "park", "cb", "incb", "free", "ret"}
DPcs == {"idle", "sel", "park", "wait", "put", "ret"}
TypeOK ==
  /\ closed \in BOOLEAN /\ cerr \in {"unset", "ErrClosed", "nil"} /\ once \in {"none", "done"} \cup C
  /\ closeRet \in BOOLEAN /\ panicked \in BOOLEAN
  /\ rpc \in [R -> RPcs] /\ rctx \in [R -> BOOLEAN] /\ rgot \in [R -> D \cup {None}]
  /\ rres \in [R -> {"none", "ok", "closed", "nil", "ctx"}] /\ rlate \in [R -> BOOLEAN]
  /\ dpc \in [D -> DPcs] /\ dctx \in [D -> BOOLEAN]
  /\ dres \in [D -> {"none", "ok", "closed", "nil", "ctx", "true", "false"}] /\ dlate \in [D -> BOOLEAN]
  /\ cbn \in [D -> 0..2] /\ cbDone \in [D -> BOOLEAN]
  /\ cpc \in [C -> {"idle", "once", "drain", "parkdrain", "waitonce", "ret"}] /\ drained \in 0..Cap
  /\ ppc \in [P -> {"idle", "len", "recv", "parkrecv", "free", "ret"}]
  /\ Len(qu) <= Cap /\ Len(fl) <= Cap

DReturned(d) == dpc[d] = "ret"
RReturned(r) == rpc[r] = "ret"
\* the call reported success (a nil error / true)
DOk(d) == DReturned(d) /\ dres[d] \in {"ok", "nil", "true"}
DErr(d) == DReturned(d) /\ dres[d] \in {"closed", "ctx", "false"}
ROk(r) == RReturned(r) /\ rres[r] \in {"ok", "nil"}

\* C13: a message is handed to exactly one receiver callback, never to two
ExactlyOnce == \A d \in D : cbn[d] <= 1 /\ Cardinality({r \in R : rgot[r] = d}) <= 1
\* C13: a hub's delivery call returns success only after the chosen callback has finished with the message
OkOnlyAfterCallback == ~IsQueue => \A d \in D : DOk(d) => cbDone[d]
\* C13: ... and an error only if no callback ever saw it
ErrOnlyIfUnseen == \A d \in D : DErr(d) => cbn[d] = 0
\* C13: never lost because a competing receiver was cancelled: a committed rendezvous has a receiver that
\* is running (or has run) the callback, and a receiver that took a message reports success
NotLostByCancel ==
  /\ \A d \in D : dpc[d] = "wait" => (cbDone[d] \/ \E r \in R : rgot[r] = d /\ rpc[r] \in {"cb", "incb"})
  /\ \A r \in R : (rgot[r] # None /\ RReturned(r)) => rres[r] = "ok"
\* a receive reports success only after its callback ran, and the ctx error only if its ctx ended
RetTruthful ==
  /\ \A r \in R : (RReturned(r) /\ rres[r] = "ok") => (rgot[r] # None /\ cbDone[rgot[r]])
  /\ \A r \in R : (RReturned(r) /\ rres[r] = "ctx") => rctx[r]
  /\ \A d \in D : (DReturned(d) /\ dres[d] = "ctx") => dctx[d]
\* C12: a call made after Close returned returns a non-nil error
ErrAfterClose ==
  /\ \A r \in R : (rlate[r] /\ RReturned(r)) => ~ROk(r)
  /\ \A d \in D : (dlate[d] /\ DReturned(d)) => ~DOk(d)
\* C12: no callback for a Deliver called after Close returned
NoLateCallback == \A d \in D : dlate[d] => cbn[d] = 0
\* C12/C14: no panic statement reached (freelist/queue accounting)
NoPanic == ~panicked
\* C14: each pre-allocated buffer is in exactly one place
Holders(b) == Cardinality({i \in 1..Len(fl) : fl[i] = b}) + Cardinality({i \in 1..Len(qu) : qu[i] = b})
              + Cardinality({d \in D : dhold[d] = b}) + Cardinality({r \in R : rhold[r] = b})
              + Cardinality({p \in P : phold[p] = b}) + (IF b \in void THEN 1 ELSE 0)
OneOwner == IsQueue => \A b \in Bufs : Holders(b) = 1
\* C14: what a callback sees is what the Deliver that enqueued this buffer instance wrote
NoStaleContent == IsQueue => \A r \in R : rpc[r] \in {"cb", "incb"} =>
                                (rgot[r] \in D /\ content[rhold[r]] = rgot[r] /\ dpc[rgot[r]] \in {"put", "ret"})
QueueBounded == Len(qu) <= Cap /\ Len(fl) <= Cap
\* after Close has returned the queue holds nothing
ClosedEmpty == (IsQueue /\ closeRet) => (qu = <<>> /\ fl = <<>>)

Safety == /\ TypeOK /\ ExactlyOnce /\ OkOnlyAfterCallback /\ ErrOnlyIfUnseen /\ NotLostByCancel /\ RetTruthful
          /\ ErrAfterClose /\ NoLateCallback /\ NoPanic /\ OneOwner /\ NoStaleContent /\ QueueBounded /\ ClosedEmpty

\* C12: repeated Close changes nothing (and returns: CloseReturns)
CloseIdempotent == [][closed => (closed' /\ cerr' = cerr)]_vars

\* C12: Close ends every started op (weak fairness on the op's own steps)
CloseEnds == /\ \A r \in R : (closed /\ rpc[r] # "idle") ~> RReturned(r)
             /\ \A d \in D : (closed /\ dpc[d] # "idle") ~> DReturned(d)
CloseReturns == \A c \in C : (cpc[c] # "idle") ~> (cpc[c] = "ret")
\* C13: cancellation is prompt
CancelEnds == /\ \A r \in R : (rctx[r] /\ rpc[r] # "idle") ~> RReturned(r)
              /\ \A d \in D : (dctx[d] /\ dpc[d] # "idle") ~> DReturned(d)

\* The same three liveness properties as ONE formula (one tableau branch instead of one per op; ~3x faster in
\* TLC).  Equivalent because ops are single-shot: each Stuck*(op) below, once false after having been true,
\* stays false, so "every op leaves Stuck" and "infinitely often nobody is stuck" coincide.
StuckR(r) == rpc[r] \notin {"idle", "ret"} /\ (closed \/ rctx[r])
StuckD(d) == dpc[d] \notin {"idle", "ret"} /\ (closed \/ dctx[d])
StuckC(c) == cpc[c] \notin {"idle", "ret"}
NobodyStuck == (\A r \in R : ~StuckR(r)) /\ (\A d \in D : ~StuckD(d)) /\ (\A c \in C : ~StuckC(c))
EndsPromptly == []<>NobodyStuck
=============================================================================
