------------------------------- MODULE Keys -------------------------------
(***************************************************************************)
(* C17 -- keys and identities have one canonical, lossless encoding.        *)
(*                                                                          *)
(* Part A: f/x509 PublicKey <-> DER  SEQUENCE { SEQUENCE { OID [params] },  *)
(* BIT STRING }.  A key is (algorithm OID, key bytes).  The model keeps the *)
(* DER at STRUCTURE level (the fields encoding/asn1 looks at) with OID arcs *)
(* from boundary classes (first-arc extremes, base-128 digit boundaries,    *)
(* 2^31-1 / 2^31 where Go's parser stops, long OIDs, tuples that are not    *)
(* OIDs at all) and key bodies of length {0,1,31,32,33,64}.                 *)
(*                                                                          *)
(* Part B: p2p.PeerID <-> 43 characters of an order-preserving base64       *)
(* alphabet.  This codec is modelled exactly (bytes -> sextets -> ASCII     *)
(* codes), so OrderPreserving and RejectInvalid are checked by TLC on the   *)
(* real widths; text classes: right/wrong length, characters outside the    *)
(* alphabet, embedded CR / LF / space, '=' padding, non-zero trailing bits. *)
(*                                                                          *)
(* CASE GENERATOR (DESIGN 4.1a, 9): Init picks one case, Next is FALSE, the *)
(* laws are invariants on the modelled (repaired) codec, `Dump` prints the  *)
(* case for harness/cmd/codecreplay -mode keys.  KeysTrace.tla evaluates    *)
(* the same laws on what the real functions returned.                       *)
(***************************************************************************)
EXTENDS Integers, Sequences, FiniteSets, TLC, Json

CONSTANTS Rich,          \* FALSE: quick class product, TRUE: full product
          StrictIdText,  \* PeerID.UnmarshalText surfaces decode errors and checks 32 bytes (F17 repaired)
          KeepParams,    \* FALSE: ParsePublicKey drops the AlgorithmIdentifier parameters, a key is (OID, bytes).  TRUE: parse state
                         \* leaks into re-marshal (seeded defect: parameters kept and written back; Keys_params.cfg must fail)
          LengthFastPath \* FALSE: lengths as encoding/asn1 computes them.  TRUE: a hand-rolled encoder whose outer
                         \* SEQUENCE length assumes a 2-byte BIT STRING header (seeded defect; Keys_fastpath.cfg must fail)

Err == [k |-> "ERR"]
IsErr(x) == x.k = "ERR"
Sign(n) == IF n < 0 THEN -1 ELSE IF n > 0 THEN 1 ELSE 0

\* =================================================================== Part A
\* An arc is a natural below 2^31 or a named value beyond what TLC's (and Go's parser's) integers hold.
Arc(n) == [big |-> FALSE, n |-> n, name |-> ""]
Big(name) == [big |-> TRUE, n |-> 0, name |-> name]          \* "2^31", "2^40": valid arcs per X.660, int in Go
Neg == [big |-> FALSE, n |-> -1, name |-> ""]
MaxInt32 == 2147483647

OIDs == [ed25519 |-> <<Arc(1), Arc(3), Arc(101), Arc(112)>>,
         ed448 |-> <<Arc(1), Arc(3), Arc(101), Arc(113)>>,
         first0 |-> <<Arc(0), Arc(0)>>,
         first0max |-> <<Arc(0), Arc(39)>>,
         first1max |-> <<Arc(1), Arc(39)>>,
         first2 |-> <<Arc(2), Arc(0)>>,
         first2_40 |-> <<Arc(2), Arc(40)>>,
         first2_999 |-> <<Arc(2), Arc(999)>>,
         arc127 |-> <<Arc(1), Arc(2), Arc(127)>>,
         arc128 |-> <<Arc(1), Arc(2), Arc(128)>>,
         arc16384 |-> <<Arc(1), Arc(2), Arc(16384)>>,
         arcmax31 |-> <<Arc(1), Arc(2), Arc(MaxInt32)>>,
         first2max |-> <<Arc(2), Arc(MaxInt32 - 80)>>,            \* 80 + arc = 2^31 - 1: still parses
         long20 |-> [i \in 1..20 |-> Arc(IF i = 1 THEN 1 ELSE i)],
         \* long enough to push the OID / AlgorithmIdentifier over the 127- and 255-byte length-form boundaries
         long60 |-> [i \in 1..60 |-> Arc(IF i = 1 THEN 1 ELSE IF i = 2 THEN 3 ELSE 16384 + i)],      \* 3 bytes per arc: 175 content bytes
         long130 |-> [i \in 1..130 |-> Arc(IF i = 1 THEN 2 ELSE 200 + i)],                           \* 2 bytes per arc: 260 content bytes
         len126 |-> [i \in 1..64 |-> Arc(IF i = 1 THEN 1 ELSE IF i = 2 THEN 3 ELSE 200 + i)],        \* OID content 125: AlgorithmIdentifier content 127
         len127 |-> [i \in 1..65 |-> Arc(IF i = 1 THEN 1 ELSE IF i = 2 THEN 3 ELSE IF i = 65 THEN 5 ELSE 200 + i)],   \* OID content 126: AlgorithmIdentifier content 128
         \* valid object identifiers that Go's encoder writes and Go's parser refuses
         arc2p31 |-> <<Arc(1), Arc(2), Big("2^31")>>,
         arc2p40 |-> <<Arc(1), Arc(2), Big("2^40")>>,
         first2wrap |-> <<Arc(2), Arc(MaxInt32 - 79)>>,           \* 80 + arc = 2^31
         \* integer tuples that are not object identifiers (cannot come from ParsePublicKey)
         single |-> <<Arc(1)>>,
         empty |-> <<>>,
         first3 |-> <<Arc(3), Arc(1)>>,
         second40 |-> <<Arc(0), Arc(40)>>,
         negative |-> <<Arc(1), Arc(2), Neg>>]
OIDNames == DOMAIN OIDs
QuickOIDs == {"ed25519", "first0", "first1max", "first2_999", "arc128", "arcmax31", "first2max", "long20", "long60", "long130", "len126", "len127",
              "arc2p31", "first2wrap", "single", "empty", "first3", "second40", "negative"}

\* X.660: at least two arcs, first in 0..2, second below 40 unless the first is 2, none negative
ValidOID(o) == /\ Len(o) >= 2 /\ \A i \in 1..Len(o) : o[i].big \/ o[i].n >= 0
               /\ ~o[1].big /\ o[1].n \in 0..2 /\ (o[1].n < 2 => (~o[2].big /\ o[2].n < 40))
\* encoding/asn1 marshal: checks only arity and the first two arcs (asn1/marshal.go makeObjectIdentifier)
Encodable(o) == Len(o) >= 2 /\ ~o[1].big /\ o[1].n <= 2 /\ (o[1].n < 2 => (~o[2].big /\ o[2].n < 40))
\* encoding/asn1 parse: every base-128 integer must fit int32; the first one holds 40*arc1 + arc2
FitsParser(o) == /\ \A i \in 1..Len(o) : ~o[i].big
                 /\ (Len(o) >= 2 /\ o[1].n = 2) => o[2].n <= MaxInt32 - 80

\* key-body lengths around every DER length-form boundary of the BIT STRING and of the outer SEQUENCE
\* (short form <= 127, 0x81 <= 255, 0x82 <= 65535, 0x83), plus real sizes (Ed25519 32, ML-DSA-44 1312)
BodyLens == {0, 1, 31, 32, 33, 64, 125, 126, 127, 128, 129, 254, 255, 256, 257, 1312, 65534, 65535, 65536}
QuickLens == {0, 1, 32, 33, 126, 127, 128, 255, 256}
FullLenOIDs == {"ed25519", "long60", "long130"}
Fills == {"zero", "ones", "mixed"}
Key(o, l, f) == [oid |-> o, body |-> l, fill |-> IF l = 0 THEN "zero" ELSE f]
AllKeys == IF Rich THEN {Key(o, l, f) : o \in OIDNames, l \in BodyLens, f \in Fills}
           ELSE {Key(o, l, "mixed") : o \in QuickOIDs, l \in QuickLens}
                  \cup {Key(o, l, "mixed") : o \in FullLenOIDs, l \in BodyLens}
                  \cup {Key("ed25519", l, f) : l \in {0, 1, 32, 127, 128}, f \in Fills}

\* ---- DER lengths, as encoding/asn1 computes them (definite, minimal)
B128Len(n) == IF n < 128 THEN 1 ELSE IF n < 16384 THEN 2 ELSE IF n < 2097152 THEN 3 ELSE IF n < 268435456 THEN 4 ELSE 5
ArcLen(a) == IF a.big THEN (IF a.name = "2^31" THEN 5 ELSE 6) ELSE IF a.n < 0 THEN 0 ELSE B128Len(a.n)
RECURSIVE SumArcs(_, _)
SumArcs(o, i) == IF i > Len(o) THEN 0 ELSE ArcLen(o[i]) + SumArcs(o, i + 1)
OIDContentLen(o) == (IF o[1].n = 2 /\ ~o[2].big /\ o[2].n > MaxInt32 - 80 THEN 5 ELSE IF o[2].big THEN ArcLen(o[2]) ELSE B128Len(40 * o[1].n + o[2].n))
                      + SumArcs(o, 3)
LenOctets(n) == IF n < 128 THEN 1 ELSE IF n < 256 THEN 2 ELSE IF n < 65536 THEN 3 ELSE 4
TLVLen(c) == 1 + LenOctets(c) + c
AlgLen(o) == TLVLen(TLVLen(OIDContentLen(o)))                     \* SEQUENCE { OBJECT IDENTIFIER }
BitsContent(l) == 1 + l                                            \* unused-bits octet + key
OuterContent(o, l) == AlgLen(o) + TLVLen(BitsContent(l))
DeclaredOuter(o, l) == IF LengthFastPath THEN AlgLen(o) + 2 + BitsContent(l) ELSE OuterContent(o, l)

\* DER at structure level.  MarshalPublicKey returns `out` unchanged when asn1.Marshal fails: f/x509/x509.go:41
EmptyDER == [k |-> "EMPTY"]
\* declared / actual: the outer SEQUENCE's length field and the number of content octets that follow it
DER(form, o, l, f) == [k |-> "DER", form |-> form, oid |-> o, body |-> l, fill |-> f, declared |-> 0, actual |-> 0]
Marshal(key) == IF Encodable(OIDs[key.oid])
                THEN [DER("canonical", key.oid, key.body, key.fill) EXCEPT !.declared = DeclaredOuter(OIDs[key.oid], key.body),
                                                                            !.actual = OuterContent(OIDs[key.oid], key.body)]
                ELSE EmptyDER
\* forms a remote party can put on the wire for the same (oid, body)
AcceptedForms == {"canonical", "params-null", "params-oid"}
\* (a BIT STRING with unused bits is accepted too, but RightAlign() makes it a DIFFERENT key: form "unused-bits")
RejectedForms == {"trailing-data", "truncated", "outer-tag-wrong", "nonminimal-length", "indefinite-length",
                  "bitstring-no-unused-octet", "bitstring-unused-gt7", "oid-empty", "oid-leading-0x80",
                  "alg-not-sequence", "empty-input", "only-tag"}
Forms == AcceptedForms \cup RejectedForms \cup {"unused-bits"}
\* ParsePublicKey: f/x509/x509.go:48
Parse(d) ==
    IF d.k = "EMPTY" THEN Err
    ELSE IF d.form \in RejectedForms \/ ~FitsParser(OIDs[d.oid]) \/ ~Encodable(OIDs[d.oid]) THEN Err
    ELSE IF d.declared # d.actual THEN Err                          \* sequence truncated / data after the key
    ELSE IF d.form = "unused-bits" THEN (IF d.body = 0 THEN Err ELSE [k |-> "KEY", oid |-> d.oid, body |-> d.body, fill |-> "shifted"])
    ELSE [k |-> "KEY", oid |-> d.oid, body |-> d.body, fill |-> d.fill]
AsParsed(key) == [k |-> "KEY", oid |-> key.oid, body |-> key.body, fill |-> key.fill]
\* EqualPublicKeys: same algorithm and same bytes (nil and empty bodies are the same bytes)
EqualKeys(k1, k2) == k1.oid = k2.oid /\ k1.body = k2.body /\ k1.fill = k2.fill
\* the fingerprint is a hash of Marshal(key): a function of the key as long as Marshal is injective
Fingerprint(key) == Marshal(key)

KeyRoundTrips(key) == Parse(Marshal(key)) = AsParsed(key)

\* ---- parse-first direction: what a wire form turns into, and what that marshals to
\* wire forms of one (OID, body): every form of Forms, a small junk parameter value, the same body under
\* another OID and another body under the same OID (so that Equal has several classes)
WireForms == <<"canonical", "params-null", "params-oid", "params-junk", "unused-bits", "nonminimal-length", "trailing-data",
               "truncated", "indefinite-length", "bitstring-unused-gt7", "other-body", "other-oid">>
ParamForms == {"params-null", "params-oid", "params-junk"}
WireDER(f, key) ==
    CASE f = "other-body" -> DER("canonical", key.oid, key.body, "other")
      [] f = "other-oid" -> DER("canonical", IF key.oid = "ed448" THEN "ed25519" ELSE "ed448", key.body, key.fill)
      [] f = "params-junk" -> DER("params-oid", key.oid, key.body, key.fill)
      [] OTHER -> DER(f, key.oid, key.body, key.fill)
\* the parsed key, with the state ParsePublicKey keeps besides (OID, bytes)
ParseW(f, key) == LET p == Parse(WireDER(f, key))
                  IN IF IsErr(p) THEN p ELSE p @@ [params |-> IF KeepParams /\ f \in ParamForms THEN f ELSE "absent"]
\* MarshalPublicKey of a parsed key: canonical, unless parse state is written back
MarshalW(p) == [Marshal([oid |-> p.oid, body |-> p.body, fill |-> p.fill]) EXCEPT !.form = IF p.params = "absent" THEN "canonical" ELSE p.params]
\* recorded finding: valid OIDs whose arcs exceed int32 marshal but do not parse back
KF_BigArc(key) == ValidOID(OIDs[key.oid]) /\ ~FitsParser(OIDs[key.oid])
Neighbours(key) == {key} \cup {Key(o, key.body, key.fill) : o \in {"ed25519", "ed448", "first0", "arc2p31"}}
                     \cup {Key(key.oid, l, key.fill) : l \in {0, 32, 33, 127, 128}}
                     \cup {Key(key.oid, key.body, f) : f \in Fills}

\* =================================================================== Part B
IdSize == 32
TextLen == 43
\* peer.go Base64Alphabet as ASCII codes:  '-' 0-9 A-Z '_' a-z   (strictly increasing: order-preserving)
\* written arithmetically (no tables: TLC re-evaluates non-literal constant definitions at every use)
AlphabetCode(i) == CASE i = 0 -> 45 [] i \in 1..10 -> 47 + i [] i \in 11..36 -> 54 + i [] i = 37 -> 95 [] i \in 38..63 -> 59 + i
InAlphabet(c) == c = 45 \/ c \in 48..57 \/ c \in 65..90 \/ c = 95 \/ c \in 97..122
CodeIndexOf(c) == CASE c = 45 -> 0 [] c \in 48..57 -> c - 47 [] c \in 65..90 -> c - 54 [] c = 95 -> 37 [] c \in 97..122 -> c - 59
CR == 13
LF == 10

Byte(id, i) == IF i <= Len(id) THEN id[i] ELSE 0
\* sextet j (1-based) of the bit string of id, zero padded
Sextet(id, j) ==
    LET g == (j - 1) \div 4                     \* 3-byte group
        b1 == Byte(id, 3 * g + 1) b2 == Byte(id, 3 * g + 2) b3 == Byte(id, 3 * g + 3)
        r == (j - 1) % 4
    IN CASE r = 0 -> b1 \div 4
         [] r = 1 -> (b1 % 4) * 16 + b2 \div 16
         [] r = 2 -> (b2 % 16) * 4 + b3 \div 64
         [] r = 3 -> b3 % 64
\* PeerID.MarshalText: unpadded base64 over the alphabet
Encode(id) == [j \in 1..TextLen |-> AlphabetCode(Sextet(id, j))]
\* bytes from sextets
Decode(t) ==
    LET s(j) == IF j <= Len(t) THEN CodeIndexOf(t[j]) ELSE 0
    IN [i \in 1..IdSize |->
          LET g == (i - 1) \div 3 r == (i - 1) % 3
          IN CASE r = 0 -> s(4 * g + 1) * 4 + s(4 * g + 2) \div 16
               [] r = 1 -> (s(4 * g + 2) % 16) * 16 + s(4 * g + 3) \div 4
               [] r = 2 -> (s(4 * g + 3) % 4) * 64 + s(4 * g + 4)]
\* PeerID.UnmarshalText (peer.go:42).  encoding/base64 skips CR and LF; with StrictIdText the decoder's
\* error is returned, trailing bits must be zero and exactly 32 bytes must come out.
Unmarshal(t) ==
    IF Len(t) # TextLen THEN Err
    ELSE LET u == SelectSeq(t, LAMBDA c : c # CR /\ c # LF)
         IN IF StrictIdText
            THEN IF Len(u) # TextLen \/ \E j \in 1..Len(u) : ~InAlphabet(u[j]) THEN Err
                 ELSE IF CodeIndexOf(u[TextLen]) % 4 # 0 THEN Err
                 ELSE [k |-> "ID", id |-> Decode(u)]
            ELSE \* F17 (pinned code): the decoder's error is dropped; the bytes decoded before the first
                 \* invalid character stay, the rest of the id keeps its previous (zero) value
                 LET bad == {j \in 1..Len(u) : ~InAlphabet(u[j])}
                     n == IF bad = {} THEN Len(u) ELSE (CHOOSE j \in bad : \A i \in bad : j <= i) - 1
                 IN [k |-> "ID", id |-> Decode(SubSeq(u, 1, n - (n % 4)))]

RECURSIVE LexCmp(_, _)
LexCmp(x, y) ==
    IF Len(x) = 0 \/ Len(y) = 0 THEN Sign(Len(x) - Len(y))
    ELSE IF x[1] # y[1] THEN Sign(x[1] - y[1]) ELSE LexCmp(Tail(x), Tail(y))

Const(b) == [i \in 1..IdSize |-> b]
Ids == [zero |-> Const(0), ones |-> Const(255), mixed |-> [i \in 1..IdSize |-> (7 * (i - 1)) % 256],
        first1 |-> [i \in 1..IdSize |-> IF i = 1 THEN 1 ELSE 0], last1 |-> [i \in 1..IdSize |-> IF i = IdSize THEN 1 ELSE 0],
        last15 |-> [i \in 1..IdSize |-> IF i = IdSize THEN 15 ELSE 0], last16 |-> [i \in 1..IdSize |-> IF i = IdSize THEN 16 ELSE 0],
        last255 |-> [i \in 1..IdSize |-> IF i = IdSize THEN 255 ELSE 0],
        mid3f |-> [i \in 1..IdSize |-> IF i = 16 THEN 63 ELSE 0], mid40 |-> [i \in 1..IdSize |-> IF i = 16 THEN 64 ELSE 0],
        hi7f |-> [i \in 1..IdSize |-> IF i = 1 THEN 127 ELSE 255], hi80 |-> [i \in 1..IdSize |-> IF i = 1 THEN 128 ELSE 0]]
IdNames == DOMAIN Ids

\* candidate texts, derived from the valid text T of an id
Replace(t, p, c) == [j \in 1..Len(t) |-> IF j = p THEN c ELSE t[j]]
BadChars == [plus |-> 43, slash |-> 47, eq |-> 61, at |-> 64, space |-> 32, lf |-> 10, cr |-> 13, nul |-> 0,
             tilde |-> 126, high |-> 200, dot |-> 46, colon |-> 58]
TextClasses ==
    {[t |-> "valid"], [t |-> "empty"], [t |-> "one-char"], [t |-> "short42"], [t |-> "long44"], [t |-> "long64"],
     [t |-> "pad-eq-43"], [t |-> "pad-eq-44"], [t |-> "lf-at-end"], [t |-> "lf-at-start"], [t |-> "crlf-inside"],
     [t |-> "space-inside"], [t |-> "trailing-bits-1"], [t |-> "trailing-bits-2"], [t |-> "trailing-bits-3"]}
      \cup {[t |-> "bad-char", c |-> c, p |-> p] : c \in DOMAIN BadChars, p \in {1, 22, 43}}
TextOf(id, tc) ==
    LET T == Encode(id)
        lastIdx == CodeIndexOf(T[TextLen])
    IN CASE tc.t = "valid" -> T
         [] tc.t = "empty" -> <<>>
         [] tc.t = "one-char" -> SubSeq(T, 1, 1)
         [] tc.t = "short42" -> SubSeq(T, 1, 42)
         [] tc.t = "long44" -> T \o <<45>>
         [] tc.t = "long64" -> T \o SubSeq(T, 1, 21)
         [] tc.t = "pad-eq-43" -> SubSeq(T, 1, 42) \o <<61>>
         [] tc.t = "pad-eq-44" -> T \o <<61>>
         [] tc.t = "lf-at-end" -> SubSeq(T, 1, 42) \o <<LF>>
         [] tc.t = "lf-at-start" -> <<LF>> \o SubSeq(T, 1, 42)
         [] tc.t = "crlf-inside" -> SubSeq(T, 1, 20) \o <<CR, LF>> \o SubSeq(T, 21, 41)
         [] tc.t = "space-inside" -> SubSeq(T, 1, 20) \o <<32>> \o SubSeq(T, 22, 43)
         [] tc.t = "trailing-bits-1" -> Replace(T, TextLen, AlphabetCode(lastIdx + 1))
         [] tc.t = "trailing-bits-2" -> Replace(T, TextLen, AlphabetCode(lastIdx + 2))
         [] tc.t = "trailing-bits-3" -> Replace(T, TextLen, AlphabetCode(lastIdx + 3))
         [] tc.t = "bad-char" -> Replace(T, tc.p, BadChars[tc.c])

\* ==================================================================== cases
KeyCases == {[kind |-> "key", key |-> k] : k \in AllKeys}
PairFirst == IF Rich THEN {Key(o, l, "mixed") : o \in OIDNames, l \in {0, 32, 127, 256, 1312}}
             ELSE {Key(o, 32, "mixed") : o \in QuickOIDs} \cup {Key("ed25519", 0, "zero"), Key("ed25519", 128, "mixed"), Key("long130", 256, "mixed")}
PairCases == UNION {{[kind |-> "pair", k1 |-> k, k2 |-> n] : n \in Neighbours(k)} : k \in PairFirst}
DerCases == {[kind |-> "der", form |-> f, key |-> k] : f \in Forms \ {"canonical"},
               k \in {Key(o, l, "mixed") : o \in {"ed25519", "first2_999", "arc2p31", "long20", "long130"},
                                            l \in (IF Rich THEN {0, 1, 31, 32, 33, 64, 126, 127, 128, 255, 256, 1312} ELSE {0, 1, 32, 127, 256})}}
WireCases == {[kind |-> "wires", key |-> Key(o, l, "mixed"), std |-> "none"] :
                o \in (IF Rich THEN {"ed25519", "ed448", "first2_999", "arc128", "long20", "long130"} ELSE {"ed25519", "first2_999", "long130"}),
                l \in (IF Rich THEN {0, 1, 31, 32, 33, 127, 128, 256, 1312} ELSE {0, 1, 32, 127, 256})}
             \* standard SubjectPublicKeyInfos from crypto/x509 (RSA: NULL parameters, ECDSA: curve OID parameters)
             \cup {[kind |-> "wires", key |-> Key("ed25519", 32, "mixed"), std |-> x] : x \in {"rsa", "ecdsa-p256", "ed25519"}}
IdTextCases == {[kind |-> "idtext", id |-> i, tc |-> tc] : i \in (IF Rich THEN IdNames ELSE {"zero", "ones", "mixed", "last15"}), tc \in TextClasses}
IdPairCases == {[kind |-> "idpair", a |-> x, b |-> y] : x \in IdNames, y \in IdNames}
Cases == KeyCases \cup PairCases \cup DerCases \cup WireCases \cup IdTextCases \cup IdPairCases

VARIABLE c
Init == c \in Cases
Next == FALSE /\ UNCHANGED c
Spec == Init /\ [][Next]_c

\* ===================================================================== laws
\* RoundTrip: every key with a (parser-representable) object identifier survives marshal and parse
RoundTripLaw == c.kind = "key" => (ValidOID(OIDs[c.key.oid]) => (KeyRoundTrips(c.key) \/ KF_BigArc(c.key)))
\* CanonicalDER: the marshalled encoding is the one encoding/asn1 produces: every length field is the
\* definite, minimal length of what follows (the model's canonical form has no other freedom)
CanonicalDERLaw == c.kind = "key" => (Encodable(OIDs[c.key.oid]) => Marshal(c.key).declared = Marshal(c.key).actual)
\* EqualIffEncodingEqual, for object identifiers
EqualIffEncodingEqualLaw ==
    c.kind = "pair" => ((ValidOID(OIDs[c.k1.oid]) /\ ValidOID(OIDs[c.k2.oid])) => (EqualKeys(c.k1, c.k2) <=> Marshal(c.k1) = Marshal(c.k2)))
\* what a non-canonical but accepted DER parses to re-marshals canonically, round-trips and has the
\* fingerprint of its canonical re-encoding (the fingerprint is a function of the parsed key)
NonCanonicalLaw ==
    c.kind = "der" => LET p == Parse(DER(c.form, c.key.oid, c.key.body, c.key.fill))
                      IN IsErr(p) \/ LET k2 == [oid |-> p.oid, body |-> p.body, fill |-> p.fill]
                                     IN Parse(Marshal(k2)) = p /\ Fingerprint(k2) = Marshal(k2)
\* ONE canonical encoding, parse-first: every accepted wire form yields a key whose marshalling is idempotent, and
\* two accepted wire forms whose keys EqualPublicKeys reports equal marshal identically (hence one fingerprint);
\* conversely equal encodings come from equal keys
WireCanonicalLaw ==
    c.kind = "wires" =>
      \A i \in 1..Len(WireForms) : \A j \in 1..Len(WireForms) :
         LET p1 == ParseW(WireForms[i], c.key) p2 == ParseW(WireForms[j], c.key) IN
           (IsErr(p1) \/ IsErr(p2)) \/
             /\ EqualKeys(p1, p2) <=> MarshalW(p1) = MarshalW(p2)
             /\ LET again == Parse(MarshalW(p1)) IN ~IsErr(again) /\ Marshal([oid |-> again.oid, body |-> again.body, fill |-> again.fill]) = MarshalW(p1)
\* PeerID text
IdRoundTripLaw == c.kind = "idpair" => Unmarshal(Encode(Ids[c.a])) = [k |-> "ID", id |-> Ids[c.a]]
OrderPreservingLaw == c.kind = "idpair" => LexCmp(Encode(Ids[c.a]), Encode(Ids[c.b])) = LexCmp(Ids[c.a], Ids[c.b])
\* only the canonical encoding of the identity it yields is accepted
RejectInvalidLaw == c.kind = "idtext" => LET u == Unmarshal(TextOf(Ids[c.id], c.tc))
                                         IN IsErr(u) \/ Encode(u.id) = TextOf(Ids[c.id], c.tc)

\* printed for the replayer: the case, plus what the model says (validity, expected acceptance)
ModelSays ==
    CASE c.kind = "key" -> [valid |-> ValidOID(OIDs[c.key.oid]), fits |-> FitsParser(OIDs[c.key.oid]), rt |-> KeyRoundTrips(c.key), arcs |-> OIDs[c.key.oid],
                            derlen |-> IF Encodable(OIDs[c.key.oid]) THEN TLVLen(OuterContent(OIDs[c.key.oid], c.key.body)) ELSE 0]
      [] c.kind = "pair" -> [valid |-> ValidOID(OIDs[c.k1.oid]) /\ ValidOID(OIDs[c.k2.oid]), equal |-> EqualKeys(c.k1, c.k2),
                             arcs1 |-> OIDs[c.k1.oid], arcs2 |-> OIDs[c.k2.oid]]
      [] c.kind = "der" -> [accept |-> ~IsErr(Parse(DER(c.form, c.key.oid, c.key.body, c.key.fill))), arcs |-> OIDs[c.key.oid]]
      [] c.kind = "wires" -> [arcs |-> OIDs[c.key.oid], forms |-> WireForms,
                              accepts |-> [i \in 1..Len(WireForms) |-> ~IsErr(ParseW(WireForms[i], c.key))]]
      [] c.kind = "idtext" -> [accept |-> ~IsErr(Unmarshal(TextOf(Ids[c.id], c.tc))), text |-> TextOf(Ids[c.id], c.tc), id |-> Ids[c.id]]
      [] c.kind = "idpair" -> [a |-> Ids[c.a], b |-> Ids[c.b], ta |-> Encode(Ids[c.a]), cmp |-> LexCmp(Ids[c.a], Ids[c.b])]
Dump == PrintT(ToJson(<<"KCASE", c, ModelSays>>))
=============================================================================
