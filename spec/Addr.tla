------------------------------- MODULE Addr -------------------------------
(***************************************************************************)
(* C16 -- every address a swarm produces survives marshal and parse.        *)
(*                                                                          *)
(* Abstract address grammar                                                 *)
(*     mem:   N                          s/memswarm/addr.go                 *)
(*     udp:   host:port                  s/udpswarm/addr.go                 *)
(*     ssh:   fp@ip:port                 s/sshswarm/addr.go                 *)
(*     ke:    id@inner                   s/p2pkeswarm/addr.go               *)
(*     quic:  id@inner                   s/quicswarm/addr.go                *)
(*     multi: scheme://inner             s/multiswarm/addr.go               *)
(* with nesting depth <= MaxDepth, over TOKEN CLASSES (IP in {v4, loopback, *)
(* v6, v6 with zone, v4-mapped, unspecified v4/v6}, port in {0,1,65535},    *)
(* fingerprint alphabet classes, peer ids {zero, ones, mixed}, scheme       *)
(* names).  Marshal and Parse are written the way the code does it, on real *)
(* strings (TLC supports Len, \o and SubSeq on strings): format strings,    *)
(* net.SplitHostPort / JoinHostPort, the sshswarm regular expression's      *)
(* character class and greedy groups, bytes.SplitN(_, "@", 2), the lazy     *)
(* "://" split of multiswarm.                                               *)
(*                                                                          *)
(* This is a CASE GENERATOR (DESIGN 4.1a, 9): every initial state is one    *)
(* abstract address; Next is FALSE.  The grammar-level law                  *)
(*     RoundTripLaw == Parse(Shape(a), Marshal(a)) = a                      *)
(* is an invariant; `Dump` prints every case as JSON for the replayer       *)
(* (harness/cmd/codecreplay -addr), which concretises each class with       *)
(* seeded instances and runs the real MarshalText / ParseAddr of real       *)
(* nested swarms.  AddrTrace.tla evaluates the laws on what they returned.  *)
(*                                                                          *)
(* UdpBrackets / SshPlus select the repaired (TRUE) or the pinned (FALSE)   *)
(* design: with FALSE TLC reports F14 / F15 at design level (Addr_orig.cfg, *)
(* used only as an anti-vacuity self-test).                                 *)
(***************************************************************************)
EXTENDS Integers, Sequences, FiniteSets, TLC, Json

CONSTANTS MaxDepth,     \* nesting depth bound, 1..3
          Rich,         \* TRUE: full class product at every depth; FALSE: reduced classes under wrappers
          UdpBrackets,  \* udpswarm.Addr.String brackets IPv6 hosts (F14 repaired)
          SshPlus       \* sshswarm addrRe's class contains '+' (F15 repaired)

Err == [k |-> "ERR"]
IsErr(x) == x.k = "ERR"

\* ------------------------------------------------------------------ strings
Ch(s, i) == SubSeq(s, i, i)
Chars(s) == {Ch(s, i) : i \in 1..Len(s)}
Contains(s, c) == c \in Chars(s)
\* first / last index of character c in s, 0 when absent
IndexOf(s, c) == IF Contains(s, c) THEN CHOOSE i \in 1..Len(s) : Ch(s, i) = c /\ \A j \in 1..(i - 1) : Ch(s, j) # c ELSE 0
LastIndexOf(s, c) == IF Contains(s, c) THEN CHOOSE i \in 1..Len(s) : Ch(s, i) = c /\ \A j \in (i + 1)..Len(s) : Ch(s, j) # c ELSE 0
\* first index i >= from with SubSeq(s, i, i + Len(p) - 1) = p, 0 when absent
FindFrom(s, p, from) ==
    LET ok(i) == i + Len(p) - 1 <= Len(s) /\ SubSeq(s, i, i + Len(p) - 1) = p
        C == {i \in from..Len(s) : ok(i)}
    IN IF C = {} THEN 0 ELSE CHOOSE i \in C : \A j \in C : i <= j
Tail1(s, i) == SubSeq(s, i, Len(s))

Digits == {"0", "1", "2", "3", "4", "5", "6", "7", "8", "9"}
Upper == {"A", "B", "C", "D", "E", "F", "G", "H", "I", "J", "K", "L", "M", "N", "O", "P", "Q", "R", "S", "T", "U", "V", "W", "X", "Y", "Z"}
Lower == {"a", "b", "c", "d", "e", "f", "g", "h", "i", "j", "k", "l", "m", "n", "o", "p", "q", "r", "s", "t", "u", "v", "w", "x", "y", "z"}
DigitVal == [c \in Digits |-> CASE c = "0" -> 0 [] c = "1" -> 1 [] c = "2" -> 2 [] c = "3" -> 3 [] c = "4" -> 4
                                 [] c = "5" -> 5 [] c = "6" -> 6 [] c = "7" -> 7 [] c = "8" -> 8 [] c = "9" -> 9]
IsDigits(s) == Len(s) > 0 /\ Chars(s) \subseteq Digits
RECURSIVE NatOf(_)
NatOf(s) == IF Len(s) = 0 THEN 0 ELSE 10 * NatOf(SubSeq(s, 1, Len(s) - 1)) + DigitVal[Ch(s, Len(s))]

\* peer.go Base64Alphabet, in order; the last character of a 43-character id carries 4 data bits
IdAlphabetSeq == "-0123456789ABCDEFGHIJKLMNOPQRSTUVWXYZ_abcdefghijklmnopqrstuvwxyz"
IdAlphabet == Chars(IdAlphabetSeq)
IdLen == 43
CanonicalLast == {Ch(IdAlphabetSeq, 4 * i + 1) : i \in 0..15}
\* peer.go UnmarshalText (repaired, F17): right length, strict decoding, 32 bytes decoded
ValidIdText(s) == Len(s) = IdLen /\ Chars(s) \subseteq IdAlphabet /\ Ch(s, IdLen) \in CanonicalLast

\* s/sshswarm/addr.go:46  `^([A-z0-9\-_/:]+)@(.+):([0-9]+)$`   (A-z spans [ \ ] ^ _ ` as well)
SshFpChars == Upper \cup Lower \cup Digits \cup {"[", "\\", "]", "^", "_", "`", "-", "/", ":"}
                \cup (IF SshPlus THEN {"+"} ELSE {})

\* netip.ParseAddr at grammar level: the shapes netip accepts, not every numeric constraint
HexChars == Digits \cup {"a", "b", "c", "d", "e", "f", "A", "B", "C", "D", "E", "F"}
IPShape(s) ==
    LET z == IndexOf(s, "%")
        body == IF z = 0 THEN s ELSE SubSeq(s, 1, z - 1)
    IN /\ Len(body) > 0
       /\ IF Contains(body, ":")
          THEN Chars(body) \subseteq HexChars \cup {":", "."} /\ (z = 0 \/ z < Len(s))
          ELSE z = 0 /\ Chars(body) \subseteq Digits \cup {"."} /\ Contains(body, ".")

\* ------------------------------------------------------------ token classes
IPText == [v4 |-> "203.0.113.7", v4lo |-> "127.0.0.1", v6 |-> "2001:db8::1", v6zone |-> "fe80::1%eth0",
           v4mapped |-> "::ffff:192.0.2.1", unspec4 |-> "0.0.0.0", unspec6 |-> "::"]
IPClasses == DOMAIN IPText
Ports == {0, 1, 65535}
\* ssh.FingerprintSHA256 = "SHA256:" + unpadded standard base64 of a SHA-256: letters, digits, '+', '/'
FpText == [alnum |-> "SHA256:nThbg6kXUpJWGl7E1IGOCspRomTxdCARLviKw6E5SY8",
           plus |-> "SHA256:nThbg6kXUpJ+Gl7E1IGOCspRomTxdCARLviKw6E5SY8",
           slash |-> "SHA256:nThbg6kXUpJ/Gl7E1IGOCspRomTxdCARLviKw6E5SY8",
           slash2 |-> "SHA256://hbg6kXUpJWGl7E1IGOCspRomTxdCARLviKw6E5SY8",
           plusslash |-> "SHA256:+/hbg6kXUpJ+Gl7E1IGOCspRomTxdCARLviKw6E5S+/",
           \* not producible by ssh.FingerprintSHA256 (Fingerprint is a free string field): ParseTotal only
           eq |-> "SHA256:nThbg6kXUpJWGl7E1IGOCspRomTxdCARLviKw6E5SY8=",
           dash |-> "SHA256:nThbg6kXUpJ-Gl7E1IGOCspRomTxdCARLviKw6E5SY8",
           under |-> "SHA256:nThbg6kXUpJ_Gl7E1IGOCspRomTxdCARLviKw6E5SY8"]
FpReachable == {"alnum", "plus", "slash", "slash2", "plusslash"}
FpClasses == DOMAIN FpText
IdText == [zero |-> "-------------------------------------------",
           ones |-> "zzzzzzzzzzzzzzzzzzzzzzzzzzzzzzzzzzzzzzzzzzw",
           mixed |-> "--RD4GkY9Y3sEoOCK4hXPM0rUcLBZteWe9yqjRIAohZ"]      \* bytes (7*i) mod 256
IdClasses == DOMAIN IdText
\* multiswarm scheme names are configuration (map keys); a "scheme name" is a non-empty token without "://".
Schemes == {"udp", "quic+udp", "a.b-c_d", "x"}
\* outside the quantifier of C16, generated for ParseTotal / observation only
DegenerateSchemes == {"", "a://b"}
MemNs == {0, 1, 2147483647, -1}

\* ------------------------------------------------------- abstract addresses
\* class-level address (what is printed); Val substitutes the representative strings
UdpC(ips, ports) == {[k |-> "udp", ip |-> i, port |-> p] : i \in ips, p \in ports}
SshC(fps, ips, ports) == {[k |-> "ssh", fp |-> f, ip |-> i, port |-> p] : f \in fps, i \in ips, p \in ports}
MemC(ns) == {[k |-> "mem", n |-> n] : n \in ns}
BaseFull == MemC(MemNs) \cup UdpC(IPClasses, Ports) \cup SshC(FpClasses, IPClasses, Ports)
BaseReduced == MemC({0, -1}) \cup UdpC({"v4", "v6zone", "v4mapped", "unspec6"}, {0, 65535})
                 \cup SshC({"alnum", "plus", "slash2", "eq"}, {"v4lo", "v6", "v4mapped"}, {65535})
Wrap(S, ids, schemes) ==
    {[k |-> "ke", id |-> i, inner |-> a] : i \in ids, a \in S}
      \cup {[k |-> "quic", id |-> i, inner |-> a] : i \in ids, a \in S}
      \cup {[k |-> "multi", scheme |-> s, inner |-> a] : s \in schemes, a \in S}
AllSchemes == Schemes \cup DegenerateSchemes
Inner1 == IF Rich THEN BaseFull ELSE BaseReduced
Level2 == Wrap(Inner1, IdClasses, AllSchemes)
Level3 == Wrap(IF Rich THEN Level2 ELSE Wrap(BaseReduced, {"zero", "mixed"}, {"udp", "quic+udp", "a://b"}),
               IdClasses, IF Rich THEN AllSchemes ELSE Schemes \cup {""})
Cases == BaseFull \cup (IF MaxDepth >= 2 THEN Level2 ELSE {}) \cup (IF MaxDepth >= 3 THEN Level3 ELSE {})

RECURSIVE Val(_)
Val(c) ==
    CASE c.k = "mem" -> c
      [] c.k = "udp" -> [k |-> "udp", ip |-> IPText[c.ip], port |-> c.port]
      [] c.k = "ssh" -> [k |-> "ssh", fp |-> FpText[c.fp], ip |-> IPText[c.ip], port |-> c.port]
      [] c.k \in {"ke", "quic"} -> [k |-> c.k, id |-> IdText[c.id], inner |-> Val(c.inner)]
      [] c.k = "multi" -> [k |-> "multi", scheme |-> c.scheme, inner |-> Val(c.inner)]

\* Is every token of the address one that a real swarm can hand out?
RECURSIVE Reachable(_)
Reachable(c) ==
    CASE c.k = "ssh" -> c.fp \in FpReachable
      [] c.k \in {"ke", "quic"} -> Reachable(c.inner)
      [] c.k = "multi" -> c.scheme \in Schemes /\ Reachable(c.inner)
      [] OTHER -> TRUE

\* The type structure of an address = which swarm stack produced it = which parser applies.
\* A multiswarm is configured with the address's own scheme plus a decoy scheme "m" over memswarm.
RECURSIVE Shape(_)
Shape(c) ==
    CASE c.k \in {"ke", "quic"} -> [k |-> c.k, inner |-> Shape(c.inner)]
      [] c.k = "multi" -> [k |-> "multi", tab |-> (IF c.scheme = "m" THEN {} ELSE {<<"m", [k |-> "mem"]>>}) \cup {<<c.scheme, Shape(c.inner)>>}]
      [] OTHER -> [k |-> c.k]

\* ----------------------------------------------------------------- Marshal
\* net.JoinHostPort: brackets when the host contains ':' or '%'
JoinHostPort(host, port) ==
    IF Contains(host, ":") \/ Contains(host, "%") THEN "[" \o host \o "]:" \o port ELSE host \o ":" \o port
UdpMarshal(v) ==
    IF UdpBrackets THEN JoinHostPort(v.ip, ToString(v.port))     \* s/udpswarm/addr.go String (repaired)
    ELSE v.ip \o ":" \o ToString(v.port)                          \* fmt.Sprintf("%s:%d", ...)  (F14)
RECURSIVE Marshal(_)
Marshal(v) ==
    CASE v.k = "mem" -> ToString(v.n)                                               \* strconv.Itoa
      [] v.k = "udp" -> UdpMarshal(v)
      [] v.k = "ssh" -> v.fp \o "@" \o v.ip \o ":" \o ToString(v.port)              \* "%s@%s:%d"
      [] v.k \in {"ke", "quic"} -> v.id \o "@" \o Marshal(v.inner)                  \* "%s@%s"
      [] v.k = "multi" -> v.scheme \o "://" \o Marshal(v.inner)

\* ------------------------------------------------------------------- Parse
\* strconv.Atoi: optional sign, digits (values beyond the model's integers are not generated)
ParseMem(s) ==
    LET neg == Len(s) > 0 /\ Ch(s, 1) = "-"
        pos == Len(s) > 0 /\ Ch(s, 1) = "+"
        d == IF neg \/ pos THEN Tail1(s, 2) ELSE s
    IN IF ~IsDigits(d) \/ Len(d) > 10 THEN Err ELSE [k |-> "mem", n |-> IF neg THEN -NatOf(d) ELSE NatOf(d)]

\* net.SplitHostPort
SplitHostPort(s) ==
    LET i == LastIndexOf(s, ":")
    IN IF i = 0 THEN Err
       ELSE IF Len(s) > 0 /\ Ch(s, 1) = "["
            THEN LET e == IndexOf(s, "]")
                 IN IF e = 0 THEN Err                                    \* missing ']'
                    ELSE IF e + 1 # i THEN Err                           \* "]" must be followed by the last ":"
                    ELSE LET host == SubSeq(s, 2, e - 1) port == Tail1(s, i + 1)
                         IN IF Contains(host, "[") \/ Contains(port, "[") \/ Contains(port, "]") THEN Err
                            ELSE [k |-> "hp", host |-> host, port |-> port]
            ELSE LET host == SubSeq(s, 1, i - 1) port == Tail1(s, i + 1)
                 IN IF Contains(host, ":") THEN Err                      \* too many colons
                    ELSE IF Contains(host, "[") \/ Contains(host, "]") \/ Contains(port, "[") \/ Contains(port, "]") THEN Err
                    ELSE [k |-> "hp", host |-> host, port |-> port]
\* s/udpswarm/addr.go UnmarshalText: SplitHostPort, fmt.Sscan(port, &uint16), netip.ParseAddr(host)
ParseUdp(s) ==
    LET hp == SplitHostPort(s)
    IN IF IsErr(hp) THEN Err
       ELSE IF ~IsDigits(hp.port) \/ Len(hp.port) > 5 \/ (Len(hp.port) > 1 /\ Ch(hp.port, 1) = "0") THEN Err   \* (octal/hex forms not generated)
       ELSE IF NatOf(hp.port) > 65535 \/ ~IPShape(hp.host) THEN Err
       ELSE [k |-> "udp", ip |-> hp.host, port |-> NatOf(hp.port)]

\* s/sshswarm/addr.go ParseAddr: group 1 = [class]+ up to the first '@' (the class has no '@'),
\* `(.+):([0-9]+)$` greedy = split at the last ':'
ParseSsh(s) ==
    LET a == IndexOf(s, "@")
    IN IF a <= 1 THEN Err
       ELSE LET fp == SubSeq(s, 1, a - 1) rest == Tail1(s, a + 1) c == LastIndexOf(rest, ":")
            IN IF ~(Chars(fp) \subseteq SshFpChars) THEN Err
               ELSE IF c <= 1 THEN Err
               ELSE LET ip == SubSeq(rest, 1, c - 1) port == Tail1(rest, c + 1)
                    IN IF ~IsDigits(port) \/ Len(port) > 5 THEN Err                \* strconv.ParseUint(_, 10, 16)
                       ELSE IF NatOf(port) > 65535 \/ ~IPShape(ip) THEN Err
                       ELSE [k |-> "ssh", fp |-> fp, ip |-> ip, port |-> NatOf(port)]

Lookup(tab, name) == IF \E p \in tab : p[1] = name THEN (CHOOSE p \in tab : p[1] = name)[2] ELSE Err

RECURSIVE Parse(_, _)
Parse(sh, s) ==
    CASE sh.k = "mem" -> ParseMem(s)
      [] sh.k = "udp" -> ParseUdp(s)
      [] sh.k = "ssh" -> ParseSsh(s)
      [] sh.k \in {"ke", "quic"} ->                                   \* bytes.SplitN(data, "@", 2)
            LET a == IndexOf(s, "@")
            IN IF a = 0 THEN Err
               ELSE LET id == SubSeq(s, 1, a - 1)
                    IN IF ~ValidIdText(id) THEN Err
                       ELSE LET inner == Parse(sh.inner, Tail1(s, a + 1))
                            IN IF IsErr(inner) THEN Err ELSE [k |-> sh.k, id |-> id, inner |-> inner]
      [] sh.k = "multi" ->                                             \* `^(.+?)://(.+)$`: lazy scheme, at least one character each side
            LET i == FindFrom(s, "://", 2)
            IN IF i = 0 \/ Len(s) < i + 3 THEN Err
               ELSE LET scheme == SubSeq(s, 1, i - 1) p == Lookup(sh.tab, scheme)
                    IN IF IsErr(p) THEN Err
                       ELSE LET inner == Parse(p, Tail1(s, i + 3))
                            IN IF IsErr(inner) THEN Err ELSE [k |-> "multi", scheme |-> scheme, inner |-> inner]

\* -------------------------------------------------------------------- laws
RoundTrips(c) == Parse(Shape(c), Marshal(Val(c))) = Val(c)
\* parsing arbitrary text fails cleanly or yields an address that marshals back to an equivalent form
ParseTotalOn(sh, s) == LET v == Parse(sh, s) IN IsErr(v) \/ Parse(sh, Marshal(v)) = v

VARIABLE a
Init == a \in Cases
Next == FALSE /\ UNCHANGED a
Spec == Init /\ [][Next]_a

RoundTripLaw == Reachable(a) => RoundTrips(a)
ParseTotalLaw == ParseTotalOn(Shape(a), Marshal(Val(a)))
Dump == PrintT(ToJson(<<"CASE", a, Reachable(a), RoundTrips(a), Marshal(Val(a))>>))
=============================================================================
