SPECIFICATION GenSpec
CONSTANTS
  Locus <- SmallLocus
  Keys <- FocusKeys
  Queries <- FocusQueries
  Configs <- FocusConfigs
  Vals = {1, 2}
  Times = {1, 2}
  TouchTimes = {0, 2}
  ExpTimes = {2, 3, 4}
  Exps = {0, 1, 2, 3}
  MaxOps = 12
CHECK_DEADLOCK FALSE
