------------------------------ MODULE RaceTrace ------------------------------
(* C14, first sentence: every race report of the Go race detector whose stacks contain library frames is  *)
(* an event Race(site) recorded while the model-derived concurrent drivers ran; the lock-discipline law is  *)
(* simply that no such event exists.  (Ownership laws are checked by HubsTrace / SwarmLedgerTrace.)         *)
EXTENDS Integers, Sequences, TLC, Json, IOUtils
Log == ndJsonDeserialize(IOEnv.TRACE)
VARIABLE l
TraceInit == l = 1
TraceNext == /\ l <= Len(Log) /\ l' = l + 1
             /\ (Log[l].ev = "race") => PrintT(ToJson(<<"VIOL", l, Log[l].beh, {"NoDataRace"}>>))
TraceSpec == TraceInit /\ [][TraceNext]_l
AllConsumed == TLCGet("distinct") >= Len(Log) + 1
=============================================================================
