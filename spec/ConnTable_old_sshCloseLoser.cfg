SPECIFICATION Spec
CONSTANTS
  Nodes = {1, 2}
  Ids = {1, 2, 3}
  Transport = "ssh"
  MaxConn = 3
  MaxOps = 2
  MaxEnv = 0
  Fixes <- MCNoSshCloseLoser
INVARIANTS NoOrphan
CHECK_DEADLOCK FALSE
