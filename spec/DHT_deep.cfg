SPECIFICATION Spec
CONSTANTS
  N = 5
  Ops <- AllOps
  Initials <- Init3
  Replies <- McReplies
  Mins <- MinsAll
  ValClasses = {0, 1, 3}
  VModes = {1, 2}
  Dists <- TieDists5
  Orig = FALSE
INVARIANTS AtMostOnce NoPanic Terminates ClosestTruthful ValueFromContacted AcceptedDistinct ErrIffBelowMin
CHECK_DEADLOCK TRUE
