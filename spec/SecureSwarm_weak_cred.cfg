SPECIFICATION Spec
CONSTANTS
  Kinds <- OnlyQUIC
  WLA <- OnlyAll
  WLB <- OnlyAll
  Weak <- WeakCred
  MaxConn = 1
  MaxSend = 1
  MaxAdv = 1
  CacheMax = 16
  Extras = {"A", "B", "M"}
  Asks = {FALSE}
INVARIANTS Attribution
CHECK_DEADLOCK FALSE
