SPECIFICATION Spec
CONSTANTS
  Rich = FALSE
  Fixed = TRUE
INVARIANTS NoModelPanic Dump
CHECK_DEADLOCK FALSE
