SPECIFICATION Spec
CONSTANTS
  Rich = FALSE
  LengthFastPath = TRUE
  StrictIdText = TRUE
INVARIANTS RoundTripLaw CanonicalDERLaw
CHECK_DEADLOCK FALSE
