---------------------------- MODULE HubsTellRef ----------------------------
(***************************************************************************)
(* G03b, second half: Hubs.tla with Hub = "tell" (repaired code: both Bug*  *)
(* constants FALSE) REFINES TellHubInd.tla under the identity mapping on    *)
(* the shared variables (NoD <- None; the queue/ask/purge variables are     *)
(* hidden).  Checked by TLC as the temporal property TellSpec; TellIndInv   *)
(* evaluates the inductive invariant on Hubs' reachable states.             *)
(***************************************************************************)
EXTENDS Hubs

T == INSTANCE TellHubInd WITH NoD <- None

TellSpec == T!Spec
TellIndInv == T!IndInv
\* the Cardinality-free ExactlyOnce of TellHubInd is the ExactlyOnce of Hubs on every reachable state
SameExactlyOnce == T!ExactlyOnce <=> ExactlyOnce
=============================================================================
