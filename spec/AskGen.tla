------------------------------ MODULE AskGen ------------------------------
(***************************************************************************)
(* Behaviour generation for harness/cmd/askreplay: Ask.tla with a history  *)
(* variable.  Simulation mode (tlc -simulate): every behaviour is printed  *)
(* once by Finish as <<"BEH", [mode, serial, hist]>>.                      *)
(*                                                                         *)
(* Script steps (one per environment / network / handler-gate action):     *)
(*   ask(k,a,s,ctr,now)  the asker a starts Ask number k to server s       *)
(*   arrive(k,exp)       stream / mbapp: the request reaches the           *)
(*                       destination and waits there for a ServeAsk call   *)
(*                       (exp = "pend"; "drop" when it is closed).  In hub *)
(*                       mode the asker itself waits in the Deliver select *)
(*   serve(k)            the destination's application calls ServeAsk once *)
(*                       and is handed a waiting request: any number of    *)
(*                       asks may have arrived before anybody serves       *)
(*   handle(k,cls)       the handler gate of k opens: it returns class cls *)
(*   rep(k,p)            mbapp: reply part p of the answer to k reaches    *)
(*                       the asker (parts in any order, repeatedly)        *)
(*   cancel(k)           the context of k ends                             *)
(*   close(s), closeret(s)   Close of the destination is called / returned *)
(*   ret(k)              the code lets Ask k return by itself (closed hub, *)
(*                       context, aborted stream): the replayer only waits *)
(*   tick                mbapp: the millisecond clock advances             *)
(* One random instance per action kind ({RandomElement(S)} is evaluated    *)
(* once per step), so the simulator chooses about uniformly among kinds.   *)
(***************************************************************************)
EXTENDS Ask, Json, Sequences

CONSTANTS MaxSteps

VARIABLES hist, done,
          burst      \* mbapp: [a, ctr, s] of the ask just issued when the next step is to be a second ask of the
                     \* same asker under the same counter to another server (a key collision), else NoBurst
genvars == <<vars, hist, done, burst>>
NoBurst == [a |-> "-", ctr |-> 0, s |-> "-"]

GenInit == Init /\ hist = <<>> /\ done = FALSE /\ burst = NoBurst

Quiet == /\ \A k \in K : Returned(k)
         /\ \A k \in K : hnd[k].st # "in"

Finish ==
  /\ ~done
  /\ PrintT(ToJson(<<"BEH", [mode |-> Mode, serial |-> Serial, hist |-> hist]>>))
  /\ done' = TRUE
  /\ UNCHANGED <<vars, hist, burst>>

Rec(r) == hist' = Append(hist, r)

Step ==
  \E k \in {RandomElement(K)}, a \in {RandomElement(Askers)}, s \in {RandomElement(Servers)},
     c \in {RandomElement(Classes)}, ctr \in {RandomElement(CtrVals)}, p \in {RandomElement({1, 2})},
     w \in {RandomElement(1..6)} :      \* weights: Close, context ends and clock ticks are rarer than progress
     \/ /\ HCall(k, a, s) \/ SCall(k, a, s) \/ MCall(k, a, s, ctr)
        /\ Rec([op |-> "ask", k |-> k, a |-> a, s |-> s, ctr |-> ctr, now |-> now])
        /\ burst' = IF Mode = "mbapp" /\ w <= 2 THEN [a |-> a, ctr |-> ctr, s |-> s] ELSE NoBurst
     \/ /\ SArrive(k) \/ MReqDeliver(k)
        /\ Rec([op |-> (IF Returned(k)' /\ ~Returned(k) THEN "ret" ELSE "arrive"), k |-> k,
                exp |-> (IF hnd'[k].st = "pend" THEN "pend" ELSE "drop")])
        /\ burst' = NoBurst
     \/ /\ ServeStart(k)
        /\ Rec([op |-> "serve", k |-> k])
        /\ burst' = NoBurst
     \/ /\ HandlerRet(k, c)
        /\ Rec([op |-> "handle", k |-> k, cls |-> c])
        /\ burst' = NoBurst
     \/ /\ MRepDeliver(k, p)
        /\ Rec([op |-> "rep", k |-> k, p |-> p])
        /\ burst' = NoBurst
     \/ /\ w <= 2 /\ Timeout(k)
        /\ Rec([op |-> "cancel", k |-> k])
        /\ burst' = NoBurst
     \/ /\ HSelClosed(k) \/ HSelCtx(k) \/ SAbort(k) \/ SCtx(k) \/ MCtx(k) \/ SPendClosed(k) \/ MPendClosed(k)
        /\ Rec([op |-> "ret", k |-> k, exp |-> "err"])
        /\ burst' = NoBurst
     \/ /\ w = 1 /\ CloseCall(s)
        /\ Rec([op |-> "close", s |-> s])
        /\ burst' = NoBurst
     \/ /\ CloseRet(s)
        /\ Rec([op |-> "closeret", s |-> s])
        /\ burst' = NoBurst
     \/ /\ w <= 2 /\ Tick
        /\ Rec([op |-> "tick"])
        /\ burst' = NoBurst
     \/ UNCHANGED <<vars, hist, burst>>        \* the random instance is not enabled: an idle step

\* the second ask of a colliding pair follows immediately (the replayer issues both within one millisecond)
CanBurst == /\ burst # NoBurst
            /\ \E k \in K : NextToCall(k)
            /\ \E s \in Servers \ {burst.s} : <<burst.a, burst.ctr, now, s>> \notin used
BurstStep ==
  \E k \in K, s \in Servers \ {burst.s} :
     /\ MCall(k, burst.a, s, burst.ctr)
     /\ Rec([op |-> "ask", k |-> k, a |-> burst.a, s |-> s, ctr |-> burst.ctr, now |-> now])
     /\ burst' = NoBurst

GenNext ==
  IF done THEN FALSE
  ELSE IF Len(hist) >= MaxSteps \/ Quiet THEN Finish
  ELSE IF CanBurst THEN BurstStep /\ UNCHANGED done
  ELSE Step /\ UNCHANGED done

GenSpec == GenInit /\ [][GenNext]_genvars
=============================================================================
