------------------------------ MODULE AskGen ------------------------------
(***************************************************************************)
(* Behaviour generation for harness/cmd/askreplay: Ask.tla with a history  *)
(* variable.  Simulation mode (tlc -simulate): every behaviour is printed  *)
(* once by Finish as <<"BEH", [mode, serial, hist]>>.                      *)
(*                                                                         *)
(* Script steps (one per environment / network / handler-gate action):     *)
(*   ask(k,a,s,ctr,now)  the asker a starts Ask number k to server s       *)
(*   enter(k,exp)        the request reaches the destination; exp = "in"   *)
(*                       when the model hands it to a handler, "drop" when *)
(*                       the destination is closed / busy                  *)
(*   handle(k,cls)       the handler gate of k opens: it returns class cls *)
(*   rep(k,p)            mbapp: reply part p of the answer to k reaches    *)
(*                       the asker (parts in any order, repeatedly)        *)
(*   cancel(k)           the context of k ends                             *)
(*   close(s), closeret(s)   Close of the destination is called / returned *)
(*   ret(k)              the code lets Ask k return by itself (closed hub, *)
(*                       context, aborted stream): the replayer only waits *)
(*   tick                mbapp: the millisecond clock advances             *)
(* One random instance per action kind ({RandomElement(S)} is evaluated    *)
(* once per step), so the simulator chooses about uniformly among kinds.   *)
(***************************************************************************)
EXTENDS Ask, Json, Sequences

CONSTANTS MaxSteps

VARIABLES hist, done
genvars == <<vars, hist, done>>

GenInit == Init /\ hist = <<>> /\ done = FALSE

Quiet == /\ \A k \in K : Returned(k)
         /\ \A k \in K : hnd[k].st # "in"

Finish ==
  /\ ~done
  /\ PrintT(ToJson(<<"BEH", [mode |-> Mode, serial |-> Serial, hist |-> hist]>>))
  /\ done' = TRUE
  /\ UNCHANGED <<vars, hist>>

Rec(r) == hist' = Append(hist, r)

Step ==
  \E k \in {RandomElement(K)}, a \in {RandomElement(Askers)}, s \in {RandomElement(Servers)},
     c \in {RandomElement(Classes)}, ctr \in {RandomElement(CtrVals)}, p \in {RandomElement({1, 2})},
     w \in {RandomElement(1..6)} :      \* weights: Close, context ends and clock ticks are rarer than progress
     \/ /\ HCall(k, a, s) \/ SCall(k, a, s) \/ MCall(k, a, s, ctr)
        /\ Rec([op |-> "ask", k |-> k, a |-> a, s |-> s, ctr |-> ctr, now |-> now])
     \/ /\ HMeet(k)
        /\ Rec([op |-> "enter", k |-> k, exp |-> "in"])
     \/ /\ SArrive(k) \/ MReqDeliver(k)
        /\ Rec([op |-> (IF Returned(k)' /\ ~Returned(k) THEN "ret" ELSE "enter"), k |-> k,
                exp |-> (IF hnd'[k].st = "in" /\ hnd[k].st # "in" THEN "in" ELSE "drop")])
     \/ /\ HandlerRet(k, c)
        /\ Rec([op |-> "handle", k |-> k, cls |-> c])
     \/ /\ MRepDeliver(k, p)
        /\ Rec([op |-> "rep", k |-> k, p |-> p])
     \/ /\ w <= 2 /\ Timeout(k)
        /\ Rec([op |-> "cancel", k |-> k])
     \/ /\ HSelClosed(k) \/ HSelCtx(k) \/ SAbort(k) \/ SCtx(k) \/ MCtx(k)
        /\ Rec([op |-> "ret", k |-> k, exp |-> "err"])
     \/ /\ w = 1 /\ CloseCall(s)
        /\ Rec([op |-> "close", s |-> s])
     \/ /\ CloseRet(s)
        /\ Rec([op |-> "closeret", s |-> s])
     \/ /\ w <= 2 /\ Tick
        /\ Rec([op |-> "tick"])
     \/ UNCHANGED <<vars, hist>>        \* the random instance is not enabled: an idle step

GenNext ==
  IF done THEN FALSE
  ELSE IF Len(hist) >= MaxSteps \/ Quiet THEN Finish
  ELSE Step /\ UNCHANGED done

GenSpec == GenInit /\ [][GenNext]_genvars
=============================================================================
