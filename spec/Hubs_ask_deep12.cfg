SPECIFICATION Spec
CONSTANTS
  Hub = "ask"
  D = {d1, d2}
  R = {r1, r2}
  C = {c1, c2}
  P = {}
  Cap = 0
  BugNoClosedCase = FALSE
  BugNilErr = FALSE
INVARIANTS Safety
PROPERTIES CloseIdempotent CloseEnds CloseReturns
CHECK_DEADLOCK FALSE
