---------------------------- MODULE TopologyTrace ----------------------------
(* Binds Topology.tla to the real p2ptest.MakeChain / MakeRing / MakeCluster / MakeHubAndSpoke        *)
(* (timerreplay -mode topology): one event per (kind, n) with the adjacency lists returned.            *)
EXTENDS Integers, Sequences, FiniteSets, TLC, Json, IOUtils
T == INSTANCE Topology WITH MaxN <- 0, kind <- "", n <- 0
Log == ndJsonDeserialize(IOEnv.TRACE)
VARIABLES l
Row(ev, i) == ev.adj[i + 1]
RowSet(ev, i) == {Row(ev, i)[j] : j \in DOMAIN Row(ev, i)}
EdgesOf(ev) == UNION {{<<i, x>> : x \in RowSet(ev, i)} : i \in T!Nodes(ev.n)}
Viol(ev) ==
    IF ev.panic THEN {"NoPanic"} ELSE
    IF Len(ev.adj) # ev.n THEN {"OneRowPerNode"} ELSE
    LET E == EdgesOf(ev) IN
    {nm \in {"InRange", "NoDuplicateEdge", "NoSelfLoop", "Symmetric", "Connected", "EdgeSet"} :
      CASE nm = "InRange" -> \E e \in E : e[2] \notin T!Nodes(ev.n)
        [] nm = "NoDuplicateEdge" -> \E i \in T!Nodes(ev.n) : Len(Row(ev, i)) # Cardinality(RowSet(ev, i))
        [] nm = "NoSelfLoop" -> ~T!NoSelfLoop(E)
        [] nm = "Symmetric" -> ~T!Symmetric(E)
        [] nm = "Connected" -> ~T!Connected(E, ev.n)
        [] nm = "EdgeSet" -> E # T!Edges(ev.kind, ev.n)}
TraceInit == l = 1
TraceNext == /\ l <= Len(Log) /\ l' = l + 1
             /\ LET vs == Viol(Log[l]) IN (vs # {}) => PrintT(ToJson(<<"VIOL", l, l, vs>>))
TraceSpec == TraceInit /\ [][TraceNext]_l
AllConsumed == TLCGet("distinct") >= Len(Log) + 1
=============================================================================
