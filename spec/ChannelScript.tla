---------------------------- MODULE ChannelScript ----------------------------
(***************************************************************************)
(* Scripted schedules over Channel.tla, enumerated as PATHS (the history is *)
(* part of the state, so two different schedules are never merged even if   *)
(* the model cannot tell their end states apart: an implementation may keep *)
(* hidden state that the model does not have).  A script is               *)
(*   1. who calls Send first: a, b, a then b, b then a;                     *)
(*   2. an adversarial prefix: up to PrefixLen deliveries of ANY message on *)
(*      the network, duplicates and model-level no-ops included;            *)
(*   3. optionally a fault: the peer restarts (under any of RestartKeys) or *)
(*      a rekey timer expires;                                              *)
(*   4. the pump: every message is delivered in emission order (reliable    *)
(*      network) until nothing is left;                                     *)
(*   5. optionally a second fault and one more Send, and the pump again.    *)
(* Zero-delay timers fire eagerly throughout (chanreplay waits for them).   *)
(* This is C07's quantifier ("every adversarial prefix schedule of the      *)
(* first k messages, every relative timing of the two first Sends, a peer   *)
(* restart at every point") and C05's ("every order in which the two sides  *)
(* start, every later re-handshake by the same or a different key").        *)
(***************************************************************************)
EXTENDS Channel, Json, SequencesExt
CONSTANTS PrefixLen, SecondRound
VARIABLES hist, done, phase, steps, fifo, ptr
svars == <<vars, hist, done, phase, steps, fifo, ptr>>

Snap(c) == [slots |-> [i \in 0..2 |-> IF slot[c][i] = None THEN [p |-> FALSE, init |-> FALSE, ready |-> FALSE, rkey |-> "none"]
                                       ELSE [p |-> TRUE, init |-> S[slot[c][i]].init, ready |-> Ready(S, slot[c][i]),
                                             rkey |-> S[slot[c][i]].rkey]],
            bound |-> bound[c], pending |-> pending[c]]
Rec == [act |-> last', a |-> [slots |-> Snap("a").slots', bound |-> bound'["a"], pending |-> pending'["a"]],
                       b |-> [slots |-> Snap("b").slots', bound |-> bound'["b"], pending |-> pending'["b"]],
        kf |-> KF_StaleHello']

\* messages in emission order (new ones appended; order inside one step fixed by SetToSeq)
Track == fifo' = fifo \o SetToSeq(net' \ net)
Log1 == hist' = Append(hist, Rec)

SInit == Init /\ hist = <<>> /\ done = FALSE /\ phase = 1 /\ steps = 0 /\ fifo = <<>> /\ ptr = 1

TimerStep == TimerDue /\ Timers /\ Log1 /\ Track /\ UNCHANGED <<done, phase, steps, ptr>>

\* phase 1: first Sends
P1 == /\ phase = 1 /\ ~TimerDue
      /\ \/ (\E c \in Ch : sends[c] = 0 /\ SendCall(c) /\ Log1 /\ Track /\ UNCHANGED <<done, phase, steps, ptr>>)
         \/ (\E c \in Ch : sends[c] > 0) /\ phase' = 2 /\ UNCHANGED <<vars, hist, done, steps, fifo, ptr>>
\* phase 2: adversarial prefix
P2 == /\ phase = 2 /\ ~TimerDue
      /\ \/ (steps < PrefixLen /\ \E m \in net : Deliver(m.to, m) /\ Log1 /\ Track /\ steps' = steps + 1 /\ UNCHANGED <<done, phase, ptr>>)
         \/ (phase' = 3 /\ steps' = 0 /\ UNCHANGED <<vars, hist, done, fifo, ptr>>)
\* phase 3 / 5: a fault (or none), then the pump
Fault(next) ==
      \/ (\E k \in RestartKeys : Restart(k) /\ Log1 /\ Track /\ phase' = next /\ UNCHANGED <<done, steps, ptr>>)
      \/ (\E c \in Ch : RekeyFire(c) /\ Log1 /\ Track /\ phase' = next /\ UNCHANGED <<done, steps, ptr>>)
      \/ (phase' = next /\ UNCHANGED <<vars, hist, done, steps, fifo, ptr>>)
P3 == phase = 3 /\ ~TimerDue /\ Fault(4)
\* phase 4 / 7: the pump (deterministic)
Pump(next) ==
      IF ptr <= Len(fifo)
      THEN /\ Deliver(fifo[ptr].to, fifo[ptr]) /\ Log1 /\ Track /\ ptr' = ptr + 1 /\ UNCHANGED <<done, phase, steps>>
      ELSE /\ phase' = next /\ UNCHANGED <<vars, hist, done, steps, fifo, ptr>>
P4 == phase = 4 /\ ~TimerDue /\ Pump(IF SecondRound THEN 5 ELSE 8)
P5 == phase = 5 /\ ~TimerDue /\ Fault(6)
P6 == /\ phase = 6 /\ ~TimerDue
      /\ \/ (\E c \in Ch : sends[c] < MaxSendCalls /\ SendCall(c) /\ Log1 /\ Track /\ phase' = 7 /\ UNCHANGED <<done, steps, ptr>>)
         \/ (phase' = 7 /\ UNCHANGED <<vars, hist, done, steps, fifo, ptr>>)
P7 == phase = 7 /\ ~TimerDue /\ Pump(8)
Finish == /\ phase = 8 /\ ~done /\ ~TimerDue
          /\ PrintT(ToJson(<<"BEH", [hist |-> hist, acceptA |-> AcceptA, acceptB |-> AcceptB]>>))
          /\ done' = TRUE /\ UNCHANGED <<vars, hist, phase, steps, fifo, ptr>>

SNext == TimerStep \/ P1 \/ P2 \/ P3 \/ P4 \/ P5 \/ P6 \/ P7 \/ Finish
ScriptSpec == SInit /\ [][SNext]_svars
=============================================================================
