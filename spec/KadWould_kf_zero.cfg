SPECIFICATION Spec
CONSTANTS
  Locus <- WLocus
  Keys <- WSmallKeys
  Queries <- WQueries
  Configs <- WSmallConfigs
  Vals = {1}
  Times = {1, 2}
  TouchTimes = {0}
  ExpTimes = {2, 3}
  Exps = {0, 1, 2}
  MaxOps = 1
VIEW view
INVARIANTS ZeroCapNo
CHECK_DEADLOCK FALSE
