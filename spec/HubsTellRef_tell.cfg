SPECIFICATION Spec
CONSTANTS
  Hub = "tell"
  D = {d1, d2}
  R = {r1, r2}
  C = {c1}
  P = {}
  Cap = 0
  BugNoClosedCase = FALSE
  BugNilErr = FALSE
INVARIANTS Safety TellIndInv SameExactlyOnce
PROPERTIES TellSpec
CHECK_DEADLOCK FALSE
