------------------------- MODULE MC_P2pkeSwarmGen -------------------------
EXTENDS P2pkeSwarmGen, P2pkeSwarmScripts
AllFixed == {"lastSent", "close", "evict", "empty"}
Both == {"A", "B"}
OnlyB == {"B"}
DA_full == {<<"B", "b">>, <<"A", "b">>, <<"B", "x">>}
DA_sim == {<<"B", "b">>, <<"B", "b">>, <<"B", "x">>}
DB_good == {<<"A", "a">>}
NoScripts == <<>>
=============================================================================
