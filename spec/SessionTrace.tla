---------------------------- MODULE SessionTrace ----------------------------
(***************************************************************************)
(* Trace specification binding Session.tla to real p2pke.Session objects.  *)
(* The log (harness/cmd/sessreplay) holds one event per replayed action:    *)
(* the real result, the session's observable state (IsReady, RemoteKey,     *)
(* handshake index, counter), the model's prediction for that step, and -   *)
(* for every message that came into existence - the ground truth about it   *)
(* as a flat term (producer, claimed key, key whose private half signed,    *)
(* transcript message it is bound to, direction, counter, plaintext id).    *)
(* The operators below are the flat-term form of Session.tla's property     *)
(* operators, evaluated on REAL observations; each violated operator is     *)
(* printed as <<"VIOL", line, behaviour, names>>; a disagreement between    *)
(* the model's prediction and the observation is <<"DRIFT", ...>>.          *)
(***************************************************************************)
EXTENDS Integers, Sequences, FiniteSets, TLC, Json, IOUtils

Log == ndJsonDeserialize(IOEnv.TRACE)
NShards == atoi(IOEnv.NSHARDS)

VARIABLES l, fresh, starts,
          sess,     \* set of honest session names of the current behaviour
          role, keyof,
          mt,       \* message table: sequence of flat terms (index = id)
          dlv,      \* set of <<session, message id>> delivered so far
          obs,      \* [session -> last observed record]
          used,     \* [session -> has accepted application data or a Send]
          apps,     \* set of <<session, plaintext id>> handed to the application
          family
tvars == <<l, fresh, starts, sess, role, keyof, mt, dlv, obs, used, apps, family>>

ToSet(s) == {s[i] : i \in 1..Len(s)}
Resets == {i \in 1..Len(Log) : Log[i].ev = "init"}
ComputeStarts == {1} \cup {CHOOSE i \in Resets : i >= c /\ \A j \in Resets : j >= c => i <= j :
                      c \in {c2 \in {(k * Len(Log)) \div NShards + 1 : k \in 1..(NShards - 1)} :
                                 \E i \in Resets : i >= c2}}

TraceInit ==
    /\ starts = ComputeStarts /\ l \in starts /\ fresh = TRUE
    /\ sess = {} /\ role = <<>> /\ keyof = <<>> /\ mt = <<>> /\ dlv = {} /\ obs = <<>> /\ used = <<>>
    /\ apps = {} /\ family = ""

HonestKeys == {keyof[s] : s \in sess}
InDir(s) == IF role[s] = "init" THEN "r2i" ELSE "i2r"
NoObs == [hs |-> 0, nonce |-> 0, ready |-> FALSE, rk |-> "-"]

\* ---- C03: the proof this session must have seen before it is usable -------------------------
\* a delivered message signed by the private half of key k over THIS session's transcript
ProofIds(M, D, s, k) ==
    {id \in {x[2] : x \in {y \in D : y[1] = s}} :
        IF role[s] = "init"
        THEN /\ M[id].t = "RH" /\ M[id].sig = k /\ M[id].key = k
             /\ M[id].ref # 0 /\ M[M[id].ref].t = "IH" /\ M[M[id].ref].by = s
        ELSE /\ M[id].t = "ID" /\ M[id].sig = k
             /\ M[id].ref # 0 /\ M[M[id].ref].t = "RH" /\ M[M[id].ref].by = s}
UsableP(o, u) == o.ready \/ u
AuthBeforeUseP(M, D, O, U) ==
    \A s \in sess : UsableP(O[s], U[s]) => ProofIds(M, D, s, O[s].rk) # {}
\* an honest key is reported only when a session holding that key produced the proof
AgreementP(M, D, O, U) ==
    \A s \in sess : (UsableP(O[s], U[s]) /\ O[s].rk \in HonestKeys) =>
        \E id \in ProofIds(M, D, s, O[s].rk) : M[id].by \in sess /\ keyof[M[id].by] = O[s].rk

\* ---- C02 (session level) ---------------------------------------------------------------------
\* application data handed out by session s for delivered message m
\* records sealed for RespHello a open under RespHello b when both have the same pair of ephemerals (Noise NN keys)
KeyEq(M, a, b) == /\ a # 0 /\ b # 0 /\ M[a].t = "RH" /\ M[b].t = "RH" /\ M[a].eph = M[b].eph
                  /\ M[a].ref # 0 /\ M[b].ref # 0 /\ M[M[a].ref].eph = M[M[b].ref].eph
AuthenticP(M, D, O, s, m, pt) ==
    /\ pt # -1                                             \* byte-identical to a plaintext given to Send
    /\ M[m].t = "D" /\ M[m].pt = pt /\ M[m].dir = InDir(s)
    /\ IF role[s] = "init" THEN \E p \in ProofIds(M, D, s, O[s].rk) : KeyEq(M, M[m].ref, p)
       ELSE \E q \in 1..Len(M) : M[q].t = "RH" /\ M[q].by = s /\ KeyEq(M, M[m].ref, q)
    /\ IF M[m].by \in sess THEN keyof[M[m].by] = O[s].rk ELSE O[s].rk = "M"
Sealed(M) == {i \in 1..Len(M) : M[i].t \in {"ID", "RD", "D"} /\ M[i].by \in sess}
NonceUniqueP(M) == \A a, b \in Sealed(M) :
    (M[a].by = M[b].by /\ M[a].ref = M[b].ref /\ M[a].dir = M[b].dir /\ M[a].n = M[b].n) => a = b

\* ---- the step --------------------------------------------------------------------------------
Upd(f, s, v) == [x \in (DOMAIN f) \cup {s} |-> IF x = s THEN v ELSE f[x]]

TraceNext ==
    /\ l <= Len(Log)
    /\ (fresh \/ l \notin starts)
    /\ fresh' = FALSE /\ starts' = starts /\ l' = l + 1
    /\ LET ev == Log[l] IN
       IF ev.ev = "init" THEN
           LET S == {d.name : d \in ToSet(ev.sess)} IN
           /\ sess' = S
           /\ role' = [s \in S |-> (CHOOSE d \in ToSet(ev.sess) : d.name = s).role]
           /\ keyof' = [s \in S |-> (CHOOSE d \in ToSet(ev.sess) : d.name = s).key]
           /\ mt' = <<>> /\ dlv' = {} /\ apps' = {}
           /\ obs' = [s \in S |-> NoObs]
           /\ used' = [s \in S |-> FALSE]
           /\ family' = ev.family
       ELSE IF ev.ev \in {"skip", "settle"} THEN
           /\ UNCHANGED <<sess, role, keyof, mt, dlv, obs, used, apps, family>>
           /\ (ev.ev = "settle") =>
                LET vs == (IF ev.panic THEN {"NoPanic"} ELSE {})
                          \cup (IF ~ev.panic /\ ~(ev.readyI /\ ev.readyR) THEN {"NoPermanentFailure"} ELSE {})
                          \cup (IF ~ev.panic /\ ev.readyI /\ ev.readyR /\ ~(ev.flowIR /\ ev.flowRI) THEN {"DataFlows"} ELSE {})
                IN (vs # {}) => PrintT(ToJson(<<"VIOL", l, ev.beh, vs>>))
       ELSE
           LET M2 == mt \o ev.new
               s == ev.s
               isS == s \in sess
               D2 == IF ev.ev = "deliver" /\ ~ev.panic THEN dlv \cup {<<s, ev.m>>} ELSE dlv
               O2 == IF isS /\ ~ev.panic THEN Upd(obs, s, ev.obs) ELSE obs
               U2 == IF isS /\ ~ev.panic /\ ((ev.ev = "deliver" /\ ev.res = "app") \/ (ev.ev = "send" /\ ev.ok))
                     THEN Upd(used, s, TRUE) ELSE used
               isApp == ev.ev = "deliver" /\ ~ev.panic /\ ev.res = "app"
               vs == (IF ev.panic THEN {"NoPanic"} ELSE {})
                     \cup (IF ~AuthBeforeUseP(M2, D2, O2, U2) THEN {"AuthBeforeUse"} ELSE {})
                     \cup (IF ~AgreementP(M2, D2, O2, U2) THEN {"Agreement"} ELSE {})
                     \cup (IF isApp /\ ~AuthenticP(M2, D2, O2, s, ev.m, ev.pt) THEN {"Authentic"} ELSE {})
                     \cup (IF isApp /\ <<s, ev.pt>> \in apps THEN {"AtMostOnce"} ELSE {})
                     \cup (IF ev.new # <<>> /\ ~NonceUniqueP(M2) THEN {"NonceUnique"} ELSE {})
                     \cup (IF ev.leak THEN {"NoPlaintextOnWire"} ELSE {})
                     \cup (IF ev.ev = "hs" /\ ~ev.panic /\ ~ev.idem THEN {"HandshakeIdempotent"} ELSE {})
                     \cup (IF isS /\ ~ev.panic /\ ev.obs.hs < obs[s].hs THEN {"Monotone"} ELSE {})
               drift == /\ ~ev.panic /\ ev.exp.valid
                        /\ \/ (ev.ev = "deliver" /\ (\/ ev.res # ev.exp.res \/ (ev.reply # 0) # ev.exp.reply
                                                     \/ ev.obs.hs # ev.exp.hs \/ ev.obs.ready # ev.exp.ready
                                                     \/ ev.obs.rk # ev.exp.rk))
                           \/ (ev.ev = "send" /\ (ev.ok # ev.exp.ok \/ (ev.ok /\ ev.n # ev.exp.n)))
                           \/ (ev.ev = "hs" /\ (ev.m # 0) # ev.exp.reply)
           IN /\ mt' = M2 /\ dlv' = D2 /\ obs' = O2 /\ used' = U2
              /\ apps' = IF isApp THEN apps \cup {<<s, ev.pt>>} ELSE apps
              /\ UNCHANGED <<sess, role, keyof, family>>
              /\ (vs # {}) => PrintT(ToJson(<<"VIOL", l, ev.beh, vs>>))
              /\ drift => PrintT(ToJson(<<"DRIFT", l, ev.beh, ev.ev>>))

TraceSpec == TraceInit /\ [][TraceNext]_tvars
AllConsumed == TLCGet("distinct") >= Len(Log) + 1
=============================================================================
