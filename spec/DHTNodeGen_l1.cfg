SPECIFICATION GenSpec
CONSTANTS
  Locus <- L1Locus
  Keys <- L1Keys
  Queries <- L1Queries
  Vals <- NNone
  Times <- NNone
  TouchTimes <- NNone
  ExpTimes <- NNone
  Exps <- NNone
  Configs <- NNone
  MaxOps = 16
  LocalID <- NLocal
  PeerIDs <- L1Peers
  DataKeys <- L1Data
  Infos = {1, 2}
  DVals = {1, 2, 3}
  PutTTLs = {0, 1, 3}
  HPutTTLs = {0, 1, 3, 99}
  PeerTTL = 2
  MaxDataTTL = 2
  MaxNow = 6
  NodeConfigs <- L1AllConfigs
  Targets <- L1Targets
  Limits <- L1Limits
  Orig <- NNone

CHECK_DEADLOCK FALSE
