---------------------------- MODULE WrappersGen ----------------------------
(* Behaviours for the wrapper runs of harness/cmd/vswarmreplay (Wrap = "wl": every node behind            *)
(* wlswarm.WrapSecureAsk with the allow sets of Allow; Wrap = "map": behind mapswarm.NewSecure / New with   *)
(* up(a) = a + 100): the generator of VSwarmGen (edge covers, simulation) over the hooked inner model, which *)
(* Wrappers.tla shows equal to "inner swarm + transformation", plus the scenarios below.                   *)
EXTENDS VSwarmGen

CoreWl == <<
    \* a refused sender occupies the victim's queue until a Receive consumes (and drops) its message
    <<<<T(1, 2, 0, "s")>>, <<T(2, 1, 0, "s")>>, <<R(3, 0)>>, <<T(4, 1, 0, "s")>>, <<T(5, 2, 0, "s")>>, <<T(6, 1, 0, "s")>>, <<R(7, 0)>>>>,
    \* a blocked receiver is not woken by a refused message; an admitted one gets through
    <<<<R(1, 1)>>, <<T(2, 2, 1, "s")>>, <<T(3, 1, 1, "s")>>, <<T(4, 0, 1, "s")>>, <<R(5, 0)>>, <<T(6, 1, 0, "s")>>>>,
    \* outbound: refused destinations are errors, nothing is sent
    <<<<T(1, 0, 2, "s")>>, <<OpAsk(2, 0, 2, "s")>>, <<T(3, 0, 7, "s")>>, <<T(4, 2, 7, "s")>>, <<T(5, 1, 1, "s")>>, <<T(6, 1, 2, "x")>>, <<T(7, 0, 1, "x")>>,
      <<R(8, 2)>>, <<OpServe(9, 2, "echo")>>>>,
    \* a refused ask is answered with an error by the wrapper, the same ServeAsk call then serves an admitted one
    <<<<OpServe(1, 1, "echo")>>, <<OpAsk(2, 2, 1, "s")>>, <<OpAsk(3, 0, 1, "s")>>, <<OpServe(4, 0, "neg")>>, <<OpAsk(5, 2, 0, "s")>>, <<OpAsk(6, 1, 0, "s")>>,
      <<OpAsk(7, 2, 1, "s")>>, <<OpServe(8, 1, "echo")>>, <<OpAsk(9, 0, 1, "s"), OpAsk(10, 2, 1, "s")>>>>,
    \* Close through the wrapper
    <<<<R(1, 0)>>, <<OpServe(2, 0, "echo")>>, <<OpClose(3, 0)>>, <<T(4, 1, 0, "s")>>, <<OpAsk(5, 1, 0, "s")>>, <<R(6, 0)>>>>
  >>
CoreMap == <<
    <<<<T(1, 0, 1, "s")>>, <<R(2, 1)>>, <<OpNew(3)>>, <<T(4, 2, 0, "m")>>, <<R(5, 0)>>, <<R(6, 2)>>, <<T(7, 1, 2, "z")>>, <<T(8, 0, 7, "s")>>,
      <<T(9, 0, 1, "x")>>, <<OpClose(10, 1)>>, <<T(11, 0, 1, "s")>>, <<R(12, 1)>>, <<T(13, 1, 0, "s")>>, <<R(14, 0)>>>>,
    <<<<R(1, 0)>>, <<R(2, 0)>>, <<T(3, 1, 0, "s"), T(4, 0, 0, "m")>>, <<T(5, 1, 1, "s")>>, <<T(6, 0, 1, "s")>>, <<R(7, 1)>>, <<R(8, 1)>>>>
  >>
WCore == IF Wrap = "wl" THEN CoreWl ELSE IF Wrap = "map" /\ TfKind = "none" THEN CoreMap ELSE <<>>
\* (mapswarm has no Ask: the scenarios of the bare realm that ask are not run through it)
WCoreInit == GenInit /\ CoreDumpOf(IF Wrap = "map" /\ TfKind = "none" THEN WCore ELSE Core \o WCore)
WCoreSpec == WCoreInit /\ [][UNCHANGED gvars]_gvars
\* simulation that also prints the scenarios (one TLC run per family)
WGenSpec == WCoreInit /\ [][GenNext]_gvars
=============================================================================
