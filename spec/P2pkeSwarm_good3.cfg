SPECIFICATION Spec
CONSTANTS
  MaxC = 4
  MaxH = 4
  MaxTell = 3
  MaxDrop = 0
  MaxHold = 0
  MaxJunk = 0
  MaxClose = 0
  MaxRekey = 0
  KExp = 4
  KIdle = 5
  KGrace = 9
  Period = 2
  TellTO = 3
  WLA <- Both
  WLB <- Both
  DstsA <- DA_good
  DstsB <- DB_good
  AllowEmpty = FALSE
  Fixed <- AllFixed
  EagerCleanup = FALSE
CHECK_DEADLOCK FALSE
VIEW view
INVARIANT Safety
PROPERTY TellAfterCloseFails
