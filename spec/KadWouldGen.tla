----------------------------- MODULE KadWouldGen -----------------------------
(* Behaviour generation for funcreplay -mode would: random simulation of KadCache (over the key   *)
(* universes of MC_KadWould) with a history variable, printed when the depth bound is reached.    *)
(* Same idiom as KadCacheGen.                                                                     *)
EXTENDS MC_KadWould, Json
VARIABLES hist, done

genvars == <<vars, hist, done>>
GenInit == /\ Init
           /\ hist = <<[op |-> "init", max |-> cmax, min |-> cmin, prefill |-> DOMAIN ents,
                     locus |-> Locus, keys |-> Keys]>>
           /\ done = FALSE
Finish == /\ nops = MaxOps /\ ~done
          /\ PrintT(ToJson(<<"BEH", hist>>))
          /\ done' = TRUE
          /\ UNCHANGED <<vars, hist>>
\* puts dominate (the laws are about full caches); one random instance per action kind
RandNext ==
    \E k \in {RandomElement(Keys)}, v \in {RandomElement(Vals)}, e \in {RandomElement(Exps)}, c \in {RandomElement(1..6)} :
        \/ c \in 1..3 /\ \E t \in {RandomElement(Times)} : Put(k, v, t, e)
        \/ c = 4 /\ \E t \in {RandomElement(TouchTimes)} : Touch(k, v, t, e)
        \/ c = 5 /\ Delete(k)
        \/ c = 6 /\ \E t \in {RandomElement(ExpTimes)} : Expire(t)
GenNext == \/ (RandNext /\ hist' = Append(hist, last') /\ UNCHANGED done)
           \/ Finish
GenSpec == GenInit /\ [][GenNext]_genvars

\* exhaustive state cover (VIEW view hides hist and last): for every distinct cache state the first
\* (BFS-shortest) path that reached it; the laws of KadWould are checked on the same run
CoverNext == Next /\ hist' = Append(hist, last') /\ UNCHANGED done
CoverSpec == GenInit /\ [][CoverNext]_genvars
DumpLeaf == (nops = MaxOps) => PrintT(ToJson(<<"BEH", hist>>))
=============================================================================
