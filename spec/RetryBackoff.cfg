SPECIFICATION BfSpec
CONSTANTS
  ExpInit = 100
  ExpEvery = 2
  CapAt = 3000
  LinM = 30
  LinB = 100
  FloorAt = 250
  MaxN = 16
  MaxDur = 10000
INVARIANTS BfLaws BfDump
CHECK_DEADLOCK FALSE
