------------------------------ MODULE HubsHist ------------------------------
(***************************************************************************)
(* Abstract HISTORY specification of the rendezvous primitives and of a    *)
(* swarm's Close/cancel behaviour (DESIGN Appendix B, "Rendezvous" and     *)
(* "Bounded queue"), used for the verdicts of C12 and C13.                 *)
(*                                                                         *)
(* A history is a sequence of events                                       *)
(*   Call(op,kind,msg,digest)  logged BEFORE the operation is invoked      *)
(*   Ret(op,res,n)             logged AFTER it has returned                *)
(*   CbBegin/CbEnd(op,msg,digest,n)  first / last statement of a callback  *)
(*   Cancel(op)                logged BEFORE the op's context is cancelled *)
(*   Timeout(op,after)         the op had not returned 1 s after Close     *)
(*                             returned / after its Cancel                 *)
(*   Leak(fn), Panic(op), Quiesce                                          *)
(* ordered by one global atomic counter.  Only "Ret X before Call Y"       *)
(* (X completed before Y began) and "logged before" = "happened before the *)
(* later event was logged" are inferred from the order (DESIGN 4.3).       *)
(*                                                                         *)
(* All state is set by observable events, so checking a history is a       *)
(* linear fold: HNext is total, HViol gives the property operators that    *)
(* the event falsifies, HDrift what the specification cannot explain but   *)
(* no listed property forbids.                                             *)
(*                                                                         *)
(* Levels: "tellhub" | "askhub" (swarmutil hubs driven directly; a deliver *)
(* op is TellHub.Deliver / AskHub.Deliver: strong rules), "queue"          *)
(* (swarmutil.Queue; deliver = Queue.Deliver returning a boolean at once), *)
(* "stack" (a whole swarm; deliveries are a peer's Tell/Ask whose return   *)
(* says nothing about the callback: weak rules), "dgram" (a stack over a   *)
(* lossless datagram transport: as "stack", plus Settle and ExactlyOnce).  *)
(***************************************************************************)
EXTENDS Naturals, Sequences, FiniteSets, TLC

RecvKinds == {"recv", "serve"}
StrongDeliver == {"deliver", "qdeliver"}
WeakDeliver == {"tell", "ask"}
DeliverKinds == StrongDeliver \cup WeakDeliver
CloseKinds == {"close", "close2"}      \* close2 = a repeated Close
ErrRes == {"closed", "ctx", "other", "false"}
OkRes == {"ok", "true"}

HInit(lvl, cap) ==
  [lvl |-> lvl, cap |-> cap, ops |-> <<>>, msgs |-> <<>>,
   closeCalled |-> FALSE, closeRet |-> FALSE, purged |-> 0, noisy |-> FALSE]

Known(h, op) == op \in DOMAIN h.ops
KnownM(h, m) == m \in DOMAIN h.msgs
Upd(f, k, v) == [x \in (DOMAIN f) \cup {k} |-> IF x = k THEN v ELSE f[x]]

\* when was the op called relative to Close?
Phase(o) == IF o.late THEN "late" ELSE IF o.pre THEN "blocked" ELSE "racing"
At(name, o) ==
  CASE name = "CloseEnds" -> (CASE Phase(o) = "late" -> "CloseEnds@late"
                                [] Phase(o) = "blocked" -> "CloseEnds@blocked"
                                [] OTHER -> "CloseEnds@racing")
    [] name = "ErrAfterClose" -> (CASE Phase(o) = "late" -> "ErrAfterClose@late"
                                    [] Phase(o) = "blocked" -> "ErrAfterClose@blocked"
                                    [] OTHER -> "ErrAfterClose@racing")
    [] OTHER -> name

\* messages accepted by the queue whose callback has not ended: they occupy a buffer
Occupying(h) == {m \in DOMAIN h.msgs : h.msgs[m].acc /\ ~h.msgs[m].ended}

----------------------------------------------------------------------------
(* next history state: total *)

HNext(h, ev) ==
  CASE ev.ev = "Call" ->
         IF Known(h, ev.op) THEN h
         ELSE LET o == [kind |-> ev.kind, msg |-> ev.msg, late |-> h.closeRet, pre |-> ~h.closeCalled,
                        cancelled |-> FALSE, cb |-> 0, cbdone |-> FALSE, ret |-> FALSE,
                        snap |-> IF ev.kind = "qdeliver" THEN Occupying(h) ELSE {}]
                  h1 == [h EXCEPT !.ops = Upd(h.ops, ev.op, o)]
                  h2 == IF ev.kind \in DeliverKinds /\ ~KnownM(h, ev.msg)
                        THEN [h1 EXCEPT !.msgs = Upd(h.msgs, ev.msg,
                                 [st |-> "none", ncb |-> 0, errRet |-> FALSE, late |-> h.closeRet,
                                  digest |-> ev.digest, strong |-> ev.kind \in StrongDeliver,
                                  acc |-> FALSE, ended |-> FALSE, n |-> 0])]
                        ELSE h1
              IN CASE ev.kind \in CloseKinds -> [h2 EXCEPT !.closeCalled = TRUE, !.noisy = TRUE]
                   [] ev.kind = "purge" -> [h2 EXCEPT !.noisy = TRUE]
                   [] OTHER -> h2
    [] ev.ev = "CbBegin" ->
         LET h1 == IF KnownM(h, ev.msg)
                   THEN [h EXCEPT !.msgs[ev.msg].st = "inCb", !.msgs[ev.msg].ncb = @ + 1]
                   ELSE h
         IN IF Known(h, ev.op) THEN [h1 EXCEPT !.ops[ev.op].cb = ev.msg, !.ops[ev.op].cbdone = FALSE] ELSE h1
    [] ev.ev = "CbEnd" ->
         LET h1 == IF KnownM(h, ev.msg)
                   THEN [h EXCEPT !.msgs[ev.msg].st = "done", !.msgs[ev.msg].ended = TRUE, !.msgs[ev.msg].n = ev.n]
                   ELSE h
         IN IF Known(h, ev.op) THEN [h1 EXCEPT !.ops[ev.op].cbdone = TRUE] ELSE h1
    [] ev.ev = "Ret" ->
         IF ~Known(h, ev.op) THEN h
         ELSE LET o == h.ops[ev.op]
                  h1 == [h EXCEPT !.ops[ev.op].ret = TRUE]
              IN CASE o.kind \in DeliverKinds /\ KnownM(h, o.msg) ->
                        IF ev.res \in ErrRes THEN [h1 EXCEPT !.msgs[o.msg].errRet = TRUE]
                        ELSE [h1 EXCEPT !.msgs[o.msg].acc = TRUE]
                   [] o.kind \in CloseKinds -> [h1 EXCEPT !.closeRet = TRUE]
                   [] o.kind = "purge" -> [h1 EXCEPT !.purged = @ + ev.n]
                   [] OTHER -> h1
    [] ev.ev = "Cancel" ->
         IF Known(h, ev.op) THEN [h EXCEPT !.ops[ev.op].cancelled = TRUE] ELSE h
    [] OTHER -> h        \* Timeout, Leak, Panic, Quiesce: no state

----------------------------------------------------------------------------
(* property operators falsified by the event (names as in Hubs.tla / DESIGN 5 C12, C13) *)

HViol(h, ev) ==
  CASE ev.ev = "CbBegin" ->
         IF ~KnownM(h, ev.msg)
         THEN \* msg = -2: the bytes are the pattern an earlier callback wrote over ITS message before returning:
              \* the buffer was handed to a callback again (p2p.Receiver: never accessed after the call to fn)
              IF ev.msg = 0 - 2 THEN {"NoStaleContent"}
              ELSE (IF h.lvl \notin {"stack", "dgram"} THEN {"OnlyDelivered"} ELSE {})
         ELSE LET M == h.msgs[ev.msg] IN
              \* exactly one receiver callback per message, never two
              (IF (M.strong \/ h.lvl = "dgram") /\ M.ncb >= 1 THEN {"ExactlyOnce"} ELSE {})
              \* the delivery already returned an error: then no callback may ever see the message
              \cup (IF M.strong /\ M.errRet THEN {"ErrOnlyIfUnseen"} ELSE {})
              \* no callback for a delivery CALLED after Close RETURNED
              \cup (IF M.late THEN {"NoLateCallback"} ELSE {})
              \* the callback sees what the deliverer wrote
              \cup (IF M.strong /\ ev.digest # M.digest THEN {"NoStaleContent"} ELSE {})
    [] ev.ev = "CbEnd" ->
         IF KnownM(h, ev.msg) /\ h.msgs[ev.msg].strong /\ ev.digest # h.msgs[ev.msg].digest
         THEN {"NoStaleContent"} ELSE {}
    [] ev.ev = "Ret" ->
         IF ~Known(h, ev.op) THEN {}
         ELSE LET o == h.ops[ev.op]
                  ranCb == o.cb # 0 /\ o.cbdone
              IN
              CASE o.kind \in RecvKinds ->
                     (CASE ev.res = "ok" ->
                             \* a call made after Close returned must fail; success needs a finished callback
                             IF o.late THEN {"ErrAfterClose@late"}
                             ELSE IF ranCb THEN {}
                             ELSE IF h.closeCalled THEN {At("ErrAfterClose", o)}
                             ELSE {"RetTruthful"}
                        [] ev.res = "ctx" ->
                             IF h.lvl = "stack" THEN {}
                             ELSE (IF ~o.cancelled THEN {"RetTruthful"} ELSE {})
                                  \cup (IF o.cb # 0 THEN {"RetTruthful"} ELSE {})
                        [] OTHER ->
                             IF h.lvl # "stack" /\ o.cb # 0 THEN {"RetTruthful"} ELSE {})
                [] o.kind = "deliver" /\ KnownM(h, o.msg) ->
                     LET M == h.msgs[o.msg] IN
                     (CASE ev.res = "ok" ->
                             \* success only after the chosen callback has finished with the message
                             (IF M.st # "done" THEN {"OkOnlyAfterCallback"} ELSE {})
                             \cup (IF o.late THEN {"ErrAfterClose@late"} ELSE {})
                        [] OTHER ->
                             \* an error only if no callback ever saw it
                             (IF M.ncb > 0 THEN {"ErrOnlyIfUnseen"} ELSE {})
                             \cup (IF ev.res = "ctx" /\ ~o.cancelled THEN {"RetTruthful"} ELSE {}))
                [] o.kind = "qdeliver" /\ KnownM(h, o.msg) ->
                     LET M == h.msgs[o.msg] IN
                     (CASE ev.res = "true" ->
                             (IF o.late THEN {"ErrAfterClose@late"} ELSE {})
                             \* cap messages accepted before this call still occupied their buffers when it returned
                             \cup (IF ~h.noisy /\ Cardinality({m \in o.snap : ~h.msgs[m].ended}) >= h.cap
                                   THEN {"QueueBounded"} ELSE {})
                        [] OTHER ->
                             IF M.ncb > 0 THEN {"ErrOnlyIfUnseen"} ELSE {})
                [] OTHER -> {}
    \* promptness: a Timeout event is never explainable
    [] ev.ev = "Timeout" ->
         IF ~Known(h, ev.op) THEN {"CloseEnds@racing"}
         ELSE LET o == h.ops[ev.op] IN
              CASE o.kind = "close" -> {"CloseReturns"}
                [] o.kind = "close2" -> {"CloseIdempotent"}
                [] ev.after = "cancel" -> {"CancelPrompt"}
                [] OTHER -> {At("CloseEnds", o)}
    [] ev.ev = "Leak" -> {"AllReleased"}
    \* Close of a wrapping stack returned although an inner swarm it owns was never closed
    [] ev.ev = "InnerOpen" -> {"InnerClosed"}
    [] ev.ev = "Panic" -> IF Known(h, ev.op) /\ h.ops[ev.op].kind = "close2" THEN {"CloseIdempotent"} ELSE {"NoPanic"}
    \* queue at rest, never closed: every accepted message was seen by a callback or purged
    \* level "dgram" (a swarm over a lossless datagram transport, receive / cancel / Tell race): once the
    \* traffic has settled with a healthy receiver present, every datagram whose Tell returned success was
    \* handed to a callback - by the healthy receiver or by the cancelled one
    [] ev.ev = "Settle" ->
         IF h.lvl = "dgram" /\ ~h.closeCalled
            /\ \E m \in DOMAIN h.msgs : h.msgs[m].acc /\ h.msgs[m].ncb = 0
         THEN {"NotLostByCancel"} ELSE {}
    [] ev.ev = "Quiesce" ->
         IF h.lvl = "queue" /\ ~h.closeCalled
            /\ Cardinality({m \in DOMAIN h.msgs : h.msgs[m].acc /\ h.msgs[m].ncb = 0}) # h.purged
         THEN {"NotLostByCancel"} ELSE {}
    [] OTHER -> {}

----------------------------------------------------------------------------
(* steps the abstract specification cannot explain, but that falsify no listed property *)

HDrift(h, ev) ==
  CASE ev.ev = "Call" -> IF Known(h, ev.op) THEN {"op-called-twice"} ELSE {}
    [] ev.ev = "CbBegin" ->
         (IF ~Known(h, ev.op) \/ (Known(h, ev.op) /\ (h.ops[ev.op].ret \/ h.ops[ev.op].cb # 0))
          THEN {"callback-outside-a-single-receive"} ELSE {})
         \cup (IF ~KnownM(h, ev.msg) /\ h.lvl = "stack" THEN {"unknown-message"} ELSE {})
         \cup (IF KnownM(h, ev.msg) /\ ~h.msgs[ev.msg].strong /\ h.msgs[ev.msg].ncb >= 1 THEN {"duplicate-delivery"} ELSE {})
         \cup (IF KnownM(h, ev.msg) /\ ~h.msgs[ev.msg].strong /\ ev.digest # h.msgs[ev.msg].digest THEN {"payload-changed"} ELSE {})
    [] ev.ev = "CbEnd" ->
         IF ~Known(h, ev.op) \/ ~KnownM(h, ev.msg) \/ (Known(h, ev.op) /\ h.ops[ev.op].cb # ev.msg)
         THEN {"callback-end-without-begin"} ELSE {}
    [] ev.ev = "Ret" ->
         IF ~Known(h, ev.op) THEN {"return-of-unknown-op"}
         ELSE LET o == h.ops[ev.op] IN
              (IF o.ret THEN {"op-returned-twice"} ELSE {})
              \cup (IF h.lvl # "stack" /\ ev.res = "closed" /\ ~h.closeCalled THEN {"closed-error-without-close"} ELSE {})
              \cup (IF h.lvl = "stack" /\ o.kind \in RecvKinds /\ ev.res = "ctx" /\ ~o.cancelled THEN {"ctx-error-without-cancel"} ELSE {})
              \* AskHub.Deliver returns its own handler's n (C11)
              \cup (IF h.lvl = "askhub" /\ o.kind = "deliver" /\ ev.res = "ok" /\ KnownM(h, o.msg)
                       /\ h.msgs[o.msg].st = "done" /\ h.msgs[o.msg].n # ev.n THEN {"answer-not-the-handlers"} ELSE {})
              \* a swarm-level Ask reported success although no handler finished (C11)
              \cup (IF o.kind = "ask" /\ ev.res = "ok" /\ KnownM(h, o.msg) /\ h.msgs[o.msg].st # "done"
                    THEN {"ask-ok-without-handler"} ELSE {})
    [] ev.ev \in {"Cancel"} -> IF ~Known(h, ev.op) THEN {"cancel-of-unknown-op"} ELSE {}
    [] OTHER -> {}
=============================================================================
