----------------------------- MODULE SwarmLedger -----------------------------
(***************************************************************************)
(* The abstract Tell/Receive ledger every swarm (and composition of        *)
(* swarms) must refine (C01): a delivered payload is byte-identical to a   *)
(* payload some node passed to Tell for that receiver, attributed to that  *)
(* sender; the sender may overwrite its buffer as soon as Tell returns;    *)
(* the receiver's buffer is stable while its callback runs.                *)
(*                                                                         *)
(* The model is a lossy, duplicating, reordering transport with COPY       *)
(* semantics (Tell copies, Receive hands out a private buffer).  Constant  *)
(* Sharing = TRUE models a layer that keeps a reference to the sender's    *)
(* buffer (or recycles a receive buffer early): TLC then finds NoMix /     *)
(* BufferStable violated - the anti-vacuity configuration.                 *)
(* The module is also the case generator for the real-stack driver         *)
(* (harness/cmd/ledger): Kinds x senders x receivers x size classes.       *)
(***************************************************************************)
EXTENDS Naturals, FiniteSets, Sequences, TLC, Json

CONSTANTS Senders, MaxMsgs, Sharing,
          Kinds, SenderCounts, ReceiverCounts, SizeClasses     \* case space for the driver

Junk == 0
VARIABLES buf,      \* [Senders -> payload id currently in the sender's buffer]
          next,     \* [Senders -> ordinal of the next message]
          told,     \* set of <<sender, payload id>> passed to Tell
          net,      \* set of in-flight messages: [from, ref] where ref is a payload id or a pointer to a sender
          cb,       \* the receiver's running callback: [from, seen] or none
          delivered \* set of <<claimed sender, payload id seen at callback entry>>
vars == <<buf, next, told, net, cb, delivered>>
None == [from |-> Junk, seen |-> Junk, ref |-> Junk]

Pid(s, k) == s * 100 + k
Init == /\ buf = [s \in Senders |-> Junk] /\ next = [s \in Senders |-> 1]
        /\ told = {} /\ net = {} /\ cb = None /\ delivered = {}

\* the application fills its buffer and calls Tell; the layer copies (or, if Sharing, keeps a pointer)
Tell(s) == /\ next[s] <= MaxMsgs
           /\ LET p == Pid(s, next[s]) IN
              /\ buf' = [buf EXCEPT ![s] = p]
              /\ told' = told \cup {<<s, p>>}
              /\ net' = net \cup {[from |-> s, ref |-> IF Sharing THEN <<"ptr", s>> ELSE <<"copy", p>>]}
           /\ next' = [next EXCEPT ![s] = @ + 1]
           /\ UNCHANGED <<cb, delivered>>
\* Tell has returned: the application overwrites its buffer
Scribble(s) == buf[s] # Junk /\ buf' = [buf EXCEPT ![s] = Junk] /\ UNCHANGED <<next, told, net, cb, delivered>>
Deref(m) == IF m.ref[1] = "copy" THEN m.ref[2] ELSE buf[m.ref[2]]
\* a receiver callback starts with some in-flight message (loss = never chosen, duplication = chosen twice)
CbBegin == /\ cb = None /\ \E m \in net :
                /\ cb' = [from |-> m.from, seen |-> Deref(m), ref |-> m.ref]
                /\ delivered' = delivered \cup {<<m.from, Deref(m)>>}
           /\ UNCHANGED <<buf, next, told, net>>
CbEnd == cb # None /\ cb' = None /\ UNCHANGED <<buf, next, told, net, delivered>>
Next == (\E s \in Senders : Tell(s) \/ Scribble(s)) \/ CbBegin \/ CbEnd
Spec == Init /\ [][Next]_vars

\* C01
NoMix == delivered \subseteq told
BufferStable == cb # None => (IF cb.ref[1] = "copy" THEN cb.seen = cb.ref[2] ELSE cb.seen = buf[cb.ref[2]])

\* case generator for the driver (printed once, from the initial state)
Cases == {[kind |-> k, senders |-> s, receivers |-> r] : k \in Kinds, s \in SenderCounts, r \in ReceiverCounts}
DumpCases == (told = {} /\ net = {}) => PrintT(ToJson(<<"CASES", Cases, SizeClasses>>))
=============================================================================
