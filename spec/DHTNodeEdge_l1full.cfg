SPECIFICATION CoverSpec
CONSTANTS
  Locus <- L1Locus
  Keys <- L1Keys
  Queries <- L1Queries
  Vals <- NNone
  Times <- NNone
  TouchTimes <- NNone
  ExpTimes <- NNone
  Exps <- NNone
  Configs <- NNone
  MaxOps = 1
  LocalID <- NLocal
  PeerIDs <- L1Peers
  DataKeys <- L1Data
  Infos = {1}
  DVals = {1}
  PutTTLs = {0}
  HPutTTLs = {1}
  PeerTTL = 1
  MaxDataTTL = 2
  MaxNow = 2
  NodeConfigs <- L1FullConfigs
  Targets <- L1Targets
  Limits <- L1Limits
  Orig <- NNone
VIEW nview
INVARIANTS NodeTypeOK CachesOK GhostAgrees ObsLawsHold
PROPERTIES NodeStepLawsProp
ACTION_CONSTRAINT EdgeDump
CHECK_DEADLOCK FALSE
