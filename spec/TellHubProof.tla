---------------------------- MODULE TellHubProof ----------------------------
(***************************************************************************)
(* G03b, TLAPS: IndInv of TellHubInd is an inductive invariant of Spec for  *)
(* ARBITRARY sets D, R, C (any number of deliver, receive and close ops;    *)
(* the sets need not even be finite) and any NoD \notin D, and it implies   *)
(* Safety.  One proof step per action (and per conjunct of IndInv).          *)
(***************************************************************************)
EXTENDS TellHubInd, TLAPS

USE NoDNotInD

LEMMA InitInv == Init => IndInv
  BY DEF Init, IndInv, TypeOK, HubInv, RInv, Inj, DInv, RPcs, DPcs, CPcs

LEMMA InvSafety == IndInv => Safety
  <1> SUFFICES ASSUME IndInv PROVE Safety OBVIOUS
  <1> USE DEF IndInv, TypeOK, HubInv, RInv, Inj, DInv, RPcs, DPcs, CPcs,
              DReturned, RReturned, DOk, DErr, ROk
  <1>1. ExactlyOnce
    <2> SUFFICES ASSUME NEW d \in D
                 PROVE  /\ cbn[d] <= 1
                        /\ \A r1, r2 \in R : (rgot[r1] = d /\ rgot[r2] = d) => r1 = r2
      BY DEF ExactlyOnce
    <2>1. \A r1, r2 \in R : (rgot[r1] = d /\ rgot[r2] = d) => r1 = r2 OBVIOUS
    <2>2. CASE \E r \in R : rgot[r] = d
      <3> PICK r \in R : rgot[r] = d BY <2>2
      <3> rgot[r] # NoD /\ rpc[r] \in {"cb", "incb", "ret"} OBVIOUS
      <3> cbn[d] = 0 \/ cbn[d] = 1 OBVIOUS
      <3> QED BY <2>1
    <2>3. CASE ~(\E r \in R : rgot[r] = d)
      <3> cbn[d] = 0 BY <2>3
      <3> QED BY <2>1
    <2> QED BY <2>2, <2>3
  <1>2. OkOnlyAfterCallback BY DEF OkOnlyAfterCallback
  <1>3. ErrOnlyIfUnseen BY DEF ErrOnlyIfUnseen
  <1>4. NotLostByCancel
    <2>1. \A d \in D : dpc[d] = "wait" => (cbDone[d] \/ \E r \in R : rgot[r] = d /\ rpc[r] \in {"cb", "incb"})
      <3> SUFFICES ASSUME NEW d \in D, dpc[d] = "wait"
                   PROVE  cbDone[d] \/ \E r \in R : rgot[r] = d /\ rpc[r] \in {"cb", "incb"}
        OBVIOUS
      <3> PICK r \in R : rgot[r] = d OBVIOUS
      <3> rgot[r] # NoD /\ rpc[r] \in {"cb", "incb", "ret"} OBVIOUS
      <3> QED OBVIOUS
    <2>2. \A r \in R : (rgot[r] # NoD /\ RReturned(r)) => rres[r] = "ok" OBVIOUS
    <2> QED BY <2>1, <2>2 DEF NotLostByCancel
  <1>5. RetTruthful BY DEF RetTruthful
  <1>6. ErrAfterClose BY DEF ErrAfterClose
  <1>7. NoLateCallback BY DEF NoLateCallback
  <1> QED BY <1>1, <1>2, <1>3, <1>4, <1>5, <1>6, <1>7 DEF Safety

LEMMA NextInv == IndInv /\ [Next]_vars => IndInv'
  <1> SUFFICES ASSUME IndInv, [Next]_vars PROVE IndInv' OBVIOUS
  <1> USE DEF IndInv, TypeOK, HubInv, RInv, Inj, DInv, RPcs, DPcs, CPcs,
              hubvars, rvars, dvars, ErrVal, RRet, DRet, Meet, ParkedD, ParkedR
  <1>1. ASSUME NEW r \in R, RCall(r) PROVE IndInv'
    <2> USE <1>1 DEF RCall
    <2>1. TypeOK' OBVIOUS
    <2>2. HubInv' OBVIOUS
    <2>3. RInv' OBVIOUS
    <2>4. Inj' OBVIOUS
    <2>5. DInv' OBVIOUS
    <2> QED BY <2>1, <2>2, <2>3, <2>4, <2>5
  <1>2. ASSUME NEW r \in R, CancelR(r) PROVE IndInv'
    <2> USE <1>2 DEF CancelR
    <2>1. TypeOK' OBVIOUS
    <2>2. HubInv' OBVIOUS
    <2>3. RInv' OBVIOUS
    <2>4. Inj' OBVIOUS
    <2>5. DInv' OBVIOUS
    <2> QED BY <2>1, <2>2, <2>3, <2>4, <2>5
  <1>3. ASSUME NEW r \in R, RChk(r) PROVE IndInv'
    <2> USE <1>3 DEF RChk
    <2>1. TypeOK' OBVIOUS
    <2>2. HubInv' OBVIOUS
    <2>3. RInv' OBVIOUS
    <2>4. Inj' OBVIOUS
    <2>5. DInv' OBVIOUS
    <2> QED BY <2>1, <2>2, <2>3, <2>4, <2>5
  <1>4. ASSUME NEW r \in R, RSel1(r) PROVE IndInv'
    <2> USE <1>4
    <2> rpc[r] = "sel1" /\ UNCHANGED <<hubvars, rctx, rlate, dctx, dres, dlate, cbn, cbDone, cpc>>
        BY DEF RSel1
    <2>a. CASE closed /\ RRet(r, ErrVal(cerr)) /\ UNCHANGED <<rgot, dpc>>
      <3> USE <2>a
      <3>1. TypeOK' OBVIOUS
      <3>2. HubInv' OBVIOUS
      <3>3. RInv' OBVIOUS
      <3>4. Inj' OBVIOUS
      <3>5. DInv' OBVIOUS
      <3> QED BY <3>1, <3>2, <3>3, <3>4, <3>5
    <2>c. CASE \E d \in ParkedD : Meet(r, d) /\ UNCHANGED rres
      <3> PICK d \in ParkedD : Meet(r, d) /\ UNCHANGED rres BY <2>c
      <3> d \in D /\ dpc[d] = "park" OBVIOUS
      <3>1. TypeOK' OBVIOUS
      <3>2. HubInv' OBVIOUS
      <3>3. RInv' OBVIOUS
      <3>4. Inj' OBVIOUS
      <3>5. DInv' OBVIOUS
      <3> QED BY <3>1, <3>2, <3>3, <3>4, <3>5
    <2>d. CASE ~closed /\ ParkedD = {} /\ rpc' = [rpc EXCEPT ![r] = "sel2"] /\ UNCHANGED <<rgot, rres, dpc>>
      <3> USE <2>d
      <3>1. TypeOK' OBVIOUS
      <3>2. HubInv' OBVIOUS
      <3>3. RInv' OBVIOUS
      <3>4. Inj' OBVIOUS
      <3>5. DInv' OBVIOUS
      <3> QED BY <3>1, <3>2, <3>3, <3>4, <3>5
    <2> QED BY <2>a, <2>c, <2>d DEF RSel1
  <1>5. ASSUME NEW r \in R, RSel2(r) PROVE IndInv'
    <2> USE <1>5
    <2> rpc[r] = "sel2" /\ UNCHANGED <<hubvars, rctx, rlate, dctx, dres, dlate, cbn, cbDone, cpc>>
        BY DEF RSel2
    <2>a. CASE rctx[r] /\ RRet(r, "ctx") /\ UNCHANGED <<rgot, dpc>> BY <2>a
    <2>b. CASE closed /\ RRet(r, ErrVal(cerr)) /\ UNCHANGED <<rgot, dpc>> BY <2>b
    <2>c. CASE \E d \in ParkedD : Meet(r, d) /\ UNCHANGED rres
      <3> PICK d \in ParkedD : Meet(r, d) /\ UNCHANGED rres BY <2>c
      <3> d \in D /\ dpc[d] = "park" OBVIOUS
      <3>1. TypeOK' OBVIOUS
      <3>2. HubInv' OBVIOUS
      <3>3. RInv' OBVIOUS
      <3>4. Inj' OBVIOUS
      <3>5. DInv' OBVIOUS
      <3> QED BY <3>1, <3>2, <3>3, <3>4, <3>5
    <2>d. CASE /\ ~rctx[r] /\ ~closed /\ ParkedD = {}
               /\ rpc' = [rpc EXCEPT ![r] = "park"] /\ UNCHANGED <<rgot, rres, dpc>>
      BY <2>d
    <2> QED BY <2>a, <2>b, <2>c, <2>d DEF RSel2
  <1>6. ASSUME NEW r \in R, RCbBegin(r) PROVE IndInv'
    <2> USE <1>6 DEF RCbBegin
    <2>1. TypeOK' OBVIOUS
    <2>2. HubInv' OBVIOUS
    <2>3. RInv' OBVIOUS
    <2>4. Inj' OBVIOUS
    <2>5. DInv' OBVIOUS
    <2> QED BY <2>1, <2>2, <2>3, <2>4, <2>5
  <1>7. ASSUME NEW r \in R, RCbEnd(r) PROVE IndInv'
    <2> USE <1>7 DEF RCbEnd
    <2>1. TypeOK' OBVIOUS
    <2>2. HubInv' OBVIOUS
    <2>3. RInv' OBVIOUS
    <2>4. Inj' OBVIOUS
    <2>5. DInv' OBVIOUS
    <2> QED BY <2>1, <2>2, <2>3, <2>4, <2>5
  <1>8. ASSUME NEW d \in D, DCall(d) PROVE IndInv'
    <2> USE <1>8 DEF DCall
    <2>1. TypeOK' OBVIOUS
    <2>2. HubInv' OBVIOUS
    <2>3. RInv' OBVIOUS
    <2>4. Inj' OBVIOUS
    <2>5. DInv' OBVIOUS
    <2> QED BY <2>1, <2>2, <2>3, <2>4, <2>5
  <1>9. ASSUME NEW d \in D, CancelD(d) PROVE IndInv'
    <2> USE <1>9 DEF CancelD
    <2>1. TypeOK' OBVIOUS
    <2>2. HubInv' OBVIOUS
    <2>3. RInv' OBVIOUS
    <2>4. Inj' OBVIOUS
    <2>5. DInv' OBVIOUS
    <2> QED BY <2>1, <2>2, <2>3, <2>4, <2>5
  <1>10. ASSUME NEW d \in D, DSel(d) PROVE IndInv'
    <2> USE <1>10
    <2> dpc[d] = "sel" /\ UNCHANGED <<hubvars, rctx, rres, rlate, dctx, dlate, cbn, cbDone, cpc>>
        BY DEF DSel
    <2>a. CASE closed /\ DRet(d, ErrVal(cerr)) /\ UNCHANGED <<rpc, rgot>> BY <2>a
    <2>b. CASE dctx[d] /\ DRet(d, "ctx") /\ UNCHANGED <<rpc, rgot>> BY <2>b
    <2>c. CASE \E r \in ParkedR : Meet(r, d) /\ UNCHANGED dres
      <3> PICK r \in ParkedR : Meet(r, d) /\ UNCHANGED dres BY <2>c
      <3> r \in R /\ rpc[r] = "park" OBVIOUS
      <3>1. TypeOK' OBVIOUS
      <3>2. HubInv' OBVIOUS
      <3>3. RInv' OBVIOUS
      <3>4. Inj' OBVIOUS
      <3>5. DInv' OBVIOUS
      <3> QED BY <3>1, <3>2, <3>3, <3>4, <3>5
    <2>d. CASE /\ ~closed /\ ~dctx[d] /\ ParkedR = {}
               /\ dpc' = [dpc EXCEPT ![d] = "park"] /\ UNCHANGED <<dres, rpc, rgot>>
      BY <2>d
    <2> QED BY <2>a, <2>b, <2>c, <2>d DEF DSel
  <1>11. ASSUME NEW d \in D, DWait(d) PROVE IndInv'
    <2> USE <1>11 DEF DWait
    <2>1. TypeOK' OBVIOUS
    <2>2. HubInv' OBVIOUS
    <2>3. RInv' OBVIOUS
    <2>4. Inj' OBVIOUS
    <2>5. DInv' OBVIOUS
    <2> QED BY <2>1, <2>2, <2>3, <2>4, <2>5
  <1>12. ASSUME NEW c \in C, CCall(c) PROVE IndInv'
    <2> USE <1>12 DEF CCall
    <2>1. TypeOK' OBVIOUS
    <2>2. HubInv' OBVIOUS
    <2>3. RInv' OBVIOUS
    <2>4. Inj' OBVIOUS
    <2>5. DInv' OBVIOUS
    <2> QED BY <2>1, <2>2, <2>3, <2>4, <2>5
  <1>13. ASSUME NEW c \in C, COnce(c) PROVE IndInv'
    <2> USE <1>13 DEF COnce
    <2>1. TypeOK' OBVIOUS
    <2>2. HubInv' OBVIOUS
    <2>3. RInv' OBVIOUS
    <2>4. Inj' OBVIOUS
    <2>5. DInv' OBVIOUS
    <2> QED BY <2>1, <2>2, <2>3, <2>4, <2>5
  <1>14. ASSUME UNCHANGED vars PROVE IndInv' BY <1>14 DEF vars
  <1> QED BY <1>1, <1>2, <1>3, <1>4, <1>5, <1>6, <1>7, <1>8, <1>9, <1>10, <1>11, <1>12, <1>13, <1>14 DEF Next

THEOREM Invariance == Spec => []IndInv
  BY InitInv, NextInv, PTL DEF Spec

THEOREM SafetyHolds == Spec => []Safety
  BY Invariance, InvSafety, PTL
=============================================================================
