SPECIFICATION Spec
CONSTANTS
  Rich = FALSE
  Fixed = FALSE
INVARIANTS NoModelPanic
CHECK_DEADLOCK FALSE
