SPECIFICATION Spec
CONSTANTS
  InnerMtus <- MtuSet
  Bases <- BaseV
  TopLayers <- AllLayers
  LowLayers <- FewLayers
  Depth = 2
  SizeCap = 300000
INVARIANTS Dump
CHECK_DEADLOCK FALSE
