SPECIFICATION TraceSpec
CONSTANTS
  Locus <- TLocusSmall
  Keys <- TKeys
  Queries <- TQueries
  Vals <- TNone
  Times <- TNone
  TouchTimes <- TNone
  ExpTimes <- TNone
  Exps <- TNone
  Configs <- TNone
  MaxOps = 1000000000
CONSTRAINT Report
POSTCONDITION AllConsumed
CHECK_DEADLOCK FALSE
