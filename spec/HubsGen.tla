------------------------------ MODULE HubsGen ------------------------------
(***************************************************************************)
(* Phase-script generator for the close matrix of C12/C13.                 *)
(*                                                                         *)
(* Every behaviour of GenSpec is a behaviour of Hubs!Spec (the environment *)
(* actions are only restricted, never extended): the goal variable picks   *)
(* how many receive ops are parked when Close is called (b) and in which   *)
(* phase of an in-flight delivery Close is issued                          *)
(*   idle   no delivery at all              pre   called, not yet met      *)
(*   cb     inside the receiver's callback  post  delivery completed       *)
(*   cancel the parked receivers are cancelled first, Close comes last     *)
(*   backlog   k in {W, 2W} deliveries are in flight (called, not met; with  *)
(*             no receiver they are parked) - W stands for the number of     *)
(*             worker goroutines a stack uses to deliver into its hub        *)
(*   cbbacklog one delivery is inside the callback, k in {1, W, 2W} more are *)
(*             in flight                                                     *)
(* and after Close returned a late receive, a late delivery and a second   *)
(* Close follow.  TLC runs it in simulation mode; Finish prints the whole  *)
(* action sequence (history variable) as JSON.  harness/cmd/hubsrec turns  *)
(* the environment-visible actions of a script into calls on a real swarm  *)
(* stack (Receive/ServeAsk, a peer's Tell/Ask, callback gates, ctx cancel, *)
(* Close), so the set of schedules exercised on the code is a set of       *)
(* reachable action sequences of the model.                                *)
(***************************************************************************)
EXTENDS Hubs, Json

CONSTANTS Bs, Phases,      \* e.g. {0, 1, 4}, {"idle", "pre", "cb", "post", "cancel"}
          W,               \* model value of the stack's worker count (the harness substitutes runtime.GOMAXPROCS(0))
          CFirst, CSecond, \* the two close ops
          RLate, DLate     \* the receive / deliver op called after Close returned

VARIABLES hist, goal, done
gvars == <<vars, hist, goal, done>>

PreR == R \ {RLate}
PreD == D \ {DLate}
StartedR == {r \in PreR : rpc[r] # "idle"}
NParked == Cardinality(ParkedR)
Extra == IF goal.ph \in {"cb", "post", "cbbacklog"} THEN 1 ELSE 0    \* the receiver that takes the delivery
\* deliveries called before Close: the one that is met (cb, post, cbbacklog) plus the k that stay in flight
NeedD == CASE goal.ph \in {"pre", "backlog"} -> goal.k
           [] goal.ph \in {"cb", "post"} -> 1
           [] goal.ph = "cbbacklog" -> 1 + goal.k
           [] OTHER -> 0
InFlight == {d \in PreD : dpc[d] \in {"sel", "park"}}     \* called, not met: Hubs!ParkedD once they have parked
InCb == \E r \in PreR : rpc[r] = "incb"
\* goals: every base phase with k = 0 (pre: k = 1), and the backlog phases
Goals == {[b |-> b, ph |-> ph, k |-> IF ph = "pre" THEN 1 ELSE 0] : b \in Bs, ph \in Phases}
         \cup {[b |-> b, ph |-> "backlog", k |-> k] : b \in Bs, k \in {W, 2 * W}}
         \cup {[b |-> 0, ph |-> "cbbacklog", k |-> k] : k \in {1, W, 2 * W}}
CloseCalled == cpc[CFirst] # "idle"
CloseReturned == cpc[CFirst] = "ret"

GenInit == /\ Init
           /\ hist = <<>>
           /\ done = FALSE
           /\ goal \in Goals

GoalReached ==
  CASE goal.ph = "idle" -> Cardinality(StartedR) = goal.b /\ NParked = goal.b
    [] goal.ph \in {"pre", "backlog"} ->
           /\ NParked = goal.b /\ Cardinality(InFlight) = goal.k
           /\ (ParkedR = {} => \A d \in InFlight : dpc[d] = "park")
    [] goal.ph = "cbbacklog" ->
           /\ NParked = goal.b /\ InCb /\ Cardinality(InFlight) = goal.k
           /\ (ParkedR = {} => \A d \in InFlight : dpc[d] = "park")
    [] goal.ph = "cb" -> NParked = goal.b /\ \E r \in PreR : rpc[r] = "incb"
    [] goal.ph = "post" -> /\ NParked = goal.b
                           /\ \E d \in PreD : dpc[d] = "ret" /\ dres[d] = "ok"
                           /\ \A r \in StartedR : rpc[r] \in {"park", "ret"}
    [] goal.ph = "cancel" -> Cardinality(StartedR) = goal.b /\ \A r \in StartedR : rpc[r] = "ret"
    [] OTHER -> FALSE

\* ops that return in this step (its own op, and the parked ops woken by Close / Cancel), with results
NewRet == {<<r, rres'[r]>> : r \in {x \in R : rpc[x] # "ret" /\ rpc'[x] = "ret"}}
          \cup {<<d, dres'[d]>> : d \in {x \in D : dpc[x] # "ret" /\ dpc'[x] = "ret"}}
          \cup {<<c, "ok">> : c \in {x \in C : cpc[x] # "ret" /\ cpc'[x] = "ret"}}
Tag(a, op, pc) == hist' = Append(hist, [a |-> a, op |-> op, pc |-> pc,
                                        m |-> IF op \in R THEN rgot'[op] ELSE None, retd |-> NewRet])

EnvStep ==
  \/ \E r \in PreR : /\ ~CloseCalled /\ Cardinality(StartedR) < goal.b + Extra
                     /\ RCall(r) /\ Tag("RCall", r, "")
  \/ \E d \in PreD : /\ ~CloseCalled
                     /\ Cardinality({x \in PreD : dpc[x] # "idle"}) < NeedD
                     /\ IF \A x \in PreD : dpc[x] = "idle"
                        THEN NParked = goal.b + Extra                \* the first one: the receivers are parked
                        ELSE goal.ph = "cbbacklog" => InCb           \* the backlog behind a running callback
                     /\ DCall(d)
                     /\ Tag("DCall", d, IF goal.ph = "backlog" \/ (goal.ph = "cbbacklog" /\ InCb) THEN "backlog" ELSE "")
  \/ \E r \in PreR : /\ goal.ph = "cancel" /\ ~CloseCalled /\ NParked + Cardinality({x \in StartedR : rpc[x] = "ret"}) = goal.b
                     /\ rpc[r] = "park"
                     /\ CancelR(r) /\ Tag("Cancel", r, "")
  \/ ~CloseCalled /\ GoalReached /\ CCall(CFirst) /\ Tag("CCall", CFirst, "")
  \/ CloseReturned /\ RCall(RLate) /\ Tag("RCall", RLate, "late")
  \/ CloseReturned /\ DCall(DLate) /\ Tag("DCall", DLate, "late")
  \/ CloseReturned /\ CCall(CSecond) /\ Tag("CCall", CSecond, "again")

\* Scheduling choices that keep the goal reachable (a scheduler may delay any op): in phase "pre" the
\* deliverer's select waits until Close has been called, in phase "cb" the callback does not return before.
HoldSel == goal.ph \in {"pre", "backlog"} /\ ~CloseCalled /\ ParkedR # {}
HoldCb == goal.ph \in {"cb", "cbbacklog"} /\ ~CloseCalled
IntStep ==
  \/ \E r \in R : \/ RChk(r) /\ Tag("RChk", r, rpc'[r])
                  \/ RSel1(r) /\ Tag("RSel1", r, rpc'[r])
                  \/ RSel2Hub(r) /\ Tag("RSel2", r, rpc'[r])
                  \/ RCbBegin(r) /\ Tag("CbBegin", r, rpc'[r])
                  \/ ~HoldCb /\ RCbEnd(r) /\ Tag("CbEnd", r, rpc'[r])
  \/ \E d \in D : \/ ~HoldSel /\ DSelHub(d) /\ Tag("DSel", d, dpc'[d])
                  \/ DWait(d) /\ Tag("DWait", d, dpc'[d])
  \/ \E c \in C : COnceHub(c) /\ Tag("CRet", c, cpc'[c])

AllBack == /\ \A r \in R : rpc[r] \in {"idle", "ret"}
           /\ \A d \in D : dpc[d] \in {"idle", "ret"}
           /\ \A c \in C : cpc[c] = "ret"
           /\ rpc[RLate] = "ret" /\ dpc[DLate] = "ret"

Finish == /\ ~done /\ AllBack
          /\ PrintT(ToJson(<<"BEH", goal, hist,
                             [r \in {x \in R : rpc[x] = "ret"} |-> rres[r]],
                             [d \in {x \in D : dpc[x] = "ret"} |-> dres[d]]>>))
          /\ done' = TRUE
          /\ UNCHANGED <<vars, hist, goal>>

GenNext == \/ ((EnvStep \/ IntStep) /\ UNCHANGED <<goal, done>>)
           \/ Finish
GenSpec == GenInit /\ [][GenNext]_gvars
=============================================================================
