SPECIFICATION Spec
CONSTANTS
  Ks = {3, 6}
  Rs = {4, 7}
  Js = {8}
  Patterns = {"both", "a2b", "b2a"}
  Horizon = 6
  Posts = {"stranger", "resume", "pending"}
INVARIANTS NoIdleTeardown NeverWithoutSession ContinuityT Dump
CHECK_DEADLOCK FALSE
