--------------------------- MODULE KadCacheTrace ---------------------------
(***************************************************************************)
(* Trace specification binding KadCache.tla to the real kademlia.Cache.    *)
(* The log (ndjson, written by harness/cmd/kadreplay) holds, per operation,*)
(* its arguments, what it reported, and the projection of the real         *)
(* object's state plus the results of every read-only method.              *)
(*                                                                         *)
(* monitor: the state variables are bound to the logged projection and the *)
(*   property operators of KadCache are evaluated on them; each violated   *)
(*   operator is printed as <<"VIOL", line, names>> (the checker turns it  *)
(*   into a VIOLATION).                                                    *)
(* strict:  additionally each step must be an instance of the KadCache     *)
(*   action with the logged arguments; a mismatch prints <<"DRIFT", ...>>  *)
(*   (model and code disagree, but no listed property is falsified).       *)
(* Validation never blocks: the whole log is always examined.              *)
(***************************************************************************)
EXTENDS KadCache, Json, IOUtils, KadCacheTraceU

Log == ndJsonDeserialize(IOEnv.TRACE)

VARIABLES l, fresh, starts
tvars == <<vars, l, fresh, starts>>

\* The log is validated as NSHARDS independent chains (one TLC worker each), every chain
\* starting at an "init" event: Starts = the first init event at or after k*Len/NSHARDS.
NShards == atoi(IOEnv.NSHARDS)
Resets == {i \in 1..Len(Log) : Log[i].ev = "init"}
ComputeStarts == {1} \cup {CHOOSE i \in Resets : i >= c /\ \A j \in Resets : j >= c => i <= j :
                      c \in {c2 \in {(k * Len(Log)) \div NShards + 1 : k \in 1..(NShards - 1)} :
                                 \E i \in Resets : i >= c2}}

ToSet(s) == {s[i] : i \in 1..Len(s)}

LogEnts(ev) ==
    LET S == ToSet(ev.ents) IN
    [k \in {d.k : d \in S} |-> LET d == CHOOSE d \in S : d.k = k IN [v |-> d.v, c |-> d.c, e |-> d.e]]
LogMinExp(ev) == [i \in 0..(NBuckets - 1) |-> ev.minexp[i + 1]]
LogLast(ev) ==
    CASE ev.ev \in {"put", "touch"} ->
             [op |-> ev.ev, key |-> ev.key, v |-> ev.v, t |-> ev.t, e |-> ev.e,
              hasEv |-> ev.hasEv, ev |-> ev.evicted, added |-> ev.added]
      [] ev.ev = "delete" -> [op |-> "delete", key |-> ev.key, deleted |-> ev.deleted]
      [] ev.ev = "expire" -> [op |-> "expire", t |-> ev.t, out |-> ToSet(ev.out)]
      [] OTHER -> NoRes

TraceInit ==
    /\ starts = ComputeStarts
    /\ l \in starts
    /\ fresh = TRUE
    /\ cmax = 0 /\ cmin = 0
    /\ ents = <<>> /\ nb = 0 /\ count = 0
    /\ minExp = [i \in 0..(NBuckets - 1) |-> 0]
    /\ panicked = FALSE /\ last = NoRes /\ nops = 0

\* laws over one step (pre-state = current variables, post-state = logged projection)
OpPanic(ev) == ev.panic /\ ~ev.panicread
StepViol(ev, E2, r) ==
    IF OpPanic(ev) THEN {}
    ELSE
    {n \in {"LegalDisappear", "OnlyAddsKey", "UnrelatedUntouched", "NoCloserVictim", "VictimUnprotected",
            "ReportedVictimGone", "EvictOnlyWhenFull", "ExpireExact", "DeleteExact", "PutStores"} :
        CASE n = "LegalDisappear" -> ~LegalDisappearP(ents, E2, r)
          [] n = "OnlyAddsKey" -> ~OnlyAddsKeyP(ents, E2, r)
          [] n = "UnrelatedUntouched" -> ~UnrelatedUntouchedP(ents, E2, r)
          [] n = "NoCloserVictim" -> ~NoCloserVictimP(ents, E2, r)
          [] n = "VictimUnprotected" -> ~VictimUnprotectedP(ents, E2, r)
          [] n = "ReportedVictimGone" -> ~ReportedVictimGoneP(ents, E2, r)
          [] n = "EvictOnlyWhenFull" -> ~EvictOnlyWhenFullP(ents, E2, r)
          [] n = "ExpireExact" -> ~ExpireExactP(ents, E2, r)
          [] n = "DeleteExact" -> ~DeleteExactP(ents, E2, r)
          [] n = "PutStores" -> ~PutStoresP(ents, E2, r, ev.v, ev.t, ev.e)}

\* is the step an instance of the specification's action?  (all primed variables are bound already)
SpecStep(ev) ==
    CASE ev.ev = "put" -> Put(ev.key, ev.v, ev.t, ev.e)
      [] ev.ev = "touch" -> Touch(ev.key, ev.v, ev.t, ev.e)
      [] ev.ev = "delete" -> Delete(ev.key)
      [] ev.ev = "expire" -> Expire(ev.t)
      [] OTHER -> FALSE

TraceNext ==
    /\ l <= Len(Log)
    /\ (fresh \/ l \notin starts)
    /\ fresh' = FALSE
    /\ starts' = starts
    /\ LET ev == Log[l]
           E2 == LogEnts(ev)
           r == LogLast(ev)
       IN /\ l' = l + 1
          /\ ents' = E2
          /\ count' = ev.count
          /\ nb' = ev.nb
          /\ minExp' = LogMinExp(ev)
          /\ panicked' = OpPanic(ev)
          /\ last' = r
          /\ IF ev.ev = "init"
             THEN /\ cmax' = ev.max /\ cmin' = ev.min /\ nops' = 0
                  \* the prefill is one no-expiry Put per key at time 1
                  /\ (/\ ~OpPanic(ev) /\ ~ev.jump
                      /\ (\/ ev.count # Cardinality(DOMAIN E2)
                          \/ \E k \in DOMAIN E2 : E2[k].c # 1 \/ E2[k].e # 0))
                        => PrintT(ToJson(<<"DRIFT", l, ev.beh, "init">>))
             ELSE /\ cmax' = cmax /\ cmin' = cmin /\ nops' = nops + 1
                  /\ LET vs == StepViol(ev, E2, r) IN
                        (vs # {}) => PrintT(ToJson(<<"VIOL", l, ev.beh, vs>>))
                  /\ (~OpPanic(ev) /\ ~SpecStep(ev)) => PrintT(ToJson(<<"DRIFT", l, ev.beh, ev.ev>>))

TraceSpec == TraceInit /\ [][TraceNext]_tvars

\* laws over one state: evaluated on every state reached (as a CONSTRAINT that is always TRUE)
Qs(list) == ToSet(list)
StateViol ==
    LET ev == Log[l - 1] IN
    IF OpPanic(ev) THEN {"NoPanic"}
    ELSE
    (IF ev.panic THEN {"NoPanicRead"} ELSE {}) \cup
    {n \in {"CountExact", "Bounded", "GetFaithful", "ForEachSorted", "ClosestIsMin",
            "CloserExact", "MatchingExact", "WouldPutSound"} :
        CASE n = "CountExact" -> ~CountExactP(ents, ev.countfn)
          [] n = "Bounded" -> ~BoundedP(ents, ev.countfn)
          [] n = "GetFaithful" ->
                 \E g \in Qs(ev.get) : \/ g.b # (g.k \in DOMAIN ents)
                                       \/ (g.b /\ g.k \in DOMAIN ents /\ g.v # ents[g.k].v)
          [] n = "ForEachSorted" -> \E x \in Qs(ev.foreach) : ~ForEachOK(ents, x.q, x.s)
          [] n = "ClosestIsMin" -> \E x \in Qs(ev.closest) : ~ClosestOK(ents, x.q, x.s)
          [] n = "CloserExact" -> \E x \in Qs(ev.closer) : ~CloserOK(ents, x.q, x.s)
          [] n = "MatchingExact" -> \E x \in Qs(ev.matching) : ~MatchingOK(ents, x.q, x.n, x.s)
          [] n = "WouldPutSound" ->
                 \E g \in Qs(ev.wouldput) : g.k \in DOMAIN ents /\ ~g.b}

\* strict: the read-only methods agree with the model's functions (up to ties in distance)
ReadDrift ==
    LET ev == Log[l - 1] IN
    IF OpPanic(ev) THEN FALSE
    ELSE \/ ev.count # ev.countfn
         \/ \E g \in Qs(ev.wouldput) : g.b # WouldPutOf(ents, nb, count, g.k)
         \/ \E g \in Qs(ev.get) : g.v # GetOf(ents, nb, g.k)

Report ==
    ~fresh =>
          /\ LET vs == StateViol IN (vs # {}) => PrintT(ToJson(<<"VIOL", l - 1, Log[l - 1].beh, vs>>))
          /\ ReadDrift => PrintT(ToJson(<<"DRIFT", l - 1, Log[l - 1].beh, "read">>))

\* every chain consumes its whole shard: |states| = Len(Log) + |Starts| (checked by the driver too)
AllConsumed == TLCGet("distinct") >= Len(Log) + 1

TLocusSmall == <<165>>
TLocusWide == <<165, 60>>
TLocus32 == [i \in 1..32 |-> (i * 37 + 11) % 256]
TNone == {}
\* TKeys / TQueries (module KadCacheTraceU, regenerated per run by the driver): the key/query universe of
\* the log, as literal sets, so that KadCache's constant speed-up tables apply.  Empty sets are equally
\* correct (the raw operators are used instead).
=============================================================================
