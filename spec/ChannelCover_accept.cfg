SPECIFICATION CoverSpec
CONSTANTS
  MaxS = 4
  MaxRestart = 0
  MaxRekey = 0
  MaxSendCalls = 1
  AcceptA = {"B"}
  AcceptB = {}
  RestartKeys = {"A"}
  Eager = TRUE
  MaxSteps = 0
VIEW view
INVARIANTS DumpEvery
CHECK_DEADLOCK FALSE
