SPECIFICATION GenSpec
CONSTANTS
  Kinds <- OnlyQUIC
  WLA <- WLVictim
  WLB <- OnlyAll
  Weak <- NoWeak
  MaxConn = 3
  MaxSend = 4
  MaxAdv = 9
  CacheMax = 16
  Extras = {"A", "B", "M"}
  Asks = {FALSE, TRUE}
  Fam = "cred"
  Depth = 1
  DepthAtomic = 0
  MaxSteps = 8
CHECK_DEADLOCK FALSE
