SPECIFICATION ScriptSpec
CONSTANTS
  MaxS = 8
  MaxRestart = 1
  MaxRekey = 1
  MaxSendCalls = 2
  AcceptA = {"B"}
  AcceptB = {"A"}
  RestartKeys = {"M"}
  Eager = TRUE
  PrefixLen = 2
  SecondRound = FALSE
CHECK_DEADLOCK FALSE
