----------------------------- MODULE MC_KadWould -----------------------------
EXTENDS KadWould
\* locus 0xA5; two keys in each of buckets 0,1,2, one in bucket 7, the locus itself (bucket 8)
WLocus == <<165>>
WSmallKeys == {<<37>>, <<218>>, <<229>>, <<230>>, <<133>>, <<128>>, <<164>>, <<165>>}
WSmallConfigs == {<<0, 0, {}>>, <<1, 0, {}>>, <<2, 0, {}>>, <<3, 0, {}>>}
\* boundary max = 8*len(locus)*minPerBucket: one key per bucket 0..7 prefilled
WOnePerBucket == {<<37>>, <<229>>, <<133>>, <<181>>, <<173>>, <<161>>, <<167>>, <<164>>}
WBoundaryKeys == WOnePerBucket \cup {<<165>>, <<218>>, <<230>>}
WBoundaryConfigs == {<<8, 1, WOnePerBucket>>, <<9, 1, WOnePerBucket>>}
WQueries == {<<165>>}
WAllKeys == WSmallKeys \cup WBoundaryKeys
WNone == {}
=============================================================================
