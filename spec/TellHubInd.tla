----------------------------- MODULE TellHubInd -----------------------------
(***************************************************************************)
(* G03b.  The rendezvous core of swarmutil.TellHub (/repo/s/swarmutil/      *)
(* hubs.go), i.e. Hubs.tla specialised to Hub = "tell" with both Bug*       *)
(* constants FALSE (the repaired code), for ARBITRARY sets of deliver ops   *)
(* D, receive ops R and close ops C, together with an INDUCTIVE invariant   *)
(* IndInv that implies the C13/C12 safety operators of Hubs.tla:            *)
(*   ExactlyOnce, OkOnlyAfterCallback, ErrOnlyIfUnseen, NotLostByCancel,    *)
(*   RetTruthful, ErrAfterClose, NoLateCallback.                            *)
(*                                                                         *)
(* Actions are copied from Hubs.tla one for one (same names, same guards,   *)
(* same updates) with the queue/ask branches removed; `None` (no message)   *)
(* is the constant NoD, a value outside D.  HubsTellRef.tla checks with TLC *)
(* that Hubs.tla with Hub = "tell" refines this module.                     *)
(*                                                                         *)
(* The module is written for Apalache (type annotations; IndInit is the     *)
(* generator form of IndInv) and for TLAPS (TellHubProof.tla).              *)
(***************************************************************************)
EXTENDS Naturals, FiniteSets

CONSTANTS
    \* deliver ops (TellHub.Deliver), one message each
    \* @type: Set(DOP);
    D,
    \* receive ops (TellHub.Receive)
    \* @type: Set(ROP);
    R,
    \* close ops (TellHub.CloseWithError)
    \* @type: Set(COP);
    C,
    \* "no message" (Hubs.tla: None)
    \* @type: DOP;
    NoD

ASSUME NoDNotInD == NoD \notin D

VARIABLES
    \* @type: Bool;
    closed,
    \* @type: Str;
    cerr,
    \* @type: Str;
    once,
    \* @type: Bool;
    closeRet,
    \* @type: ROP -> Str;
    rpc,
    \* @type: ROP -> Bool;
    rctx,
    \* @type: ROP -> DOP;
    rgot,
    \* @type: ROP -> Str;
    rres,
    \* @type: ROP -> Bool;
    rlate,
    \* @type: DOP -> Str;
    dpc,
    \* @type: DOP -> Bool;
    dctx,
    \* @type: DOP -> Str;
    dres,
    \* @type: DOP -> Bool;
    dlate,
    \* @type: DOP -> Int;
    cbn,
    \* @type: DOP -> Bool;
    cbDone,
    \* @type: COP -> Str;
    cpc

hubvars == <<closed, cerr, once, closeRet>>
rvars == <<rpc, rctx, rgot, rres, rlate>>
dvars == <<dpc, dctx, dres, dlate, cbn, cbDone>>
vars == <<closed, cerr, once, closeRet, rpc, rctx, rgot, rres, rlate, dpc, dctx, dres, dlate, cbn, cbDone, cpc>>

Init ==
  /\ closed = FALSE /\ cerr = "unset" /\ once = "none" /\ closeRet = FALSE
  /\ rpc = [r \in R |-> "idle"] /\ rctx = [r \in R |-> FALSE] /\ rgot = [r \in R |-> NoD]
  /\ rres = [r \in R |-> "none"] /\ rlate = [r \in R |-> FALSE]
  /\ dpc = [d \in D |-> "idle"] /\ dctx = [d \in D |-> FALSE] /\ dres = [d \in D |-> "none"]
  /\ dlate = [d \in D |-> FALSE] /\ cbn = [d \in D |-> 0] /\ cbDone = [d \in D |-> FALSE]
  /\ cpc = [c \in C |-> "idle"]

----------------------------------------------------------------------------
\* what `return q.err` yields once the hub is closed
\* @type: (Str) => Str;
ErrVal(e) == IF e = "nil" THEN "nil" ELSE "closed"

ParkedD == {d \in D : dpc[d] = "park"}
ParkedR == {r \in R : rpc[r] = "park"}

\* @type: (ROP, Str) => Bool;
RRet(r, res) == /\ rpc' = [rpc EXCEPT ![r] = "ret"] /\ rres' = [rres EXCEPT ![r] = res]
\* @type: (DOP, Str) => Bool;
DRet(d, res) == /\ dpc' = [dpc EXCEPT ![d] = "ret"] /\ dres' = [dres EXCEPT ![d] = res]

\* unbuffered rendezvous on q.delivers: both ops move
\* @type: (ROP, DOP) => Bool;
Meet(r, d) ==
  /\ rpc' = [rpc EXCEPT ![r] = "cb"] /\ rgot' = [rgot EXCEPT ![r] = d]
  /\ dpc' = [dpc EXCEPT ![d] = "wait"]

----------------------------------------------------------------------------
(* TellHub.Receive (hubs.go:30-58) *)

RCall(r) ==
  /\ rpc[r] = "idle"
  /\ rpc' = [rpc EXCEPT ![r] = "chk"]
  /\ rlate' = [rlate EXCEPT ![r] = closeRet]
  /\ UNCHANGED <<hubvars, rctx, rgot, rres, dvars, cpc>>

\* hubs.go:31 checkClosed()
RChk(r) ==
  /\ rpc[r] = "chk"
  /\ IF closed THEN RRet(r, ErrVal(cerr))
     ELSE /\ rpc' = [rpc EXCEPT ![r] = "sel1"] /\ UNCHANGED rres
  /\ UNCHANGED <<hubvars, rctx, rgot, rlate, dvars, cpc>>

\* hubs.go:34-42  select { <-closed ; req := <-delivers ; default }
RSel1(r) ==
  /\ rpc[r] = "sel1"
  /\ \/ closed /\ RRet(r, ErrVal(cerr)) /\ UNCHANGED <<rgot, dpc>>
     \/ \E d \in ParkedD : Meet(r, d) /\ UNCHANGED rres
     \/ ~closed /\ ParkedD = {} /\ rpc' = [rpc EXCEPT ![r] = "sel2"] /\ UNCHANGED <<rgot, rres, dpc>>
  /\ UNCHANGED <<hubvars, rctx, rlate, dctx, dres, dlate, cbn, cbDone, cpc>>

\* hubs.go:44-56  select { <-ctx.Done ; <-closed ; req := <-delivers }
RSel2(r) ==
  /\ rpc[r] = "sel2"
  /\ \/ rctx[r] /\ RRet(r, "ctx") /\ UNCHANGED <<rgot, dpc>>
     \/ closed /\ RRet(r, ErrVal(cerr)) /\ UNCHANGED <<rgot, dpc>>
     \/ \E d \in ParkedD : Meet(r, d) /\ UNCHANGED rres
     \/ /\ ~rctx[r] /\ ~closed /\ ParkedD = {}
        /\ rpc' = [rpc EXCEPT ![r] = "park"] /\ UNCHANGED <<rgot, rres, dpc>>
  /\ UNCHANGED <<hubvars, rctx, rlate, dctx, dres, dlate, cbn, cbDone, cpc>>

\* the callback starts: fn(req.msg) hubs.go:40,54
RCbBegin(r) ==
  /\ rpc[r] = "cb"
  /\ rpc' = [rpc EXCEPT ![r] = "incb"]
  /\ cbn' = [cbn EXCEPT ![rgot[r]] = @ + 1]
  /\ UNCHANGED <<hubvars, rctx, rgot, rres, rlate, dpc, dctx, dres, dlate, cbDone, cpc>>

\* the callback returns: close(req.done) and return nil (hubs.go:39-41,53-55)
RCbEnd(r) ==
  /\ rpc[r] = "incb"
  /\ cbDone' = [cbDone EXCEPT ![rgot[r]] = TRUE]
  /\ RRet(r, "ok")
  /\ UNCHANGED <<hubvars, rctx, rgot, rlate, dpc, dctx, dres, dlate, cbn, cpc>>

----------------------------------------------------------------------------
(* TellHub.Deliver (hubs.go:62-77) *)

DCall(d) ==
  /\ dpc[d] = "idle"
  /\ dpc' = [dpc EXCEPT ![d] = "sel"]
  /\ dlate' = [dlate EXCEPT ![d] = closeRet]
  /\ UNCHANGED <<hubvars, rvars, dctx, dres, cbn, cbDone, cpc>>

\* hubs.go:67-76  select { <-closed ; <-ctx.Done ; delivers <- req }
DSel(d) ==
  /\ dpc[d] = "sel"
  /\ \/ closed /\ DRet(d, ErrVal(cerr)) /\ UNCHANGED <<rpc, rgot>>
     \/ dctx[d] /\ DRet(d, "ctx") /\ UNCHANGED <<rpc, rgot>>
     \/ \E r \in ParkedR : Meet(r, d) /\ UNCHANGED dres
     \/ /\ ~closed /\ ~dctx[d] /\ ParkedR = {}
        /\ dpc' = [dpc EXCEPT ![d] = "park"] /\ UNCHANGED <<dres, rpc, rgot>>
  /\ UNCHANGED <<hubvars, rctx, rres, rlate, dctx, dlate, cbn, cbDone, cpc>>

\* hubs.go:74  <-req.done
DWait(d) ==
  /\ dpc[d] = "wait" /\ cbDone[d]
  /\ DRet(d, "ok")
  /\ UNCHANGED <<hubvars, rvars, dctx, dlate, cbn, cbDone, cpc>>

----------------------------------------------------------------------------
(* ctx cancellation: wakes exactly the parked ops whose select lists ctx.Done() *)

CancelR(r) ==
  /\ ~rctx[r] /\ rpc[r] # "ret"
  /\ rctx' = [rctx EXCEPT ![r] = TRUE]
  /\ IF rpc[r] = "park" THEN RRet(r, "ctx") ELSE UNCHANGED <<rpc, rres>>
  /\ UNCHANGED <<hubvars, rgot, rlate, dvars, cpc>>

CancelD(d) ==
  /\ ~dctx[d] /\ dpc[d] # "ret"
  /\ dctx' = [dctx EXCEPT ![d] = TRUE]
  /\ IF dpc[d] = "park" THEN DRet(d, "ctx") ELSE UNCHANGED <<dpc, dres>>
  /\ UNCHANGED <<hubvars, rvars, dlate, cbn, cbDone, cpc>>

----------------------------------------------------------------------------
(* Close (hubs.go:88-96): closeOnce.Do(func() { q.err = err; close(q.closed) }) *)

CCall(c) ==
  /\ cpc[c] = "idle"
  /\ cpc' = [cpc EXCEPT ![c] = "once"]
  /\ UNCHANGED <<hubvars, rvars, dvars>>

COnce(c) ==
  /\ cpc[c] = "once"
  /\ IF once = "none"
     THEN /\ closed' = TRUE /\ cerr' = "ErrClosed" /\ once' = "done"
          /\ dpc' = [d \in D |-> IF dpc[d] = "park" THEN "ret" ELSE dpc[d]]
          /\ dres' = [d \in D |-> IF dpc[d] = "park" THEN ErrVal("ErrClosed") ELSE dres[d]]
          /\ rpc' = [r \in R |-> IF rpc[r] = "park" THEN "ret" ELSE rpc[r]]
          /\ rres' = [r \in R |-> IF rpc[r] = "park" THEN ErrVal("ErrClosed") ELSE rres[r]]
     ELSE UNCHANGED <<closed, cerr, once, dpc, dres, rpc, rres>>
  /\ cpc' = [cpc EXCEPT ![c] = "ret"]
  /\ closeRet' = TRUE
  /\ UNCHANGED <<rctx, rgot, rlate, dctx, dlate, cbn, cbDone>>

----------------------------------------------------------------------------
Next ==
  \/ \E r \in R : RCall(r) \/ CancelR(r) \/ RChk(r) \/ RSel1(r) \/ RSel2(r) \/ RCbBegin(r) \/ RCbEnd(r)
  \/ \E d \in D : DCall(d) \/ CancelD(d) \/ DSel(d) \/ DWait(d)
  \/ \E c \in C : CCall(c) \/ COnce(c)

Spec == Init /\ [][Next]_vars

----------------------------------------------------------------------------
(* The property operators of Hubs.tla (TellHub part) *)

DReturned(d) == dpc[d] = "ret"
RReturned(r) == rpc[r] = "ret"
DOk(d) == DReturned(d) /\ dres[d] \in {"ok", "nil", "true"}
DErr(d) == DReturned(d) /\ dres[d] \in {"closed", "ctx", "false"}
ROk(r) == RReturned(r) /\ rres[r] \in {"ok", "nil"}

\* C13: a message is handed to exactly one receiver callback, never to two.  (Hubs.tla writes the second
\* conjunct as Cardinality({r \in R : rgot[r] = d}) <= 1; this is the same statement without Cardinality,
\* ExactlyOnceCard is the original.)
ExactlyOnce == \A d \in D : /\ cbn[d] <= 1
                            /\ \A r1, r2 \in R : (rgot[r1] = d /\ rgot[r2] = d) => r1 = r2
ExactlyOnceCard == \A d \in D : cbn[d] <= 1 /\ Cardinality({r \in R : rgot[r] = d}) <= 1
OkOnlyAfterCallback == \A d \in D : DOk(d) => cbDone[d]
ErrOnlyIfUnseen == \A d \in D : DErr(d) => cbn[d] = 0
NotLostByCancel ==
  /\ \A d \in D : dpc[d] = "wait" => (cbDone[d] \/ \E r \in R : rgot[r] = d /\ rpc[r] \in {"cb", "incb"})
  /\ \A r \in R : (rgot[r] # NoD /\ RReturned(r)) => rres[r] = "ok"
RetTruthful ==
  /\ \A r \in R : (RReturned(r) /\ rres[r] = "ok") => (rgot[r] # NoD /\ cbDone[rgot[r]])
  /\ \A r \in R : (RReturned(r) /\ rres[r] = "ctx") => rctx[r]
  /\ \A d \in D : (DReturned(d) /\ dres[d] = "ctx") => dctx[d]
ErrAfterClose ==
  /\ \A r \in R : (rlate[r] /\ RReturned(r)) => ~ROk(r)
  /\ \A d \in D : (dlate[d] /\ DReturned(d)) => ~DOk(d)
NoLateCallback == \A d \in D : dlate[d] => cbn[d] = 0

Safety == /\ ExactlyOnce /\ OkOnlyAfterCallback /\ ErrOnlyIfUnseen /\ NotLostByCancel /\ RetTruthful
          /\ ErrAfterClose /\ NoLateCallback
SafetyCard == Safety /\ ExactlyOnceCard

----------------------------------------------------------------------------
(* The inductive invariant *)

RPcs == {"idle", "chk", "sel1", "sel2", "park", "cb", "incb", "ret"}
DPcs == {"idle", "sel", "park", "wait", "ret"}
CPcs == {"idle", "once", "ret"}

TypeOK ==
  /\ closed \in BOOLEAN /\ cerr \in {"unset", "ErrClosed"} /\ once \in {"none", "done"} /\ closeRet \in BOOLEAN
  /\ rpc \in [R -> RPcs] /\ rctx \in [R -> BOOLEAN] /\ rgot \in [R -> D \cup {NoD}]
  /\ rres \in [R -> {"none", "ok", "closed", "ctx"}] /\ rlate \in [R -> BOOLEAN]
  /\ dpc \in [D -> DPcs] /\ dctx \in [D -> BOOLEAN]
  /\ dres \in [D -> {"none", "ok", "closed", "ctx"}] /\ dlate \in [D -> BOOLEAN]
  /\ cbn \in [D -> Nat] /\ cbDone \in [D -> BOOLEAN]
  /\ cpc \in [C -> CPcs]

\* the close flag, the once and the stored error move together; Close returns only after closing
HubInv ==
  /\ closed <=> (once = "done")
  /\ closed <=> (cerr = "ErrClosed")
  /\ closeRet => closed
  \* close(q.closed) wakes every parked op, and nothing parks afterwards
  /\ closed => (\A r \in R : rpc[r] # "park") /\ (\A d \in D : dpc[d] # "park")

\* a receive op holds a message exactly from the rendezvous on; what it reports
RInv ==
  \A r \in R :
    /\ rpc[r] \in {"idle", "chk", "sel1", "sel2", "park"} => (rgot[r] = NoD /\ rres[r] = "none")
    /\ rpc[r] \in {"cb", "incb"} => (rgot[r] \in D /\ rres[r] = "none")
    /\ rpc[r] = "ret" => /\ rres[r] \in {"ok", "closed", "ctx"}
                         /\ (rres[r] = "ok") <=> (rgot[r] # NoD)
                         /\ rres[r] = "ctx" => rctx[r]
    \* the committed pair (r, d): where d is, how far its callback is
    /\ rgot[r] # NoD =>
         /\ rpc[r] = "cb" => (dpc[rgot[r]] = "wait" /\ cbn[rgot[r]] = 0 /\ ~cbDone[rgot[r]])
         /\ rpc[r] = "incb" => (dpc[rgot[r]] = "wait" /\ cbn[rgot[r]] = 1 /\ ~cbDone[rgot[r]])
         /\ rpc[r] = "ret" => /\ dpc[rgot[r]] \in {"wait", "ret"} /\ cbn[rgot[r]] = 1 /\ cbDone[rgot[r]]
                              /\ dpc[rgot[r]] = "ret" => dres[rgot[r]] = "ok"
    \* a Receive called after Close returned sees the closed hub at its first step
    /\ rlate[r] => (closed /\ rpc[r] \in {"chk", "ret"} /\ rgot[r] = NoD)

\* no two receive ops hold the same message
Inj == \A r1, r2 \in R : (rgot[r1] = rgot[r2] /\ rgot[r1] # NoD) => r1 = r2

\* a deliver op: untouched until the rendezvous; afterwards some receive op holds its message
DInv ==
  \A d \in D :
    /\ dpc[d] # "ret" => dres[d] = "none"
    /\ dpc[d] = "ret" => /\ dres[d] \in {"ok", "closed", "ctx"}
                         /\ dres[d] = "ctx" => dctx[d]
    /\ (dpc[d] \in {"idle", "sel", "park"} \/ (dpc[d] = "ret" /\ dres[d] # "ok")) =>
           (cbn[d] = 0 /\ ~cbDone[d] /\ \A r \in R : rgot[r] # d)
    /\ (dpc[d] = "wait" \/ (dpc[d] = "ret" /\ dres[d] = "ok")) => \E r \in R : rgot[r] = d
    /\ (dpc[d] = "ret" /\ dres[d] = "ok") => cbDone[d]
    /\ dlate[d] => (closed /\ dpc[d] \in {"sel", "ret"} /\ cbn[d] = 0 /\ (dpc[d] = "ret" => dres[d] # "ok"))

IndInv == TypeOK /\ HubInv /\ RInv /\ Inj /\ DInv

----------------------------------------------------------------------------
(* Apalache: generator form of TypeOK (all values of the variables' types) and constant universes *)

TypeGen ==
  /\ closed \in BOOLEAN /\ cerr \in {"unset", "ErrClosed"} /\ once \in {"none", "done"} /\ closeRet \in BOOLEAN
  /\ rpc \in [R -> RPcs] /\ rctx \in [R -> BOOLEAN] /\ rgot \in [R -> D \cup {NoD}]
  /\ rres \in [R -> {"none", "ok", "closed", "ctx"}] /\ rlate \in [R -> BOOLEAN]
  /\ dpc \in [D -> DPcs] /\ dctx \in [D -> BOOLEAN]
  /\ dres \in [D -> {"none", "ok", "closed", "ctx"}] /\ dlate \in [D -> BOOLEAN]
  /\ cbn \in [D -> Nat] /\ cbDone \in [D -> BOOLEAN]
  /\ cpc \in [C -> CPcs]

IndInit == TypeGen /\ IndInv

\* N deliver ops, N receive ops, 2 close ops
ConstInit2 == /\ D = {"d1_OF_DOP", "d2_OF_DOP"} /\ R = {"r1_OF_ROP", "r2_OF_ROP"}
              /\ C = {"c1_OF_COP", "c2_OF_COP"} /\ NoD = "none_OF_DOP"
ConstInit3 == /\ D = {"d1_OF_DOP", "d2_OF_DOP", "d3_OF_DOP"} /\ R = {"r1_OF_ROP", "r2_OF_ROP", "r3_OF_ROP"}
              /\ C = {"c1_OF_COP", "c2_OF_COP"} /\ NoD = "none_OF_DOP"
ConstInit4 == /\ D = {"d1_OF_DOP", "d2_OF_DOP", "d3_OF_DOP", "d4_OF_DOP"}
              /\ R = {"r1_OF_ROP", "r2_OF_ROP", "r3_OF_ROP", "r4_OF_ROP"}
              /\ C = {"c1_OF_COP", "c2_OF_COP"} /\ NoD = "none_OF_DOP"
=============================================================================
