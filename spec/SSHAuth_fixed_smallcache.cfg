SPECIFICATION ASpec
CONSTANTS
  CacheMax = 1
  MaxSteps = 6
  Fixed = TRUE
INVARIANTS RecordedIsProven NeverProvesOther CacheBounded
CHECK_DEADLOCK FALSE
