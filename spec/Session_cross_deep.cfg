SPECIFICATION Spec
CONSTANTS
  Sess <- Cross
  Role <- CrossRole
  KeyOf <- CrossKey
  EphOf <- CrossEph
  SessIdx <- CrossIdx
  MaxForge = 1
  MaxSend = 2
  Window = 2
  Weak = {}
VIEW view
INVARIANTS TypeOK AuthBeforeUse Agreement HonestPair Authentic AtMostOnce NonceUnique DataCountersHigh
PROPERTIES Monotone
CHECK_DEADLOCK FALSE
