SPECIFICATION Spec
CONSTANTS
  Keys <- MCKeys
  MLens <- MCMLens
  DLens <- MCDLens
  Repaired = FALSE
INVARIANTS ModelLaws NeverPanics
CHECK_DEADLOCK FALSE
