SPECIFICATION Spec
CONSTANTS
  Locus <- SmallLocus
  Keys <- FocusKeys
  Queries <- FocusQueries
  Configs <- FocusConfigs
  Vals = {1}
  Times = {1}
  TouchTimes = {0}
  ExpTimes = {2, 3, 4}
  Exps = {0, 1, 2, 3}
  MaxOps = 5
VIEW view
INVARIANTS TypeOK CountExact Bounded NoPanic BucketsCover MinExpSound ForEachSorted MatchingExact GetFaithful WouldPutSound
PROPERTIES StepLawsProp
CHECK_DEADLOCK FALSE
