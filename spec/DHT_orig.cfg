SPECIFICATION Spec
CONSTANTS
  N = 3
  Ops <- AllOps
  Initials <- Init2
  Replies <- SubsetReplies
  Mins <- MinsAll
  ValClasses = {0, 1, 2}
  VModes = {1}
  Dists <- NoDists
  Orig = TRUE
INVARIANTS AtMostOnce NoPanic ClosestTruthful AcceptedDistinct ErrIffBelowMin
CHECK_DEADLOCK FALSE
