SPECIFICATION Spec
CONSTANTS
  N = 3
  Ops <- AllOps
  Initials <- Init2
  Replies <- SubsetReplies
  Mins <- MinsAll
  Orig = TRUE
INVARIANTS AtMostOnce NoPanic ClosestTruthful AcceptedDistinct ErrIffBelowMin
CHECK_DEADLOCK FALSE
