----------------------------- MODULE DHTNodeOps -----------------------------
(***************************************************************************)
(* kademlia.Cache as FUNCTIONS over a cache value, for DHTNode.tla.         *)
(*                                                                         *)
(* A DHTNode owns two caches with different constructor parameters (peers: *)
(* minPerBucket 1, data: minPerBucket 0) and one DHTNode method performs    *)
(* several cache operations in a row (purge both caches, then update one), *)
(* so KadCache's actions (written over its own variables cmax, cmin, ents,  *)
(* ...) cannot be used as they are.  This module restates Update, Delete    *)
(* and Expire as functions of a cache value                                 *)
(*      C = [E |-> contents, n |-> len(buckets), me |-> minExpiresAt per    *)
(*           bucket, c |-> count]                                           *)
(* with the constructor parameters (mx, mn) explicit, built from KadCache's *)
(* own helpers (Bucket, InB, Put1, Del, Newest, UpdMin, MinExpOf, Expired,  *)
(* BucketsOf).  TieProp states that they ARE KadCache's actions: on every   *)
(* step of KadCache's own specification the function applied to the current *)
(* state yields exactly the next state and report.  It is model-checked on  *)
(* KadCache's small and boundary families (DHTNodeTie_*.cfg).               *)
(***************************************************************************)
EXTENDS KadCache

MkCache(E, n, me, c) == [E |-> E, n |-> n, me |-> me, c |-> c]
ZeroMe == [i \in 0..(NBuckets - 1) |-> 0]
EmptyC == MkCache(<<>>, 0, ZeroMe, 0)

\* Expire(out, now) (cache.go:303)
ExpireSetC(C, t) == {k \in DOMAIN C.E : Bucket(k) < C.n /\ C.me[Bucket(k)] < t /\ Expired(C.E[k], t)}
ExpireC(C, t) == LET S == ExpireSetC(C, t) IN
                 IF S = {} THEN C ELSE [C EXCEPT !.E = Del(C.E, S), !.c = C.c - Cardinality(S)]

\* evict (cache.go:274) with the per-bucket minimum explicit
EvictBucketC(E, n, mn) ==
    LET occ == {i \in BucketsOf(E) : i < n}
        over == {i \in occ : Cardinality(InB(E, i)) > mn}
        S == IF over # {} THEN over ELSE occ
    IN CHOOSE i \in S : \A j \in S : i <= j

\* Update(key, fn) (cache.go:91) where fn yields entry r: the set of possible outcomes
\* (several when the newest CreatedAt of the victim's bucket is shared: map order decides)
UpdateC(C, mx, mn, k, r) ==
    IF mx = 0 THEN {[C |-> C, hasEv |-> FALSE, ev |-> <<>>, added |-> FALSE]}
    ELSE LET lz == Bucket(k)
             n1 == Max2(C.n, lz + 1)
             exists == k \in DOMAIN C.E
             E1 == Put1(C.E, k, r)
             c1 == IF exists THEN C.c ELSE C.c + 1
             me1 == [C.me EXCEPT ![lz] = UpdMin(@, r.e)]
         IN IF c1 > mx
            THEN {[C |-> MkCache(Del(E1, {v}), n1, me1, c1 - 1), hasEv |-> TRUE, ev |-> v, added |-> (v # k)] :
                      v \in Newest(E1, InB(E1, EvictBucketC(E1, n1, mn)))}
            ELSE {[C |-> MkCache(E1, n1, me1, c1), hasEv |-> FALSE, ev |-> <<>>, added |-> ~exists]}

\* Delete(key) (cache.go:157).  nonnil: Delete returns a non-nil *Entry whenever the key's bucket exists,
\* a pointer to the ZERO entry when the key is not in it (what DHTNode.RemovePeer used to report)
DeleteC(C, k) ==
    LET b == Bucket(k) IN
    IF b >= C.n \/ k \notin DOMAIN C.E
    THEN [C |-> C, deleted |-> FALSE, nonnil |-> (b < C.n)]
    ELSE LET E1 == Del(C.E, {k}) IN
         [C |-> [C EXCEPT !.E = E1, !.c = C.c - 1, !.me = [C.me EXCEPT ![b] = MinExpOf(E1, InB(E1, b))]],
          deleted |-> TRUE, nonnil |-> TRUE]

\* WouldAdd / WouldPut (cache.go:118,127), Get, Count
WouldPutC2(C, mx, mn, k) ==
    LET i == Bucket(k) IN
    \/ C.c + 1 <= mx
    \/ i >= C.n
    \/ k \in DOMAIN C.E
    \/ \E j \in 0..(i - 1) : Cardinality(InB(C.E, j)) > mn
WouldAddC2(C, mx, mn, k) == IF Bucket(k) < C.n /\ k \in DOMAIN C.E THEN FALSE ELSE WouldPutC2(C, mx, mn, k)
GetC(C, k) == GetOf(C.E, C.n, k)

-----------------------------------------------------------------------------
(* The functions are KadCache's actions *)

CurC == MkCache(ents, nb, minExp, count)
NextC == MkCache(ents', nb', minExp', count')
TieStep ==
    LET r == last' IN
    CASE r.op = "put" ->
             [C |-> NextC, hasEv |-> r.hasEv, ev |-> r.ev, added |-> r.added]
                 \in UpdateC(CurC, cmax, cmin, r.key, [v |-> r.v, c |-> r.t, e |-> r.e])
      [] r.op = "touch" ->
             [C |-> NextC, hasEv |-> r.hasEv, ev |-> r.ev, added |-> r.added]
                 \in UpdateC(CurC, cmax, cmin, r.key,
                             [v |-> r.v, c |-> IF r.key \in DOMAIN ents THEN ents[r.key].c ELSE r.t, e |-> r.e])
      [] r.op = "delete" -> LET d == DeleteC(CurC, r.key) IN d.C = NextC /\ d.deleted = r.deleted
      [] r.op = "expire" -> ExpireC(CurC, r.t) = NextC /\ ExpireSetC(CurC, r.t) = r.out
      [] OTHER -> FALSE
TieProp == [][TieStep]_vars
\* and every outcome of the function is a step of KadCache (the other inclusion), per state
TieOutcomes ==
    \A k \in Keys :
        /\ WouldPutC2(CurC, cmax, cmin, k) = WouldPutOf(ents, nb, count, k)
        /\ GetC(CurC, k) = GetOf(ents, nb, k)
=============================================================================
