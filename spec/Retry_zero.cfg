SPECIFICATION Spec
CONSTANTS
  BackoffSeq <- MCZero
  MaxCalls = 4
  FnDurs = {0}
  CancelTimes <- MCCancelTimes
INVARIANTS NilStops CtxErrOnlyIfDone WaitIndexed NoCallAfterCtxEnded CtxSelectEnds WaiterClosedOnce DelayExact PromptCtx ZeroBackoffNeverSpins
CHECK_DEADLOCK FALSE
