---------------------------- MODULE KadCacheGen ----------------------------
(* Behaviour generation for the replayer: a history variable printed as JSON.*)
(* Simulation mode: the Finish step prints the behaviour once when the depth  *)
(* bound is reached.  Exhaustive mode (VIEW hides hist): DumpEvery prints,    *)
(* for every distinct state, the first (BFS-shortest) path that reached it.   *)
EXTENDS MC_KadCache, Json
VARIABLES hist, done

genvars == <<vars, hist, done>>
GenInit == /\ Init
           /\ hist = <<[op |-> "init", max |-> cmax, min |-> cmin, prefill |-> DOMAIN ents,
                     locus |-> Locus, keys |-> Keys, queries |-> Queries]>>
           /\ done = FALSE
Finish == /\ nops = MaxOps /\ ~done
          /\ PrintT(ToJson(<<"BEH", hist>>))
          /\ done' = TRUE
          /\ UNCHANGED <<vars, hist>>
\* Simulation: one random instance per action kind instead of all (TLC's simulator otherwise
\* enumerates every successor before picking one).  {RandomElement(S)} is evaluated once.
RandNext ==
    \E k \in {RandomElement(Keys)}, v \in {RandomElement(Vals)}, e \in {RandomElement(Exps)} :
        \/ \E t \in {RandomElement(Times)} : Put(k, v, t, e)
        \/ \E t \in {RandomElement(TouchTimes)} : Touch(k, v, t, e)
        \/ Delete(k)
        \/ \E t \in {RandomElement(ExpTimes)} : Expire(t)
GenNext == \/ (RandNext /\ hist' = Append(hist, last') /\ UNCHANGED done)
           \/ Finish
GenSpec == GenInit /\ [][GenNext]_genvars

\* exhaustive state cover
CoverNext == Next /\ hist' = Append(hist, last') /\ UNCHANGED done
CoverSpec == GenInit /\ [][CoverNext]_genvars
DumpEvery == (nops > 0) => PrintT(ToJson(<<"BEH", hist>>))
\* edge cover: evaluated for every generated transition (also those into known states): the
\* representative path to the source state followed by this transition
EdgeDump == PrintT(ToJson(<<"BEH", hist'>>))
=============================================================================
