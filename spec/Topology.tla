------------------------------- MODULE Topology -------------------------------
(* What /repo/p2ptest/topology.go must produce: the directed edge sets of MakeChain / MakeRing /      *)
(* MakeCluster / MakeHubAndSpoke over nodes 0..n-1, and the laws every one of them satisfies.          *)
EXTENDS Integers, FiniteSets, Sequences, TLC
CONSTANT MaxN
VARIABLES kind, n
Kinds == {"chain", "ring", "cluster", "hub"}
Nodes(k) == 0..(k - 1)
Edges(kd, k) ==
    {e \in Nodes(k) \X Nodes(k) :
        /\ e[1] # e[2]
        /\ CASE kd = "chain" -> e[2] = e[1] + 1 \/ e[2] = e[1] - 1                       \* topology.go:11-23
             [] kd = "ring" -> e[2] = (e[1] + 1) % k \/ e[2] = (e[1] + k - 1) % k        \* topology.go:31-42
             [] kd = "cluster" -> TRUE                                                   \* topology.go:50-58
             [] kd = "hub" -> e[1] = 0 \/ e[2] = 0}                                      \* topology.go:66-71
RECURSIVE Reach(_, _)
Reach(E, R) == LET R2 == R \cup {e[2] : e \in {x \in E : x[1] \in R}} IN IF R2 = R THEN R ELSE Reach(E, R2)
Symmetric(E) == \A e \in E : <<e[2], e[1]>> \in E
NoSelfLoop(E) == \A e \in E : e[1] # e[2]
Connected(E, k) == k >= 1 => Reach(E, {0}) = Nodes(k)
Count(kd, k) == CASE k = 0 -> 0
                  [] kd \in {"chain", "hub"} -> 2 * (k - 1)
                  [] kd = "ring" -> IF k <= 2 THEN 2 * (k - 1) ELSE 2 * k
                  [] kd = "cluster" -> k * (k - 1)
Degree(E, i) == Cardinality({e \in E : e[1] = i})
Shape(kd, E, k) == CASE kd = "ring" /\ k >= 3 -> \A i \in Nodes(k) : Degree(E, i) = 2
                     [] kd = "chain" /\ k >= 2 -> Degree(E, 0) = 1 /\ Degree(E, k - 1) = 1 /\ \A i \in 1..(k - 2) : Degree(E, i) = 2
                     [] kd = "hub" /\ k >= 2 -> Degree(E, 0) = k - 1 /\ \A i \in 1..(k - 1) : Degree(E, i) = 1
                     [] kd = "cluster" -> \A i \in Nodes(k) : Degree(E, i) = k - 1
                     [] OTHER -> TRUE
LawsOf(kd, E, k) == Symmetric(E) /\ NoSelfLoop(E) /\ Connected(E, k) /\ Cardinality(E) = Count(kd, k) /\ Shape(kd, E, k)
Init == kind \in Kinds /\ n \in 0..MaxN
Next == UNCHANGED <<kind, n>>
Spec == Init /\ [][Next]_<<kind, n>>
Laws == LawsOf(kind, Edges(kind, n), n)
=============================================================================
