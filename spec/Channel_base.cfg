SPECIFICATION FairSpec
CONSTANTS
  MaxS = 4
  MaxRestart = 0
  MaxRekey = 0
  MaxSendCalls = 1
  AcceptA = {"A", "B", "M"}
  AcceptB = {"A", "B", "M"}
  RestartKeys = {"A"}
  Eager = FALSE
INVARIANTS SlotsWellFormed OnlyAccepted Continuity AtMostOnceP
PROPERTIES Undisturbed Converges
CHECK_DEADLOCK FALSE
