--------------------------- MODULE ConnTableTrace ---------------------------
(* Binds ConnTable.tla to the real quicswarm / sshswarm nodes driven by harness/cmd/conntabreplay.   *)
(* One log line per group of a schedule (ev = "grp": the results of its operations, then, after the   *)
(* observation has settled, every node's table, the number of open connection ends outside the        *)
(* tables, and everything delivered so far) and one at the end of a run (ev = "end": every node has    *)
(* been closed).                                                                                      *)
(*   VIOL   a law operator of ConnTable is false on the observation                                   *)
(*   DRIFT  the observed outcome of the group is not among the outcomes ConnTableGen!OutSpec found    *)
(*          for that group over all interleavings (ConnTableU!Allowed), or the observation never      *)
(*          settled; no law is falsified                                                              *)
(* Scheduling is not controlled: only the observed outcome is judged, several outcomes are legal.     *)
(* Constants of ConnTable are not used here (the law operators take the transport from the log).      *)
EXTENDS ConnTable, IOUtils, Json, ConnTableU

Log == ndJsonDeserialize(IOEnv.TRACE)
VARIABLES l, prev, sofar
tvars == <<vars, l, prev, sofar>>

Range(s) == {s[i] : i \in 1..Len(s)}
Names(S) == {n \in DOMAIN S : S[n]}

Fresh(ev) == [nodes |-> <<>>, ents |-> <<>>, dl |-> <<>>, settled |-> TRUE, fresh |-> TRUE]
IsOp(o) == o.op \in {"tell", "ask"}
ClosedIn(e) == {x.n : x \in {y \in Range(e.nodes) : y.closed}}

\* the operation started in a quiet state between two open nodes with nothing stale or dead in the way,
\* and nothing but other such operations ran beside it (ConnTable!HealthyAt on the previous observation)
Healthy(ev, p, o) ==
    /\ \A x \in Range(ev.ops) : IsOp(x) /\ x.id = x.to
    /\ p.settled
    /\ o.from \notin ClosedIn(p) /\ o.to \notin ClosedIn(p)
    /\ \A e \in Range(p.ents) : e.n = o.from /\ e.kad = o.to => e.alive /\ ~e.stale
    /\ o.via = "src" => o.pre
    /\ o.res # "skip"

OpObsT(ev, p, o) == [from |-> o.from, to |-> o.to, id |-> o.id, kind |-> o.op, res |-> o.res, by |-> o.by, healthy |-> Healthy(ev, p, o)]
Delivered(ev, o) == \E d \in Range(ev.dl) : d.k = o.k /\ ~d.ask

ShapeT(e) == <<e.n, e.kid, e.kad, e.dir, e.alive>>
OutcomeT(ev) ==
    [res |-> [j \in 1..Len(ev.ops) |-> ev.ops[j].res],
     ents |-> {<<sh, Cardinality({j \in 1..Len(ev.ents) : ShapeT(ev.ents[j]) = sh})>> : sh \in {ShapeT(e) : e \in Range(ev.ents)}},
     orph |-> ev.orph,
     dl |-> {j \in 1..Len(ev.ops) : IsOp(ev.ops[j]) /\ Delivered(ev, ev.ops[j])}]
Predicted(ev) == ev.beh \in DOMAIN Allowed /\ ev.i \in DOMAIN Allowed[ev.beh]
Explained(ev) == Predicted(ev) /\ OutcomeT(ev) \in Allowed[ev.beh][ev.i]

\* all operations of the run so far, for judging deliveries
OpOf(all, k) == CHOOSE o \in Range(all) : o.k = k
Res(ev, p, all) ==
    LET ents == Range(ev.ents)
        gops == {o \in Range(ev.ops) : IsOp(o) /\ o.res # "skip"}
        dls == Range(ev.dl)
        new == dls \ Range(p.dl)          \* deliveries are judged once, when they are first seen
        known == {d \in new : \E o \in Range(all) : o.k = d.k}
        isEnd == ev.ev = "end"
    IN
    IF ev.panic # "" THEN [viol |-> {"NoPanic"}, drift |-> {}]
    ELSE
    [viol |-> Names([
        TableIdentity |-> ~TableIdentityP(ents),
        DeadRemoved |-> ev.settled /\ ~isEnd /\ ~DeadRemovedP(ents),
        \* an orphan the model predicts is the recorded finding (quicswarm.putSession overwrites a live session)
        NoOrphanReplaced |-> ev.settled /\ ~isEnd /\ ~NoOrphanP(ev.orph) /\ ev.tr = "quic" /\ Explained(ev),
        NoOrphan |-> ev.settled /\ ~isEnd /\ ~NoOrphanP(ev.orph) /\ ~(ev.tr = "quic" /\ Explained(ev)),
        AfterClose |-> ev.settled /\ ~AfterCloseP(ents, ClosedIn(ev)),
        \* when every node has been closed nothing is open any more (quic: no goroutine inside connection.run;
        \* ssh: no TCP connection open at the forwarders)
        AllReleasedAtEnd |-> ev.settled /\ isEnd /\ ev.nlive # 0,
        OkOnlyIfPeer |-> \E o \in gops : ~OkOnlyIfPeerP(OpObsT(ev, p, o)),
        AskAnswered |-> \E o \in gops : ~AskAnsweredP(OpObsT(ev, p, o)),
        HealthySucceeds |-> \E o \in gops : ~HealthySucceedsP(OpObsT(ev, p, o)),
        HealthyDelivered |-> ev.settled /\ \E o \in gops : ~HealthyDeliveredP(OpObsT(ev, p, o), Delivered(ev, o)),
        DeliveryRight |-> \E d \in known : LET o == OpOf(all, d.k) IN
                              ~(DeliveryRightP(d, [from |-> o.from, to |-> o.to, id |-> o.id]) /\ d.srcad = o.from /\ d.dstok),
        ForeignDelivery |-> new # known,
        AtMostOnce |-> ~AtMostOnceP(dls)]),
     drift |-> Names([
        Unsettled |-> ~ev.settled,
        Outcome |-> ev.settled /\ ~isEnd /\ Predicted(ev) /\ ~Explained(ev)])]

TraceInit == l = 1 /\ prev = Fresh(0) /\ sofar = <<>> /\ Init
TraceNext ==
    /\ l <= Len(Log)
    /\ LET ev == Log[l]
           p == IF ev.i = 1 THEN Fresh(0) ELSE prev
           all == (IF ev.i = 1 THEN <<>> ELSE sofar) \o ev.ops
           r == Res(ev, p, all)
       IN /\ (r.viol # {}) => PrintT(ToJson(<<"VIOL", l, ev.beh, r.viol>>))
          /\ (r.drift # {}) => PrintT(ToJson(<<"DRIFT", l, ev.beh, r.drift>>))
          /\ prev' = [nodes |-> ev.nodes, ents |-> ev.ents, dl |-> ev.dl, settled |-> ev.settled, fresh |-> FALSE]
          /\ sofar' = all
    /\ l' = l + 1
    /\ UNCHANGED vars
TraceSpec == TraceInit /\ [][TraceNext]_tvars
AllConsumed == TLCGet("distinct") >= Len(Log) + 1
=============================================================================
