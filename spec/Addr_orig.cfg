SPECIFICATION Spec
CONSTANTS
  MaxDepth = 1
  Rich = FALSE
  UdpBrackets = FALSE
  SshPlus = FALSE
INVARIANTS RoundTripLaw
CHECK_DEADLOCK FALSE
