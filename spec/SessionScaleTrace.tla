-------------------------- MODULE SessionScaleTrace --------------------------
(* Real-scale cases of C02 that the small Session.tla model cannot hold (replay window of 8192,   *)
(* counter limit 2^32-2, 16 goroutines racing Send on a Session and on a Channel).  One event per   *)
(* case; the laws are Session.tla's AtMostOnce / NonceUnique / Authentic stated on the counts.       *)
EXTENDS Integers, Sequences, FiniteSets, TLC, Json, IOUtils
Log == ndJsonDeserialize(IOEnv.TRACE)
VARIABLE l
Viol(ev) ==
    (IF ev.panic THEN {"NoPanic"} ELSE {})
    \cup (IF ev.dupaccept > 0 THEN {"AtMostOnce"} ELSE {})
    \cup (IF ev.wrong > 0 THEN {"Authentic"} ELSE {})
    \cup (IF ev.dupnonce > 0 \/ ev.lownonce > 0 THEN {"NonceUnique"} ELSE {})
    \* every record sent in order is delivered (the replay filter must not drop fresh records)
    \cup (IF ev.case \in {"window", "reorder"} /\ ~ev.panic /\ ev.accepted # ev.sent THEN {"FreshAccepted"} ELSE {})
    \* the session stops sending before the counter can wrap
    \cup (IF ev.case = "limit" /\ ~ev.panic /\ (ev.senderr = 0 \/ ev.headroom < 1) THEN {"NonceUnique"} ELSE {})
TraceInit == l = 1
TraceNext == /\ l <= Len(Log) /\ l' = l + 1
             /\ LET vs == Viol(Log[l]) IN (vs # {}) => PrintT(ToJson(<<"VIOL", l, Log[l].beh, vs>>))
TraceSpec == TraceInit /\ [][TraceNext]_l
AllConsumed == TLCGet("distinct") >= Len(Log) + 1
=============================================================================
