------------------------------ MODULE Wrappers ------------------------------
(***************************************************************************)
(* G06: the thin wrapper swarms as REFINEMENT LAYERS over the realm contract *)
(* of VSwarm.tla: an abstract inner swarm (VSwarm with no wrapper) and the   *)
(* wrapper's transformation of calls, results and callbacks.                 *)
(*                                                                         *)
(* wlswarm (s/wlswarm/whitelist.go), allow function af of the node:          *)
(*   Tell / Ask to dst      af(dst) false: error "address unreachable", the  *)
(*                          inner swarm is not called (lines 37, 69)         *)
(*   Receive                loops over inner Receive until a message with    *)
(*                          af(Src) true arrives; the others are consumed    *)
(*                          and dropped silently (line 44).  They DO occupy   *)
(*                          the inner queue until a Receive consumes them:   *)
(*                          a refused sender can crowd out an admitted one.  *)
(*   ServeAsk               loops over inner ServeAsk; a request with        *)
(*                          af(Src) false is answered -1 by the wrapper (the *)
(*                          asker gets an error), the handler is not called  *)
(*                          (line 77)                                        *)
(*   LookupPublicKey, PublicKey, LocalAddrs, MTU, ParseAddr, Close: inner    *)
(* mapswarm (s/mapswarm/mapswarm.go), maps down : Above -> Below, up:        *)
(*   Tell(dst)              inner Tell(down(dst))                            *)
(*   Receive                Src and Dst of the inner message mapped up        *)
(*   LocalAddrs             up of the inner ones; ParseAddr: the given parser *)
(*   LookupPublicKey(a)     inner LookupPublicKey(down(a)); no Ask            *)
(*                                                                         *)
(* VSwarm.tla carries the two hooks the layers need inside the inner model   *)
(* (Admit: receive-side admission, OutAllowed: send-side).  This module      *)
(* defines the layers FROM THE OUTSIDE, with the bare inner Apply only, and  *)
(* TLC checks that both definitions agree on every group from every          *)
(* reachable state (LayerAgrees): the wrapper laws of VSwarm.tla (WlInbound, *)
(* WlOutbound, and every realm law read through the mapping) are laws of     *)
(* "inner swarm + transformation".                                          *)
(* Law of mapswarm: with up o down = id (MapInverse) the wrapped swarm is    *)
(* the inner swarm with its addresses renamed (MapTransparent).              *)
(***************************************************************************)
EXTENDS Integers, Sequences, FiniteSets, TLC

CONSTANTS Addrs, Unknown, QLen, Kind, TfKind,
          WAllow,     \* the allow sets of the wlswarm wrappers: [Addrs -> SUBSET (Addrs \cup {Unknown})]
          MapOff,     \* mapswarm: up(a) = a + MapOff, down(b) = b - MapOff
          N0, Sizes, Handlers, MaxOps, MaxBlocked

Everybody == [a \in Addrs |-> Addrs \cup {Unknown}]
\* (= VSwarm!AllowMixed) node 0 talks to 0 and 1 only, node 1 to 0 only, node 2 to everybody
WAllowMixed == [a \in Addrs |-> IF a = 0 THEN (Addrs \cup {Unknown}) \ {2, Unknown} ELSE IF a = 1 THEN {0} ELSE Addrs \cup {Unknown}]
Inner == INSTANCE VSwarm WITH Wrap <- "none", Allow <- Everybody       \* the abstract inner swarm
Hooked == INSTANCE VSwarm WITH Wrap <- "wl", Allow <- WAllow           \* the inner model with the wlswarm hooks

-----------------------------------------------------------------------------
(* wlswarm from the outside                                                 *)
Allowed(n, x) == x \in WAllow[n]

\* where a blocked call runs
RecvNode(st, o, id) == IF o.op = "recv" /\ o.id = id THEN o.a ELSE CHOOSE a \in Addrs : id \in st.pr[a]
ServeRec(st, o, id) == IF o.op = "serve" /\ o.id = id THEN [a |-> o.a, h |-> o.h]
                       ELSE LET a == CHOOSE a \in Addrs : \E sv \in st.ps[a] : sv.id = id IN
                            [a |-> a, h |-> (CHOOSE sv \in st.ps[a] : sv.id = id).h]

\* the wrapper's loops: an inner Receive that came back with a message of a refused source is started again; an
\* inner ServeAsk whose request came from a refused source has answered -1 and is started again
RECURSIVE WlPost(_, _, _)
WlPost(st0, o, out) ==      \* st0: the state before the call (to find where blocked calls run); a SET of outcomes
    LET badR == {c \in out.done : c.kind = "recv" /\ c.res = "msg" /\ ~Allowed(RecvNode(st0, o, c.id), c.src)}
        badS == {c \in out.done : c.kind = "serve" /\ c.res = "req" /\ ~Allowed(ServeRec(st0, o, c.id).a, c.src)}
    IN IF badR # {} THEN
           LET c == CHOOSE c \in badR : TRUE
               a == RecvNode(st0, o, c.id)
           IN UNION {WlPost(st0, o, [st |-> again.st, res |-> out.res, done |-> (out.done \ {c}) \cup again.done])
                     : again \in Inner!Recv(out.st, Inner!OpRecv(c.id, a, "wait"))}
       ELSE IF badS # {} THEN
           LET c == CHOOSE c \in badS : TRUE
               sr == ServeRec(st0, o, c.id)
               answered == {k \in out.done : k.kind = "ask" /\ k.id = c.pid}
               done1 == ((out.done \ {c}) \ answered) \cup {Inner!Plain(c.pid, "ask", "neg")}
           IN UNION {WlPost(st0, o, [st |-> again.st, res |-> out.res, done |-> done1 \cup again.done])
                     : again \in Inner!Serve(out.st, Inner!OpServe(c.id, sr.a, sr.h))}
       ELSE {out}

WlApply(st, o) ==
    IF o.op = "tell" /\ ~Allowed(o.a, o.b) THEN {Inner!Out(st, "err", {})}
    ELSE IF o.op = "ask" /\ ~Allowed(o.a, o.b) THEN {Inner!Out(st, "-", {Inner!Plain(o.id, "ask", "err")})}
    ELSE UNION {WlPost(st, o, out) : out \in Inner!Apply(st, o)}

\* REFINEMENT: the layer over the bare inner swarm is the inner model with its hooks (busy is bookkeeping of the
\* running group; a consumed-and-dropped message has been handled like any other)
LayerAgrees(st, o) == WlApply(st, o) = Hooked!Apply(st, o)

-----------------------------------------------------------------------------
(* mapswarm from the outside                                                *)
Up(a) == a + MapOff
Down(b) == b - MapOff
MapInverse == \A a \in Addrs \cup {Unknown} : Down(Up(a)) = a
UpOp(o) == [o EXCEPT !.a = IF @ = -1 THEN -1 ELSE Up(@), !.b = IF @ = -1 THEN -1 ELSE Up(@)]
DownOp(o) == [o EXCEPT !.a = IF @ = -1 THEN -1 ELSE Down(@), !.b = IF @ = -1 THEN -1 ELSE Down(@)]
UpComp(c) == IF c.res \in {"msg", "req"} THEN [c EXCEPT !.src = Up(@), !.dst = Up(@)] ELSE c
DownComp(c) == IF c.res \in {"msg", "req"} THEN [c EXCEPT !.src = Down(@), !.dst = Down(@)] ELSE c
\* a call on the wrapped swarm, in upper addresses: inner call on the mapped arguments, callbacks mapped up
MapApply(st, ou) == {[st |-> out.st, res |-> out.res, done |-> {UpComp(c) : c \in out.done}] : out \in Inner!Apply(st, DownOp(ou))}
\* ... is the inner swarm's behaviour with the addresses renamed
MapTransparent(st, o) == {[st |-> w.st, res |-> w.res, done |-> {DownComp(c) : c \in w.done}] : w \in MapApply(st, UpOp(o))} = Inner!Apply(st, o)
\* the read-only methods through the mapping
MapLocalAddrs(a) == <<Up(a)>>
MapLookup(st, tu) == Inner!LookupOf(st, Down(tu))
MapObsConsistent(st) == \A a \in st.own : MapLocalAddrs(a) = <<Up(a)>> /\ \A t \in st.own \cup {Unknown} : MapLookup(st, Up(t)) = Inner!LookupOf(st, t)

-----------------------------------------------------------------------------
(* Model checking: the reachable states of the hooked model, every operation checked both ways            *)
VARIABLES st, nops, nid
wvars == <<st, nops, nid>>
Blocked(s) == UNION {s.pr[a] : a \in Addrs} \cup UNION {{sv.id : sv \in s.ps[a]} : a \in Addrs} \cup {k.id : k \in s.pa}
Ops(s, id) ==
       {Inner!OpTell(id, a, b, sz, "-") : a \in s.own, b \in Addrs \cup {Unknown}, sz \in Sizes}
  \cup {Inner!OpRecv(id, a, "wait") : a \in {a \in s.own : Cardinality(s.pr[a]) < MaxBlocked}}
  \cup {Inner!OpServe(id, a, h) : a \in {a \in s.own : Cardinality(s.ps[a]) < MaxBlocked}, h \in Handlers}
  \cup (IF Cardinality(s.pa) < MaxBlocked THEN {Inner!OpAsk(id, a, b, sz) : a \in s.own, b \in Addrs \cup {Unknown}, sz \in Sizes} ELSE {})
  \cup {Inner!OpClose(id, a) : a \in s.own}
  \cup {Inner!OpCancel(id, t) : t \in Blocked(s)}
  \cup (IF Cardinality(s.own) \in Addrs THEN {Inner!OpNew(id)} ELSE {})
Quiet(s) == [s EXCEPT !.busy = [a \in Addrs |-> 0]]
WInit == st = Inner!InitSt(N0) /\ nops = 0 /\ nid = 1
WNext == /\ nops < MaxOps
         /\ \E o \in Ops(st, nid) : \E out \in Hooked!Apply(st, o) : st' = Quiet(out.st)
         /\ nops' = nops + 1 /\ nid' = nid + 1
WSpec == WInit /\ [][WNext]_wvars
\* (checked as invariants of the reachable states: every operation that could come next)
WlRefines == \A o \in Ops(st, nid) : LayerAgrees(st, o)
MapRefines == MapInverse /\ MapObsConsistent(st) /\ \A o \in {o \in Ops(st, nid) : o.op \notin {"serve", "ask"}} : MapTransparent(st, o)
\* view: the numbering of calls is irrelevant
wview == <<st.own, st.open, [a \in Addrs |-> [i \in 1..Len(st.q[a]) |-> <<st.q[a][i].src, st.q[a][i].dst, st.q[a][i].sz>>]],
           [a \in Addrs |-> Cardinality(st.pr[a])], [a \in Addrs |-> {<<h, Cardinality({sv \in st.ps[a] : sv.h = h})>> : h \in {sv.h : sv \in st.ps[a]}}],
           {<<k.from, k.to, k.sz>> : k \in st.pa}, nops>>
=============================================================================
