----------------------------- MODULE MC_SSHAuth -----------------------------
(* Stand-alone model check of SSHAuth.tla: a client that holds only priv(M) sends every sequence of  *)
(* Query(k) / Signed(k) requests, k in {A, B, M}, up to MaxSteps.  RecordedIsProven is the          *)
(* connection-level core of C04's Attribution: the key the application records is the key whose      *)
(* private half was used.  With Fixed = FALSE (the code before the repair of F13) TLC must find the  *)
(* counterexample Query(M), Query(V), Signed(M): that run is the check's self-test.                  *)
EXTENDS SSHAuth, TLC
CONSTANTS MaxSteps, Fixed
Keys == {"A", "B", "M"}
VARIABLES au, steps
avars == <<au, steps>>
AInit == au = NoAuth /\ steps = 0
ANext == /\ au.st = "auth" /\ steps < MaxSteps /\ steps' = steps + 1
         /\ \E k \in Keys : au' = Query(au, k) \/ au' = Signed(au, k, {"M"})
ASpec == AInit /\ [][ANext]_avars
RecordedIsProven == au.st = "ok" => (Recorded(au, Fixed) = au.authKey /\ au.authKey = "M")
NeverProvesOther == au.st = "ok" => au.authKey = "M"
CacheBounded == Len(au.cache) <= CacheMax
=============================================================================
