SPECIFICATION Spec
CONSTANTS
  Keys <- MCKeysT
  MLens <- MCMLensT
  DLens <- MCDLens
  Repaired = TRUE
INVARIANTS ModelLaws NeverPanics Dump
CHECK_DEADLOCK FALSE
