----------------------------- MODULE DHTNodeTie -----------------------------
(* KadCache's own specification (families of MC_KadCache) checked against the functional restatement of  *)
(* DHTNodeOps: TieProp (every KadCache step is the function's outcome), TieOutcomes (the read functions).  *)
EXTENDS MC_KadCache, DHTNodeOps
=============================================================================
