SPECIFICATION Spec
CONSTANTS
  Locus <- SmallLocus
  Keys <- FocusKeys
  Queries <- FocusQueries
  Configs <- RefConfigs
  RefBase <- FocusConfigs
  RefMax = 3
  RefMin = 0
  TimeDom <- [KadCacheAbs] RefTimes
  MaxNB <- [KadCacheAbs] RefMaxNB
  Vals = {1}
  Times = {1}
  TouchTimes = {0}
  ExpTimes = {2, 3, 4}
  Exps = {0, 1, 2, 3}
  MaxOps = 5
VIEW view
INVARIANTS AbsParams AbsCtorPre AbsIndInv AbsEvictPossible CountExact Bounded
PROPERTIES AbsSpec
CHECK_DEADLOCK FALSE
