SPECIFICATION GenSpec
CONSTANTS
  Sess <- Pair
  Role <- PairRole
  KeyOf <- PairKey
  EphOf <- PairEph
  SessIdx <- PairIdx
  MaxForge = 4
  MaxSend = 2
  Window = 1000
  Weak = {}
  MaxSteps = 16
CHECK_DEADLOCK FALSE
