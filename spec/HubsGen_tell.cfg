SPECIFICATION GenSpec
CONSTANTS
  Hub = "tell"
  D = {d1, d2, d3, d4, d5, d6}
  R = {r1, r2, r3, r4, r5, r6}
  C = {c1, c2}
  P = {}
  Cap = 0
  BugNoClosedCase = FALSE
  BugNilErr = FALSE
  Bs = {0, 1, 4}
  Phases = {"idle", "pre", "cb", "post", "cancel"}
  CFirst = c1
  CSecond = c2
  RLate = r6
  DLate = d6
  W = 2
CHECK_DEADLOCK FALSE
