SPECIFICATION Spec
CONSTANTS
  B = 256
  HW = 4
  Counters <- MCBytes
  BLens = {0, 1, 40}
  Alphabet = {1, 2}
INVARIANTS ModelLaws Dump
CHECK_DEADLOCK FALSE
