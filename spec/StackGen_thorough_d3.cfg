SPECIFICATION Spec
CONSTANTS
  InnerMtus <- MtuSet3
  Bases <- BaseV
  TopLayers <- FewLayers
  LowLayers <- FewLayers
  Depth = 3
  SizeCap = 300000
INVARIANTS Dump
CHECK_DEADLOCK FALSE
