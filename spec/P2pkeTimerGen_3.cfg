SPECIFICATION GenSpec
CONSTANTS
  MaxLen = 3
INVARIANTS Dump
CHECK_DEADLOCK FALSE
