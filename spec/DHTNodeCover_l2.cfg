SPECIFICATION CoverSpec
CONSTANTS
  Locus <- L2Locus
  Keys <- L2Keys
  Queries <- L2Queries
  Vals <- NNone
  Times <- NNone
  TouchTimes <- NNone
  ExpTimes <- NNone
  Exps <- NNone
  Configs <- NNone
  MaxOps = 2
  LocalID <- NLocal
  PeerIDs <- L2Peers
  DataKeys <- L2Data
  Infos = {1}
  DVals = {1}
  PutTTLs = {0}
  HPutTTLs = {3}
  PeerTTL = 2
  MaxDataTTL = 2
  MaxNow = 3
  NodeConfigs <- L2Configs
  Targets <- L2Targets
  Limits <- L2Limits
  Orig <- NNone
VIEW nview
INVARIANTS NodeTypeOK CachesOK GhostAgrees ObsLawsHold DumpEvery
PROPERTIES NodeStepLawsProp
CHECK_DEADLOCK FALSE
