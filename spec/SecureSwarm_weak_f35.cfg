SPECIFICATION Spec
CONSTANTS
  Kinds <- AllKinds
  WLA <- AllWL
  WLB <- OnlyAll
  Weak <- WeakF35
  MaxConn = 1
  MaxSend = 2
  MaxAdv = 0
  CacheMax = 16
  Extras = {}
  Asks = {FALSE}
INVARIANTS Whitelist
CHECK_DEADLOCK FALSE
