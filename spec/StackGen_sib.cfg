SPECIFICATION Spec
CONSTANTS
  InnerMtus <- MtuSib
  Bases <- BaseV
  TopLayers <- SibLayers
  LowLayers <- NoLayers
  Depth = 1
  SizeCap = 300000
INVARIANTS Dump
CHECK_DEADLOCK FALSE
