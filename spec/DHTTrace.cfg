SPECIFICATION TraceSpec
CONSTANTS
  N = 0
  Ops <- TNone
  Initials <- TNone
  Replies <- TNone
  Mins <- TNone
  ValClasses <- TNone
  VModes <- TNone
  Dists <- TNone
  Orig = FALSE
POSTCONDITION AllConsumed
CHECK_DEADLOCK FALSE
