SPECIFICATION TraceSpec
CONSTANTS
  N = 0
  Ops <- TNone
  Initials <- TNone
  Replies <- TNone
  Mins <- TNone
  Orig = FALSE
POSTCONDITION AllConsumed
CHECK_DEADLOCK FALSE
