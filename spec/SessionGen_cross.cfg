SPECIFICATION GenSpec
CONSTANTS
  Sess <- Cross
  Role <- CrossRole
  KeyOf <- CrossKey
  EphOf <- CrossEph
  SessIdx <- CrossIdx
  MaxForge = 2
  MaxSend = 2
  Window = 1000
  Weak = {}
  MaxSteps = 22
CHECK_DEADLOCK FALSE
