-------------------------- MODULE SecureSwarmTrace --------------------------
(***************************************************************************)
(* Trace specification binding SecureSwarm.tla to the real secure swarms.  *)
(* The log (harness/cmd/secreplay) holds, per replayed script:             *)
(*   init     swarm kind, the whitelist configured at A and at B, and who  *)
(*            holds which private key (ground truth);                      *)
(*   send     BEFORE a Tell/Ask is issued: payload id, sender, the         *)
(*            identity and the owner of the transport address it is        *)
(*            addressed to, the key whose private half the sender used in  *)
(*            the handshake of the carrying connection (ground truth), and *)
(*            the model's prediction for this payload;                     *)
(*   deliver  from INSIDE a Receive / ServeAsk callback of A or B: the     *)
(*            payload id, the key whose fingerprint is Src.ID and the key  *)
(*            p2p.LookupPublicKeyInHandler(Src) returned (or "panic");     *)
(*   saw      the adversary's endpoint obtained the payload in clear;      *)
(*   lookup   a LookupPublicKey call of A or B OUTSIDE a handler returned: *)
(*            the identity and transport owner of the address asked about  *)
(*            and the key that came back ("err": none);                    *)
(*   end      the script is over and everything has settled.               *)
(* The three operators are SecureSwarm.tla's Attribution, DialSafety and   *)
(* Whitelist in their per-observation form, evaluated on REAL              *)
(* observations.  A violated operator prints <<"VIOL", line, behaviour,    *)
(* names>>; a disagreement between the model's prediction and the          *)
(* observation prints <<"DRIFT", ...>> and is not a verdict.  The spec     *)
(* never blocks.                                                           *)
(***************************************************************************)
EXTENDS Integers, Sequences, FiniteSets, TLC, Json, IOUtils

Log == ndJsonDeserialize(IOEnv.TRACE)
NShards == atoi(IOEnv.NSHARDS)

VARIABLES l, fresh, starts,
          wl,       \* [honest node -> set of identities its whitelist admits]
          holds,    \* [node -> set of keys whose private half it holds]
          snd,      \* [payload id -> send event]
          got,      \* set of <<payload id, node>> handed to a callback so far
          seen      \* set of payload ids the adversary's endpoint obtained
tvars == <<l, fresh, starts, wl, holds, snd, got, seen>>

ToSet(s) == {s[i] : i \in 1..Len(s)}
Resets == {i \in 1..Len(Log) : Log[i].ev = "init"}
ComputeStarts == {1} \cup {CHOOSE i \in Resets : i >= c /\ \A j \in Resets : j >= c => i <= j :
                      c \in {c2 \in {(k * Len(Log)) \div NShards + 1 : k \in 1..(NShards - 1)} :
                                 \E i \in Resets : i >= c2}}

TraceInit ==
    /\ starts = ComputeStarts /\ l \in starts /\ fresh = TRUE
    /\ wl = <<>> /\ holds = <<>> /\ snd = <<>> /\ got = {} /\ seen = {}

Upd(f, k, v) == [x \in (DOMAIN f) \cup {k} |-> IF x = k THEN v ELSE f[x]]
HonestNodes == DOMAIN wl

\* ---- C04, per observation ---------------------------------------------------------------------
\* s: the send event of the payload; d: the deliver event
AttributionP(s, d) ==
    /\ s.used \in holds[s.from]          \* the sender really used a private key it holds in that handshake
    /\ d.src = s.used                    \* ... and Src.ID is the fingerprint of exactly that key
    /\ d.lk \in {s.used, "panic"}        \* ... and so is the key the in-handler lookup returns (no key: DRIFT)
\* n: the node that was handed the payload
DialSafetyP(s, n) == s.from \in HonestNodes => s.x \in holds[n]
WhitelistP(s, n) == s.used \in wl[n]
\* e: a lookup event.  A key handed out for the address (X, t) is X's key.
LookupP(e) == e.lk \in {"err", e.x}

TraceNext ==
    /\ l <= Len(Log)
    /\ (fresh \/ l \notin starts)
    /\ fresh' = FALSE /\ starts' = starts /\ l' = l + 1
    /\ LET ev == Log[l] IN
       IF ev.ev = "init" THEN
           /\ wl' = [n \in DOMAIN ev.wl |-> ToSet(ev.wl[n])]
           /\ holds' = [n \in DOMAIN ev.holds |-> ToSet(ev.holds[n])]
           /\ snd' = <<>> /\ got' = {} /\ seen' = {}
       ELSE IF ev.ev = "send" THEN
           /\ snd' = Upd(snd, ev.p, ev)
           /\ UNCHANGED <<wl, holds, got, seen>>
       ELSE IF ev.ev = "deliver" THEN
           /\ got' = got \cup {<<ev.p, ev.at>>}
           /\ UNCHANGED <<wl, holds, snd, seen>>
           /\ IF ev.p \notin DOMAIN snd
              THEN PrintT(ToJson(<<"DRIFT", l, ev.beh, "delivery of a payload that no send of this script announced">>))
              ELSE LET s  == snd[ev.p]
                       vs == (IF ~AttributionP(s, ev) THEN {"Attribution"} ELSE {})
                             \cup (IF ~DialSafetyP(s, ev.at) THEN {"DialSafety"} ELSE {})
                             \cup (IF ~WhitelistP(s, ev.at) THEN {"Whitelist"} ELSE {})
                       drift == \/ (s.exp.sure /\ (~s.exp.dl \/ s.exp.at # ev.at \/ s.exp.src # ev.src))
                                \/ ev.lk = "panic"
                                \/ <<ev.p, ev.at>> \in got
                   IN /\ (vs # {}) => PrintT(ToJson(<<"VIOL", l, ev.beh, vs>>))
                      /\ drift => PrintT(ToJson(<<"DRIFT", l, ev.beh,
                                    IF ev.lk = "panic" THEN "LookupPublicKeyInHandler panicked"
                                    ELSE IF <<ev.p, ev.at>> \in got THEN "delivered twice"
                                    ELSE "delivery the model did not predict">>))
       ELSE IF ev.ev = "saw" THEN
           /\ seen' = seen \cup {ev.p}
           /\ UNCHANGED <<wl, holds, snd, got>>
           /\ (ev.p \in DOMAIN snd) =>
                LET s == snd[ev.p] IN
                /\ ~DialSafetyP(s, ev.at) => PrintT(ToJson(<<"VIOL", l, ev.beh, {"DialSafety"}>>))
                /\ (s.exp.sure /\ ~s.exp.seen /\ s.from \in HonestNodes) =>
                        PrintT(ToJson(<<"DRIFT", l, ev.beh, "the adversary read a payload the model did not predict">>))
       ELSE IF ev.ev = "lookup" THEN
           /\ UNCHANGED <<wl, holds, snd, got, seen>>
           /\ ~LookupP(ev) => PrintT(ToJson(<<"VIOL", l, ev.beh, {"Attribution"}>>))
           /\ (ev.exp.sure /\ ev.lk # (IF ev.exp.st = "got" THEN ev.exp.res ELSE "err")) =>
                    PrintT(ToJson(<<"DRIFT", l, ev.beh, "LookupPublicKey result the model did not predict">>))
       ELSE IF ev.ev = "end" THEN
           /\ UNCHANGED <<wl, holds, snd, got, seen>>
           /\ LET missing == {p \in DOMAIN snd : snd[p].exp.sure /\
                                 \/ (snd[p].exp.dl /\ <<p, snd[p].exp.at>> \notin got)
                                 \/ (snd[p].exp.seen /\ p \notin seen)} IN
              (missing # {}) => PrintT(ToJson(<<"DRIFT", l, ev.beh, "predicted delivery did not happen">>))
       ELSE UNCHANGED <<wl, holds, snd, got, seen>>

TraceSpec == TraceInit /\ [][TraceNext]_tvars
AllConsumed == TLCGet("distinct") >= Len(Log) + 1
=============================================================================
