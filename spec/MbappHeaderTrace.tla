-------------------------- MODULE MbappHeaderTrace --------------------------
(* Binds MbappHeader.tla to the real mbapp.Header: each log line (wirereplay -mode mbapp) is one      *)
(* executed case.  kind "set": the header bytes before / after one setter call, the sender's 40-bit   *)
(* integer, and what EVERY getter returned before and after; kind "parse": ParseMessage on a message  *)
(* of n bytes; kind "emit": the flags of a message the real Swarm sent (Tell, Ask, a handler's reply, *)
(* a handler's error reply); kind "recv": what the real handleMessage did with a well-formed          *)
(* single-part message carrying the given flags (while an ask of the receiving swarm is pending).     *)
(* VIOL: a law operator of MbappHeader is false on the observation.  DRIFT: the observation differs   *)
(* from the layout / the as-coded model without falsifying a law (e.g. an unused mode bit changed).   *)
EXTENDS Integers, Sequences, FiniteSets, TLC, Json, IOUtils

MH == INSTANCE MbappHeader WITH W <- 32, IW <- 40, AllBits <- FALSE, AllValues <- FALSE, h <- 0, f <- 0, v <- 0

Log == ndJsonDeserialize(IOEnv.TRACE)
VARIABLES l

BB == [b \in 0..255 |-> MH!Bits(b, 8)]
Expand(bs) == [i \in 1..(8 * Len(bs)) |-> BB[bs[((i - 1) \div 8) + 1]][((i - 1) % 8) + 1]]
GBits(g, bs) == IF g \in MH!Flags THEN bs ELSE Expand(bs)
GAll(rec) == [g \in MH!Fields |-> GBits(g, rec[g])]
NZ(e) == IF e = 0 THEN 0 ELSE 1
\* what the real sender was seen to emit in this log
Emitted == {<<Log[i].a, Log[i].r, NZ(Log[i].e)>> : i \in {j \in 1..Len(Log) : Log[j].kind = "emit" /\ Log[j].got}}

Viol(ev) ==
    IF ev.panic THEN {"NoPanic"} ELSE
    CASE ev.kind = "set" ->
           LET ga == GAll(ev.g1)
               gb == GAll(ev.g0)
               x == Expand(ev.v) IN
           {n \in {"RoundTrip", "Frame", "HeaderSize", "Derived"} :
               CASE n = "RoundTrip" -> ~MH!RoundTripP(ev.f, x, ga)
                 [] n = "Frame" -> ~MH!FrameP(ev.f, gb, ga)
                 [] n = "HeaderSize" -> ~(MH!HeaderSizeP(ev.hs) /\ Len(ev.h1) = ev.hs)
                 [] n = "Derived" -> ~(ev.tmexact /\ ev.gidok)}
      [] ev.kind = "parse" ->
           {n \in {"ShortRejected", "HeaderSize"} :
               CASE n = "ShortRejected" -> ~(MH!ShortRejectedP(ev.n, ev.err, ev.hl, ev.bl) /\ (ev.err \/ ev.same))
                 [] n = "HeaderSize" -> ~MH!HeaderSizeP(ev.hs)}
      [] ev.kind = "recv" ->
           {n \in {"FlagsExact", "FlagsComplete"} :
               CASE n = "FlagsExact" -> ~MH!FlagsExactP(Emitted, ev.a, ev.r, NZ(ev.e), ev.outcome)
                 [] n = "FlagsComplete" -> ~MH!FlagsCompleteP(Emitted, ev.a, ev.r, NZ(ev.e), ev.outcome)}
      [] OTHER -> {}

Drift(ev) ==
    IF ev.panic THEN {} ELSE
    CASE ev.kind = "set" ->
           LET h0 == Expand(ev.h0)
               h1 == Expand(ev.h1) IN
           {n \in {"SetBits", "GetLayout"} :
               CASE n = "SetBits" -> h1 # MH!Set(h0, ev.f, Expand(ev.v))
                 [] n = "GetLayout" -> GAll(ev.g1) # MH!GetAll(h1)}
      [] ev.kind = "emit" ->
           {n \in {"EmitMissing", "EmitUnexpected"} :
               CASE n = "EmitMissing" -> ~ev.got
                 [] n = "EmitUnexpected" -> ev.got /\ <<ev.a, ev.r, NZ(ev.e)>> \notin MH!Emits}
      [] ev.kind = "recv" ->
           {n \in {"AcceptCoded"} : ev.outcome # MH!AcceptCoded(ev.a, ev.r)}
      [] OTHER -> {}

TraceInit == l = 1
TraceNext == /\ l <= Len(Log)
             /\ l' = l + 1
             /\ LET vs == Viol(Log[l]) IN (vs # {}) => PrintT(ToJson(<<"VIOL", l, Log[l].id, vs>>))
             /\ LET ds == Drift(Log[l]) IN (ds # {}) => PrintT(ToJson(<<"DRIFT", l, Log[l].id, ds>>))
TraceSpec == TraceInit /\ [][TraceNext]_l
AllConsumed == TLCGet("distinct") >= Len(Log) + 1
=============================================================================
