SPECIFICATION Spec
CONSTANTS
  Kinds <- AllKinds
  WLA <- WLTwo
  WLB <- WLTwo
  Weak <- NoWeak
  MaxConn = 2
  MaxSend = 2
  MaxAdv = 0
  CacheMax = 16
  Extras = {}
  Asks = {FALSE}
INVARIANTS Attribution DialSafety Whitelist
CHECK_DEADLOCK FALSE
