SPECIFICATION Spec
CONSTANTS
  Kinds <- AllKinds
  WLA <- AllWL
  WLB <- OnlyAll
  Weak <- NoWeak
  MaxConn = 1
  MaxSend = 2
  MaxAdv = 2
  CacheMax = 16
  Extras = {}
  Asks = {FALSE}
INVARIANTS NeverDeliveredFromM
CHECK_DEADLOCK FALSE
