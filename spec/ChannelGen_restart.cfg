SPECIFICATION GenSpec
CONSTANTS
  MaxS = 7
  MaxRestart = 1
  MaxRekey = 0
  MaxSendCalls = 2
  AcceptA = {"A", "B", "M"}
  AcceptB = {"A", "B", "M"}
  RestartKeys = {"A"}
  Eager = TRUE
  MaxSteps = 22
CHECK_DEADLOCK FALSE
