SPECIFICATION WSpec
CONSTANTS
  Addrs = {0, 1, 2}
  Unknown = 7
  QLen = 1
  Kind = "mem"
  TfKind = "none"
  WAllow <- WAllowMixed
  MapOff = 100
  N0 = 3
  Sizes = {"s", "x"}
  Handlers = {"echo", "neg"}
  MaxOps = 4
  MaxBlocked = 2
INVARIANTS WlRefines
VIEW wview
CHECK_DEADLOCK FALSE
