SPECIFICATION Spec
CONSTANTS
  B = 4
  HW = 3
  Counters <- MCSmall
  BLens = {0, 1, 2}
  Alphabet = {1, 2}
INVARIANTS ModelLaws
CHECK_DEADLOCK FALSE
