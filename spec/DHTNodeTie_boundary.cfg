SPECIFICATION Spec
CONSTANTS
  Locus <- SmallLocus
  Keys <- BoundaryKeys
  Queries <- SmallQueries
  Configs <- BoundaryConfigs
  Vals = {1}
  Times = {1, 2}
  TouchTimes = {0, 2}
  ExpTimes = {2, 3}
  Exps = {0, 1, 2}
  MaxOps = 2
VIEW view
INVARIANTS TieOutcomes
PROPERTIES TieProp
CHECK_DEADLOCK FALSE
