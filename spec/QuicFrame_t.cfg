SPECIFICATION Spec
CONSTANTS
  MaxSeg = 3
  MaxSegs = 3
  MaxTotal = 6
INVARIANTS ModelLaws Dump
CHECK_DEADLOCK FALSE
