------------------------------- MODULE Stack -------------------------------
(***************************************************************************)
(* Layer algebra of nested swarms for C09 (MTU honesty).                    *)
(* A stack is a sequence of layers, TOP FIRST, over a base transport of MTU *)
(* m.  For every layer kind the module gives, exactly as coded,             *)
(*   LayerMtu     what MTU() reports given the MTU of the swarm beneath     *)
(*   Packets      the sizes of the packets handed to the swarm beneath for  *)
(*                a payload of a given size (header + chunk)                *)
(*   Joined       the size the receiving side reassembles                   *)
(*   HasAsk       whether Ask survives the layer                            *)
(* kinds: "frag" s/fragswarm (cfg = configured MTU; 8-bit part/total)       *)
(*        "mbapp" p/mbapp    (cfg; 24-byte header; 16-bit part index/count) *)
(*        "str" "var" "u16" "u32" "u64"  p/p2pmux (c = channel id)          *)
(*        "p2pke" s/p2pkeswarm  min(inner - 20, 65535 - 20)                 *)
(* Sizes are capped at Big = 2^30 (TLC integers are 32 bit).                *)
(*                                                                         *)
(* The module is a case generator: every initial state is one stack         *)
(* configuration; Honest is the C09 statement evaluated through the         *)
(* composed functions over BoundarySizes(stack).                            *)
(***************************************************************************)
EXTENDS Integers, Sequences, FiniteSets, TLC

M == INSTANCE Mux WITH MKinds <- {}, Mode <- "none", cs <- 0, cs2 <- 0

Big == 1073741824
Min(a, b) == IF a < b THEN a ELSE b
Max(a, b) == IF a > b THEN a ELSE b
\* a * b capped at Big (a, b >= 0)
MulCap(a, b) == IF a <= 0 \/ b <= 0 THEN 0 ELSE IF b > Big \div a THEN Big ELSE Min(a * b, Big)
\* len(binary.PutUvarint(x)) for 0 <= x < 2^31
VL(x) == IF x < 128 THEN 1 ELSE IF x < 16384 THEN 2 ELSE IF x < 2097152 THEN 3 ELSE IF x < 268435456 THEN 4 ELSE 5
\* len(binary.PutVarint(x)) (zig-zag), x >= 0: what muxedSwarm.MTU used to subtract (F08)
SVL(x) == IF x < 64 THEN 1 ELSE IF x < 8192 THEN 2 ELSE IF x < 1048576 THEN 3 ELSE IF x < 134217728 THEN 4 ELSE 5

FragOverhead == 15          \* fragswarm.Overhead = 3 * binary.MaxVarintLen32
FragMaxParts == 255         \* part / total are uint8 (fragswarm.go maxParts)
MbHeader == 24              \* mbapp.HeaderSize
MbMaxParts == 65535         \* part index / count are uint16
KeOverhead == 20            \* p2pke.Overhead = 4 + 16
KeMaxMsg == 65535 - 20      \* p2pke.MaxMessageLen = noise.MaxMsgLen - Overhead

MuxKinds == {"str", "var", "u16", "u32", "u64"}
\* real header of a mux channel: what muxFunc prepends
\* (computed once when the stack is built and kept in the layer record, field h)
MuxHeaderOf(k, c) == Len(M!Header(k, c))
MuxHeader(L) == L.h

---------------------------------------------------------------------------
(* per layer, as coded *)
LayerMtu(L, inner) ==
    CASE L.k = "frag" -> Min(L.cfg, MulCap(inner - FragOverhead, FragMaxParts))   \* fragswarm.go MTU()
      [] L.k = "mbapp" -> Min(L.cfg, MulCap(inner - MbHeader, MbMaxParts))         \* mbapp/swarm.go MTU()
      [] L.k \in MuxKinds -> inner - MuxHeader(L)                                  \* p2pmux/mux.go muxedSwarm.MTU()
      [] L.k = "p2pke" -> Min(inner - KeOverhead, KeMaxMsg)                        \* p2pkeswarm/swarm.go MTU()

\* fragswarm.go Tell: number of parts
FragTotal(size, under) ==
    LET t0 == size \div under
        t1 == IF size % under > 0 THEN t0 + 1 ELSE t0
    IN IF t1 = 0 THEN 1 ELSE t1
\* header = uvarint(id) ++ uvarint(part) ++ uvarint(total); id is a per-destination counter (1..5 bytes)
FragPackets(size, under) ==
    LET total == FragTotal(size, under)
        last == size - (total - 1) * under
    IN IF total = 1 THEN {size + idl + 1 + 1 : idl \in {1, 5}}
       ELSE {under + idl + VL(p) + VL(total % 256) : idl \in {1, 5}, p \in {0, Min(total - 2, 127), Min(total - 2, 254)}}
            \cup {last + idl + VL((total - 1) % 256) + VL(total % 256) : idl \in {1, 5}}
\* mbapp/swarm.go send
MbPartCount(size, ps) == LET c == size \div ps IN IF ps * c < size THEN c + 1 ELSE c
MbPackets(size, ps) ==
    LET n == MbPartCount(size, ps) IN
    IF n < 2 THEN {MbHeader + size}
    ELSE {MbHeader + ps, MbHeader + (size - (n - 1) * ps)}

Packets(L, inner, size) ==
    CASE L.k = "frag" -> FragPackets(size, inner - FragOverhead)
      [] L.k = "mbapp" -> MbPackets(size, inner - MbHeader)
      [] L.k \in MuxKinds -> {MuxHeader(L) + size}
      [] L.k = "p2pke" -> {size + KeOverhead}
\* what the receiving side reassembles from what the header fields can express (-1: garbage)
Joined(L, inner, size) ==
    CASE L.k = "frag" -> IF FragTotal(size, inner - FragOverhead) <= FragMaxParts THEN size ELSE -1
      [] L.k = "mbapp" -> IF MbPartCount(size, inner - MbHeader) <= MbMaxParts THEN size ELSE -1
      [] OTHER -> size

\* does an Ask issued on top of the layer reach the other side?  fragswarm and p2pkeswarm are Tell-only,
\* mbapp implements Ask itself over Tell, a mux passes Ask through.
LayerHasAsk(L, below) ==
    CASE L.k \in {"frag", "p2pke"} -> FALSE
      [] L.k = "mbapp" -> TRUE
      [] OTHER -> below
\* an Ask on a mux channel is ONE packet of the swarm beneath; mbapp sends requests like tells
AskPackets(L, inner, size) == IF L.k = "mbapp" THEN MbPackets(size, inner - MbHeader) ELSE {MuxHeader(L) + size}

---------------------------------------------------------------------------
(* composition; ls = layers top first, m = MTU of the base transport *)
RECURSIVE MtuAt(_, _, _)
MtuAt(ls, i, m) == IF i > Len(ls) THEN m ELSE LayerMtu(ls[i], MtuAt(ls, i + 1, m))
StackMtu(ls, m) == MtuAt(ls, 1, m)
RECURSIVE HasAskAt(_, _)
HasAskAt(ls, i) == IF i > Len(ls) THEN TRUE ELSE LayerHasAsk(ls[i], HasAskAt(ls, i + 1))
HasAsk(ls) == HasAskAt(ls, 1)

\* a payload of `size` told to the sub-stack ls[i..] is accepted by every layer beneath and rejoined
RECURSIVE Accepted(_, _, _, _)
Accepted(ls, i, m, size) ==
    IF i > Len(ls) THEN size <= m
    ELSE LET inner == MtuAt(ls, i + 1, m) IN
         /\ size <= LayerMtu(ls[i], inner)
         /\ Joined(ls[i], inner, size) = size
         /\ \A p \in Packets(ls[i], inner, size) : Accepted(ls, i + 1, m, p)

\* the same for an Ask issued on the sub-stack (only where HasAskAt): a mux hands ONE request packet to the
\* Ask of the swarm beneath, mbapp sends the request as tells
RECURSIVE AcceptedAsk(_, _, _, _)
AcceptedAsk(ls, i, m, size) ==
    IF i > Len(ls) THEN size <= m
    ELSE LET inner == MtuAt(ls, i + 1, m) IN
         /\ size <= LayerMtu(ls[i], inner)
         /\ IF ls[i].k = "mbapp"
            THEN /\ Joined(ls[i], inner, size) = size
                 /\ \A p \in MbPackets(size, inner - MbHeader) : Accepted(ls, i + 1, m, p)
            ELSE AcceptedAsk(ls, i + 1, m, MuxHeader(ls[i]) + size)

\* a stack the code can be configured with: fragswarm has room for at least 8 payload bytes per packet, mbapp
\* for at least 1 (with 1 or 2 bytes per part the 16-bit part-count limit binds for payloads of 64..128 kB),
\* every layer reports a positive MTU
RECURSIVE ValidAt(_, _, _)
ValidAt(ls, i, m) ==
    IF i > Len(ls) THEN TRUE
    ELSE LET inner == MtuAt(ls, i + 1, m) IN
         /\ ValidAt(ls, i + 1, m)
         /\ (ls[i].k = "frag" => inner - FragOverhead >= 8)
         /\ (ls[i].k = "mbapp" => inner - MbHeader >= 1)
         /\ (ls[i].k = "p2pke" => inner >= 512)       \* the handshake messages must fit the transport beneath
         /\ LayerMtu(ls[i], inner) >= 1

---------------------------------------------------------------------------
(* C09 on observations: one Tell / Ask of `size` bytes on a stack whose REAL MTU() is mtu;           *)
(* err in {"nil", "mtu", "other"}, nd = number of payloads delivered, eq = all equal to what was sent, *)
(* other3 = the non-MTU error repeated on three fresh stacks; part = some delivered payload / request is  *)
(* a proper part of what was sent; lostc = an accepted payload was not delivered, again not on a fresh    *)
(* stack, while a control payload sent right after it was (the base transports of the harness are        *)
(* lossless).  "Delivered" covers EVERY payload the receiving Receive callback / ServeAsk handler saw    *)
(* during the exchange and, for an Ask, the answer the asker got.                                        *)
ObsViol(size, mtu, err, nd, eq, other3, part, lostc) ==
    (IF size <= mtu /\ err = "mtu" THEN {"UndersizeRejected"} ELSE {})
    \cup (IF size <= mtu /\ nd > 0 /\ ~eq THEN {"Corrupted"} ELSE {})
    \cup (IF size <= mtu /\ nd > 0 /\ part THEN {"DeliveredInPart"} ELSE {})
    \cup (IF size <= mtu /\ err = "nil" /\ nd = 0 /\ lostc THEN {"AcceptedNotDelivered"} ELSE {})
    \cup (IF size > mtu /\ err = "nil" THEN {"OversizeAccepted"} ELSE {})
    \cup (IF size > mtu /\ nd > 0 THEN {"OversizeDelivered"} ELSE {})
    \cup (IF size > mtu /\ err = "other" /\ other3 THEN {"OversizeWrongError"} ELSE {})

\* the model's prediction for a Tell / an Ask
ModelOutcome(ls, m, size, op) ==
    IF size > StackMtu(ls, m) THEN [err |-> "mtu", nd |-> 0, eq |-> TRUE]
    ELSE IF (IF op = "ask" THEN AcceptedAsk(ls, 1, m, size) ELSE Accepted(ls, 1, m, size))
         THEN [err |-> "nil", nd |-> 1, eq |-> TRUE]
         ELSE [err |-> "mtu", nd |-> 0, eq |-> TRUE]

---------------------------------------------------------------------------
(* sizes that straddle every boundary of the stack *)
Around(x) == {x - 1, x, x + 1}
LayerBoundaries(L, inner) ==
    CASE L.k = "frag" ->
           LET u == inner - FragOverhead IN
           Around(u) \cup Around(MulCap(u, 2)) \cup {MulCap(u, 127), MulCap(u, 128) + 1}
           \cup Around(MulCap(u, 255)) \cup Around(MulCap(u, 256)) \cup {MulCap(u, 257), MulCap(u, 300)} \cup Around(L.cfg)
      [] L.k = "mbapp" ->
           LET p == inner - MbHeader IN
           Around(p) \cup Around(MulCap(p, 2)) \cup Around(MulCap(p, 65535)) \cup Around(MulCap(p, 65536)) \cup Around(L.cfg)
      [] L.k \in MuxKinds -> Around(inner - MuxHeader(L)) \cup {inner - SVL(inner), inner - SVL(inner) + 1, inner}
                             \* the MTUs of the sibling channels of the same mux (per-mux state shared between channels)
                             \cup UNION {Around(inner - L.sibs[i]) : i \in 1..Len(L.sibs)}
      [] L.k = "p2pke" -> Around(inner - KeOverhead) \cup Around(KeMaxMsg) \cup {inner}
\* fixed bytes the layers above position i add in front of a payload (mux headers, p2pke overhead);
\* fragmenting layers re-chunk, their boundaries are left untranslated
RECURSIVE FixedAbove(_, _)
FixedAbove(ls, i) ==
    IF i <= 1 THEN 0
    ELSE (IF ls[i - 1].k \in MuxKinds THEN MuxHeader(ls[i - 1]) ELSE IF ls[i - 1].k = "p2pke" THEN KeOverhead ELSE 0)
         + FixedAbove(ls, i - 1)
BoundarySizes(ls, m, cap) ==
    LET mtu == StackMtu(ls, m)
        raw == {0, 1, 2} \cup Around(mtu) \cup {mtu + 17, 2 * Min(mtu, Big \div 2)}
               \cup UNION {{s - FixedAbove(ls, i) : s \in LayerBoundaries(ls[i], MtuAt(ls, i + 1, m))} : i \in 1..Len(ls)}
               \cup {s - FixedAbove(ls, Len(ls) + 1) : s \in Around(m)}
    IN {s \in raw : s >= 0 /\ s <= cap}

---------------------------------------------------------------------------
(* the case space *)
CONSTANTS
    InnerMtus,     \* MTUs of the base transport
    Bases,         \* names of base transports
    TopLayers,     \* layer configurations allowed at the top (functions of the MTU beneath: see LayerCfgs)
    LowLayers,     \* layer configurations allowed beneath the top
    Depth,         \* maximal number of layers
    SizeCap        \* largest payload generated

\* configured MTUs of the fragmenting layers: "small" (the configuration binds: three parts and a bit),
\* "huge" (beyond what the part-count field can express, so that limit binds and MTU() must report it;
\* at most 8 MiB because mbapp allocates a response buffer of the configured size for every request)
HugeCfg == 8388608
CfgOf(tag, k, inner) ==
    LET u == IF k = "frag" THEN inner - FragOverhead ELSE inner - MbHeader
        parts == IF k = "frag" THEN FragMaxParts ELSE MbMaxParts
    IN IF tag = "small" THEN Min(MulCap(u, 3) + 7, Big) ELSE Min(MulCap(u, parts) + 1000, HugeCfg)
\* A mux layer may open SEVERAL channels on the same mux instance (template fields chans, own, ord, use):
\* chans = the channel ids, own = index of the channel the stack continues on, ord = the order in which the
\* channels are used for the first time (a permutation of the indices), use = what that first use is
\* ("mtu" MTU(), "tell", "ask").  The law of the layer: MTU(channel) = MTU(inner) - headerLen(channel),
\* whatever the other channels of the mux did before -- so sibs (header lengths of all channels) only feeds
\* the boundary sizes, not LayerMtu.
NoSib == [chans |-> <<>>, own |-> 0, ord |-> <<>>, use |-> "mtu", sibs |-> <<>>]
Concrete(T, inner) ==
    IF T.k \in {"frag", "mbapp"} THEN [k |-> T.k, cfg |-> CfgOf(T.tag, T.k, inner), c |-> <<>>, h |-> 0] @@ NoSib
    ELSE IF T.k = "p2pke" THEN [k |-> T.k, cfg |-> 0, c |-> <<>>, h |-> 0] @@ NoSib
    ELSE IF "chans" \in DOMAIN T
         THEN [k |-> T.k, cfg |-> 0, c |-> T.chans[T.own], h |-> MuxHeaderOf(T.k, T.chans[T.own]),
               chans |-> T.chans, own |-> T.own, ord |-> T.ord, use |-> T.use,
               sibs |-> [i \in 1..Len(T.chans) |-> MuxHeaderOf(T.k, T.chans[i])]]
         ELSE [k |-> T.k, cfg |-> 0, c |-> T.c, h |-> MuxHeaderOf(T.k, T.c)] @@ NoSib

VARIABLES base, innerMtu, layers
svars == <<base, innerMtu, layers>>

\* templates top first; cfg is resolved bottom-up because it depends on the MTU beneath
RECURSIVE Resolve(_, _)
Resolve(ts, m) ==
    IF ts = <<>> THEN <<>>
    ELSE LET rest == Resolve(Tail(ts), m) IN <<Concrete(Head(ts), StackMtu(rest, m))>> \o rest

Templates == {<<>>} \cup {<<t>> : t \in TopLayers}
             \cup (IF Depth >= 2 THEN {<<t, u>> : t \in TopLayers, u \in LowLayers} ELSE {})
             \cup (IF Depth >= 3 THEN {<<t, u, v>> : t \in TopLayers, u \in LowLayers, v \in LowLayers} ELSE {})

Init ==
    /\ base \in Bases
    /\ innerMtu \in InnerMtus
    /\ \E ts \in Templates : layers = Resolve(ts, innerMtu)
    /\ ValidAt(layers, 1, innerMtu)
Next == FALSE /\ UNCHANGED svars
Spec == Init /\ [][Next]_svars

\* C09 through the composed functions: every boundary size up to MTU() is accepted by every layer
\* beneath and rejoined; everything above is refused by the top layer's own check (by construction of
\* ModelOutcome), nothing is delivered
Honest ==
    \A size \in BoundarySizes(layers, innerMtu, Big), op \in {"tell"} \cup (IF HasAsk(layers) THEN {"ask"} ELSE {}) :
        LET o == ModelOutcome(layers, innerMtu, size, op)
        IN ObsViol(size, StackMtu(layers, innerMtu), o.err, o.nd, o.eq, FALSE, FALSE, FALSE) = {}
=============================================================================
