SPECIFICATION Spec
CONSTANTS
  NBytes = 2
  As <- U2As
  Bs <- U2Bs
  Cs <- U2Cs
INVARIANTS BytesAgree RowLawsHold FwdBwdZero Identity FwdAdditive AbsSymmetric AbsOneDirection AbsTriangle AbsFits
CHECK_DEADLOCK FALSE
