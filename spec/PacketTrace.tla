---------------------------- MODULE PacketTrace ----------------------------
(***************************************************************************)
(* Binds PacketClasses.tla (C08) to the real packet-facing layers.  Each    *)
(* log line summarises what harness/cmd/crashreplay observed for ONE        *)
(* abstract packet sequence of PacketClasses.tla: the set of outcomes over  *)
(* its concrete variants (plain concretisation and seeded byte mutations),  *)
(* each delivered to a fresh instance of the real layer in a child process: *)
(*   outcomes \subseteq {"ok", "error", "panic", "hang", "skipped"}         *)
(*   served   \subseteq {"yes", "no", "n/a"}   (valid message afterwards)   *)
(* The per-sequence events (with the hex bytes) stay in the harness log;    *)
(* failing ones are copied into the replay files.                           *)
(*                                                                          *)
(* Laws (the only ones: this property is robustness, not functionality):    *)
(*   NoCrash      no variant made the layer panic / terminated the process  *)
(*   StillServes  after every variant a valid message was still served,     *)
(*                and no variant hung the layer (reported when no variant   *)
(*                crashed: a crashed node serves nothing)                   *)
(* For a violating line TLC names the abstract class: for the layers whose  *)
(* indexing is modelled, PacketClasses!Run on the PINNED design (Fixed =    *)
(* FALSE) gives the out-of-range access the sequence provokes (e.g.         *)
(* "part>=total-after-first"); a crash of an unmutated variant that the     *)
(* model does not explain is additionally reported as DRIFT                 *)
(* (UnmodelledCrash: the design-level model is incomplete there).           *)
(***************************************************************************)
EXTENDS Integers, Sequences, FiniteSets, TLC, Json, IOUtils

PC == INSTANCE PacketClasses WITH Rich <- TRUE, Fixed <- FALSE, layer <- "none", seq <- <<>>

Log == ndJsonDeserialize(IOEnv.TRACE)
VARIABLES l, fresh, starts
NShards == atoi(IOEnv.NSHARDS)
ComputeStarts == {1} \cup {(k * Len(Log)) \div NShards + 1 : k \in 1..(NShards - 1)}

ToSet(s) == {s[i] : i \in 1..Len(s)}
ClassOf(layer, name) == CHOOSE c \in PC!Classes[layer] : c.n = name
Records(ev) == [i \in 1..Len(ev.seq) |-> ClassOf(ev.layer, ev.seq[i])]
\* the abstract hazard of the sequence according to the pinned design ("" when the model has none)
Hazard(ev) == IF ev.layer \in PC!Modelled THEN PC!Run(ev.layer, Records(ev)) ELSE ""

Viol(ev) == {n \in {"NoCrash", "StillServes"} :
               CASE n = "NoCrash" -> "panic" \in ToSet(ev.outcomes)
                 [] n = "StillServes" -> "panic" \notin ToSet(ev.outcomes) /\ ("hang" \in ToSet(ev.outcomes) \/ "no" \in ToSet(ev.served))}

TraceInit == starts = ComputeStarts /\ l \in starts /\ fresh = TRUE
TraceNext == /\ l <= Len(Log)
             /\ (fresh \/ l \notin starts)
             /\ fresh' = FALSE /\ starts' = starts
             /\ l' = l + 1
             /\ LET ev == Log[l] vs == Viol(ev) IN
                  (vs # {}) => LET h == Hazard(ev) IN
                                 /\ PrintT(ToJson(<<"VIOL", l, ev.case, vs, h>>))
                                 /\ (ev.plainbad /\ h = "" /\ ev.layer \in PC!Modelled) => PrintT(ToJson(<<"DRIFT", l, ev.case, {"UnmodelledCrash"}>>))
TraceSpec == TraceInit /\ [][TraceNext]_<<l, fresh, starts>>
AllConsumed == TLCGet("distinct") >= Len(Log) + 1
=============================================================================
