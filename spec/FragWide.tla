------------------------------ MODULE FragWide ------------------------------
(***************************************************************************)
(* Second family for C10: ONE wide message whose PART COUNT sits on the     *)
(* boundaries of the completion bookkeeping (mbapp: bitmap bytes of 8 parts; *)
(* fragswarm: parts slice, and >= 128 parts where the uvarint header fields  *)
(* take two bytes), combined with loss patterns that withhold                *)
(*   last k / first k parts (k in WithholdK), one whole byte-aligned group   *)
(*   of 8 in the middle, the parts of the last bitmap byte, everything       *)
(*   except one part.                                                        *)
(* State = (layer, n parts, set of part indices received so far); the        *)
(* completion test is the coded one (bitMap.allSet byte by byte, aggregator  *)
(* nil scan).  The module is a case generator: every initial state is one    *)
(* case (layer, cap, n, withheld set, order); Schedule(case) is the sequence *)
(* of fragment deliveries: the present parts, repetitions of present parts   *)
(* (the receiver re-tests completeness on every arrival), then the withheld  *)
(* parts, then one more repetition.  WideNoPartial checks on the model that  *)
(* no prefix of the schedule completes early; the replayer feeds the         *)
(* schedule to the real receiver and FragTrace evaluates NoInvention /       *)
(* NoPartial on the real deliveries.  A 2-part message of a second source is *)
(* wrapped around the schedule.                                              *)
(***************************************************************************)
EXTENDS Integers, Sequences, FiniteSets, TLC, Json

CONSTANTS
    WLayers,      \* subset of {"frag", "mbapp"}
    PartCounts,   \* [layer -> set of part counts]
    WithholdK,    \* sizes of withheld prefixes / suffixes
    WCaps,        \* blocks per inner packet (cap 2: the last part is short)
    WOrders       \* subset of {"asc", "desc"}

Pow2(n) == 2 ^ n
\* mbapp/bitmap.go: buf[i/8] bit i%8; allSet tests get(i) for i < n
MbByte(have, j) == LET RECURSIVE S(_)
                       S(k) == IF k > 7 THEN 0 ELSE (IF 8 * j + k \in have THEN Pow2(k) ELSE 0) + S(k + 1)
                   IN S(0)
MbGet(have, i) == (MbByte(have, i \div 8) \div Pow2(i % 8)) % 2 = 1
MbAllSet(n, have) == \A i \in 0..(n - 1) : MbGet(have, i)
\* fragswarm.go aggregator.addPart: no nil entry in parts (len = total)
FragAllSet(n, have) == \A i \in 0..(n - 1) : i \in have
CompleteCoded(layer, n, have) == IF layer = "mbapp" THEN MbAllSet(n, have) ELSE FragAllSet(n, have)

All(n) == 0..(n - 1)
Withheld(n) ==
    {(n - k)..(n - 1) : k \in {k2 \in WithholdK : k2 < n}}                         \* the last k
    \cup {0..(k - 1) : k \in {k2 \in WithholdK : k2 < n}}                          \* the first k
    \cup (IF n >= 17 THEN {8..15} ELSE {})                                         \* a byte-aligned group in the middle
    \cup {(8 * ((n - 1) \div 8))..(n - 1)}                                         \* the parts of the last bitmap byte
    \cup {All(n) \ {p} : p \in {0, n - 1} \cup (IF n > 9 THEN {8} ELSE {})}         \* everything except one part
    \cup {{}}                                                                      \* nothing (in order / reverse order)

RECURSIVE AscSeq(_)
AscSeq(S) == IF S = {} THEN <<>> ELSE LET m == CHOOSE x \in S : \A y \in S : x <= y IN <<m>> \o AscSeq(S \ {m})
RECURSIVE DescSeq(_)
DescSeq(S) == IF S = {} THEN <<>> ELSE LET m == CHOOSE x \in S : \A y \in S : x >= y IN <<m>> \o DescSeq(S \ {m})
Ordered(S, o) == IF o = "asc" THEN AscSeq(S) ELSE DescSeq(S)

\* part indices in feeding order
PartSchedule(n, W, o) ==
    LET P == All(n) \ W
        ps == Ordered(P, o)
        dups == IF P = {} THEN <<>> ELSE <<ps[1], ps[Len(ps)], ps[(Len(ps) + 1) \div 2]>>
    IN ps \o dups \o AscSeq(W) \o <<0>>

VARIABLES layer, cap, n, W, order
wvars == <<layer, cap, n, W, order>>
Init == /\ layer \in WLayers /\ cap \in WCaps /\ order \in WOrders
        /\ n \in PartCounts[layer] /\ W \in Withheld(n)
        /\ (cap > 1 => n <= 33)                       \* short-last-part variants for the small counts only
Next == FALSE /\ UNCHANGED wvars
Spec == Init /\ [][Next]_wvars

\* no prefix of the schedule completes before every part index was received
WideNoPartial ==
    LET s == PartSchedule(n, W, order) IN
    \A i \in 0..Len(s) : LET have == {s[j] : j \in 1..i} IN CompleteCoded(layer, n, have) => have = All(n)
\* and the whole schedule does complete
WideCompletes == LET s == PartSchedule(n, W, order) IN CompleteCoded(layer, n, {s[j] : j \in 1..Len(s)})

\* the behaviour for harness/cmd/fragreplay (same format as FragGen): source 1 tells the wide message
\* (cap = 2: 2n - 1 blocks, so that the last part is short), source 2 a 2-part message around it
Dump ==
    LET s == PartSchedule(n, W, order)
        len == IF cap = 1 THEN n ELSE cap * n - 1
        steps == <<<<<<2, 1, 0>>>>>> \o [i \in 1..Len(s) |-> <<<<1, 1, s[i]>>>>] \o <<<<<<2, 1, 1>>>>>>
    IN PrintT(ToJson(<<"BEH", [layer |-> layer, cap |-> cap, lens |-> <<<<len>>, <<2 * cap>>>>, lost |-> {},
                               wide |-> [n |-> n, withheld |-> W, order |-> order], steps |-> steps]>>))
=============================================================================
