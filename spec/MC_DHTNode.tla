----------------------------- MODULE MC_DHTNode -----------------------------
(* Universes for DHTNode.tla.  Ids and keys are 2-byte strings (the replayer pads ids with zero bytes to  *)
(* the 32 bytes of a p2p.PeerID, which changes no XOR distance and no comparison).  LocalID = a5 3c.       *)
EXTENDS DHTNode

NLocal == <<165, 60>>
NNone == {}

\* family l0: PeerCacheSize < 8, the locus is cut to NOTHING: one bucket, no distance preference
L0Locus == <<>>
L0Peers == {NLocal, <<37, 0>>, <<165, 61>>, <<229, 0>>}
L0Data == {<<37, 1>>, <<165, 61>>, <<90, 0>>}
L0Targets == {NLocal, <<37, 0>>}
L0Configs == {<<0, 1, {}>>, <<1, 0, {}>>, <<2, 1, {}>>, <<2, 2, {}>>, <<3, 2, {}>>}
L0Limits == {-1, 0, 1, 2, 3}

\* family l1: PeerCacheSize 8..15, the locus is the first byte (a5).  One id per bucket 0..7 (second byte 0),
\* a second one in bucket 0, one sharing the first byte with the locus (bucket 8), and the node's own id.
L1Locus == <<165>>
L1OnePerBucket == {<<37, 0>>, <<229, 0>>, <<133, 0>>, <<181, 0>>, <<173, 0>>, <<161, 0>>, <<167, 0>>, <<164, 0>>}
L1Peers == L1OnePerBucket \cup {<<38, 7>>, <<165, 61>>, NLocal}
L1Few == {<<37, 0>>, <<38, 7>>, <<229, 0>>, <<164, 0>>, <<165, 61>>, NLocal}
L1Data == {<<37, 1>>, <<164, 9>>, <<165, 61>>, <<229, 3>>}
L1Targets == {NLocal, <<38, 7>>}
L1EmptyConfigs == {<<8, 1, {}>>, <<9, 2, {}>>}
L1FullConfigs == {<<8, 2, L1OnePerBucket>>, <<9, 1, L1OnePerBucket>>}
L1Limits == {-1, 0, 1, 2, 3}
L1AllConfigs == L1EmptyConfigs \cup L1FullConfigs \cup {<<15, 3, L1OnePerBucket>>}

\* family l2: PeerCacheSize 16..23, the locus is both bytes; 12 peers, so that HandleFindNode's cap of 10 binds
L2Locus == NLocal
L2Pre == {<<37, 0>>, <<38, 7>>, <<229, 0>>, <<133, 0>>, <<181, 0>>, <<173, 0>>, <<161, 0>>, <<167, 0>>, <<164, 0>>,
          <<165, 188>>, <<165, 124>>, <<165, 61>>}
L2Peers == L2Pre \cup {NLocal, <<90, 90>>}
L2Data == {<<37, 1>>, <<165, 61>>}
L2Targets == {NLocal, <<38, 7>>, <<165, 62>>}
L2Configs == {<<16, 1, L2Pre>>}
L2Limits == {-1, 0, 3, 9, 10, 11, 12, 13}

\* the behaviours before the repairs made to dht_node.go (self-tests: the laws must fail in these models)
OrigPurge == {"purge"}            \* the INTENDED behaviour: every method purges first (not what the code does)
OrigRemove == {"remove"}
OrigAccept0 == {"accept0"}
OrigTtlOvf == {"ttlovf"}
OrigCloser == {"closer"}

L0Keys == L0Peers \cup L0Data
L0Queries == L0Data \cup L0Targets
L1Keys == L1Peers \cup L1Data
L1Queries == L1Data \cup L1Targets
L2Keys == L2Peers \cup L2Data
L2Queries == L2Data \cup L2Targets
=============================================================================
