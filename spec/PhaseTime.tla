------------------------------ MODULE PhaseTime ------------------------------
(***************************************************************************)
(* mbapp.PhaseTime32 (/repo/p/mbapp/phasetime.go), transcribed as coded    *)
(* over a scaled period.                                                   *)
(*                                                                         *)
(* Go: period = units * 2^31 ns; the 32-bit value holds one parity bit     *)
(* (which family of epochs: multiples of the period = "even", multiples    *)
(* shifted by period/2 = "odd") and a 31-bit count of `units` since that   *)
(* epoch.  Model: the period is P ticks (P % 4 = 0), one stored unit is R  *)
(* ticks (Go: int64(units)), the stored field is taken modulo M (Go:       *)
(* 2^31).  The faithful scaling is P = M * R.  All instants in XMin..XMax  *)
(* and every receiver clock within one period of the instant are           *)
(* enumerated: the module is a case generator (one initial state per       *)
(* (x, now), Next is FALSE) whose laws are invariants; PhaseTimeTrace      *)
(* evaluates the same operators on what the real functions returned.       *)
(*                                                                         *)
(* Go's % and / truncate towards zero: Rem / Quot model the sign            *)
(* explicitly, so instants before 1970 (negative UnixNano) are part of the *)
(* model; the laws are stated for x >= 0 /\ now >= 0 (see NegBroken).      *)
(***************************************************************************)
EXTENDS Integers, Sequences, FiniteSets, TLC, Json

CONSTANTS P, R, M, XMin, XMax

ASSUME PShape == P \in Nat /\ P % 4 = 0 /\ R \in Nat /\ R >= 1 /\ M \in Nat /\ M >= 1 /\ (P \div 4) % R = 0

Abs(a) == IF a < 0 THEN -a ELSE a
Rem(a, b) == IF a >= 0 THEN a % b ELSE -((-a) % b)          \* Go a % b
Quot(a, b) == IF a >= 0 THEN a \div b ELSE -((-a) \div b)   \* Go a / b
MinOf(S) == CHOOSE m \in S : \A y \in S : m <= y

-----------------------------------------------------------------------------
(* phasetime.go as coded *)

Base(ns) == ns - Rem(ns, P)

\* NewPhaseTime32 (phasetime.go:10): the four candidate epochs, the first whose distance lies
\* in [period/4, period*3/4), index 0 when none does
Epochs(ns) == <<Base(ns) - P, Base(ns) - Quot(P, 2), Base(ns), Base(ns) + Quot(P, 2)>>
InBand(d) == d >= Quot(P, 4) /\ d < Quot(P * 3, 4)
Index(ns) == LET S == {i \in 0..3 : InBand(ns - Epochs(ns)[i + 1])}
             IN IF S = {} THEN 0 ELSE MinOf(S)
EpochFor(ns) == Epochs(ns)[Index(ns) + 1]
\* y = parity bit | (0x7FFFFFFF & ((ns - epoch) / units)); & with a mask 2^k-1 is the floor modulus
New(ns) == [odd |-> Index(ns) % 2 = 1, d |-> Quot(ns - EpochFor(ns), R) % M]

\* lastEvenEpoch / lastOddEpoch / nextOddEpoch (phasetime.go:57,63,73)
LastEven(ns) == ns - Rem(ns, P)
LastOdd(ns) == LET f == ns - Rem(ns, P) + Quot(P, 2)
                   b == ns - Rem(ns, P) - Quot(P, 2)
               IN IF f > ns THEN b ELSE f
NextOdd(ns) == LET e == LastOdd(ns) IN IF e < ns THEN e + P ELSE e

\* PhaseTime32.UTC (phasetime.go:40)
Decode(pt, nw) == (IF pt.odd THEN LastOdd(nw) ELSE LastEven(nw)) + pt.d * R

-----------------------------------------------------------------------------
(* Laws, over observable values (pt = what New returned, dec = what UTC returned) *)

Trunc(x0) == x0 - (x0 % R)                     \* x to the unit resolution
Quarter == P \div 4

\* the epoch the encoder used, recovered from the encoding (epochs are multiples of R)
EpochOfEnc(x0, pt) == Trunc(x0) - pt.d * R

\* OddEvenChoice: New picks an epoch of the flagged family with P/4 <= x - epoch < 3P/4
OddEvenChoiceP(x0, pt) ==
    x0 >= 0 =>
        LET e == EpochOfEnc(x0, pt) IN
        /\ e % P = (IF pt.odd THEN P \div 2 ELSE 0)
        /\ x0 - e >= Quarter /\ x0 - e < 3 * Quarter
        /\ pt.d \in 0..(M - 1)

\* RoundTrip: a receiver whose clock is within a quarter period (INCLUSIVE, both sides) of the
\* instant decodes it exactly (to the unit resolution)
RoundTripP(x0, nw, dec) ==
    (x0 >= 0 /\ nw >= 0 /\ Abs(nw - x0) <= Quarter) => dec = Trunc(x0)

\* the exact set of receiver clocks that decode x correctly, as a function of r = x % P
SkewLo(x0) == LET r == x0 % P IN
    IF r < Quarter THEN -(r + 2 * Quarter) ELSE IF r < 3 * Quarter THEN -r ELSE 2 * Quarter - r
SkewHi(x0) == LET r == x0 % P IN          \* exclusive
    IF r < Quarter THEN 2 * Quarter - r ELSE IF r < 3 * Quarter THEN P - r ELSE 6 * Quarter - r
ExactSkewP(x0, nw, dec) ==
    (x0 >= 0 /\ nw >= 0) => ((dec = Trunc(x0)) <=> (nw - x0 >= SkewLo(x0) /\ nw - x0 < SkewHi(x0)))

\* a wrong decode is wrong by exactly one period
WrongIsOffByPeriodP(x0, nw, dec) ==
    (x0 >= 0 /\ nw >= 0 /\ dec # Trunc(x0)) => Abs(dec - Trunc(x0)) = P

\* Decode never returns a time a period or more away from the receiver's clock, whatever the 32 bits
DecodeNearP(nw, dec) == nw >= 0 => Abs(dec - nw) < P
\* ... and for a genuine encoding, less than 3/4 of a period
DecodeNearGenuineP(nw, dec) == nw >= 0 => Abs(dec - nw) < 3 * Quarter

EpochLawsP(nw, le, lo, no) ==
    nw >= 0 =>
        /\ le % P = 0 /\ le <= nw /\ nw < le + P
        /\ lo % P = P \div 2 /\ lo <= nw /\ nw < lo + P
        /\ no % P = P \div 2 /\ nw <= no /\ no < nw + P

-----------------------------------------------------------------------------
(* Case generator *)

VARIABLES x, now
vars == <<x, now>>
Init == x \in XMin..XMax /\ now \in (x - P)..(x + P)
Next == FALSE /\ UNCHANGED vars
Spec == Init /\ [][Next]_vars

Faithful == M * R = P
AnyPT == {[odd |-> o, d |-> dd] : o \in BOOLEAN, dd \in 0..(M - 1)}

OddEvenChoice == OddEvenChoiceP(x, New(x))
RoundTrip == RoundTripP(x, now, Decode(New(x), now))
ExactSkew == ExactSkewP(x, now, Decode(New(x), now))
WrongIsOffByPeriod == WrongIsOffByPeriodP(x, now, Decode(New(x), now))
\* (all 2*M bit patterns: once per receiver clock, in the state where x = now)
DecodeNear == /\ (x = now) => \A pt \in AnyPT : DecodeNearP(now, Decode(pt, now))
              /\ x >= 0 => DecodeNearGenuineP(now, Decode(New(x), now))
EpochLaws == EpochLawsP(now, LastEven(now), LastOdd(now), NextOdd(now))
\* every distance fits the stored field (no information is lost by the mask)
Fits == x >= 0 => Quot(x - EpochFor(x), R) < M

\* The skew bound is tight on both sides: one tick more and some instant is decoded a period off
SkewTight ==
    /\ \E x0 \in 0..(2 * P) : Decode(New(x0), x0 + Quarter + 1) # Trunc(x0)
    /\ \E x0 \in P..(2 * P) : Decode(New(x0), x0 - Quarter - 1) # Trunc(x0)
\* Before 1970 (negative UnixNano) the truncated remainder makes lastEvenEpoch the NEXT even
\* epoch: an instant encoded against an even epoch is decoded one period late even by its own clock
NegBroken == \E x0 \in (-P)..(-1) : Decode(New(x0), x0) # Trunc(x0)

\* Go's `units` only scales: with the stored field counting units (the repaired code) every
\* units value is the faithful scaling.  What the code did before the repair (the field counted
\* milliseconds whatever `units` was) is the scaling M * R = P / k for units = k ms:
MilliFieldBroken(k) ==
    \E x0 \in 0..P : LET pt == [odd |-> Index(x0) % 2 = 1, d |-> Quot(x0 - EpochFor(x0), R) % (M \div k)]
                     IN Decode(pt, x0) # Trunc(x0)

Dump == PrintT(ToJson(<<"CASE", x, now>>))
=============================================================================
