SPECIFICATION Spec
CONSTANTS
  R = {r1, r2, r3}
  M = {m1, m2}
  BugCtxAfterRead = TRUE
INVARIANTS Safety
PROPERTIES CancelEnds Served
CHECK_DEADLOCK FALSE
