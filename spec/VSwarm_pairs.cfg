SPECIFICATION Spec
CONSTANTS
  Addrs = {0, 1, 2}
  Unknown = 7
  QLen = 1
  Kind = "mem"
  TfKind = "none"
  Wrap = "none"
  Allow <- AllowAll
  N0 = 2
  Sizes = {"s", "x"}
  TFs = {"pass"}
  Ctxs = {"wait", "cancelled"}
  Handlers = {"echo", "neg"}
  PairKinds = {"tt", "tc", "tr", "rc", "ac", "aa", "as", "sc", "cc", "nn", "xc"}
  MaxOps = 2
  MaxAsks = 2
INVARIANTS TypeOK LawsHold MustIsQueued
CHECK_DEADLOCK FALSE
