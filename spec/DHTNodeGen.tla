----------------------------- MODULE DHTNodeGen -----------------------------
(* Behaviour generation for harness/cmd/dhtnodereplay: a history variable printed as JSON.                 *)
(*  CoverSpec + DumpEvery   (VIEW nview hides hist): for every distinct node state the BFS-shortest path     *)
(*  CoverSpec + EdgeDump    for every TRANSITION of the model (also those that leave the state unchanged:    *)
(*                          RemovePeer of a stranger, AddPeer of the own id, a refused put, a refresh) the    *)
(*                          path to its source state followed by the transition                               *)
(*  GenSpec                 random simulation, one random call per step                                       *)
EXTENDS MC_DHTNode, Json
VARIABLES hist, done

genvars == <<nvars, hist, done>>
InitRec == [op |-> "init", pmax |-> pmax, dmax |-> dmax, prefill |-> DOMAIN P.E, local |-> LocalID,
            peers |-> PeerIDs, keys |-> DataKeys, targets |-> Targets, limits |-> Limits,
            peerTTL |-> PeerTTL, maxDataTTL |-> MaxDataTTL]
GenInit == /\ NodeInit
           /\ hist = <<InitRec>>
           /\ done = FALSE
Finish == /\ nops = MaxOps /\ ~done
          /\ PrintT(ToJson(<<"BEH", hist>>))
          /\ done' = TRUE
          /\ UNCHANGED <<nvars, hist>>
\* one random call: puts dominate; the clock advances with probability 1/3
RandNext ==
    \E c \in {RandomElement(1..12)}, adv \in {RandomElement(1..3)} :
    LET t == IF adv = 3 /\ now < MaxNow THEN now + 1 ELSE now IN
        \/ c \in 1..3 /\ \E id \in {RandomElement(PeerIDs)}, v \in {RandomElement(Infos)} : Do(MkOp("addpeer", id, v, 0, t))
        \/ c = 4 /\ \E id \in {RandomElement(PeerIDs)} : Do(MkOp("rmpeer", id, 0, 0, t))
        \/ c \in 5..7 /\ \E k \in {RandomElement(DataKeys)}, v \in {RandomElement(DVals)}, ttl \in {RandomElement(PutTTLs)} :
                            Do(MkOp("put", k, v, ttl, t))
        \/ c \in 8..11 /\ \E k \in {RandomElement(DataKeys)}, v \in {RandomElement(DVals)}, ttl \in {RandomElement(HPutTTLs)} :
                            Do(MkOp("hput", k, v, ttl, t))
        \/ c = 12 /\ Do(MkOp("tick", <<>>, 0, 0, IF now < MaxNow THEN now + 1 ELSE now))
GenNext == \/ (RandNext /\ hist' = Append(hist, last') /\ UNCHANGED done)
           \/ Finish
GenSpec == GenInit /\ [][GenNext]_genvars

CoverNext == NodeNext /\ hist' = Append(hist, last') /\ UNCHANGED done
CoverSpec == GenInit /\ [][CoverNext]_genvars
DumpEvery == (nops > 0) => PrintT(ToJson(<<"BEH", hist>>))
EdgeDump == PrintT(ToJson(<<"BEH", hist'>>))
=============================================================================
