SPECIFICATION Spec
CONSTANTS
  P = 64
  R = 4
  M = 16
  XMin <- MCXMin
  XMax <- MCXMax
INVARIANTS OddEvenChoice RoundTrip ExactSkew WrongIsOffByPeriod DecodeNear EpochLaws Fits
CHECK_DEADLOCK FALSE
