SPECIFICATION GenSpec
CONSTANTS
  Askers = {"a1", "a2"}
  Servers = {"s1", "s2"}
  K = {1, 2, 3}
  Mode = "hub"
  Serial = TRUE
  Classes = {"neg", "zero", "small", "exact", "over"}
  CtrVals = {1}
  MaxNow = 0
  BugNilErr = FALSE
  BugTrunc = FALSE
  BugOkOnHubErr = FALSE
  BugReqAlias = FALSE
  BugNegOk = FALSE
  KeyOT = TRUE
  KeyDst = TRUE
  MaxSteps = 24
CHECK_DEADLOCK FALSE
