--------------------------- MODULE P2pkeTimerGen ---------------------------
(* Schedule generator for timerreplay -mode replay: every sequence of at most MaxLen groups; a      *)
(* group is a set of operations released together (RS Reset(1ms), RL Reset(1h), ST Stop, SS StopSync,*)
(* IP IsPending, W wait for fn to start after the latest Reset).  Each distinct state is one         *)
(* schedule, printed by the Dump "invariant".                                                        *)
EXTENDS Integers, Sequences, TLC, Json
CONSTANT MaxLen
VARIABLE sched
Groups == {<<"RS">>, <<"RL">>, <<"ST">>, <<"SS">>, <<"IP">>, <<"W">>,
           <<"RS", "ST">>, <<"RS", "SS">>, <<"ST", "SS">>, <<"RS", "RS">>, <<"RS", "IP">>, <<"SS", "SS">>,
           <<"RL", "SS">>, <<"W", "SS">>, <<"W", "ST">>, <<"RS", "ST", "IP">>}
GenInit == sched = <<>>
GenNext == Len(sched) < MaxLen /\ \E g \in Groups : sched' = Append(sched, g)
GenSpec == GenInit /\ [][GenNext]_sched
Dump == (sched # <<>>) => PrintT(ToJson(<<"SCHED", sched>>))
=============================================================================
