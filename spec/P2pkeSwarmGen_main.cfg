SPECIFICATION GenSpec
CONSTANTS
  MaxC = 14
  MaxH = 14
  MaxTell = 18
  MaxDrop = 4
  MaxHold = 1000
  MaxJunk = 2
  MaxClose = 1
  MaxRekey = 0
  KExp = 4
  KIdle = 5
  KGrace = 9
  Period = 2
  TellTO = 3
  WLA <- Both
  WLB <- Both
  DstsA <- DA_full
  DstsB <- DB_good
  AllowEmpty = TRUE
  Fixed <- AllFixed
  EagerCleanup = TRUE
  MaxSteps = 0
  Scripts <- Main
CHECK_DEADLOCK FALSE
