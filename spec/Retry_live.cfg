SPECIFICATION FairSpec
CONSTANTS
  BackoffSeq <- MCBackoff
  MaxCalls = 3
  FnDurs = {0, 1}
  CancelTimes <- MCCancelTimes
PROPERTIES Terminates
CHECK_DEADLOCK FALSE
