SPECIFICATION Spec
CONSTANTS
  Rich = TRUE
  StrictIdText = TRUE
INVARIANTS RoundTripLaw EqualIffEncodingEqualLaw NonCanonicalLaw IdRoundTripLaw OrderPreservingLaw RejectInvalidLaw Dump
CHECK_DEADLOCK FALSE
