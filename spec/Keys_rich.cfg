SPECIFICATION Spec
CONSTANTS
  Rich = TRUE
  LengthFastPath = FALSE
  StrictIdText = TRUE
INVARIANTS RoundTripLaw CanonicalDERLaw EqualIffEncodingEqualLaw NonCanonicalLaw IdRoundTripLaw OrderPreservingLaw RejectInvalidLaw Dump
CHECK_DEADLOCK FALSE
