SPECIFICATION Spec
CONSTANTS
  Rich = TRUE
  KeepParams = FALSE
  LengthFastPath = FALSE
  StrictIdText = TRUE
INVARIANTS RoundTripLaw CanonicalDERLaw EqualIffEncodingEqualLaw NonCanonicalLaw WireCanonicalLaw IdRoundTripLaw OrderPreservingLaw RejectInvalidLaw Dump
CHECK_DEADLOCK FALSE
