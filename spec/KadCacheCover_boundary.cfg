SPECIFICATION CoverSpec
CONSTANTS
  Locus <- SmallLocus
  Keys <- BoundaryKeys
  Queries <- SmallQueries
  Configs <- BoundaryConfigs
  Vals = {1}
  Times = {1, 2}
  TouchTimes = {0}
  ExpTimes = {2}
  Exps = {0, 1}
  MaxOps = 2
VIEW view
INVARIANTS DumpEvery
CHECK_DEADLOCK FALSE
