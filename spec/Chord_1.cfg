SPECIFICATION Spec
CONSTANTS
  NBytes = 1
  As <- U1As
  Bs <- U1Bs
  Cs <- U1Cs
INVARIANTS BytesAgree RowLawsHold FwdBwdZero Identity FwdAdditive AbsSymmetric AbsOneDirection AbsTriangle AbsFits
CHECK_DEADLOCK FALSE
