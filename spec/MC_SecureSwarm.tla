--------------------------- MODULE MC_SecureSwarm ---------------------------
(* Constants for model checking SecureSwarm.tla *)
EXTENDS SecureSwarm
AllKinds == {"p2pke", "quic", "ssh"}
AllWL == SUBSET Nodes
OnlyAll == {Nodes}
WLTwo == {Nodes, {"A", "B"}}
WLNoM == {{"A", "B"}}
WLVictim == {Nodes, {"B"}}
WLFour == {Nodes, {"A", "B"}, {"B"}, {}}
OnlyP2PKE == {"p2pke"}
OnlyQUIC == {"quic"}
OnlySSH == {"ssh"}
NoQUIC == {"p2pke", "ssh"}
NoWeak == {}
WeakF13 == {"sshlast"}
WeakF35 == {"wlout"}
WeakDial == {"nodialcheck"}
WeakPost == {"nopostcheck"}
WeakProof == {"noproof"}
WeakCred == {"firstloadable"}
WeakWlin == {"wlin", "wlout"}
=============================================================================
