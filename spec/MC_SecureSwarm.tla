--------------------------- MODULE MC_SecureSwarm ---------------------------
(* Constants for model checking SecureSwarm.tla *)
EXTENDS SecureSwarm
AllKinds == {"p2pke", "quic", "ssh"}
AllWL == SUBSET Nodes
OnlyAll == {Nodes}
WLTwo == {Nodes, {"A", "B"}}
WLNoM == {{"A", "B"}}
OnlyP2PKE == {"p2pke"}
OnlyQUIC == {"quic"}
OnlySSH == {"ssh"}
NoWeak == {}
WeakF13 == {"sshlast"}
WeakF35 == {"wlout"}
WeakDial == {"nodialcheck"}
WeakPost == {"nopostcheck"}
WeakProof == {"noproof"}
WeakWlin == {"wlin", "wlout"}
=============================================================================
