----------------------------- MODULE RetryTrace -----------------------------
(* Binds Retry.tla / RetryBackoff.tla to the real retry.go (funcreplay -mode retry).              *)
(*  loop   Retry driven by a Waiter the harness controls: the observed history of fn calls and     *)
(*         selects, the result, the Close count                                                    *)
(*  bf     one value of a backoff constructor (ns) at n and n+1                                    *)
(*  bfbig  the default backoff 100ms * 2^(n/2) capped at 30 s at large n (flags)                   *)
(*  rt     Retry with its own time.After waiter: measured gaps / latencies in microseconds          *)
(* VIOL: a law operator is false on the observation.  DRIFT: differs from the as-coded model.       *)
EXTENDS Integers, Sequences, FiniteSets, TLC, Json, IOUtils, RetryTraceU

RT == INSTANCE Retry WITH BackoffSeq <- <<1>>, MaxCalls <- 0, FnDurs <- {0}, CancelTimes <- {-1},
        pc <- "", i <- 0, clock <- 0, fireAt <- 0, cancelAt <- -1, calls <- <<>>, waits <- <<>>,
        ret <- "none", retAt <- 0, wclosed <- 0
BF == INSTANCE RetryBackoff WITH ExpInit <- TExpInit, ExpEvery <- TExpEvery, CapAt <- TCapAt, LinM <- TLinM,
        LinB <- TLinB, FloorAt <- TFloorAt, MaxN <- 0, MaxDur <- 2000000000, kind <- "", n <- 0

Log == ndJsonDeserialize(IOEnv.TRACE)
VARIABLES l, fresh, starts
NShards == atoi(IOEnv.NSHARDS)
ComputeStarts == {1} \cup {(k * Len(Log)) \div NShards + 1 : k \in 1..(NShards - 1)}

RECURSIVE SumTo(_, _)
SumTo(s, j) == IF j = 0 THEN 0 ELSE s[j] + SumTo(s, j - 1)

LoopViol(ev) ==
    IF ev.panic THEN {"NoPanic"} ELSE
    {n \in {"Returns", "NilStops", "CtxErrOnlyIfDone", "WaitIndexed", "NoCallAfterCtxEnded", "CtxSelectEnds", "WaiterClosedOnce"} :
        CASE n = "Returns" -> ev.ret \in {"hang", "other"}
          [] n = "NilStops" -> ~RT!NilStopsP(ev.calls, ev.ret)
          [] n = "CtxErrOnlyIfDone" -> ~RT!CtxErrOnlyIfDoneP(ev.ret, ev.ctxDone)
          [] n = "WaitIndexed" -> ~RT!WaitIndexedP(ev.calls, ev.waits) \/ ~ev.startSame
          [] n = "NoCallAfterCtxEnded" -> ~RT!NoCallAfterCtxEndedP(ev.calls, ev.waits)
          [] n = "CtxSelectEnds" -> ev.ret # "other" /\ ~RT!CtxSelectEndsP(ev.waits, ev.ret)
          [] n = "WaiterClosedOnce" -> ev.ret \notin {"hang", "other"} /\ ~RT!WaiterClosedOnceP(ev.ret, ev.nclosed)}
LoopDrift(ev) == IF ~ev.panic /\ ~ev.tie /\ (ev.ret # ev.expRet \/ Len(ev.calls) # ev.expCalls) THEN {"Script"} ELSE {}

BfViol(ev) ==
    {n \in {"NonNegative", "Monotone", "ExpBounds", "Capped", "Floored", "Linear", "Constant"} :
        CASE n = "NonNegative" -> ev.v < 0 \/ ev.w < 0
          [] n = "Monotone" -> ev.w < ev.v
          [] n = "ExpBounds" -> ev.k = "exp" /\ ev.fit /\ ~BF!ExpBoundsP(ev.n, ev.v)
          [] n = "Capped" -> ev.k = "expmax" /\ ~BF!CappedP(ev.v, ev.raw)
          [] n = "Floored" -> ev.k = "linmin" /\ ~BF!FlooredP(ev.v, ev.raw)
          [] n = "Linear" -> ev.k = "linear" /\ ev.v # BF!LinearB(TLinM, TLinB, ev.n)
          [] n = "Constant" -> ev.k = "const" /\ (ev.v # TLinB \/ ev.w # TLinB)}
BfDrift(ev) == IF ev.fit /\ ev.v # BF!ValueOf(ev.k, ev.n) THEN {"Value"} ELSE {}

BigViol(ev) ==
    {n \in {"NonNegative", "Monotone", "Capped"} :
        CASE n = "NonNegative" -> ev.expNeg \/ ev.capNeg
          [] n = "Monotone" -> ~ev.expMono \/ ~ev.capMono
          [] n = "Capped" -> ~ev.capLe \/ (ev.beyond /\ ~ev.capEq)}

RtViol(ev) ==
    LET timed == ev.name \in {"gaps", "default"}
        NG == Len(ev.gapUs)
    IN
    {n \in {"Returns", "NilStops", "DelayAtLeast", "DelayBounded", "BackoffArgs", "CtxPrompt"} :
        CASE n = "Returns" -> ev.ret \in {"hang", "other"}
          [] n = "NilStops" -> timed /\ (ev.ret # "nil" \/ ev.ncalls # Len(ev.wantUs) + 1 \/ NG # Len(ev.wantUs))
          [] n = "DelayAtLeast" -> timed /\ \E j \in 1..NG : j <= Len(ev.wantUs) /\ ev.gapUs[j] < ev.wantUs[j]
          [] n = "DelayBounded" -> timed /\ \E j \in 1..NG : j <= Len(ev.wantUs) /\ ev.gapUs[j] > ev.wantUs[j] + ev.slackUs
          [] n = "BackoffArgs" -> ev.name = "gaps" /\
                                  (\/ ev.argN # [j \in 1..Len(ev.argN) |-> j - 1]
                                   \/ \E j \in 1..Len(ev.elUs) : ev.elUs[j] < SumTo(ev.wantUs, j - 1))
          [] n = "CtxPrompt" -> ~timed /\ (ev.ret # "ctx" \/ ev.latUs > ev.slackUs \/ ev.ncalls # 1)}

Viol(ev) == CASE ev.ev = "loop" -> LoopViol(ev) [] ev.ev = "bf" -> BfViol(ev)
              [] ev.ev = "bfbig" -> BigViol(ev) [] ev.ev = "rt" -> RtViol(ev) [] OTHER -> {"UnknownEvent"}
Drift(ev) == CASE ev.ev = "loop" -> LoopDrift(ev) [] ev.ev = "bf" -> BfDrift(ev) [] OTHER -> {}

TraceInit == starts = ComputeStarts /\ l \in starts /\ fresh = TRUE
TraceNext == /\ l <= Len(Log)
             /\ (fresh \/ l \notin starts)
             /\ fresh' = FALSE /\ starts' = starts
             /\ l' = l + 1
             /\ LET vs == Viol(Log[l]) IN (vs # {}) => PrintT(ToJson(<<"VIOL", l, l, vs>>))
             /\ LET ds == Drift(Log[l]) IN (ds # {}) => PrintT(ToJson(<<"DRIFT", l, l, ds>>))
TraceSpec == TraceInit /\ [][TraceNext]_<<l, fresh, starts>>
AllConsumed == TLCGet("distinct") >= Len(Log) + 1
=============================================================================
