SPECIFICATION Spec
CONSTANTS
  W = 4
  IW = 5
  AllBits = TRUE
  AllValues = TRUE
INVARIANTS LayoutLaws CodedIsLayout UnusedKept
CHECK_DEADLOCK FALSE
