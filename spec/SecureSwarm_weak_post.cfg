SPECIFICATION Spec
CONSTANTS
  Kinds <- OnlyP2PKE
  WLA <- OnlyAll
  WLB <- OnlyAll
  Weak <- WeakPost
  MaxConn = 1
  MaxSend = 2
  MaxAdv = 0
  CacheMax = 16
  Extras = {}
  Asks = {FALSE}
INVARIANTS DialSafety
CHECK_DEADLOCK FALSE
