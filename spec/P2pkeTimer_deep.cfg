SPECIFICATION Spec
CONSTANTS
  Threads = {t1, t2, t3}
  MaxOps = 3
INVARIANTS TypeOK NoConcurrentFn QuietAfterStopSync OncePerReset StoppedNotPending
PROPERTIES FnNeedsLiveReset
CHECK_DEADLOCK FALSE
