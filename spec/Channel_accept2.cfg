SPECIFICATION Spec
CONSTANTS
  MaxS = 4
  MaxRestart = 0
  MaxRekey = 0
  MaxSendCalls = 1
  AcceptA = {}
  AcceptB = {"A"}
  RestartKeys = {"A"}
  Eager = FALSE
VIEW view
INVARIANTS SlotsWellFormed OnlyAccepted Continuity AtMostOnceP
PROPERTIES Undisturbed 
CHECK_DEADLOCK FALSE
