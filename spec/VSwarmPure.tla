----------------------------- MODULE VSwarmPure -----------------------------
(***************************************************************************)
(* G06: laws of the small pure helpers around the swarms                     *)
(*   swarm.go   VecSize, VecBytes, Receive, LookupPublicKeyInHandler,         *)
(*              DiscardTells / DiscardAsks                                   *)
(*   p2ptest    MakeChain / MakeRing / MakeCluster / MakeHubAndSpoke         *)
(*   ip.go      OnlyGlobal, NoLinkLocal, NoLoopback, FilterIPs,               *)
(*              ExpandUnspecifiedIPs                                         *)
(* as functions and predicates over plain values (byte sequences, adjacency  *)
(* lists), evaluated by TLC on the model functions below (ASSUMEs, cfg        *)
(* VSwarmPure.cfg) and by VSwarmPureTrace on what the real functions          *)
(* returned.  (p2ptest.NewDropFirstTuple / Pairwise are transforms of the     *)
(* realm: VSwarm.tla, TfKind "tuple" / "pair".)                             *)
(* ip.go as REPAIRED by this component: OnlyGlobal returned false for every   *)
(* IPv6 address (the positive return of the 16-byte case was missing);        *)
(* ExpandUnspecifiedIPs returned the host's IPv4 addresses in IPv4-mapped      *)
(* IPv6 form (netip.AddrFromSlice of a 16-byte net.IP, without Unmap).        *)
(* As coded and left alone: OnlyGlobal treats loopback (127.0.0.1, ::1),      *)
(* unique-local IPv6 (fc00::/7) and multicast as global; an unspecified IPv4   *)
(* address expands to the host's IPv6 addresses as well (and vice versa).     *)
(***************************************************************************)
EXTENDS Integers, Sequences, FiniteSets

ToSet(s) == {s[i] : i \in 1..Len(s)}
NoDup(s) == \A i, j \in 1..Len(s) : i # j => s[i] # s[j]
RECURSIVE Flatten(_)
Flatten(v) == IF v = <<>> THEN <<>> ELSE Head(v) \o Flatten(Tail(v))
RECURSIVE SumLen(_)
SumLen(v) == IF v = <<>> THEN 0 ELSE Len(Head(v)) + SumLen(Tail(v))

\* ---- swarm.go
VecSizeLaw(v, size) == size = SumLen(v)
VecBytesLaw(out, v, bytes) == bytes = out \o Flatten(v)
\* p2p.Receive: the caller's message becomes a COPY of what the swarm delivered (whatever it held before); an error
\* of the swarm is passed on and the message is left alone
ReceiveLaw(ev) ==
    IF ev.err = "nil" THEN ev.gs = ev.s /\ ev.gd = ev.d /\ ev.gpayload = ev.payload
    ELSE ev.err = "stop" /\ ev.gs = -1 /\ ev.gd = -1
\* LookupPublicKeyInHandler: the key if the swarm has it, a panic if not; the lookup runs with a context that has ended
LookupInHandlerLaw(ev) == ev.ctxdone /\ (ev.known <=> ~ev.panicked) /\ (ev.known => ev.key \in {1, 2})
\* Discard*: consumes until the first error and returns it
DiscardLaw(ev) == ev.consumed = ev.n /\ ev.err = "stop"

\* ---- p2ptest topologies (nodes 0..n-1; adj[i + 1] lists the neighbours of i)
ChainN(n, i) == {j \in 0..(n - 1) : j = i - 1 \/ j = i + 1}
RingN(n, i) == {j \in 0..(n - 1) : j # i /\ (j = (i + 1) % n \/ j = (i + n - 1) % n)}
ClusterN(n, i) == (0..(n - 1)) \ {i}
HubN(n, i) == IF i = 0 THEN 1..(n - 1) ELSE {0}
Neigh(kind, n, i) == CASE kind = "chain" -> ChainN(n, i) [] kind = "ring" -> RingN(n, i) [] kind = "cluster" -> ClusterN(n, i) [] kind = "hub" -> HubN(n, i)
TopoLaw(kind, n, adj) == Len(adj) = n /\ \A i \in 0..(n - 1) : ToSet(adj[i + 1]) = Neigh(kind, n, i) /\ NoDup(adj[i + 1])
\* every topology is symmetric, loop-free, and (n > 0) connected except the empty ones
Symmetric(kind, n) == \A i, j \in 0..(n - 1) : (j \in Neigh(kind, n, i) <=> i \in Neigh(kind, n, j)) /\ i \notin Neigh(kind, n, i)
ASSUME \A kind \in {"chain", "ring", "cluster", "hub"} : \A n \in 0..7 : Symmetric(kind, n)
ASSUME \A n \in 3..7 : \A i \in 0..(n - 1) : Cardinality(RingN(n, i)) = 2
ASSUME RingN(2, 0) = {1} /\ RingN(1, 0) = {}

\* ---- ip.go: an IP is its 4 or 16 bytes
Is4(b) == Len(b) = 4
V4Private(b) == b[1] = 10 \/ (b[1] = 172 /\ b[2] \in 16..31) \/ (b[1] = 192 /\ b[2] = 168)
LinkLocalUnicast(b) == IF Is4(b) THEN b[1] = 169 /\ b[2] = 254 ELSE b[1] = 254 /\ b[2] \in 128..191
LinkLocalMulticast(b) == IF Is4(b) THEN b[1] = 224 /\ b[2] = 0 /\ b[3] = 0 ELSE b[1] = 255 /\ b[2] % 16 = 2
InterfaceLocalMulticast(b) == ~Is4(b) /\ b[1] = 255 /\ b[2] % 16 = 1
Loopback(b) == IF Is4(b) THEN b[1] = 127 ELSE (\A i \in 1..15 : b[i] = 0) /\ b[16] = 1
Unspecified(b) == \A i \in 1..Len(b) : b[i] = 0
Mapped(b) == Len(b) = 16 /\ (\A i \in 1..10 : b[i] = 0) /\ b[11] = 255 /\ b[12] = 255
OnlyGlobalOf(b) == IF Is4(b) THEN ~V4Private(b) /\ ~LinkLocalUnicast(b) ELSE ~(LinkLocalUnicast(b) \/ LinkLocalMulticast(b))
NoLinkLocalOf(b) == ~(LinkLocalUnicast(b) \/ LinkLocalMulticast(b) \/ InterfaceLocalMulticast(b))
NoLoopbackOf(b) == ~Loopback(b)
IPLaws(ev) == {nm \in {"OnlyGlobal", "NoLinkLocal", "NoLoopback"} :
    ~CASE nm = "OnlyGlobal" -> ev.og = OnlyGlobalOf(ev.ip) [] nm = "NoLinkLocal" -> ev.nll = NoLinkLocalOf(ev.ip) [] nm = "NoLoopback" -> ev.nlb = NoLoopbackOf(ev.ip)}
ASSUME OnlyGlobalOf(<<8, 8, 8, 8>>) /\ ~OnlyGlobalOf(<<10, 0, 0, 1>>) /\ ~OnlyGlobalOf(<<169, 254, 1, 1>>)
ASSUME OnlyGlobalOf(<<38, 6, 71, 0, 0, 0, 0, 0, 0, 0, 0, 0, 0, 0, 0, 1>>) /\ ~OnlyGlobalOf(<<254, 128, 0, 0, 0, 0, 0, 0, 0, 0, 0, 0, 0, 0, 0, 1>>)

\* FilterIPs keeps, in order, the addresses without an IP and those whose IP satisfies every predicate
PredOf(p, b) == CASE p = "nolb" -> ~Loopback(b) [] p = "v4" -> Is4(b) [] p = "noll" -> ~LinkLocalUnicast(b)
Keep(x, preds) == x.ip = <<>> \/ \A p \in ToSet(preds) : PredOf(p, x.ip)
RECURSIVE Filtered(_, _)
Filtered(xs, preds) == IF xs = <<>> THEN <<>> ELSE (IF Keep(Head(xs), preds) THEN <<Head(xs).id>> ELSE <<>>) \o Filtered(Tail(xs), preds)
FilterLaw(ev) == [i \in 1..Len(ev.ys) |-> ev.ys[i].id] = Filtered(ev.xs, ev.preds)

\* ExpandUnspecifiedIPs: a specified address stays, in place; an unspecified one becomes one address per interface
\* address of the host: specified, plain (never IPv4-mapped), with the port of the original
RECURSIVE ExpandShape(_, _)
ExpandShape(xs, nif) == IF xs = <<>> THEN <<>> ELSE
    (IF Unspecified(Head(xs).ip) THEN [k \in 1..nif |-> [spec |-> FALSE, port |-> Head(xs).port, ip |-> <<>>]]
     ELSE <<[spec |-> TRUE, port |-> Head(xs).port, ip |-> Head(xs).ip]>>) \o ExpandShape(Tail(xs), nif)
ExpandLaws(ev) == LET sh == ExpandShape(ev.xs, ev.nif) IN
    {nm \in {"ExpandShape", "ExpandKeepsPort", "ExpandSpecified", "ExpandPlainForm"} :
      ~CASE nm = "ExpandShape" -> Len(ev.ys) = Len(sh) /\ \A i \in 1..Len(sh) : sh[i].spec => ev.ys[i].ip = sh[i].ip
         [] nm = "ExpandKeepsPort" -> Len(ev.ys) = Len(sh) => \A i \in 1..Len(sh) : ev.ys[i].port = sh[i].port
         [] nm = "ExpandSpecified" -> Len(ev.ys) = Len(sh) => \A i \in 1..Len(sh) : ~sh[i].spec => ~Unspecified(ev.ys[i].ip)
         [] nm = "ExpandPlainForm" -> \A i \in 1..Len(ev.ys) : ~Mapped(ev.ys[i].ip)}

PureLaws(ev) ==
    (IF ev.panic # "" THEN {"NoPanic"} ELSE {}) \cup
    CASE ev.ev = "vec" -> {nm \in {"VecSize", "VecBytes", "InputsUntouched"} :
                             ~CASE nm = "VecSize" -> VecSizeLaw(ev.v, ev.size) [] nm = "VecBytes" -> VecBytesLaw(ev.out, ev.v, ev.bytes) [] nm = "InputsUntouched" -> ev.same}
      [] ev.ev = "recvh" -> IF ReceiveLaw(ev) THEN {} ELSE {"ReceiveCopies"}
      [] ev.ev = "lkh" -> IF LookupInHandlerLaw(ev) THEN {} ELSE {"LookupInHandler"}
      [] ev.ev = "discard" -> IF DiscardLaw(ev) THEN {} ELSE {"DiscardUntilError"}
      [] ev.ev = "topo" -> IF TopoLaw(ev.kind, ev.n, ev.adj) THEN {} ELSE {"Topology"}
      [] ev.ev = "ipf" -> IPLaws(ev)
      [] ev.ev = "filter" -> IF FilterLaw(ev) THEN {} ELSE {"FilterIPs"}
      [] ev.ev = "expand" -> ExpandLaws(ev)
      [] OTHER -> {"UnknownEvent"}
=============================================================================
