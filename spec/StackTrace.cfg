SPECIFICATION TraceSpec
CONSTANTS
  InnerMtus <- SNone
  Bases <- SNone
  TopLayers <- SNone
  LowLayers <- SNone
  Depth = 0
  SizeCap = 0
POSTCONDITION AllConsumed
CHECK_DEADLOCK FALSE
