SPECIFICATION TraceSpec
POSTCONDITION AllConsumed
CHECK_DEADLOCK FALSE
