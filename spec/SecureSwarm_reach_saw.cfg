SPECIFICATION Spec
CONSTANTS
  Kinds <- AllKinds
  WLA <- OnlyAll
  WLB <- OnlyAll
  Weak <- NoWeak
  MaxConn = 1
  MaxSend = 1
  MaxAdv = 1
  CacheMax = 16
  Extras = {}
  Asks = {FALSE}
INVARIANTS NeverSaw
CHECK_DEADLOCK FALSE
