SPECIFICATION ASpec
CONSTANTS
  CacheMax = 16
  MaxSteps = 4
  Fixed = FALSE
INVARIANTS RecordedIsProven
CHECK_DEADLOCK FALSE
