---------------------------- MODULE KadCacheRef ----------------------------
(***************************************************************************)
(* G03a, second half: KadCache.tla REFINES KadCacheAbs.tla (checked by TLC  *)
(* as the temporal property AbsSpec over the complete state graph of small  *)
(* KadCache configurations).                                               *)
(*                                                                         *)
(* Mapping: Keys <- Keys, NB <- 8*len(locus)+1, BucketOf <- the leading-    *)
(* zeros table, ents <- ents without the value component; nb, minExp and    *)
(* count map to themselves; `last`, `nops`, `panicked` are hidden.          *)
(* KadCacheAbs declares cmax/cmin as CONSTANTS while KadCache keeps them in *)
(* variables (they range over Configs); SANY does not allow a variable to   *)
(* be substituted for a constant, so each configuration instantiates        *)
(* RefMax/RefMin and restricts Configs to the constructor calls with these  *)
(* two parameters (RefConfigs).  The invariant AbsParams checks that the    *)
(* variables indeed carry these constants.                                  *)
(*                                                                         *)
(* The abstract module quantifies times over Int; TLC needs a finite set:   *)
(* the configurations override TimeDom (and the universe bound MaxNB) of    *)
(* the instantiated module.                                                 *)
(***************************************************************************)
EXTENDS MC_KadCache

CONSTANTS RefMax, RefMin, RefBase   \* RefBase: the set of configurations to select from

RefConfigs == {c \in RefBase : c[1] = RefMax /\ c[2] = RefMin}

RefTimes == 0..4          \* a superset of Times, TouchTimes, ExpTimes, Exps of the configurations
RefMaxNB == 17

Abs == INSTANCE KadCacheAbs WITH
    Keys <- Keys, NB <- NBuckets, BucketOf <- BucketTab, cmax <- RefMax, cmin <- RefMin,
    ents <- [k \in DOMAIN ents |-> [c |-> ents[k].c, e |-> ents[k].e]],
    nb <- nb, minExp <- minExp, count <- count

AbsSpec == Abs!Spec
AbsParams == cmax = RefMax /\ cmin = RefMin
AbsCtorPre == Abs!CtorPre
\* the abstract inductive invariant, evaluated on the concrete reachable states (cross-check)
AbsIndInv == Abs!IndInv
AbsEvictPossible == Abs!EvictPossible
=============================================================================
