------------------------------ MODULE KadDist ------------------------------
(***************************************************************************)
(* Distance laws of p/kademlia/distance.go (C19, second sentence).          *)
(* Case generator: every triple (x, a, b) of byte strings of length <= 2    *)
(* over Alphabet is one initial state; Next is FALSE.  Model level: the     *)
(* coded DistanceCmp (KadCache!DistCmpCoded) agrees with bytes.Compare of   *)
(* the XOR distances and is a total preorder.  Code level: KadDistTrace     *)
(* evaluates the same laws on what the real functions returned.             *)
(***************************************************************************)
EXTENDS Integers, Sequences, FiniteSets, Bitwise, TLC, Json

CONSTANTS Alphabet, MaxLen

\* the byte-string operators are those of KadCache (instantiated with dummy constants)
KC == INSTANCE KadCache WITH Locus <- <<>>, Keys <- {}, Queries <- {}, Vals <- {}, Times <- {},
        TouchTimes <- {}, ExpTimes <- {}, Exps <- {}, Configs <- {}, MaxOps <- 0,
        cmax <- 0, cmin <- 0, ents <- <<>>, nb <- 0, minExp <- <<>>, count <- 0,
        panicked <- FALSE, last <- <<>>, nops <- 0

Strings == UNION {[1..n -> Alphabet] : n \in 0..MaxLen}

VARIABLES x, a, b
Init == x \in Strings /\ a \in Strings /\ b \in Strings
Next == FALSE /\ UNCHANGED <<x, a, b>>
Spec == Init /\ [][Next]_<<x, a, b>>

Sign(n) == IF n < 0 THEN -1 ELSE IF n > 0 THEN 1 ELSE 0

\* laws, over "what DistanceCmp returns" given as an operator C(_,_,_)
AgreesWithBytesCompare(C(_, _, _), x0, a0, b0) == Sign(C(x0, a0, b0)) = KC!DistCmpSpec(x0, a0, b0)
Antisymmetric(C(_, _, _), x0, a0, b0) == Sign(C(x0, a0, b0)) = -Sign(C(x0, b0, a0))
ZeroIffEqual(C(_, _, _), x0, a0, b0) ==
    (Len(x0) = Len(a0) /\ Len(a0) = Len(b0)) => ((C(x0, a0, b0) = 0) <=> (a0 = b0))
DistSymmetric(x0, a0) == KC!Dist(x0, a0) = KC!Dist(a0, x0)

CodedAgrees == AgreesWithBytesCompare(KC!DistCmpCoded, x, a, b)
CodedAntisym == Antisymmetric(KC!DistCmpCoded, x, a, b)
CodedZero == ZeroIffEqual(KC!DistCmpCoded, x, a, b)
CodedSym == DistSymmetric(x, a)
\* transitivity over all third strings
CodedTransitive == \A c \in Strings :
    (KC!DistCmpCoded(x, a, b) <= 0 /\ KC!DistCmpCoded(x, b, c) <= 0) => KC!DistCmpCoded(x, a, c) <= 0
LeadingZerosLaw == KC!LZ(KC!Dist(x, a)) \in 0..(8 * Len(KC!Dist(x, a)))

Dump == PrintT(ToJson(<<"CASE", x, a, b>>))
=============================================================================
