SPECIFICATION GenSpec
CONSTANTS
  MaxS = 8
  MaxRestart = 0
  MaxRekey = 2
  MaxSendCalls = 3
  AcceptA = {"A", "B", "M"}
  AcceptB = {"A", "B", "M"}
  RestartKeys = {"A"}
  Eager = TRUE
  MaxSteps = 30
CHECK_DEADLOCK FALSE
