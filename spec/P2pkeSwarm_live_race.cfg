SPECIFICATION FairSpec
CONSTANTS
  MaxC = 4
  MaxH = 3
  MaxTell = 2
  MaxDrop = 0
  MaxHold = 0
  MaxJunk = 0
  MaxClose = 0
  MaxRekey = 0
  KExp = 4
  KIdle = 5
  KGrace = 9
  Period = 2
  TellTO = 3
  WLA <- Both
  WLB <- Both
  DstsA <- DA_good
  DstsB <- DB_good
  AllowEmpty = FALSE
  Fixed <- AllFixed
  EagerCleanup = FALSE

INVARIANT Safety
PROPERTY Resumes
CHECK_DEADLOCK FALSE
