SPECIFICATION Spec
CONSTANTS
  MaxN = 6
INVARIANTS Laws
CHECK_DEADLOCK FALSE
