--------------------------- MODULE PacketConnGen ---------------------------
(* Behaviour generators for funcreplay -mode packetconn: a history variable over PacketConn;      *)
(* GenSpec: random simulation, printed when the depth bound is reached; CoverSpec: the            *)
(* exhaustive state cover.                                                                        *)
EXTENDS PacketConn
VARIABLES hist, done
genvars == <<vars, hist, done>>
GenInit == Init /\ hist = <<>> /\ done = FALSE
Finish == /\ nops = MaxOps /\ ~done
          /\ PrintT(ToJson(<<"BEH", hist>>))
          /\ done' = TRUE /\ UNCHANGED <<vars, hist>>
\* one random instance of Set; Close only every third time it is considered
RandNext ==
    \/ \E w \in {RandomElement({"setr", "setr", "setb", "setw"})}, k \in {RandomElement(DKinds)} : Set(w, k)
    \/ Arrive \/ Read \/ Expire \/ Write
    \/ \E c \in {RandomElement(1..3)} : c = 1 /\ Close
GenNext == \/ (RandNext /\ hist' = Append(hist, last') /\ UNCHANGED done)
           \/ Finish
GenSpec == GenInit /\ [][GenNext]_genvars

\* exhaustive state cover (VIEW hides hist and last): for every distinct state of PacketConn the
\* first (BFS-shortest) path that reached it, printed once; the laws are checked on the same run
coverview == <<st, nsent, nops>>
CoverNext == Next /\ hist' = Append(hist, last') /\ UNCHANGED done
CoverSpec == GenInit /\ [][CoverNext]_genvars
DumpEvery == (nops > 0) => PrintT(ToJson(<<"BEH", hist>>))
\* edge cover (ACTION_CONSTRAINT, evaluated for every generated transition, also those into known
\* states): the representative path to the source state followed by this transition.  A state cover
\* alone would never execute an operation that leaves the state unchanged (WriteTo, a refused packet).
EdgeDump == PrintT(ToJson(<<"BEH", hist'>>))
=============================================================================
