---------------------------- MODULE DHTNodeTrace ----------------------------
(***************************************************************************)
(* Trace specification binding DHTNode.tla to the real kademlia.DHTNode.    *)
(* The log (ndjson, harness/cmd/dhtnodereplay) holds per call its arguments,*)
(* what it returned and the observation of the node afterwards (every read- *)
(* only method over the universes) through the public API, and CreatedAt /  *)
(* ExpiresAt of every entry through the read-only hook VerifCaches.         *)
(*                                                                         *)
(*  VIOL   a law operator of DHTNode (ObsLaws on the observation,           *)
(*         NodeStepLaws on the observation before, the call, the result and *)
(*         the observation after; expiry times implied by the INPUTS) is    *)
(*         false on what the real node did                                  *)
(*  DRIFT  the call is not an outcome of the as-coded model (NodeOutcomes   *)
(*         from the model's cache values P, D, which the trace spec carries *)
(*         along: len(buckets) and minExpiresAt are not observed), or       *)
(*         a read-only method answers differently from the model's function *)
(* Validation never blocks.  An "init" event carries the calls that were    *)
(* executed silently before it (prefill, prefix of an edge-cover behaviour):*)
(* the model is run over them to obtain P, D and the implied expiry times.  *)
(***************************************************************************)
EXTENDS DHTNode, Json, IOUtils, DHTNodeTraceU

Log == ndJsonDeserialize(IOEnv.TRACE)

VARIABLES l, obs
tvars == <<nvars, l, obs>>

TNone == {}
TKeys == TPeers \cup TDataKeys
TQueries == TDataKeys \cup TTargets

StampMap(s) == LET S == ToSet(s) IN [k \in {d.k : d \in S} |-> LET d == CHOOSE d \in S : d.k = k IN [c |-> d.c, e |-> d.e]]
MapKV(s) == LET S == ToSet(s) IN [k \in {d.k : d \in S} |-> (CHOOSE d \in S : d.k = k).v]
ObsOf(ev) ==
    LET L == ToSet(ev.list)  H == ToSet(ev.hget)  F == ToSet(ev.find)  I == ToSet(ev.infos)  W == ToSet(ev.would) IN
    [peers |-> MapKV(ev.peers),
     has |-> ToSet(ev.has),
     data |-> MapKV(ev.data),
     count |-> ev.count,
     list |-> [n \in {x.n : x \in L} |-> (CHOOSE x \in L : x.n = n).s],
     hget |-> [q \in {x.q : x \in H} |-> LET x == CHOOSE x \in H : x.q = q IN [v |-> x.v, s |-> x.s, si |-> x.si]],
     find |-> [y \in {<<x.q, x.n>> : x \in F} |-> (CHOOSE x \in F : x.q = y[1] /\ x.n = y[2]).s],
     infos |-> [y \in {<<x.q, x.n>> : x \in I} |-> (CHOOSE x \in I : x.q = y[1] /\ x.n = y[2]).s],
     would |-> [k \in {x.k : x \in W} |-> (CHOOSE x \in W : x.k = k).b],
     pst |-> StampMap(ev.pst), dst |-> StampMap(ev.dst)]
EmptyObs == [peers |-> <<>>, has |-> {}, data |-> <<>>, count |-> 0, list |-> <<>>, hget |-> <<>>, find |-> <<>>,
             infos |-> <<>>, would |-> <<>>, pst |-> <<>>, dst |-> <<>>]

\* the model over the silent calls (any outcome where map order decides)
RECURSIVE RunPrefix(_, _, _, _, _, _, _)
RunPrefix(st, ops, i, pmx, dmx, a, b) ==
    IF i > Len(ops) THEN st
    ELSE LET o == ops[i]
             out == CHOOSE out \in NodeOutcomes(st.P, st.D, pmx, dmx, o) : TRUE
         IN RunPrefix([P |-> out.P, D |-> out.D, gpx |-> NextPx(st.gpx, o), gdx |-> NextDx(st.gdx, o),
                       gpb |-> NextPb(st.gpb, DOMAIN st.P.E, {k \in DOMAIN st.P.E : ~Expired(st.P.E[k], o.t)}, o), gdb |-> NextDb(st.gdb, o)], ops, i + 1, pmx, dmx, a, b)

\* a cache value that agrees with an observed map (after a step the model cannot explain)
Resync(C, m, st, t) ==
    LET E2 == [k \in DOMAIN m |-> IF k \in DOMAIN st THEN [v |-> m[k], c |-> st[k].c, e |-> st[k].e]
                                  ELSE IF k \in DOMAIN C.E THEN [C.E[k] EXCEPT !.v = m[k]]
                                  ELSE [v |-> m[k], c |-> t, e |-> t]]
    IN MkCache(E2, Max2(C.n, MaxBucket(DOMAIN m) + 1),
               [i \in 0..(NBuckets - 1) |-> MinExpOf(E2, InB(E2, i))], Cardinality(DOMAIN m))

\* read-only methods versus the model's functions
ReadDrift(o, Pc, Dc, pmx, dmx) ==
    {nm \in {"Count", "HandleGet", "Closer", "FindNode", "ListNodeInfos", "WouldAdd", "ListPeersLen", "Stamps"} :
        CASE nm = "Count" -> o.count # Dc.c
          [] nm = "HandleGet" -> \E q \in DOMAIN o.hget : o.hget[q].v # GetC(Dc, q)
          [] nm = "Closer" -> \E q \in DOMAIN o.hget : o.hget[q].s # CloserNodesOf(Pc, q)
          [] nm = "FindNode" -> \E y \in DOMAIN o.find : o.find[y] # FindNodeOf(Pc, y[1], y[2])
          [] nm = "ListNodeInfos" -> \E y \in DOMAIN o.infos : o.infos[y] # ListNodeInfosOf(Pc, y[1], y[2])
          [] nm = "WouldAdd" -> \E k \in DOMAIN o.would : o.would[k] # WouldAddC2(Dc, dmx, DataMin, k)
          [] nm = "Stamps" -> \/ o.pst # [k \in DOMAIN Pc.E |-> [c |-> Pc.E[k].c, e |-> Pc.E[k].e]]
                              \/ o.dst # [k \in DOMAIN Dc.E |-> [c |-> Dc.E[k].c, e |-> Dc.E[k].e]]
          [] nm = "ListPeersLen" -> \E n \in DOMAIN o.list : Len(o.list[n]) # Len(ListPeersOf(Pc, n))}

TraceInit ==
    /\ l = 1
    /\ pmax = 0 /\ dmax = 0 /\ P = EmptyC /\ D = EmptyC /\ now = 1
    /\ obs = EmptyObs /\ gpx = <<>> /\ gdx = <<>> /\ gpb = <<>> /\ gdb = <<>>
    /\ cmax = 0 /\ cmin = 0 /\ ents = <<>> /\ nb = 0 /\ minExp = <<>> /\ count = 0
    /\ panicked = FALSE /\ last = NoRes /\ nops = 0

Frozen == UNCHANGED <<cmax, cmin, ents, nb, minExp, count, last, nops>>

TraceNext ==
    /\ l <= Len(Log)
    /\ l' = l + 1
    /\ Frozen
    /\ LET ev == Log[l] IN
       IF ev.panic THEN
           /\ PrintT(ToJson(<<"VIOL", l, ev.beh, {"NoPanic"}>>))
           /\ panicked' = TRUE
           /\ UNCHANGED <<pmax, dmax, P, D, now, obs, gpx, gdx, gpb, gdb>>
       ELSE IF ev.ev = "cachedel" THEN
           \* a probe of kademlia.Cache itself (not of DHTNode): Delete of an absent key; ret = the returned *Entry is not nil
           /\ ev.ret => PrintT(ToJson(<<"VIOL", l, ev.beh, {"CacheDeleteNilWhenAbsent"}>>))
           /\ UNCHANGED <<pmax, dmax, P, D, now, obs, gpx, gdx, gpb, gdb, panicked>>
       ELSE IF ev.ev = "init" THEN
           LET run == RunPrefix([P |-> EmptyC, D |-> EmptyC, gpx |-> <<>>, gdx |-> <<>>, gpb |-> <<>>, gdb |-> <<>>], ev.prefix, 1, ev.pmax, ev.dmax, 0, 0)
               o2 == ObsOf(ev)
               okP == Proj(run.P) = o2.peers
               okD == Proj(run.D) = o2.data
               P2 == IF okP THEN run.P ELSE Resync(run.P, o2.peers, o2.pst, ev.t)
               D2 == IF okD THEN run.D ELSE Resync(run.D, o2.data, o2.dst, ev.t)
               vs == ObsLaws(o2, ev.pmax, ev.dmax)
               rd == ReadDrift(o2, P2, D2, ev.pmax, ev.dmax)
           IN /\ pmax' = ev.pmax /\ dmax' = ev.dmax
              /\ P' = P2 /\ D' = D2 /\ now' = ev.t
              /\ obs' = o2 /\ gpx' = run.gpx /\ gdx' = run.gdx /\ gpb' = run.gpb /\ gdb' = run.gdb
              /\ panicked' = FALSE
              /\ (vs # {}) => PrintT(ToJson(<<"VIOL", l, ev.beh, vs>>))
              \* (after a silent prefix a difference may be a legitimate tie in map order: not reported)
              /\ (~ev.jump /\ ~(okP /\ okD)) => PrintT(ToJson(<<"DRIFT", l, ev.beh, {"init"}>>))
              /\ (rd # {} /\ okP /\ okD) => PrintT(ToJson(<<"DRIFT", l, ev.beh, rd>>))
       ELSE
           LET c == [op |-> ev.ev, key |-> ev.key, v |-> ev.v, ttl |-> ev.ttl, t |-> ev.t]
               r == [ret |-> ev.ret, acc |-> ev.acc, closer |-> ev.closer]
               o2 == ObsOf(ev)
               vs == NodeStepLaws(obs, gpx, gdx, gpb, gdb, c, r, o2, pmax, dmax) \cup ObsLaws(o2, pmax, dmax)
               outs == NodeOutcomes(P, D, pmax, dmax, c)
               match == {out \in outs : /\ Proj(out.P) = o2.peers /\ Proj(out.D) = o2.data
                                        /\ out.ret = r.ret /\ out.acc = r.acc /\ out.closer = r.closer}
               any == CHOOSE out \in outs : TRUE
               px2 == NextPx(gpx, c)
               dx2 == NextDx(gdx, c)
               P2 == IF match # {} THEN (CHOOSE out \in match : TRUE).P ELSE Resync(any.P, o2.peers, o2.pst, ev.t)
               D2 == IF match # {} THEN (CHOOSE out \in match : TRUE).D ELSE Resync(any.D, o2.data, o2.dst, ev.t)
               rd == ReadDrift(o2, P2, D2, pmax, dmax)
           IN /\ UNCHANGED <<pmax, dmax>>
              /\ P' = P2 /\ D' = D2 /\ now' = ev.t
              /\ obs' = o2 /\ gpx' = px2 /\ gdx' = dx2
              /\ gpb' = NextPb(gpb, DOMAIN obs.peers, Live(obs.peers, gpx, ev.t), c) /\ gdb' = NextDb(gdb, c)
              /\ panicked' = FALSE
              /\ (vs # {}) => PrintT(ToJson(<<"VIOL", l, ev.beh, vs>>))
              /\ (match = {}) => PrintT(ToJson(<<"DRIFT", l, ev.beh, {"step/" \o ev.ev}>>))
              /\ (rd # {} /\ match # {}) => PrintT(ToJson(<<"DRIFT", l, ev.beh, rd>>))

TraceSpec == TraceInit /\ [][TraceNext]_tvars
AllConsumed == TLCGet("distinct") >= Len(Log) + 1
=============================================================================
