SPECIFICATION GenSpec
CONSTANTS
  Locus <- SmallLocus
  Keys <- BoundaryKeys
  Queries <- SmallQueries
  Configs <- BoundaryConfigs
  Vals = {1, 2}
  Times = {1, 2, 3}
  TouchTimes = {0, 2}
  ExpTimes = {1, 2, 3, 4}
  Exps = {0, 1, 2, 3}
  MaxOps = 8
CHECK_DEADLOCK FALSE
