SPECIFICATION Spec
CONSTANTS
  Locus <- SmallLocus
  Keys <- SmallKeys
  Queries <- SmallQueries
  Configs <- SmallConfigs
  Vals = {1}
  Times = {1, 2}
  TouchTimes = {0, 2}
  ExpTimes = {2, 3}
  Exps = {0, 1, 2}
  MaxOps = 3
VIEW view
INVARIANTS TieOutcomes
PROPERTIES TieProp
CHECK_DEADLOCK FALSE
