SPECIFICATION Spec
CONSTANTS
  InnerMtus <- MtuSetQ
  Bases <- BaseV
  TopLayers <- AllLayers
  LowLayers <- AllLayers
  Depth = 3
  SizeCap = 5300000
INVARIANTS Honest
CHECK_DEADLOCK FALSE
