SPECIFICATION Spec
CONSTANTS
  Nodes = {1, 2}
  Ids = {1, 2}
  Transport = "quic"
  MaxConn = 3
  MaxOps = 2
  MaxEnv = 2
  Fixes <- MCNoRemoveOwn
INVARIANTS NoOrphan
CHECK_DEADLOCK FALSE
