SPECIFICATION CoverSpec
CONSTANTS
  QLen = 2
  MaxOps = 4
VIEW coverview
INVARIANTS TypeOK BlockedMeansEmpty ClosedMeansEmpty
ACTION_CONSTRAINT EdgeDump
PROPERTIES StepLawsProp
CHECK_DEADLOCK FALSE
