SPECIFICATION Spec
CONSTANTS
  Threads = {t1, t2}
  MaxOps = 3
INVARIANTS TypeOK NoConcurrentFn QuietAfterStopSync OncePerReset StoppedNotPending
PROPERTIES FnNeedsLiveReset
CHECK_DEADLOCK FALSE
