SPECIFICATION Spec
CONSTANTS
  P = 16
  R = 1
  M = 16
  XMin <- MCXMin
  XMax <- MCXMax
INVARIANTS OddEvenChoice RoundTrip ExactSkew WrongIsOffByPeriod DecodeNear EpochLaws Fits Dump
CHECK_DEADLOCK FALSE
