SPECIFICATION Spec
CONSTANTS
  Rich = FALSE
  KeepParams = TRUE
  LengthFastPath = FALSE
  StrictIdText = TRUE
INVARIANTS WireCanonicalLaw
CHECK_DEADLOCK FALSE
