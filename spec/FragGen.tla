------------------------------ MODULE FragGen ------------------------------
(***************************************************************************)
(* Schedule generator for the fragment replayer (C10), used with            *)
(* `tlc -simulate`.  One behaviour = one scenario (layer, blocks per inner  *)
(* packet, the lengths of the two messages every source tells, a set of     *)
(* fragments that are lost for good) followed by a schedule: a sequence of  *)
(* steps, each feeding ONE fragment to the real receiver, or a BURST of two *)
(* or three fragments handed to different receive workers at the same time. *)
(* Fragments are abstract <<src, msg, idx>>; their number per message comes *)
(* from the coded sender arithmetic of Frag.tla (NFrags).  Fragments are    *)
(* drawn mostly from those not fed yet (so that messages do complete) and   *)
(* otherwise from everything (duplicates, late copies after a delivery).    *)
(***************************************************************************)
EXTENDS Integers, Sequences, FiniteSets, TLC, Json

CONSTANTS
    Layers,       \* subset of {"frag", "mbapp"}
    Caps,         \* set of blocks-per-packet values
    NSources,     \* number of sources
    MaxParts,     \* messages have 1..MaxParts*cap blocks
    HugeParts,    \* set of part counts for the occasional very long message ({} = never)
    MaxSteps      \* schedule length bound

F == INSTANCE Frag WITH Layer <- "frag", Sources <- {}, MsgLens <- <<>>, PartCap <- 1, LayerMtu <- 0,
        Workers <- {}, WithCleanup <- FALSE,
        net <- {}, amap <- <<>>, heap <- <<>>, wk <- <<>>, bad <- {}, last <- <<>>

VARIABLES scen, pool, all, steps, done
gvars == <<scen, pool, all, steps, done>>

NoScen == [layer |-> "none"]
Init == scen = NoScen /\ pool = {} /\ all = {} /\ steps = <<>> /\ done = FALSE

Srcs == 1..NSources
FragsOfMsg(layer, cap, s, k, len) == {<<s, k, i>> : i \in 0..(F!NFrags(len, cap, layer) - 1)}

\* first step: choose the scenario.  Every random draw is bound by \E x \in {RandomElement(..)}
\* (a RandomElement inside a LET would be re-drawn at each use).
Choose ==
    /\ scen = NoScen
    /\ \E layer \in {RandomElement(Layers)}, cap \in {RandomElement(Caps)} :
       \E l11 \in {RandomElement(1..(MaxParts * cap))}, l12 \in {RandomElement(1..(MaxParts * cap))},
          l21 \in {RandomElement(1..(MaxParts * cap))}, l22 \in {RandomElement(1..(MaxParts * cap))},
          l31 \in {RandomElement(1..(MaxParts * cap))}, l32 \in {RandomElement(1..(2 * cap))},
          huge \in {RandomElement(0..7)}, hp \in {RandomElement(HugeParts \cup {0})}, hr \in {RandomElement(0..(cap - 1))} :
       LET h == IF huge = 0 /\ hp > 0 THEN hp * cap - hr ELSE 0
           raw == <<<<IF h > 0 THEN h ELSE l11, l12>>, <<l21, l22>>, <<l31, l32>>>>
           lens == [s \in Srcs |-> raw[s]]
           frags == UNION {FragsOfMsg(layer, cap, s, k, lens[s][k]) : s \in Srcs, k \in 1..2}
       IN \E nl \in {RandomElement(0..2)} :
          \* up to nl fragments are lost for good (never fed): their messages must never be delivered
          \E lost \in {IF nl = 0 THEN {} ELSE {RandomElement(frags) : j \in 1..nl}} :
             /\ scen' = [layer |-> layer, cap |-> cap, lens |-> lens, lost |-> lost]
             /\ all' = frags \ lost
             /\ pool' = frags \ lost
    /\ UNCHANGED <<steps, done>>

Pick(n) ==
    \* n fragments: each from the not-yet-fed pool with probability 3/4, else from everything
    [j \in 1..n |-> LET fromPool == RandomElement(0..3) # 0 IN
                    IF fromPool /\ pool # {} THEN RandomElement(pool) ELSE RandomElement(all)]

Step ==
    /\ scen # NoScen /\ ~done /\ Len(steps) < MaxSteps /\ all # {}
    /\ \E kind \in {RandomElement(0..5)} :
       \E fs \in {Pick(IF kind = 0 THEN 3 ELSE IF kind = 1 THEN 2 ELSE 1)} :
          /\ steps' = Append(steps, fs)
          /\ pool' = pool \ {fs[j] : j \in 1..Len(fs)}
    /\ UNCHANGED <<scen, all, done>>

\* stop a few steps after everything was fed at least once, or at the bound
Finish ==
    /\ scen # NoScen /\ ~done
    /\ \/ Len(steps) >= MaxSteps \/ all = {}
       \/ (pool = {} /\ RandomElement(0..3) = 0)
    /\ PrintT(ToJson(<<"BEH", [layer |-> scen.layer, cap |-> scen.cap, lens |-> scen.lens,
                               lost |-> scen.lost, steps |-> steps]>>))
    /\ done' = TRUE
    /\ UNCHANGED <<scen, pool, all, steps>>

Next == Choose \/ Step \/ Finish
Spec == Init /\ [][Next]_gvars
=============================================================================
