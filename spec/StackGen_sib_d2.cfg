SPECIFICATION Spec
CONSTANTS
  InnerMtus <- MtuSet3
  Bases <- BaseVN
  TopLayers <- SibLayers
  LowLayers <- FewLayers
  Depth = 2
  SizeCap = 300000
INVARIANTS Dump
CHECK_DEADLOCK FALSE
