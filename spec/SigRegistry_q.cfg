SPECIFICATION Spec
CONSTANTS
  Keys <- MCKeys
  MLens <- MCMLens
  DLens <- MCDLens
  Repaired = TRUE
INVARIANTS ModelLaws NeverPanics Dump
CHECK_DEADLOCK FALSE
