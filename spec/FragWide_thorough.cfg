SPECIFICATION Spec
CONSTANTS
  WLayers = {"frag", "mbapp"}
  PartCounts <- CountsThorough
  WithholdK = {1, 7, 8, 9}
  WCaps = {1, 2}
  WOrders = {"asc", "desc"}
INVARIANTS WideNoPartial WideCompletes Dump
CHECK_DEADLOCK FALSE
