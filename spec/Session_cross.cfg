SPECIFICATION Spec
CONSTANTS
  Sess <- Cross
  Role <- CrossRole
  KeyOf <- CrossKey
  EphOf <- CrossEph
  SessIdx <- CrossIdx
  MaxForge = 0
  MaxSend = 1
  Window = 2
  Weak = {}
VIEW view
INVARIANTS TypeOK AuthBeforeUse Agreement HonestPair Authentic AtMostOnce NonceUnique DataCountersHigh
PROPERTIES Monotone
CHECK_DEADLOCK FALSE
