------------------------------ MODULE KeMessage ------------------------------
(***************************************************************************)
(* p2pke.Message (/repo/p/p2pke/messages.go): a view over bytes, HW header *)
(* digits (Go: 4 bytes, base B = 256) holding the big-endian counter,      *)
(* followed by the body; the classification of a message by its counter    *)
(* (p2pke.go: IsInitHello, IsRespHello, IsHello, IsPostHandshake) and      *)
(* Session.Deliver's dispatch (session.go:110: counters 0..3 are handshake *)
(* messages, every other counter is data); the purpose-tagged signatures   *)
(* (session.go:485 sign / verify / createPreSig: the signed bytes are a    *)
(* hash of len(purpose) ++ purpose ++ message).                            *)
(*                                                                         *)
(* Counters are digit sequences (2^32-1 does not fit TLC's integers); the  *)
(* comparisons are lexicographic.  TLC checks the model over B = 4, HW = 3 *)
(* (counters 0..63) and generates the byte-level cases at B = 256, HW = 4. *)
(***************************************************************************)
EXTENDS Integers, Sequences, FiniteSets, TLC, Json

CONSTANTS B, HW, Counters, BLens, Alphabet

VARIABLES c

Digits(n) == [i \in 1..HW |-> (n \div (B ^ (HW - i))) % B]          \* n < B^HW, small
Lt(x, y) == \E i \in 1..HW : x[i] < y[i] /\ \A j \in 1..(i - 1) : x[j] = y[j]

\* messages.go as coded
ParseOK(n) == n >= HW                                                 \* ParseMessage (messages.go:69)
SetCounter(m, x) == x \o SubSeq(m, HW + 1, Len(m))                    \* SetNonce: big-endian into m[:4]
GetCounter(m) == SubSeq(m, 1, HW)
NewMessage(x) == x                                                    \* newMessage: a message of exactly the header
\* p2pke.go / session.go as coded
IsInitHello(x) == x = Digits(0)
IsRespHello(x) == x = Digits(1)
IsPostHandshake(x) == ~Lt(x, Digits(16))
Dispatch(x) == IF Lt(x, Digits(4)) THEN "handshake" ELSE "data"      \* Deliver: switch nonce { case 0, 1, 2, 3: ... default: ... }
Class(x) == CASE x = Digits(0) -> "InitHello" [] x = Digits(1) -> "RespHello" [] x = Digits(2) -> "InitDone"
              [] x = Digits(3) -> "RespDone" [] Lt(x, Digits(16)) -> "reserved" [] OTHER -> "data"

-----------------------------------------------------------------------------
(* Laws over observables *)
CounterRoundTripP(x, got, nm, hb, bodyok) == got = x /\ nm = x /\ hb = x /\ bodyok
ShortIsErrorP(n, parseerr) == parseerr <=> n < HW
\* the predicates are functions of the counter alone, and mutually consistent
ClassifyP(x, isih, isrh, ish, isph) ==
    /\ isih <=> Class(x) = "InitHello"
    /\ isrh <=> Class(x) = "RespHello"
    /\ ish <=> (isih \/ isrh)
    /\ isph <=> Class(x) = "data"
\* Deliver treats exactly the counters 0..3 as handshake messages; a session that has not completed its
\* handshake refuses every other counter as early data (dresp / dinit: a fresh responder / initiator)
IsHs(d) == d \in {"hs", "hsok"}
DispatchP(x, dresp, dinit) ==
    /\ IsHs(dresp) <=> Class(x) \in {"InitHello", "RespHello", "InitDone", "RespDone"}
    /\ IsHs(dinit) <=> IsHs(dresp)
    /\ ~IsHs(dresp) => (dresp = "early" /\ dinit = "early")
ShortNeverClassifiedP(n, isih, isrh, ish, isph, dresp, dinit) ==
    n < HW => (~isih /\ ~isrh /\ ~ish /\ ~isph /\ dresp = "short" /\ dinit = "short")
\* the slices a Message hands out cannot be grown into the rest of the buffer
NoAliasP(hdralias, bodyalias, hdrlen, bodylen, n) == ~hdralias /\ ~bodyalias /\ hdrlen = HW /\ bodylen = n - HW
\* sign / verify: a purpose longer than 255 bytes is an error; a signature verifies exactly under the purpose,
\* message and key it was made with
PurposeBindingP(same, plen, serr, verr) == (serr <=> plen > 255) /\ (~serr => (verr <=> ~same))
ClaimP(pv, mut, verr, keyeq) == (pv = 0 /\ mut = "none") <=> (~verr /\ keyeq)

\* createPreSig's input is injective in (purpose, message): the length prefix separates them
PreSigInput(p, m) == <<Len(p)>> \o p \o m
Strs == UNION {[1..k -> Alphabet] : k \in 0..2}
ASSUME DomainSeparation == \A p1, p2, m1, m2 \in Strs : PreSigInput(p1, m1) = PreSigInput(p2, m2) => (p1 = p2 /\ m1 = m2)
\* without the length prefix it would not be
ASSUME PrefixNeeded == \E p1, p2, m1, m2 \in Strs : p1 \o m1 = p2 \o m2 /\ p1 # p2

-----------------------------------------------------------------------------
(* Case generator *)
CtrCases == {[kind |-> "ctr", c |-> x, blen |-> b] : x \in Counters, b \in BLens}
ShortCases == {[kind |-> "short", n |-> n] : n \in 0..(HW + 1)}
AliasCases == {[kind |-> "alias", n |-> n] : n \in {HW, HW + 1, HW + 12}}
Init == c \in CtrCases \cup ShortCases \cup AliasCases
Next == UNCHANGED c
Spec == Init /\ [][Next]_c

ModelLaws ==
    CASE c.kind = "ctr" ->
           LET m == SetCounter([i \in 1..(HW + c.blen) |-> 0], c.c)
               x == GetCounter(m) IN
           /\ CounterRoundTripP(c.c, x, NewMessage(c.c), SubSeq(m, 1, HW), Len(m) = HW + c.blen)
           /\ ClassifyP(x, IsInitHello(x), IsRespHello(x), IsInitHello(x) \/ IsRespHello(x), IsPostHandshake(x))
           /\ (Dispatch(x) = "handshake") <=> Class(x) \in {"InitHello", "RespHello", "InitDone", "RespDone"}
           /\ Cardinality({k \in {"InitHello", "RespHello", "InitDone", "RespDone", "reserved", "data"} : Class(x) = k}) = 1
      [] c.kind = "short" -> ShortIsErrorP(c.n, ~ParseOK(c.n))
      [] OTHER -> TRUE
Dump == PrintT(ToJson(<<"CASE", c>>))
=============================================================================
