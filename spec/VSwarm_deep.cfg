SPECIFICATION Spec
CONSTANTS
  Addrs = {0, 1, 2}
  Unknown = 7
  QLen = 2
  Kind = "mem"
  TfKind = "none"
  Wrap = "none"
  Allow <- AllowAll
  N0 = 2
  Sizes = {"s"}
  TFs = {"pass"}
  Ctxs = {"wait"}
  Handlers = {"echo"}
  PairKinds = {}
  MaxOps = 4
  MaxAsks = 1
INVARIANTS TypeOK LawsHold MustIsQueued
CHECK_DEADLOCK FALSE
