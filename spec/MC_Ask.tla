------------------------------- MODULE MC_Ask -------------------------------
(* model-checking constants for Ask.tla: askers and servers as symmetric model values *)
EXTENDS Ask
CONSTANTS a1, a2, s1, s2
Sym == Permutations({a1, a2}) \cup Permutations({s1, s2})
=============================================================================
