SPECIFICATION Spec
CONSTANTS
  Layer = "frag"
  Sources <- Src2
  MsgLens <- Lens_deep
  PartCap = 2
  LayerMtu = 100
  Workers = {w1, w2}
  WithCleanup = FALSE
SYMMETRY WSym
INVARIANTS NoInvention NoPartial TypeOK
CHECK_DEADLOCK FALSE
