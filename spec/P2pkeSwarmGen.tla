--------------------------- MODULE P2pkeSwarmGen ---------------------------
(***************************************************************************)
(* Behaviour generation for harness/cmd/pkswarmreplay.                     *)
(*                                                                         *)
(* The replayer runs REAL p2pkeswarm nodes under the Go runtime's virtual  *)
(* clock: time advances only when every goroutine is blocked.  So after    *)
(* each environment action the real system runs until nothing is left to   *)
(* do without time passing, and only then does the next action happen.     *)
(* The generator does the same: internal steps (cleanup first, then the    *)
(* steps of Tell calls, deliveries, the handshake timer - at most once per *)
(* channel and tick, a repetition changes nothing -, the second half of    *)
(* Close) run until none is enabled; then ONE environment action:          *)
(*   tell, tick, close, junk, hold / release of a directed link (packets   *)
(*   queue up on a held link: latency), drop of the head of a held link.   *)
(* Every environment action is logged with the projection of the state it  *)
(* found (= the outcome of everything before it).                          *)
(*                                                                         *)
(* Two modes: Scripts = <<>>: random simulation (tlc -simulate);           *)
(* otherwise each element of Scripts is followed as one PATH (the script   *)
(* is part of the state, so paths are never merged), like ChannelScript.   *)
(***************************************************************************)
EXTENDS P2pkeSwarm, Json
CONSTANTS MaxSteps, Scripts
VARIABLES hist, done, script, held, grtx, obs, nfault,
          ever    \* TRUE once a state of a known finding was passed through (KF_Zombie, KF_Hopeless), transient or not
gvars == <<vars, hist, done, script, held, grtx, obs, nfault, ever>>
MaxFaultActs == 8      \* hold / release / drop actions per behaviour (the replayer waits 300 ms after each: the
                       \* handshake timer, period 250 ms, fires at least once, inside the same tick)

SlotProj(n, t) ==
    IF store[n][t] = 0 THEN [p |-> FALSE, same |-> FALSE, ready |-> FALSE, bound |-> "none", lr |-> 0, ls |-> 0, hs |-> FALSE]
    ELSE LET c == ch[store[n][t]] IN
         [p |-> TRUE, same |-> (store[n][t] = obs[n][t]), ready |-> (c.cur # 0), bound |-> c.bound, lr |-> c.lr, ls |-> c.ls, hs |-> (c.nxt # 0)]
Proj == [st |-> st,
         store |-> [n \in Node |-> [t \in Addrs |-> SlotProj(n, t)]],
         rets |-> [i \in 1..ntell |-> tells[i].ret],
         delivered |-> {<<d[1], d[2]>> : d \in delivered},
         lost |-> {<<x.tid, x.cause>> : x \in lost},
         kf |-> (ever \/ KF_Zombie), hopeless |-> (ever \/ KF_Hopeless)]

Scripted == Scripts # <<>>
RtxOk(i) == i \notin grtx
IntEnabled ==
    \/ \E n \in due : st[n] = "open"
    \/ \E i \in 1..ntell : tells[i].pc \in {"get", "use"} \/ (tells[i].pc = "wait" /\ (ch[tells[i].c].cur # 0 \/ tells[i].left = 0))
    \/ \E l \in Links \ held : net[l] # <<>> /\ st[NodeAt(l[2])] = "open" /\ (store[NodeAt(l[2])][l[1]] # 0 \/ nch < MaxC)
    \/ \E i \in 1..nch : RtxOk(i) /\ Stalled(i) /\ ch[i].t \in Live /\ Wire(ch[i].own, Cur(ch[i])) # {}
    \/ \E n \in Node : st[n] = "closing"
MinS(S) == CHOOSE x \in S : \A y \in S : x <= y
\* scripted mode: ONE canonical order of the internal steps (one behaviour per script); simulation: any order
IntDet ==
    LET G == {i \in 1..ntell : tells[i].pc = "get"}
        U == {i \in 1..ntell : tells[i].pc = "use" \/ (tells[i].pc = "wait" /\ ch[tells[i].c].cur # 0)}
        O == {i \in 1..ntell : tells[i].pc = "wait" /\ ch[tells[i].c].cur = 0 /\ tells[i].left = 0}
        L == {l \in Links \ held : net[l] # <<>> /\ st[NodeAt(l[2])] = "open" /\ (store[NodeAt(l[2])][l[1]] # 0 \/ nch < MaxC)}
        X == {i \in 1..nch : RtxOk(i) /\ Stalled(i) /\ ch[i].t \in Live /\ Wire(ch[i].own, Cur(ch[i])) # {}}
    IN IF G # {} THEN TellGet(MinS(G)) /\ UNCHANGED grtx
       ELSE IF U # {} THEN TellUse(MinS(U)) /\ UNCHANGED grtx
       ELSE IF L # {} THEN Incoming(IF <<"a", "b">> \in L THEN <<"a", "b">> ELSE <<"b", "a">>) /\ UNCHANGED grtx
       ELSE IF O # {} THEN TellTimeout(MinS(O)) /\ UNCHANGED grtx
       ELSE IF X # {} THEN Retransmit(MinS(X)) /\ grtx' = grtx \cup {MinS(X)}
       ELSE (\E n \in Node : CloseEnd(n)) /\ UNCHANGED grtx
IntStep ==
    /\ UNCHANGED <<hist, done, script, held, obs, nfault>>
    /\ IF \E n \in due : st[n] = "open"
       THEN Cleanup(IF "A" \in due /\ st["A"] = "open" THEN "A" ELSE "B") /\ UNCHANGED grtx
       ELSE IF Scripted THEN IntDet
       ELSE \/ (\E i \in 1..MaxTell : TellGet(i) \/ TellUse(i) \/ TellTimeout(i)) /\ UNCHANGED grtx
            \/ (\E l \in Links \ held : Incoming(l)) /\ UNCHANGED grtx
            \/ \E i \in 1..MaxC : RtxOk(i) /\ Retransmit(i) /\ grtx' = grtx \cup {i}
            \/ (\E n \in Node : CloseEnd(n)) /\ UNCHANGED grtx

Log(lbl) == /\ hist' = Append(hist, [act |-> lbl, pre |-> Proj, chain |-> (Scripted /\ script # <<>> /\ Head(script).a = "tell" /\ Head(script).chain)])
            /\ obs' = store
Keep == UNCHANGED <<done, held, grtx, nfault>>
Fault == nfault < MaxFaultActs /\ nfault' = nfault + 1 /\ grtx' = {}

ETell(n, id, t, e) == TellCall(n, id, t, e) /\ Log(last') /\ Keep
ETick == Tick /\ Log(last') /\ grtx' = {} /\ UNCHANGED <<done, held, nfault>>
EClose(n) == CloseBegin(n) /\ Log(last') /\ Keep
EJunk(n) == Junk(n) /\ Log(last') /\ Keep
EHold(l) == /\ l \notin held /\ held' = held \cup {l} /\ Log([a |-> "hold", from |-> l[1], to |-> l[2]])
            /\ Fault /\ UNCHANGED <<vars, done>>
ERelease(l) == /\ l \in held /\ held' = held \ {l} /\ Log([a |-> "release", from |-> l[1], to |-> l[2]])
               /\ Fault /\ UNCHANGED <<vars, done>>
EDrop(l) == l \in held /\ Drop(l) /\ Log([a |-> "drop", from |-> l[1], to |-> l[2]]) /\ Fault /\ UNCHANGED <<done, held>>

Lnk(x) == <<x.from, x.to>>
Follow ==
    /\ script # <<>> /\ script' = Tail(script)
    /\ LET x == Head(script) IN
       CASE x.a = "tell" -> ETell(x.n, x.id, x.t, x.e)
         [] x.a = "tick" -> ETick
         [] x.a = "close" -> EClose(x.n)
         [] x.a = "junk" -> EJunk(x.n)
         [] x.a = "hold" -> EHold(Lnk(x))
         [] x.a = "release" -> ERelease(Lnk(x))
         [] x.a = "drop" -> EDrop(Lnk(x))
Random ==
    /\ UNCHANGED script /\ Len(hist) < MaxSteps
    /\ \/ ETick \/ ETick \/ ETick \/ ETick \/ ETick \/ ETick
       \/ \E n \in {RandomElement(Node)} : \E d \in {RandomElement(Dsts(n))} : \E e \in {RandomElement(IF AllowEmpty THEN {FALSE, FALSE, TRUE} ELSE {FALSE})} :
              ETell(n, d[1], d[2], e)
       \/ \E n \in {RandomElement(Node)} : \E d \in {RandomElement(Dsts(n))} : ETell(n, d[1], d[2], FALSE)
       \/ \E n \in {RandomElement(Node)} : \E d \in {RandomElement(Dsts(n))} : ETell(n, d[1], d[2], FALSE)
       \/ \E n \in {RandomElement(Node)} : EClose(n) \/ EJunk(n)
       \/ \E l \in {RandomElement(Links)} : EHold(l) \/ ERelease(l) \/ ERelease(l) \/ EDrop(l)

Finish ==
    /\ ~done /\ (IF Scripted THEN script = <<>> ELSE Len(hist) >= MaxSteps)
    /\ PrintT(ToJson(<<"BEH", [hist |-> Append(hist, [act |-> [a |-> "end"], pre |-> Proj, chain |-> FALSE]),
                               wla |-> WLA, wlb |-> WLB, fixed |-> Fixed]>>))
    /\ done' = TRUE /\ UNCHANGED <<vars, hist, script, held, grtx, obs, nfault>>

GInit == /\ Init /\ hist = <<>> /\ done = FALSE /\ held = {} /\ grtx = {} /\ obs = store /\ nfault = 0 /\ ever = FALSE
         /\ script \in (IF Scripted THEN {Scripts[k] : k \in 1..Len(Scripts)} ELSE {<<>>})
\* a scripted tell marked `chain` is called together with the next scripted action (concurrent callers)
Chained == Scripted /\ script # <<>> /\ Len(hist) > 0 /\ hist[Len(hist)].act.a = "tell" /\ hist[Len(hist)].chain
GNext == /\ IF IntEnabled /\ ~Chained THEN IntStep
            ELSE IF Scripted THEN (Follow \/ Finish) ELSE (Random \/ Finish)
         /\ ever' = (ever \/ KF_Zombie' \/ KF_Hopeless')
GenSpec == GInit /\ [][GNext]_gvars
\* (every script must come out as one behaviour: the check compares)
ASSUME PrintT(ToJson(<<"NSCRIPTS", Len(Scripts)>>))
=============================================================================
