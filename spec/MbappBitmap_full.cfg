SPECIFICATION Spec
CONSTANTS
  MaxN = 10
  MaxOps = 0
INVARIANTS Laws
PROPERTIES PanicOnlyOutOfRange
CHECK_DEADLOCK FALSE
