---------------------------- MODULE KadDistTrace ----------------------------
(* Binds KadDist.tla to the real distance.go: each log line holds one triple *)
(* (x, a, b) and what DistanceCmp / DistanceLt / DistanceGt / Distance /       *)
(* DistanceLz / LeadingZeros / HasPrefix returned for it.                      *)
EXTENDS Integers, Sequences, FiniteSets, Bitwise, TLC, Json, IOUtils

KC == INSTANCE KadCache WITH Locus <- <<>>, Keys <- {}, Queries <- {}, Vals <- {}, Times <- {},
        TouchTimes <- {}, ExpTimes <- {}, Exps <- {}, Configs <- {}, MaxOps <- 0,
        cmax <- 0, cmin <- 0, ents <- <<>>, nb <- 0, minExp <- <<>>, count <- 0,
        panicked <- FALSE, last <- <<>>, nops <- 0

Log == ndJsonDeserialize(IOEnv.TRACE)
VARIABLES l, fresh, starts
NShards == atoi(IOEnv.NSHARDS)
ComputeStarts == {1} \cup {(k * Len(Log)) \div NShards + 1 : k \in 1..(NShards - 1)}
Sign(n) == IF n < 0 THEN -1 ELSE IF n > 0 THEN 1 ELSE 0

Viol(ev) ==
    IF ev.panic THEN {"NoPanicDist"} ELSE
    {n \in {"AgreesWithBytesCompare", "Antisymmetric", "ZeroIffEqual", "LtGtConsistent",
            "DistanceIsXor", "DistSymmetric", "LeadingZeros", "HasPrefix"} :
        CASE n = "AgreesWithBytesCompare" -> Sign(ev.cmp) # KC!DistCmpSpec(ev.x, ev.a, ev.b)
          [] n = "Antisymmetric" -> Sign(ev.cmp) # -Sign(ev.cmpba)
          [] n = "ZeroIffEqual" -> (Len(ev.x) = Len(ev.a) /\ Len(ev.a) = Len(ev.b))
                                      /\ ((ev.cmp = 0) # (ev.a = ev.b))
          [] n = "LtGtConsistent" -> ev.lt # (ev.cmp < 0) \/ ev.gt # (ev.cmp > 0)
          [] n = "DistanceIsXor" -> ev.dist # KC!Dist(ev.x, ev.a)
          [] n = "DistSymmetric" -> ev.dist # ev.distax
          [] n = "LeadingZeros" -> ev.lz # KC!LZ(KC!Dist(ev.x, ev.a)) \/ ev.lzfn # ev.lz
          [] n = "HasPrefix" -> \E i \in 1..Len(ev.hp) : ev.hp[i] # KC!HasPrefix(ev.a, ev.x, i - 1)}

TraceInit == starts = ComputeStarts /\ l \in starts /\ fresh = TRUE
TraceNext == /\ l <= Len(Log)
             /\ (fresh \/ l \notin starts)
             /\ fresh' = FALSE /\ starts' = starts
             /\ l' = l + 1
             /\ LET vs == Viol(Log[l]) IN (vs # {}) => PrintT(ToJson(<<"VIOL", l, l, vs>>))
TraceSpec == TraceInit /\ [][TraceNext]_<<l, fresh, starts>>
AllConsumed == TLCGet("distinct") >= Len(Log) + 1
=============================================================================
