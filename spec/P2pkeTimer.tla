----------------------------- MODULE P2pkeTimer -----------------------------
(* /repo/p/p2pke/timer.go AS CODED: one action per critical section.  Two mutexes: mu (every       *)
(* section on it is one action, so it needs no variable) and runMu (held across sections).  The     *)
(* runtime timer (time.AfterFunc) is its own variable: armed; Fire starts a callback goroutine      *)
(* (cbWait counts those started and not yet holding runMu: timer.Stop cannot recall them);          *)
(* time.Timer.Reset re-arms, time.Timer.Stop disarms.                                               *)
(* Ghost variables (quiet, live, stopped, runsSince, tainted) only serve the properties.            *)
EXTENDS Integers, FiniteSets, TLC
CONSTANTS Threads, MaxOps
VARIABLES isPending,  \* timer.go:12
          runMu,      \* "none" | "cb" | a thread (timer.go:11)
          armed,      \* the runtime timer is scheduled
          cbWait,     \* callback goroutines started, blocked on runMu.Lock (timer.go:18)
          cbpc,       \* the callback holding runMu: "idle" | "test" | "run" | "rel"
          pc, ops,    \* caller threads: "idle" | "ss2" | "ss3" | "ss4"; operations left
          fnRunning,  \* number of fn executing
          quiet,      \* a StopSync returned that no Reset overlapped, and no Reset started since
          live,       \* a Reset section happened and no Stop section since
          stopped,    \* a Stop section happened and no Reset section since
          runsSince,  \* fn starts since the last Reset section
          tainted     \* per thread: a Reset section happened since its StopSync started
vars == <<isPending, runMu, armed, cbWait, cbpc, pc, ops, fnRunning, quiet, live, stopped, runsSince, tainted>>

Init == /\ isPending = FALSE /\ runMu = "none" /\ armed = FALSE      \* newTimer: AfterFunc(1h) then Stop (timer.go:28)
        /\ cbWait = 0 /\ cbpc = "idle" /\ pc = [t \in Threads |-> "idle"] /\ ops = [t \in Threads |-> MaxOps]
        /\ fnRunning = 0 /\ quiet = FALSE /\ live = FALSE /\ stopped = TRUE /\ runsSince = 0
        /\ tainted = [t \in Threads |-> FALSE]

Begin(t) == pc[t] = "idle" /\ ops[t] > 0 /\ ops' = [ops EXCEPT ![t] = @ - 1]
StopSec == isPending' = FALSE /\ armed' = FALSE /\ live' = FALSE /\ stopped' = TRUE     \* timer.go:41-44

Reset(t) == /\ Begin(t)                                                                  \* timer.go:33-37
            /\ isPending' = TRUE /\ armed' = TRUE
            /\ quiet' = FALSE /\ live' = TRUE /\ stopped' = FALSE /\ runsSince' = 0
            /\ tainted' = [u \in Threads |-> TRUE]
            /\ UNCHANGED <<runMu, cbWait, cbpc, pc, fnRunning>>
Stop(t) == /\ Begin(t) /\ StopSec                                                        \* timer.go:40-45
           /\ UNCHANGED <<runMu, cbWait, cbpc, pc, fnRunning, quiet, runsSince, tainted>>
IsPendingOp(t) == /\ Begin(t)                                                            \* timer.go:54-58 (reads isPending)
                  /\ UNCHANGED <<isPending, runMu, armed, cbWait, cbpc, pc, fnRunning, quiet, live, stopped, runsSince, tainted>>
SS1(t) == /\ Begin(t) /\ StopSec /\ pc' = [pc EXCEPT ![t] = "ss2"]                       \* timer.go:48
          /\ tainted' = [tainted EXCEPT ![t] = FALSE]
          /\ UNCHANGED <<runMu, cbWait, cbpc, fnRunning, quiet, runsSince>>
SS2(t) == /\ pc[t] = "ss2" /\ runMu = "none" /\ runMu' = t /\ pc' = [pc EXCEPT ![t] = "ss3"]   \* timer.go:49
          /\ UNCHANGED <<isPending, armed, cbWait, cbpc, ops, fnRunning, quiet, live, stopped, runsSince, tainted>>
SS3(t) == /\ pc[t] = "ss3" /\ StopSec /\ pc' = [pc EXCEPT ![t] = "ss4"]                  \* timer.go:50
          /\ UNCHANGED <<runMu, cbWait, cbpc, ops, fnRunning, quiet, runsSince, tainted>>
SS4(t) == /\ pc[t] = "ss4" /\ runMu' = "none" /\ pc' = [pc EXCEPT ![t] = "idle"]         \* timer.go:51, return
          /\ quiet' = (quiet \/ ~tainted[t])
          /\ UNCHANGED <<isPending, armed, cbWait, cbpc, ops, fnRunning, live, stopped, runsSince, tainted>>

Fire == /\ armed /\ armed' = FALSE /\ cbWait' = cbWait + 1                               \* runtime: go callback()
        /\ UNCHANGED <<isPending, runMu, cbpc, pc, ops, fnRunning, quiet, live, stopped, runsSince, tainted>>
CbLock == /\ cbWait > 0 /\ runMu = "none" /\ runMu' = "cb" /\ cbWait' = cbWait - 1 /\ cbpc' = "test"   \* timer.go:18
          /\ UNCHANGED <<isPending, armed, pc, ops, fnRunning, quiet, live, stopped, runsSince, tainted>>
CbTest == /\ cbpc = "test"                                                               \* timer.go:20-26
          /\ IF isPending THEN /\ isPending' = FALSE /\ cbpc' = "run" /\ fnRunning' = fnRunning + 1
                               /\ runsSince' = runsSince + 1
                          ELSE /\ cbpc' = "rel" /\ UNCHANGED <<isPending, fnRunning, runsSince>>
          /\ UNCHANGED <<runMu, armed, cbWait, pc, ops, quiet, live, stopped, tainted>>
CbFnEnd == /\ cbpc = "run" /\ cbpc' = "rel" /\ fnRunning' = fnRunning - 1                \* timer.go:27 fn returns
           /\ UNCHANGED <<isPending, runMu, armed, cbWait, pc, ops, quiet, live, stopped, runsSince, tainted>>
CbUnlock == /\ cbpc = "rel" /\ cbpc' = "idle" /\ runMu' = "none"                         \* timer.go:19 deferred
            /\ UNCHANGED <<isPending, armed, cbWait, pc, ops, fnRunning, quiet, live, stopped, runsSince, tainted>>

Cb == Fire \/ CbLock \/ CbTest \/ CbFnEnd \/ CbUnlock
Next == Cb \/ \E t \in Threads : Reset(t) \/ Stop(t) \/ IsPendingOp(t) \/ SS1(t) \/ SS2(t) \/ SS3(t) \/ SS4(t)
Spec == Init /\ [][Next]_vars
FairSpec == Spec /\ WF_vars(Fire) /\ WF_vars(CbLock) /\ WF_vars(CbTest) /\ WF_vars(CbFnEnd) /\ WF_vars(CbUnlock)
            /\ \A t \in Threads : WF_vars(SS2(t)) /\ WF_vars(SS3(t)) /\ WF_vars(SS4(t))

TypeOK == /\ isPending \in BOOLEAN /\ armed \in BOOLEAN /\ runMu \in {"none", "cb"} \cup Threads
          /\ cbWait \in 0..(MaxOps * Cardinality(Threads)) /\ cbpc \in {"idle", "test", "run", "rel"}
          /\ (runMu = "cb") = (cbpc # "idle")
(* (a) *) NoConcurrentFn == fnRunning <= 1
(* (b) *) QuietAfterStopSync == quiet => (cbpc # "run" /\ fnRunning = 0)
(* (c) *) FnNeedsLiveReset == [][(cbpc = "test" /\ cbpc' = "run") => live]_vars
          OncePerReset == runsSince <= 1
(* (d) *) StoppedNotPending == stopped => ~isPending
(* (e) *) Done == \A t \in Threads : pc[t] = "idle" /\ ops[t] = 0
          ResetLeadsToFn == (Done /\ isPending) ~> (cbpc = "run")
          RunsOnceThenRests == (Done /\ isPending) ~> [](~isPending /\ ~armed)
(* not a law: fn may run EARLIER than d after the latest Reset (a callback in flight from an earlier  *)
(* Reset consumes the new isPending); witnessed by the model, see growth_timer.py                     *)
=============================================================================
