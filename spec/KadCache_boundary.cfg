SPECIFICATION Spec
CONSTANTS
  Locus <- SmallLocus
  Keys <- BoundaryKeys
  Queries <- SmallQueries
  Configs <- BoundaryConfigs
  Vals = {1}
  Times = {1, 2}
  TouchTimes = {0}
  ExpTimes = {2}
  Exps = {0, 1}
  MaxOps = 2
VIEW view
INVARIANTS TypeOK CountExact Bounded NoPanic BucketsCover MinExpSound ForEachSorted MatchingExact GetFaithful WouldPutSound
PROPERTIES StepLawsProp
CHECK_DEADLOCK FALSE
