-------------------------- MODULE SwarmLedgerTrace --------------------------
(* Binds SwarmLedger.tla to real swarm stacks (harness/cmd/ledger): events tell / tellret / recv of one  *)
(* cluster run, ordered by one atomic counter (tell is logged BEFORE Tell is called, recv at the end of   *)
(* the receiver callback).  NoMix / BufferStable / attribution are evaluated on the real observations.    *)
EXTENDS Integers, Sequences, FiniteSets, TLC, Json, IOUtils
Log == ndJsonDeserialize(IOEnv.TRACE)
VARIABLES l, told   \* told: set of <<digest, len>> passed to Tell in the current case
TraceInit == l = 1 /\ told = {}
Viol(ev) ==
    IF ev.panic THEN {"NoPanic"}
    ELSE IF ev.ev = "askbuf" THEN {"BufferStable"}      \* an ask handler saw its request change while it ran
    ELSE IF ev.ev # "recv" THEN {}
    ELSE (IF <<ev.digest, ev.len>> \notin told THEN {"NoMix"} ELSE {})
         \cup (IF ev.digest # ev.digestout THEN {"BufferStable"} ELSE {})
         \cup (IF <<ev.digest, ev.len>> \in told /\ ~ev.srcok THEN {"SrcNamesSender"} ELSE {})
         \cup (IF ~ev.dstok THEN {"DstNamesReceiver"} ELSE {})
TraceNext ==
    /\ l <= Len(Log) /\ l' = l + 1
    /\ LET ev == Log[l] IN
       /\ told' = IF ev.ev = "case" THEN {} ELSE IF ev.ev = "tell" THEN told \cup {<<ev.digest, ev.len>>} ELSE told
       /\ LET vs == Viol(ev) IN (vs # {}) => PrintT(ToJson(<<"VIOL", l, ev.beh, vs>>))
TraceSpec == TraceInit /\ [][TraceNext]_<<l, told>>
AllConsumed == TLCGet("distinct") >= Len(Log) + 1
=============================================================================
