SPECIFICATION Spec
CONSTANTS
  Locus <- WideLocus
  Keys <- WideKeys
  Queries <- WideQueries
  Configs <- WideConfigs
  Vals = {1}
  Times = {1, 2}
  TouchTimes = {0}
  ExpTimes = {2}
  Exps = {0, 1}
  MaxOps = 3
VIEW view
INVARIANTS TypeOK CountExact Bounded NoPanic BucketsCover MinExpSound ForEachSorted MatchingExact GetFaithful WouldPutSound
PROPERTIES StepLawsProp
CHECK_DEADLOCK FALSE
