-------------------------- MODULE KadCacheAbsProof --------------------------
(***************************************************************************)
(* G03a, TLAPS: IndInv of KadCacheAbs is an inductive invariant of Spec     *)
(* for ANY finite key set, any number of buckets NB, any BucketOf mapping   *)
(* keys below NB, any integer minPerBucket and any max >= 0 (the second     *)
(* half of the constructor's precondition is not needed for counting).      *)
(* Hence count = Cardinality(DOMAIN ents) and count <= cmax always hold.    *)
(* Cardinality stays uninterpreted: only FS_AddElement, FS_RemoveElement,   *)
(* FS_Difference, FS_Subset and FS_CardinalityType are used.                *)
(***************************************************************************)
EXTENDS KadCacheAbs, FiniteSetTheorems, TLAPS

ASSUME KeysFinite == IsFiniteSet(Keys)
ASSUME ConstTypes == /\ NB \in Nat /\ cmax \in Int /\ cmin \in Int /\ cmax >= 0
                     /\ BucketOf \in [Keys -> Int]
                     /\ \A k \in Keys : BucketOf[k] < NB

LEMMA CardAdd ==
  ASSUME NEW S, IsFiniteSet(S), NEW x
  PROVE  /\ IsFiniteSet(S \cup {x})
         /\ Cardinality(S) \in Nat
         /\ Cardinality(S \cup {x}) = IF x \in S THEN Cardinality(S) ELSE Cardinality(S) + 1
  BY FS_AddElement, FS_CardinalityType

LEMMA CardRem ==
  ASSUME NEW S, IsFiniteSet(S), NEW x
  PROVE  /\ IsFiniteSet(S \ {x})
         /\ Cardinality(S) \in Nat
         /\ Cardinality(S \ {x}) = IF x \in S THEN Cardinality(S) - 1 ELSE Cardinality(S)
  BY FS_RemoveElement, FS_CardinalityType

LEMMA CardDiff ==
  ASSUME NEW A, IsFiniteSet(A), NEW T \in SUBSET A
  PROVE  /\ IsFiniteSet(A \ T)
         /\ Cardinality(A) \in Nat /\ Cardinality(T) \in Nat
         /\ Cardinality(A \ T) = Cardinality(A) - Cardinality(T)
  <1>1. A \cap T = T OBVIOUS
  <1>2. IsFiniteSet(T) BY FS_Subset
  <1> QED BY <1>1, <1>2, FS_Difference, FS_CardinalityType

LEMMA SubFinite ==
  ASSUME NEW S \in SUBSET Keys
  PROVE  IsFiniteSet(S) /\ Cardinality(S) \in Nat
  BY KeysFinite, FS_Subset, FS_CardinalityType

----------------------------------------------------------------------------
LEMMA InitInv == Init => IndInv
  <1> SUFFICES ASSUME Init PROVE IndInv OBVIOUS
  <1>1. PICK S \in SUBSET Keys :
            /\ Cardinality(S) <= cmax
            /\ \E t0 \in TimeDom : ents = [k \in S |-> [c |-> t0, e |-> 0]]
            /\ \E n \in Buckets \cup {NB} : (\A k \in S : BucketOf[k] < n) /\ nb = n
            /\ minExp = [i \in Buckets |-> 0]
            /\ count = Cardinality(S)
    BY DEF Init
  <1>2. DOMAIN ents = S BY <1>1
  <1>3. Cardinality(S) \in Nat BY SubFinite
  <1>4. nb \in Int /\ 0 <= nb /\ nb <= NB BY <1>1, ConstTypes DEF Buckets, MaxNB
  <1>5. DOMAIN minExp = Buckets BY <1>1
  <1> QED BY <1>1, <1>2, <1>3, <1>4, <1>5 DEF IndInv, TypeOK, BucketsCover

----------------------------------------------------------------------------
LEMMA UpdateInv ==
  ASSUME IndInv, NEW k \in Keys, NEW r, DoUpdate(k, r)
  PROVE  IndInv'
  <1> DEFINE A == DOMAIN ents
  <1>0. A \in SUBSET Keys /\ IsFiniteSet(A) /\ Cardinality(A) \in Nat /\ count = Cardinality(A) /\ count <= cmax
    BY SubFinite DEF IndInv, TypeOK
  <1>1. CASE cmax = 0
    <2> UNCHANGED <<ents, nb, minExp, count>> BY <1>1 DEF DoUpdate
    <2> QED BY DEF IndInv, TypeOK, BucketsCover
  <1>2. CASE cmax # 0
    <2> DEFINE lz == BucketOf[k]
               nb1 == Max2(nb, lz + 1)
               E1 == Put1(ents, k, r)
               c1 == IF k \in A THEN count ELSE count + 1
               me1 == [minExp EXCEPT ![lz] = UpdMin(@, r.e)]
    <2>1. DOMAIN E1 = A \cup {k} BY DEF Put1
    <2>2. IsFiniteSet(DOMAIN E1) /\ Cardinality(DOMAIN E1) = c1 /\ c1 \in Int /\ c1 <= cmax + 1
      BY <1>0, <2>1, CardAdd, ConstTypes
    <2>3. lz \in Int /\ lz < NB BY ConstTypes
    <2>4. nb1 \in Int /\ 0 <= nb1 /\ nb1 <= NB /\ nb <= nb1 /\ lz < nb1
      BY <2>3, ConstTypes DEF IndInv, TypeOK, Max2
    <2>5. \A x \in DOMAIN E1 : BucketOf[x] < nb1
      <3> SUFFICES ASSUME NEW x \in DOMAIN E1 PROVE BucketOf[x] < nb1 OBVIOUS
      <3>1. CASE x = k BY <3>1, <2>4
      <3>2. CASE x \in A
        <4>1. BucketOf[x] < nb BY <3>2 DEF IndInv, BucketsCover
        <4>2. BucketOf[x] \in Int BY <3>2, <1>0, ConstTypes
        <4> QED BY <4>1, <4>2, <2>4 DEF IndInv, TypeOK
      <3> QED BY <3>1, <3>2, <2>1
    <2>6. DOMAIN me1 = Buckets BY DEF IndInv, TypeOK
    <2>a. CASE c1 > cmax
      <3>1. PICK v \in DOMAIN E1 :
                /\ ents' = Del(E1, {v}) /\ count' = c1 - 1 /\ nb' = nb1 /\ minExp' = me1
        BY <1>2, <2>a DEF DoUpdate, Newest, InB
      <3>2. DOMAIN ents' = (DOMAIN E1) \ {v} BY <3>1 DEF Del
      <3>3. Cardinality(DOMAIN ents') = c1 - 1 BY <3>2, <2>2, CardRem
      <3>4. DOMAIN ents' \subseteq Keys BY <3>2, <2>1, <1>0
      <3>5. count' = Cardinality(DOMAIN ents') /\ count' <= cmax /\ count' \in Int
        BY <3>1, <3>3, <2>2, ConstTypes
      <3>6. \A x \in DOMAIN ents' : BucketOf[x] < nb' BY <3>1, <3>2, <2>5
      <3>7. DOMAIN minExp' = Buckets BY <3>1, <2>6
      <3> QED BY <3>1, <3>4, <3>5, <3>6, <3>7, <2>4 DEF IndInv, TypeOK, BucketsCover
    <2>b. CASE ~(c1 > cmax)
      <3>1. ents' = E1 /\ count' = c1 /\ nb' = nb1 /\ minExp' = me1
        BY <1>2, <2>b DEF DoUpdate
      <3>4. DOMAIN ents' \subseteq Keys BY <3>1, <2>1, <1>0
      <3>5. count' = Cardinality(DOMAIN ents') /\ count' <= cmax /\ count' \in Int
        BY <3>1, <2>2, <2>b, ConstTypes
      <3>6. \A x \in DOMAIN ents' : BucketOf[x] < nb' BY <3>1, <2>5
      <3>7. DOMAIN minExp' = Buckets BY <3>1, <2>6
      <3> QED BY <3>1, <3>4, <3>5, <3>6, <3>7, <2>4 DEF IndInv, TypeOK, BucketsCover
    <2> QED BY <2>a, <2>b
  <1> QED BY <1>1, <1>2

LEMMA DeleteInv ==
  ASSUME IndInv, NEW k \in Keys, Delete(k)
  PROVE  IndInv'
  <1> DEFINE A == DOMAIN ents
  <1>0. A \in SUBSET Keys /\ IsFiniteSet(A) /\ Cardinality(A) \in Nat /\ count = Cardinality(A) /\ count <= cmax
    BY SubFinite DEF IndInv, TypeOK
  <1>1. CASE BucketOf[k] >= nb \/ k \notin A
    <2> UNCHANGED <<ents, nb, minExp, count>> BY <1>1 DEF Delete
    <2> QED BY DEF IndInv, TypeOK, BucketsCover
  <1>2. CASE ~(BucketOf[k] >= nb \/ k \notin A)
    <2> DEFINE E1 == Del(ents, {k})
    <2>1. /\ ents' = E1 /\ count' = count - 1 /\ nb' = nb
          /\ minExp' = [minExp EXCEPT ![BucketOf[k]] = MinExpOf(E1, InB(E1, BucketOf[k]))]
      BY <1>2 DEF Delete
    <2>2. DOMAIN ents' = A \ {k} BY <2>1 DEF Del
    <2>3. Cardinality(DOMAIN ents') = Cardinality(A) - 1 BY <2>2, <1>0, <1>2, CardRem
    <2>4. count' = Cardinality(DOMAIN ents') /\ count' <= cmax /\ count' \in Int
      BY <2>1, <2>3, <1>0, ConstTypes
    <2>5. DOMAIN minExp' = Buckets BY <2>1 DEF IndInv, TypeOK
    <2>6. \A x \in DOMAIN ents' : BucketOf[x] < nb' BY <2>1, <2>2 DEF IndInv, BucketsCover
    <2> QED BY <2>1, <2>2, <2>4, <2>5, <2>6, <1>0 DEF IndInv, TypeOK, BucketsCover
  <1> QED BY <1>1, <1>2

LEMMA ExpireInv ==
  ASSUME IndInv, NEW t \in TimeDom, Expire(t)
  PROVE  IndInv'
  <1> DEFINE A == DOMAIN ents
             S == ExpireSet(t)
  <1>0. A \in SUBSET Keys /\ IsFiniteSet(A) /\ Cardinality(A) \in Nat /\ count = Cardinality(A) /\ count <= cmax
    BY SubFinite DEF IndInv, TypeOK
  <1>1. S \in SUBSET A BY DEF ExpireSet
  <1>2. ents' = Del(ents, S) /\ count' = count - Cardinality(S) /\ nb' = nb /\ minExp' = minExp
    BY DEF Expire
  <1>3. DOMAIN ents' = A \ S BY <1>2 DEF Del
  <1>4. /\ Cardinality(S) \in Nat
        /\ Cardinality(A \ S) = Cardinality(A) - Cardinality(S)
    BY <1>0, <1>1, CardDiff
  <1>5. count' = Cardinality(DOMAIN ents') /\ count' <= cmax /\ count' \in Int
    BY <1>0, <1>2, <1>3, <1>4, ConstTypes
  <1>6. \A x \in DOMAIN ents' : BucketOf[x] < nb' BY <1>2, <1>3 DEF IndInv, BucketsCover
  <1> QED BY <1>0, <1>2, <1>3, <1>5, <1>6 DEF IndInv, TypeOK, BucketsCover

----------------------------------------------------------------------------
LEMMA NextInv == IndInv /\ [Next]_vars => IndInv'
  <1> SUFFICES ASSUME IndInv, [Next]_vars PROVE IndInv' OBVIOUS
  <1>1. ASSUME NEW k \in Keys, NEW t \in TimeDom, NEW e \in TimeDom, Put(k, t, e) PROVE IndInv'
    BY <1>1, UpdateInv DEF Put
  <1>2. ASSUME NEW k \in Keys, NEW t \in TimeDom, NEW e \in TimeDom, Touch(k, t, e) PROVE IndInv'
    BY <1>2, UpdateInv DEF Touch
  <1>3. ASSUME NEW k \in Keys, Delete(k) PROVE IndInv' BY <1>3, DeleteInv
  <1>4. ASSUME NEW t \in TimeDom, Expire(t) PROVE IndInv' BY <1>4, ExpireInv
  <1>5. ASSUME UNCHANGED vars PROVE IndInv' BY <1>5 DEF vars, IndInv, TypeOK, BucketsCover
  <1> QED BY <1>1, <1>2, <1>3, <1>4, <1>5 DEF Next

\* evict always finds a victim: the updated key itself lies in a created bucket (any state with nb \in Int)
LEMMA EvictAlwaysPossible == nb \in Int => EvictPossible
  <1> SUFFICES ASSUME nb \in Int, NEW k \in Keys PROVE
        LET E1 == Put1(ents, k, [c |-> 0, e |-> 0])
        IN \E b \in EvictCands(E1, Max2(nb, BucketOf[k] + 1)) : InB(E1, b) # {}
    BY DEF EvictPossible
  <1> DEFINE E1 == Put1(ents, k, [c |-> 0, e |-> 0])
             n == Max2(nb, BucketOf[k] + 1)
             occ == {BucketOf[x] : x \in {y \in DOMAIN E1 : BucketOf[y] < n}}
  <1>1. k \in DOMAIN E1 BY DEF Put1
  <1>2. BucketOf[k] \in Int /\ BucketOf[k] < n BY ConstTypes DEF Max2
  <1>3. BucketOf[k] \in occ BY <1>1, <1>2
  <1>4. \A b \in occ : InB(E1, b) # {} BY DEF InB
  <1>5. EvictCands(E1, n) # {} /\ EvictCands(E1, n) \subseteq occ BY <1>3 DEF EvictCands
  <1> QED BY <1>4, <1>5

THEOREM Invariance == Spec => []IndInv
  BY InitInv, NextInv, PTL DEF Spec

THEOREM CountExactBounded == Spec => [](CountExact /\ Bounded)
  <1>1. IndInv => CountExact /\ Bounded BY DEF IndInv, CountExact, Bounded
  <1> QED BY <1>1, Invariance, PTL
=============================================================================
