-------------------------- MODULE P2pkeSwarmScripts --------------------------
(* Targeted environment scripts for P2pkeSwarmGen (each is followed as one path).               *)
(* One tick = 3.75 s; a cleanup pass at every even tick; a channel is purged when it is at      *)
(* least 9 ticks old and has neither received (current session) nor sent for at least 5 ticks;  *)
(* a current session is expired by its user when nothing was received for 4 ticks.              *)
EXTENDS Naturals, Sequences
T(n, id, t) == [a |-> "tell", n |-> n, id |-> id, t |-> t, e |-> FALSE, chain |-> FALSE]
TC(n, id, t) == [a |-> "tell", n |-> n, id |-> id, t |-> t, e |-> FALSE, chain |-> TRUE]
TE(n, id, t) == [a |-> "tell", n |-> n, id |-> id, t |-> t, e |-> TRUE, chain |-> FALSE]
K == [a |-> "tick"]
Ks(n) == [i \in 1..n |-> K]
H(f, t) == [a |-> "hold", from |-> f, to |-> t]
Rl(f, t) == [a |-> "release", from |-> f, to |-> t]
D(f, t) == [a |-> "drop", from |-> f, to |-> t]
C(n) == [a |-> "close", n |-> n]
J(n) == [a |-> "junk", n |-> n]
AB == T("A", "B", "b")
BA == T("B", "A", "a")

\* (c) both sides idle, both purged, traffic resumes in both directions; then once more
IdlePurge == <<AB>> \o Ks(10) \o <<AB, BA>> \o Ks(11) \o <<BA, AB>>
\* (c) only the dialling side is purged (the peer keeps its channel and its old session alive by sending to the dead address? no:
\* by receiving): B keeps telling A, A never sends; A's channel is kept by lastReceived, B's by lastSent
OneWay == <<BA>> \o Ks(3) \o <<BA>> \o Ks(3) \o <<BA>> \o Ks(3) \o <<BA>> \o Ks(3) \o <<BA>> \o Ks(2) \o <<AB>> \o Ks(1) \o <<BA>>
\* (a) the reply: A re-handshakes at tick 4, sends at 7 (still alive), cleanup at 10 finds A's channel old and silent
\* on the receive side; B (which received at 7) replies at 10.  With the dead lastSent guard A purges and the reply is lost.
Reply == <<AB>> \o Ks(4) \o <<AB>> \o Ks(3) \o <<AB>> \o Ks(3) \o <<BA>> \o Ks(1) \o <<AB>>
\* the same one period later in phase
Reply2 == <<K, AB>> \o Ks(4) \o <<AB>> \o Ks(3) \o <<AB>> \o Ks(4) \o <<BA, AB>>
\* (a)/(c) known finding: the cleanup pass lands inside a handshake (the reply is in flight over a tick boundary)
HoldPurge == <<AB>> \o Ks(9) \o <<H("b", "a"), AB, K, Rl("b", "a")>> \o Ks(4) \o <<AB, BA>>
\* latency without purge: the reply to a hello crosses a tick, nobody is old enough to be purged
HoldYoung == <<H("b", "a"), AB, K, Rl("b", "a"), K, BA>>
\* a dropped hello is repeated by the handshake timer; a dropped data packet is lost by the network, not by the swarm
Drops == <<H("a", "b"), AB, D("a", "b"), Rl("a", "b"), K, H("a", "b"), AB, D("a", "b"), Rl("a", "b"), AB>>
\* (d) Close with a channel in mid-handshake towards the dead address and an established one
Close1 == <<AB, T("A", "B", "x"), C("A"), K, K, AB, BA, K, K, K, BA>>
Close2 == <<BA, C("B"), AB, K, BA, K, K, K, AB>>
\* identity: a wrong-identity dial evicts the good channel; the peer's next message is refused; later everything recovers
Evict == <<AB, T("A", "A", "b"), BA>> \o Ks(4) \o <<AB>> \o Ks(12) \o <<AB, BA>>
\* ... and the evicted channel stays silent beyond the rekey time of the session it held (120 s = 32 ticks)
EvictLong == <<AB, T("A", "A", "b")>> \o Ks(35) \o <<AB>>
\* store: junk from the third address and a dial to it create channels that cleanup removes
JunkDead == <<J("A"), T("A", "B", "x"), J("B")>> \o Ks(10) \o <<AB>> \o Ks(2)
\* empty payloads
Empty == <<TE("A", "B", "b"), AB, TE("B", "A", "a")>> \o Ks(5) \o <<TE("A", "B", "b")>>
\* concurrent callers on a fresh store (eight at once), and again after a purge from both sides at once
TCA == TC("A", "B", "b")
TCB == TC("B", "A", "a")
Burst(k) == Ks(k) \o <<TCA, TCA, TCA, TCA, TCA, TCA, TCA, AB>> \o Ks(10) \o <<TCA, TCB, TCA, TCB, TCA, TCB, TCA, BA>>
BurstIn(k) == Ks(k) \o <<TCB, TCA, TCB, TCA, TCB, AB>> \o Ks(11) \o <<TCB, TCB, TCB, TCB, TCB, TCB, TCB, BA>>

Main == <<IdlePurge, OneWay, Reply, Reply2, HoldPurge, HoldYoung, Drops, Close1, Close2, Evict, EvictLong, JunkDead, Empty, Burst(0), Burst(1), Burst(2), Burst(3), BurstIn(0), BurstIn(1), BurstIn(2), BurstIn(3)>>
\* with WLB = {"B"}: B refuses A's key
WlScripts == << <<AB, K, BA, AB, K, K, K>>, <<BA, AB>> \o Ks(10) \o <<AB, BA, AB>> >>
=============================================================================
