SPECIFICATION GenSpec
CONSTANTS
  N = 6
  Ops <- AllOps
  Initials <- Init2
  Replies <- SubsetReplies
  Mins <- MinsAll
  ValClasses = {0, 1, 2, 3, 4}
  VModes = {0, 1, 2, 3}
  Dists <- NoDists
  Orig = FALSE
  MaxReply = 4
  MaxInitLen = 3
  HonestSizes = {3, 4, 6, 9, 14, 24}
  HonestEvery = 5
CHECK_DEADLOCK FALSE
