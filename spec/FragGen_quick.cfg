SPECIFICATION Spec
CONSTANTS
  Layers = {"frag", "mbapp"}
  Caps = {1, 2, 3}
  NSources = 3
  MaxParts = 4
  HugeParts = {257}
  MaxSteps = 40
CHECK_DEADLOCK FALSE
