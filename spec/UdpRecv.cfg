SPECIFICATION Spec
CONSTANTS
  R = {r1, r2, r3}
  M = {m1, m2}
  BugCtxAfterRead = FALSE
INVARIANTS Safety
PROPERTIES CancelEnds Served
CHECK_DEADLOCK FALSE
