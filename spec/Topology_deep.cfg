SPECIFICATION Spec
CONSTANTS
  MaxN = 9
INVARIANTS Laws
CHECK_DEADLOCK FALSE
