SPECIFICATION Spec
CONSTANTS
  Layer = "mbapp"
  Sources <- Src2
  MsgLens <- Lens_cap1
  PartCap = 1
  LayerMtu = 100
  Workers = {w1, w2}
  WithCleanup = TRUE
SYMMETRY WSym
INVARIANTS NoInvention NoPartial TypeOK
CHECK_DEADLOCK FALSE
