SPECIFICATION Spec
CONSTANTS
  MaxN = 17
  MaxOps = 0
INVARIANTS Laws
PROPERTIES PanicOnlyOutOfRange
CHECK_DEADLOCK FALSE
