----------------------------- MODULE SigRegistry -----------------------------
(***************************************************************************)
(* x509.Registry (/repo/f/x509/registry.go) and the signing side of        *)
(* x509.go: a map from algorithm ids to codecs; every entry point looks    *)
(* the id up first (getCodec) and fails with ErrUnrecognizedAlgo for an id *)
(* that is not registered.  DefaultRegistry registers Ed25519 only.        *)
(*                                                                         *)
(* The model is abstract about the signature scheme (a perfect scheme: a   *)
(* signature is the pair of the signing key and the message) and exact     *)
(* about the registry: which entry point returns what for which algorithm  *)
(* id and key length.  A case is one of                                    *)
(*   sv     sign with a key, change one bit of the message / signature /   *)
(*          public key / private key (or sign with another key), verify    *)
(*   algo   one entry point on one algorithm id with key data of dlen bytes*)
(*   pfp    PublicFromPrivate of one key, twice, against crypto/ed25519    *)
(*   privrt Marshal / Parse of a private key                               *)
(* SigRegistryTrace evaluates the laws on what the real package returned.  *)
(***************************************************************************)
EXTENDS Integers, Sequences, FiniteSets, TLC, Json

CONSTANTS Keys, MLens, DLens, Repaired   \* Repaired: MarshalPrivateKey returns `out` for an id that has no DER form (as MarshalPublicKey)

VARIABLES c

Algos == {"ed25519", "ed448", "zero", "one", "bogus", "near"}   \* ed448: declared in oid_list.go but not registered;
                                                                \* zero: OID{}; one: a single arc (no DER form); near: 1.3.101.111
Registered == {"ed25519"}
Encodable == Algos \ {"zero", "one"}
KeySize == 32
Entries == {"LoadSigner", "LoadVerifier", "StoreSigner", "StoreVerifier", "PublicFromPrivate", "ParseVerifier",
            "ToStandardSigner", "MarshalPrivateKey"}

\* registry.go as coded
GetCodec(a) == IF a \in Registered THEN "ok" ELSE "unrecognized"
Load(a, dlen) == IF GetCodec(a) # "ok" THEN "unrecognized" ELSE IF dlen = KeySize THEN "ok" ELSE "err"
Entry(e, a, dlen) ==
    CASE e \in {"LoadSigner", "LoadVerifier", "PublicFromPrivate", "ToStandardSigner"} -> Load(a, dlen)
      [] e \in {"StoreSigner", "StoreVerifier"} -> GetCodec(a)
      [] e = "ParseVerifier" -> IF a \notin Encodable THEN "err" ELSE Load(a, dlen)     \* MarshalPublicKey returns nothing
      [] e = "MarshalPrivateKey" -> IF a \notin Encodable THEN (IF Repaired THEN "err" ELSE "panic") ELSE Load(a, dlen)

\* a perfect signature scheme; every value is a pair <<value, mark>>, the mark "x" stands for "one bit changed"
SigOf(k, m) == <<k, m, "">>
VerifyM(k, m, s) == s = SigOf(k, m)
Muts == {"none", "msg", "sig", "pub", "priv", "otherkey", "trunc", "ext"}
\* what Verify sees after the mutation: key, message, signature
Seen(k0, m0, mut) ==
    LET k == <<k0, "">>
        m == <<m0, "">> IN
    CASE mut = "msg" -> <<k, <<m0, "x">>, SigOf(k, m)>>
      [] mut \in {"sig", "trunc", "ext"} -> <<k, m, <<k, m, "x">>>>
      [] mut = "pub" -> <<<<k0, "x">>, m, SigOf(k, m)>>
      [] mut = "priv" -> <<k, m, SigOf(<<k0, "x">>, m)>>
      [] mut = "otherkey" -> <<k, m, SigOf(<<k0 + 1, "">>, m)>>
      [] OTHER -> <<k, m, SigOf(k, m)>>
VerifyAfter(k, m, mut) == LET s == Seen(k, m, mut) IN VerifyM(s[1], s[2], s[3])

-----------------------------------------------------------------------------
(* Laws over observables *)
\* Verify(Public(priv), m, Sign(priv, m)); Sign appends to out and is deterministic (Ed25519)
SignVerifyP(mut, setupok, loaderr, ok, siglen, appendok) == mut = "none" => (setupok /\ ~loaderr /\ ok /\ siglen = 64 /\ appendok)
\* one changed bit anywhere, another key, a shorter or longer signature: never accepted
TamperFailsP(mut, ok) == mut # "none" => ~ok
\* an algorithm id that is not registered is an error from every entry point: never a success, never a panic
UnknownAlgoIsErrorP(a, res) == a \notin Registered => res \in {"unrecognized", "err"}
\* ... and the registry's own entry points say which id it was
UnrecognizedNamedP(e, a, res) == (a \notin Registered /\ a \in Encodable /\ e # "MarshalPrivateKey") => res = "unrecognized"
RegisteredWorksP(a, dlen, res) == (a \in Registered /\ dlen = KeySize) => res = "ok"
BadSizeIsErrorP(e, a, dlen, res) == (a \in Registered /\ dlen # KeySize /\ e \notin {"StoreSigner", "StoreVerifier"}) => res = "err"
PublicFromPrivateP(setupok, det, std, other) == setupok /\ det /\ std /\ other
PrivateRoundTripP(a, rt, srt, prefok) == a \in Encodable => (rt /\ srt /\ prefok)

-----------------------------------------------------------------------------
(* Case generator *)
BitClasses == {<<"first", 0>>, <<"first", 7>>, <<"last", 0>>, <<"last", 7>>, <<"mid", 3>>}
SigBitClasses == BitClasses \cup {<<"rs", 0>>, <<"rs", 7>>, <<"rs", 8>>, <<"rs", 15>>}
SvCases == {[kind |-> "sv", key |-> k, mlen |-> m, mut |-> mu, byte |-> b[1], bit |-> b[2]] :
               k \in Keys, m \in MLens, mu \in {"none", "otherkey", "trunc", "ext"}, b \in {<<"first", 0>>}}
           \cup {[kind |-> "sv", key |-> k, mlen |-> m, mut |-> mu, byte |-> b[1], bit |-> b[2]] :
               k \in Keys, m \in MLens \ {0}, mu \in {"msg"}, b \in BitClasses}
           \cup {[kind |-> "sv", key |-> k, mlen |-> m, mut |-> mu, byte |-> b[1], bit |-> b[2]] :
               k \in Keys, m \in MLens, mu \in {"pub", "priv"}, b \in BitClasses}
           \cup {[kind |-> "sv", key |-> k, mlen |-> m, mut |-> "sig", byte |-> b[1], bit |-> b[2]] :
               k \in Keys, m \in MLens, b \in SigBitClasses}
AlgoCases == {[kind |-> "algo", entry |-> e, algo |-> a, dlen |-> d] : e \in Entries, a \in Algos, d \in DLens}
PfpCases == {[kind |-> "pfp", key |-> k] : k \in Keys}
PrivCases == {[kind |-> "privrt", key |-> k, algo |-> a, dlen |-> d] : k \in Keys, a \in Algos, d \in DLens}
Init == c \in SvCases \cup AlgoCases \cup PfpCases \cup PrivCases
Next == UNCHANGED c
Spec == Init /\ [][Next]_c

\* the model obeys the laws (UnknownAlgoIsError only once MarshalPrivateKey is repaired)
ModelLaws ==
    CASE c.kind = "sv" -> LET ok == VerifyAfter(c.key, c.mlen, c.mut) IN
                          SignVerifyP(c.mut, TRUE, FALSE, ok, 64, TRUE) /\ TamperFailsP(c.mut, ok)
      [] c.kind = "algo" -> LET res == Entry(c.entry, c.algo, c.dlen) IN
                            /\ UnrecognizedNamedP(c.entry, c.algo, res)
                            /\ RegisteredWorksP(c.algo, c.dlen, res)
                            /\ BadSizeIsErrorP(c.entry, c.algo, c.dlen, res)
      [] OTHER -> TRUE
NeverPanics == c.kind = "algo" => UnknownAlgoIsErrorP(c.algo, Entry(c.entry, c.algo, c.dlen))
Dump == PrintT(ToJson(<<"CASE", c>>))
=============================================================================
