SPECIFICATION Spec
CONSTANTS
  NBytes = 1
  As <- U1As
  Bs <- U1Bs
  Cs <- U1Cs
INVARIANTS AbsIsRingMin
CHECK_DEADLOCK FALSE
