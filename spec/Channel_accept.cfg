SPECIFICATION Spec
CONSTANTS
  MaxS = 5
  MaxRestart = 1
  MaxRekey = 0
  MaxSendCalls = 1
  AcceptA = {"B"}
  AcceptB = {"A"}
  RestartKeys = {"A", "M"}
  Eager = FALSE
VIEW view
INVARIANTS SlotsWellFormed OnlyAccepted Continuity AtMostOnceP
PROPERTIES Undisturbed 
CHECK_DEADLOCK FALSE
