----------------------------- MODULE MC_Session -----------------------------
EXTENDS Session
Pair == {"I", "R"}
PairRole == [s \in Pair |-> IF s = "I" THEN "init" ELSE "resp"]
PairKey == [s \in Pair |-> IF s = "I" THEN "A" ELSE "B"]
PairEph == [s \in Pair |-> IF s = "I" THEN "eI" ELSE "eR"]
PairIdx == [s \in Pair |-> IF s = "I" THEN 1 ELSE 2]
\* two handshakes in opposite directions between the same two parties sharing one network
Cross == {"I", "R", "I2", "R2"}
CrossRole == [s \in Cross |-> IF s \in {"I", "I2"} THEN "init" ELSE "resp"]
CrossKey == [s \in Cross |-> IF s \in {"I", "R2"} THEN "A" ELSE "B"]
CrossEph == [s \in Cross |-> CASE s = "I" -> "eI" [] s = "R" -> "eR" [] s = "I2" -> "eI2" [] OTHER -> "eR2"]
CrossIdx == [s \in Cross |-> CASE s = "I" -> 1 [] s = "R" -> 2 [] s = "I2" -> 3 [] OTHER -> 4]
=============================================================================
