SPECIFICATION GenSpec
CONSTANTS
  Kinds <- AllKinds
  WLA <- OnlyAll
  WLB <- OnlyAll
  Weak <- NoWeak
  MaxConn = 3
  MaxSend = 4
  MaxAdv = 9
  CacheMax = 16
  Extras = {}
  Asks = {FALSE, TRUE}
  Fam = "auth"
  Depth = 4
  DepthAtomic = 2
  MaxSteps = 8
CHECK_DEADLOCK FALSE
