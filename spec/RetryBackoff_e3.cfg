SPECIFICATION BfSpec
CONSTANTS
  ExpInit = 100
  ExpEvery = 3
  CapAt = 3000
  LinM = 30
  LinB = 100
  FloorAt = 250
  MaxN = 24
  MaxDur = 10000
INVARIANTS BfLaws
CHECK_DEADLOCK FALSE
