SPECIFICATION GenSpec
CONSTANTS
  N = 10
  Ops <- AllOps
  Initials <- Init2
  Replies <- SubsetReplies
  Mins <- MinsAll
  ValClasses = {0, 1, 2, 3, 4}
  VModes = {0, 1, 2, 3}
  Dists <- NoDists
  Orig = FALSE
  MaxReply = 7
  MaxInitLen = 3
  HonestSizes = {40, 100, 250, 600}
  HonestEvery = 8
CHECK_DEADLOCK FALSE
