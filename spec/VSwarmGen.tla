----------------------------- MODULE VSwarmGen -----------------------------
(* Behaviours for harness/cmd/vswarmreplay.  A behaviour is a sequence of GROUPS [ops, w]: the operations of  *)
(* a group are released together (mostly one at a time: the harness acts sequentially; racing pairs for the  *)
(* blocking cases and the commit-point races), w = the number of blocking calls the model says complete in    *)
(* that step (the harness waits for that many, never longer than its patience).  Every behaviour ends with a  *)
(* DRAIN: a Receive per open node until each has a blocked receiver, so that a lost message is noticed.       *)
(*   CoverSpec + VIEW gview + DumpEvery   the BFS-shortest behaviour to every distinct realm state             *)
(*   CoverSpec + VIEW gview + EdgeDump    every transition (state, group): path to the source + the group      *)
(*   GenSpec (simulation)                 random groups, weighted                                              *)
EXTENDS MC_VSwarm, Json

VARIABLES hist, fin, alts
gvars == <<st, H, nops, nid, viol, hist, fin, alts>>

\* alts: EVERY state the model can be in after the groups so far (the generator follows one branch, st; a real
\* run may follow another one): the hints are bounds over all of them
AllOuts(S, g) == UNION {GroupOutcomes(s, g) : s \in S}
After(S, g) == LET outs == AllOuts(S, g) IN IF outs = {} THEN S ELSE {o.st : o \in outs}
MinDone(S, g) == LET c == {Cardinality(o.done) : o \in AllOuts(S, g)} IN IF c = {} THEN 0 ELSE CHOOSE x \in c : \A y \in c : x <= y
MaxDone(S, g) == LET c == {Cardinality(o.done) : o \in AllOuts(S, g)} IN IF c = {} THEN 0 ELSE CHOOSE x \in c : \A y \in c : x >= y
GroupRec(S, g) == [ops |-> g, w |-> MinDone(S, g), wx |-> MaxDone(S, g)]

RECURSIVE Drain(_, _, _)
Drain(S, h, id) ==
    LET cand == {a \in Addrs : \E s \in S : a \in s.open /\ s.pr[a] = {}} IN
    IF cand = {} \/ id > 1100 THEN h
    ELSE LET a == CHOOSE a \in cand : \A b \in cand : a <= b
             g == <<OpRecv(id, a, "wait")>>
         IN Drain(After(S, g), Append(h, GroupRec(S, g)), id + 1)
Beh(h, S, id) == [n0 |-> N0, groups |-> Drain(S, h, IF id > 1000 THEN id ELSE 1000)]

\* the realm state without the numbering of calls (which the model never looks at)
gview == <<st.own, st.open, [a \in Addrs |-> [i \in 1..Len(st.q[a]) |-> <<st.q[a][i].src, st.q[a][i].dst, st.q[a][i].sz>>]],
           [a \in Addrs |-> Cardinality(st.pr[a])], [a \in Addrs |-> {<<h, Cardinality({sv \in st.ps[a] : sv.h = h})>> : h \in {sv.h : sv \in st.ps[a]}}],
           {<<k.from, k.to, k.sz>> : k \in st.pa}, st.seen, fin>>

GenInit == Init /\ hist = <<>> /\ fin = FALSE /\ alts = {InitSt(N0)}
DoG(g) == Do(g) /\ hist' = Append(hist, GroupRec(alts, g)) /\ alts' = After(alts, g) /\ UNCHANGED fin
CoverNext == \E g \in Groups(st, nid) : DoG(g)
CoverSpec == GenInit /\ [][CoverNext]_gvars
DumpEvery == (nops > 0) => PrintT(ToJson(<<"BEH", Beh(hist, alts, nid)>>))
EdgeDump == PrintT(ToJson(<<"BEH", Beh(hist', alts', nid')>>))

\* ---- scenarios that are always executed (hints from the model, following one of its branches)
RECURSIVE RunScript(_, _, _, _)
RunScript(S, gs, i, h) ==
    IF i > Len(gs) \/ AllOuts(S, gs[i]) = {} THEN Beh(h, S, 1000)
    ELSE RunScript(After(S, gs[i]), gs, i + 1, Append(h, GroupRec(S, gs[i])))
TF0 == IF TfKind = "script" THEN "pass" ELSE "-"
T(id, a, b, sz) == OpTell(id, a, b, sz, TF0)
R(id, a) == OpRecv(id, a, "wait")
CoreBare ==
    IF Kind = "vs" THEN <<
      \* Create: in use, after Drop (never reusable as coded), Len
      <<<<OpCreate(1, 1)>>, <<OpCreate(2, 1)>>, <<T(3, 0, 1, "s")>>, <<OpClose(4, 1)>>, <<OpCreate(5, 1)>>, <<OpCreate(6, 2)>>, <<T(7, 2, 1, "s")>>,
        <<OpClose(8, 1)>>, <<OpCreate(9, 0)>>, <<OpCreate(10, 2), OpCreate(11, 2)>>>>
    >> ELSE IF TfKind = "script" THEN <<
      <<<<OpTell(1, 0, 1, "s", "drop")>>, <<R(2, 1)>>, <<OpTell(3, 0, 1, "s", "altsrc")>>, <<OpTell(4, 0, 1, "m", "grow")>>, <<OpTell(5, 0, 1, "s", "pass")>>,
        <<R(6, 1)>>, <<OpTell(7, 0, 1, "s", "altdst")>>, <<R(8, 1)>>, <<OpTell(9, 1, 0, "z", "pass")>>, <<OpTell(10, 1, 0, "s", "drop")>>, <<R(11, 0)>>,
        <<OpTell(12, 0, 7, "s", "altdst")>>, <<OpTell(13, 1, 1, "m", "pass")>>>>
    >> ELSE IF TfKind \in {"tuple", "pair"} THEN <<
      \* the first message of a flow is dropped; unknown destinations and oversize payloads do not reach the transform
      <<<<T(1, 0, 1, "s")>>, <<T(2, 0, 1, "s")>>, <<T(3, 1, 0, "s")>>, <<T(4, 1, 0, "s")>>, <<R(5, 1)>>, <<R(6, 0)>>, <<R(7, 0)>>,
        <<T(8, 0, 0, "s")>>, <<T(9, 0, 0, "s")>>, <<T(10, 0, 2, "s")>>, <<OpNew(11)>>, <<T(12, 0, 2, "s")>>, <<T(13, 0, 2, "s")>>, <<T(14, 2, 0, "s")>>>>
    >> ELSE <<
      \* FIFO, overflow, a blocked Receive woken by a Tell, a Tell to oneself
      <<<<T(1, 0, 1, "s")>>, <<T(2, 0, 1, "m")>>, <<T(3, 1, 1, "s")>>, <<R(4, 1)>>, <<R(5, 1)>>, <<R(6, 1)>>, <<T(7, 0, 1, "s")>>, <<T(8, 1, 1, "z")>>,
        <<T(9, 0, 1, "s")>>, <<R(10, 1)>>, <<R(11, 1)>>>>,
      \* blocked Receive / ServeAsk / Ask when the node closes; everything after Close
      <<<<R(1, 0)>>, <<OpServe(2, 0, "echo")>>, <<OpAsk(3, 1, 0, "s")>>, <<OpAsk(4, 1, 0, "m")>>, <<OpServe(5, 0, "neg")>>, <<OpAsk(6, 1, 0, "s")>>,
        <<OpAsk(7, 1, 0, "s")>>, <<OpServe(8, 1, "echo")>>, <<OpClose(9, 0)>>, <<R(10, 0)>>, <<OpServe(11, 0, "echo")>>, <<OpAsk(12, 1, 0, "s")>>,
        <<T(13, 1, 0, "s")>>, <<T(14, 0, 1, "s")>>, <<OpAsk(15, 0, 1, "s")>>, <<OpClose(16, 0)>>, <<R(17, 1)>>>>,
      \* MTU, unknown destinations, the empty payload
      <<<<T(1, 0, 1, "x")>>, <<T(2, 0, 7, "s")>>, <<OpAsk(3, 0, 7, "s")>>, <<OpAsk(4, 0, 1, "x")>>, <<T(5, 0, 1, "m")>>, <<R(6, 1)>>, <<T(7, 1, 0, "z")>>,
        <<R(8, 0)>>, <<T(9, 0, 2, "s")>>, <<OpNew(10)>>, <<T(11, 2, 0, "s")>>, <<T(12, 0, 2, "m")>>, <<R(13, 0)>>, <<R(14, 2)>>, <<OpClose(15, 2)>>, <<T(16, 0, 2, "s")>>>>,
      \* cancellation
      <<<<R(1, 0)>>, <<OpCancel(2, 1)>>, <<OpAsk(3, 0, 1, "s")>>, <<OpCancel(4, 3)>>, <<OpServe(5, 1, "echo")>>, <<OpCancel(6, 5)>>,
        <<OpRecv(7, 0, "cancelled")>>, <<T(8, 1, 0, "s")>>, <<OpRecv(9, 0, "cancelled")>>, <<R(10, 0)>>>>,
      \* two receivers, one message; racing tells into one slot; a tell racing with Close
      <<<<R(1, 1)>>, <<R(2, 1)>>, <<T(3, 0, 1, "s")>>, <<T(4, 0, 1, "m")>>, <<T(5, 0, 1, "s"), T(6, 1, 1, "m")>>, <<R(7, 1)>>, <<R(8, 1)>>,
        <<R(9, 0)>>, <<T(10, 1, 0, "s"), OpClose(11, 0)>>, <<OpAsk(12, 0, 1, "s"), OpServe(13, 1, "echo")>>, <<OpServe(14, 1, "echo")>>,
        <<OpAsk(15, 0, 1, "s"), OpClose(16, 1)>>>>
    >>
Core == CoreBare
CoreDumpOf(C) == \A k \in 1..Len(C) : PrintT(ToJson(<<"CORE", RunScript({InitSt(N0)}, C[k], 1, <<>>)>>))
CoreInit == GenInit /\ CoreDumpOf(Core)
CoreSpec == CoreInit /\ [][UNCHANGED gvars]_gvars

\* ---- simulation: one random group per step (every random value is bound once by \E)
Pick(S) == RandomElement(S)
RandSingle(s, id, c, a, b, sz, tf, cx, h, t) ==
    LET tell == OpTell(id, a, b, IF sz = "z" /\ ZUsed(a, b) THEN "s" ELSE sz, tf) IN
    CASE c \in 1..8 -> tell
      [] c \in 9..12 -> IF Cardinality(s.pr[a]) < MaxAsks THEN OpRecv(id, a, IF Wrap = "wl" THEN "wait" ELSE cx) ELSE tell
      [] c \in 13..14 -> IF Wrap # "map" /\ Cardinality(s.ps[a]) < MaxAsks THEN OpServe(id, a, h) ELSE tell
      [] c \in 15..16 -> IF Wrap # "map" /\ Cardinality(s.pa) < MaxAsks /\ sz # "z" THEN OpAsk(id, a, b, sz) ELSE tell
      [] c = 17 -> OpClose(id, a)
      [] c = 18 -> IF t # 0 THEN OpCancel(id, t) ELSE tell
      [] OTHER -> IF Kind = "mem" THEN (IF Cardinality(s.own) \in Addrs THEN OpNew(id) ELSE tell) ELSE OpCreate(id, IF b = Unknown THEN 0 ELSE b)
RandNext ==
    \E c \in {Pick(1..20)}, a \in {Pick(st.own)}, u \in {Pick(1..8)}, b0 \in {Pick(Addrs)}, sz \in {Pick(Sizes)}, tf \in {Pick(TfChoices)},
       cx \in {Pick(Ctxs)}, h \in {Pick(Handlers)}, t \in {Pick(Pending(st) \cup {0})}, pr \in {Pick(1..4)} :
        LET ps == IF pr = 1 /\ PairKinds # {} THEN Pairs(st, nid) ELSE {} IN
        IF ps # {} THEN \E g \in {Pick(ps)} : DoG(g)
        ELSE LET g == <<RandSingle(st, nid, c, a, IF u = 1 THEN Unknown ELSE b0, sz, tf, cx, h, t)>> IN GroupOutcomes(st, g) # {} /\ DoG(g)
Finish == /\ nops = MaxOps /\ ~fin
          /\ PrintT(ToJson(<<"BEH", Beh(hist, alts, nid)>>))
          /\ fin' = TRUE
          /\ UNCHANGED <<st, H, nops, nid, viol, hist, alts>>
GenNext == RandNext \/ Finish
GenSpec == GenInit /\ [][GenNext]_gvars
=============================================================================
