SPECIFICATION Spec
CONSTANTS
  Addrs = {0, 1, 2}
  Unknown = 7
  QLen = 1
  Kind = "mem"
  TfKind = "none"
  Wrap = "wl"
  Allow <- AllowMixed
  N0 = 3
  Sizes = {"s"}
  TFs = {"pass"}
  Ctxs = {"wait"}
  Handlers = {"echo", "neg"}
  PairKinds = {"aa"}
  MaxOps = 3
  MaxAsks = 1
INVARIANTS TypeOK LawsHold MustIsQueued
CHECK_DEADLOCK FALSE
