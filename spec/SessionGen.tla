----------------------------- MODULE SessionGen -----------------------------
(* Behaviour generation for harness/cmd/sessreplay: the history of `last` records (each holds  *)
(* the action, its arguments as message ids, and the model's predicted observables) plus the   *)
(* table of message terms.  Simulation: Finish prints once per behaviour.  Exhaustive (VIEW    *)
(* hides hist): DumpEvery prints the first path to every distinct state.                       *)
EXTENDS MC_Session, Json
CONSTANT MaxSteps
VARIABLES hist, done
genvars == <<vars, hist, done>>

GenInit == Init /\ hist = <<>> /\ done = FALSE
Dump == PrintT(ToJson(<<"BEH", [hist |-> hist, msgs |-> msgs]>>))
Finish == /\ Len(hist) >= MaxSteps /\ ~done
          /\ Dump
          /\ done' = TRUE
          /\ UNCHANGED <<vars, hist>>
RandNext ==
    \/ \E s \in {RandomElement(Sess)} : Hs(s)
    \/ net # {} /\ \E s \in {RandomElement(Sess)}, m \in {RandomElement(net)} : Deliver(s, m)
    \/ net # {} /\ \E s \in {RandomElement(Sess)}, m \in {RandomElement(net)} : Deliver(s, m)
    \/ \E s \in {RandomElement(Sess)} : Send(s)
    \/ \E m \in {RandomElement(Forgeable)} : Forge(m)
GenNext == \/ (Len(hist) < MaxSteps /\ RandNext /\ hist' = Append(hist, last') /\ UNCHANGED done)
           \/ Finish
GenSpec == GenInit /\ [][GenNext]_genvars

CoverNext == Next /\ hist' = Append(hist, last') /\ UNCHANGED done
CoverSpec == GenInit /\ [][CoverNext]_genvars
ReflectCoverNext == ReflectNext /\ hist' = Append(hist, last') /\ UNCHANGED done
ReflectCoverSpec == GenInit /\ [][ReflectCoverNext]_genvars
DumpEvery == (hist # <<>>) => Dump
\* edge cover: printed for every generated transition (self-loops and transitions into known states too):
\* the BFS-shortest path to the source state followed by the transition
EdgeDump == PrintT(ToJson(<<"BEH", [hist |-> hist', msgs |-> msgs']>>))
=============================================================================
