SPECIFICATION Spec
CONSTANTS
  BackoffSeq <- MCBackoff
  MaxCalls = 4
  FnDurs = {0, 1}
  CancelTimes <- MCCancelTimes
INVARIANTS NilStops CtxErrOnlyIfDone WaitIndexed NoCallAfterCtxEnded CtxSelectEnds WaiterClosedOnce DelayExact PromptCtx AtMostOneCallAfterCancel DumpDone
CHECK_DEADLOCK FALSE
