----------------------------- MODULE ChordTrace -----------------------------
(* Binds Chord.tla to the real chord.DistanceForward / DistanceAbsolute (dhtnodereplay -chord).  A "pairs" *)
(* event holds one ring point a and, for every b of the case, the bytes the four calls wrote into a dirty   *)
(* output buffer; a "lens" event holds three buffer lengths (out, to, from) and whether the calls panicked. *)
(*   VIOL  a law of Chord.tla (RowLaws) is false on the bytes written, a call panicked on equal lengths,     *)
(*         did not panic on unequal ones (the documented precondition), or modified its inputs               *)
EXTENDS Chord, Json, IOUtils

Log == ndJsonDeserialize(IOEnv.TRACE)
VARIABLES l
tvars == <<a, b, l>>

EvViol(ev) ==
    IF ev.ev = "lens" THEN
        LET same == ev.lens[1] = ev.lens[2] /\ ev.lens[2] = ev.lens[3] IN
        (IF same /\ (ev.panicf \/ ev.panica) THEN {"NoPanic"} ELSE {})
        \cup (IF ~same /\ ~(ev.panicf /\ ev.panica) THEN {"PanicsOnMismatch"} ELSE {})
    ELSE IF ev.panicf \/ ev.panica THEN {"NoPanic"}
    ELSE UNION {RowLaws([a |-> ev.a, b |-> ev.rows[j].b, fwd |-> ev.rows[j].fwd, bwd |-> ev.rows[j].bwd,
                         abs |-> ev.rows[j].abs, absba |-> ev.rows[j].absba])
                \cup (IF ev.rows[j].clean THEN {} ELSE {"InputsUntouched"}) : j \in 1..Len(ev.rows)}
\* the first row that violates (for the report)
Witness(ev) ==
    IF ev.ev = "lens" \/ ev.panicf \/ ev.panica THEN <<>>
    ELSE LET bad == {j \in 1..Len(ev.rows) :
                        RowLaws([a |-> ev.a, b |-> ev.rows[j].b, fwd |-> ev.rows[j].fwd, bwd |-> ev.rows[j].bwd,
                                 abs |-> ev.rows[j].abs, absba |-> ev.rows[j].absba]) # {} \/ ~ev.rows[j].clean}
         IN IF bad = {} THEN <<>> ELSE ev.rows[CHOOSE j \in bad : \A i \in bad : j <= i].b

TraceInit == l = 1 /\ a = 0 /\ b = 0
TraceNext == /\ l <= Len(Log)
             /\ l' = l + 1
             /\ LET vs == EvViol(Log[l]) IN (vs # {}) => PrintT(ToJson(<<"VIOL", l, Log[l].id, vs, Witness(Log[l])>>))
             /\ UNCHANGED <<a, b>>
TraceSpec == TraceInit /\ [][TraceNext]_tvars
AllConsumed == TLCGet("distinct") >= Len(Log) + 1
TNoneC == {}
=============================================================================
