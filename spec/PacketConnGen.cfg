SPECIFICATION GenSpec
CONSTANTS
  QLen = 2
  MaxOps = 9
CHECK_DEADLOCK FALSE
