SPECIFICATION CoverSpec
CONSTANTS
  Locus <- L1Locus
  Keys <- L1Keys
  Queries <- L1Queries
  Vals <- NNone
  Times <- NNone
  TouchTimes <- NNone
  ExpTimes <- NNone
  Exps <- NNone
  Configs <- NNone
  MaxOps = 2
  LocalID <- NLocal
  PeerIDs <- L1Few
  DataKeys <- L1Data
  Infos = {1, 2}
  DVals = {1, 2}
  PutTTLs = {0, 2}
  HPutTTLs = {1, 99}
  PeerTTL = 1
  MaxDataTTL = 2
  MaxNow = 3
  NodeConfigs <- L1EmptyConfigs
  Targets <- L1Targets
  Limits <- L1Limits
  Orig <- NNone
VIEW nview
INVARIANTS NodeTypeOK CachesOK GhostAgrees ObsLawsHold DumpEvery
PROPERTIES NodeStepLawsProp
CHECK_DEADLOCK FALSE
