---------------------------- MODULE MC_FragWide ----------------------------
EXTENDS FragWide
\* part counts on the boundaries of the completion bookkeeping
CountsQuick == [l \in {"frag", "mbapp"} |->
                  IF l = "mbapp" THEN {7, 8, 9, 15, 16, 17, 24, 32, 63, 64, 65}
                  ELSE {7, 8, 9, 16, 17, 32, 64, 127, 128, 129}]
CountsThorough == [l \in {"frag", "mbapp"} |->
                  IF l = "mbapp" THEN {2, 7, 8, 9, 15, 16, 17, 23, 24, 25, 31, 32, 33, 40, 48, 56, 63, 64, 65, 72, 127, 128, 129, 255, 256, 257}
                  ELSE {2, 7, 8, 9, 15, 16, 17, 24, 32, 63, 64, 65, 127, 128, 129, 200, 254, 255}]
=============================================================================
