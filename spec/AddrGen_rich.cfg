SPECIFICATION Spec
CONSTANTS
  MaxDepth = 3
  Rich = TRUE
  UdpBrackets = TRUE
  SshPlus = TRUE
INVARIANTS RoundTripLaw ParseTotalLaw Dump
CHECK_DEADLOCK FALSE
