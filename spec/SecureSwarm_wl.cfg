SPECIFICATION Spec
CONSTANTS
  Kinds <- NoQUIC
  WLA <- WLFour
  WLB <- OnlyAll
  Weak <- NoWeak
  MaxConn = 1
  MaxSend = 2
  MaxAdv = 1
  CacheMax = 16
  Extras = {}
  Asks = {FALSE}
INVARIANTS Attribution DialSafety Whitelist
CHECK_DEADLOCK FALSE
