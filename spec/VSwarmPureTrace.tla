-------------------------- MODULE VSwarmPureTrace --------------------------
(* Evaluates the helper laws of VSwarmPure.tla on the results of the real functions (vswarmreplay -pure).   *)
EXTENDS VSwarmPure, TLC, Json, IOUtils
Log == ndJsonDeserialize(IOEnv.TRACE)
VARIABLES l
TraceInit == l = 1
TraceNext ==
    /\ l <= Len(Log)
    /\ l' = l + 1
    /\ LET vs == PureLaws(Log[l]) IN (vs # {}) => PrintT(ToJson(<<"VIOL", l, Log[l].beh, vs>>))
TraceSpec == TraceInit /\ [][TraceNext]_l
AllConsumed == TLCGet("distinct") >= Len(Log) + 1
=============================================================================
