----------------------------- MODULE SecureSwarm -----------------------------
(***************************************************************************)
(* Implementation-shaped model of how the three secure swarms of go-p2p    *)
(* bind a delivered message to an identity (property C04):                 *)
(*     s/p2pkeswarm (kind "p2pke"), s/quicswarm ("quic"), s/sshswarm       *)
(*     wrapped in s/wlswarm ("ssh").                                       *)
(* Nodes A and B run the real code and hold exactly their own private      *)
(* key; M is the adversary: it holds only priv(M) but may present any      *)
(* public key, answer at its own transport address whatever identity was   *)
(* dialled, and order / repeat authentication steps as it likes.           *)
(*                                                                         *)
(* A connection record keeps, per side, three things that the property     *)
(* distinguishes:                                                          *)
(*    claimX  the key side X PRESENTED,                                    *)
(*    usedX   (ghost) the key whose PRIVATE half X really used in this     *)
(*            connection's handshake ("none": garbage / nothing),          *)
(*    recX    what the CODE of the other side stored as the remote key;    *)
(*            Src.ID of every delivery and LookupPublicKey come from it.   *)
(* Cryptographic handshakes (P2PKE signatures over the channel binding,    *)
(* TLS 1.3 CertificateVerify, SSH host-key and user-auth signatures) are   *)
(* atomic "the presented key is accepted iff its private half was used"    *)
(* (C03 establishes that for P2PKE; TLS and SSH are trusted libraries),    *)
(* EXCEPT the SSH server's PublicKeyCallback cache, modelled in SSHAuth.   *)
(*                                                                         *)
(* The model is the code AFTER the repairs of F13 (sshswarm records the    *)
(* key bound in Permissions) and F35 (p2pkeswarm / quicswarm consult the   *)
(* whitelist when delivering).  Weak switches individual checks OFF: it is *)
(* {} when the model is checked; non-empty values (a) reproduce the        *)
(* unrepaired code for the self-test and (b) generate attack scripts that  *)
(* go where only a defective implementation would let them.                *)
(*     "sshlast"      newServer records the key of the LAST callback (F13) *)
(*     "wlout"        whitelist consulted only when admitting inbound      *)
(*                    connections, not when delivering (F35)               *)
(*     "nodialcheck"  dialler does not compare the proven identity with    *)
(*                    the one it dialled                                   *)
(*     "nopostcheck"  p2pkeswarm getFullAddr does not compare the ready    *)
(*                    channel's key with the dialled identity              *)
(*     "noproof"      a presented key is accepted without proof            *)
(*     "wlin"         inbound admission does not consult the whitelist     *)
(*     "firstloadable" quicswarm takes the first certificate of the peer's *)
(*                    chain whose key its registry can load instead of the *)
(*                    leaf (the only certificate TLS proves)               *)
(***************************************************************************)
EXTENDS Integers, Sequences, FiniteSets, TLC, SSHAuth

CONSTANTS
    Kinds,      \* subset of {"p2pke", "quic", "ssh"}
    WLA, WLB,   \* whitelists (subsets of Nodes) explored for node A / node B
    Weak,
    MaxConn,    \* connections per behaviour
    MaxSend,    \* Tell / Ask calls per behaviour (honest and adversarial)
    MaxAdv,     \* adversarial authentication steps per behaviour
    Extras,     \* keys M may put into an additional, unproven certificate ({}: single-certificate chains only)
    Asks        \* {FALSE}: Tell only; {FALSE, TRUE}: Tell and Ask (the model treats them alike, the replayer does not)

Nodes  == {"A", "B", "M"}
Honest == {"A", "B"}
\* Keys are named after their holder.  M has a second key pair of its own, "Me": an ECDSA key, i.e. of an
\* algorithm the swarms' default registry (Ed25519 only) cannot load.  Every node's main key is Ed25519.
Keys == Nodes \cup {"Me"}
Holds(n) == IF n = "M" THEN {"M", "Me"} ELSE {n}     \* nobody holds the private half of anybody else's key
Loadable(k) == k # "Me"
KeyNode(k) == IF k = "Me" THEN "M" ELSE k
VARIABLES
    kind,       \* swarm kind of this behaviour
    wl,         \* [Honest -> SUBSET Nodes]: identities each honest node's whitelist admits
    conns,      \* sequence of connection records
    sends,      \* sequence of Tell/Ask records (index = payload id)
    dlv,        \* set of deliveries to Receive / ServeAsk callbacks of honest nodes
    saw,        \* payloads the adversary's endpoint obtained in clear
    mpol,       \* what M presents when somebody dials its transport address
    adv         \* adversarial authentication steps so far

vars == <<kind, wl, conns, sends, dlv, saw, mpol, adv>>

\* whitelists are predicates on identities; one that admits node M admits both of M's identities
InWL(k, n) == KeyNode(k) \in wl[n]

(* CREDENTIAL PRESENTATION of a certificate-based transport (quicswarm): a TLS peer sends a certificate CHAIN.  *)
(* With InsecureSkipVerify + RequireAnyClientCert only the LEAF's private key is proven (CertificateVerify);     *)
(* every further certificate is data the peer chose.  claimX is the leaf's key, extraX the key inside one        *)
(* additional, unproven certificate ("-": none).  The code must record the leaf's key or nobody's.               *)
RecOf(leaf, extra) ==
    IF kind = "quic" /\ "firstloadable" \in Weak
    THEN IF Loadable(leaf) THEN leaf ELSE extra
    ELSE leaf

Fixed == "sshlast" \notin Weak

NewConn(d, a, x) ==
    [d |-> d, a |-> a, want |-> x,
     ans |-> FALSE, claimA |-> "-", usedA |-> "-",      \* answerer's presentation
     extraA |-> "-", extraD |-> "-",                    \* unproven extra certificate of the answerer / dialler
     dst |-> "hs", recD |-> "-",                        \* dialler's side: hs | open | fail | gone
     pres |-> FALSE, claimD |-> "-", usedD |-> "-",     \* dialler's presentation
     held |-> FALSE,                                    \* M sent the first half of a handshake and withholds the rest
     ast |-> "idle", recA |-> "-",                      \* answerer's side: idle | open | fail | gone
     au |-> NoAuth]                                     \* SSH user authentication at the answerer

Init == /\ kind \in Kinds
        /\ wl \in [Honest -> SUBSET Nodes] /\ wl["A"] \in WLA /\ wl["B"] \in WLB
        /\ conns = <<>> /\ sends = <<>> /\ dlv = {} /\ saw = {}
        /\ mpol = [k |-> "M", proof |-> "own", extra |-> "-"]
        /\ adv = 0

CIdx == 1..Len(conns)
Peer(c, n) == IF conns[c].d = n THEN conns[c].a ELSE conns[c].d
St(c, n)   == IF conns[c].d = n THEN conns[c].dst ELSE conns[c].ast
Rec(c, n)  == IF conns[c].d = n THEN conns[c].recD ELSE conns[c].recA      \* peer key stored by n's code
Used(c, n) == IF conns[c].d = n THEN conns[c].usedD ELSE conns[c].usedA    \* ghost
Max(S) == CHOOSE x \in S : \A y \in S : y <= x

-----------------------------------------------------------------------------
(* Which connection carries a Tell/Ask of honest node n to (identity x, transport of t).     *)
(* c = 0: none, dial.  sure = FALSE: the model does not commit to a prediction for this send. *)
\* n has a channel object for c: it dialled, or the peer's first packet arrived (handleMessage creates the channel
\* for the SOURCE TRANSPORT ADDRESS of any packet, with AcceptKey = whitelist, before looking at the packet)
HasChan(c, n) == \/ conns[c].d = n
                 \/ (conns[c].d \in Honest /\ conns[c].ans)
                 \/ (conns[c].d = "M" /\ conns[c].claimD # "-")
Match(c, n, x) == Rec(c, n) = x \/ "nopostcheck" \in Weak      \* swarm.go:147-149
Route(n, x, t) ==
    IF kind = "p2pke" THEN
        \* s/p2pkeswarm/swarm.go:128-154 getFullAddr: ONE channel per transport address, whoever created it
        LET pc   == {c \in CIdx : {conns[c].d, conns[c].a} = {n, t} /\ St(c, n) # "gone" /\ HasChan(c, n)}
            open == {c \in pc : St(c, n) = "open"} IN
        IF \E c \in open : Match(c, n, x) THEN [c |-> Max({c \in open : Match(c, n, x)}), sure |-> Cardinality(pc) = 1]
        ELSE IF open # {} THEN [c |-> 0, sure |-> FALSE]     \* wrong identity: channel deleted, dialled again
        ELSE IF pc # {} THEN [c |-> Max(pc), sure |-> FALSE] \* WaitReady on the channel that exists
        ELSE [c |-> 0, sure |-> TRUE]
    ELSE IF kind = "quic" THEN
        \* s/quicswarm/quicswarm.go:247-255 withSession: cache keyed by the FULL address, inbound first
        LET inb  == {c \in CIdx : conns[c].a = n /\ conns[c].d = t /\ conns[c].ast = "open" /\ conns[c].recA = x}
            outb == {c \in CIdx : conns[c].d = n /\ conns[c].a = t /\ conns[c].dst = "open" /\ conns[c].recD = x} IN
        IF inb # {} THEN [c |-> Max(inb), sure |-> TRUE]
        ELSE IF outb # {} THEN [c |-> Max(outb), sure |-> TRUE]
        ELSE [c |-> 0, sure |-> TRUE]
    ELSE
        \* s/sshswarm/swarm.go:146-176 getConn: keyed by fingerprint@ip:port; an inbound connection has the
        \* peer's ephemeral port, so the listen address only ever matches connections this node dialled
        LET outb == {c \in CIdx : conns[c].d = n /\ conns[c].a = t /\ conns[c].dst = "open" /\ conns[c].recD = x} IN
        IF outb # {} THEN [c |-> Max(outb), sure |-> TRUE] ELSE [c |-> 0, sure |-> TRUE]

\* p2pkeswarm deletes a ready channel whose key is not the dialled identity (swarm.go:151)
Gone(cs, n, t) ==
    IF kind # "p2pke" THEN cs
    ELSE [c \in DOMAIN cs |->
            IF {cs[c].d, cs[c].a} = {n, t} /\ (IF cs[c].d = n THEN cs[c].dst ELSE cs[c].ast) = "open"
            THEN (IF cs[c].d = n THEN [cs[c] EXCEPT !.dst = "gone"] ELSE [cs[c] EXCEPT !.ast = "gone"])
            ELSE cs[c]]

Snd(f, x, t, ask, c, sure) == [from |-> f, x |-> x, t |-> t, ask |-> ask, c |-> c, st |-> "queued", sure |-> sure,
                               lk |-> FALSE, res |-> "-"]     \* lk: a LookupPublicKey call, res: the key it returned

(* Dial: the connection a Tell/Ask creates when Route finds none.                              *)
(* p2pkeswarm getFullAddr (AcceptKey: id = dialled id), quicswarm withSession, sshswarm getConn *)
Dial(n, x, t) == conns' = Append(Gone(conns, n, t), NewConn(n, t, x))

\* s/wlswarm/whitelist.go Tell / Ask: the wrapper refuses to SEND to an address its predicate rejects
SendBlocked(n, x) == kind = "ssh" /\ x \notin wl[n]
Blocked(n, x, t, ask) == [Snd(n, x, t, ask, 0, TRUE) EXCEPT !.st = "err"]

(* Tell / Ask of an honest node to a full address *)
Tell(n, x, t, ask) ==
    /\ n \in Honest /\ t \in Nodes \ {n} /\ x \in Nodes
    /\ Len(sends) < MaxSend
    /\ ask => kind # "p2pke"
    /\ IF SendBlocked(n, x) THEN sends' = Append(sends, Blocked(n, x, t, ask)) /\ UNCHANGED conns
       ELSE LET r == Route(n, x, t) IN
       IF r.c # 0
       THEN /\ sends' = Append(sends, Snd(n, x, t, ask, r.c, r.sure)) /\ UNCHANGED conns
       ELSE /\ Len(conns) < MaxConn
            /\ Dial(n, x, t)
            /\ sends' = Append(sends, Snd(n, x, t, ask, Len(conns) + 1, r.sure))
    /\ UNCHANGED <<kind, wl, dlv, saw, mpol, adv>>

(* Tell / Ask of an honest node to the Src address of a message it received *)
Reply(n, dl, ask) ==
    /\ dl \in dlv /\ dl.at = n
    /\ Len(sends) < MaxSend
    /\ ask => kind # "p2pke"
    /\ LET t == Peer(dl.c, n)
           r == IF kind = "ssh" /\ St(dl.c, n) = "open"
                THEN [c |-> dl.c, sure |-> TRUE]          \* conns[Src.Key()] is the connection it came over
                ELSE Route(n, dl.src, t) IN
       IF SendBlocked(n, dl.src) THEN sends' = Append(sends, Blocked(n, dl.src, t, ask)) /\ UNCHANGED conns
       ELSE IF r.c # 0
       THEN /\ sends' = Append(sends, Snd(n, dl.src, t, ask, r.c, r.sure)) /\ UNCHANGED conns
       ELSE /\ Len(conns) < MaxConn
            /\ Dial(n, dl.src, t)
            /\ sends' = Append(sends, Snd(n, dl.src, t, ask, Len(conns) + 1, r.sure))
    /\ UNCHANGED <<kind, wl, dlv, saw, mpol, adv>>

(* LookupPublicKey(ctx, (x, t)) of an honest node OUTSIDE a handler.  p2pkeswarm and quicswarm dial if they have   *)
(* nothing for the address; sshswarm only looks into its connection table (swarm.go:94-103).                    *)
LookupKey(n, x, t) ==
    /\ n \in Honest /\ t \in Nodes \ {n} /\ x \in Nodes
    /\ Len(sends) < MaxSend
    /\ LET r == Route(n, x, t) IN
       IF r.c # 0
       THEN /\ sends' = Append(sends, [Snd(n, x, t, FALSE, r.c, r.sure) EXCEPT !.lk = TRUE]) /\ UNCHANGED conns
       ELSE IF kind = "ssh"
       THEN /\ sends' = Append(sends, [Snd(n, x, t, FALSE, 0, TRUE) EXCEPT !.lk = TRUE, !.st = "err"]) /\ UNCHANGED conns
       ELSE /\ Len(conns) < MaxConn
            /\ Dial(n, x, t)
            /\ sends' = Append(sends, [Snd(n, x, t, FALSE, Len(conns) + 1, r.sure) EXCEPT !.lk = TRUE])
    /\ UNCHANGED <<kind, wl, dlv, saw, mpol, adv>>

-----------------------------------------------------------------------------
(* Handshake, one action per party and phase *)

\* the owner of the dialled transport address presents a key
\* (P2PKE RespHello / TLS server certificate + CertificateVerify / SSH host key + KEX signature)
CanAnswer(c) == ~conns[c].ans
Answer(c) ==
    /\ CanAnswer(c)
    /\ LET a == conns[c].a IN
       conns' = [conns EXCEPT ![c].ans = TRUE,
                   ![c].claimA = IF a \in Honest THEN a ELSE mpol.k,
                   ![c].extraA = IF a \in Honest THEN "-" ELSE mpol.extra,
                   \* M signs with the presented key if it is one of its own, otherwise with its main key
                   ![c].usedA  = IF a \in Honest THEN a
                                 ELSE IF mpol.proof \notin {"own", "data"} THEN "none"
                                 ELSE IF mpol.k \in Holds("M") THEN mpol.k ELSE "M"]
    /\ UNCHANGED <<kind, wl, sends, dlv, saw, mpol, adv>>

\* the dialler verifies the proof and compares the proven identity with the dialled one
\* (p2pkeswarm AcceptKey closure swarm.go:134-137 + :147-149; quicswarm.go:270-272; sshswarm conn.go HostKeyCallback)
CanDialerCheck(c) == conns[c].d \in Honest /\ conns[c].ans /\ conns[c].dst = "hs"
DialerCheck(c) ==
    /\ CanDialerCheck(c)
    /\ LET r     == conns[c]
           valid == (r.usedA = r.claimA) \/ "noproof" \in Weak
           rec   == RecOf(r.claimA, r.extraA)       \* quicswarm.go remoteAddrFromSession: PeerCertificates[0]
           idok  == (rec = r.want) \/ "nodialcheck" \in Weak
           ok    == valid /\ idok /\ rec # "-"
           \* TLS completes (client certificate sent) before quicswarm compares identities; P2PKE sends
           \* InitDone and SSH starts user authentication only after the check
           pr    == IF kind = "quic" THEN valid ELSE ok IN
       conns' = [conns EXCEPT ![c].dst = IF ok THEN "open" ELSE "fail",
                               ![c].recD = IF ok THEN rec ELSE "-",
                               ![c].pres = pr,
                               ![c].claimD = IF pr THEN r.d ELSE "-",
                               ![c].usedD = IF pr THEN r.d ELSE "-"]
    /\ UNCHANGED <<kind, wl, sends, dlv, saw, mpol, adv>>

\* the answerer admits the dialler (p2pkeswarm handleMessage AcceptKey closure swarm.go:173-176;
\* quicswarm serve :291-301; sshswarm newServer).  SSH user authentication of the adversary is MQuery/MSigned.
CanAccept(c) == /\ conns[c].a \in Honest /\ conns[c].pres /\ conns[c].ast = "idle" /\ ~conns[c].held
                /\ ~(kind = "ssh" /\ conns[c].d = "M")
Accept(c) ==
    /\ CanAccept(c)
    /\ LET r     == conns[c]
           valid == (r.usedD = r.claimD) \/ "noproof" \in Weak
           crec  == RecOf(r.claimD, r.extraD)
           wlok  == kind = "ssh" \/ InWL(crec, r.a) \/ "wlin" \in Weak
           au2   == Signed(Query(NoAuth, r.d), r.d, Holds(r.d))     \* ssh.PublicKeys(signer): query, then sign
           ok    == valid /\ wlok /\ (kind = "ssh" => au2.st = "ok") /\ crec # "-"
           rec   == IF kind = "ssh" THEN Recorded(au2, Fixed) ELSE crec IN
       conns' = [conns EXCEPT ![c].ast = IF ok THEN "open" ELSE "fail",
                               ![c].recA = IF ok THEN rec ELSE "-",
                               ![c].au = IF kind = "ssh" THEN au2 ELSE @]
    /\ UNCHANGED <<kind, wl, sends, dlv, saw, mpol, adv>>

HsBusy(c) == CanAnswer(c) \/ CanDialerCheck(c) \/ CanAccept(c)

-----------------------------------------------------------------------------
(* Data *)

\* a queued Tell/Ask of an honest node goes on the wire once its side of the connection is ready
\* ... or fails for good.  While M withholds the second half of a handshake the call WAITS (WaitReady) until
\* M goes on or the caller's context ends (Timeout).  A LookupPublicKey call goes the same way (p2pkeswarm
\* getFullAddr, quicswarm withSession) but returns the recorded key instead of sending anything.
Waiting(i) == sends[i].st = "queued" /\ sends[i].c # 0 /\ conns[sends[i].c].held
CanTransmit(i) == sends[i].st = "queued" /\ ~HsBusy(sends[i].c) /\ ~conns[sends[i].c].held
Transmit(i) ==
    /\ CanTransmit(i)
    /\ LET s    == sends[i]
           \* p2pkeswarm getFullAddr compares the channel's key with the dialled identity AFTER WaitReady
           \* (swarm.go:147-149): that is what protects a call which found a channel somebody else created
           idok == kind # "p2pke" \/ Rec(s.c, s.from) = s.x \/ "nopostcheck" \in Weak
           ok   == St(s.c, s.from) = "open" /\ idok IN
       sends' = [sends EXCEPT ![i].st = IF ~ok THEN "err" ELSE IF s.lk THEN "got" ELSE "wire",
                              ![i].res = IF ok /\ s.lk THEN Rec(s.c, s.from) ELSE "-"]
    /\ UNCHANGED <<kind, wl, conns, dlv, saw, mpol, adv>>

\* the caller's context ends while the call still waits
Timeout(i) ==
    /\ i \in 1..Len(sends) /\ Waiting(i)
    /\ sends' = [sends EXCEPT ![i].st = "err"]
    /\ UNCHANGED <<kind, wl, conns, dlv, saw, mpol, adv>>

\* whitelist consulted when a message is handed up
\* (p2pkeswarm handleMessage / quicswarm handleTells, handleAsks after the repair of F35; wlswarm Receive/ServeAsk)
DeliveryGate(r, src) == (kind # "ssh" /\ "wlout" \in Weak) \/ InWL(src, r)

(* DeliverUp: the receiving side computes Src.ID from the key its code recorded and calls the handler *)
CanDeliverUp(i) == sends[i].st = "wire" /\ ~HsBusy(sends[i].c)
DeliverUp(i) ==
    /\ CanDeliverUp(i)
    /\ LET s == sends[i]
           r == Peer(s.c, s.from) IN
       IF r \in Honest THEN
           IF St(s.c, r) = "open" /\ DeliveryGate(r, Rec(s.c, r))
           THEN /\ dlv' = dlv \cup {[p |-> i, at |-> r, src |-> Rec(s.c, r), lk |-> "pending", c |-> s.c, from |-> s.from]}
                /\ sends' = [sends EXCEPT ![i].st = "done"]
                /\ UNCHANGED saw
           ELSE /\ sends' = [sends EXCEPT ![i].st = "dropped"]
                /\ UNCHANGED <<dlv, saw>>
       ELSE \* the adversary reads whatever is sent over a connection it is an end of
            /\ saw' = saw \cup {[p |-> i, from |-> s.from, x |-> s.x]}
            /\ sends' = [sends EXCEPT ![i].st = "done"]
            /\ UNCHANGED dlv
    /\ UNCHANGED <<kind, wl, conns, mpol, adv>>

(* LookupInHandler: p2p.LookupPublicKeyInHandler(swarm, msg.Src) from inside the callback *)
LookupInHandler(dl) ==
    /\ dl \in dlv /\ dl.lk = "pending"
    /\ dlv' = (dlv \ {dl}) \cup {[dl EXCEPT !.lk = Rec(dl.c, dl.at)]}
    /\ UNCHANGED <<kind, wl, conns, sends, saw, mpol, adv>>

-----------------------------------------------------------------------------
(* The adversary *)

\* choose what to present to whoever dials M's transport address
\* proof "data" (P2PKE only): M signs its RespHello with its own key but never sends RespDone - application data
\* of M is what completes the dialler's handshake (the situation of finding F21)
MListenX(k, proof, extra) ==
    /\ adv < MaxAdv /\ adv' = adv + 1
    /\ proof = "data" => kind = "p2pke"
    /\ (k = "Me" \/ extra # "-") => kind = "quic"
    /\ \A c \in CIdx : conns[c].a = "M" => conns[c].ans
    /\ mpol # [k |-> k, proof |-> proof, extra |-> extra]
    /\ mpol' = [k |-> k, proof |-> proof, extra |-> extra]
    /\ UNCHANGED <<kind, wl, conns, sends, dlv, saw>>

MListen(k, proof) == MListenX(k, proof, "-")

MDial(t) ==
    /\ t \in Honest /\ Len(conns) < MaxConn
    /\ conns' = Append(conns, NewConn("M", t, t))
    /\ UNCHANGED <<kind, wl, sends, dlv, saw, mpol, adv>>

\* a signed (key, timestamp) triple of k that M captured from an InitHello k sent to it
Captured(k) == k \in Honest /\ \E c \in CIdx : conns[c].d = k /\ conns[c].a = "M"

Proofs(k) == {"own", "none"} \cup (IF kind = "p2pke" /\ Captured(k) THEN {"splice"} ELSE {})

\* one complete handshake attempt as dialler presenting key k (P2PKE InitHello + InitDone; TLS client certificate)
MPresentX(c, k, proof, extra) ==
    /\ kind # "ssh" /\ c \in CIdx /\ conns[c].d = "M" /\ conns[c].ast \in {"idle", "fail"} /\ ~conns[c].held
    /\ proof \in Proofs(k)
    /\ (k = "Me" \/ extra # "-") => kind = "quic"
    /\ adv < MaxAdv /\ adv' = adv + 1
    /\ conns' = [conns EXCEPT ![c].pres = TRUE, ![c].claimD = k, ![c].extraD = extra,
                               ![c].usedD = IF proof # "own" THEN "none" ELSE IF k \in Holds("M") THEN k ELSE "M",
                               ![c].ast = "idle"]
    /\ UNCHANGED <<kind, wl, sends, dlv, saw, mpol>>

MPresent(c, k, proof) == MPresentX(c, k, proof, "-")

\* P2PKE only: the two halves of a handshake attempt, so that the rest of the world can act in between.
\* MHello: M's InitHello reaches the honest node: a channel for M's transport address now exists there and a
\* handshake is in flight; nobody is authenticated yet.  MFinish: M sends its InitDone.
MHello(c, k, proof) ==
    /\ kind = "p2pke" /\ c \in CIdx /\ conns[c].d = "M" /\ conns[c].ast \in {"idle", "fail"} /\ ~conns[c].held
    /\ proof \in Proofs(k)
    /\ adv < MaxAdv /\ adv' = adv + 1
    /\ conns' = [conns EXCEPT ![c].pres = TRUE, ![c].claimD = k,
                               ![c].usedD = IF proof = "own" THEN "M" ELSE "none",
                               ![c].ast = "idle", ![c].held = TRUE]
    /\ UNCHANGED <<kind, wl, sends, dlv, saw, mpol>>

MFinish(c) ==
    /\ c \in CIdx /\ conns[c].held
    /\ conns' = [conns EXCEPT ![c].held = FALSE]
    /\ UNCHANGED <<kind, wl, sends, dlv, saw, mpol, adv>>

MQuery(c, k) ==
    /\ kind = "ssh" /\ c \in CIdx /\ conns[c].d = "M" /\ conns[c].ans /\ conns[c].au.st = "auth"
    /\ adv < MaxAdv /\ adv' = adv + 1
    /\ conns' = [conns EXCEPT ![c].au = Query(@, k)]
    /\ UNCHANGED <<kind, wl, sends, dlv, saw, mpol>>

MSigned(c, k) ==
    /\ kind = "ssh" /\ c \in CIdx /\ conns[c].d = "M" /\ conns[c].ans /\ conns[c].au.st = "auth"
    /\ adv < MaxAdv /\ adv' = adv + 1
    /\ LET au2 == Signed(conns[c].au, k, Holds("M"))
           ok  == au2.st = "ok" IN
       conns' = [conns EXCEPT ![c].au = au2,
                               ![c].pres = TRUE, ![c].claimD = k,
                               ![c].usedD = IF ok THEN "M" ELSE "none",
                               ![c].ast = IF ok THEN "open" ELSE "fail",
                               ![c].recA = IF ok THEN Recorded(au2, Fixed) ELSE "-"]
    /\ UNCHANGED <<kind, wl, sends, dlv, saw, mpol>>

\* M writes a Tell/Ask into a connection it is an end of (early data included: the honest side drops it)
MSend(c, ask) ==
    /\ c \in CIdx /\ "M" \in {conns[c].d, conns[c].a}
    /\ Len(sends) < MaxSend
    /\ ask => kind # "p2pke"
    /\ sends' = Append(sends, [Snd("M", Peer(c, "M"), Peer(c, "M"), ask, c, TRUE) EXCEPT !.st = "wire"])
    /\ UNCHANGED <<kind, wl, conns, dlv, saw, mpol, adv>>

-----------------------------------------------------------------------------
Handshake == \E c \in CIdx : Answer(c) \/ DialerCheck(c) \/ Accept(c)
DataPath  == \E i \in 1..Len(sends) : Transmit(i) \/ DeliverUp(i)
Lookup    == \E dl \in dlv : LookupInHandler(dl)
Internal  == Handshake \/ DataPath \/ Lookup

External ==
    \/ \E n \in Honest, x \in Nodes, t \in Nodes, ask \in Asks : Tell(n, x, t, ask)
    \/ \E n \in Honest, dl \in dlv, ask \in Asks : Reply(n, dl, ask)
    \/ \E k \in Nodes, proof \in {"own", "none", "data"} : MListen(k, proof)
    \/ \E t \in Honest : MDial(t)
    \/ \E c \in CIdx, k \in Nodes, proof \in {"own", "none", "splice"} : MPresent(c, k, proof)
    \/ Extras # {} /\ \E k \in Keys, proof \in {"own", "none"}, extra \in Extras \cup {"-"} :
            \/ (k = "Me" \/ extra # "-") /\ MListenX(k, proof, extra)
            \/ \E c \in CIdx : (k = "Me" \/ extra # "-") /\ MPresentX(c, k, proof, extra)
    \/ \E c \in CIdx, k \in Nodes : MQuery(c, k) \/ MSigned(c, k)
    \/ \E c \in CIdx, k \in Nodes, proof \in {"own", "none", "splice"} : MHello(c, k, proof)
    \/ \E c \in CIdx : MFinish(c)
    \/ \E n \in Honest, x \in Nodes, t \in Nodes : LookupKey(n, x, t)
    \/ \E i \in 1..Len(sends) : Timeout(i)
    \/ \E c \in CIdx, ask \in Asks : MSend(c, ask)

InHandler == \E dl \in dlv : dl.lk = "pending"
DataReady == \E i \in 1..Len(sends) : CanTransmit(i) \/ CanDeliverUp(i)

(* Handshake steps interleave freely with everything the environment does (a Tell while another        *)
(* handshake is in flight, an adversarial step between Answer and DialerCheck, ...).  The data path is   *)
(* run to completion: a handler runs its lookup before anything else happens, and a message that can     *)
(* move does so before the next environment step - nothing in the model can change what it would do.    *)
Next == IF InHandler THEN Lookup
        ELSE IF DataReady THEN DataPath
        ELSE Handshake \/ External
Spec == Init /\ [][Next]_vars

-----------------------------------------------------------------------------
(* C04 *)

\* the identity in Src and the key found by the in-handler lookup belong to a key pair whose private
\* half the connected sender used in that connection's handshake
\* ... and a key handed out by LookupPublicKey for the address (X, t) is X's key
LookupTruth == \A i \in 1..Len(sends) : (sends[i].lk /\ sends[i].st = "got") => sends[i].res = sends[i].x
Attribution ==
    /\ \A dl \in dlv :
        LET k == Used(dl.c, dl.from) IN
        /\ k \in Holds(dl.from)
        /\ dl.src = k
        /\ dl.lk \in {"pending", k}
    /\ LookupTruth

\* a payload addressed to identity X is handed only to a node that holds X's private key
DialSafety ==
    /\ \A dl \in dlv : dl.from \in Honest => sends[dl.p].x \in Holds(dl.at)
    /\ \A w \in saw : w.x \in Holds("M")

\* nothing from a peer the whitelist rejects is handed up
Whitelist == \A dl \in dlv : InWL(Used(dl.c, dl.from), dl.at)

C04 == Attribution /\ DialSafety /\ Whitelist

\* anti-vacuity targets for the model checker (each must be REACHABLE: checked as violated invariants)
NeverDeliveredFromM == \A dl \in dlv : dl.from # "M"
NeverSaw == saw = {}
NeverDropped == \A i \in 1..Len(sends) : sends[i].st # "dropped"
=============================================================================
