------------------------------ MODULE StackGen ------------------------------
(* Case generator for harness/cmd/stackreplay: every valid stack of MC_Stack with its boundary sizes. *)
EXTENDS MC_Stack, Json
\* payloads above 300 kB (they reach the 16-bit part-count limit of mbapp) are generated for single-layer
\* stacks, and for a few two-layer stacks over the real vswarm with the smallest base MTU
BigAllowed ==
    \/ Len(layers) <= 1
    \/ /\ Len(layers) = 2 /\ base = "vswarm" /\ innerMtu = 64
       /\ layers[1].k \in {"u16", "str", "mbapp", "frag"} /\ layers[2].k \in {"mbapp", "u16"}
CapFor == IF BigAllowed \/ SizeCap < 300000 THEN SizeCap ELSE 300000
LayerJson(L) == [k |-> L.k, cfg |-> L.cfg, c |-> L.c, chans |-> L.chans, own |-> L.own, ord |-> L.ord, use |-> L.use]
Dump == PrintT(ToJson(<<"CASE", [base |-> base, inner |-> innerMtu,
                                 layers |-> [i \in 1..Len(layers) |-> LayerJson(layers[i])],
                                 mtu |-> StackMtu(layers, innerMtu), hasask |-> HasAsk(layers),
                                 sizes |-> BoundarySizes(layers, innerMtu, CapFor)]>>))
=============================================================================
