SPECIFICATION Spec
CONSTANTS
  InnerMtus <- MtuSet
  Bases <- BaseVN
  TopLayers <- AllLayers
  LowLayers <- AllLayers
  Depth = 2
  SizeCap = 5300000
INVARIANTS Dump
CHECK_DEADLOCK FALSE
