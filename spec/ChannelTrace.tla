---------------------------- MODULE ChannelTrace ----------------------------
(***************************************************************************)
(* Trace specification binding Channel.tla to two real p2pke.Channel       *)
(* endpoints (harness/cmd/chanreplay).  One event per environment action:  *)
(* what Deliver/Send returned, every message the endpoints emitted, the    *)
(* projection of both channels (VerifSnapshot: slots, bound key), every    *)
(* AcceptKey query, the model's predicted projection, and, at the end, the *)
(* outcome of the settle phase (network reliable, all Sends must return).  *)
(* Operators are Channel.tla's property operators on REAL observations.    *)
(***************************************************************************)
EXTENDS Integers, Sequences, FiniteSets, TLC, Json, IOUtils

Log == ndJsonDeserialize(IOEnv.TRACE)
NShards == atoi(IOEnv.NSHARDS)

VARIABLES l, fresh, starts,
          accept,     \* [endpoint -> set of keys]
          snap,       \* [endpoint -> last projection]
          firstBound, \* [endpoint -> the first non-none bound key of the current incarnation, or "none"]
          got,        \* [endpoint -> set of data ids handed up in the current incarnation]
          sentIds     \* set of data ids given to Send (any endpoint)
tvars == <<l, fresh, starts, accept, snap, firstBound, got, sentIds>>

ToSet(s) == {s[i] : i \in 1..Len(s)}
Resets == {i \in 1..Len(Log) : Log[i].ev = "init"}
ComputeStarts == {1} \cup {CHOOSE i \in Resets : i >= c /\ \A j \in Resets : j >= c => i <= j :
                      c \in {c2 \in {(k * Len(Log)) \div NShards + 1 : k \in 1..(NShards - 1)} :
                                 \E i \in Resets : i >= c2}}
Ch == {"a", "b"}
Peer(c) == IF c = "a" THEN "b" ELSE "a"
NoSnap == [slots |-> <<>>, bound |-> "none", pending |-> 0, key |-> "-", gen |-> 0]

TraceInit ==
    /\ starts = ComputeStarts /\ l \in starts /\ fresh = TRUE
    /\ accept = [c \in Ch |-> {}] /\ snap = [c \in Ch |-> NoSnap]
    /\ firstBound = [c \in Ch |-> "none"] /\ got = [c \in Ch |-> {}] /\ sentIds = {}

Snap(ev, c) == IF c = "a" THEN ev.a ELSE ev.b
Exp(ev, c) == IF c = "a" THEN ev.expa ELSE ev.expb
Owner(id) == SubSeq(id, 1, 1)       \* data ids look like "a0.1": endpoint, incarnation, ordinal

\* ---- C05 ------------------------------------------------------------------------------------
OnlyAcceptedBoundP(A, sn, c) == sn.bound = "none" \/ sn.bound \in A[c]
\* every established (previous/current) session is with the bound key
SlotKeysP(sn) == \A i \in 1..Len(sn.slots) :
    (i <= 2 /\ sn.slots[i].p /\ sn.slots[i].ready) => sn.slots[i].rkey = sn.bound
ContinuityP(fb, sn) == fb = "none" \/ sn.bound = fb
\* a handshake presenting another key leaves the established session alone
UndisturbedP(ev, pre, post) ==
    (ev.ev = "deliver" /\ ev.mt = "IH" /\ pre.bound # "none" /\ ev.mkey # pre.bound /\ Len(pre.slots) = 3 /\ pre.slots[2].p)
        => (post.bound = pre.bound /\ post.slots[2].p /\ post.slots[2].id = pre.slots[2].id)

\* ---- the step -------------------------------------------------------------------------------
SnapDrift(sn, ex) ==
    \/ sn.bound # ex.bound
    \/ \E i \in 0..2 : LET r == sn.slots[i + 1]
                           e == ex.slots[ToString(i)]
                       IN r.p # e.p \/ (r.p /\ (r.init # e.init \/ r.ready # e.ready \/ r.rkey # e.rkey))
SlotsWellFormedP(sn) == /\ (sn.slots[1].p => sn.slots[1].ready) /\ (sn.slots[2].p => sn.slots[2].ready)
                        /\ (sn.slots[3].p => ~sn.slots[3].ready)

TraceNext ==
    /\ l <= Len(Log)
    /\ (fresh \/ l \notin starts)
    /\ fresh' = FALSE /\ starts' = starts /\ l' = l + 1
    /\ LET ev == Log[l] IN
       IF ev.ev = "init" THEN
           /\ accept' = [c \in Ch |-> IF c = "a" THEN ToSet(ev.acceptA) ELSE ToSet(ev.acceptB)]
           /\ snap' = [c \in Ch |-> NoSnap]
           /\ firstBound' = [c \in Ch |-> "none"] /\ got' = [c \in Ch |-> {}] /\ sentIds' = {}
       ELSE IF ev.ev = "skip" THEN UNCHANGED <<accept, snap, firstBound, got, sentIds>>
       ELSE IF ev.panic THEN
           /\ UNCHANGED <<accept, snap, firstBound, got, sentIds>>
           /\ PrintT(ToJson(<<"VIOL", l, ev.beh, {"NoPanic"}>>))
       ELSE IF ev.ev = "settle" THEN
           \* C07: both endpoints accept each other and are not bound to somebody else => all Sends return
           LET expected == /\ snap["a"].key \in accept["b"] /\ snap["b"].key \in accept["a"]
                           /\ snap["a"].bound \in {"none", snap["b"].key}
                           /\ snap["b"].bound \in {"none", snap["a"].key}
               vs == (IF expected /\ ~ev.ok /\ ev.stall_ms < 200
                      THEN (IF ev.kf THEN {"ConvergesKnownHopeless"} ELSE {"Converges"}) ELSE {})
                     \cup (IF ev.data = "?" THEN {"Authentic"} ELSE {})
           IN /\ UNCHANGED <<accept, snap, firstBound, got, sentIds>>
              /\ (vs # {}) => PrintT(ToJson(<<"VIOL", l, ev.beh, vs>>))
       ELSE
           LET c == ev.c
               restart == ev.ev = "restart"
               fb2 == [x \in Ch |-> IF restart /\ x = "a" THEN "none"
                                    ELSE IF firstBound[x] = "none" THEN Snap(ev, x).bound ELSE firstBound[x]]
               got0 == IF restart THEN [got EXCEPT !["a"] = {}] ELSE got
               isApp == ev.ev = "deliver" /\ ev.app
               sent2 == sentIds \cup ToSet(ev.sent)
               vs ==
                   (IF \E x \in Ch : ~OnlyAcceptedBoundP(accept, Snap(ev, x), x) THEN {"OnlyAcceptedReady"} ELSE {})
                   \cup (IF isApp /\ ~(Snap(ev, c).bound \in accept[c]) THEN {"OnlyAcceptedData"} ELSE {})
                   \cup (IF \E i \in 1..Len(ev.sent) : ~(ev.sentkey[i] \in accept[Owner(ev.sent[i])])
                         THEN {"OnlyAcceptedSend"} ELSE {})
                   \cup (IF \E x \in Ch : ~restart /\ ~ContinuityP(firstBound[x], Snap(ev, x)) THEN {"Continuity"} ELSE {})
                   \cup (IF \E x \in Ch : ~SlotKeysP(Snap(ev, x)) THEN {"Continuity"} ELSE {})
                   \cup (IF ~restart /\ ~UndisturbedP(ev, snap[c], Snap(ev, c)) THEN {"Undisturbed"} ELSE {})
                   \cup (IF isApp /\ ev.data \in got0[c] THEN {"AtMostOnce"} ELSE {})
                   \cup (IF isApp /\ (ev.data = "?" \/ (ev.data # "?" /\ Owner(ev.data) # Peer(c))) THEN {"Authentic"} ELSE {})
               drift == \/ (ev.valid /\ \E x \in Ch : SnapDrift(Snap(ev, x), Exp(ev, x)))
                        \/ \E x \in Ch : ~SlotsWellFormedP(Snap(ev, x))
           IN /\ accept' = accept
              /\ snap' = [x \in Ch |-> Snap(ev, x)]
              /\ firstBound' = fb2
              /\ got' = IF isApp THEN [got0 EXCEPT ![c] = @ \cup {ev.data}] ELSE got0
              /\ sentIds' = sent2
              /\ (vs # {}) => PrintT(ToJson(<<"VIOL", l, ev.beh, vs>>))
              /\ drift => PrintT(ToJson(<<"DRIFT", l, ev.beh, ev.ev>>))

TraceSpec == TraceInit /\ [][TraceNext]_tvars
AllConsumed == TLCGet("distinct") >= Len(Log) + 1
=============================================================================
