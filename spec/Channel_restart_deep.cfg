SPECIFICATION FairSpec
CONSTANTS
  MaxS = 5
  MaxRestart = 1
  MaxRekey = 0
  MaxSendCalls = 2
  AcceptA = {"A", "B", "M"}
  AcceptB = {"A", "B", "M"}
  RestartKeys = {"A"}
  Eager = FALSE
INVARIANTS SlotsWellFormed OnlyAccepted Continuity AtMostOnceP
PROPERTIES Undisturbed Converges
CHECK_DEADLOCK FALSE
