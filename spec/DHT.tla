-------------------------------- MODULE DHT --------------------------------
(***************************************************************************)
(* Implementation-shaped specification of the iterative DHT operations of   *)
(* /repo/p/kademlia/dht.go: dhtIterate and DHTFindNode / DHTJoin / DHTGet / *)
(* DHTPut (C20).                                                            *)
(*                                                                          *)
(* Nodes are small naturals.  The operations use peer ids only through      *)
(* equality and DistanceLt(key, a, b), so a case fixes a distance function  *)
(* dist: node m is at distance dist[m + 1] from the target/key.  With a     *)
(* 32-byte key/target distinct ids have distinct distances (dist is the     *)
(* identity; node 0 is the node whose id equals the target).  DHTGet and    *)
(* DHTPut take arbitrary keys: with a key SHORTER than a peer id only the   *)
(* first len(key) bytes are compared and distinct peers can TIE (dist is    *)
(* not injective).  None (-1) is Go's zero PeerID ("no node").              *)
(*                                                                          *)
(* The adversary chooses what every contacted node answers: a peer list     *)
(* (any sequence over the universe: cyclic, self-referential, duplicated,   *)
(* farther, or naming nodes that then fail = fabricated ids), whether the   *)
(* Ask fails, whether a put is accepted, and which value a get returns      *)
(* (value classes: 0 nil, 1 a well-formed value, 2 a malformed one, 3 an    *)
(* empty but non-nil one, 4 well-formed bytes shared by several nodes); the *)
(* case also fixes the caller's Validate (vmode: 0 accept all, 1 reject     *)
(* malformed, 2 reject malformed and empty, 3 reject everything).           *)
(*                                                                          *)
(* The whole operation is a deterministic function of that choice; it is    *)
(* written as a step function over one record (Step), so that               *)
(*   - TLC explores it as a state machine (Next: one loop iteration of      *)
(*     dhtIterate per step, adversary choice existentially quantified),     *)
(*   - Run iterates it to completion for a given topology (DHTGen, DHTTrace)*)
(* The property operators (suffix P) mention only observables: the sequence *)
(* of Ask invocations, the result struct, the error, and the oracle's       *)
(* knowledge of what each contacted node answered.                          *)
(*                                                                          *)
(* Orig = TRUE models the code before the repairs of F30, F31, F32 (used by *)
(* the anti-vacuity self-test only: the operators must fail on it).         *)
(***************************************************************************)
EXTENDS Integers, Sequences, FiniteSets, TLC

CONSTANTS
    N,          \* universe 0..N-1
    Ops,        \* subset of {"findnode", "join", "get", "put"}
    Initials,   \* set of sequences over Nodes: params.Initial (duplicates allowed)
    Replies,    \* set of sequences over Nodes an adversarial responder may return
    Mins,       \* values of params.MinAccepted (put)
    Dists,      \* distance functions (sequences of length N) used for get / put besides the identity
    ValClasses, \* value classes a get responder may return (subset of 0..4)
    VModes,     \* Validate functions the caller of get may pass (subset of 0..3)
    Orig        \* BOOLEAN: model the unrepaired code

VARIABLE st     \* the record described at Start

Nodes == 0..(N - 1)
None == -1
Target == 0

Min2(a, b) == IF a < b THEN a ELSE b
Max2(a, b) == IF a > b THEN a ELSE b
ToSet(s) == {s[i] : i \in 1..Len(s)}
InSeq(s, x) == \E i \in 1..Len(s) : s[i] = x

\* distance of node m under the distance function D (ids outside D are farther than everything)
DOf(D, m) == IF (m + 1) \in DOMAIN D THEN D[m + 1] ELSE 1000 + m
IdDist(n) == [i \in 1..n |-> i - 1]

\* DistanceLt(key, a, b)
Lt(D, a, b) == DOf(D, a) < DOf(D, b)

\* slices.SortFunc(nodes, DistanceLt(key, a, b))          dht.go:212
\* Up to 12 elements pdqsort is an insertion sort, which is STABLE: peers that tie keep their order
\* (longer queues with ties may be ordered differently by the real code: drift at most).
RECURSIVE ByDist(_, _)
ByDist(q, D) ==
    IF q = <<>> THEN <<>>
    ELSE LET i == CHOOSE i \in 1..Len(q) :
                      (\A j \in 1..Len(q) : DOf(D, q[i]) <= DOf(D, q[j])) /\ (\A k \in 1..(i - 1) : DOf(D, q[k]) > DOf(D, q[i]))
         IN <<q[i]>> \o ByDist(SubSeq(q, 1, i - 1) \o SubSeq(q, i + 1, Len(q)), D)

-----------------------------------------------------------------------------
(* Responders *)

NoResp == [reply |-> <<>>, fail |-> TRUE, accept |-> FALSE, val |-> 0]

\* n passed to dhtIterate                                  dht.go:31, 75, 120, 178
Width(op, init) ==
    CASE op = "findnode" -> 10
      [] op = "get" -> 3
      [] op = "join" -> IF Orig THEN Len(init) ELSE Max2(Len(init), 1)
      [] op = "put" -> IF Orig THEN (Len(init) * 3) \div 2 ELSE Max2((Len(init) * 3) \div 2, 1)

\* MinAccepted < 1 => 2                                    dht.go:167
EffMin(min) == IF min < 1 THEN 2 ELSE min

\* params.Validate(value) for a value of class val (nil is never offered to Validate)
Accepts(vmode, val) ==
    /\ val # 0
    /\ CASE vmode = 0 -> TRUE
         [] vmode = 1 -> val \in {1, 3, 4}
         [] vmode = 2 -> val \in {1, 4}
         [] OTHER -> FALSE

Start(op, init, min, vmode, dist) ==
    LET n == Width(op, init) IN
    [op |-> op, min |-> min, vmode |-> vmode, dist |-> dist, n |-> n,
     pc |-> IF n < 1 THEN "panic" ELSE "iter",      \* dht.go:205  if n < 1 { panic(n) }
     queue |-> init,                                \* nodes
     visited |-> {},                                \* ids already handed to fn
     order |-> <<>>,                                \* OBSERVABLE: Ask invocations in order
     info |-> <<>>,                                 \* ORACLE: asked node -> [fail, accept, val] it answered
     tk |-> InSeq(init, Target),                    \* ORACLE: the target's id was learned (initial or a validated reply)
     closest |-> None, contacted |-> 0, responded |-> 0, accepted |-> 0,
     from |-> None, added |-> 0, addset |-> {},     \* result accumulators
     err |-> FALSE,
     steps |-> 0]

Ask(s, node, r) ==
    [s EXCEPT !.order = Append(@, node),
              !.info = (node :> [fail |-> r.fail, accept |-> r.accept, val |-> r.val]) @@ @]

FNClosest(s, node) == IF s.closest = None \/ Lt(s.dist, node, s.closest) THEN node ELSE s.closest

\* DHTFindNode's callback                                  dht.go:31-55
CbFindNode(s, node, r, bad) ==
    LET c == FNClosest(s, node)
        s1 == [s EXCEPT !.closest = c]
    IN IF c = Target THEN [s |-> s1, new |-> <<>>, cont |-> FALSE]
       ELSE LET s2 == Ask(s1, node, r) IN
            IF r.fail THEN [s |-> s2, new |-> <<>>, cont |-> TRUE]
            ELSE LET nodes2 == SelectSeq(r.reply, LAMBDA x : x \notin bad)      \* params.Validate
                 IN [s |-> [s2 EXCEPT !.contacted = @ + 1, !.tk = @ \/ InSeq(nodes2, Target)],
                     new |-> nodes2, cont |-> TRUE]

\* DHTJoin's callback (AddPeer reports whether the id is new) dht.go:75-87
CbJoin(s, node, r) ==
    LET s1 == [s EXCEPT !.added = IF node \in s.addset THEN @ ELSE @ + 1, !.addset = @ \cup {node}]
        s2 == Ask(s1, node, r)
    IN [s |-> s2, new |-> IF r.fail THEN <<>> ELSE r.reply, cont |-> TRUE]

\* DHTGet's callback                                       dht.go:120-139
CbGet(s, node, r) ==
    IF s.from # None /\ Lt(s.dist, s.from, node) THEN [s |-> s, new |-> <<>>, cont |-> FALSE]
    ELSE LET s1 == Ask([s EXCEPT !.contacted = @ + 1], node, r) IN
         IF r.fail THEN [s |-> s1, new |-> <<>>, cont |-> TRUE]
         ELSE LET c == IF Orig THEN node        \* F31: the last responder
                       ELSE IF s.closest = None \/ Lt(s.dist, node, s.closest) THEN node ELSE s.closest
                  s2 == [s1 EXCEPT !.responded = @ + 1, !.closest = c,
                                   \* resp.Value != nil && params.Validate(resp.Value)
                                   !.from = IF Accepts(s.vmode, r.val) THEN node ELSE @]
              IN [s |-> s2, new |-> r.reply, cont |-> TRUE]

\* DHTPut's callback                                       dht.go:178-192
CbPut(s, node, r) ==
    LET s1 == Ask([s EXCEPT !.contacted = @ + 1], node, r) IN
    IF r.fail THEN [s |-> s1, new |-> <<>>, cont |-> TRUE]
    ELSE LET s2 == [s1 EXCEPT !.responded = @ + 1] IN
         IF ~r.accept THEN [s |-> s2, new |-> r.reply, cont |-> TRUE]
         ELSE [s |-> [s2 EXCEPT !.accepted = @ + 1,
                                \* (the unrepaired code compared with the zero id, whose distance the
                                \*  model does not represent: Orig keeps the repaired comparison here)
                                !.closest = IF @ = None \/ Lt(s.dist, node, @) THEN node ELSE @],
               new |-> r.reply, cont |-> TRUE]

Callback(s, node, r, bad) ==
    CASE s.op = "findnode" -> CbFindNode(s, node, r, bad)
      [] s.op = "join" -> CbJoin(s, node, r)
      [] s.op = "get" -> CbGet(s, node, r)
      [] s.op = "put" -> CbPut(s, node, r)

\* the admission loop                                      dht.go:229-242
RECURSIVE Admit(_, _, _, _, _)
Admit(q, node, new, vis, D) ==
    IF new = <<>> THEN q
    ELSE LET x == Head(new) IN
         Admit(IF /\ Lt(D, x, node)       \* only strictly closer peers
                  /\ x \notin vis         \* never a peer that was contacted already (repair of F30)
                  /\ ~InSeq(q, x)         \* contains(nodes, newNode)
               THEN Append(q, x) ELSE q,
               node, Tail(new), vis, D)

\* what follows the loop in each operation                 dht.go:56, 88, 141, 193
Finish(s) ==
    [s EXCEPT !.pc = "done", !.steps = @ + 1, !.queue = <<>>,
              !.err = CASE s.op = "findnode" -> s.closest # Target
                        [] s.op = "join" -> FALSE
                        [] s.op = "get" -> s.from = None
                        [] s.op = "put" -> s.accepted < EffMin(s.min)]

NextNode(s) == ByDist(s.queue, s.dist)[1]

\* will the next loop iteration invoke Ask?
WillAsk(s) ==
    /\ s.queue # <<>>
    /\ LET node == NextNode(s) IN
       /\ (Orig \/ node \notin s.visited)
       /\ CASE s.op = "findnode" -> FNClosest(s, node) # Target
            [] s.op = "get" -> ~(s.from # None /\ Lt(s.dist, s.from, node))
            [] OTHER -> TRUE

\* one iteration of `for len(nodes) > 0` (or the code after the loop)
Step(s, r, bad) ==
    IF s.queue = <<>> THEN Finish(s)
    ELSE LET q1 == ByDist(s.queue, s.dist)                              \* :212 sort (stable)
             q2 == IF Len(q1) > s.n THEN SubSeq(q1, 1, s.n) ELSE q1     \* :215 truncate to n
             node == q2[1]                                              \* :219 pop: swaps the first and the last
             rest == IF Len(q2) = 1 THEN <<>>                           \*      element and takes the nearest
                     ELSE <<q2[Len(q2)]>> \o SubSeq(q2, 2, Len(q2) - 1)
             s0 == [s EXCEPT !.queue = rest, !.steps = @ + 1]
         IN IF ~Orig /\ node \in s.visited THEN s0                      \* :220 duplicate of a contacted peer: skip
            ELSE LET s1 == [s0 EXCEPT !.visited = @ \cup {node}]
                     cb == Callback(s1, node, r, bad)
                 IN IF ~cb.cont THEN Finish(cb.s)                       \* :226 break
                    ELSE [cb.s EXCEPT !.queue =
                             Admit(rest, node, cb.new, IF Orig THEN {} ELSE cb.s.visited, s.dist)]

\* the topology T is a function from (some) node ids to responder records
RespOf(T, m) == IF m \in DOMAIN T THEN T[m] ELSE NoResp

RECURSIVE Run(_, _, _)
Run(s, T, bad) ==
    IF s.pc # "iter" THEN s
    ELSE Run(Step(s, IF s.queue = <<>> THEN NoResp ELSE RespOf(T, NextNode(s)), bad), T, bad)

Res(s) == [closest |-> s.closest, contacted |-> s.contacted, responded |-> s.responded,
           accepted |-> s.accepted, from |-> s.from, hasval |-> s.from # None, valok |-> s.from # None,
           valsrc |-> IF s.from = None THEN {} ELSE {s.from}, added |-> s.added]

-----------------------------------------------------------------------------
(* Property operators over observables (C20) *)

Asked(order) == ToSet(order)
Responded(order, T) == {m \in Asked(order) : ~T[m].fail}
Accepting(order, T) == {m \in Responded(order, T) : T[m].accept}
\* x is (one of) the nearest of S; None for the empty set
IsNearest(D, x, S) == IF S = {} THEN x = None ELSE x \in S /\ \A y \in S : DOf(D, x) <= DOf(D, y)

\* each distinct node is contacted at most once
AtMostOnceP(order) == \A i, j \in 1..Len(order) : i # j => order[i] # order[j]

\* the operation ended (the harness stops a run after 10x |universe| contacts)
TerminatesP(nonterm) == ~nonterm

\* the reported closest node is the nearest among those contacted.  Both readings are accepted:
\* nearest among the nodes Ask was invoked on, or among those that answered (for put also: among
\* those that accepted); find-node may in addition report the target itself once its id was learned
\* (it stops there without asking it).
ClosestTruthfulP(op, D, order, T, tk, res) ==
    IF op = "join" THEN TRUE
    ELSE LET base == {Asked(order), Responded(order, T)}
                        \cup (IF op = "put" THEN {Accepting(order, T)} ELSE {})
             sets == base \cup (IF op = "findnode" /\ tk THEN {S \cup {Target} : S \in base} ELSE {})
         IN \E S \in sets : IsNearest(D, res.closest, S)

\* a returned value came from a contacted node and passed validation:
\*  - the bytes returned are bytes the node reported as From served (valsrc: the contacted nodes whose
\*    answer carried exactly these bytes), and From answered;
\*  - the caller's Validate accepts exactly these bytes (valok: ground truth, evaluated on the bytes by
\*    the harness; in the model: a value is only ever taken from an accepted answer), and the class of
\*    what From served is one the case's Validate accepts;
\*  - From is set exactly when a value is reported (a rejected answer never sets From, which is what
\*    arms the early exit), and success means a value is reported.
ValueFromContactedP(op, vmode, order, T, res, err) ==
    op = "get" =>
        /\ res.hasval => /\ res.from \in Responded(order, T)
                         /\ res.from \in res.valsrc
                         /\ res.valok
                         /\ Accepts(vmode, T[res.from].val)
        /\ (res.from # None) <=> res.hasval
        /\ ~err => res.hasval

\* the accepted count is the number of distinct nodes that accepted
AcceptedDistinctP(op, order, T, res) ==
    op = "put" => res.accepted = Cardinality(Accepting(order, T))

\* ... with an error exactly when that number is below the required minimum
ErrIffBelowMinP(op, min, order, T, err) ==
    op = "put" => (err <=> Cardinality(Accepting(order, T)) < EffMin(min))

NoPanicP(panic) == ~panic

\* names of the operators that are false on a finished run
Falsified(op, min, vmode, D, order, T, tk, res, err, panic, nonterm) ==
    IF panic THEN {"NoPanic"}
    ELSE IF nonterm THEN {"Terminates"} \cup (IF AtMostOnceP(order) THEN {} ELSE {"AtMostOnce"})
    ELSE {n \in {"AtMostOnce", "ClosestTruthful", "ValueFromContacted", "AcceptedDistinct", "ErrIffBelowMin"} :
            CASE n = "AtMostOnce" -> ~AtMostOnceP(order)
              [] n = "ClosestTruthful" -> ~ClosestTruthfulP(op, D, order, T, tk, res)
              [] n = "ValueFromContacted" -> ~ValueFromContactedP(op, vmode, order, T, res, err)
              [] n = "AcceptedDistinct" -> ~AcceptedDistinctP(op, order, T, res)
              [] n = "ErrIffBelowMin" -> ~ErrIffBelowMinP(op, min, order, T, err)}

-----------------------------------------------------------------------------
(* The state machine explored by TLC *)

Responders(op) ==
    {NoResp} \cup
    [reply : Replies, fail : {FALSE},
     accept : IF op = "put" THEN BOOLEAN ELSE {FALSE},
     val : IF op = "get" THEN ValClasses ELSE {0}]

Init == \E op \in Ops, init \in Initials :
            \E min \in (IF op = "put" THEN Mins ELSE {0}), vm \in (IF op = "get" THEN VModes ELSE {0}),
               d \in ({IdDist(N)} \cup (IF op \in {"get", "put"} THEN Dists ELSE {})) :
                st = Start(op, init, min, vm, d)

Iterate == /\ st.pc = "iter"
           /\ IF WillAsk(st) THEN \E r \in Responders(st.op) : st' = Step(st, r, {})
                             ELSE st' = Step(st, NoResp, {})
Stop == st.pc # "iter" /\ UNCHANGED st
Next == Iterate \/ Stop
Spec == Init /\ [][Next]_st

Done == st.pc = "done"

\* invariants
AtMostOnce == AtMostOnceP(st.order)
NoPanic == NoPanicP(st.pc = "panic")
\* Terminates: `steps` grows with every step that is not Stop, no state with pc = "iter" is a
\* deadlock (CHECK_DEADLOCK is on; Stop is enabled only when pc # "iter"), and steps is bounded:
\* every behaviour reaches pc # "iter" within the bound.
MaxInit == IF Initials = {} THEN 0 ELSE CHOOSE k \in 0..100 : (\A i \in Initials : Len(i) <= k) /\ (\E i \in Initials : Len(i) = k)
Terminates == /\ st.steps <= N + MaxInit + 1
              /\ Len(st.order) <= N
ClosestTruthful == Done => ClosestTruthfulP(st.op, st.dist, st.order, st.info, st.tk, Res(st))
ValueFromContacted == Done => ValueFromContactedP(st.op, st.vmode, st.order, st.info, Res(st), st.err)
AcceptedDistinct == Done => AcceptedDistinctP(st.op, st.order, st.info, Res(st))
ErrIffBelowMin == Done => ErrIffBelowMinP(st.op, st.min, st.order, st.info, st.err)
=============================================================================
