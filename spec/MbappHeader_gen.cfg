SPECIFICATION Spec
CONSTANTS
  W = 32
  IW = 40
  AllBits = FALSE
  AllValues = FALSE
INVARIANTS LayoutLaws UnusedKept Dump
CHECK_DEADLOCK FALSE
