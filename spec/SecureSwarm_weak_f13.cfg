SPECIFICATION Spec
CONSTANTS
  Kinds <- OnlySSH
  WLA <- OnlyAll
  WLB <- OnlyAll
  Weak <- WeakF13
  MaxConn = 1
  MaxSend = 1
  MaxAdv = 3
  CacheMax = 16
  Asks = {FALSE}
INVARIANTS Attribution
CHECK_DEADLOCK FALSE
