--------------------------- MODULE KeMessageTrace ---------------------------
(* Binds KeMessage.tla to the real p2pke package: each log line (wirereplay -mode ke) is one executed   *)
(* case: "ctr" (SetNonce / GetNonce / newMessage / HeaderBytes / Body, the Is* predicates, and what a    *)
(* fresh responder and a fresh initiator Session.Deliver did with the message), "short" (messages of     *)
(* fewer than 4 bytes), "alias" (append to HeaderBytes() and Body() inside a larger buffer), "sig"       *)
(* (sign under one purpose / message / key, verify under another), "claim" (makeChannelAuthClaim ->      *)
(* verifyAuthClaim).  VIOL: a law is false on the observation.  DRIFT: differs from the as-coded model.  *)
EXTENDS Integers, Sequences, FiniteSets, TLC, Json, IOUtils

KM == INSTANCE KeMessage WITH B <- 256, HW <- 4, Counters <- {}, BLens <- {}, Alphabet <- {1}, c <- 0

Log == ndJsonDeserialize(IOEnv.TRACE)
VARIABLES l

Viol(ev) ==
    IF ev.panic THEN {"NoPanic"} ELSE
    CASE ev.kind = "ctr" ->
           {n \in {"CounterRoundTrip", "Classify", "Dispatch", "ShortIsError"} :
               CASE n = "CounterRoundTrip" -> ~KM!CounterRoundTripP(ev.c, ev.got, ev.nm, ev.hb, ev.bodyok)
                 [] n = "Classify" -> ~KM!ClassifyP(ev.c, ev.isih, ev.isrh, ev.ish, ev.isph)
                 [] n = "Dispatch" -> ~KM!DispatchP(ev.c, ev.dresp, ev.dinit)
                 [] n = "ShortIsError" -> ev.parseerr}
      [] ev.kind = "short" ->
           {n \in {"ShortIsError", "ShortNeverClassified"} :
               CASE n = "ShortIsError" -> ~KM!ShortIsErrorP(ev.n, ev.parseerr)
                 [] n = "ShortNeverClassified" -> ~KM!ShortNeverClassifiedP(ev.n, ev.isih, ev.isrh, ev.ish, ev.isph, ev.dresp, ev.dinit)}
      [] ev.kind = "alias" -> {n \in {"NoAlias"} : ev.parseerr \/ ~KM!NoAliasP(ev.hdralias, ev.bodyalias, ev.hdrlen, ev.bodylen, ev.n)}
      [] ev.kind = "sig" -> {n \in {"PurposeBinding"} :
                                ~KM!PurposeBindingP(ev.ps = ev.pv /\ ev.ms = ev.mv /\ ev.ks = ev.kv, ev.plen, ev.serr, ev.verr)}
      [] ev.kind = "claim" -> {n \in {"Claim"} : ~KM!ClaimP(ev.pv, ev.mut, ev.verr, ev.keyeq)}
      [] OTHER -> {}

Drift(ev) ==
    IF ev.panic \/ ev.kind # "ctr" \/ ev.parseerr THEN {} ELSE
    {n \in {"IsPredicates", "Dispatch"} :
        CASE n = "IsPredicates" -> <<ev.isih, ev.isrh, ev.isph>> # <<KM!IsInitHello(ev.c), KM!IsRespHello(ev.c), KM!IsPostHandshake(ev.c)>>
          [] n = "Dispatch" -> KM!IsHs(ev.dresp) # (KM!Dispatch(ev.c) = "handshake")}

TraceInit == l = 1
TraceNext == /\ l <= Len(Log)
             /\ l' = l + 1
             /\ LET vs == Viol(Log[l]) IN (vs # {}) => PrintT(ToJson(<<"VIOL", l, Log[l].id, vs>>))
             /\ LET ds == Drift(Log[l]) IN (ds # {}) => PrintT(ToJson(<<"DRIFT", l, Log[l].id, ds>>))
TraceSpec == TraceInit /\ [][TraceNext]_l
AllConsumed == TLCGet("distinct") >= Len(Log) + 1
=============================================================================
