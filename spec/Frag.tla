-------------------------------- MODULE Frag --------------------------------
(***************************************************************************)
(* The two reassembly layers of go-p2p as coded (C10):                     *)
(*   Layer = "frag"  : s/fragswarm/fragswarm.go  (8-bit part/total header, *)
(*                     aggregator map keyed by (src, id), parts slice sized*)
(*                     by the first packet, cleanup loop)                   *)
(*   Layer = "mbapp" : p/mbapp/swarm.go send + p/mbapp/fragment.go         *)
(*                     (24-byte header, 16-bit part index/count, collector *)
(*                     with bitmap, last-part offset len(buf)-len(data))   *)
(*                                                                         *)
(* A message is a sequence of BLOCKS with unique content <<src, msg, off>>. *)
(* Sizes are counted in blocks: PartCap is the number of blocks that fit    *)
(* one inner packet (underMTU resp. partSize).  The part arithmetic is the  *)
(* coded arithmetic over integers (ceil division, uint8/uint16 truncation). *)
(* The network is a SET of fragments from which the receive workers pick:   *)
(* loss, duplication, delay and reordering come for free.  All messages are *)
(* told in Init: because receiving is optional this is w.l.o.g. for safety. *)
(*                                                                         *)
(* One action per critical section of the receiver; Workers receive         *)
(* concurrently (recvLoops).  Aggregators / collectors are heap objects     *)
(* with identity: a worker may still hold one that was deleted from the map.*)
(***************************************************************************)
EXTENDS Integers, Sequences, FiniteSets, TLC

CONSTANTS
    Layer,        \* "frag" or "mbapp"
    Sources,      \* set of source ids (positive integers)
    MsgLens,      \* [Sources -> Seq(Nat)] lengths (in blocks) of the messages each source tells, in order
    PartCap,      \* blocks per inner packet
    LayerMtu,     \* configured MTU of the layer in blocks (mbapp drops fragments announcing more)
    Workers,      \* set of receive-worker ids
    WithCleanup   \* BOOLEAN: include the cleanup loop

Nil == <<"nil">>
NoPart == [has |-> FALSE, data |-> <<>>]
Zero == <<0, 0, 0>>                 \* a byte range of a collector buffer never written (make([]byte, n))

U8(x) == x % 256
U16(x) == x % 65536
Min(a, b) == IF a < b THEN a ELSE b

---------------------------------------------------------------------------
(* Messages and their content *)
Msgs == UNION {{<<s, k>> : k \in 1..Len(MsgLens[s])} : s \in Sources}
LenOf(m) == MsgLens[m[1]][m[2]]
BlocksOf(m) == [i \in 1..LenOf(m) |-> <<m[1], m[2], i - 1>>]
Slice(sq, from, to) == [i \in 1..(to - from) |-> sq[from + i]]     \* sq[from:to], 0-based half-open as in Go

---------------------------------------------------------------------------
(* Sender side, exactly as coded *)

\* fragswarm.go:55-96 Tell.  id = msgIDs[dst]++ (starts at 0): message k of a source carries id k-1.
FragTotal(size, under) ==
    LET t0 == size \div under
        t1 == IF size % under > 0 THEN t0 + 1 ELSE t0
    IN IF t1 = 0 THEN 1 ELSE t1
FragSend(m) ==
    LET size == LenOf(m)
        data == BlocksOf(m)
        total == FragTotal(size, PartCap)
        id == m[2] - 1
    IN IF total = 1
       THEN {[src |-> m[1], id |-> id, part |-> 0, total |-> 1, size |-> size, data |-> data]}
       ELSE {LET start == PartCap * part
                 end == IF start + PartCap < size THEN start + PartCap ELSE size
             IN [src |-> m[1], id |-> id, part |-> U8(part), total |-> U8(total), size |-> size,
                 data |-> Slice(data, start, end)] : part \in 0..(total - 1)}

\* mbapp/swarm.go:262-309 send.  GroupID = (originTime, counter); counter = atomic add, starts at 1.
MbPartCount(totalSize, partSize) ==
    LET c == totalSize \div partSize
    IN IF partSize * c < totalSize THEN c + 1 ELSE c
MbSend(m) ==
    LET totalSize == LenOf(m)
        whole == BlocksOf(m)
        partCount == MbPartCount(totalSize, PartCap)
        gid == m[2]
    IN IF partCount < 2
       THEN {[src |-> m[1], id |-> gid, part |-> 0, total |-> U16(partCount), size |-> totalSize, data |-> whole]}
       ELSE {LET start == i * PartCap
                 end == IF (i + 1) * PartCap > Len(whole) THEN Len(whole) ELSE (i + 1) * PartCap
             IN [src |-> m[1], id |-> gid, part |-> U16(i), total |-> U16(partCount), size |-> totalSize,
                 data |-> Slice(whole, start, end)] : i \in 0..(partCount - 1)}

Send(m) == IF Layer = "frag" THEN FragSend(m) ELSE MbSend(m)
AllFrags == UNION {Send(m) : m \in Msgs}
\* number of fragments the coded sender produces (used by the generator and the trace spec)
NFrags(len, cap, layer) == IF layer = "frag" THEN FragTotal(len, cap)
                           ELSE LET c == MbPartCount(len, cap) IN IF c < 2 THEN 1 ELSE c

---------------------------------------------------------------------------
(* Property operators over observables: the ledger of told messages (set of <<src, msg>> with a  *)
(* length function), the set of fragments <<src, msg, idx>> handed to the receiver so far, and a  *)
(* delivery d = [src |-> attributed source, blocks |-> sequence of blocks].                        *)

\* every delivered payload is exactly one of the payloads told by the source it is attributed to
NoInventionP(told, lenOf(_), d) ==
    \E m \in told : /\ m[1] = d.src
                    /\ Len(d.blocks) = lenOf(m)
                    /\ \A i \in 1..Len(d.blocks) : d.blocks[i] = <<m[1], m[2], i - 1>>
\* a message with missing fragments is never delivered: every message any of whose content appears
\* in the delivery had all its fragments received before
MsgsIn(d) == {<<d.blocks[i][1], d.blocks[i][2]>> : i \in 1..Len(d.blocks)}
\* the same on content alone: whatever message contributes content contributes all of its blocks
NoHoleP(told, lenOf(_), d) ==
    LET bs == {d.blocks[i] : i \in 1..Len(d.blocks)}
    IN \A m \in {<<b[1], b[2]>> : b \in bs} \cap told : \A o \in 0..(lenOf(m) - 1) : <<m[1], m[2], o>> \in bs
NoPartialP(told, nfrags(_), fed, d) ==
    \A m \in MsgsIn(d) \cap told : \A i \in 0..(nfrags(m) - 1) : <<m[1], m[2], i>> \in fed

---------------------------------------------------------------------------
VARIABLES
    net,        \* set of fragments in flight (never shrinks: duplication)
    amap,       \* map key <<src, id>> -> object id           (s.aggs / fl.collectors)
    heap,       \* object id -> aggregator / collector state
    wk,         \* worker -> [pc, f, o]
    bad,        \* history: names of the property operators falsified by some delivery so far
    last        \* history: the first delivery that falsified one (NoDelivery if none)
vars == <<net, amap, heap, wk, bad, last>>

NoDelivery == [src |-> 0, blocks |-> <<>>]
NoObj == <<>>
Idle == [pc |-> "idle", f |-> Nil, o |-> NoObj]

\* abstract identity <<src, msg, idx>> of an honest fragment (its position among the sender's fragments)
FragId(f) == <<f.src, IF Layer = "frag" THEN f.id + 1 ELSE f.id, f.part>>
NFragsOf(m) == NFrags(LenOf(m), PartCap, Layer)

Init ==
    /\ net = AllFrags
    /\ amap = <<>>
    /\ heap = <<>>
    /\ wk = [w \in Workers |-> Idle]
    /\ bad = {} /\ last = NoDelivery

\* object identity = <<key, n>>, n the smallest number not in use for that key (canonical: no
\* permutations of identities across keys)
Live == {amap[k] : k \in DOMAIN amap} \cup {wk[w].o : w \in Workers}
Fresh(k) == LET n == CHOOSE i \in 0..Cardinality(Workers) : <<k, i>> \notin Live /\ \A j \in 0..(i - 1) : <<k, j>> \in Live
            IN <<k, n>>
\* drop heap cells nobody references (canonical form)
Gc(h, am, ws) == LET live == {am[k] : k \in DOMAIN am} \cup {ws[w].o : w \in Workers}
                 IN [i \in (DOMAIN h) \cap live |-> h[i]]
Without(fn, k) == [x \in (DOMAIN fn) \ {k} |-> fn[x]]

\* tells.Deliver / withBuffer(fn): the property operators are evaluated on the delivery itself
\* (a set of all deliveries would multiply the state space by its power set)
Deliver(src, blocks) ==
    LET d == [src |-> src, blocks |-> blocks]
        v == (IF NoInventionP(Msgs, LenOf, d) THEN {} ELSE {"NoInvention"}) \cup
             (IF NoHoleP(Msgs, LenOf, d) THEN {} ELSE {"NoPartial"})
    IN /\ bad' = bad \cup v
       /\ last' = IF v # {} /\ last = NoDelivery THEN d ELSE last

Key(f) == <<f.src, f.id>>

---------------------------------------------------------------------------
(* fragswarm receiver *)

\* fragswarm.go:104 recvLoops callback + :123 handleTell up to the map access.
\* parseMessage (:243): part and total are uint8, "part >= total" is refused.
FRecv(w, f) ==
    /\ Layer = "frag" /\ wk[w].pc = "idle" /\ f \in net
    /\ IF f.part >= f.total
       THEN UNCHANGED <<wk, bad, last>>                                  \* parse error, logged
       ELSE IF f.total = 1
            THEN /\ Deliver(f.src, f.data)                              \* :130 single part: no aggregator
                 /\ UNCHANGED wk
            ELSE /\ wk' = [wk EXCEPT ![w] = [pc |-> "got", f |-> f, o |-> NoObj]]
                 /\ UNCHANGED <<bad, last>>
    /\ UNCHANGED <<net, amap, heap>>

\* :138-144  s.mu: look the aggregator up or create it
FGetAgg(w) ==
    /\ Layer = "frag" /\ wk[w].pc = "got"
    /\ LET k == Key(wk[w].f) IN
       IF k \in DOMAIN amap
       THEN /\ wk' = [wk EXCEPT ![w].pc = "have", ![w].o = amap[k]]
            /\ UNCHANGED <<amap, heap>>
       ELSE LET o == Fresh(k) IN
            /\ amap' = [x \in (DOMAIN amap) \cup {k} |-> IF x = k THEN o ELSE amap[x]]
            /\ heap' = [x \in (DOMAIN heap) \cup {o} |-> IF x = o THEN [alloc |-> FALSE, parts |-> <<>>] ELSE heap[x]]
            /\ wk' = [wk EXCEPT ![w].pc = "have", ![w].o = o]
    /\ UNCHANGED <<net, bad, last>>

\* :207-220 aggregator.addPart under agg.mu.  parts is sized by the FIRST packet's total;
\* an index outside it is dropped (bounds check; without it the real code panics, F05).
FAddPart(w) ==
    /\ Layer = "frag" /\ wk[w].pc = "have"
    /\ LET f == wk[w].f
           o == wk[w].o
           a0 == heap[o]
           a1 == IF a0.alloc THEN a0 ELSE [alloc |-> TRUE, parts |-> [i \in 1..f.total |-> NoPart]]
           inb == f.part < Len(a1.parts)
           a2 == IF inb THEN [a1 EXCEPT !.parts[f.part + 1] = [has |-> TRUE, data |-> f.data]] ELSE a1
           full == inb /\ \A i \in 1..Len(a2.parts) : a2.parts[i].has
       IN /\ LET wk2 == [wk EXCEPT ![w] = IF full THEN [pc |-> "full", f |-> f, o |-> o] ELSE Idle]
             IN /\ wk' = wk2
                /\ heap' = Gc([heap EXCEPT ![o] = a2], amap, wk2)
    /\ UNCHANGED <<net, amap, bad, last>>

RECURSIVE Concat(_)
Concat(ps) == IF ps = <<>> THEN <<>> ELSE Head(ps).data \o Concat(Tail(ps))

\* :145-150 agg.assemble() (agg.mu, a second critical section) and tells.Deliver
FAssemble(w) ==
    /\ Layer = "frag" /\ wk[w].pc = "full"
    /\ Deliver(wk[w].f.src, Concat(heap[wk[w].o].parts))
    /\ wk' = [wk EXCEPT ![w].pc = "del"]
    /\ UNCHANGED <<net, amap, heap>>

\* :151-153 s.mu: delete(s.aggs, key) -- whatever object is registered under the key now
FDelete(w) ==
    /\ Layer = "frag" /\ wk[w].pc = "del"
    /\ LET k == Key(wk[w].f)
           am2 == IF k \in DOMAIN amap THEN Without(amap, k) ELSE amap
           wk2 == [wk EXCEPT ![w] = Idle]
       IN /\ amap' = am2 /\ wk' = wk2 /\ heap' = Gc(heap, am2, wk2)
    /\ UNCHANGED <<net, bad, last>>

---------------------------------------------------------------------------
(* mbapp receiver *)

\* swarm.go:174 recvLoop, :186 handleMessage, fragment.go:91 handlePart up to the map access
MRecv(w, f) ==
    /\ Layer = "mbapp" /\ wk[w].pc = "idle" /\ f \in net
    /\ IF f.size > LayerMtu
       THEN UNCHANGED <<wk, bad, last>>                                  \* :195 total size exceeds mtu
       ELSE IF f.total < 2
            THEN /\ Deliver(f.src, f.data)                              \* fragment.go:93 fast path
                 /\ UNCHANGED wk
            ELSE /\ wk' = [wk EXCEPT ![w] = [pc |-> "got", f |-> f, o |-> NoObj]]
                 /\ UNCHANGED <<bad, last>>
    /\ UNCHANGED <<net, amap, heap>>

\* fragment.go:109 getCollector under fl.mu
MGetCol(w) ==
    /\ Layer = "mbapp" /\ wk[w].pc = "got"
    /\ LET f == wk[w].f
           k == Key(f) IN
       IF k \in DOMAIN amap
       THEN /\ wk' = [wk EXCEPT ![w].pc = "have", ![w].o = amap[k]]
            /\ UNCHANGED <<amap, heap>>
       ELSE LET o == Fresh(k)
                c == [count |-> f.total, buf |-> [i \in 1..f.size |-> Zero], bits |-> {}] IN
            /\ amap' = [x \in (DOMAIN amap) \cup {k} |-> IF x = k THEN o ELSE amap[x]]
            /\ heap' = [x \in (DOMAIN heap) \cup {o} |-> IF x = o THEN c ELSE heap[x]]
            /\ wk' = [wk EXCEPT ![w].pc = "have", ![w].o = o]
    /\ UNCHANGED <<net, bad, last>>

\* fragment.go:30 collector.addPart under c.mu (its error is ignored by handlePart).
\* The range check offset < 0 \/ offset+len(data) > len(buf) is the repaired code (F06: a negative
\* offset panicked, a too long part was silently cut).
MAddPartTo(c, idx, data) ==
    IF idx >= c.count THEN c
    ELSE IF idx \in c.bits THEN c
    ELSE LET offset == IF idx = c.count - 1 THEN Len(c.buf) - Len(data) ELSE Len(data) * idx
         IN IF offset < 0 \/ offset + Len(data) > Len(c.buf) THEN c
            ELSE IF offset >= Len(c.buf) THEN c
            ELSE [c EXCEPT !.buf = [i \in 1..Len(c.buf) |->
                                       IF i > offset /\ i <= offset + Len(data) THEN data[i - offset] ELSE c.buf[i]],
                           !.bits = c.bits \cup {idx}]
MAddPart(w) ==
    /\ Layer = "mbapp" /\ wk[w].pc = "have"
    /\ heap' = [heap EXCEPT ![wk[w].o] = MAddPartTo(heap[wk[w].o], wk[w].f.part, wk[w].f.data)]
    /\ wk' = [wk EXCEPT ![w].pc = "chk"]
    /\ UNCHANGED <<net, amap, bad, last>>

\* fragment.go:52 isComplete under c.mu
MCheck(w) ==
    /\ Layer = "mbapp" /\ wk[w].pc = "chk"
    /\ LET c == heap[wk[w].o]
           full == \A i \in 0..(c.count - 1) : i \in c.bits
           wk2 == [wk EXCEPT ![w] = IF full THEN [wk[w] EXCEPT !.pc = "full"] ELSE Idle]
       IN /\ wk' = wk2
          /\ heap' = Gc(heap, amap, wk2)
    /\ UNCHANGED <<net, amap, bad, last>>

\* fragment.go:103 withBuffer(fn) under c.mu: the buffer itself is handed to the hub
MDeliver(w) ==
    /\ Layer = "mbapp" /\ wk[w].pc = "full"
    /\ Deliver(wk[w].f.src, heap[wk[w].o].buf)
    /\ wk' = [wk EXCEPT ![w].pc = "del"]
    /\ UNCHANGED <<net, amap, heap>>

\* fragment.go:102,122 deferred dropCollector under fl.mu
MDrop(w) ==
    /\ Layer = "mbapp" /\ wk[w].pc = "del"
    /\ LET k == Key(wk[w].f)
           am2 == IF k \in DOMAIN amap THEN Without(amap, k) ELSE amap
           wk2 == [wk EXCEPT ![w] = Idle]
       IN /\ amap' = am2 /\ wk' = wk2 /\ heap' = Gc(heap, am2, wk2)
    /\ UNCHANGED <<net, bad, last>>

---------------------------------------------------------------------------
\* fragswarm.go:179 cleanup (age abstracted away: any aggregator may be old enough);
\* fragment.go:133 cleanupLoop (collectors older than collectorTTL; before the repair createdAt was never
\* set and ttl was zero, so every collector, however young, was removed by each pass)
Cleanup ==
    /\ WithCleanup
    /\ \E k \in DOMAIN amap :
         LET am2 == Without(amap, k) IN
         /\ amap' = am2 /\ heap' = Gc(heap, am2, wk)
    /\ UNCHANGED <<net, wk, bad, last>>

Next ==
    \/ \E w \in Workers : \/ \E f \in net : FRecv(w, f) \/ MRecv(w, f)
                          \/ FGetAgg(w) \/ FAddPart(w) \/ FAssemble(w) \/ FDelete(w)
                          \/ MGetCol(w) \/ MAddPart(w) \/ MCheck(w) \/ MDeliver(w) \/ MDrop(w)
    \/ Cleanup
Spec == Init /\ [][Next]_vars

---------------------------------------------------------------------------
(* C10 on the model *)
NoInvention == "NoInvention" \notin bad
NoPartial == "NoPartial" \notin bad
\* anti-vacuity: some multi-part message is delivered, and one is delivered twice is possible
TypeOK == /\ \A w \in Workers : wk[w].pc \in {"idle", "got", "have", "chk", "full", "del"}
          /\ \A k \in DOMAIN amap : amap[k] \in DOMAIN heap
=============================================================================
