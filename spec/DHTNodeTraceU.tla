---------------------------- MODULE DHTNodeTraceU ----------------------------
(* Universe of the trace being validated; the driver overwrites this module in its scratch copy with the   *)
(* literal sets of the family (so that KadCache's constant tables apply).                                   *)
EXTENDS Integers
TLocal == <<165, 60>>
TLocus == <<>>
TPeers == {<<165, 60>>}
TDataKeys == {}
TTargets == {}
TLimits == {}
TPeerTTL == 1
TMaxDataTTL == 2
=============================================================================
