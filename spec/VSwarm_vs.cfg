SPECIFICATION Spec
CONSTANTS
  Addrs = {0, 1, 2}
  Unknown = 7
  QLen = 1
  Kind = "vs"
  TfKind = "tuple"
  Wrap = "none"
  Allow <- AllowAll
  N0 = 1
  Sizes = {"s"}
  TFs = {"pass"}
  Ctxs = {"wait"}
  Handlers = {"echo"}
  PairKinds = {"nn", "tt"}
  MaxOps = 3
  MaxAsks = 1
INVARIANTS TypeOK LawsHold MustIsQueued
CHECK_DEADLOCK FALSE
