SPECIFICATION GenSpec
CONSTANTS
  MaxS = 7
  MaxRestart = 1
  MaxRekey = 1
  MaxSendCalls = 2
  AcceptA = {"B"}
  AcceptB = {"A"}
  RestartKeys = {"A", "M"}
  Eager = TRUE
  MaxSteps = 24
CHECK_DEADLOCK FALSE
