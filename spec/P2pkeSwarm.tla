----------------------------- MODULE P2pkeSwarm -----------------------------
(***************************************************************************)
(* Implementation-shaped model of the SWARM-LEVEL composition in           *)
(* /repo/s/p2pkeswarm (swarm.go, store.go): the channel store keyed by     *)
(* transport address, getOrCreate on Tell (getFullAddr) and on incoming    *)
(* traffic (handleMessage), the identity comparison after WaitReady, the   *)
(* whitelist at delivery, the cleanup loop and Close.                      *)
(*                                                                         *)
(* Two honest nodes "A" (address "a") and "B" (address "b") and a third    *)
(* transport address "x" behind which nobody answers (packets to it        *)
(* vanish; junk claiming to come from it can arrive).                      *)
(*                                                                         *)
(* Channels are abstract (their exact machine is Channel.tla): previous /  *)
(* current session, one prospective session with role and progress, the    *)
(* bound key, lastReceived / lastSent / CreatedAt as AGES in ticks, the    *)
(* timers (armed or not) and whether Close was called on them.  A channel  *)
(* object lives in `ch` for ever: the store maps an address to a channel   *)
(* id, a Tell in flight holds a channel id, so a channel that left the     *)
(* store while a Tell holds it is representable (it is what the code does).*)
(*                                                                         *)
(* TIME.  One tick = 1/Period of the cleanup ticker's period (Period = 2:   *)
(* 3.75 s; KeepAliveTimeout = 15 s = 4 ticks; grace = 30 s = 8 ticks); a   *)
(* cleanup pass happens at the beginning of every Period-th tick.  Every   *)
(* action inside a tick happens strictly after the tick's beginning and    *)
(* strictly before the next one, later actions at later instants.  With    *)
(* t(x) the tick of x:                                                     *)
(*   getOrInit expires the current session  (now - lastReceived > 15 s)    *)
(*        iff  t(now) - t(lastReceived) >= KExp  = 4                       *)
(*   cleanup keeps a channel  (tick - lastX < 15 s)                        *)
(*        iff  t(tick) - t(lastX) < KIdle = 5                              *)
(*   cleanup keeps a channel  (tick - CreatedAt < 30 s)                    *)
(*        iff  t(tick) - t(created) < KGrace = 9                           *)
(* (a coarser clock cannot represent "sent 14.9 s after the last receive,  *)
(* purged 2.6 s later", which is how the dead lastSent guard loses data).  *)
(* The replayer (harness/cmd/pkswarmreplay) realises exactly this mapping  *)
(* on the real cleanupLoop with the Go runtime's virtual clock.            *)
(* Rekey (120 s) and reject (180 s) are beyond the horizon except for the  *)
(* rekey timer of a channel that was the initiator: RekeyFire (budgeted).  *)
(*                                                                         *)
(* Time advances (Tick) only when nothing else can happen, except for at   *)
(* most MaxHold ticks that pass while packets are in flight (latency of a  *)
(* whole tick or more).                                                    *)
(*                                                                         *)
(* `Fixed` is the set of repairs made to /repo during this work, modelled  *)
(* as repaired when the name is in the set and as originally coded when    *)
(* not (the configs *_orig_* show TLC finding each defect):                *)
(*   "lastSent"  Channel.Send records lastSent (it was never assigned, so  *)
(*               the third guard of the cleanup predicate was dead)        *)
(*   "close"     Swarm.Close closes every channel; Tell after Close fails  *)
(*   "evict"     getFullAddr closes the channel it removes from the store  *)
(*   "empty"     an empty application message is handed up                 *)
(***************************************************************************)
EXTENDS Naturals, Sequences, FiniteSets, TLC

CONSTANTS
    MaxC,       \* channel objects that may be created
    MaxH,       \* handshakes (initiator sessions) that may be started
    MaxTell,    \* Tell calls
    MaxDrop,    \* packets the network may drop
    MaxHold,    \* ticks that may pass while packets are in flight
    MaxJunk,    \* junk packets from address "x"
    MaxClose,   \* Close calls
    MaxRekey,   \* rekey-timer expirations
    KExp, KIdle, KGrace,
    Period,     \* ticks between two cleanup passes
    TellTO,     \* ticks after which a blocked Tell's context ends
    WLA, WLB,   \* whitelists (sets of keys)
    DstsA, DstsB,   \* destinations <<identity, address>> each node may Tell to
    AllowEmpty, \* whether empty payloads are told
    Fixed,
    EagerCleanup    \* TRUE: a cleanup pass runs before anything else in its tick (what the replayer reproduces)

Node == {"A", "B"}
Addr(n) == IF n = "A" THEN "a" ELSE "b"
NodeAt(t) == IF t = "a" THEN "A" ELSE "B"
Addrs == {"a", "b", "x"}
Live == {"a", "b"}
WL(n) == IF n = "A" THEN WLA ELSE WLB
Dsts(n) == IF n = "A" THEN DstsA ELSE DstsB
Min(a, b) == IF a < b THEN a ELSE b

VARIABLES
    ch,         \* [1..MaxC -> channel record]
    nch,        \* channels created so far
    store,      \* [Node -> [Addrs -> 0..MaxC]]                 store.go
    st,         \* [Node -> {"open","closing","closed"}]
    net,        \* [Links -> Seq(packet)]: packets in flight; each directed link delivers in order (reordering,
                \* duplication and replay of a channel's messages are Channel.tla's business, not the swarm's)
    tells,      \* [1..MaxTell -> tell record]
    ntell, nh,
    due,        \* nodes whose cleanup pass of the current tick has not run yet
    ph,         \* current tick modulo Period (a cleanup pass is due when it becomes 0)
    rtx,        \* channels whose handshake timer has fired in the current tick
    drops, holds, junks, closes, rekeys,
    \* observables (ghosts)
    delivered,  \* set of <<tell id, receiving node, source key, source address>>
    lost,       \* set of [tid, cause]: a data packet that reached handleMessage and was not handed up
    gone,       \* [Node -> [1..MaxH -> cause]]  why a node no longer holds a session it had ("", "purged", "evicted", "closed")
    zombie,     \* set of channel ids on which Close was called while a Tell in flight held them (KNOWN FINDING, see below)
    lateEmit,   \* set of <<channel, why>>: a Send callback that fired on a channel after Close was called on it
    last
vars == <<ch, nch, store, st, net, tells, ntell, nh, due, ph, rtx, drops, holds, junks, closes, rekeys, delivered, lost, gone, zombie, lateEmit, last>>
view == <<ch, nch, store, st, net, tells, ntell, nh, due, ph, rtx, drops, holds, junks, closes, rekeys, delivered, lost, gone, zombie, lateEmit>>

NoCh == [own |-> "-", t |-> "-", age |-> 0, want |-> "-", bound |-> "none", cur |-> 0, prev |-> 0,
         nxt |-> 0, role |-> "-", step |-> 0, rkey |-> "none", rts |-> 0, lr |-> KIdle, ls |-> KIdle,
         timers |-> FALSE, rk |-> FALSE, closed |-> FALSE]
NoTell == [n |-> "-", id |-> "-", t |-> "-", e |-> FALSE, pc |-> "-", c |-> 0, left |-> 0, ret |-> "-", h |-> 0]

Pkt(k, h, from, to, key, tid, e) == [k |-> k, h |-> h, from |-> from, to |-> to, key |-> key, tid |-> tid, e |-> e]

\* the channel's current handshake message (Session.writeHandshake)
Cur(c) == IF c.nxt = 0 THEN {}
          ELSE IF c.role = "i" /\ c.step = 0 THEN {Pkt("IH", c.nxt, Addr(c.own), c.t, c.own, 0, FALSE)}
          ELSE IF c.role = "i" /\ c.step = 2 THEN {Pkt("ID", c.nxt, Addr(c.own), c.t, c.own, 0, FALSE)}
          ELSE {Pkt("RH", c.nxt, Addr(c.own), c.t, c.own, 0, FALSE)}

\* what reaches the wire: the sender's inner swarm must be open, the destination must be an open node
Links == {<<"a", "b">>, <<"b", "a">>}
Wire(n, ms) == IF st[n] # "open" THEN {} ELSE {m \in ms : m.to \in Live /\ st[NodeAt(m.to)] = "open"}
\* every Send callback hands over at most one packet
\* (a repetition of a packet that is still in flight on the link changes nothing and is left out)
Put(nt, n, ms) == IF Wire(n, ms) = {} THEN nt
                  ELSE LET m == CHOOSE x \in Wire(n, ms) : TRUE
                           q == nt[<<m.from, m.to>>]
                       IN IF \E k \in 1..Len(q) : q[k] = m THEN nt ELSE [nt EXCEPT ![<<m.from, m.to>>] = Append(q, m)]
Flying(h) == \E l \in Links : \E k \in 1..Len(net[l]) : net[l][k].h = h

\* checkKey (channel.go:371): the bound key for ever; before that the AcceptKey predicate of the creator
CheckKey(c, k) == IF c.bound # "none" THEN k = c.bound
                  ELSE IF c.want = "wl" THEN k \in WL(c.own) ELSE k = c.want

\* expireSessions as called by getOrInit / onRekey (channel.go:380): keep-alive expiry of the current session
Expire(c) == IF c.cur # 0 /\ c.lr >= KExp THEN [c EXCEPT !.prev = c.cur, !.cur = 0] ELSE c

\* onReadySession (channel.go:337)
Promote(c) == [c EXCEPT !.prev = c.cur, !.cur = c.nxt, !.nxt = 0, !.role = "-", !.step = 0, !.bound = c.rkey,
                        !.rkey = "none", !.rts = c.nxt, !.lr = 0, !.rk = (c.role = "i" \/ c.rk)]
DropNext(c) == [c EXCEPT !.nxt = 0, !.role = "-", !.step = 0, !.rkey = "none"]

\* Channel.Deliver (channel.go:144) on channel record c at node n: [c, out, app, why]
R(c, out, app, why) == [c |-> c, out |-> out, app |-> app, why |-> why]
Dlv(c, m) ==
    CASE m.k = "IH" ->
            IF c.nxt = m.h /\ c.role = "r" THEN R(c, Cur(c), FALSE, "")                    \* repeated hello: same answer
            ELSE IF m.h \in {c.cur, c.prev} \/ m.h < c.rts \/ ~CheckKey(c, m.key) THEN R(c, {}, FALSE, "")
            ELSE IF c.nxt # 0 /\ c.nxt < m.h THEN R(c, Cur(c), FALSE, "")                  \* proposeNewSession keeps its own
            ELSE LET c2 == [c EXCEPT !.nxt = m.h, !.role = "r", !.step = 1, !.rkey = m.key]
                 IN R(c2, Cur(c2), FALSE, "")
      [] m.k = "RH" ->
            IF c.nxt = m.h /\ c.role = "i"
            THEN LET c2 == [c EXCEPT !.step = 2, !.rkey = m.key] IN R(c2, Cur(c2), FALSE, "")
            ELSE R(c, {}, FALSE, "")
      [] m.k = "ID" ->
            IF c.nxt = m.h /\ c.role = "r"
            THEN R(Promote(c), {Pkt("RD", m.h, Addr(c.own), c.t, c.own, 0, FALSE)}, FALSE, "")
            ELSE IF c.cur = m.h THEN R(c, {Pkt("RD", m.h, Addr(c.own), c.t, c.own, 0, FALSE)}, FALSE, "")
            ELSE R(c, {}, FALSE, "")
      [] m.k = "RD" ->
            IF c.nxt = m.h /\ c.role = "i" /\ c.step = 2
            THEN (IF CheckKey(c, c.rkey) THEN R(Promote(c), {}, FALSE, "") ELSE R(DropNext(c), {}, FALSE, ""))
            ELSE R(c, {}, FALSE, "")
      [] m.k = "DATA" ->
            IF c.cur = m.h THEN R([c EXCEPT !.lr = 0], {}, TRUE, "")
            ELSE IF c.prev = m.h THEN R(c, {}, TRUE, "")
            ELSE IF c.nxt = m.h /\ c.role = "i" /\ c.step = 2               \* data completes the initiator
            THEN (IF CheckKey(c, c.rkey) THEN R(Promote(c), {}, TRUE, "") ELSE R(DropNext(c), {}, FALSE, "wrongpeer"))
            ELSE R(c, {}, FALSE, "nosession")
      [] OTHER -> R(c, {}, FALSE, "")

NewCh(n, t, want) == [NoCh EXCEPT !.own = n, !.t = t, !.want = want]

\* Channel.Close (channel.go:213): both timers stopped; nothing else changes
Closed(c) == [c EXCEPT !.timers = FALSE, !.rk = FALSE, !.closed = TRUE]
\* sessions a channel can still decrypt with
Sess(c) == {c.cur, c.prev, c.nxt} \ {0}
\* channels among ids that a Tell in flight holds (it took them from the store before they were closed)
Held(ids, except) == {i \in ids : \E j \in 1..ntell : j # except /\ tells[j].pc \in {"use", "wait"} /\ tells[j].c = i}
MarkGone(g, n, c, why) == [g EXCEPT ![n] = [h \in 1..MaxH |-> IF h \in Sess(c) /\ g[n][h] = "" THEN why ELSE g[n][h]]]

-----------------------------------------------------------------------------
(* Tell (swarm.go:73) *)

TellCall(n, id, t, e) ==
    /\ ntell < MaxTell /\ <<id, t>> \in Dsts(n) /\ (e => AllowEmpty)
    /\ ntell' = ntell + 1
    /\ tells' = [tells EXCEPT ![ntell + 1] = [NoTell EXCEPT !.n = n, !.id = id, !.t = t, !.e = e, !.pc = "get", !.left = TellTO, !.ret = "none"]]
    /\ last' = [a |-> "tell", n |-> n, id |-> id, t |-> t, e |-> e, tid |-> ntell + 1]
    /\ UNCHANGED <<ch, nch, store, st, net, nh, due, ph, rtx, drops, holds, junks, closes, rekeys, delivered, lost, gone, zombie, lateEmit>>

\* getFullAddr: closed check ("close" fix), store.getOrCreate under the store lock (swarm.go:135-153, store.go:25)
TellGet(i) ==
    LET tl == tells[i] n == tl.n IN
    /\ i <= ntell /\ tl.pc = "get"
    /\ IF st[n] # "open" /\ "close" \in Fixed
       THEN /\ tells' = [tells EXCEPT ![i].pc = "done", ![i].ret = "closed"]
            /\ UNCHANGED <<ch, nch, store>>
       ELSE IF store[n][tl.t] # 0
       THEN /\ tells' = [tells EXCEPT ![i].pc = "use", ![i].c = store[n][tl.t]]
            /\ UNCHANGED <<ch, nch, store>>
       ELSE /\ nch < MaxC
            /\ nch' = nch + 1
            /\ ch' = [ch EXCEPT ![nch + 1] = NewCh(n, tl.t, tl.id)]
            /\ store' = [store EXCEPT ![n][tl.t] = nch + 1]
            /\ tells' = [tells EXCEPT ![i].pc = "use", ![i].c = nch + 1]
    /\ last' = [a |-> "tellget", tid |-> i]
    /\ UNCHANGED <<st, net, ntell, nh, due, ph, rtx, drops, holds, junks, closes, rekeys, delivered, lost, gone, zombie, lateEmit>>

\* WaitReady -> getOrInit (channel.go:405), the identity comparison (swarm.go:154-167), Send (channel.go:111).
\* pc = "use": the caller enters getOrInit (expiry, then the current session or a handshake and the wait);
\* pc = "wait": it sleeps on the channel's `ready` and is woken by a promotion only.
TellUse(i) ==
    LET tl == tells[i] n == tl.n c0 == ch[tl.c] c == IF tl.pc = "use" THEN Expire(c0) ELSE c0 IN
    /\ i <= ntell /\ (tl.pc = "use" \/ (tl.pc = "wait" /\ c0.cur # 0))
    /\ IF c.cur # 0
       THEN IF c.bound # tl.id
            THEN \* wrong identity: deleteMatching, (Close,) and around the loop again
                 /\ store' = [store EXCEPT ![n][tl.t] = IF @ = tl.c THEN 0 ELSE @]
                 /\ ch' = [ch EXCEPT ![tl.c] = IF "evict" \in Fixed THEN Closed(c) ELSE c]
                 /\ gone' = IF store[n][tl.t] = tl.c THEN MarkGone(gone, n, c, "evicted") ELSE gone
                 /\ tells' = [tells EXCEPT ![i].pc = "get", ![i].c = 0]
                 /\ zombie' = IF "evict" \in Fixed THEN zombie \cup Held({tl.c}, i) ELSE zombie
                 /\ UNCHANGED <<net, nh, lateEmit>>
            ELSE \* Session.Send, the Send callback, (lastSent)
                 /\ ch' = [ch EXCEPT ![tl.c] = IF "lastSent" \in Fixed THEN [c EXCEPT !.ls = 0] ELSE c]
                 /\ net' = Put(net, n, {Pkt("DATA", c.cur, Addr(n), tl.t, n, i, tl.e)})
                 /\ tells' = [tells EXCEPT ![i].pc = "done", ![i].ret = "ok", ![i].h = c.cur]
                 /\ lateEmit' = IF c.closed THEN lateEmit \cup {<<tl.c, "send">>} ELSE lateEmit
                 /\ UNCHANGED <<store, nh, gone, zombie>>
       ELSE \* no current session: rekeyTimer.Reset(0) unless a handshake is under way, then wait
            /\ tells' = [tells EXCEPT ![i].pc = "wait"]
            /\ IF c.nxt = 0 /\ nh < MaxH
               THEN LET c2 == [c EXCEPT !.nxt = nh + 1, !.role = "i", !.step = 0, !.timers = TRUE, !.rk = TRUE] IN
                    /\ nh' = nh + 1
                    /\ ch' = [ch EXCEPT ![tl.c] = c2]
                    /\ net' = Put(net, n, Cur(c2))
                    /\ lateEmit' = IF c.closed THEN lateEmit \cup {<<tl.c, "hello">>} ELSE lateEmit
               ELSE ch' = [ch EXCEPT ![tl.c] = c] /\ UNCHANGED <<nh, net, lateEmit>>
            /\ UNCHANGED <<store, gone, zombie>>
    /\ last' = [a |-> "telluse", tid |-> i]
    /\ UNCHANGED <<nch, st, ntell, due, ph, rtx, drops, holds, junks, closes, rekeys, delivered, lost>>

Holding(i) == i <= ntell /\ tells[i].pc \in {"use", "wait"}
Blocked(i) == i <= ntell /\ tells[i].pc = "wait" /\ ch[tells[i].c].cur = 0

\* the caller's context ends while it waits in getOrInit
TellTimeout(i) ==
    /\ Blocked(i) /\ tells[i].left = 0
    /\ tells' = [tells EXCEPT ![i].pc = "done", ![i].ret = "ctx"]
    /\ last' = [a |-> "telltimeout", tid |-> i]
    /\ UNCHANGED <<ch, nch, store, st, net, ntell, nh, due, ph, rtx, drops, holds, junks, closes, rekeys, delivered, lost, gone, zombie, lateEmit>>

-----------------------------------------------------------------------------
(* recvLoop / handleMessage (swarm.go:170-215) *)

Incoming(l) ==
    LET m == Head(net[l]) n == NodeAt(l[2]) IN
    /\ net[l] # <<>> /\ st[n] = "open"
    /\ (store[n][m.from] # 0 \/ nch < MaxC)
    /\ LET fresh == store[n][m.from] = 0
           id == IF fresh THEN nch + 1 ELSE store[n][m.from]
           c0 == IF fresh THEN NewCh(n, m.from, "wl") ELSE ch[id]
           r == Dlv(c0, m)
           handed == r.app /\ r.c.bound \in WL(n) /\ (m.e => "empty" \in Fixed)
           why == IF m.k # "DATA" \/ handed THEN ""
                  ELSE IF r.app /\ ~(r.c.bound \in WL(n)) THEN "whitelist"
                  ELSE IF r.app THEN "empty"
                  ELSE IF r.why = "nosession" /\ gone[n][m.h] # "" THEN gone[n][m.h]
                  ELSE r.why
       IN /\ nch' = IF fresh THEN nch + 1 ELSE nch
          /\ store' = [store EXCEPT ![n][m.from] = id]
          /\ ch' = [ch EXCEPT ![id] = r.c]
          /\ net' = Put([net EXCEPT ![l] = Tail(@)], n, r.out)
          /\ delivered' = IF handed THEN delivered \cup {<<m.tid, n, r.c.bound, m.from>>} ELSE delivered
          /\ lost' = IF why # "" THEN lost \cup {[tid |-> m.tid, cause |-> why]} ELSE lost
          \* onReadySession refused the peer's key ("session negotiated with wrong peer"): the session is gone here
          /\ gone' = IF c0.nxt # 0 /\ r.c.nxt = 0 /\ r.c.cur # c0.nxt /\ gone[n][c0.nxt] = ""
                     THEN [gone EXCEPT ![n][c0.nxt] = "wrongpeer"] ELSE gone
          /\ last' = [a |-> "incoming", k |-> m.k, h |-> m.h, from |-> m.from, to |-> m.to, tid |-> m.tid, app |-> handed]
    /\ UNCHANGED <<st, tells, ntell, nh, due, ph, rtx, drops, holds, junks, closes, rekeys, zombie, lateEmit>>

\* junk from the third address: a channel is created for it, nothing else (swarm.go:183, channel.go:185)
Junk(n) ==
    /\ junks < MaxJunk /\ st[n] = "open" /\ junks' = junks + 1
    /\ IF store[n]["x"] # 0 THEN UNCHANGED <<ch, nch, store>>
       ELSE /\ nch < MaxC /\ nch' = nch + 1
            /\ ch' = [ch EXCEPT ![nch + 1] = NewCh(n, "x", "wl")]
            /\ store' = [store EXCEPT ![n]["x"] = nch + 1]
    /\ last' = [a |-> "junk", n |-> n]
    /\ UNCHANGED <<st, net, tells, ntell, nh, due, ph, rtx, drops, holds, closes, rekeys, delivered, lost, gone, zombie, lateEmit>>

\* the handshake timer (onHandshake, channel.go:452) repeats the prospective session's message every HandshakeBackoff; only a
\* repetition that can change something is a step: nothing of that handshake is in flight any more
Stalled(i) == ch[i].timers /\ ch[i].nxt # 0 /\ ~Flying(ch[i].nxt)
Retransmit(i) ==
    /\ i <= nch /\ Stalled(i) /\ ch[i].t \in Live /\ Wire(ch[i].own, Cur(ch[i])) # {}
    /\ net' = Put(net, ch[i].own, Cur(ch[i]))
    /\ lateEmit' = IF ch[i].closed THEN lateEmit \cup {<<i, "timer">>} ELSE lateEmit
    /\ rtx' = rtx \cup {i}
    /\ last' = [a |-> "retransmit", c |-> i]
    /\ UNCHANGED <<ch, nch, store, st, tells, ntell, nh, due, ph, drops, holds, junks, closes, rekeys, delivered, lost, gone, zombie>>

\* the rekey timer of a channel that was an initiator expires (RekeyAfterTime): onRekey (channel.go:436)
RekeyFire(i) ==
    /\ i <= nch /\ ch[i].rk /\ rekeys < MaxRekey /\ nh < MaxH /\ rekeys' = rekeys + 1
    /\ LET c == Expire(ch[i]) IN
       IF c.nxt # 0 THEN ch' = [ch EXCEPT ![i] = [c EXCEPT !.rk = FALSE]] /\ UNCHANGED <<nh, net, lateEmit>>
       ELSE LET c2 == [c EXCEPT !.nxt = nh + 1, !.role = "i", !.step = 0, !.timers = TRUE] IN
            /\ nh' = nh + 1 /\ ch' = [ch EXCEPT ![i] = c2]
            /\ net' = Put(net, c.own, Cur(c2))
            /\ lateEmit' = IF c.closed THEN lateEmit \cup {<<i, "rekey">>} ELSE lateEmit
    /\ last' = [a |-> "rekeyfire", c |-> i]
    /\ UNCHANGED <<nch, store, st, tells, ntell, due, ph, rtx, drops, holds, junks, closes, delivered, lost, gone, zombie>>

-----------------------------------------------------------------------------
(* cleanupLoop (swarm.go:227-255): one pass, under the store lock (store.go:38) *)

Purgeable(c) == c.age >= KGrace /\ c.lr >= KIdle /\ c.ls >= KIdle
Cleanup(n) ==
    /\ n \in due /\ st[n] = "open" /\ due' = due \ {n} /\ ph' = ph /\ rtx' = rtx
    /\ LET P == {t \in Addrs : store[n][t] # 0 /\ Purgeable(ch[store[n][t]])}
           ids == {store[n][t] : t \in P} IN
       /\ store' = [store EXCEPT ![n] = [t \in Addrs |-> IF t \in P THEN 0 ELSE @[t]]]
       /\ ch' = [i \in 1..MaxC |-> IF i \in ids THEN Closed(ch[i]) ELSE ch[i]]
       /\ gone' = [gone EXCEPT ![n] = [h \in 1..MaxH |-> IF gone[n][h] = "" /\ \E i \in ids : h \in Sess(ch[i]) THEN "purged" ELSE gone[n][h]]]
       /\ zombie' = zombie \cup Held(ids, 0)
       /\ last' = [a |-> "cleanup", n |-> n, purged |-> P]
    /\ UNCHANGED <<nch, st, net, tells, ntell, nh, drops, holds, junks, closes, rekeys, delivered, lost, lateEmit>>

Bump(x, cap) == Min(x + 1, cap)
\* a closed channel that no Tell holds can never act again: its ages are irrelevant (canonical form, fewer states)
Inert(i) == ch[i].closed /\ ~ch[i].timers /\ ~ch[i].rk /\ ~\E j \in 1..ntell : tells[j].pc \in {"use", "wait"} /\ tells[j].c = i
BusyLocal == \/ \E i \in 1..ntell : tells[i].pc \in {"get", "use"} \/ (tells[i].pc = "wait" /\ ~Blocked(i))
             \/ due \cap {n \in Node : st[n] = "open"} # {}
             \/ \E n \in Node : st[n] = "closing"
\* the handshake timer (250 ms) fires at least once per tick (3.75 s) on a channel whose handshake has stalled
RtxDue == \E i \in 1..nch : i \notin rtx /\ Stalled(i) /\ ch[i].t \in Live /\ Wire(ch[i].own, Cur(ch[i])) # {}
Busy == \/ BusyLocal \/ RtxDue
        \/ \E l \in Links : net[l] # <<>> /\ st[NodeAt(l[2])] = "open" /\ (store[NodeAt(l[2])][l[1]] # 0 \/ nch < MaxC)
Tick ==
    /\ ~\E i \in 1..ntell : Blocked(i) /\ tells[i].left = 0   \* contexts end on time
    /\ \/ ~Busy /\ holds' = holds
       \/ Busy /\ ~BusyLocal /\ holds < MaxHold /\ holds' = holds + 1
    /\ ch' = [i \in 1..MaxC |-> IF i > nch THEN ch[i]
                                ELSE IF Inert(i) THEN [ch[i] EXCEPT !.age = KGrace, !.lr = KIdle, !.ls = KIdle]
                                ELSE [ch[i] EXCEPT !.age = Bump(@, KGrace), !.lr = Bump(@, KIdle), !.ls = Bump(@, KIdle)]]
    /\ tells' = [i \in 1..MaxTell |-> IF i <= ntell /\ tells[i].pc = "wait" /\ tells[i].left > 0 THEN [tells[i] EXCEPT !.left = @ - 1] ELSE tells[i]]
    /\ ph' = (ph + 1) % Period /\ rtx' = {}
    /\ due' = IF ph' = 0 THEN {n \in Node : st[n] = "open"} ELSE {}
    /\ last' = [a |-> "tick"]
    /\ UNCHANGED <<nch, store, st, net, ntell, nh, drops, junks, closes, rekeys, delivered, lost, gone, zombie, lateEmit>>

Drop(l) ==
    /\ net[l] # <<>> /\ drops < MaxDrop /\ drops' = drops + 1 /\ net' = [net EXCEPT ![l] = Tail(@)]
    /\ last' = [a |-> "drop", k |-> Head(net[l]).k, h |-> Head(net[l]).h, from |-> l[1], to |-> l[2], tid |-> Head(net[l]).tid]
    /\ UNCHANGED <<ch, nch, store, st, tells, ntell, nh, due, ph, rtx, holds, junks, closes, rekeys, delivered, lost, gone, zombie, lateEmit>>

-----------------------------------------------------------------------------
(* Close (swarm.go:121): cancel the background context, close the inner swarm and the hub, wait for the receive *)
(* workers and the cleanup loop; ("close" fix) close every channel and empty the store                          *)
CloseBegin(n) ==
    /\ st[n] = "open" /\ closes < MaxClose /\ closes' = closes + 1
    /\ st' = [st EXCEPT ![n] = "closing"]
    /\ net' = [l \in Links |-> IF l[2] = Addr(n) THEN <<>> ELSE net[l]]
    /\ last' = [a |-> "close", n |-> n]
    /\ UNCHANGED <<ch, nch, store, tells, ntell, nh, due, ph, rtx, drops, holds, junks, rekeys, delivered, lost, gone, zombie, lateEmit>>
CloseEnd(n) ==
    /\ st[n] = "closing" /\ st' = [st EXCEPT ![n] = "closed"]
    /\ IF "close" \in Fixed
       THEN LET ids == {store[n][t] : t \in Addrs} \ {0} IN
            /\ store' = [store EXCEPT ![n] = [t \in Addrs |-> 0]]
            /\ ch' = [i \in 1..MaxC |-> IF i \in ids THEN Closed(ch[i]) ELSE ch[i]]
            /\ gone' = [gone EXCEPT ![n] = [h \in 1..MaxH |-> IF gone[n][h] = "" /\ \E i \in ids : h \in Sess(ch[i]) THEN "closed" ELSE gone[n][h]]]
            /\ zombie' = zombie \cup Held(ids, 0)
       ELSE UNCHANGED <<store, ch, gone, zombie>>
    /\ last' = [a |-> "closed", n |-> n]
    /\ UNCHANGED <<nch, net, tells, ntell, nh, due, ph, rtx, drops, holds, junks, closes, rekeys, delivered, lost, lateEmit>>

-----------------------------------------------------------------------------
Init ==
    /\ ch = [i \in 1..MaxC |-> NoCh] /\ nch = 0
    /\ store = [n \in Node |-> [t \in Addrs |-> 0]]
    /\ st = [n \in Node |-> "open"] /\ net = [l \in Links |-> <<>>]
    /\ tells = [i \in 1..MaxTell |-> NoTell] /\ ntell = 0 /\ nh = 0 /\ due = {} /\ ph = 0 /\ rtx = {}
    /\ drops = 0 /\ holds = 0 /\ junks = 0 /\ closes = 0 /\ rekeys = 0
    /\ delivered = {} /\ lost = {} /\ gone = [n \in Node |-> [h \in 1..MaxH |-> ""]]
    /\ zombie = {} /\ lateEmit = {}
    /\ last = [a |-> "init"]

CleanupDue == EagerCleanup /\ \E n \in due : st[n] = "open"
Internal == \/ \E i \in 1..MaxTell : TellGet(i) \/ TellUse(i) \/ TellTimeout(i)
            \/ \E l \in Links : Incoming(l)
            \/ \E i \in 1..MaxC : Retransmit(i)
            \/ \E n \in Node : CloseEnd(n)
Env == \/ \E n \in Node : \E d \in Dsts(n) : \E e \in BOOLEAN : TellCall(n, d[1], d[2], e)
       \/ \E n \in Node : Junk(n) \/ CloseBegin(n)
       \/ \E l \in Links : Drop(l)
       \/ \E i \in 1..MaxC : RekeyFire(i)
       \/ Tick
Next == IF CleanupDue THEN \E n \in Node : Cleanup(n)
        ELSE (\E n \in Node : Cleanup(n)) \/ Internal \/ Env
Spec == Init /\ [][Next]_vars

\* fairness for the liveness configs: everything the code does on its own happens; time and the environment are free
Fair == /\ \A i \in 1..MaxTell : WF_vars(TellGet(i)) /\ WF_vars(TellUse(i)) /\ WF_vars(TellTimeout(i))
        /\ \A i \in 1..MaxC : WF_vars(Retransmit(i))
        /\ \A n \in Node : WF_vars(Cleanup(n)) /\ WF_vars(CloseEnd(n))
        /\ \A l \in Links : WF_vars(Incoming(l))
        /\ WF_vars(Tick)
FairSpec == Spec /\ Fair

-----------------------------------------------------------------------------
(* Properties, over observables *)

TypeOK == /\ nch \in 0..MaxC /\ ntell \in 0..MaxTell /\ nh \in 0..MaxH
          /\ \A n \in Node, t \in Addrs : store[n][t] \in 0..nch

\* KNOWN FINDING (known_findings.json, G01:ChannelCloseNotTerminal): p2pke.Channel.Close only stops the two timers.
\* A Tell that obtained the channel from the store before it was purged (cleanup, Close, eviction) goes on using it:
\* getOrInit re-arms the timers of the closed channel, a handshake runs from a channel that is no longer in the
\* store, its replies reach the store's NEW channel for that address and are dropped there, the Tell blocks until
\* its context ends, and the peer is left with a prospective session that can never complete.
KF_Zombie == zombie # {}

(* (a) NoLossByCleanup: a Tell that returned nil is delivered unless the network dropped it.  What the code       *)
(* guarantees: a data packet that reaches the destination's handleMessage is handed up, except                    *)
(*   "whitelist"  the receiver's whitelist rejects the sender (by design),                                        *)
(*   "evicted"    the receiver dialled the sender's address with ANOTHER identity meanwhile (getFullAddr removes  *)
(*   "wrongpeer"  the channel; the new one accepts only the dialled identity),                                     *)
(*   "closed"     the receiver is closing,                                                                        *)
(*   "purged"     the receiver's cleanup removed the channel that held the session - possible only if a packet    *)
(*                was in flight for a whole tick or more (the two sides' idle clocks then disagree), or through    *)
(*                the known finding.                                                                              *)
(* With "lastSent" not in Fixed, "purged" happens on a prompt network: the receiver had SENT within the timeout.   *)
AllowedLoss == {"whitelist", "evicted", "wrongpeer", "closed"}
NoLossByCleanup == \A x \in lost : \/ x.cause \in AllowedLoss
                                   \/ x.cause = "purged" /\ (holds > 0 \/ KF_Zombie)
                                   \/ x.cause = "nosession" /\ (KF_Zombie \/ drops > 0 \/ holds > 0)
\* a Tell that returned nil was really sent under a session
OkMeansSent == \A i \in 1..ntell : tells[i].ret = "ok" => tells[i].h # 0

(* (b) StoreBounded *)
\* the store maps an address to at most one channel, its own, and never to a channel Close was called on
StoreShape == \A n \in Node, t \in Addrs : store[n][t] # 0 =>
                  /\ ch[store[n][t]].own = n /\ ch[store[n][t]].t = t /\ ~ch[store[n][t]].closed
                  /\ \A n2 \in Node, t2 \in Addrs : store[n2][t2] = store[n][t] => (n2 = n /\ t2 = t)
\* a channel that left the store was closed ...
LeftMeansClosed == \A i \in 1..nch : store[ch[i].own][ch[i].t] # i => ch[i].closed
\* ... and stays silent: no timer armed, no Send callback, except through the known finding
ClosedIsSilent == /\ \A i \in 1..nch : (ch[i].closed /\ (ch[i].timers \/ ch[i].rk)) => i \in zombie
                  /\ \A x \in lateEmit : x[1] \in zombie
StoreBounded == StoreShape /\ LeftMeansClosed /\ ClosedIsSilent

(* (d) CloseStops: after Close returned, no channel of the node has a timer armed or calls Send, and a Tell      *)
(* called afterwards fails - except for the Tell calls that were already inside when Close was called (zombie).  *)
CloseStops == \A n \in Node : st[n] = "closed" =>
                  /\ \A t \in Addrs : store[n][t] = 0
                  /\ \A i \in 1..nch : (ch[i].own = n /\ (ch[i].timers \/ ch[i].rk)) => i \in zombie
TellAfterCloseFails == [][\A i \in 1..MaxTell : (tells[i].pc = "get" /\ st[tells[i].n] = "closed" /\ tells'[i].pc # "get")
                              => tells'[i].ret = "closed"]_vars

(* (c) CleanupTransparent.  Safety half: whenever nothing is left to do but let time pass, every Tell to the     *)
(* right identity of a live, open, whitelisting peer has returned nil (and, with (a), was delivered): a purge    *)
(* before it is invisible.  Liveness half (FairSpec): such a Tell eventually returns nil.                        *)
Good(i) == /\ tells[i].t \in Live /\ tells[i].id = NodeAt(tells[i].t)
           /\ tells[i].n \in WL(NodeAt(tells[i].t)) /\ NodeAt(tells[i].t) \in WL(tells[i].n)
\* a prospective RESPONDER session whose initiator has given that handshake up (Channel-level known finding
\* C07:Converges:hopeless-prospective-session: it occupies the slot until RejectAfterTime)
KF_Hopeless == \E i \in 1..nch : ch[i].nxt # 0 /\ ch[i].role = "r" /\ ~ch[i].closed
                   /\ ~\E j \in 1..nch : ch[j].role = "i" /\ ch[j].nxt = ch[i].nxt /\ store[ch[j].own][ch[j].t] = j
ExcusedEnv == drops > 0 \/ holds > 0 \/ closes > 0 \/ nh = MaxH \/ nch = MaxC
              \/ \E j \in 1..ntell : tells[j].id # NodeAt(tells[j].t) /\ tells[j].t \in Live     \* a wrong-identity dial evicts
Excused == KF_Zombie \/ KF_Hopeless \/ ExcusedEnv
CleanupTransparent == (~Busy /\ ~Excused) => \A i \in 1..ntell : Good(i) => (tells[i].ret = "ok" /\ \E d \in delivered : d[1] = i)
Resumes == \A i \in 1..MaxTell : [](i <= ntell /\ Good(i) => <>(tells[i].ret = "ok" \/ Excused))
\* the same without the known finding's excuse: violated (that is the finding), used by the *_strict configs
ResumesStrict == \A i \in 1..MaxTell : [](i <= ntell /\ Good(i) => <>(tells[i].ret = "ok" \/ ExcusedEnv))
NoZombie == ~KF_Zombie
\* attribution (C04 restated on this model, as a sanity check of the abstraction)
Attribution == \A d \in delivered : d[3] = tells[d[1]].n /\ d[4] = Addr(tells[d[1]].n) /\ d[2] = NodeAt(tells[d[1]].t) /\ d[3] \in WL(d[2])

Safety == TypeOK /\ NoLossByCleanup /\ OkMeansSent /\ StoreBounded /\ CloseStops /\ CleanupTransparent /\ Attribution
=============================================================================
