SPECIFICATION Spec
CONSTANTS
  Rich = FALSE
  LengthFastPath = FALSE
  StrictIdText = FALSE
INVARIANTS RejectInvalidLaw
CHECK_DEADLOCK FALSE
