SPECIFICATION Spec
CONSTANTS
  Rich = FALSE
  StrictIdText = FALSE
INVARIANTS RejectInvalidLaw
CHECK_DEADLOCK FALSE
