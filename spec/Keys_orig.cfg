SPECIFICATION Spec
CONSTANTS
  Rich = FALSE
  KeepParams = FALSE
  LengthFastPath = FALSE
  StrictIdText = FALSE
INVARIANTS RejectInvalidLaw
CHECK_DEADLOCK FALSE
