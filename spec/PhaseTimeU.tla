----------------------------- MODULE PhaseTimeU -----------------------------
(* The scaled period of the trace being validated (the driver overwrites this module in its scratch copy). *)
TP == 16
=============================================================================
