-------------------------- MODULE P2pkeSwarmTrace --------------------------
(***************************************************************************)
(* Trace specification binding P2pkeSwarm.tla to REAL p2pkeswarm nodes     *)
(* (harness/cmd/pkswarmreplay, virtual clock).  One event per environment  *)
(* action of a generated behaviour, carrying the observation made just     *)
(* before it (everything earlier has settled): the store of both nodes     *)
(* through the hook VerifStore (presence, identity, readiness, bound key,  *)
(* ages of lastReceived / lastSent), the results of the Tell calls, the    *)
(* deliveries with their source, and, for the interval since the previous  *)
(* observation, which (node, address) pairs had their Send callback fire,  *)
(* how many DISTINCT hellos left, which Tells were in flight, which packets *)
(* were handed to which node.  The last event has one row per Tell.        *)
(*                                                                         *)
(* It never blocks.  Property operators are evaluated on the REAL          *)
(* observations and on what the harness did to the network, never on the   *)
(* model's state; the model's expected projection only yields DRIFT, and   *)
(* its known-finding flag only renames a violation as the recorded one.    *)
(***************************************************************************)
EXTENDS Integers, Sequences, FiniteSets, TLC, Json, IOUtils

Log == ndJsonDeserialize(IOEnv.TRACE)
NShards == atoi(IOEnv.NSHARDS)

VARIABLES l, fresh, starts,
          prev    \* [node -> set of addresses present in the store at the previous observation]
tvars == <<l, fresh, starts, prev>>

ToSet(s) == {s[i] : i \in 1..Len(s)}
Resets == {i \in 1..Len(Log) : Log[i].ev = "init"}
ComputeStarts == {1} \cup {CHOOSE i \in Resets : i >= c /\ \A j \in Resets : j >= c => i <= j :
                      c \in {c2 \in {(k * Len(Log)) \div NShards + 1 : k \in 1..(NShards - 1)} :
                                 \E i \in Resets : i >= c2}}
Node == {"A", "B"}
Addrs == {"a", "b", "x"}
Addr(n) == IF n = "A" THEN "a" ELSE "b"
NodeAt(t) == IF t = "a" THEN "A" ELSE "B"
Present(ev, n) == {t \in Addrs : ev.real.store[n][t].p}

TraceInit == /\ starts = ComputeStarts /\ l \in starts /\ fresh = TRUE
             /\ prev = [n \in Node |-> {}]

\* the whitelists of the behaviour an event belongs to (every event carries the behaviour id; the init event the lists)
InitOf(i) == CHOOSE j \in Resets : j <= i /\ \A k \in Resets : k <= i => k <= j
WL(i, n) == IF n = "A" THEN ToSet(Log[InitOf(i)].wla) ELSE ToSet(Log[InitOf(i)].wlb)

(* (b) StoreBounded: a Send callback fires for an address only if the store holds a channel for it before or after, *)
(* or a Tell to it was in flight, or a packet from it was just handled: a channel that left the store is silent.   *)
SilentP(ev, n) == /\ \A p \in ToSet(ev.emit) : p[1] = n =>
                         \/ p[2] \in prev[n] \/ p[2] \in Present(ev, n)
                         \/ p \in ToSet(ev.pend) \/ p \in ToSet(ev.inc)
                  \* a callback that fires BEFORE the node was handed anything from that address comes from a channel that
                  \* existed already: it must have been in the store, or a Tell must be holding it
                  /\ \A p \in ToSet(ev.emitfirst) : p[1] = n => (p[2] \in prev[n] \/ p \in ToSet(ev.pend))
(* ... and one address has ONE channel: between two observations at most one hello per channel can leave (a Tell     *)
(* that dialled another identity replaces the channel and adds one).                                                *)
BadCount(ev, n, t) == IF \E x \in ToSet(ev.pendbad) : x[1] = n /\ x[2] = t
                      THEN (CHOOSE x \in ToSet(ev.pendbad) : x[1] = n /\ x[2] = t)[3] ELSE 0
OneChannelP(ev) == \A x \in ToSet(ev.ihs) : x[3] <= 1 + BadCount(ev, x[1], x[2])
(* (d) CloseStops: after Close returned no Send callback of the node fires (a Tell that was inside before is the     *)
(* known finding's business)                                                                                         *)
CloseSilentP(ev) == \A p \in ToSet(ev.emit) : p[1] \in ToSet(ev.closed) => p \in ToSet(ev.precl)
CloseKnownP(ev) == \A p \in ToSet(ev.emit) : ~(p[1] \in ToSet(ev.closed) /\ p \in ToSet(ev.precl))

\* ---- the rows of the last event ---------------------------------------------------------------------------------
Good(i, r) == /\ r.t \in {"a", "b"} /\ r.id = NodeAt(r.t) /\ r.n # NodeAt(r.t)
              /\ r.n \in WL(i, NodeAt(r.t)) /\ NodeAt(r.t) \in WL(i, r.n)
(* (a) NoLossByCleanup: a Tell that returned nil and whose packet reached the destination's handler was delivered,   *)
(* unless the receiver's whitelist refuses the sender, somebody dialled the address with another identity, or a     *)
(* packet was in flight over a tick boundary (the two idle clocks may then disagree).                                *)
LostP(i, ev, r) == /\ r.ret = "ok" /\ r.fed /\ ~r.delivered /\ r.id = NodeAt(r.t) /\ r.t \in {"a", "b"}
                   /\ r.n \in WL(i, NodeAt(r.t))
                   /\ ~ev.baddial /\ ~ev.heldtick
(* (c) CleanupTransparent: a Tell to the right identity of an open, mutually whitelisted peer returns nil; its      *)
(* context (3 ticks) does not end first.  Claimed for behaviours whose network was prompt up to then (a hello that  *)
(* was in flight for ticks can outlive the channel that sent it: Channel-level known finding), and for the          *)
(* behaviours in which the model passes through a state of the recorded finding (reported as that finding).         *)
StuckP(i, ev, r) == /\ Good(i, r) /\ r.ret = "ctx" /\ ev.closes = 0 /\ ~ev.baddial
(* (d) a Tell called after Close returned fails *)
AfterCloseP(r) == r.afterclose => r.ret \notin {"ok", "none"}
(* attribution and whitelist at delivery (C04 restated; cheap to evaluate here) *)
AttributionP(r) == r.delivered => (r.srckey = r.n /\ r.srcaddr = Addr(r.n))
WhitelistP(i, r) == r.delivered => r.n \in WL(i, NodeAt(r.t))
(* the identity comparison after WaitReady: a Tell addressed to identity X at address t is handed to X only *)
DialSafetyP(r) == (r.delivered \/ r.ret = "ok") => r.id = NodeAt(r.t)

Drift(ev) == \/ ev.real.st # ev.exp.st
             \/ \E n \in Node, t \in Addrs : ev.real.store[n][t] # ev.exp.store[n][t]
             \/ ev.real.rets # ev.exp.rets
             \/ ToSet(ev.real.delivered) # ToSet(ev.exp.delivered)

TraceNext ==
    /\ l <= Len(Log)
    /\ (fresh \/ l \notin starts)
    /\ fresh' = FALSE /\ starts' = starts /\ l' = l + 1
    /\ LET ev == Log[l] IN
       IF ev.ev = "init" THEN prev' = [n \in Node |-> {}]
       ELSE IF ev.ev = "skip" THEN prev' = prev
       ELSE
           LET known == ev.exp.kf \/ ev.exp.hopeless
               vs == (IF ev.panic # "" THEN {"NoPanic"} ELSE {})
                     \cup (IF \E n \in Node : ~SilentP(ev, n) THEN {"StoreBounded"} ELSE {})
                     \cup (IF ~OneChannelP(ev) THEN {"OneChannel"} ELSE {})
                     \cup (IF ~CloseSilentP(ev) THEN {"CloseStops"} ELSE {})
                     \cup (IF ~CloseKnownP(ev) THEN {"CloseStopsKnown"} ELSE {})
               ve == IF ev.ev # "end" THEN {} ELSE
                     (IF \E k \in 1..Len(ev.tells) : LostP(l, ev, ev.tells[k])
                      THEN (IF known THEN {"NoLossKnown"} ELSE {"NoLossByCleanup"}) ELSE {})
                     \cup (IF known /\ \E k \in 1..Len(ev.tells) : StuckP(l, ev, ev.tells[k]) THEN {"CleanupTransparentKnown"} ELSE {})
                     \cup (IF ~known /\ \E k \in 1..Len(ev.tells) : StuckP(l, ev, ev.tells[k]) /\ ev.tells[k].lastfault < 0
                           THEN {"CleanupTransparent"} ELSE {})
                     \cup (IF \E k \in 1..Len(ev.tells) : ~AfterCloseP(ev.tells[k]) THEN {"TellAfterClose"} ELSE {})
                     \cup (IF \E k \in 1..Len(ev.tells) : ~AttributionP(ev.tells[k]) THEN {"Attribution"} ELSE {})
                     \cup (IF \E k \in 1..Len(ev.tells) : ~WhitelistP(l, ev.tells[k]) THEN {"Whitelist"} ELSE {})
                     \cup (IF \E k \in 1..Len(ev.tells) : ~DialSafetyP(ev.tells[k]) THEN {"DialSafety"} ELSE {})
           IN /\ prev' = [n \in Node |-> Present(ev, n)]
              /\ (vs \cup ve # {}) => PrintT(ToJson(<<"VIOL", l, ev.beh, vs \cup ve>>))
              /\ (ev.valid /\ Drift(ev)) => PrintT(ToJson(<<"DRIFT", l, ev.beh, ev.act.a>>))

TraceSpec == TraceInit /\ [][TraceNext]_tvars
AllConsumed == TLCGet("distinct") >= Len(Log) + 1
=============================================================================
