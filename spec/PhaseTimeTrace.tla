--------------------------- MODULE PhaseTimeTrace ---------------------------
(* Binds PhaseTime.tla to the real phasetime.go: each log line (funcreplay -mode phasetime) holds  *)
(* one case (x, now) in ticks, the units used, and what NewPhaseTime32 / UTC / lastEvenEpoch /       *)
(* lastOddEpoch / nextOddEpoch returned, scaled back to ticks.  With the stored field counting      *)
(* `units`, every units value is the faithful scaling R = 1, M = P.                                 *)
(* VIOL: a law operator of PhaseTime is false on the observation.  DRIFT: the observation differs    *)
(* from what the as-coded model computes (also before 1970, where no law is claimed).               *)
EXTENDS Integers, Sequences, FiniteSets, TLC, Json, IOUtils, PhaseTimeU

PT == INSTANCE PhaseTime WITH P <- TP, R <- 1, M <- TP, XMin <- 0, XMax <- 0, x <- 0, now <- 0

Log == ndJsonDeserialize(IOEnv.TRACE)
VARIABLES l, fresh, starts
NShards == atoi(IOEnv.NSHARDS)
ComputeStarts == {1} \cup {(k * Len(Log)) \div NShards + 1 : k \in 1..(NShards - 1)}

Abs(a) == IF a < 0 THEN -a ELSE a
Viol(ev) ==
    IF ev.panic THEN {"NoPanic"} ELSE
    LET pt == [odd |-> ev.odd, d |-> ev.d] IN
    {n \in {"UnitResolution", "OddEvenChoice", "RoundTrip", "WrongIsOffByPeriod", "DecodeNear", "EpochLaws", "Resolution"} :
        CASE n = "UnitResolution" -> ~ev.exact
          [] n = "OddEvenChoice" -> ~PT!OddEvenChoiceP(ev.x, pt)
          [] n = "RoundTrip" -> ~PT!RoundTripP(ev.x, ev.now, ev.dec)
          [] n = "WrongIsOffByPeriod" -> ~PT!WrongIsOffByPeriodP(ev.x, ev.now, ev.dec)
          [] n = "DecodeNear" -> ~ev.near \/ (ev.x >= 0 /\ ~PT!DecodeNearGenuineP(ev.now, ev.dec))
          [] n = "EpochLaws" -> ~PT!EpochLawsP(ev.now, ev.le, ev.lo, ev.no)
          [] n = "Resolution" -> /\ ev.x >= 0 /\ ev.now >= 0 /\ Abs(ev.now - ev.x) < PT!Quarter
                                 /\ (ev.sub # <<0, 0, 1, 1>> \/ ~ev.subex)}
Drift(ev) ==
    IF ev.panic THEN {} ELSE
    {n \in {"New", "Decode", "Epochs", "ExactSkew"} :
        CASE n = "New" -> PT!New(ev.x) # [odd |-> ev.odd, d |-> ev.d]
          [] n = "Decode" -> PT!Decode([odd |-> ev.odd, d |-> ev.d], ev.now) # ev.dec
          [] n = "Epochs" -> <<PT!LastEven(ev.now), PT!LastOdd(ev.now), PT!NextOdd(ev.now)>> # <<ev.le, ev.lo, ev.no>>
          [] n = "ExactSkew" -> ~PT!ExactSkewP(ev.x, ev.now, ev.dec)}

TraceInit == starts = ComputeStarts /\ l \in starts /\ fresh = TRUE
TraceNext == /\ l <= Len(Log)
             /\ (fresh \/ l \notin starts)
             /\ fresh' = FALSE /\ starts' = starts
             /\ l' = l + 1
             /\ LET vs == Viol(Log[l]) IN (vs # {}) => PrintT(ToJson(<<"VIOL", l, l, vs>>))
             /\ LET ds == Drift(Log[l]) IN (ds # {}) => PrintT(ToJson(<<"DRIFT", l, l, ds>>))
TraceSpec == TraceInit /\ [][TraceNext]_<<l, fresh, starts>>
AllConsumed == TLCGet("distinct") >= Len(Log) + 1
=============================================================================
