SPECIFICATION CoverSpec
CONSTANTS
  Locus <- SmallLocus
  Keys <- SmallKeys
  Queries <- SmallQueries
  Configs <- SmallConfigs
  Vals = {1}
  Times = {1, 2}
  TouchTimes = {0}
  ExpTimes = {2, 3}
  Exps = {0, 1, 2}
  MaxOps = 3
VIEW view
INVARIANTS DumpEvery
CHECK_DEADLOCK FALSE
