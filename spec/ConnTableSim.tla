---------------------------- MODULE ConnTableSim ----------------------------
(* Random schedules for conntabreplay: TLC's simulation mode over ConnTableGen.                    *)
EXTENDS ConnTableGen
\* ---- random schedules (simulation mode): one random group at a time, one random interleaving; the schedule
\* is printed when it is complete
VARIABLE done
SimInit == SchedInit /\ done = FALSE
SimNext ==
    \/ Step /\ UNCHANGED done
    \/ /\ phase = "idle" /\ Len(sched) < MaxGroups
       /\ \E g \in {RandomElement({a \in Alphabet : ~SlowNow(a) /\ Runnable(a)})} : StartGroup(g) /\ UNCHANGED done
    \/ /\ phase = "idle" /\ Len(sched) = MaxGroups /\ ~done
       /\ PrintT(ToJson(<<"SCHED", sched>>))
       /\ done' = TRUE /\ UNCHANGED genvars
SimSpec == SimInit /\ [][SimNext]_<<genvars, done>>

ASSUME CoreDump
=============================================================================
