------------------------------ MODULE MC_Frag ------------------------------
(* Constants for model checking Frag.tla: 2 sources x 2 messages x <= 3 parts, 2 workers. *)
EXTENDS Frag
Src2 == {1, 2}
WSym == Permutations(Workers)
\* PartCap = 2: source 1 tells a 2-part (3 blocks) and a 3-part (5 blocks) message,
\*              source 2 a single-part (2 blocks) and a 2-part (4 blocks, exact multiple) message
Lens_cap2 == (1 :> <<3, 5>>) @@ (2 :> <<2, 4>>)
\* PartCap = 1 (the smallest inner MTU): parts are single blocks
Lens_cap1 == (1 :> <<2, 3>>) @@ (2 :> <<1, 2>>)
\* deep: four multi-part messages (2, 3 | 2, 2 parts)
Lens_deep == (1 :> <<3, 5>>) @@ (2 :> <<3, 4>>)
=============================================================================
