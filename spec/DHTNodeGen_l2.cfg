SPECIFICATION GenSpec
CONSTANTS
  Locus <- L2Locus
  Keys <- L2Keys
  Queries <- L2Queries
  Vals <- NNone
  Times <- NNone
  TouchTimes <- NNone
  ExpTimes <- NNone
  Exps <- NNone
  Configs <- NNone
  MaxOps = 10
  LocalID <- NLocal
  PeerIDs <- L2Peers
  DataKeys <- L2Data
  Infos = {1, 2}
  DVals = {1, 2}
  PutTTLs = {0, 3}
  HPutTTLs = {1, 3, 99}
  PeerTTL = 3
  MaxDataTTL = 2
  MaxNow = 5
  NodeConfigs <- L2Configs
  Targets <- L2Targets
  Limits <- L2Limits
  Orig <- NNone

CHECK_DEADLOCK FALSE
