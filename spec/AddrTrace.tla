----------------------------- MODULE AddrTrace -----------------------------
(***************************************************************************)
(* Binds Addr.tla (C16) to the real address codecs.  Each log line is what  *)
(* the real MarshalText / ParseAddr of a real (nested) swarm returned for   *)
(*   ev = "rt": an address a swarm hands out -- generated from a TLC case   *)
(*              (src "gen": classes concretised with seeded instances) or   *)
(*              harvested from a running swarm (src "harvest": LocalAddrs,  *)
(*              Src / Dst of delivered messages in both directions);        *)
(*   ev = "pt": arbitrary text (seeded mutation of a marshalled address);   *)
(*   ev = "skip": a harvest stack that could not be set up (no verdict).    *)
(* The laws are those of Addr.tla, evaluated on the observations:           *)
(*   RoundTrip   Parse(Marshal(a)) succeeded and equals a                   *)
(*   ParseTotal  Parse(text) failed cleanly, or p = Parse(text) satisfies   *)
(*               Parse(Marshal(p)) = p                                      *)
(*   NoPanic                                                                *)
(* and the model itself is bound to the code (DRIFT, never a violation):    *)
(*   MarshalText       the text of the representative instance differs from *)
(*                     Addr!Marshal(Val(a)) as computed by TLC              *)
(*   ModelDisagrees    Addr!RoundTrips(a) and the real outcome differ       *)
(***************************************************************************)
EXTENDS Integers, Sequences, FiniteSets, TLC, Json, IOUtils

Log == ndJsonDeserialize(IOEnv.TRACE)
VARIABLES l, fresh, starts
NShards == atoi(IOEnv.NSHARDS)
ComputeStarts == {1} \cup {(k * Len(Log)) \div NShards + 1 : k \in 1..(NShards - 1)}

RealRoundTrip(ev) == ~ev.merr /\ ~ev.perr /\ ev.eq
ParseTotal(ev) == ev.merr \/ ev.perr \/ (~ev.p2err /\ ev.eq2)

Viol(ev) ==
    IF ev.ev = "skip" THEN {}
    ELSE {n \in {"NoPanic", "RoundTrip", "ParseTotal"} :
            CASE n = "NoPanic" -> ev.panic
              [] n = "RoundTrip" -> ev.ev = "rt" /\ ~ev.panic /\ ev.reach /\ ~RealRoundTrip(ev)
              [] n = "ParseTotal" -> ~ev.panic /\ ~ParseTotal(ev)}

Drift(ev) ==
    IF ev.ev # "rt" \/ ev.src # "gen" \/ ev.panic THEN {}
    ELSE {n \in {"MarshalText", "ModelDisagrees"} :
            CASE n = "MarshalText" -> ev.var = 0 /\ ~ev.merr /\ ev.text # ev.mtext
              [] n = "ModelDisagrees" -> ev.mrt # RealRoundTrip(ev)}

TraceInit == starts = ComputeStarts /\ l \in starts /\ fresh = TRUE
TraceNext == /\ l <= Len(Log)
             /\ (fresh \/ l \notin starts)
             /\ fresh' = FALSE /\ starts' = starts
             /\ l' = l + 1
             /\ LET vs == Viol(Log[l]) IN (vs # {}) => PrintT(ToJson(<<"VIOL", l, Log[l].case, vs>>))
             /\ LET ds == Drift(Log[l]) IN (ds # {}) => PrintT(ToJson(<<"DRIFT", l, Log[l].case, ds>>))
TraceSpec == TraceInit /\ [][TraceNext]_<<l, fresh, starts>>
AllConsumed == TLCGet("distinct") >= Len(Log) + 1
=============================================================================
