SPECIFICATION Spec
CONSTANTS
  Nodes = {1, 2}
  Ids = {1, 2, 3}
  Transport = "ssh"
  MaxConn = 3
  MaxOps = 1
  MaxEnv = 1
  Fixes <- MCNoSshCloseAll
INVARIANTS AfterClose
CHECK_DEADLOCK FALSE
