--------------------------- MODULE PacketConnTrace ---------------------------
(* Binds PacketConn.tla to the real p2pconn.packetConn over s/memswarm (funcreplay -mode          *)
(* packetconn).  A monitor: `st` follows the real connection (updated from what was observed, with  *)
(* PacketConn's own After* operators), the law operators of PacketConn are evaluated on the state   *)
(* before each operation and what the operation returned.                                          *)
(*   VIOL   a law operator is false on the observation                                             *)
(*   DRIFT  the observation is not what the as-coded model allows, but no law is falsified          *)
(* "soon" deadlines are real time (200 ms): once set, a timeout may be observed at any later         *)
(* operation; the monitor then treats the deadline as passed.                                       *)
EXTENDS PacketConn, IOUtils

Log == ndJsonDeserialize(IOEnv.TRACE)
VARIABLES l
tvars == <<vars, l>>

Names(S) == {n \in DOMAIN S : S[n]}      \* S: function name -> BOOLEAN

\* the blocked reader had already returned when the operation started: only a deadline of its own can do that
AfterPre(s, pre) ==
    IF pre = "none" THEN s
    ELSE [s EXCEPT !.rd = "idle", !.rdl = IF pre = "timeout" /\ s.rctx = "soon" /\ @ = "soon" THEN "past" ELSE @]
PreViol(s, pre) == pre # "none" /\ ~(pre = "timeout" /\ s.rd = "blocked" /\ s.rctx \in {"soon", "maybe"})
\* for WakeHasCauseP a "maybe" context is as good a cause as a "soon" one
W(s) == [s EXCEPT !.rctx = IF @ = "maybe" THEN "soon" ELSE @]

Unblock(s, wake) == IF wake # "none" THEN [s EXCEPT !.rd = "idle"] ELSE s

\* one operation event: [viol |-> set of names, drift |-> set of names, s2 |-> next monitor state]
OpRes(ev, s) ==
    LET wake == ev.wake.k IN
    CASE ev.op \in {"setr", "setw", "setb"} ->
            [viol |-> Names([DeadlineWakesBlocked |-> ~DeadlineWakesBlockedP(s, ev.op, ev.k, wake),
                             WakeHasCause |-> ~WakeHasCauseP(W(s), ev.op, wake)]),
             drift |-> IF wake # SetWake(s, ev.op, ev.k) /\ ~(wake = "timeout" /\ s.rctx \in {"soon", "maybe"}) /\ DeadlineWakesBlockedP(s, ev.op, ev.k, wake) /\ WakeHasCauseP(W(s), ev.op, wake) THEN {"SetWake"} ELSE {},
             \* (a reader that stays blocked although the deadline was moved into the past -- the known finding --
             \* may, in an implementation that propagates the deadline late, time out at any later moment: rctx
             \* "maybe" permits such a timeout without requiring it)
             s2 |-> LET a == Unblock(AfterSet(s, ev.op, ev.k), wake) IN
                    IF ev.op \in {"setr", "setb"} /\ ev.k = "past" /\ a.rd = "blocked" /\ a.rctx # "soon" THEN [a EXCEPT !.rctx = "maybe"] ELSE a]
      [] ev.op = "arrive" ->
            [viol |-> Names([WakeHasCause |-> ~WakeHasCauseP(W(s), "arrive", wake),
                             BlockedGetsPacket |-> ArriveWake(s) = "pkt" /\ wake \notin {"pkt", "timeout"},
                             PacketIntact |-> wake = "pkt" /\ ~(ev.wake.pid = ev.pid /\ ev.wake.intact /\ ev.wake.fromOk)]),
             drift |-> {},
             s2 |-> IF wake = "pkt" THEN Unblock(s, wake)
                    ELSE LET s1 == Unblock(s, wake) IN
                         IF ArriveAccepted(s1) THEN [s1 EXCEPT !.q = Append(s1.q, ev.pid)] ELSE s1]
      [] ev.op = "read" ->
            IF ev.out = "skipped" THEN [viol |-> {}, drift |-> {"ReadWhileReading"}, s2 |-> s]
            ELSE LET out == ev.res.k
                     se == IF s.rdl = "soon" /\ out = "timeout" THEN [s EXCEPT !.rdl = "past"] ELSE s
                 IN [viol |-> Names([ReadResultKnown |-> out \notin {"pkt", "timeout", "closed", "blocked"},
                                     ExpiredNeverBlocks |-> ~ExpiredNeverBlocksP(se, out),
                                     ExpiredEmptyTimesOut |-> out # "other" /\ ~ExpiredEmptyTimesOutP(se, out),
                                     Fifo |-> ~FifoP(se, out, ev.res.pid),
                                     PacketIntact |-> out = "pkt" /\ ~(ev.res.intact /\ ev.res.fromOk),
                                     AvailableIsReturned |-> ~AvailableIsReturnedP(se, out),
                                     NoDeadlineBlocks |-> ~NoDeadlineBlocksP(se, out),
                                     ReadAfterClose |-> ~ReadAfterCloseP(se, out)]),
                     drift |-> IF out \notin ReadOutcomes(se) THEN {"ReadOutcome"} ELSE {},
                     s2 |-> IF out = "pkt" /\ se.q = <<>> THEN se
                            ELSE IF out \in {"pkt", "blocked"} THEN AfterRead(se, out) ELSE se]
      [] ev.op = "expire" ->
            [viol |-> Names([WakeHasCause |-> ~WakeHasCauseP(W(s), "expire", wake),
                             DeadlineExpires |-> ExpireWake(s) = "timeout" /\ wake # "timeout"]),
             drift |-> {},
             s2 |-> Unblock(AfterExpire(s), wake)]
      [] ev.op = "close" ->
            [viol |-> Names([CloseUnblocks |-> ~CloseUnblocksP(s, wake),
                             WakeHasCause |-> ~WakeHasCauseP(W(s), "close", wake) /\ ~(wake = "timeout" /\ s.rd = "blocked")]),
             drift |-> {},
             s2 |-> AfterClose(s)]
      [] ev.op = "write" ->
            [viol |-> Names([WriteAfterClose |-> ~WriteAfterCloseP(s, ev.out),
                             WriteDelivers |-> ev.out = "ok" /\ ~(ev.peerGot /\ ev.peerFromOk),
                             ErrorMeansNotSent |-> ev.out # "ok" /\ ev.peerGot,
                             WakeHasCause |-> ~WakeHasCauseP(W(s), "write", wake)]),
             drift |-> IF ev.out \notin WriteOutcomes(s) THEN {"WriteOutcome"} ELSE {},
             s2 |-> Unblock(s, wake)]
      [] OTHER -> [viol |-> {"UnknownOp"}, drift |-> {}, s2 |-> s]

Res(ev, s) ==
    IF ev.ev = "init" THEN
        [viol |-> Names([NoPanic |-> ev.panic, AddrRoundTrip |-> ~ev.panic /\ ~(ev.addrOk /\ ev.networkOk /\ ev.parseOk)]),
         drift |-> {}, s2 |-> S0]
    ELSE IF ev.panic THEN [viol |-> {"NoPanic"}, drift |-> {}, s2 |-> s]
    ELSE LET s1 == AfterPre(s, ev.pre.k)
             r == OpRes(ev, s1)
         IN [viol |-> r.viol \cup (IF PreViol(s, ev.pre.k) THEN {"WakeHasCause"} ELSE {}), drift |-> r.drift, s2 |-> r.s2]

TraceInit == l = 1 /\ st = S0 /\ nsent = 0 /\ last = [op |-> "init"] /\ nops = 0
TraceNext ==
    /\ l <= Len(Log)
    /\ LET ev == Log[l]
           r == Res(ev, st)
       IN /\ st' = r.s2
          /\ (r.viol # {}) => PrintT(ToJson(<<"VIOL", l, ev.id, r.viol>>))
          /\ (r.drift # {}) => PrintT(ToJson(<<"DRIFT", l, ev.id, r.drift>>))
    /\ l' = l + 1
    /\ UNCHANGED <<nsent, last, nops>>
TraceSpec == TraceInit /\ [][TraceNext]_tvars
AllConsumed == TLCGet("distinct") >= Len(Log) + 1
=============================================================================
