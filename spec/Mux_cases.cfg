SPECIFICATION Spec
CONSTANTS
  MKinds = {"str", "var", "u16", "u32", "u64"}
  Mode = "cases"
INVARIANTS RoundTrip Isolation VarintAgree
CHECK_DEADLOCK FALSE
