SPECIFICATION GenSpec
CONSTANTS
  Locus <- WLocus
  Keys <- WBoundaryKeys
  Queries <- WQueries
  Configs <- WBoundaryConfigs
  Vals = {1, 2}
  Times = {1, 2, 3}
  TouchTimes = {0, 2}
  ExpTimes = {1, 2, 3, 4}
  Exps = {0, 1, 2, 3}
  MaxOps = 8
CHECK_DEADLOCK FALSE
