SPECIFICATION SmallSpec
CONSTANTS
  N = 3
  Ops <- AllOps
  Initials <- SmallInitials
  Replies <- SubsetReplies
  Mins <- SmallMins
  ValClasses = {0, 1, 2, 3}
  VModes = {2}
  Dists <- NoDists
  Orig = FALSE
  MaxReply = 0
  MaxInitLen = 0
  HonestSizes = {}
  HonestEvery = 1
INVARIANTS Dump
CHECK_DEADLOCK FALSE
