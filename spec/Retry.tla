-------------------------------- MODULE Retry --------------------------------
(***************************************************************************)
(* retry.Retry and the backoff functions                                   *)
(* (/repo/s/swarmutil/retry/retry.go), transcribed as coded.               *)
(*                                                                         *)
(* Retry's loop with an explicit discrete clock (the backoff constructors  *)
(* are in RetryBackoff.tla).                                               *)
(*   for i := 0; ; i++ {                                                   *)
(*       if err := fn(); err == nil || !predicate(err) { return err }      *)
(*       select { case <-ctx.Done(): return ctx.Err()                      *)
(*                case <-waiter.Wait(i, startTime): }                      *)
(*   }                                                                     *)
(* fn takes FnDur ticks; Wait(i) arms a timer Backoff(i) ticks after the   *)
(* call returned; the context ends at CancelAt (or never).  Go's select    *)
(* takes any ready case (both ready: either one), and blocks until the     *)
(* first becomes ready otherwise: time advances only when no case is ready.*)
(***************************************************************************)
EXTENDS Integers, Sequences, FiniteSets, TLC, Json

CONSTANTS
    BackoffSeq,     \* <<d0, d1, ...>>: delay before retry i+1 (the last entry repeats)
    MaxCalls,       \* bound on the number of fn calls of one behaviour
    FnDurs,         \* set of durations of one fn call
    CancelTimes     \* set of times at which the context may end (-1 = never)

Max2(a, b) == IF a > b THEN a ELSE b
Min2(a, b) == IF a < b THEN a ELSE b
Backoff(i) == IF i + 1 <= Len(BackoffSeq) THEN BackoffSeq[i + 1] ELSE BackoffSeq[Len(BackoffSeq)]
Never == -1

VARIABLES
    pc,         \* "call" | "select" | "done"
    i,          \* loop counter = numRetries passed to Wait
    clock,
    fireAt,     \* when the armed timer fires
    cancelAt,   \* when the context ends (Never: it does not)
    calls,      \* history: <<[t0, t1, out, ctxdone, idx]>>  one record per fn call
    waits,      \* history: <<[n, ctxReady, tmReady, took]>>  one record per select
    ret,        \* "none" | "nil" | "fatal" | "ctx"
    retAt,
    wclosed     \* number of waiter.Close calls

vars == <<pc, i, clock, fireAt, cancelAt, calls, waits, ret, retAt, wclosed>>

CtxDone(t) == cancelAt # Never /\ cancelAt <= t

Init ==
    /\ pc = "call" /\ i = 0 /\ clock = 0 /\ fireAt = 0
    /\ cancelAt \in CancelTimes
    /\ calls = <<>> /\ waits = <<>> /\ ret = "none" /\ retAt = 0 /\ wclosed = 0

\* fn() (retry.go:27); the bound MaxCalls forces the last call to end the loop
Call(out, dt) ==
    /\ pc = "call"
    /\ (Len(calls) + 1 = MaxCalls) => out # "retry"
    /\ clock' = clock + dt
    /\ calls' = Append(calls, [t0 |-> clock, t1 |-> clock + dt, out |-> out, ctxdone |-> CtxDone(clock), idx |-> i])
    /\ IF out = "retry"
       THEN /\ pc' = "select"
            /\ fireAt' = clock + dt + Backoff(i)        \* waiter.Wait(i, startTime) -> time.After(bf(i))
            /\ UNCHANGED <<ret, retAt, wclosed>>
       ELSE /\ pc' = "done" /\ ret' = out /\ retAt' = clock + dt
            /\ wclosed' = wclosed + 1                   \* defer rc.waiter.Close()
            /\ UNCHANGED fireAt
    /\ UNCHANGED <<i, cancelAt, waits>>

SelCtx ==
    /\ pc = "select" /\ CtxDone(clock)
    /\ waits' = Append(waits, [n |-> i, ctxReady |-> TRUE, tmReady |-> (clock >= fireAt), took |-> "ctx"])
    /\ pc' = "done" /\ ret' = "ctx" /\ retAt' = clock /\ wclosed' = wclosed + 1
    /\ UNCHANGED <<i, clock, fireAt, cancelAt, calls>>

SelTimer ==
    /\ pc = "select" /\ clock >= fireAt
    /\ waits' = Append(waits, [n |-> i, ctxReady |-> CtxDone(clock), tmReady |-> TRUE, took |-> "timer"])
    /\ i' = i + 1 /\ pc' = "call"
    /\ UNCHANGED <<clock, fireAt, cancelAt, calls, ret, retAt, wclosed>>

\* blocked in select: time jumps to the next event
Tick ==
    /\ pc = "select" /\ ~CtxDone(clock) /\ clock < fireAt
    /\ clock' = IF cancelAt # Never /\ cancelAt > clock THEN Min2(cancelAt, fireAt) ELSE fireAt
    /\ UNCHANGED <<pc, i, fireAt, cancelAt, calls, waits, ret, retAt, wclosed>>

Next == \/ \E out \in {"nil", "fatal", "retry"}, dt \in FnDurs : Call(out, dt)
        \/ SelCtx \/ SelTimer \/ Tick
Spec == Init /\ [][Next]_vars

-----------------------------------------------------------------------------
(* Laws of the loop, over the observable history (calls, waits, ret):       *)
(* RetryTrace evaluates the P-operators on what the real Retry did.         *)

Last(s) == s[Len(s)]

\* NilStops: the first call that returns nil (or an error the predicate rejects) is the last call,
\* and Retry returns exactly that; every earlier call returned a retryable error
NilStopsP(cs, r) ==
    /\ \A j \in 1..(Len(cs) - 1) : cs[j].out = "retry"
    /\ (r \in {"nil", "fatal"}) => (cs # <<>> /\ Last(cs).out = r)
    /\ (cs # <<>> /\ Last(cs).out # "retry") => r \in {"none", Last(cs).out}

\* CtxErrOnlyIfDone: the context's error is returned only when the context has ended
CtxErrOnlyIfDoneP(r, ctxIsDone) == (r = "ctx") => ctxIsDone

\* WaitIndexed: the j-th wait is Wait(j-1, ...), one wait between consecutive calls
WaitIndexedP(cs, ws) ==
    /\ \A j \in 1..Len(ws) : ws[j].n = j - 1
    /\ \A j \in 1..Len(cs) : cs[j].idx = j - 1
    /\ Len(ws) \in {Len(cs) - 1, Len(cs)}

\* NoCallAfterCtxEnded, as coded: fn is called with an ended context only (a) as the very first
\* call (Retry does not look at the context before calling fn) or (b) right after a select in
\* which the timer was ready as well (Go picks either).  After a select that saw the context
\* ended and the timer not ready there is no further call.
NoCallAfterCtxEndedP(cs, ws) ==
    \A j \in 2..Len(cs) : cs[j].ctxdone => (ws[j - 1].tmReady /\ ws[j - 1].took = "timer")
CtxSelectEndsP(ws, r) ==
    \A j \in 1..Len(ws) : (ws[j].ctxReady /\ ~ws[j].tmReady) => (j = Len(ws) /\ ws[j].took = "ctx" /\ r \in {"none", "ctx"})

\* WaiterClosedOnce: the waiter is closed exactly once, when Retry returns
WaiterClosedOnceP(r, nclosed) == nclosed = (IF r = "none" THEN 0 ELSE 1)

NilStops == NilStopsP(calls, ret)
CtxErrOnlyIfDone == CtxErrOnlyIfDoneP(ret, CtxDone(clock))
WaitIndexed == WaitIndexedP(calls, waits)
NoCallAfterCtxEnded == NoCallAfterCtxEndedP(calls, waits)
CtxSelectEnds == CtxSelectEndsP(waits, ret)
WaiterClosedOnce == WaiterClosedOnceP(ret, wclosed)

\* timing laws (model: zero scheduling latency, so the lower bounds are met exactly)
\* DelayExact: retry j+1 starts exactly Backoff(j) after call j returned
DelayExact == \A j \in 1..(Len(calls) - 1) : calls[j + 1].t0 = calls[j].t1 + Backoff(j - 1)
\* PromptCtx: when the context ends, Retry returns at once if it is waiting, and as soon as the
\* running fn returns otherwise -- unless the timer fired at that very instant
CallsAfterCancel == Cardinality({j \in 1..Len(calls) : calls[j].ctxdone})
PositiveBackoff == \A j \in 1..Len(BackoffSeq) : BackoffSeq[j] > 0
PromptCtx == (ret = "ctx") => retAt = Max2(cancelAt, Last(calls).t1)
\* with a positive backoff at most ONE call starts after the context ended ...
AtMostOneCallAfterCancel == PositiveBackoff => CallsAfterCancel <= 1
\* ... and with a zero backoff the loop may keep calling fn with an ended context (each select is a
\* coin flip): this invariant is EXPECTED TO BE VIOLATED in Retry_zero.cfg (witness of the spin)
ZeroBackoffNeverSpins == CallsAfterCancel <= 1

\* every complete behaviour (the history is part of the state): the replayer's scripts
DumpDone == (pc = "done") => PrintT(ToJson(<<"BEH", [cancelAt |-> cancelAt, calls |-> calls, waits |-> waits, ret |-> ret]>>))

\* termination under the bound
FairSpec == Spec /\ WF_vars(Next)
Terminates == <>(pc = "done")
=============================================================================
