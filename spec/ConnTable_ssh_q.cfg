SPECIFICATION Spec
CONSTANTS
  Nodes = {1, 2}
  Ids = {1, 2, 3}
  Transport = "ssh"
  MaxConn = 3
  MaxOps = 2
  MaxEnv = 0
  Fixes <- MCFixes
INVARIANTS TypeOK TableIdentity StepLaws DeadRemoved AfterClose HealthyDelivered NoOrphan
CHECK_DEADLOCK FALSE
