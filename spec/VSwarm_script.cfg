SPECIFICATION Spec
CONSTANTS
  Addrs = {0, 1, 2}
  Unknown = 7
  QLen = 1
  Kind = "mem"
  TfKind = "script"
  Wrap = "none"
  Allow <- AllowAll
  N0 = 2
  Sizes = {"s"}
  TFs = {"pass", "drop", "grow", "altsrc", "altdst"}
  Ctxs = {"wait"}
  Handlers = {"echo"}
  PairKinds = {}
  MaxOps = 3
  MaxAsks = 1
INVARIANTS TypeOK LawsHold MustIsQueued
CHECK_DEADLOCK FALSE
