SPECIFICATION CoverSpec
CONSTANTS
  Locus <- SmallLocus
  Keys <- FocusKeys
  Queries <- FocusQueries
  Configs <- FocusConfigs
  Vals = {1}
  Times = {1}
  TouchTimes = {0}
  ExpTimes = {2, 3, 4}
  Exps = {0, 1, 2, 3}
  MaxOps = 5
VIEW view
ACTION_CONSTRAINT EdgeDump
CHECK_DEADLOCK FALSE
