----------------------------- MODULE HubsTrace -----------------------------
(***************************************************************************)
(* Trace specification for C12 / C13: folds the abstract history           *)
(* specification HubsHist over a log recorded from the real code by        *)
(* harness/cmd/hubsrec (ndjson, one event per line, windows separated by   *)
(* "reset" events that carry the level, the component/stack name, the      *)
(* phase tag and the queue capacity).                                      *)
(*                                                                         *)
(* Validation never blocks: every event is consumed; property operators    *)
(* falsified by an event are printed as <<"VIOL", line, case, {names}>>,   *)
(* unexplainable-but-harmless steps as <<"DRIFT", line, case, {what}>>.    *)
(* The log is validated as NSHARDS independent chains (one TLC worker      *)
(* each), every chain starting at a reset event.                           *)
(***************************************************************************)
EXTENDS HubsHist, Json, IOUtils

Log == ndJsonDeserialize(IOEnv.TRACE)

VARIABLES l, h, fresh, starts
tvars == <<l, h, fresh, starts>>

NShards == atoi(IOEnv.NSHARDS)
Resets == {i \in 1..Len(Log) : Log[i].ev = "reset"}
ComputeStarts == {1} \cup {CHOOSE i \in Resets : i >= c /\ \A j \in Resets : j >= c => i <= j :
                      c \in {c2 \in {(k * Len(Log)) \div NShards + 1 : k \in 1..(NShards - 1)} :
                                 \E i \in Resets : i >= c2}}

TraceInit ==
  /\ starts = ComputeStarts
  /\ l \in starts
  /\ fresh = TRUE
  /\ h = HInit("stack", 0)

TraceNext ==
  /\ l <= Len(Log)
  /\ (fresh \/ l \notin starts)
  /\ fresh' = FALSE
  /\ starts' = starts
  /\ l' = l + 1
  /\ LET ev == Log[l] IN
     IF ev.ev = "reset"
     THEN h' = HInit(ev.lvl, ev.cap)
     ELSE /\ h' = HNext(h, ev)
          /\ LET vs == HViol(h, ev) IN (vs # {}) => PrintT(ToJson(<<"VIOL", l, ev.case, vs>>))
          /\ LET ds == HDrift(h, ev) IN (ds # {}) => PrintT(ToJson(<<"DRIFT", l, ev.case, ds>>))

TraceSpec == TraceInit /\ [][TraceNext]_tvars

\* every chain consumes its whole shard: |states| = Len(Log) + |starts| (checked by the driver too)
AllConsumed == TLCGet("distinct") >= Len(Log) + 1
=============================================================================
