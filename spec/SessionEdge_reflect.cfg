SPECIFICATION ReflectCoverSpec
CONSTANTS
  Sess <- Cross
  Role <- CrossRole
  KeyOf <- CrossKey
  EphOf <- CrossEph
  SessIdx <- CrossIdx
  MaxForge = 2
  MaxSend = 0
  Window = 1000
  Weak = {}
  MaxSteps = 0
VIEW view
ACTION_CONSTRAINT EdgeDump
CHECK_DEADLOCK FALSE
