------------------------------ MODULE ConnTable ------------------------------
(* G04 "connection tables": how the two connection-oriented transports of go-p2p manage their        *)
(* per-peer connections, as coded (after the five repairs listed under Fixes):                         *)
(*   quic  /repo/s/quicswarm/quicswarm.go   sessCache map[sessionKey{addr, outbound}]quic.Connection   *)
(*         withSession :255  putSession :423  serve :292  handleSession :315  Close :195               *)
(*   ssh   /repo/s/sshswarm/swarm.go        conns map[string]*Conn, one key per remote address          *)
(*         getConn :184  addConn :247  deleteConn :257  serveLoop :222  Close :84  conn.go loop :130     *)
(* One action per critical section.  A connection has a client end and a server end; an end is         *)
(*   "hs"     client end while dialling / shaking hands                                                *)
(*   "none"   server end before Accept / newServer has produced it                                     *)
(*   "open"   established, its handler goroutine (handleSession / Conn.loop) running                    *)
(*   "zomb"   established and open but without handler and in no table (a leak)                         *)
(*   "dead"   the connection has ended; the handler has not yet run its removal                         *)
(*   "closed" released                                                                                 *)
(* An end is STALE when it is open while the other end is dead/closed and nobody told it (the peer      *)
(* crashed, or its CONNECTION_CLOSE was lost): quic only; it ends by Expire (the idle timeout).        *)
(*                                                                                                     *)
(* Identities: node n has identity n and lives at address n; an operation is addressed to              *)
(* (identity id, address to); id # to names an identity that does not live there.  No attacker here    *)
(* (C04 owns that): a connection authenticates the true identities of its two ends.                    *)
(*                                                                                                     *)
(* Deliberate deviations: the Ask round trip is one message plus AskAnswer; quic streams are not        *)
(* modelled (a Tell is one message on the connection); the serve loop's sequential Accept is one        *)
(* AcceptDone per connection; allowFunc is constantly true; Kill is what the harness can do            *)
(* (quic: close the sessions that are in a table; ssh: cut every TCP connection of the pair).           *)
EXTENDS Integers, Sequences, FiniteSets, TLC

CONSTANTS
    Nodes,      \* node numbers, e.g. {1, 2}
    Ids,        \* identities an operation may name (a superset of Nodes)
    Transport,  \* "quic" | "ssh"
    MaxConn,    \* connections ever opened
    MaxOps,     \* Tell / Ask operations ever started
    MaxEnv,     \* environment events (Kill, Restart, Expire, CloseSwarm)
    Fixes       \* the repairs that are in the code; the current tree has AllFixes

AllFixes == {"removeOwn", "closeMismatch", "sshRemoveDead", "sshCloseLoser", "sshCloseAll"}
\*  removeOwn      quicswarm handleSession removes the cache entry only if it still holds THIS session
\*                 (it deleted by key: the end of an overwritten session removed its live successor)
\*  closeMismatch  quicswarm withSession closes a dialled session whose peer is not the wanted identity
\*                 (it stayed open, unserved; the peer had accepted it and preferred it for its own Tells)
\*  sshRemoveDead  sshswarm Conn.loop removes its connection from the table when it ends (nothing ever
\*                 did: after one broken connection the peer was unreachable for ever)
\*  sshCloseLoser  sshswarm getConn closes the connection that lost the race against a concurrent dial
\*  sshCloseAll    sshswarm Close closes every connection in its table and marks the swarm closed: getConn
\*                 then closes a connection it has just dialled and returns ErrClosed, addConn refuses an
\*                 accepted one (Close closed the hubs and the listener only: tables, loop goroutines and
\*                 transports stayed for ever; formerly recorded as C12:AllReleased:sshswarm/...)
Fixed(f) == f \in Fixes

Quic == Transport = "quic"
Ssh == Transport = "ssh"

\* Recorded findings, modelled as coded and not re-reported:
\*  quicswarm.putSession overwrites a live session with the same key without closing it (G04:NoOrphan:quicswarm/replaced-session)
KF_QuicReplaceKeepsOpen == Quic
\* a closed swarm refuses connections that complete after Close (quic: transport and listener are gone)
RefusesWhenClosed == Quic \/ Fixed("sshCloseAll")

VARIABLES
    inc,        \* [Nodes -> Nat] incarnation of the node at that address
    closed,     \* [Nodes -> BOOLEAN] Swarm.Close was called on the current incarnation
    conns,      \* sequence of connections [cl, sv, clInc, svInc, ce, se, broken]
    tab,        \* [Nodes -> set of [key, c]]  the table; key = [id, ad, dir, eph]
    ops,        \* sequence of operations [n, kind, to, id, via, pc, c, res, by, byinc, healthy]
    msgs,       \* messages in flight [k, c, side (the receiving end), ask]
    dl,         \* deliveries [k, at, inc, src, ask]
    nenv,       \* environment events so far
    replaced,   \* ends <<c, side>> that were overwritten in their table while open (KF_QuicReplaceKeepsOpen)
    lastsrc     \* [Nodes -> [Nodes -> -1 | 0 | connection]] where the last Tell that n received from p came from:
                \* nothing yet / p's public address / (ssh) the ephemeral address of that inbound connection
vars == <<inc, closed, conns, tab, ops, msgs, dl, nenv, replaced, lastsrc>>

-------------------------------------------------------------------------------
Other(side) == IF side = "cl" THEN "sv" ELSE "cl"
EndSt(cs, c, side) == IF side = "cl" THEN cs[c].ce ELSE cs[c].se
EndNode(c, side) == IF side = "cl" THEN conns[c].cl ELSE conns[c].sv
EndInc(c, side) == IF side = "cl" THEN conns[c].clInc ELSE conns[c].svInc
SetEnd(cs, c, side, v) == IF side = "cl" THEN [cs EXCEPT ![c].ce = v] ELSE [cs EXCEPT ![c].se = v]
SideOf(c, n) == IF conns[c].cl = n THEN "cl" ELSE "sv"
CIds == 1..Len(conns)
Sides == {"cl", "sv"}
OpenSt == {"open", "zomb"}
GoneSt == {"dead", "closed"}
\* the end belongs to the node's current incarnation
Current(c, side) == EndInc(c, side) = inc[EndNode(c, side)]
IsStale(cs, c, side) == EndSt(cs, c, side) \in OpenSt /\ EndSt(cs, c, Other(side)) \in GoneSt

\* the table key under which the end `side` of connection c is stored
KeyAt(c, side) ==
    IF side = "cl" THEN [id |-> conns[c].sv, ad |-> conns[c].sv, dir |-> "out", eph |-> 0]
    ELSE [id |-> conns[c].cl, ad |-> conns[c].cl, dir |-> "in", eph |-> IF Ssh THEN c ELSE 0]
Find(t, key) == IF \E e \in t : e.key = key THEN (CHOOSE e \in t : e.key = key).c ELSE 0
Put(t, key, c) == {e \in t : e.key # key} \cup {[key |-> key, c |-> c]}
InTable(tb, c, side) == \E e \in tb[EndNode(c, side)] : e.c = c /\ e.key = KeyAt(c, side)

\* an end learns that the connection is over: a served end runs its removal next, an unserved one is just released
Notified(st) == IF st = "open" THEN "dead" ELSE IF st \in {"zomb", "none"} THEN "closed" ELSE st
\* both ends of c end now (a close that reaches the peer)
EndBoth(cs, c) == [cs EXCEPT ![c].ce = IF @ = "hs" THEN "hs" ELSE Notified(@), ![c].se = Notified(@), ![c].broken = TRUE]

Pending(k) == ops[k].pc # "done"
Done(os, k, res) == [os EXCEPT ![k].pc = "done", ![k].res = res]

-------------------------------------------------------------------------------
\* What an outside observer can see (the harness records exactly this).
Entries == UNION {{[n |-> n, kid |-> e.key.id, kad |-> e.key.ad, dir |-> e.key.dir,
                    rid |-> IF e.key.dir = "out" THEN conns[e.c].sv ELSE conns[e.c].cl,
                    alive |-> EndSt(conns, e.c, SideOf(e.c, n)) = "open",
                    stale |-> IsStale(conns, e.c, SideOf(e.c, n)),
                    c |-> e.c] : e \in tab[n]} : n \in Nodes}
\* (SideOf by node is right for table entries: a table only ever holds ends of its own node, and
\*  a node never dials itself)
OrphanEnds == {<<c, side>> \in CIds \X Sides : EndSt(conns, c, side) \in OpenSt /\ ~InTable(tab, c, side)}
Orph == Cardinality(OrphanEnds)
TellsDelivered == {d.k : d \in {x \in dl : ~x.ask}}

\* Nothing internal is left to happen.
Quiescent ==
    /\ \A k \in 1..Len(ops) : ~Pending(k)
    /\ \A c \in CIds : conns[c].se # "none" /\ conns[c].ce # "hs" /\ conns[c].ce # "dead" /\ conns[c].se # "dead"
    /\ \A m \in msgs : EndSt(conns, m.c, m.side) = "zomb"     \* stuck for ever: nobody reads that end

-------------------------------------------------------------------------------
\* Operations.  StartOp is the call of Tell / Ask; `via` is 0 (the peer's public address) or, ssh only,
\* a connection of which n is the server end: the address is the source address of a message received
\* over it.
\* every operation that is in flight, or whose message is, may be affected
Unhealthy(os) == [k \in 1..Len(os) |-> IF os[k].pc # "done" \/ (\E m \in msgs : m.k = k) THEN [os[k] EXCEPT !.healthy = FALSE] ELSE os[k]]
QuietConns ==
    /\ \A c \in CIds : conns[c].ce # "dead" /\ conns[c].se # "dead"
    /\ \A c \in CIds : conns[c].ce = "hs" \/ conns[c].se = "none" => \E k \in 1..Len(ops) : Pending(k) /\ ops[k].c = c /\ ops[k].healthy
HealthyAt(n, to, id, via) ==
    /\ QuietConns /\ ~closed[n] /\ ~closed[to] /\ id = to
    /\ \A e \in Entries : e.n = n /\ e.kad = to => e.alive /\ ~e.stale
    /\ via # 0 => \E e \in tab[n] : e.c = via /\ e.key.dir = "in" /\ EndSt(conns, via, "sv") = "open"

StartOp(n, kind, to, id, via) ==
    /\ Len(ops) < MaxOps /\ n # to
    /\ via # 0 => Ssh /\ via \in CIds /\ conns[via].sv = n /\ conns[via].cl = to
    \* (an operation that dials the wrong identity opens and closes a connection which the peer may pick up
    \*  meanwhile: operations that overlap with it are not claimed to succeed)
    /\ ops' = Append(IF id = to THEN ops ELSE Unhealthy(ops),
                      [n |-> n, kind |-> kind, to |-> to, id |-> id, via |-> via, pc |-> "lookup", c |-> 0,
                       res |-> "-", by |-> 0, byinc |-> 0,
                       healthy |-> HealthyAt(n, to, id, via) /\ \A k \in 1..Len(ops) : Pending(k) => ops[k].id = ops[k].to])
    /\ UNCHANGED <<inc, closed, conns, tab, msgs, dl, nenv, replaced, lastsrc>>

\* quicswarm withSession :256-264 (inbound entry first, then outbound); sshswarm getConn :185-190
Lookup(k) ==
    LET o == ops[k]
        kIn == [id |-> o.id, ad |-> o.to, dir |-> "in", eph |-> IF Ssh THEN o.via ELSE 0]
        kOut == [id |-> o.id, ad |-> o.to, dir |-> "out", eph |-> 0]
        hit == IF Quic THEN (IF Find(tab[o.n], kIn) # 0 THEN Find(tab[o.n], kIn) ELSE Find(tab[o.n], kOut))
               ELSE IF o.via # 0 THEN Find(tab[o.n], kIn) ELSE Find(tab[o.n], kOut)
    IN /\ o.pc = "lookup"
       /\ ops' = [ops EXCEPT ![k].pc = IF hit # 0 THEN "use" ELSE "dial", ![k].c = hit]
       /\ UNCHANGED <<inc, closed, conns, tab, msgs, dl, nenv, replaced, lastsrc>>

\* transport.Dial / net.Dial: the connection attempt starts, or fails at once
CanDial(o) == /\ o.via = 0                      \* nobody listens on an ephemeral source port
              /\ ~closed[o.to]                  \* the listener is gone
              /\ ~(Quic /\ closed[o.n])         \* quic: Close closed the transport
DialStart(k) ==
    LET o == ops[k] IN
    /\ o.pc = "dial"
    /\ IF CanDial(o)
       THEN /\ Len(conns) < MaxConn
            /\ conns' = Append(conns, [cl |-> o.n, sv |-> o.to, clInc |-> inc[o.n], svInc |-> inc[o.to],
                                       ce |-> "hs", se |-> "none", broken |-> FALSE])
            /\ ops' = [ops EXCEPT ![k].pc = "hs", ![k].c = Len(conns) + 1]
       ELSE /\ ops' = Done(ops, k, "err") /\ UNCHANGED conns
    /\ UNCHANGED <<inc, closed, tab, msgs, dl, nenv, replaced, lastsrc>>

\* the dial returns
DialDone(k) ==
    LET o == ops[k]
        c == o.c
        key == KeyAt(c, "cl")
        old == Find(tab[o.n], key)
    IN
    /\ o.pc = "hs"
    /\ IF conns[c].broken \/ ~Current(c, "sv") \/ (Quic /\ (closed[o.to] \/ closed[o.n])) \/ (Ssh /\ Fixed("sshCloseAll") /\ closed[o.n])
       THEN \* the handshake failed (peer gone, connection cut, own transport closed); sshswarm getConn :205-208: the
            \* swarm was closed meanwhile, the fresh connection is closed, ErrClosed
            /\ conns' = [EndBoth(conns, c) EXCEPT ![c].ce = "closed"]
            /\ ops' = Done(ops, k, "err")
            /\ UNCHANGED <<tab, replaced>>
       ELSE IF o.id # conns[c].sv
       THEN \* the peer at that address is somebody else
            /\ ops' = Done(ops, k, "err")
            /\ UNCHANGED <<tab, replaced>>
            /\ IF Ssh THEN \* newClient :89: the host key callback fails the handshake on both sides
                    conns' = [EndBoth(conns, c) EXCEPT ![c].ce = "closed"]
               ELSE IF Fixed("closeMismatch") THEN conns' = [EndBoth(conns, c) EXCEPT ![c].ce = "closed"]
               ELSE \* quicswarm withSession :280 as it was: return the error, leave the session
                    conns' = [conns EXCEPT ![c].ce = "zomb"]
       ELSE IF Quic
       THEN \* withSession :286-289: putSession (overwrites), go handleSession, fn(sess)
            /\ tab' = [tab EXCEPT ![o.n] = Put(@, key, c)]
            /\ replaced' = IF old # 0 /\ conns[old].ce = "open" THEN replaced \cup {<<old, "cl">>} ELSE replaced
            /\ conns' = [conns EXCEPT ![c].ce = "open"]
            /\ ops' = [ops EXCEPT ![k].pc = "use"]
       ELSE IF old # 0
       THEN \* getConn :210-215: somebody else connected in the meantime, use theirs
            /\ ops' = [ops EXCEPT ![k].pc = "use", ![k].c = old]
            /\ conns' = IF Fixed("sshCloseLoser") THEN [EndBoth(conns, c) EXCEPT ![c].ce = "closed"]
                        ELSE [conns EXCEPT ![c].ce = "zomb"]
            /\ UNCHANGED <<tab, replaced>>
       ELSE \* getConn :216-217: store it, go c.loop
            /\ tab' = [tab EXCEPT ![o.n] = Put(@, key, c)]
            /\ conns' = [conns EXCEPT ![c].ce = "open"]
            /\ ops' = [ops EXCEPT ![k].pc = "use"]
            /\ UNCHANGED replaced
    /\ UNCHANGED <<inc, closed, msgs, dl, nenv, lastsrc>>

\* quicswarm serve :292-313 / sshswarm serveLoop :222-244 (addConn :247 refuses after Close): the server side of a new connection
AcceptDone(c) ==
    LET n == conns[c].sv
        key == KeyAt(c, "sv")
        old == Find(tab[n], key)
    IN
    /\ conns[c].se = "none"
    /\ IF Current(c, "sv") /\ ~conns[c].broken /\ conns[c].ce \in {"hs", "open", "zomb"} /\ ~(RefusesWhenClosed /\ closed[n])
       THEN /\ tab' = [tab EXCEPT ![n] = Put(@, key, c)]          \* putSession / addConn overwrite
            /\ replaced' = IF old # 0 /\ old # c /\ conns[old].se = "open" THEN replaced \cup {<<old, "sv">>} ELSE replaced
            /\ conns' = [conns EXCEPT ![c].se = "open"]
       ELSE \* the connection was over before the server side came to it (whether it was accepted and
            \* removed again or never accepted makes no observable difference)
            \* (ssh: the server side closes the TCP connection, the client learns it; quic: a client whose peer's
            \*  transport is gone learns nothing, its end is stale)
            /\ conns' = IF Ssh THEN [EndBoth(conns, c) EXCEPT ![c].se = "closed"] ELSE [conns EXCEPT ![c].se = "closed"]
            /\ UNCHANGED <<tab, replaced>>
    /\ UNCHANGED <<inc, closed, ops, msgs, dl, nenv, lastsrc>>

\* fn(sess) / c.Send on the connection the lookup or the dial produced
Use(k) ==
    LET o == ops[k]
        c == o.c
        me == SideOf(c, o.n)
        it == Other(me)
        mine == EndSt(conns, c, me)
        theirs == EndSt(conns, c, it)
    IN
    /\ o.pc = "use"
    /\ UNCHANGED <<inc, closed, conns, tab, dl, nenv, replaced, lastsrc>>
    /\ IF mine # "open" \/ ~Current(c, me)
       THEN \* the connection has ended on this side: OpenUniStream / SendRequest fail
            ops' = Done(ops, k, "err") /\ UNCHANGED msgs
       ELSE IF theirs \in GoneSt
       THEN \* stale: a Tell is written into the void (nil) or fails; an Ask cannot be answered
            /\ UNCHANGED msgs
            /\ \/ o.kind = "tell" /\ ops' = Done(ops, k, "ok")
               \/ ops' = Done(ops, k, "err")
       ELSE /\ msgs' = msgs \cup {[k |-> k, c |-> c, side |-> it, ask |-> o.kind = "ask"]}
            /\ ops' = IF o.kind = "tell" THEN Done(ops, k, "ok") ELSE [ops EXCEPT ![k].pc = "await"]

\* handleTells / Conn.loop hand a message to the hub
HubOpen(n) == ~closed[n]
Deliver(m) ==
    LET n == EndNode(m.c, m.side) IN
    /\ m \in msgs /\ ~m.ask
    /\ EndSt(conns, m.c, m.side) = "open" /\ Current(m.c, m.side)
    /\ msgs' = msgs \ {m}
    /\ dl' = IF HubOpen(n) THEN dl \cup {[k |-> m.k, at |-> n, inc |-> inc[n], src |-> EndNode(m.c, Other(m.side)), ask |-> FALSE]} ELSE dl
    /\ lastsrc' = IF HubOpen(n) THEN [lastsrc EXCEPT ![n][EndNode(m.c, Other(m.side))] = IF Ssh /\ m.side = "sv" THEN m.c ELSE 0] ELSE lastsrc
    /\ UNCHANGED <<inc, closed, conns, tab, ops, nenv, replaced>>
\* a message on a connection that has ended is lost: certainly when the receiving end is gone, possibly when the
\* sending end was closed before the data left (quic discards unsent stream data at CloseWithError)
Drop(m) ==
    /\ m \in msgs
    /\ \/ EndSt(conns, m.c, m.side) \in GoneSt \/ ~Current(m.c, m.side)
       \/ EndSt(conns, m.c, Other(m.side)) \in GoneSt \/ ~Current(m.c, Other(m.side))
    /\ msgs' = msgs \ {m}
    /\ UNCHANGED <<inc, closed, conns, tab, ops, dl, nenv, replaced, lastsrc>>
\* handleAsk / Conn.loop answer a request; the asker returns
AskAnswer(m) ==
    LET n == EndNode(m.c, m.side) IN
    /\ m \in msgs /\ m.ask /\ ops[m.k].pc = "await"
    /\ EndSt(conns, m.c, m.side) = "open" /\ Current(m.c, m.side)
    /\ msgs' = msgs \ {m}
    /\ IF HubOpen(n)
       THEN /\ dl' = dl \cup {[k |-> m.k, at |-> n, inc |-> inc[n], src |-> EndNode(m.c, Other(m.side)), ask |-> TRUE]}
            /\ ops' = [ops EXCEPT ![m.k].pc = "done", ![m.k].res = "ok", ![m.k].by = n, ![m.k].byinc = inc[n]]
       ELSE \* sshswarm conn.go :150: a request the hub refused is answered "not ok"
            /\ ops' = Done(ops, m.k, "err") /\ UNCHANGED dl
    /\ UNCHANGED <<inc, closed, conns, tab, nenv, replaced, lastsrc>>
\* the request cannot be answered any more (connection over, or nobody reads the other end): error / timeout
AskFail(k) ==
    LET o == ops[k]
        me == SideOf(o.c, o.n)
    IN
    /\ o.pc = "await"
    /\ \/ EndSt(conns, o.c, me) # "open" \/ ~Current(o.c, me)
       \/ EndSt(conns, o.c, Other(me)) \in GoneSt \cup {"zomb"}
       \/ ~\E m \in msgs : m.k = k
    /\ ops' = Done(ops, k, "err")
    /\ msgs' = {m \in msgs : m.k # k}
    /\ UNCHANGED <<inc, closed, conns, tab, dl, nenv, replaced, lastsrc>>

\* The handler of a connection that has ended returns: quicswarm handleSession :316-324 (deferred delete,
\* CloseWithError), sshswarm Conn.loop :133 (deferred Close -> deleteConn).
Remove(c, side) ==
    LET n == EndNode(c, side)
        key == KeyAt(c, side)
    IN
    /\ EndSt(conns, c, side) = "dead"
    /\ conns' = SetEnd(conns, c, side, "closed")
    /\ IF ~Current(c, side) THEN UNCHANGED tab
       ELSE IF Quic THEN
            tab' = [tab EXCEPT ![n] = IF Fixed("removeOwn") THEN {e \in @ : ~(e.key = key /\ e.c = c)}
                                       ELSE {e \in @ : e.key # key}]
       ELSE IF Fixed("sshRemoveDead") THEN tab' = [tab EXCEPT ![n] = {e \in @ : ~(e.key = key /\ e.c = c)}]
       ELSE UNCHANGED tab          \* nothing ever called deleteConn
    /\ UNCHANGED <<inc, closed, ops, msgs, dl, nenv, replaced, lastsrc>>

Internal ==
    \/ \E k \in 1..Len(ops) : Lookup(k) \/ DialStart(k) \/ DialDone(k) \/ Use(k) \/ AskFail(k)
    \/ \E c \in CIds : AcceptDone(c) \/ \E side \in Sides : Remove(c, side)
    \/ \E m \in msgs : Deliver(m) \/ Drop(m) \/ AskAnswer(m)

-------------------------------------------------------------------------------
\* Environment.
Between(c, a, b) == {conns[c].cl, conns[c].sv} = {a, b}

\* connections between a and b die, both ends learn it
Kill(a, b) ==
    /\ nenv < MaxEnv /\ a # b
    /\ LET victims == {c \in CIds : Between(c, a, b) /\
                          IF Quic THEN \E side \in Sides : Current(c, side) /\ InTable(tab, c, side) /\ EndSt(conns, c, side) = "open"
                          ELSE conns[c].ce \in {"hs", "open", "zomb"} \/ conns[c].se \in {"open", "none"}}
       IN conns' = [c \in CIds |-> IF c \in victims THEN EndBoth(conns, c)[c] ELSE conns[c]]
    /\ ops' = Unhealthy(ops)
    /\ nenv' = nenv + 1
    /\ UNCHANGED <<inc, closed, tab, msgs, dl, replaced, lastsrc>>

\* node n goes away and a new node with the same identity starts at the same address.  No operation of n
\* is in flight.  ssh: the kernel closes n's sockets, every peer learns it.  quic: a peer learns it only
\* if n's CONNECTION_CLOSE got out (never when n crashed), else its end is stale.
Restart(n, crash) ==
    /\ nenv < MaxEnv
    /\ \A k \in 1..Len(ops) : ops[k].n = n => ~Pending(k)
    /\ \E told \in SUBSET {c \in CIds : (conns[c].cl = n \/ conns[c].sv = n)} :
         /\ Ssh => told = {c \in CIds : conns[c].cl = n \/ conns[c].sv = n}
         /\ (Quic /\ crash) => told = {}
         /\ conns' = [c \in CIds |->
                LET mine == SideOf(c, n)
                    x == conns[c]
                IN IF ~(x.cl = n \/ x.sv = n) \/ ~Current(c, mine) THEN x
                   ELSE LET y == [(IF mine = "cl" THEN [x EXCEPT !.ce = "closed"] ELSE [x EXCEPT !.se = "closed"]) EXCEPT !.broken = TRUE]
                        IN IF c \notin told THEN y
                           ELSE IF mine = "cl" THEN [y EXCEPT !.se = Notified(@)] ELSE [y EXCEPT !.ce = IF @ = "hs" THEN "hs" ELSE Notified(@)]]
    /\ inc' = [inc EXCEPT ![n] = @ + 1]
    /\ closed' = [closed EXCEPT ![n] = FALSE]
    /\ tab' = [tab EXCEPT ![n] = {}]
    /\ ops' = Unhealthy(ops)
    /\ nenv' = nenv + 1
    /\ UNCHANGED <<msgs, dl, replaced, lastsrc>>      \* (the harness keeps the addresses it has seen)

\* quic: the idle timeout of n's stale ends
Expire(n) ==
    /\ Quic /\ nenv < MaxEnv
    /\ \E c \in CIds, side \in Sides : EndNode(c, side) = n /\ Current(c, side) /\ IsStale(conns, c, side)
    /\ conns' = [c \in CIds |->
            LET side == SideOf(c, n) IN
            IF (conns[c].cl = n \/ conns[c].sv = n) /\ Current(c, side) /\ IsStale(conns, c, side) /\ EndSt(conns, c, side) = "open"
            THEN SetEnd(conns, c, side, "dead")[c] ELSE conns[c]]
    /\ ops' = Unhealthy(ops)
    /\ nenv' = nenv + 1
    /\ UNCHANGED <<inc, closed, tab, msgs, dl, replaced, lastsrc>>

\* Swarm.Close.  quic :195-211: cancel the handlers' context (each closes its session and removes its
\* entry), close listener, inner swarm and transport (every remaining session ends); a peer learns of
\* each session only if the CONNECTION_CLOSE got out before the inner swarm was closed.
\* ssh :84-100: hubs and listener are closed, the swarm is marked closed, every connection in the table is closed
\* (Conn.Close: close the transport, deleteConn); the peers learn it (TCP).  Connections outside the table are not
\* touched; one whose handshake is still running is closed when it completes (DialDone / AcceptDone).
\* Without sshCloseAll: hubs and listener only.
CloseSwarm(n) ==
    /\ nenv < MaxEnv /\ ~closed[n]
    /\ closed' = [closed EXCEPT ![n] = TRUE]
    /\ IF Ssh /\ ~Fixed("sshCloseAll") THEN UNCHANGED <<conns, tab>>
       ELSE IF Ssh THEN
            LET mineC == {e.c : e \in tab[n]} IN
            /\ conns' = [c \in CIds |->
                    IF c \notin mineC THEN conns[c]
                    ELSE LET mine == SideOf(c, n)
                             x == [conns[c] EXCEPT !.broken = TRUE]
                         IN IF mine = "cl" THEN [x EXCEPT !.ce = "closed", !.se = Notified(@)]
                            ELSE [x EXCEPT !.se = "closed", !.ce = IF @ = "hs" THEN "hs" ELSE Notified(@)]]
            /\ tab' = [tab EXCEPT ![n] = {}]
       ELSE /\ UNCHANGED tab
            /\ \E told \in SUBSET {c \in CIds : conns[c].cl = n \/ conns[c].sv = n} :
               conns' = [c \in CIds |->
                LET mine == SideOf(c, n)
                    x == conns[c]
                IN IF ~(x.cl = n \/ x.sv = n) \/ ~Current(c, mine) THEN x
                   ELSE LET y == [(IF mine = "cl" THEN [x EXCEPT !.ce = IF @ = "hs" THEN "hs" ELSE Notified(@)]
                                   ELSE [x EXCEPT !.se = Notified(@)]) EXCEPT !.broken = TRUE]
                        IN IF c \notin told THEN y
                           ELSE IF mine = "cl" THEN [y EXCEPT !.se = Notified(@)] ELSE [y EXCEPT !.ce = IF @ = "hs" THEN "hs" ELSE Notified(@)]]
    /\ ops' = Unhealthy(ops)
    /\ nenv' = nenv + 1
    /\ UNCHANGED <<inc, msgs, dl, replaced, lastsrc>>

Env ==
    \/ \E a, b \in Nodes : a < b /\ Kill(a, b)
    \/ \E n \in Nodes : Expire(n) \/ CloseSwarm(n) \/ \E crash \in BOOLEAN : Restart(n, crash)

Start ==
    \E n, to \in Nodes, kind \in {"tell", "ask"}, id \in Ids, via \in {0} \cup CIds : StartOp(n, kind, to, id, via)

Init ==
    /\ inc = [n \in Nodes |-> 0] /\ closed = [n \in Nodes |-> FALSE]
    /\ conns = <<>> /\ tab = [n \in Nodes |-> {}] /\ ops = <<>> /\ msgs = {} /\ dl = {} /\ nenv = 0 /\ replaced = {}
    /\ lastsrc = [n \in Nodes |-> [p \in Nodes |-> -1]]
Next == Internal \/ Env \/ Start
Spec == Init /\ [][Next]_vars
FairSpec == Spec /\ WF_vars(Internal)

-------------------------------------------------------------------------------
\* THE LAWS, as operators over what can be observed (ConnTableTrace evaluates the same operators on the
\* recorded observations).  ents: set of projected entries; o: an operation with its result; d: a delivery.

\* L1  the table never maps a key to a connection that authenticated another identity than the key names
TableIdentityP(ents) == \A e \in ents : e.rid = e.kid
\* L2  after quiescence no table holds a connection that has ended
DeadRemovedP(ents) == \A e \in ents : e.alive
\* L3  after quiescence every open connection end is in its node's table: nothing leaks, and (a table being a
\*     map) there is at most one connection per key
NoOrphanP(orph) == orph = 0
\* L4  a closed swarm holds nothing
AfterCloseP(ents, closedNodes) == \A e \in ents : e.n \notin closedNodes
\* L5  an operation addressed to an identity that does not live at the address fails
OkOnlyIfPeerP(o) == o.res = "ok" => o.id = o.to
\* L6  what is delivered is delivered at the addressed node, which has the addressed identity, and names its
\*     true sender
DeliveryRightP(d, o) == d.at = o.to /\ o.id = o.to /\ d.src = o.from
\* L7  nothing is delivered twice
AtMostOnceP(dls) == \A d1, d2 \in dls : d1.k = d2.k /\ d1.ask = d2.ask => d1 = d2
\* L8  an Ask that returns nil was answered by the addressed node
AskAnsweredP(o) == o.kind = "ask" /\ o.res = "ok" => o.by = o.to /\ o.id = o.to
\* L9  an operation that starts in a quiet state between two open nodes, with no stale or dead connection in
\*     the way and no environment event while it runs, succeeds (no mutual replacement, no dead entry) ...
HealthySucceedsP(o) == o.healthy => o.res = "ok"
\* L10 ... and its message arrives
HealthyDeliveredP(o, delivered) == o.healthy /\ o.kind = "tell" => delivered
\* L11 (model only) an operation uses the connection it found in the table or dialled itself, never one that
\*     had been removed before it looked; structural in this model: op.c comes from Lookup / DialStart only.

\* The same laws over the model's state.
OpObs(k) == [from |-> ops[k].n, to |-> ops[k].to, id |-> ops[k].id, kind |-> ops[k].kind, res |-> ops[k].res,
             by |-> ops[k].by, healthy |-> ops[k].healthy]
ClosedNodes == {n \in Nodes : closed[n]}
TableIdentity == TableIdentityP(Entries)
StepLaws ==
    /\ \A k \in 1..Len(ops) : ~Pending(k) => OkOnlyIfPeerP(OpObs(k)) /\ AskAnsweredP(OpObs(k)) /\ HealthySucceedsP(OpObs(k))
    /\ \A d \in dl : DeliveryRightP(d, OpObs(d.k))
    /\ AtMostOnceP(dl)
DeadRemoved == Quiescent => DeadRemovedP(Entries)
AfterClose == Quiescent => AfterCloseP(Entries, ClosedNodes)
HealthyDelivered == Quiescent => \A k \in 1..Len(ops) : HealthyDeliveredP(OpObs(k), k \in TellsDelivered)
\* every orphan is an overwritten session of the recorded finding; none at all for ssh
NoOrphan == Quiescent => OrphanEnds \subseteq (IF KF_QuicReplaceKeepsOpen THEN replaced ELSE {})
NoOrphanStrict == Quiescent => NoOrphanP(Orph)

\* liveness: every operation returns (no livelock of mutual replacement between simultaneous opens)
AllReturn == <>[](\A k \in 1..Len(ops) : ~Pending(k))
EventuallyQuiet == []<>Quiescent

TypeOK ==
    /\ \A c \in CIds : conns[c].ce \in {"hs", "open", "zomb", "dead", "closed"} /\ conns[c].se \in {"none", "open", "dead", "closed"}
    /\ \A n \in Nodes : \A e \in tab[n] : e.c \in CIds /\ EndNode(e.c, SideOf(e.c, n)) = n
    /\ \A n \in Nodes : \A e1, e2 \in tab[n] : e1.key = e2.key => e1 = e2
=============================================================================
