---------------------------- MODULE RetryBackoff ----------------------------
(***************************************************************************)
(* The backoff constructors of /repo/s/swarmutil/retry/retry.go             *)
(* (retry.go:72-123) as integer functions; a case generator over (kind, n): *)
(* one initial state per case, the laws are invariants, RetryTrace           *)
(* evaluates the same P-operators on what the real functions returned.      *)
(***************************************************************************)
EXTENDS Integers, Sequences, FiniteSets, TLC, Json

CONSTANTS ExpInit, ExpEvery, CapAt, LinM, LinB, FloorAt, MaxN, MaxDur

Max2(a, b) == IF a > b THEN a ELSE b
Min2(a, b) == IF a < b THEN a ELSE b


RECURSIVE Pow2(_)
Pow2(n) == IF n = 0 THEN 1 ELSE 2 * Pow2(n - 1)
Sat(v) == IF v >= MaxDur THEN MaxDur ELSE v        \* the repaired conversion saturates at MaxInt64

\* floor(a * sqrt 2): the largest s with s*s <= 2*a*a
ISqrt2(a) == CHOOSE s \in a..(2 * a) : s * s <= 2 * a * a /\ (s + 1) * (s + 1) > 2 * a * a

ConstB(d, n) == d
LinearB(m, b, n) == n * m + b                                   \* retry.go:85
\* NewExponentialBackoff(initial, doubleEvery): initial * 2^(n / doubleEvery) in float64, truncated
ExpLo(n) == ExpInit * Pow2(n \div ExpEvery)
ExpExact(n) == IF n % ExpEvery = 0 THEN ExpLo(n)
               ELSE IF ExpEvery = 2 THEN ISqrt2(ExpLo(n)) ELSE -1    \* -1: only the bounds are modelled
MaxB(v, mx) == IF v > mx THEN mx ELSE v                          \* retry.go:102
MinB(v, mn) == IF v < mn THEN mn ELSE v                          \* retry.go:113

Kinds == {"const", "linear", "exp", "expmax", "linmin"}
VARIABLES kind, n
bfvars == <<kind, n>>
BfInit == kind \in Kinds /\ n \in 0..MaxN
BfSpec == BfInit /\ [][FALSE /\ UNCHANGED bfvars]_bfvars

\* laws over "what the real function returned" (v = value at n, w = value at n+1)
ExpBoundsP(nn, v) ==
    /\ v >= Sat(ExpLo(nn)) /\ (v < 2 * ExpLo(nn) \/ v = MaxDur)
    /\ (nn % ExpEvery = 0) => v = Sat(ExpLo(nn))
    /\ (ExpExact(nn) >= 0) => v = Sat(ExpExact(nn))
NonNegativeP(v) == v >= 0
MonotoneP(v, w) == v <= w
CappedP(v, raw) == v = Min2(raw, CapAt) /\ v <= CapAt
FlooredP(v, raw) == v = Max2(raw, FloorAt) /\ v >= FloorAt

ExpModel(nn) == IF ExpExact(nn) >= 0 THEN Sat(ExpExact(nn)) ELSE Sat(ExpLo(nn))
ValueOf(k, nn) ==
    CASE k = "const" -> ConstB(LinB, nn)
      [] k = "linear" -> LinearB(LinM, LinB, nn)
      [] k = "exp" -> ExpModel(nn)
      [] k = "expmax" -> MaxB(ExpModel(nn), CapAt)
      [] k = "linmin" -> MinB(LinearB(LinM, LinB, nn), FloorAt)

\* the documented shape: delays never decrease, are never negative, the capped ones reach the cap
\* and stay there ("monotone until the cap")
BfLaws ==
    LET v == ValueOf(kind, n)  w == ValueOf(kind, n + 1) IN
    /\ NonNegativeP(v) /\ MonotoneP(v, w)
    /\ (kind = "exp") => ExpBoundsP(n, v)
    /\ (kind = "expmax") => (CappedP(v, ExpModel(n)) /\ (v = CapAt => w = CapAt))
    /\ (kind = "linmin") => FlooredP(v, LinearB(LinM, LinB, n))
    /\ (kind = "const") => v = w
BfDump == PrintT(ToJson(<<"CASE", kind, n>>))
=============================================================================
