SPECIFICATION WSpec
CONSTANTS
  Addrs = {0, 1, 2}
  Unknown = 7
  QLen = 1
  Kind = "mem"
  TfKind = "none"
  WAllow <- Everybody
  MapOff = 100
  N0 = 2
  Sizes = {"s", "x"}
  Handlers = {"echo", "neg"}
  MaxOps = 6
  MaxBlocked = 2
INVARIANTS MapRefines
VIEW wview
CHECK_DEADLOCK FALSE
