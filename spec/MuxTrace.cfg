SPECIFICATION TraceSpec
CONSTANTS
  MKinds <- MNone
  Mode = "trace"
POSTCONDITION AllConsumed
CHECK_DEADLOCK FALSE
