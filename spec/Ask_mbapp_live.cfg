SPECIFICATION Spec
CONSTANTS
  a1 = a1
  a2 = a2
  s1 = s1
  s2 = s2
  Askers = {a1, a2}
  Servers = {s1, s2}
  K = {1, 2}
  Mode = "mbapp"
  Serial = FALSE
  Classes = {"neg", "over"}
  CtrVals = {1}
  MaxNow = 0
  BugNilErr = FALSE
  BugTrunc = FALSE
  BugOkOnHubErr = FALSE
  BugReqAlias = FALSE
  BugNegOk = FALSE
  KeyOT = TRUE
  KeyDst = TRUE
INVARIANTS Safety
PROPERTIES ByDeadline HandlerBounded
CHECK_DEADLOCK FALSE
