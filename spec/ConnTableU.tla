----------------------------- MODULE ConnTableU -----------------------------
(* Placeholder: vlib/growth_conntable.py writes the real module next to the copied specifications  *)
(* (the schedules to predict, and for the trace specification the predicted outcomes).             *)
Scripts == <<>>
Allowed == <<>>
=============================================================================
