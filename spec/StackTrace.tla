----------------------------- MODULE StackTrace -----------------------------
(***************************************************************************)
(* Monitor for C09 (MTU honesty) on real nested swarms.  One log line per   *)
(* stack (harness/cmd/stackreplay): the stack description, the MTU the      *)
(* model computes (modelmtu) and, per case, the payload size, the operation, *)
(* the MTU() the REAL top swarm reported, the class of the error returned by *)
(* Tell / Ask ("nil", "mtu" = IsErrMTUExceeded, "ctx", "other"), how many    *)
(* payloads the other endpoint's callback saw (nd), whether all of them      *)
(* equalled what was sent (eq; for an Ask also the answer the asker got),     *)
(* whether one of them was a proper part of it (part), whether a non-MTU error *)
(* on an oversize payload repeated on three fresh stacks (other3), whether an  *)
(* accepted payload stayed undelivered on a second fresh stack while a control *)
(* payload sent right after it arrived (lostc).                                *)
(* The verdict uses Stack!ObsViol with the REAL MTU(): it does not depend on  *)
(* the model's arithmetic.  DRIFT: the model's MTU differs from the real one, *)
(* an accepted in-range payload was not delivered, an in-range payload        *)
(* failed with a non-MTU error.                                               *)
(***************************************************************************)
EXTENDS Stack, Json, IOUtils

Log == ndJsonDeserialize(IOEnv.TRACE)

VARIABLES l
tvars == <<l, base, innerMtu, layers>>

ToSet(s) == {s[i] : i \in 1..Len(s)}

TraceInit == l = 1 /\ base = "" /\ innerMtu = 0 /\ layers = <<>>

CaseViol(c) == ObsViol(c.size, c.mtu, c.err, c.nd, c.eq, c.other3, c.part, c.lostc)
CaseDrift(ev, c) ==
    (IF c.mtu # ev.modelmtu THEN {"mtu"} ELSE {})
    \cup (IF c.size <= c.mtu /\ c.err = "nil" /\ c.nd = 0 /\ ~c.lostc THEN {"lost"} ELSE {})
    \cup (IF c.size <= c.mtu /\ c.err \in {"ctx", "other"} THEN {"failed"} ELSE {})
    \cup (IF c.size <= c.mtu /\ c.nd > 1 THEN {"duplicated"} ELSE {})
    \* needed a confirming re-measurement which the run's budget did not allow any more: stays unjudged
    \cup (IF c.nobudget THEN {"not re-measured: budget"} ELSE {})

TraceNext ==
    /\ l <= Len(Log)
    /\ l' = l + 1
    /\ UNCHANGED <<base, innerMtu, layers>>
    /\ LET ev == Log[l]
           vs == {[op |-> v, kind |-> ev.cases[i].op, size |-> ev.cases[i].size, mtu |-> ev.cases[i].mtu] :
                     i \in 1..Len(ev.cases), v \in {"UndersizeRejected", "Corrupted", "DeliveredInPart", "AcceptedNotDelivered",
                                                     "OversizeAccepted", "OversizeDelivered", "OversizeWrongError"}}
           bad == {r \in vs : \E i \in 1..Len(ev.cases) :
                                 /\ ev.cases[i].op = r.kind /\ ev.cases[i].size = r.size
                                 /\ r.op \in CaseViol(ev.cases[i])}
           drift == UNION {CaseDrift(ev, ev.cases[i]) : i \in 1..Len(ev.cases)}
       IN /\ (bad # {}) => PrintT(ToJson(<<"VIOL", l, ev.id, bad>>))
          /\ (drift # {}) => PrintT(ToJson(<<"DRIFT", l, ev.id, drift>>))

TraceSpec == TraceInit /\ [][TraceNext]_tvars
AllConsumed == TLCGet("distinct") >= Len(Log) + 1
SNone == {}
=============================================================================
