SPECIFICATION Spec
CONSTANTS
  Locus <- WLocus
  Keys <- WBoundaryKeys
  Queries <- WQueries
  Configs <- WBoundaryConfigs
  Vals = {1}
  Times = {1, 2}
  TouchTimes = {0}
  ExpTimes = {2}
  Exps = {0, 1}
  MaxOps = 3
VIEW view
INVARIANTS NoUnderMinGap
CHECK_DEADLOCK FALSE
