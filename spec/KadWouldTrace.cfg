SPECIFICATION TraceSpec
CONSTANTS
  Locus <- WLocus
  Keys <- WAllKeys
  Queries <- WQueries
  Vals <- WNone
  Times <- WNone
  TouchTimes <- WNone
  ExpTimes <- WNone
  Exps <- WNone
  Configs <- WNone
  MaxOps = 1000000000
POSTCONDITION AllConsumed
CHECK_DEADLOCK FALSE
