SPECIFICATION Spec
CONSTANTS
  MaxSeg = 2
  MaxSegs = 2
  MaxTotal = 3
INVARIANTS ModelLaws Dump
CHECK_DEADLOCK FALSE
