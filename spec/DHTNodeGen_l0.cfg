SPECIFICATION GenSpec
CONSTANTS
  Locus <- L0Locus
  Keys <- L0Keys
  Queries <- L0Queries
  Vals <- NNone
  Times <- NNone
  TouchTimes <- NNone
  ExpTimes <- NNone
  Exps <- NNone
  Configs <- NNone
  MaxOps = 14
  LocalID <- NLocal
  PeerIDs <- L0Peers
  DataKeys <- L0Data
  Infos = {1, 2}
  DVals = {1, 2, 3}
  PutTTLs = {0, 1, 3}
  HPutTTLs = {0, 1, 3, 99}
  PeerTTL = 2
  MaxDataTTL = 2
  MaxNow = 6
  NodeConfigs <- L0Configs
  Targets <- L0Targets
  Limits <- L0Limits
  Orig <- NNone

CHECK_DEADLOCK FALSE
