SPECIFICATION Spec
CONSTANTS
  P = 64
  R = 1
  M = 64
  XMin <- MCXMin
  XMax <- MCXMax
INVARIANTS OddEvenChoice RoundTrip ExactSkew WrongIsOffByPeriod DecodeNear EpochLaws Fits Dump
CHECK_DEADLOCK FALSE
