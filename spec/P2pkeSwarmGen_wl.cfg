SPECIFICATION GenSpec
CONSTANTS
  MaxC = 12
  MaxH = 12
  MaxTell = 10
  MaxDrop = 4
  MaxHold = 1000
  MaxJunk = 2
  MaxClose = 1
  MaxRekey = 0
  KExp = 4
  KIdle = 5
  KGrace = 9
  Period = 2
  TellTO = 3
  WLA <- Both
  WLB <- OnlyB
  DstsA <- DA_full
  DstsB <- DB_good
  AllowEmpty = TRUE
  Fixed <- AllFixed
  EagerCleanup = TRUE
  MaxSteps = 0
  Scripts <- WlScripts
CHECK_DEADLOCK FALSE
