SPECIFICATION Spec
CONSTANTS
  Alphabet = {0, 1, 128, 255}
  MaxLen = 2
INVARIANTS Dump
CHECK_DEADLOCK FALSE
