SPECIFICATION Spec
CONSTANTS
  Sess <- Pair
  Role <- PairRole
  KeyOf <- PairKey
  EphOf <- PairEph
  SessIdx <- PairIdx
  MaxForge = 3
  MaxSend = 1
  Window = 2
  Weak = {}
VIEW view
INVARIANTS TypeOK AuthBeforeUse Agreement HonestPair Authentic AtMostOnce NonceUnique DataCountersHigh
PROPERTIES Monotone
CHECK_DEADLOCK FALSE
