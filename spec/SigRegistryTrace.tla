-------------------------- MODULE SigRegistryTrace --------------------------
(* Binds SigRegistry.tla to the real f/x509 package: each log line (wirereplay -mode sig) is one        *)
(* executed case (see SigRegistry.tla), plus kind "hammer": g goroutines using one shared Registry.     *)
(* VIOL: a law is false on the observation.  DRIFT: an entry point's result differs from Entry.         *)
EXTENDS Integers, Sequences, FiniteSets, TLC, Json, IOUtils

SR == INSTANCE SigRegistry WITH Keys <- {}, MLens <- {}, DLens <- {}, Repaired <- TRUE, c <- 0

Log == ndJsonDeserialize(IOEnv.TRACE)
VARIABLES l

Viol(ev) ==
    IF ev.panic /\ ev.kind # "algo" THEN {"NoPanic"} ELSE
    CASE ev.kind = "sv" ->
           {n \in {"SignVerify", "TamperFails"} :
               CASE n = "SignVerify" -> ~SR!SignVerifyP(ev.mut, ev.setupok, ev.loaderr, ev.ok, ev.siglen, ev.appendok)
                 [] n = "TamperFails" -> ~SR!TamperFailsP(ev.mut, ev.ok)}
      [] ev.kind = "algo" ->
           {n \in {"UnknownAlgoIsError", "UnrecognizedNamed", "RegisteredWorks", "BadSizeIsError", "NoPanic"} :
               CASE n = "UnknownAlgoIsError" -> ~SR!UnknownAlgoIsErrorP(ev.algo, ev.res)
                 [] n = "UnrecognizedNamed" -> ev.res # "panic" /\ ~SR!UnrecognizedNamedP(ev.entry, ev.algo, ev.res)
                 [] n = "RegisteredWorks" -> ~SR!RegisteredWorksP(ev.algo, ev.dlen, ev.res)
                 [] n = "BadSizeIsError" -> ev.res # "panic" /\ ~SR!BadSizeIsErrorP(ev.entry, ev.algo, ev.dlen, ev.res)
                 [] n = "NoPanic" -> ev.res = "panic" /\ ev.algo \in SR!Registered}
      [] ev.kind = "pfp" -> {n \in {"PublicFromPrivate"} : ~SR!PublicFromPrivateP(ev.setupok, ev.det, ev.std, ev.other)}
      [] ev.kind = "privrt" -> {n \in {"PrivateRoundTrip"} : ~SR!PrivateRoundTripP(ev.algo, ev.rt, ev.srt, ev.prefok)}
      [] ev.kind = "hammer" -> {n \in {"ConcurrentUse"} : ev.bad # 0 \/ ev.ops = 0}
      [] OTHER -> {}

Drift(ev) ==
    IF ev.kind = "algo" THEN {n \in {"Entry"} : ev.res # SR!Entry(ev.entry, ev.algo, ev.dlen)}
    ELSE IF ev.kind = "sv" /\ ~ev.panic THEN {n \in {"Verify"} : ev.setupok /\ ~ev.loaderr /\ ev.ok # SR!VerifyAfter(ev.key, ev.mlen, ev.mut)}
    ELSE {}

TraceInit == l = 1
TraceNext == /\ l <= Len(Log)
             /\ l' = l + 1
             /\ LET vs == Viol(Log[l]) IN (vs # {}) => PrintT(ToJson(<<"VIOL", l, Log[l].id, vs>>))
             /\ LET ds == Drift(Log[l]) IN (ds # {}) => PrintT(ToJson(<<"DRIFT", l, Log[l].id, ds>>))
TraceSpec == TraceInit /\ [][TraceNext]_l
AllConsumed == TLCGet("distinct") >= Len(Log) + 1
=============================================================================
