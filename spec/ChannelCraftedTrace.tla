------------------------ MODULE ChannelCraftedTrace -------------------------
(* One event per crafted-responder case run on a real channel (chanreplay -crafted): how many plaintexts *)
(* the channel handed to the application, whether it reported M (or anything but its bound key), whether *)
(* a Send completed under M's session.                                                                    *)
EXTENDS Integers, Sequences, FiniteSets, TLC, Json, IOUtils
Log == ndJsonDeserialize(IOEnv.TRACE)
VARIABLE l
Viol(ev) ==
    (IF ev.panic THEN {"NoPanic"} ELSE {})
    \cup (IF ~ev.panic /\ ev.handed > 0 THEN {"OnlyAcceptedData"} ELSE {})
    \cup (IF ~ev.panic /\ ev.rk_wrong THEN {"OnlyAcceptedReady"} ELSE {})
    \cup (IF ~ev.panic /\ ev.sent_to_m > 0 THEN {"OnlyAcceptedSend"} ELSE {})
TraceInit == l = 1
TraceNext == /\ l <= Len(Log) /\ l' = l + 1
             /\ LET vs == Viol(Log[l]) IN (vs # {}) => PrintT(ToJson(<<"VIOL", l, Log[l].beh, vs>>))
             /\ (~Log[l].panic /\ ~Log[l].engaged) => PrintT(ToJson(<<"DRIFT", l, Log[l].beh, "not-engaged">>))
TraceSpec == TraceInit /\ [][TraceNext]_l
AllConsumed == TLCGet("distinct") >= Len(Log) + 1
=============================================================================
