SPECIFICATION TraceSpec
CONSTANTS
  QLen = 2
  MaxOps = 1000000
POSTCONDITION AllConsumed
CHECK_DEADLOCK FALSE
