------------------------------- MODULE SSHAuth -------------------------------
(***************************************************************************)
(* Server-side "publickey" user authentication of golang.org/x/crypto/ssh  *)
(* v0.9.0 AS THE LIBRARY BEHAVES (ssh/server.go serverAuthenticate,        *)
(* lines 398-700), seen from the application's PublicKeyCallback.          *)
(*                                                                         *)
(*  - every userauth request names a key k.  The library looks (user, k)   *)
(*    up in a per-connection cache (server.go:164 get); on a miss it calls *)
(*    PublicKeyCallback(k), remembers (perms, result) and appends it to    *)
(*    the cache unless the cache already holds maxCachedPubKeys entries    *)
(*    (server.go:153: 16 in v0.9.0; CacheMax here so that the full-cache   *)
(*    path can be model checked with a small number).                      *)
(*  - Query(k)  (request without signature): callback unless cached, reply *)
(*    PK_OK, `continue userAuthLoop` - no failure is counted, so a client  *)
(*    can ask about as many keys as it likes (server.go:543-558).          *)
(*  - Signed(k) (request with signature): callback unless cached; the      *)
(*    signature is verified with k: a client that does not hold priv(k)    *)
(*    makes pubKey.Verify fail and serverAuthenticate RETURNS the error:   *)
(*    the connection is over (server.go:583).  Otherwise authentication    *)
(*    succeeds with perms = the Permissions the callback returned FOR k    *)
(*    (server.go:587-588), exposed as ServerConn.Permissions.              *)
(*                                                                         *)
(* The application decides which key it records for the connection:        *)
(*    bound   - the key it stored in the Permissions returned for k (what  *)
(*              s/sshswarm/conn.go newServer does after the repair);       *)
(*    lastCb  - whatever key its callback saw LAST (what newServer did:    *)
(*              the CVE-2024-45337 misuse pattern, finding F13).           *)
(* All requests of one connection carry the same user name here (the       *)
(* public client API fixes it per connection); a different user name is a  *)
(* guaranteed cache miss, which Query/Signed with CacheMax = 0 cover.      *)
(***************************************************************************)
EXTENDS Naturals, Sequences, FiniteSets

CONSTANT CacheMax

NoAuth == [cache |-> <<>>,      \* keys whose callback result is cached, in insertion order
           lastCb |-> "none",   \* key passed to the most recent PublicKeyCallback invocation
           ncb |-> 0,           \* number of callback invocations (ghost)
           st |-> "auth",       \* "auth" | "ok" | "abort"
           authKey |-> "none",  \* ghost: key whose signature the library verified
           bound |-> "none"]    \* key inside the Permissions the library returns on success

Cached(s, k) == \E i \in 1..Len(s.cache) : s.cache[i] = k

\* server.go:524-535: candidate, ok := cache.get(user, k); if !ok { callback; cache.add }
Candidate(s, k) ==
    IF Cached(s, k) THEN s
    ELSE [s EXCEPT !.lastCb = k, !.ncb = @ + 1,
                   !.cache = IF Len(@) < CacheMax THEN Append(@, k) ELSE @]

\* server.go:543-558
Query(s, k) == Candidate(s, k)

\* server.go:560-589; holder = set of keys whose private half the client holds
Signed(s, k, holder) ==
    LET s1 == Candidate(s, k) IN
    IF k \in holder
    THEN [s1 EXCEPT !.st = "ok", !.authKey = k, !.bound = k]
    ELSE [s1 EXCEPT !.st = "abort"]

\* what the application records as the peer's key after a successful handshake
Recorded(s, fixed) == IF fixed THEN s.bound ELSE s.lastCb
=============================================================================
