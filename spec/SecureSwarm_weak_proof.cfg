SPECIFICATION Spec
CONSTANTS
  Kinds <- AllKinds
  WLA <- OnlyAll
  WLB <- OnlyAll
  Weak <- WeakProof
  MaxConn = 1
  MaxSend = 1
  MaxAdv = 2
  CacheMax = 16
  Extras = {}
  Asks = {FALSE}
INVARIANTS Attribution
CHECK_DEADLOCK FALSE
