SPECIFICATION GenSpec
CONSTANTS
  Locus <- WideLocus
  Keys <- WideKeys
  Queries <- WideQueries
  Configs <- WideConfigs
  Vals = {1, 2}
  Times = {1, 2, 3}
  TouchTimes = {0, 2}
  ExpTimes = {1, 2, 3, 4}
  Exps = {0, 1, 2, 3}
  MaxOps = 12
CHECK_DEADLOCK FALSE
