SPECIFICATION GenSpec
CONSTANTS
  MaxLen = 2
INVARIANTS Dump
CHECK_DEADLOCK FALSE
