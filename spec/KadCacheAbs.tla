---------------------------- MODULE KadCacheAbs ----------------------------
(***************************************************************************)
(* G03a.  The COUNTING DISCIPLINE of kademlia.Cache, abstracted from        *)
(* KadCache.tla so that it mentions integers, finite sets and functions     *)
(* only (no byte strings, no recursion, no values, no reports):             *)
(*                                                                         *)
(*   keys        an uninterpreted finite set Keys                          *)
(*   BucketOf    an arbitrary constant function Keys -> 0..NB-1            *)
(*               (KadCache: leading zeros of locus XOR key)                *)
(*   times       arbitrary integers (TimeDom == Int)                       *)
(*   ents        present key -> [c: CreatedAt, e: ExpiresAt]               *)
(*   count       kc.count, maintained incrementally exactly as coded       *)
(*                                                                         *)
(* The actions are KadCache.tla's DoUpdate (Put, Touch) / Delete / Expire   *)
(* with the value component, the report `last`, the depth bound `nops` and  *)
(* `panicked` (never set there) dropped.  KadCacheRef.tla checks with TLC   *)
(* that KadCache refines this module.                                       *)
(*                                                                         *)
(* Apalache proves that IndInv is INDUCTIVE (Init => IndInv and             *)
(* IndInv /\ Next => IndInv'), hence CountExact /\ Bounded hold in every    *)
(* reachable state for any number of operations and any integer times, for  *)
(* every constant assignment admitted by ConstInitK (K uninterpreted keys,  *)
(* NB <= MaxNB).  KadCacheAbsProof.tla proves the same with TLAPS for ANY   *)
(* finite key set and any NB, BucketOf, cmax >= 0, cmin.                    *)
(***************************************************************************)
EXTENDS Integers, FiniteSets

CONSTANTS
    \* @type: Set(KEY);
    Keys,
    \* number of buckets: 8*len(locus)+1 in the code
    \* @type: Int;
    NB,
    \* @type: KEY -> Int;
    BucketOf,
    \* kc.max
    \* @type: Int;
    cmax,
    \* kc.minPerBucket
    \* @type: Int;
    cmin

VARIABLES
    \* present key -> [c |-> CreatedAt, e |-> ExpiresAt]  (0 = Go's zero time)
    \* @type: KEY -> {c: Int, e: Int};
    ents,
    \* len(kc.buckets)
    \* @type: Int;
    nb,
    \* bucket index -> bucket.minExpiresAt
    \* @type: Int -> Int;
    minExp,
    \* kc.count
    \* @type: Int;
    count

vars == <<ents, nb, minExp, count>>

\* NewCache's precondition (cache.go:49): max >= 0 and minPerBucket*8*len(locus) <= max
CtorPre == cmax >= 0 /\ cmin * (NB - 1) <= cmax

\* the domain of times; KadCacheRef overrides it with a finite set for TLC
TimeDom == Int

\* bucket indexes.  (MaxNB only bounds the universe Apalache works in; it is overridden by TLC.)
MaxNB == 9
Buckets == {i \in 0..(MaxNB - 1) : i < NB}

-----------------------------------------------------------------------------
(* Helpers, as in KadCache.tla *)

\* @type: (Int, Int) => Int;
Max2(a, b) == IF a > b THEN a ELSE b

\* @type: (KEY -> {c: Int, e: Int}, Int) => Set(KEY);
InB(E, i) == {k \in DOMAIN E : BucketOf[k] = i}

\* @type: (KEY -> {c: Int, e: Int}, KEY, {c: Int, e: Int}) => (KEY -> {c: Int, e: Int});
Put1(E, k, r) == [x \in (DOMAIN E) \cup {k} |-> IF x = k THEN r ELSE E[x]]

\* @type: (KEY -> {c: Int, e: Int}, Set(KEY)) => (KEY -> {c: Int, e: Int});
Del(E, S) == [x \in (DOMAIN E) \ S |-> E[x]]

\* @type: ({c: Int, e: Int}, Int) => Bool;
Expired(r, t) == r.e # 0 /\ r.e < t

\* updateMinExpires (cache.go:389)
\* @type: (Int, Int) => Int;
UpdMin(m, x) == IF x = 0 THEN m ELSE IF m = 0 \/ x < m THEN x ELSE m

\* bucket.delete recomputes minExpiresAt over the remaining entries: folding UpdMin over a set
\* yields the least non-zero ExpiresAt, 0 if there is none (KadCache.MinExpOf, without recursion)
\* @type: (KEY -> {c: Int, e: Int}, Set(KEY)) => Int;
MinExpOf(E, S) ==
    LET nz == {E[k].e : k \in {x \in S : E[x].e # 0}}
    IN IF nz = {} THEN 0 ELSE CHOOSE m \in nz : \A x \in nz : m <= x

-----------------------------------------------------------------------------
(* Initial states: an empty cache, or one prefilled without eviction by Puts at one time    *)
(* t0 without expiry (KadCache's Configs / PrefillEnts)                                     *)

Init ==
    \E S \in SUBSET Keys :
        /\ Cardinality(S) <= cmax
        /\ \E t0 \in TimeDom : ents = [k \in S |-> [c |-> t0, e |-> 0]]
        /\ \E n \in Buckets \cup {NB} :
               /\ \A k \in S : BucketOf[k] < n
               /\ nb = n
        /\ minExp = [i \in Buckets |-> 0]
        /\ count = Cardinality(S)

-----------------------------------------------------------------------------
(* Update (cache.go:91) and evict (cache.go:274): the lowest-index bucket   *)
(* (among those created) holding more than cmin entries, else the           *)
(* lowest-index non-empty bucket; within it an entry with the greatest      *)
(* CreatedAt.                                                              *)

\* @type: (KEY -> {c: Int, e: Int}, Int) => Set(Int);
EvictCands(E, n) ==
    LET occ == {BucketOf[k] : k \in {x \in DOMAIN E : BucketOf[x] < n}}
        over == {i \in occ : Cardinality(InB(E, i)) > cmin}
    IN IF over # {} THEN over ELSE occ

\* @type: (KEY -> {c: Int, e: Int}, Set(KEY)) => Set(KEY);
Newest(E, S) == {k \in S : \A j \in S : E[k].c >= E[j].c}

\* @type: (KEY, {c: Int, e: Int}) => Bool;
DoUpdate(k, r) ==
    IF cmax = 0 THEN
        UNCHANGED <<ents, nb, minExp, count>>
    ELSE
        LET lz == BucketOf[k]
            nb1 == Max2(nb, lz + 1)
            E1 == Put1(ents, k, r)
            c1 == IF k \in DOMAIN ents THEN count ELSE count + 1
            me1 == [minExp EXCEPT ![lz] = UpdMin(@, r.e)]
        IN IF c1 > cmax THEN
               LET cands == EvictCands(E1, nb1) IN
               \E b \in cands :
                   /\ \A j \in cands : b <= j
                   /\ \E v \in Newest(E1, InB(E1, b)) :
                          /\ ents' = Del(E1, {v})
                          /\ count' = c1 - 1
                          /\ nb' = nb1
                          /\ minExp' = me1
           ELSE
               /\ ents' = E1
               /\ count' = c1
               /\ nb' = nb1
               /\ minExp' = me1

\* Put(key, v, now, expiresAt) (cache.go:78)
\* @type: (KEY, Int, Int) => Bool;
Put(k, t, e) == DoUpdate(k, [c |-> t, e |-> e])

\* Update(key, fn) with DHTNode.AddPeer's fn (dht_node.go:60): keeps CreatedAt of an existing entry
\* @type: (KEY, Int, Int) => Bool;
Touch(k, t, e) == DoUpdate(k, [c |-> IF k \in DOMAIN ents THEN ents[k].c ELSE t, e |-> e])

\* Delete(key) (cache.go:157)
\* @type: (KEY) => Bool;
Delete(k) ==
    LET b == BucketOf[k] IN
    IF b >= nb \/ k \notin DOMAIN ents THEN
        UNCHANGED <<ents, nb, minExp, count>>
    ELSE
        LET E1 == Del(ents, {k}) IN
        /\ ents' = E1
        /\ count' = count - 1
        /\ minExp' = [minExp EXCEPT ![b] = MinExpOf(E1, InB(E1, b))]
        /\ nb' = nb

\* Expire(out, now) (cache.go:292)
\* @type: (Int) => Set(KEY);
ExpireSet(t) == {k \in DOMAIN ents : BucketOf[k] < nb /\ minExp[BucketOf[k]] < t /\ Expired(ents[k], t)}

\* @type: (Int) => Bool;
Expire(t) ==
    LET S == ExpireSet(t) IN
    /\ ents' = Del(ents, S)
    /\ count' = count - Cardinality(S)
    /\ UNCHANGED <<nb, minExp>>

Next ==
    \/ \E k \in Keys, t \in TimeDom, e \in TimeDom : Put(k, t, e)
    \/ \E k \in Keys, t \in TimeDom, e \in TimeDom : Touch(k, t, e)
    \/ \E k \in Keys : Delete(k)
    \/ \E t \in TimeDom : Expire(t)

Spec == Init /\ [][Next]_vars

-----------------------------------------------------------------------------
(* The properties (C18: CountExact, Bounded) and the inductive invariant    *)

CountExact == count = Cardinality(DOMAIN ents)
Bounded == Cardinality(DOMAIN ents) <= cmax /\ count <= cmax
BucketsCover == \A k \in DOMAIN ents : BucketOf[k] < nb

\* Predicate form.  (ents[k] \in [c : Int, e : Int], minExp[i] \in Int and count \in Int are what
\* the type annotations say: Apalache's type checker enforces them statically, and they are not
\* needed for the induction.)
TypeOK ==
    /\ DOMAIN ents \subseteq Keys
    /\ nb \in Int /\ 0 <= nb /\ nb <= NB
    /\ DOMAIN minExp = Buckets
    /\ count \in Int

IndInv ==
    /\ TypeOK
    /\ count = Cardinality(DOMAIN ents)
    /\ count <= cmax
    /\ BucketsCover

\* Generator form of the same set of states, for Apalache's --init (every variable is assigned an
\* ARBITRARY value of its type: any subset of Keys with any integer CreatedAt/ExpiresAt, any
\* integer minExpiresAt per bucket, any nb and count), constrained by IndInv.  These are all
\* states satisfying IndInv, reachable or not.
TypeGen ==
    /\ \E S \in SUBSET Keys : \E fc \in [Keys -> Int], fe \in [Keys -> Int] :
           ents = [k \in S |-> [c |-> fc[k], e |-> fe[k]]]
    /\ nb \in Int
    /\ minExp \in [Buckets -> Int]
    /\ count \in Int

IndInit == TypeGen /\ IndInv

\* evict always finds a victim (Update dereferenced a nil victim at the constructor's boundary, fixed in
\* /repo by the fallback "lowest non-empty bucket"): whenever Update of any key would exceed cmax, some
\* candidate bucket is occupied.  It holds in EVERY state with an integer nb (the key being updated lies
\* in a created bucket), so it needs neither the constructor's precondition nor BucketsCover; BucketsCover is what
\* makes Delete and Expire reach every present key, and is kept in IndInv because it is inductive.
EvictPossible ==
    \A k \in Keys :
        LET E1 == Put1(ents, k, [c |-> 0, e |-> 0])
            c1 == IF k \in DOMAIN ents THEN count ELSE count + 1
        IN (cmax # 0 /\ c1 > cmax) =>
               \E b \in EvictCands(E1, Max2(nb, BucketOf[k] + 1)) : InB(E1, b) # {}

\* IndInv and its consequence EvictPossible as one invariant: checked from IndInit with --length=1 it
\* discharges "IndInv => EvictPossible" (state 0) and "IndInv /\ Next => IndInv'" (state 1) in one run
IndInvX == IndInv /\ EvictPossible

\* what the users of this module want (both are conjuncts of IndInv up to rewriting; checked anyway)
Safety == CountExact /\ Bounded

-----------------------------------------------------------------------------
(* Constant universes for Apalache (--cinit).  Keys: K uninterpreted        *)
(* values; NB, BucketOf, cmax, cmin: EVERY assignment satisfying the        *)
(* constructor's precondition (NB <= MaxNB).                                *)

ConstBase ==
    /\ NB \in 1..MaxNB
    /\ BucketOf \in [Keys -> 0..(MaxNB - 1)]
    /\ \A k \in Keys : BucketOf[k] < NB
    /\ cmax \in Int
    /\ cmin \in Int
    /\ CtorPre

ConstInit3 == Keys = {"k1_OF_KEY", "k2_OF_KEY", "k3_OF_KEY"} /\ ConstBase
ConstInit4 == Keys = {"k1_OF_KEY", "k2_OF_KEY", "k3_OF_KEY", "k4_OF_KEY"} /\ ConstBase
ConstInit5 == Keys = {"k1_OF_KEY", "k2_OF_KEY", "k3_OF_KEY", "k4_OF_KEY", "k5_OF_KEY"} /\ ConstBase
ConstInit6 == Keys = {"k1_OF_KEY", "k2_OF_KEY", "k3_OF_KEY", "k4_OF_KEY", "k5_OF_KEY", "k6_OF_KEY"} /\ ConstBase
ConstInit8 == Keys = {"k1_OF_KEY", "k2_OF_KEY", "k3_OF_KEY", "k4_OF_KEY", "k5_OF_KEY", "k6_OF_KEY",
                      "k7_OF_KEY", "k8_OF_KEY"} /\ ConstBase

=============================================================================
