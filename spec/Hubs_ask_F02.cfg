SPECIFICATION Spec
CONSTANTS
  Hub = "ask"
  D = {d1, d2}
  R = {r1, r2}
  C = {c1}
  P = {}
  Cap = 0
  BugNoClosedCase = FALSE
  BugNilErr = TRUE
INVARIANTS Safety
PROPERTIES CloseIdempotent EndsPromptly
CHECK_DEADLOCK FALSE
