SPECIFICATION Spec
CONSTANTS
  Alphabet = {0, 1, 128, 255}
  MaxLen = 2
INVARIANTS CodedAgrees CodedAntisym CodedZero CodedSym CodedTransitive LeadingZerosLaw
CHECK_DEADLOCK FALSE
