---------------------------- MODULE ConnTableGen ----------------------------
(* Schedules for harness/cmd/conntabreplay and the model's prediction of what they may be observed  *)
(* to do.  A schedule is a sequence of groups; the operations of a group are released together       *)
(* (Tell / Ask start at once, the environment operations of the group fire at any moment while the   *)
(* group runs); the next group starts when nothing internal is left to happen.                       *)
(*   SchedSpec  TLC chooses the groups from Alphabet; with VIEW schedview (which hides the history)   *)
(*              and ACTION_CONSTRAINT SchedDump every edge (quiescent model state, group) is printed  *)
(*              once, with the BFS-shortest schedule that reaches the state: <<"SCHED", sched>>.      *)
(*   OutSpec    follows the schedules of ConnTableU!Scripts (written by vlib/growth_conntable.py) and *)
(*              prints for each group of each of them every observable outcome the model allows,     *)
(*              over all interleavings: <<"OUT", script, group, ToString(outcome)>>.                  *)
(* When a group has come to rest the state is compacted (finished operations, released connections    *)
(* and connection numbering are history the next group cannot see), so that the cost is linear in      *)
(* the number of groups.                                                                              *)
EXTENDS ConnTable, Json, SequencesExt, ConnTableU

CONSTANTS MaxGroups, Slow   \* Slow: also groups that make the real code wait for a timeout of seconds

VARIABLES si, sched, pend, phase, kmap, skipped
genvars == <<vars, si, sched, pend, phase, kmap, skipped>>

NoOp == [op |-> "-", from |-> 0, to |-> 0, id |-> 0, via |-> "pub", a |-> 0, b |-> 0, n |-> 0, crash |-> FALSE]
T(f, t) == [NoOp EXCEPT !.op = "tell", !.from = f, !.to = t, !.id = t]
A(f, t) == [NoOp EXCEPT !.op = "ask", !.from = f, !.to = t, !.id = t]
W(o, i) == [o EXCEPT !.id = i]
S(o) == [o EXCEPT !.via = "src"]
K(x, y) == [NoOp EXCEPT !.op = "kill", !.a = x, !.b = y]
R(x, cr) == [NoOp EXCEPT !.op = "restart", !.n = x, !.crash = cr]
X(x) == [NoOp EXCEPT !.op = "expire", !.n = x]
C(x) == [NoOp EXCEPT !.op = "close", !.n = x]
IsEnv(o) == o.op \notin {"tell", "ask"}

\* The groups TLC chooses from (two nodes; identity 3 lives nowhere).
Alphabet ==
    {<<T(1, 2)>>, <<T(2, 1)>>, <<A(1, 2)>>, <<A(2, 1)>>, <<W(T(1, 2), 3)>>, <<W(A(2, 1), 3)>>,
     <<T(1, 2), T(1, 2)>>, <<T(1, 2), T(2, 1)>>, <<T(1, 2), A(1, 2)>>, <<A(1, 2), A(2, 1)>>, <<T(1, 2), T(1, 2), T(2, 1)>>,
     <<W(T(1, 2), 3), T(2, 1)>>,
     <<K(1, 2)>>, <<T(1, 2), K(1, 2)>>, <<A(1, 2), K(1, 2)>>, <<T(2, 1), T(1, 2), K(1, 2)>>,
     <<R(2, TRUE)>>, <<R(1, TRUE)>>, <<C(2)>>, <<C(1)>>, <<T(1, 2), C(1)>>}
    \cup (IF Ssh THEN {<<S(T(2, 1))>>, <<S(T(1, 2))>>, <<S(A(2, 1))>>, <<S(T(2, 1)), T(1, 2)>>}
          ELSE {<<R(2, FALSE)>>, <<X(1)>>, <<X(2)>>})
    \cup (IF Slow THEN {<<T(1, 2), C(2)>>, <<T(1, 2), R(2, FALSE)>>, <<A(1, 2), C(2)>>} ELSE {})

\* groups that would make a real quic node wait for seconds (a dial to a closed node runs into the handshake
\* timeout, an Ask over a stale session into its own deadline)
SlowNow(g) ==
    Quic /\ \E i \in 1..Len(g) : LET o == g[i] IN
        /\ ~IsEnv(o)
        /\ \/ closed[o.to]
           \/ closed[o.from]
           \/ o.op = "ask" /\ \E e \in Entries : e.n = o.from /\ e.kad = o.to /\ e.stale
\* a group is pointless when one of its operations cannot run
Runnable(g) ==
    \A i \in 1..Len(g) : LET o == g[i] IN
        /\ o.op = "restart" => \A j \in 1..Len(g) : ~IsEnv(g[j]) => g[j].from # o.n
        /\ o.op = "close" => ~closed[o.n]
        /\ o.op = "expire" => \E c \in CIds, side \in Sides : EndNode(c, side) = o.n /\ Current(c, side) /\ IsStale(conns, c, side)
        /\ o.via = "src" => lastsrc[o.from][o.to] # -1

\* the operations of a group start: ops grows by the group's Tells and Asks, in order
RECURSIVE Started(_, _, _)
Started(os, g, i) ==
    IF i > Len(g) THEN os
    ELSE LET o == g[i] IN
         IF IsEnv(o) \/ (o.via = "src" /\ lastsrc[o.from][o.to] = -1) THEN Started(os, g, i + 1)
         ELSE Started(Append(os, [n |-> o.from, kind |-> o.op, to |-> o.to, id |-> o.id,
                                  via |-> IF o.via = "src" /\ Ssh THEN (IF lastsrc[o.from][o.to] = -2 THEN 1000 ELSE lastsrc[o.from][o.to]) ELSE 0,
                                  pc |-> "lookup", c |-> 0, res |-> "-", by |-> 0, byinc |-> 0, healthy |-> FALSE]), g, i + 1)
RECURSIVE KMap(_, _, _, _)
KMap(km, g, i, base) ==
    IF i > Len(g) THEN km
    ELSE LET o == g[i] IN
         IF IsEnv(o) \/ (o.via = "src" /\ lastsrc[o.from][o.to] = -1) THEN KMap(km, g, i + 1, base)
         ELSE KMap(Append(km, [grp |-> Len(sched) + 1, i |-> i, K |-> base + i]), g, i + 1, base)
NOps(sc) == LET RECURSIVE Sum(_) Sum(j) == IF j = 0 THEN 0 ELSE Len(sc[j]) + Sum(j - 1) IN Sum(Len(sc))

StartGroup(g) ==
    /\ phase = "idle" /\ Len(sched) < MaxGroups
    /\ ops' = Started(ops, g, 1)
    /\ kmap' = KMap(kmap, g, 1, NOps(sched))
    /\ skipped' = {i \in 1..Len(g) : ~IsEnv(g[i]) /\ g[i].via = "src" /\ lastsrc[g[i].from][g[i].to] = -1}
    /\ pend' = {i \in 1..Len(g) : IsEnv(g[i])}
    /\ sched' = Append(sched, g)
    /\ phase' = "run"
    /\ UNCHANGED <<inc, closed, conns, tab, msgs, dl, nenv, replaced, lastsrc, si>>

FireEnv(i) ==
    LET o == sched[Len(sched)][i] IN
    /\ phase = "run" /\ i \in pend
    /\ pend' = pend \ {i}
    /\ CASE o.op = "kill" -> Kill(o.a, o.b)
         [] o.op = "restart" -> Restart(o.n, o.crash)
         [] o.op = "expire" -> IF ENABLED Expire(o.n) THEN Expire(o.n) ELSE UNCHANGED vars     \* nothing is stale: no-op
         [] o.op = "close" -> IF closed[o.n] THEN UNCHANGED vars ELSE CloseSwarm(o.n)
    /\ UNCHANGED <<si, sched, phase, kmap, skipped>>

\* the observable outcome of the group that has just come to rest
Shape(e) == <<e.n, e.kid, e.kad, e.dir, e.alive>>
Outcome ==
    LET g == sched[Len(sched)]
        gi == Len(sched)
        kOf(i) == CHOOSE k \in 1..Len(kmap) : kmap[k].grp = gi /\ kmap[k].i = i
    IN [res |-> [i \in 1..Len(g) |-> IF IsEnv(g[i]) THEN "-" ELSE IF i \in skipped THEN "skip" ELSE ops[kOf(i)].res],
        ents |-> {<<sh, Cardinality({e \in Entries : Shape(e) = sh})>> : sh \in {Shape(e) : e \in Entries}},
        orph |-> Orph,
        dl |-> {kmap[k].i : k \in TellsDelivered}]

\* ---- compaction
StIdx(st) == CASE st = "hs" -> 0 [] st = "none" -> 1 [] st = "open" -> 2 [] st = "zomb" -> 3 [] st = "dead" -> 4 [] st = "closed" -> 5
B(b) == IF b THEN 1 ELSE 0
Live(c) == ~(conns[c].ce = "closed" /\ conns[c].se = "closed") \/ \E n \in Nodes : \E e \in tab[n] : e.c = c
Code(c) == LET x == conns[c] IN
    (((((((((x.cl * 4 + x.sv) * 6 + StIdx(x.ce)) * 6 + StIdx(x.se)) * 2 + B(Current(c, "cl"))) * 2 + B(Current(c, "sv"))) * 2
        + B(InTable(tab, c, "cl"))) * 2 + B(InTable(tab, c, "sv"))) * 2 + B(<<c, "cl">> \in replaced)) * 2 + B(<<c, "sv">> \in replaced))
Order == SetToSortSeq({c \in CIds : Live(c)}, LAMBDA a, b : Code(a) < Code(b) \/ (Code(a) = Code(b) /\ a < b))
NewId(c) == CHOOSE i \in 1..Len(Order) : Order[i] = c
Compact ==
    /\ conns' = [i \in 1..Len(Order) |-> [conns[Order[i]] EXCEPT !.clInc = IF Current(Order[i], "cl") THEN 0 ELSE -1,
                                                                  !.svInc = IF Current(Order[i], "sv") THEN 0 ELSE -1]]
    /\ inc' = [n \in Nodes |-> 0]
    /\ tab' = [n \in Nodes |-> {[key |-> [e.key EXCEPT !.eph = IF @ = 0 THEN 0 ELSE NewId(@)], c |-> NewId(e.c)] : e \in tab[n]}]
    /\ replaced' = {<<NewId(q[1]), q[2]>> : q \in {r \in replaced : Live(r[1])}}
    /\ lastsrc' = [n \in Nodes |-> [p \in Nodes |-> LET v == lastsrc[n][p] IN IF v <= 0 THEN v ELSE IF Live(v) THEN NewId(v) ELSE -2]]
    /\ ops' = <<>> /\ msgs' = {} /\ dl' = {} /\ nenv' = 0 /\ kmap' = <<>>
    /\ UNCHANGED closed

EndGroup ==
    /\ phase = "run" /\ pend = {} /\ Quiescent
    /\ phase' = "idle"
    /\ Compact
    /\ UNCHANGED <<si, sched, pend, skipped>>

Step == (Internal /\ UNCHANGED <<si, sched, pend, phase, kmap, skipped>>) \/ (\E i \in pend : FireEnv(i)) \/ EndGroup

GenInit0 == Init /\ sched = <<>> /\ pend = {} /\ phase = "idle" /\ kmap = <<>> /\ skipped = {}

\* ---- schedule generation
SchedInit == GenInit0 /\ si = 0
SchedNext == Step \/ \E g \in Alphabet : ~SlowNow(g) /\ Runnable(g) /\ StartGroup(g)
SchedSpec == SchedInit /\ [][SchedNext]_genvars
\* Between groups only what the next group can be sensitive to distinguishes states: the tables (connection
\* numbers dropped), the open ends outside the tables, which nodes are closed or have restarted, what
\* source addresses are known.  Inside a group nothing is merged.
AbsEnd(c, side) == <<EndNode(c, side), SideOf(c, EndNode(c, side)), EndSt(conns, c, side), IsStale(conns, c, side), Current(c, side)>>
AbsState ==
    <<{<<sh, Cardinality({e \in Entries : <<Shape(e), e.stale>> = sh})>> : sh \in {<<Shape(e), e.stale>> : e \in Entries}},
      {<<a, Cardinality({x \in OrphanEnds : AbsEnd(x[1], x[2]) = a})>> : a \in {AbsEnd(x[1], x[2]) : x \in OrphanEnds}},
      closed, [n \in Nodes |-> inc[n] > 0],
      [n \in Nodes |-> [p \in Nodes |-> IF lastsrc[n][p] <= 0 THEN lastsrc[n][p]
                                          ELSE IF \E e \in tab[n] : e.c = lastsrc[n][p] /\ e.key.dir = "in" THEN 1 ELSE 2]]>>
schedview == IF phase = "idle" THEN <<"idle", Len(sched), AbsState>> ELSE <<"run", vars, pend, Len(sched), skipped, kmap>>
SchedDump == (phase = "idle" /\ phase' = "run") => PrintT(ToJson(<<"SCHED", sched'>>))

\* ---- the scenarios that are always executed
Core ==
    LET x == IF Quic THEN <<<<X(1)>>, <<X(2)>>>> ELSE <<>> IN
    <<
      \* simultaneous open in both directions, then traffic both ways
      <<<<T(1, 2), T(2, 1)>>, <<T(1, 2)>>, <<T(2, 1)>>, <<A(1, 2), A(2, 1)>>>>,
      \* two concurrent Tells to a peer that is not connected yet
      <<<<T(1, 2), T(1, 2)>>, <<T(2, 1)>>, <<T(1, 2), A(1, 2)>>, <<K(1, 2)>>, <<T(1, 2)>>>>,
      \* a dial that finds another identity at the address; the peer then talks back
      <<<<W(T(1, 2), 3)>>, <<T(2, 1)>>, <<T(1, 2)>>, <<W(A(1, 2), 3)>>, <<A(2, 1)>>>>,
      <<<<W(T(1, 2), 3), T(2, 1)>>, <<T(2, 1)>>, <<T(1, 2)>>>>,
      \* a connection dies; the next operation must get through
      <<<<T(1, 2)>>, <<K(1, 2)>>, <<T(1, 2)>>, <<A(2, 1)>>>>,
      <<<<A(1, 2)>>, <<K(1, 2)>>, <<A(1, 2)>>, <<K(1, 2)>>, <<T(2, 1)>>>>,
      \* a connection dies while operations hold it
      <<<<T(1, 2)>>, <<T(1, 2), K(1, 2)>>, <<T(1, 2)>>, <<A(1, 2), K(1, 2)>>, <<A(1, 2)>>>>,
      <<<<T(1, 2), T(2, 1)>>, <<T(2, 1), T(1, 2), K(1, 2)>>, <<T(1, 2), T(2, 1)>>>>,
      \* the caller restarts on its address: the callee holds the old connection
      <<<<T(1, 2)>>, <<R(1, TRUE)>>, <<T(1, 2)>>>> \o x \o <<<<T(2, 1)>>, <<T(1, 2)>>>>,
      \* the callee restarts on its address
      <<<<T(1, 2)>>, <<R(2, TRUE)>>>> \o x \o <<<<T(1, 2)>>, <<A(1, 2)>>, <<T(2, 1)>>>>,
      <<<<T(1, 2), T(2, 1)>>, <<R(2, TRUE)>>>> \o x \o <<<<T(2, 1)>>, <<T(1, 2)>>>>,
      \* Close, also racing with a dial of its own
      <<<<T(1, 2), T(2, 1)>>, <<C(1)>>>> \o x,
      <<<<T(1, 2), C(1)>>>> \o x,
      <<<<T(1, 2)>>, <<T(1, 2), T(1, 2), C(1)>>>> \o x
    >>
    \o (IF Ssh THEN <<
      \* answers to the source address of a received message use the inbound connection while it lives
      <<<<T(1, 2)>>, <<S(T(2, 1))>>, <<S(A(2, 1))>>, <<K(1, 2)>>, <<S(T(2, 1))>>, <<T(2, 1)>>>>,
      <<<<T(1, 2), T(1, 2)>>, <<S(T(2, 1)), T(1, 2)>>, <<T(2, 1)>>>>,
      \* a closed ssh node has closed its connections: its peer notices, dials again and is refused
      <<<<T(1, 2)>>, <<C(2)>>, <<T(1, 2)>>, <<A(1, 2)>>, <<K(1, 2)>>, <<T(1, 2)>>>>
    >> ELSE <<
      \* a graceful restart: the peer may or may not hear of it
      <<<<T(1, 2)>>, <<R(2, FALSE)>>, <<X(1)>>, <<T(1, 2)>>>>,
      <<<<T(1, 2), T(2, 1)>>, <<R(1, FALSE)>>, <<T(2, 1)>>, <<X(2)>>, <<T(2, 1)>>>>
    >>)
\* three nodes: two callers of one peer, an identity that lives elsewhere, a callee that restarts
Core3 ==
    LET x == IF Quic THEN <<<<X(1)>>, <<X(2)>>>> ELSE <<>> IN
    <<
      <<<<T(1, 2), T(3, 2)>>, <<T(2, 1), T(2, 3)>>, <<K(1, 2)>>, <<T(1, 2), T(3, 2)>>, <<A(2, 1), A(2, 3)>>>>,
      <<<<W(T(1, 2), 3)>>, <<T(3, 2)>>, <<T(2, 3), T(2, 1)>>, <<W(A(3, 2), 1)>>, <<A(1, 2)>>>>,
      <<<<T(1, 3), T(2, 3)>>, <<R(3, TRUE)>>>> \o x \o <<<<T(1, 3), T(2, 3)>>, <<T(3, 1), T(3, 2)>>>>,
      <<<<T(1, 2), T(2, 3), T(3, 1)>>, <<T(2, 1), T(3, 2), T(1, 3)>>, <<C(3)>>>> \o x \o <<<<T(1, 2), T(2, 1)>>>>
    >>
CoreDump == PrintT(ToJson(<<"CORE", Core>>)) /\ PrintT(ToJson(<<"CORE3", Core3>>))

\* ---- outcome prediction
OutInit == GenInit0 /\ si \in 1..Len(Scripts)
Finished == phase = "idle" /\ Len(sched) = Len(Scripts[si])
OutNext ==
    \/ Step
    \/ /\ ~Finished /\ phase = "idle" /\ StartGroup(Scripts[si][Len(sched) + 1])
OutSpec == OutInit /\ [][OutNext]_genvars
OutDump == (phase = "run" /\ phase' = "idle") => PrintT(ToJson(<<"OUT", si, Len(sched), ToString(Outcome)>>))
\* a schedule the model cannot run to its end (bounds) must be noticed
Stuck == phase = "run" /\ ~ENABLED Step
NotStuck == ~Stuck

\* the laws hold along every schedule as well
GenLaws == TypeOK /\ TableIdentity /\ DeadRemoved /\ AfterClose /\ NoOrphan
=============================================================================
