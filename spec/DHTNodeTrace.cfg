SPECIFICATION TraceSpec
CONSTANTS
  Locus <- TLocus
  Keys <- TKeys
  Queries <- TQueries
  Vals <- TNone
  Times <- TNone
  TouchTimes <- TNone
  ExpTimes <- TNone
  Exps <- TNone
  Configs <- TNone
  MaxOps = 1000000000
  LocalID <- TLocal
  PeerIDs <- TPeers
  DataKeys <- TDataKeys
  Infos = {1}
  DVals <- TNone
  PutTTLs <- TNone
  HPutTTLs <- TNone
  PeerTTL <- TPeerTTL
  MaxDataTTL <- TMaxDataTTL
  MaxNow = 1000000
  NodeConfigs <- TNone
  Targets <- TTargets
  Limits <- TLimits
  Orig <- TNone
POSTCONDITION AllConsumed
CHECK_DEADLOCK FALSE
