----------------------------- MODULE PacketConn -----------------------------
(***************************************************************************)
(* p2pconn.NewPacketConn (/repo/p2pconn/packetconn.go): the net.PacketConn *)
(* adapter over a p2p.Swarm, as coded, over s/memswarm (whose Receive is   *)
(* swarmutil.Queue.Receive: ONE select over ctx.Done, closed and the       *)
(* queue, so every ready case may be taken).                                *)
(*                                                                         *)
(* One connection under test ("A") and a peer that sends to it.  A read    *)
(* deadline is one of                                                      *)
(*   "none"  no deadline (never set, or set to the zero time.Time)         *)
(*   "past"  a deadline that has passed                                    *)
(*   "soon"  a deadline that has not passed yet but will (action Expire)   *)
(*   "far"   a deadline that does not pass within the behaviour            *)
(* ReadFrom builds its context from the deadline AT CALL TIME              *)
(* (getReadContext, packetconn.go:92): a later SetReadDeadline does not    *)
(* reach a ReadFrom that is already blocked (KF_DeadlineNotPropagated; the *)
(* net.PacketConn contract says it must: law DeadlineWakesBlocked).        *)
(*                                                                         *)
(* The pure operators over a state record (ReadOutcomes, AfterRead, ...)   *)
(* are shared with PacketConnTrace, which follows the real object with the *)
(* same record and evaluates the law operators on what it returned.        *)
(***************************************************************************)
EXTENDS Integers, Sequences, FiniteSets, TLC, Json

CONSTANTS QLen,     \* queue length of the swarm under the connection (memswarm.WithQueueLen)
          MaxOps

DKinds == {"none", "past", "soon", "far"}

\* state record: q = queued packet ids, rd = "idle" | "blocked", rctx = the deadline kind the
\* blocked ReadFrom captured
S0 == [q |-> <<>>, closed |-> FALSE, rdl |-> "none", wdl |-> "none", rd |-> "idle", rctx |-> "none"]

-----------------------------------------------------------------------------
(* as coded *)

\* ReadFrom (packetconn.go:43) -> Queue.Receive: the ready cases of the select; none: it blocks
ReadReady(s) == (IF s.rdl = "past" THEN {"timeout"} ELSE {})
                \cup (IF s.closed THEN {"closed"} ELSE {})
                \cup (IF s.q # <<>> THEN {"pkt"} ELSE {})
ReadOutcomes(s) == IF ReadReady(s) = {} THEN {"blocked"} ELSE ReadReady(s)
AfterRead(s, out) ==
    CASE out = "pkt" -> [s EXCEPT !.q = Tail(s.q)]
      [] out = "blocked" -> [s EXCEPT !.rd = "blocked", !.rctx = s.rdl]
      [] OTHER -> s

\* the peer's Tell -> Queue.DeliverVec: refused silently when closed or full; a blocked reader takes it
ArriveAccepted(s) == ~s.closed /\ Len(s.q) < QLen
AfterArrive(s, id) ==
    IF ~ArriveAccepted(s) THEN s
    ELSE IF s.rd = "blocked" THEN [s EXCEPT !.rd = "idle"]      \* woken with the packet
    ELSE [s EXCEPT !.q = Append(s.q, id)]
ArriveWake(s) == IF ArriveAccepted(s) /\ s.rd = "blocked" THEN "pkt" ELSE "none"

\* SetReadDeadline / SetWriteDeadline / SetDeadline (packetconn.go:62-84): stored, read at the next call
AfterSet(s, which, k) ==
    CASE which = "setr" -> [s EXCEPT !.rdl = k]
      [] which = "setw" -> [s EXCEPT !.wdl = k]
      [] OTHER -> [s EXCEPT !.rdl = k, !.wdl = k]
KF_DeadlineNotPropagated == TRUE        \* known finding: a blocked ReadFrom keeps its old context
SetWake(s, which, k) ==
    IF ~KF_DeadlineNotPropagated /\ which # "setw" /\ k = "past" /\ s.rd = "blocked" THEN "timeout" ELSE "none"

\* time passes beyond every "soon" deadline
ExpireEnabled(s) == s.rdl = "soon" \/ s.wdl = "soon" \/ (s.rd = "blocked" /\ s.rctx = "soon")
AfterExpire(s) ==
    [s EXCEPT !.rdl = IF @ = "soon" THEN "past" ELSE @,
              !.wdl = IF @ = "soon" THEN "past" ELSE @,
              !.rd = IF s.rd = "blocked" /\ s.rctx = "soon" THEN "idle" ELSE @]
ExpireWake(s) == IF s.rd = "blocked" /\ s.rctx = "soon" THEN "timeout" ELSE "none"

\* Close (packetconn.go:112) -> swarm.Close -> Queue.Close: wakes the reader, discards the queue
AfterClose(s) == [s EXCEPT !.closed = TRUE, !.q = <<>>, !.rd = "idle"]
CloseWake(s) == IF s.rd = "blocked" THEN "closed" ELSE "none"

\* WriteTo (packetconn.go:31): net.ErrClosed once closed; memswarm's Tell never blocks and does
\* not look at its context, so the write deadline has no effect over memswarm
WriteOutcomes(s) == IF s.closed THEN {"closed"} ELSE {"ok"}

-----------------------------------------------------------------------------
(* Laws (net.PacketConn contract), over a state record and an observed result *)

\* a ReadFrom with an expired deadline never blocks, and with nothing queued it is a timeout
ExpiredNeverBlocksP(s, out) == s.rdl = "past" => out # "blocked"
ExpiredEmptyTimesOutP(s, out) == (s.rdl = "past" /\ s.q = <<>> /\ ~s.closed) => out = "timeout"
\* packets come out in arrival order, each once, and only if they arrived (a timeout loses nothing)
FifoP(s, out, id) == out = "pkt" => (s.q # <<>> /\ id = Head(s.q))
\* no deadline (or one not yet reached): a queued packet is returned, an empty queue blocks
AvailableIsReturnedP(s, out) == (s.rdl \in {"none", "far"} /\ s.q # <<>> /\ ~s.closed) => out = "pkt"
NoDeadlineBlocksP(s, out) == (s.rdl \in {"none", "far"} /\ s.q = <<>> /\ ~s.closed) => out = "blocked"
\* after Close every ReadFrom / WriteTo is an error
ReadAfterCloseP(s, out) == s.closed => (out \in {"closed", "timeout"} /\ (out = "timeout" => s.rdl \in {"past", "soon"}))
WriteAfterCloseP(s, out) == s.closed => out \notin {"ok"}
\* Close wakes a blocked ReadFrom with an error
CloseUnblocksP(s, wake) == s.rd = "blocked" => wake \in {"closed", "timeout"}
\* a blocked ReadFrom returns only for a cause: a packet arrived, Close, or ITS deadline passed
WakeHasCauseP(s, op, wake) ==
    wake # "none" =>
        /\ s.rd = "blocked"
        /\ \/ wake = "pkt" /\ op = "arrive"
           \/ wake = "closed" /\ op = "close"
           \/ wake = "timeout" /\ (s.rctx = "soon" \/ (op \in {"setr", "setb"}))
\* net.PacketConn: "SetReadDeadline sets the deadline for future ReadFrom calls and any
\* currently-blocked ReadFrom call"
DeadlineWakesBlockedP(s, which, k, wake) ==
    (which \in {"setr", "setb"} /\ k = "past" /\ s.rd = "blocked") => wake = "timeout"

-----------------------------------------------------------------------------
(* The model *)

VARIABLES st, nsent, last, nops
vars == <<st, nsent, last, nops>>

Init == st = S0 /\ nsent = 0 /\ last = [op |-> "init"] /\ nops = 0

Bump == nops < MaxOps /\ nops' = nops + 1

Set(which, k) ==
    /\ Bump /\ ~st.closed
    /\ st' = AfterSet(st, which, k)
    /\ last' = [op |-> which, k |-> k, wake |-> SetWake(st, which, k)]
    /\ UNCHANGED nsent
Arrive ==
    /\ Bump
    /\ st' = AfterArrive(st, nsent + 1)
    /\ nsent' = nsent + 1
    /\ last' = [op |-> "arrive", pid |-> nsent + 1, wake |-> ArriveWake(st)]
Read ==
    /\ Bump /\ st.rd = "idle"
    /\ \E out \in ReadOutcomes(st) :
        /\ st' = AfterRead(st, out)
        /\ last' = [op |-> "read", out |-> out, pid |-> IF out = "pkt" THEN Head(st.q) ELSE 0]
    /\ UNCHANGED nsent
Expire ==
    /\ Bump /\ ExpireEnabled(st)
    /\ st' = AfterExpire(st)
    /\ last' = [op |-> "expire", wake |-> ExpireWake(st)]
    /\ UNCHANGED nsent
Close ==
    /\ Bump
    /\ st' = AfterClose(st)
    /\ last' = [op |-> "close", wake |-> CloseWake(st)]
    /\ UNCHANGED nsent
Write ==
    /\ Bump
    /\ \E out \in WriteOutcomes(st) : last' = [op |-> "write", out |-> out]
    /\ UNCHANGED <<st, nsent>>

Next == \/ \E w \in {"setr", "setw", "setb"}, k \in DKinds : Set(w, k)
        \/ Arrive \/ Read \/ Expire \/ Close \/ Write
Spec == Init /\ [][Next]_vars

TypeOK == /\ st.q \in Seq(1..MaxOps) /\ Len(st.q) <= QLen
          /\ st.rdl \in DKinds /\ st.wdl \in DKinds /\ st.rd \in {"idle", "blocked"}
\* structural facts the laws rely on
BlockedMeansEmpty == st.rd = "blocked" => (st.q = <<>> /\ ~st.closed /\ st.rctx # "past")
ClosedMeansEmpty == st.closed => (st.q = <<>> /\ st.rd = "idle")

\* the laws on every step of the model (the state before the step and what the step reported)
StepLaws ==
    /\ (last'.op = "read") =>
          /\ ExpiredNeverBlocksP(st, last'.out) /\ ExpiredEmptyTimesOutP(st, last'.out)
          /\ FifoP(st, last'.out, last'.pid) /\ AvailableIsReturnedP(st, last'.out)
          /\ NoDeadlineBlocksP(st, last'.out) /\ ReadAfterCloseP(st, last'.out)
    /\ (last'.op = "write") => WriteAfterCloseP(st, last'.out)
    /\ (last'.op = "close") => CloseUnblocksP(st, last'.wake)
    /\ (last'.op \in {"arrive", "close", "expire", "setr", "setw", "setb"}) => WakeHasCauseP(st, last'.op, last'.wake)
StepLawsProp == [][StepLaws]_vars
\* the known finding, as a property of the as-coded model: EXPECTED TO BE VIOLATED (PacketConn_kf.cfg)
DeadlineWakesBlocked ==
    [][(last'.op \in {"setr", "setb"}) => DeadlineWakesBlockedP(st, last'.op, last'.k, last'.wake)]_vars

=============================================================================
