----------------------------- MODULE FragTrace -----------------------------
(***************************************************************************)
(* Trace specification binding Frag.tla to the real fragswarm / mbapp      *)
(* receivers (C10).  The log is written by harness/cmd/fragreplay:          *)
(*   init    a new behaviour: layer, blocks per inner packet                *)
(*   tell    the real sender-side layer was told message <<s, m>> of `len`  *)
(*           blocks; netsim captured `nfrag` fragments                      *)
(*   feed    the fragments <<s, m, idx>> about to be handed to the real     *)
(*           receiver-side layer (logged BEFORE they are handed over; one   *)
(*           fragment, or a burst racing on several receive workers)        *)
(*   deliver what the layer's Receive callback saw: attributed source and   *)
(*           the payload decoded into blocks, as runs <<s, m, off, count>>  *)
(*           (bytes that decode to no block appear as blocks <<0, 0, pos>>) *)
(*   end     per message, how often it was delivered                        *)
(* Monitor: NoInventionP / NoPartialP / NoHoleP of Frag.tla are evaluated   *)
(* on every delivery against the ledger of told messages and the set of     *)
(* fragments fed so far.  DRIFT: the coded sender arithmetic of Frag.tla    *)
(* predicts another number of fragments than netsim captured, or a message  *)
(* all of whose fragments were fed was never delivered.                     *)
(***************************************************************************)
EXTENDS Integers, Sequences, FiniteSets, TLC, Json, IOUtils

F == INSTANCE Frag WITH Layer <- "frag", Sources <- {}, MsgLens <- <<>>, PartCap <- 1, LayerMtu <- 0,
        Workers <- {}, WithCleanup <- FALSE,
        net <- {}, amap <- <<>>, heap <- <<>>, wk <- <<>>, bad <- {}, last <- <<>>

Log == ndJsonDeserialize(IOEnv.TRACE)

VARIABLES l, fresh, starts,
          layer, cap,
          told,     \* set of <<s, m>> passed to Tell so far
          lens,     \* <<s, m>> -> length in blocks
          nfr,      \* <<s, m>> -> number of fragments the real sender emitted
          fed       \* set of <<s, m, idx>> handed to the receiver so far (Call-before)
tvars == <<l, fresh, starts, layer, cap, told, lens, nfr, fed>>

NShards == atoi(IOEnv.NSHARDS)
Resets == {i \in 1..Len(Log) : Log[i].ev = "init"}
ComputeStarts == {1} \cup {CHOOSE i \in Resets : i >= c /\ \A j \in Resets : j >= c => i <= j :
                      c \in {c2 \in {(k * Len(Log)) \div NShards + 1 : k \in 1..(NShards - 1)} :
                                 \E i \in Resets : i >= c2}}

ToSet(s) == {s[i] : i \in 1..Len(s)}
RECURSIVE Expand(_)
Expand(runs) ==
    IF runs = <<>> THEN <<>>
    ELSE LET r == Head(runs) IN [i \in 1..r[4] |-> <<r[1], r[2], r[3] + i - 1>>] \o Expand(Tail(runs))

Ext(fn, k, v) == [x \in (DOMAIN fn) \cup {k} |-> IF x = k THEN v ELSE fn[x]]

TraceInit ==
    /\ starts = ComputeStarts
    /\ l \in starts
    /\ fresh = TRUE
    /\ layer = "none" /\ cap = 0
    /\ told = {} /\ lens = <<>> /\ nfr = <<>> /\ fed = {}

DeliverViol(ev) ==
    LET d == [src |-> ev.src, blocks |-> Expand(ev.runs)]
    IN {n \in {"NoInvention", "NoPartial"} :
          CASE n = "NoInvention" -> ~F!NoInventionP(told, LAMBDA m : lens[m], d)
            [] n = "NoPartial" -> \/ ~F!NoPartialP(told, LAMBDA m : nfr[m], fed, d)
                                  \/ ~F!NoHoleP(told, LAMBDA m : lens[m], d)}

TraceNext ==
    /\ l <= Len(Log)
    /\ (fresh \/ l \notin starts)
    /\ fresh' = FALSE
    /\ starts' = starts
    /\ l' = l + 1
    /\ LET ev == Log[l] IN
       CASE ev.ev = "init" ->
              /\ layer' = ev.layer /\ cap' = ev.cap
              /\ told' = {} /\ lens' = <<>> /\ nfr' = <<>> /\ fed' = {}
         [] ev.ev = "tell" ->
              LET m == <<ev.s, ev.m>> IN
              /\ told' = told \cup {m}
              /\ lens' = Ext(lens, m, ev.len)
              /\ nfr' = Ext(nfr, m, ev.nfrag)
              /\ (ev.err = "nil" /\ ev.nfrag # F!NFrags(ev.len, cap, layer))
                    => PrintT(ToJson(<<"DRIFT", l, ev.beh, "nfrags">>))
              /\ UNCHANGED <<layer, cap, fed>>
         [] ev.ev = "feed" ->
              /\ fed' = fed \cup ToSet(ev.frags)
              /\ UNCHANGED <<layer, cap, told, lens, nfr>>
         [] ev.ev = "deliver" ->
              /\ LET vs == DeliverViol(ev) IN
                    (vs # {}) => PrintT(ToJson(<<"VIOL", l, ev.beh, vs>>))
              /\ UNCHANGED <<layer, cap, told, lens, nfr, fed>>
         [] ev.ev = "end" ->
              /\ LET cnt == [x \in {<<c[1], c[2]>> : c \in ToSet(ev.deliv)} |->
                               (CHOOSE c \in ToSet(ev.deliv) : <<c[1], c[2]>> = x)[3]]
                     lostm == {m \in told : /\ nfr[m] > 0
                                            /\ \A i \in 0..(nfr[m] - 1) : <<m[1], m[2], i>> \in fed
                                            /\ (m \notin DOMAIN cnt \/ cnt[m] = 0)}
                 IN (lostm # {}) => PrintT(ToJson(<<"DRIFT", l, ev.beh, "undelivered">>))
              /\ UNCHANGED <<layer, cap, told, lens, nfr, fed>>
         [] OTHER -> UNCHANGED <<layer, cap, told, lens, nfr, fed>>

TraceSpec == TraceInit /\ [][TraceNext]_tvars
AllConsumed == TLCGet("distinct") >= Len(Log) + 1
=============================================================================
