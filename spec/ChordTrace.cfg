SPECIFICATION TraceSpec
CONSTANTS
  NBytes = 1
  As <- TNoneC
  Bs <- TNoneC
  Cs <- TNoneC
POSTCONDITION AllConsumed
CHECK_DEADLOCK FALSE
