--------------------------- MODULE PacketClasses ---------------------------
(***************************************************************************)
(* C08 -- no bytes from the network can crash a node.                       *)
(*                                                                          *)
(* For each packet-facing layer: the header grammar with BOUNDARY-VALUED    *)
(* fields (0, 1, max, max+1, values that wrap in the field's integer type,  *)
(* lengths larger than the remaining bytes, 2^63, 2^64-1, truncated and     *)
(* over-long varints, too-short headers), as a finite set of named packet   *)
(* classes.  TLC enumerates ALL SEQUENCES of at most MaxLen[layer] packets  *)
(* (later packets contradict header fields of earlier ones) and prints them *)
(* as JSON cases for harness/cmd/crashreplay, which concretises them        *)
(* (seeded filler bytes + seeded byte-level mutation) and delivers them to  *)
(* the real layer in a child process.                                       *)
(*                                                                          *)
(* This is the WEAKER form of the technique (DESIGN section 9): a structured*)
(* exhaustive case generator over malformed-input CLASSES, not over byte    *)
(* strings.  For the three layers whose indexing depends on earlier packets *)
(* (fragswarm aggregator, mbapp collector, string multiplexer) the module   *)
(* also models the slicing/indexing the code performs: Run(layer, seq,      *)
(* fixed) is "ok" or the name of the out-of-range access.  NoModelPanic is  *)
(* the design-level check on the repaired design (fixed = TRUE); with       *)
(* fixed = FALSE the same operator predicts F05 / F06 / F07 and is used by  *)
(* PacketTrace.tla only to NAME the abstract class of a crashing sequence.  *)
(* PacketTrace.tla's laws are NoCrash and StillServes on real observations. *)
(***************************************************************************)
EXTENDS Integers, Sequences, FiniteSets, TLC, Json

CONSTANTS Rich,      \* FALSE: quick class sets and lengths; TRUE: thorough
          Fixed      \* TRUE: model the repaired indexing (guards present); FALSE: the pinned code

\* A header value: a natural below 2^31, or a named value beyond TLC's integers.
Nv(n) == [big |-> FALSE, n |-> n, name |-> ""]
Bv(name) == [big |-> TRUE, n |-> 0, name |-> name]
\* conversions the code performs on 64-bit header fields
BigU8 == [x \in {"2^31", "2^32", "2^32+7", "2^63-1", "2^63", "2^64-1"} |->
             CASE x = "2^32+7" -> 7 [] x \in {"2^63-1", "2^64-1"} -> 255 [] OTHER -> 0]
U8(v) == IF v.big THEN BigU8[v.name] ELSE v.n % 256                   \* uint8(x)
NegAsInt64(v) == v.big /\ v.name \in {"2^63", "2^64-1"}                \* int(x) < 0
\* compare a remaining-byte count (small) with a length field:  rem < int(L)
LessThanLen(rem, v) == IF v.big THEN ~NegAsInt64(v) ELSE rem < v.n

\* ================================================================ fragswarm
\* s/fragswarm/fragswarm.go parseMessage: uvarint id, part, total; uint32(id), uint8(part), uint8(total)
Frag(name, id, part, total, enc, dlen) == [n |-> name, id |-> id, part |-> part, total |-> total, enc |-> enc, dlen |-> dlen]
FragQuick == {
    Frag("empty", "A", Nv(0), Nv(0), "empty", 0),
    Frag("trunc-id", "A", Nv(0), Nv(0), "trunc1", 0),
    Frag("trunc-total", "A", Nv(0), Nv(2), "trunc3", 0),
    Frag("overlong-varint", "A", Nv(0), Nv(2), "overlong", 4),
    Frag("p0/t1", "A", Nv(0), Nv(1), "ok", 4),
    Frag("p0/t2", "A", Nv(0), Nv(2), "ok", 4),
    Frag("p1/t2", "A", Nv(1), Nv(2), "ok", 4),
    Frag("p0/t3", "A", Nv(0), Nv(3), "ok", 0),
    Frag("p2/t3", "A", Nv(2), Nv(3), "ok", 4),
    Frag("p2/t2", "A", Nv(2), Nv(2), "ok", 4),
    Frag("p0/t0", "A", Nv(0), Nv(0), "ok", 4),
    Frag("p254/t255", "A", Nv(254), Nv(255), "ok", 1),
    Frag("p256/t2", "A", Nv(256), Nv(2), "ok", 4),                     \* uint8(256) = 0
    Frag("p1/t258", "A", Nv(1), Nv(258), "ok", 4),                     \* uint8(258) = 2
    Frag("id+2^32:p2/t3", "A'", Nv(2), Nv(3), "ok", 4),                \* uint32(id + 2^32) = id
    Frag("B:p1/t2", "B", Nv(1), Nv(2), "ok", 4)}
FragRich == FragQuick \cup {
    Frag("p1/t3", "A", Nv(1), Nv(3), "ok", 4),
    Frag("p255/t0", "A", Nv(255), Nv(0), "ok", 0),
    Frag("p0/t255", "A", Nv(0), Nv(255), "ok", 4),
    Frag("p0/t256", "A", Nv(0), Nv(256), "ok", 4),
    Frag("p0/t257", "A", Nv(0), Nv(257), "ok", 4),
    Frag("p2^32/t2", "A", Bv("2^32"), Nv(2), "ok", 4),
    Frag("p2^64-1/t0", "A", Bv("2^64-1"), Nv(0), "ok", 4),
    Frag("p1/t2^64-1", "A", Nv(1), Bv("2^64-1"), "ok", 4),
    Frag("p0/t2/big", "A", Nv(0), Nv(2), "ok", 1000),
    Frag("B:p0/t3", "B", Nv(0), Nv(3), "ok", 4)}
FragIdKey(id) == IF id = "A'" THEN "A" ELSE id
FragNoAgg == [len |-> 0, have |-> {}]
FragInit == [A |-> FragNoAgg, B |-> FragNoAgg]
FragStep(st, p) ==
    IF p.enc # "ok" THEN st
    ELSE LET part == U8(p.part) total == U8(p.total) IN
         IF part >= total THEN st                                      \* "part >= total"
         ELSE IF total = 1 THEN st                                     \* delivered without an aggregator
         ELSE LET k == FragIdKey(p.id)
                  agg == IF st[k].len = 0 THEN [len |-> total, have |-> {}] ELSE st[k]     \* parts sized by the FIRST packet
              IN IF part >= agg.len                                    \* a.parts[int(part)]: fragswarm.go addPart
                 THEN (IF Fixed THEN st ELSE [st EXCEPT !.panic = "part>=total-after-first"])
                 ELSE LET have == agg.have \cup {part}
                      IN IF have = 0..(agg.len - 1) THEN [st EXCEPT ![k] = FragNoAgg]
                         ELSE [st EXCEPT ![k] = [len |-> agg.len, have |-> have]]

\* ==================================================================== mbapp
\* p/mbapp/message.go: 6 big-endian words; swarm.go handleMessage; fragment.go collector.addPart
MbMTU == 1024
Mb(name, mode, gid, idx, cnt, size, blen, hdr) ==
    [n |-> name, mode |-> mode, gid |-> gid, idx |-> idx, cnt |-> cnt, size |-> size, blen |-> blen, hdr |-> hdr, timeout |-> "max"]
MbQuick == {
    Mb("short-0", "tell", "A", 0, 1, Nv(0), 0, 0),
    Mb("short-23", "tell", "A", 0, 1, Nv(0), 0, 23),
    Mb("tell/single", "tell", "A", 0, 1, Nv(8), 8, 24),
    Mb("tell/cnt0", "tell", "A", 0, 0, Nv(8), 8, 24),
    Mb("tell/first-of-2", "tell", "A", 0, 2, Nv(16), 8, 24),
    Mb("tell/last-of-2", "tell", "A", 1, 2, Nv(16), 8, 24),
    Mb("tell/last-oversized", "tell", "A", 1, 2, Nv(4), 8, 24),       \* offset = len(buf) - len(data) < 0
    Mb("tell/idx>=cnt", "tell", "A", 5, 2, Nv(16), 8, 24),
    Mb("tell/size>mtu", "tell", "A", 0, 2, Nv(MbMTU + 1), 8, 24),
    Mb("tell/size0-of-2", "tell", "A", 0, 2, Nv(0), 8, 24),
    Mb("tell/cnt65535", "tell", "A", 65534, 65535, Nv(16), 8, 24),
    Mb("tell/size=2^32-1", "tell", "A", 0, 2, Bv("2^32-1"), 8, 24),
    Mb("B:tell/last-of-3", "tell", "B", 2, 3, Nv(8), 8, 24),
    Mb("ask/single", "ask", "A", 0, 1, Nv(8), 8, 24),
    Mb("reply/unknown", "reply", "A", 0, 1, Nv(8), 8, 24),
    Mb("reply/matching-long", "reply", "ASK", 0, 1, Nv(64), 64, 24)}  \* answers an Ask the node has in flight
MbRich == MbQuick \cup {
    Mb("short-1", "tell", "A", 0, 1, Nv(0), 0, 1),
    Mb("tell/empty-body", "tell", "A", 0, 1, Nv(0), 0, 24),
    Mb("tell/mid-of-3", "tell", "A", 1, 3, Nv(24), 8, 24),
    Mb("tell/mid-oversized", "tell", "A", 1, 3, Nv(12), 8, 24),
    Mb("tell/size=mtu", "tell", "A", 0, 2, Nv(MbMTU), 8, 24),
    Mb("tell/body>size-single", "tell", "A", 0, 1, Nv(4), 64, 24),
    Mb("ask/first-of-2", "ask", "A", 0, 2, Nv(16), 8, 24),
    Mb("ask/last-oversized", "ask", "A", 1, 2, Nv(4), 8, 24),
    Mb("reply/matching", "reply", "ASK", 0, 1, Nv(8), 8, 24),
    Mb("reply/matching-last-oversized", "reply", "ASK", 1, 2, Nv(4), 8, 24)}
MbNoCol == [cnt |-> 0, size |-> 0, have |-> {}]
MbInit == [A |-> MbNoCol, B |-> MbNoCol, ASK |-> MbNoCol]
MbStep(st, p) ==
    IF p.hdr < 24 THEN st                                               \* ParseMessage: too short
    ELSE IF p.size.big \/ p.size.n > MbMTU THEN st                      \* total message size exceeds mtu
    ELSE IF p.cnt < 2 THEN st                                           \* fast path: no collector
    ELSE LET col == IF st[p.gid].cnt = 0 THEN [cnt |-> p.cnt, size |-> p.size.n, have |-> {}] ELSE st[p.gid]   \* sized by the FIRST packet
             st1 == [st EXCEPT ![p.gid] = col]
         IN IF p.idx >= col.cnt \/ p.idx \in col.have THEN st1
            ELSE LET offset == IF p.idx = col.cnt - 1 THEN col.size - p.blen ELSE p.blen * p.idx
                 IN IF offset >= col.size THEN st1                       \* "invalid offset"
                    ELSE IF offset < 0                                   \* copy(c.buf[offset:], data): fragment.go addPart
                         THEN (IF Fixed THEN st1 ELSE [st1 EXCEPT !.panic = "last-part-larger-than-buffer"])
                         ELSE LET have == col.have \cup {p.idx}
                              IN IF have = 0..(col.cnt - 1) THEN [st1 EXCEPT ![p.gid] = MbNoCol]
                                 ELSE [st1 EXCEPT ![p.gid] = [col EXCEPT !.have = have]]

\* ============================================================ multiplexers
\* p/p2pmux/stringmux.go stringDemuxFunc: uvarint length, then that many channel bytes
Sm(name, enc, len, rem, chan) == [n |-> name, enc |-> enc, len |-> len, rem |-> rem, chan |-> chan]
StringMuxClasses == {
    Sm("empty", "empty", Nv(0), 0, "none"),
    Sm("trunc-varint", "trunc1", Nv(0), 0, "none"),
    Sm("overlong-varint", "overlong", Nv(2), 6, "open"),
    Sm("len0", "ok", Nv(0), 4, "none"),
    Sm("len=chan/no-data", "ok", Nv(2), 2, "open"),
    Sm("len=chan/data", "ok", Nv(2), 6, "open"),
    Sm("unknown-chan", "ok", Nv(2), 6, "unknown"),
    Sm("len=rem+1", "ok", Nv(7), 6, "open"),
    Sm("len=128/short", "ok", Nv(128), 6, "open"),
    Sm("len=2^31", "ok", Bv("2^31"), 6, "open"),
    Sm("len=2^63-1", "ok", Bv("2^63-1"), 6, "open"),
    Sm("len=2^63", "ok", Bv("2^63"), 6, "open"),                        \* int(chanLength) < 0
    Sm("len=2^64-1", "ok", Bv("2^64-1"), 6, "open")}
SmStep(st, p) ==
    IF p.enc # "ok" THEN st
    ELSE IF NegAsInt64(p.len)                                            \* len(x) < int(chanLength) is false; x[:chanLength] panics
         THEN (IF Fixed THEN st ELSE [st EXCEPT !.panic = "len>=2^63"])
         ELSE st                                                         \* error or delivery
\* varintmux.go, uint16mux.go, uint32mux.go, uint64mux.go
Vm(name, enc, chan, body) == [n |-> name, enc |-> enc, chan |-> chan, body |-> body]
VarintMuxClasses == {
    Vm("empty", "empty", Nv(0), 0), Vm("trunc-varint", "trunc1", Nv(0), 0), Vm("overlong-varint", "overlong", Nv(5), 4),
    Vm("chan0", "ok", Nv(0), 4), Vm("open", "ok", Nv(5), 4), Vm("open/no-body", "ok", Nv(5), 0),
    Vm("unknown", "ok", Nv(6), 4), Vm("chan=2^64-1", "ok", Bv("2^64-1"), 4)}
Fm(name, hdr, chan, body) == [n |-> name, hdr |-> hdr, chan |-> chan, body |-> body]
FixedMuxClasses(size) == {
    Fm("empty", 0, "none", 0), Fm("short-1", 1, "none", 0), Fm("short-size-1", size - 1, "none", 0),
    Fm("open/no-body", size, "open", 0), Fm("open/data", size, "open", 4), Fm("unknown", size, "unknown", 4),
    Fm("chan=max", size, "max", 4)}

\* ==================================================================== p2pke
\* p/p2pke/session.go, messages.go, channel.go; s/p2pkeswarm/swarm.go.  A packet is a 4-byte big-endian
\* counter followed by a body; counters 0..3 are handshake messages.  The adversary is a full protocol
\* participant (own key, real crypto): "ih" InitHello built on its own ephemeral with chosen identity
\* fields, "id" InitDone / "data" encrypted under the keys of the handshake it is running, "rh"/"rd"
\* RespHello / RespDone when the node under test is the initiator, "raw" arbitrary bytes.
Ke(name, kind, f) == [n |-> name, kind |-> kind] @@ f
IH(name, ts, key, sig, wrap) == Ke(name, "ih", [ts |-> ts, key |-> key, sig |-> sig, wrap |-> wrap])
KeRawClasses == {
    Ke("raw/len0", "raw", [hdr |-> 0, nonce |-> Nv(0), body |-> 0]),
    Ke("raw/len3", "raw", [hdr |-> 3, nonce |-> Nv(0), body |-> 0]),
    Ke("raw/nonce0-empty", "raw", [hdr |-> 4, nonce |-> Nv(0), body |-> 0]),
    Ke("raw/nonce0-short-e", "raw", [hdr |-> 4, nonce |-> Nv(0), body |-> 31]),
    Ke("raw/nonce1-garbage", "raw", [hdr |-> 4, nonce |-> Nv(1), body |-> 64]),
    Ke("raw/nonce2-garbage", "raw", [hdr |-> 4, nonce |-> Nv(2), body |-> 64]),
    Ke("raw/nonce3-empty", "raw", [hdr |-> 4, nonce |-> Nv(3), body |-> 0]),
    Ke("raw/nonce16-garbage", "raw", [hdr |-> 4, nonce |-> Nv(16), body |-> 32]),
    Ke("raw/nonce=2^32-1", "raw", [hdr |-> 4, nonce |-> Bv("2^32-1"), body |-> 32])}
KeIHQuick == {
    IH("ih/valid", "ok", "valid", "valid", "ok"),
    IH("ih/replay", "ok", "valid", "valid", "replay"),                  \* the previous valid InitHello again, byte for byte
    IH("ih/e-only", "ok", "valid", "valid", "no-payload"),
    IH("ih/len-field>payload", "ok", "valid", "valid", "len>rem"),
    IH("ih/len-field=0", "ok", "valid", "valid", "len0"),
    IH("ih/proto-garbage", "ok", "valid", "valid", "garbage"),
    IH("ih/ts-11", "11", "valid", "valid", "ok"),
    IH("ih/ts-empty", "0", "valid", "valid", "ok"),
    IH("ih/key-empty", "ok", "empty", "valid", "ok"),
    IH("ih/key-body31", "ok", "body31", "valid", "ok"),
    IH("ih/key-body33", "ok", "body33", "valid", "ok"),
    IH("ih/key-other-oid", "ok", "ed448-oid", "valid", "ok"),
    IH("ih/sig-empty", "ok", "valid", "empty", "ok"),
    IH("ih/sig-63", "ok", "valid", "63", "ok"),
    IH("ih/sig-wrong", "ok", "valid", "wrong", "ok")}
KeIHRich == KeIHQuick \cup {
    IH("ih/ts-13", "13", "valid", "valid", "ok"),
    IH("ih/ts-old", "old", "valid", "valid", "ok"),
    IH("ih/key-garbage", "ok", "garbage", "valid", "ok"),
    IH("ih/key-body0", "ok", "body0", "valid", "ok"),
    IH("ih/key-trailing", "ok", "trailing", "valid", "ok"),
    IH("ih/sig-65", "ok", "valid", "65", "ok"),
    IH("ih/other-peers-claim", "ok", "victim-claim", "victim-claim", "ok")}
KeSessQuick == {
    Ke("id/valid", "id", [sig |-> "valid", form |-> "ok"]),
    Ke("id/sig-wrong", "id", [sig |-> "wrong", form |-> "ok"]),
    Ke("id/sig-empty", "id", [sig |-> "empty", form |-> "ok"]),
    Ke("id/proto-garbage", "id", [sig |-> "valid", form |-> "garbage"]),
    Ke("id/tag-flipped", "id", [sig |-> "valid", form |-> "flip"]),
    Ke("data/valid", "data", [nonce |-> Nv(16), form |-> "ok"]),
    Ke("data/replay", "data", [nonce |-> Nv(16), form |-> "replay"]),
    Ke("data/nonce=2^32-1", "data", [nonce |-> Bv("2^32-1"), form |-> "ok"]),
    Ke("data/tag-flipped", "data", [nonce |-> Nv(17), form |-> "flip"]),
    Ke("data/empty-ciphertext", "data", [nonce |-> Nv(18), form |-> "empty"])}
KeRespSide == {     \* the node under test is (also) an initiator: it has sent / will send an InitHello
    Ke("act/node-initiates", "act", [what |-> "send"]),
    Ke("rh/valid", "rh", [key |-> "valid", sig |-> "valid", form |-> "ok"]),
    Ke("rh/sig-wrong", "rh", [key |-> "valid", sig |-> "wrong", form |-> "ok"]),
    Ke("rh/key-body31", "rh", [key |-> "body31", sig |-> "valid", form |-> "ok"]),
    Ke("rh/proto-garbage", "rh", [key |-> "valid", sig |-> "valid", form |-> "garbage"]),
    Ke("rh/short", "rh", [key |-> "valid", sig |-> "valid", form |-> "short"]),
    Ke("rd/valid", "rd", [form |-> "ok"]),
    Ke("rd/garbage", "rd", [form |-> "garbage"])}
SessionRespClasses ==
    IF Rich THEN KeRawClasses \cup KeIHRich \cup KeSessQuick
    ELSE {c \in KeRawClasses : c.n \in {"raw/len3", "raw/nonce0-empty", "raw/nonce2-garbage", "raw/nonce=2^32-1"}}
           \cup {c \in KeIHQuick : c.n \in {"ih/valid", "ih/replay", "ih/len-field>payload", "ih/proto-garbage", "ih/key-body31", "ih/sig-63"}}
           \cup {c \in KeSessQuick : c.n \in {"id/valid", "id/sig-wrong", "data/valid", "data/nonce=2^32-1"}}
SessionInitClasses ==
    (IF Rich THEN KeRawClasses ELSE {c \in KeRawClasses : c.n \in {"raw/len3", "raw/nonce1-garbage", "raw/nonce3-empty", "raw/nonce=2^32-1"}})
      \cup (KeRespSide \ {Ke("act/node-initiates", "act", [what |-> "send"])})
      \cup {Ke("data/valid", "data", [nonce |-> Nv(16), form |-> "ok"]), Ke("data/tag-flipped", "data", [nonce |-> Nv(17), form |-> "flip"]),
            IH("ih/valid", "ok", "valid", "valid", "ok")}
ChannelClasses ==
    IF Rich
    THEN KeRawClasses
           \cup {c \in KeIHQuick : c.n \in {"ih/valid", "ih/replay", "ih/len-field>payload", "ih/proto-garbage", "ih/ts-11", "ih/key-body31", "ih/sig-63", "ih/sig-wrong"}}
           \cup {c \in KeSessQuick : c.n \in {"id/valid", "id/sig-wrong", "id/proto-garbage", "data/valid", "data/replay", "data/nonce=2^32-1", "data/tag-flipped"}}
           \cup KeRespSide
    ELSE {c \in KeRawClasses : c.n \in {"raw/len3", "raw/nonce2-garbage"}}
           \cup {c \in KeIHQuick : c.n \in {"ih/valid", "ih/replay", "ih/proto-garbage", "ih/key-body31", "ih/sig-wrong"}}
           \cup {c \in KeSessQuick : c.n \in {"id/valid", "id/sig-wrong", "data/valid", "data/nonce=2^32-1"}}
           \cup {c \in KeRespSide : c.n \in {"act/node-initiates", "rh/valid", "rh/sig-wrong"}}

\* ============================================================ text parsers
Tx(name) == [n |-> name]
AddrTextClasses == {Tx("valid"), Tx("empty"), Tx("no-separator"), Tx("separators-only"), Tx("many-separators"),
                    Tx("huge-port"), Tx("negative-port"), Tx("hex-port"), Tx("unclosed-bracket"), Tx("zone-only"),
                    Tx("nul-bytes"), Tx("very-long"), Tx("non-utf8"), Tx("newline-inside"), Tx("id-wrong-length"), Tx("nested-twice")}
PeerIDTextClasses == {Tx("valid"), Tx("empty"), Tx("short42"), Tx("long44"), Tx("bad-char"), Tx("lf-at-end"), Tx("crlf-inside"),
                      Tx("pad-eq"), Tx("trailing-bits"), Tx("nul-bytes"), Tx("very-long"), Tx("non-utf8")}
DERClasses == {Tx("valid"), Tx("empty"), Tx("only-tag"), Tx("truncated"), Tx("trailing-data"), Tx("length-huge"), Tx("length-indefinite"),
               Tx("nested-deep"), Tx("oid-arc-overflow"), Tx("oid-empty"), Tx("bitstring-no-unused-octet"), Tx("bitstring-unused-gt7"),
               Tx("bitstring-huge-length"), Tx("params-null"), Tx("body31"), Tx("body33"), Tx("body0")}

\* ==================================================================== quic
\* s/quicswarm/quicswarm.go readFrame: 4-byte big-endian length, then the body; reached over a real QUIC
\* connection from an adversary with its own certificate ("ask": bidirectional stream carrying a request
\* frame; "tell": unidirectional stream; "resp": the frame answering an Ask of the node under test).
Qf(name, dir, hdr, len, body, fin) == [n |-> name, dir |-> dir, hdr |-> hdr, len |-> len, body |-> body, fin |-> fin]
QuicMTU == 4096
QuicQuick == {
    Qf("ask/valid", "ask", 4, Nv(8), 8, TRUE),
    Qf("ask/hdr-0", "ask", 0, Nv(0), 0, TRUE),
    Qf("ask/hdr-3", "ask", 3, Nv(0), 0, TRUE),
    Qf("ask/len0", "ask", 4, Nv(0), 0, TRUE),
    Qf("ask/len=mtu+1", "ask", 4, Nv(QuicMTU + 1), 16, TRUE),
    Qf("ask/len=2^31", "ask", 4, Bv("2^31"), 16, TRUE),
    Qf("ask/len=2^32-1", "ask", 4, Bv("2^32-1"), 16, TRUE),
    Qf("ask/len>body", "ask", 4, Nv(64), 16, TRUE),
    Qf("ask/len<body", "ask", 4, Nv(4), 64, TRUE),
    Qf("ask/reset-mid-frame", "ask", 4, Nv(64), 16, FALSE),
    Qf("tell/empty", "tell", 0, Nv(0), 0, TRUE),
    Qf("tell/valid", "tell", 0, Nv(0), 16, TRUE),
    Qf("tell/mtu+1", "tell", 0, Nv(0), QuicMTU + 1, TRUE),
    Qf("resp/len>buffer", "resp", 4, Nv(64), 64, TRUE),
    Qf("resp/len=2^32-1", "resp", 4, Bv("2^32-1"), 8, TRUE),
    Qf("resp/hdr-2", "resp", 2, Nv(0), 0, TRUE),
    Qf("resp/len>body", "resp", 4, Nv(8), 2, TRUE)}
QuicRich == QuicQuick \cup {
    Qf("ask/hdr-1", "ask", 1, Nv(0), 0, TRUE),
    Qf("ask/len=mtu", "ask", 4, Nv(QuicMTU), QuicMTU, TRUE),
    Qf("ask/len1", "ask", 4, Nv(1), 1, TRUE),
    Qf("tell/2mtu", "tell", 0, Nv(0), 2 * QuicMTU, TRUE),
    Qf("tell/reset", "tell", 0, Nv(0), 16, FALSE),
    Qf("resp/valid", "resp", 4, Nv(4), 4, TRUE),
    Qf("resp/none", "resp", 0, Nv(0), 0, TRUE)}

\* ================================================================ kademlia
\* p/kademlia/dht_node.go HandlePut / HandleGet / HandleFindNode, cache.go with odd key lengths.
\* "json": the request arrives as JSON text and is decoded into the request struct first.
Dh(name, op, klen, f) == [n |-> name, op |-> op, klen |-> klen] @@ f
DhtQuick == {
    Dh("put/key0", "put", 0, [val |-> "small", ttl |-> Nv(1000)]),
    Dh("put/key1", "put", 1, [val |-> "small", ttl |-> Nv(1000)]),
    Dh("put/key31", "put", 31, [val |-> "small", ttl |-> Nv(1000)]),
    Dh("put/key32", "put", 32, [val |-> "small", ttl |-> Nv(1000)]),
    Dh("put/key33", "put", 33, [val |-> "small", ttl |-> Nv(1000)]),
    Dh("put/nil-key-nil-value", "put", -1, [val |-> "nil", ttl |-> Nv(0)]),
    Dh("put/ttl=2^63", "put", 32, [val |-> "small", ttl |-> Bv("2^63")]),
    Dh("put/ttl=2^64-1", "put", 32, [val |-> "nil", ttl |-> Bv("2^64-1")]),
    Dh("put/same-key-again", "put", 32, [val |-> "big", ttl |-> Nv(1)]),
    Dh("get/key0", "get", 0, [pad |-> 0]), Dh("get/key1", "get", 1, [pad |-> 0]), Dh("get/key32", "get", 32, [pad |-> 0]), Dh("get/key33", "get", 33, [pad |-> 0]),
    Dh("find/limit-1", "find", 32, [limit |-> "-1"]),
    Dh("find/limit0", "find", 32, [limit |-> "0"]),
    Dh("find/limit11", "find", 32, [limit |-> "11"]),
    Dh("find/limit-maxint", "find", 32, [limit |-> "maxint"]),
    Dh("find/limit-minint", "find", 32, [limit |-> "minint"]),
    Dh("find/target-self", "find", 32, [limit |-> "self"]),
    Dh("json/put-bad-base64", "json", 0, [text |-> "put-bad-base64"]),
    Dh("json/find-target-short", "json", 0, [text |-> "find-target-short"]),
    Dh("json/find-target-bad-char", "json", 0, [text |-> "find-target-bad-char"]),
    Dh("json/find-limit-huge", "json", 0, [text |-> "find-limit-huge"]),
    Dh("json/put-ttl-negative", "json", 0, [text |-> "put-ttl-negative"]),
    Dh("json/nulls", "json", 0, [text |-> "nulls"]),
    Dh("json/truncated", "json", 0, [text |-> "truncated"])}
CacheClasses == {[n |-> op \o "/key" \o ToString(l), op |-> op, klen |-> l] :
                   op \in (IF Rich THEN {"put", "get", "delete", "foreach", "closest", "closer", "wouldadd", "contains"} ELSE {"put", "get", "delete", "foreach", "closer", "wouldadd"}),
                   l \in (IF Rich THEN {0, 1, 31, 32, 33} ELSE {0, 1, 32, 33})}

\* =================================================================== layers
Classes ==
    [fragswarm |-> IF Rich THEN FragRich ELSE {c \in FragQuick : c.n \notin {"p0/t0", "p254/t255"}},
     mbapp |-> IF Rich THEN MbRich ELSE {c \in MbQuick : c.n \notin {"short-0", "tell/size0-of-2"}},
     \* the five p2pmux demultiplexers, tell and ask paths
     muxStringTell |-> StringMuxClasses, muxStringAsk |-> StringMuxClasses,
     muxVarintTell |-> VarintMuxClasses, muxVarintAsk |-> VarintMuxClasses,
     muxU16Tell |-> FixedMuxClasses(2), muxU16Ask |-> FixedMuxClasses(2),
     muxU32Tell |-> FixedMuxClasses(4), muxU32Ask |-> FixedMuxClasses(4),
     muxU64Tell |-> FixedMuxClasses(8), muxU64Ask |-> FixedMuxClasses(8),
     sessionResp |-> SessionRespClasses, sessionInit |-> SessionInitClasses,
     channel |-> ChannelClasses, p2pkeswarm |-> ChannelClasses,
     addrUdp |-> AddrTextClasses, addrSsh |-> AddrTextClasses, addrQuic |-> AddrTextClasses, addrP2pke |-> AddrTextClasses,
     addrMulti |-> AddrTextClasses, addrMem |-> AddrTextClasses,
     peerIDText |-> PeerIDTextClasses, x509Parse |-> DERClasses,
     quicFrame |-> IF Rich THEN QuicRich ELSE QuicQuick,
     dhtSmall |-> DhtQuick, dhtZero |-> DhtQuick, dhtDefault |-> DhtQuick,
     kadCache32 |-> CacheClasses, kadCache1 |-> CacheClasses, kadCache0 |-> CacheClasses]
Layers == DOMAIN Classes
Stateless == {"addrUdp", "addrSsh", "addrQuic", "addrP2pke", "addrMulti", "addrMem", "peerIDText", "x509Parse"}
Muxes == {"muxStringTell", "muxStringAsk", "muxVarintTell", "muxVarintAsk", "muxU16Tell", "muxU16Ask", "muxU32Tell", "muxU32Ask", "muxU64Tell", "muxU64Ask"}
\* sequences of <= MaxLen packets; stateless parsers see single inputs
MaxLen(layer) ==
    CASE layer \in Stateless -> 1
      [] layer \in Muxes -> IF Rich THEN 3 ELSE 2
      [] layer \in {"kadCache32", "kadCache1", "kadCache0"} -> 2
      [] layer \in {"p2pkeswarm", "quicFrame"} -> 2          \* (milliseconds per sequence: real handshakes, real QUIC)
      [] layer \in {"dhtSmall", "dhtZero", "dhtDefault"} -> IF Rich THEN 3 ELSE 2
      [] layer \in {"sessionResp", "sessionInit", "channel"} -> 3
      [] OTHER -> 3
Seqs(layer) == UNION {[1..k -> Classes[layer]] : k \in 1..MaxLen(layer)}

\* -------------------------------------------------- design-level indexing
Modelled == {"fragswarm", "mbapp", "muxStringTell", "muxStringAsk"}
StepOf(l, st, p) == CASE l = "fragswarm" -> FragStep(st, p) [] l = "mbapp" -> MbStep(st, p) [] OTHER -> SmStep(st, p)
InitOf(l) == CASE l = "fragswarm" -> FragInit @@ [panic |-> ""] [] l = "mbapp" -> MbInit @@ [panic |-> ""] [] OTHER -> [panic |-> ""]
RECURSIVE Fold(_, _, _, _)
Fold(l, st, s, i) == IF i > Len(s) \/ st.panic # "" THEN st ELSE Fold(l, StepOf(l, st, s[i]), s, i + 1)
\* "", or the name of the out-of-range access the modelled code performs on this sequence
Run(l, s) == IF l \in Modelled THEN Fold(l, InitOf(l), s, 1).panic ELSE ""

VARIABLES layer, seq
vars == <<layer, seq>>
Init == layer \in Layers /\ seq \in Seqs(layer)
Next == FALSE /\ UNCHANGED vars
Spec == Init /\ [][Next]_vars

NoModelPanic == Run(layer, seq) = ""
Dump == PrintT(ToJson(<<"PCASE", layer, seq>>))
=============================================================================
