SPECIFICATION Spec
CONSTANTS
  Hub = "queue"
  D = {d1, d2}
  R = {r1, r2}
  C = {c1}
  P = {p1}
  Cap = 2
  BugNoClosedCase = FALSE
  BugNilErr = FALSE
INVARIANTS Safety
PROPERTIES CancelEnds CloseReturns
CHECK_DEADLOCK FALSE
