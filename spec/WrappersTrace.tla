--------------------------- MODULE WrappersTrace ---------------------------
(* Trace specification of the wrapper runs: VSwarmTrace with Wrap = "wl" (Allow = the allow sets of the    *)
(* wrappers) or Wrap = "map" (every address in the log is an upper address; ToIn maps it down before the    *)
(* inner laws are evaluated: the laws of the realm READ THROUGH THE MAPPING are the laws of mapswarm).      *)
(* The wrapper laws proper are VSwarm!WlInbound / WlOutbound / AskOwnAnswer (a refused ask is an error and  *)
(* reaches no handler) / NoLoss (admitted traffic still gets through) / NodeObs (LocalAddrs, ParseAddr,     *)
(* LookupPublicKey consistent with the mapping).                                                           *)
EXTENDS VSwarmTrace
WrapperLaws == {"WlInbound", "WlOutbound", "AskOwnAnswer", "AskRouting", "Routing", "NodeObs", "NoLoss", "CallbackOnce"}
=============================================================================
