SPECIFICATION Spec
CONSTANTS
  MaxDepth = 3
  Rich = FALSE
  UdpBrackets = TRUE
  SshPlus = TRUE
INVARIANTS RoundTripLaw ParseTotalLaw
CHECK_DEADLOCK FALSE
