------------------------------ MODULE MuxTrace ------------------------------
(***************************************************************************)
(* Trace specification binding Mux.tla to the real p/p2pmux (C15), through  *)
(* the public API only.  harness/cmd/muxreplay executes every case of       *)
(* MuxGen: the sending mux sits on netsim, so the frame is OBSERVED as the   *)
(* bytes handed to the inner swarm; the receiving mux (with the case's set   *)
(* of open channels) gets exactly those bytes injected, and the harness      *)
(* records which opened swarm's Receive / ServeAsk callback saw which        *)
(* payload.  One log line per case:                                          *)
(*   cls, kind, open, c, x, op     the case (ids: bit lists / byte lists)    *)
(*   sent, frame                   whether a frame was observed, its bytes   *)
(*                                 (class "raw": the injected bytes)         *)
(*   disp                          observed dispatches [c, x]                *)
(* Monitor (operators of Mux.tla on observations only):                      *)
(*   RoundTrip   what the destination channel saw is the payload sent        *)
(*   Isolation   only the swarm opened for c saw anything; raw bytes reach   *)
(*               channel d with payload y only if they are a framing of it   *)
(*   Injective   no two observed frames of different (c, x) are equal        *)
(*   PrefixFree  no observed header is a prefix of another channel's header  *)
(* DRIFT: the observed frame differs from Mux!Frame, a frame for an open     *)
(* channel was not delivered, the sender refused, the channel's MTU() is not *)
(* the inner MTU minus its own observed header length (all channels of a     *)
(* kind share one sending mux; the verdict on MTU honesty is C09's).         *)
(***************************************************************************)
EXTENDS Mux, Json, IOUtils

Log == ndJsonDeserialize(IOEnv.TRACE)

VARIABLES l,
          driftK    \* kinds whose observed framing differs from the model's
tvars == <<l, driftK, cs, cs2>>

ToSet(s) == {s[i] : i \in 1..Len(s)}
IdOf(kind, j) == IF kind = "str" THEN j ELSE ToSet(j)
DispOf(kind, ds) == [i \in 1..Len(ds) |-> [c |-> IdOf(kind, ds[i].c), x |-> ds[i].x]]

TraceInit == cs = 0 /\ cs2 = 0 /\ l = 1 /\ driftK = {}

\* observed header = observed frame without the trailing payload
ObsHeader(frame, x) == Take(frame, Len(frame) - Len(x))
EndsWith(frame, x) == Len(x) <= Len(frame) /\ \A i \in 1..Len(x) : frame[Len(frame) - Len(x) + i] = x[i]

(* Laws over ALL observed frames of the log, evaluated once (zero-arity definitions are cached by TLC; *)
(* keeping the frames in a state variable would make every state as large as the log).                  *)
Framed == {i \in 1..Len(Log) : Log[i].cls # "raw" /\ Log[i].sent}
Obs(i) == <<Log[i].kind, Log[i].frame, IdOf(Log[i].kind, Log[i].c), Log[i].x>>
ObsSet == {Obs(i) : i \in Framed}
\* Injective: as many distinct frames as distinct (channel, payload) pairs, per kind
InjectiveAll == Cardinality({<<t[1], t[2]>> : t \in ObsSet}) = Cardinality(ObsSet)
\* only evaluated when InjectiveAll is false: the later event of some colliding pair
InjectiveCulprits ==
    {j \in Framed : \E i \in Framed : i < j /\ Log[i].kind = Log[j].kind /\ Log[i].frame = Log[j].frame
                                        /\ ~InjectiveP(Obs(i)[3], Obs(i)[4], Log[i].frame, Obs(j)[3], Obs(j)[4], Log[j].frame)}
HdrSet == {<<Log[i].kind, IdOf(Log[i].kind, Log[i].c), ObsHeader(Log[i].frame, Log[i].x)>> :
              i \in {j \in Framed : EndsWith(Log[j].frame, Log[j].x)}}
\* PrefixFree over all observed headers without enumerating all pairs: a header is bad when one of its
\* proper prefixes (only the lengths that occur need to be tried) is itself an observed header of the kind,
\* or when another channel has the very same header.  PrefixFreeP confirms every reported pair.
HdrOnly == {<<p[1], p[3]>> : p \in HdrSet}
HdrLens == [k \in Kinds |-> {Len(p[3]) : p \in {q \in HdrSet : q[1] = k}}]
SameHeaderBad == IF Cardinality(HdrOnly) = Cardinality(HdrSet) THEN {}
                 ELSE {p \in HdrSet : \E q \in HdrSet : q[1] = p[1] /\ q[3] = p[3] /\ q[2] # p[2]}
PrefixBad == {p \in HdrSet : \E n \in HdrLens[p[1]] : n < Len(p[3]) /\ <<p[1], Take(p[3], n)>> \in HdrOnly}
             \cup SameHeaderBad
PrefixCulprits ==
    {j \in Framed : /\ EndsWith(Log[j].frame, Log[j].x)
                    /\ <<Log[j].kind, IdOf(Log[j].kind, Log[j].c), ObsHeader(Log[j].frame, Log[j].x)>> \in PrefixBad
                    /\ \E q \in HdrSet : q[1] = Log[j].kind
                          /\ ~PrefixFreeP(IdOf(Log[j].kind, Log[j].c), ObsHeader(Log[j].frame, Log[j].x), q[2], q[3])}
GlobalViol(j) ==
    (IF ~InjectiveAll /\ j \in InjectiveCulprits THEN {"Injective"} ELSE {})
    \cup (IF PrefixBad # {} /\ j \in PrefixCulprits THEN {"PrefixFree"} ELSE {})

CaseViol(ev, kind, open, c, disp) ==
    IF ev.cls = "raw"
    THEN IF kind \in driftK THEN {}
         ELSE (IF RawIsolationP(kind, open, ev.frame, disp) THEN {} ELSE {"Isolation"})
    ELSE (IF \A i \in 1..Len(disp) : disp[i].c = c => disp[i].x = ev.x THEN {} ELSE {"RoundTrip"})
         \cup (IF \A i \in 1..Len(disp) : disp[i].c = c /\ disp[i].c \in open THEN {} ELSE {"Isolation"})
         \cup (IF ev.sent /\ ~EndsWith(ev.frame, ev.x) THEN {"RoundTrip"} ELSE {})

TraceNext ==
    /\ l <= Len(Log)
    /\ l' = l + 1
    /\ UNCHANGED <<cs, cs2>>
    /\ LET ev == Log[l]
           kind == ev.kind
           open == {IdOf(kind, ev.open[i]) : i \in 1..Len(ev.open)}
           c == IdOf(kind, ev.c)
           disp == DispOf(kind, ev.disp)
           vs == CaseViol(ev, kind, open, c, disp) \cup GlobalViol(l)
           drift == IF ev.cls = "raw" THEN {}
                    ELSE (IF ~ev.sent THEN {"notsent"} ELSE {})
                         \cup (IF ev.sent /\ ev.frame # Frame(kind, c, ev.x) THEN {"framing"} ELSE {})
                         \cup (IF ev.sent /\ c \in open /\ disp = <<>> THEN {"undelivered"} ELSE {})
                         \* MTU(channel) = MTU(inner) - observed header length of that channel, independent of siblings
                         \cup (IF ev.sent /\ EndsWith(ev.frame, ev.x)
                                  /\ ev.mtu # ev.innermtu - Len(ObsHeader(ev.frame, ev.x)) THEN {"mtu"} ELSE {})
       IN /\ (vs # {}) => PrintT(ToJson(<<"VIOL", l, ev.id, vs>>))
          /\ (drift # {}) => PrintT(ToJson(<<"DRIFT", l, ev.id, drift>>))
          /\ driftK' = IF "framing" \in drift THEN driftK \cup {kind} ELSE driftK

TraceSpec == TraceInit /\ [][TraceNext]_tvars
AllConsumed == TLCGet("distinct") >= Len(Log) + 1
\* Mux's own constants / variables are not used by the trace spec
MNone == {}
=============================================================================
