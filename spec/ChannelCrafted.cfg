SPECIFICATION Spec
CONSTANTS
  Alphabet = {"RD", "D16", "D17", "Dmax", "Dmax1", "D3", "D15", "RHdup"}
  MaxLen = 3
  Situations = {"fresh", "bound"}
INVARIANTS OnlyAcceptedDataC OnlyAcceptedReadyC
CHECK_DEADLOCK FALSE
