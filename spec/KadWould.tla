------------------------------ MODULE KadWould ------------------------------
(***************************************************************************)
(* kademlia.Cache WouldPut / WouldAdd / AcceptingPrefixLen                  *)
(* (/repo/p/kademlia/cache.go:118-147, 228-240) versus what Put then does.  *)
(*                                                                         *)
(* KadCache.tla has WouldPutOf (as coded) and only the law WouldPutSound    *)
(* (a present key is never refused).  This module states the exact relation *)
(* as coded.  The operators take the constructor parameters explicitly      *)
(* (mx, mn) so that KadWouldTrace can evaluate them on logged projections   *)
(* of the real cache without binding KadCache's variables; SameAsKadCache   *)
(* and PutMatchesOutcome tie them to KadCache's own definitions.            *)
(*                                                                         *)
(* Documentation: "WouldPut returns true if a call to Put with key would    *)
(* add or overwrite an entry" and, inside the loop over the farther         *)
(* buckets, "if there is something to evict, return true".  The code used   *)
(* to test b.len() < minPerBucket there (the opposite); it was repaired to  *)
(* b.len() > minPerBucket (what evict() looks for), and that is what is     *)
(* modelled (WouldPutC).  WouldPutOld is the former comparison, kept only   *)
(* for the anti-vacuity self-tests KadWould_old_*.cfg: the laws below must  *)
(* be VIOLATED by a model that uses it.                                     *)
(* With the repair WouldPut is SOUND (yes => Put stores the key) and it is  *)
(* COMPLETE except in one corner (KF_OwnBucketUnderMin): a full cache, the  *)
(* key's own bucket still within its minimum and no farther bucket over its *)
(* minimum -- Put then takes its victim from a deeper bucket (or, at the    *)
(* constructor's boundary, from the farthest non-empty one) and stores the  *)
(* key, while WouldPut says no; and at max = 0 (Put is a no-op, WouldPut    *)
(* says yes).                                                               *)
(***************************************************************************)
EXTENDS KadCache

-----------------------------------------------------------------------------
(* as coded, with explicit parameters *)

SizeB(E, j) == Cardinality(InB(E, j))
OverMin(E, n, mn) == {j \in BucketsOf(E) : j < n /\ SizeB(E, j) > mn}
MinSet(S) == CHOOSE m \in S : \A y \in S : m <= y

\* WouldPut (cache.go:126)
WouldPutC(E, n, c, mx, mn, k) ==
    LET i == Bucket(k) IN
    \/ c + 1 <= mx
    \/ i >= n
    \/ k \in DOMAIN E
    \/ \E j \in 0..(i - 1) : SizeB(E, j) > mn                 \* a farther bucket has something to evict
\* the comparison before the repair (self-tests only)
WouldPutOld(E, n, c, mx, mn, k) ==
    LET i == Bucket(k) IN
    \/ c + 1 <= mx
    \/ i >= n
    \/ k \in DOMAIN E
    \/ \E j \in 0..(i - 1) : SizeB(E, j) < mn
\* WouldAdd (cache.go:118)
WouldAddC(E, n, c, mx, mn, k) == IF Bucket(k) < n /\ k \in DOMAIN E THEN FALSE ELSE WouldPutC(E, n, c, mx, mn, k)

\* AcceptingPrefixLen (cache.go:228)
AcceptC(E, n, c, mx, mn) ==
    IF c + 1 < mx THEN 0
    ELSE IF OverMin(E, n, mn) = {} THEN n ELSE MinSet(OverMin(E, n, mn)) + 1

\* evict (cache.go:286), Update (cache.go:93) with Put's closure: every possible report
EvictBucketC(E, n, mn) ==
    LET occ == {j \in BucketsOf(E) : j < n}
        S == IF OverMin(E, n, mn) # {} THEN OverMin(E, n, mn) ELSE occ
    IN MinSet(S)
PutOutcomesC(E, n, c, mx, mn, k, t) ==
    IF mx = 0 THEN {[hasEv |-> FALSE, ev |-> <<>>, added |-> FALSE, stored |-> FALSE]}
    ELSE LET exists == k \in DOMAIN E
             E1 == Put1(E, k, [v |-> 1, c |-> t, e |-> 0])
             c1 == IF exists THEN c ELSE c + 1
             n1 == Max2(n, Bucket(k) + 1)
         IN IF c1 > mx
            THEN {[hasEv |-> TRUE, ev |-> v, added |-> (v # k), stored |-> (v # k)] :
                      v \in Newest(E1, InB(E1, EvictBucketC(E1, n1, mn)))}
            ELSE {[hasEv |-> FALSE, ev |-> <<>>, added |-> ~exists, stored |-> TRUE]}

-----------------------------------------------------------------------------
(* The exact relation, case by case.  outs = the set of reports Put(k) can   *)
(* make from this state (model) or the singleton of what it did (trace).     *)

FullAbsentOld(E, n, c, mx, k) == c + 1 > mx /\ k \notin DOMAIN E /\ Bucket(k) < n
FartherOver(E, n, mn, k) == {j \in OverMin(E, n, mn) : j < Bucket(k)}

\* 1. room left: WouldPut says yes, Put stores without evicting
RoomAgreesP(E, n, c, mx, mn, k, w, outs) ==
    (c + 1 <= mx) => (w /\ \A o \in outs : o.stored /\ ~o.hasEv)
\* 2. key present: yes, Put overwrites (and reports added = FALSE, no eviction)
PresentAgreesP(E, n, c, mx, mn, k, w, outs) ==
    (k \in DOMAIN E /\ mx > 0) => (w /\ \A o \in outs : o.stored /\ ~o.hasEv /\ ~o.added)
\* 3. key opens a new (deepest) bucket: yes, Put stores it and evicts somebody else
NewBucketAgreesP(E, n, c, mx, mn, k, w, outs) ==
    (Bucket(k) >= n /\ mx > 0) => (w /\ \A o \in outs : o.stored)
\* 4. full, key absent, bucket exists -- as coded the answer is "a farther bucket is over its minimum"
FullCodedP(E, n, c, mx, mn, k, w) ==
    FullAbsentOld(E, n, c, mx, k) => (w <=> FartherOver(E, n, mn, k) # {})
\* 5. ... and then Put stores the key, evicting from the farthest such bucket
FartherEvictsP(E, n, c, mx, mn, k, outs) ==
    (FullAbsentOld(E, n, c, mx, k) /\ FartherOver(E, n, mn, k) # {}) =>
        \A o \in outs : o.stored /\ o.hasEv /\ Bucket(o.ev) = MinSet(FartherOver(E, n, mn, k))
\* 6. ... and when no farther bucket is over its minimum but the key's own bucket would be, the victim
\*    comes from the key's own bucket (the key itself when it is the newest)
OwnBucketP(E, n, c, mx, mn, k, outs) ==
    (FullAbsentOld(E, n, c, mx, k) /\ FartherOver(E, n, mn, k) = {} /\ SizeB(E, Bucket(k)) + 1 > mn) =>
        \A o \in outs : o.hasEv /\ Bucket(o.ev) = Bucket(k)
\* 7. ... and when neither holds (the key's own bucket stays within its minimum) the victim comes from a
\*    deeper bucket or, if no bucket is over its minimum, from the farthest non-empty one: the key is
\*    stored although WouldPut says no (KF_OwnBucketUnderMin)
UnderMin(E, n, c, mx, mn, k) ==
    FullAbsentOld(E, n, c, mx, k) /\ FartherOver(E, n, mn, k) = {} /\ SizeB(E, Bucket(k)) + 1 <= mn
\* the documented law "WouldPut(k) <=> Put(k) adds or overwrites", for a Put whose CreatedAt is the newest:
\* soundness (yes => stored) ...
WouldPutSoundP(mx, w, outs) == (w /\ mx > 0) => \A o \in outs : o.stored
\* ... and completeness (no => not stored) outside the two recorded corners
WouldPutCompleteP(E, n, c, mx, mn, k, w, outs) ==
    (~w /\ ~UnderMin(E, n, c, mx, mn, k)) => \A o \in outs : ~o.stored
\* the unrestricted law: EXPECTED TO BE VIOLATED in the two corners (KadWould_kf_*.cfg)
WouldPutAgreesP(w, outs) == w <=> (\A o \in outs : o.stored)
\* WouldAdd = absent and WouldPut
WouldAddP(E, n, k, w, wa) == wa = (w /\ ~(Bucket(k) < n /\ k \in DOMAIN E))

\* AcceptingPrefixLen: 0 while at least two slots are free; otherwise one more than the farthest
\* bucket over its minimum (the bucket evict() takes its victim from), len(buckets) if there is none
AcceptCodedP(E, n, c, mx, mn, a) == a = AcceptC(E, n, c, mx, mn)
\* every absent key at least that deep is stored by Put ...
AcceptSoundP(E, n, c, mx, mn, k, a, outs) ==
    (mx > 0 /\ k \notin DOMAIN E /\ Bucket(k) >= a) => \A o \in outs : o.stored
\* ... and when the cache is full the victim comes from bucket a-1, "the shallowest bucket that would evict"
AcceptIsEvictBucketP(E, n, c, mx, mn, k, a, outs) ==
    (c >= mx /\ mx > 0 /\ OverMin(E, n, mn) # {} /\ k \notin DOMAIN E /\ Bucket(k) >= a) =>
        \A o \in outs : o.hasEv /\ Bucket(o.ev) = a - 1

-----------------------------------------------------------------------------
(* Model checking over KadCache's reachable states *)

ProbeTimes == {1, 9}        \* as old as the oldest entries / newer than every entry

SameAsKadCache ==
    /\ \A k \in Keys : WouldPutC(ents, nb, count, cmax, cmin, k) = WouldPutOf(ents, nb, count, k)
    /\ (DOMAIN ents # {} /\ nb > 0) => EvictBucketC(ents, nb, cmin) = EvictBucket(ents, nb)
PutMatchesOutcome ==
    [][(last'.op = "put") =>
          \E o \in PutOutcomesC(ents, nb, count, cmax, cmin, last'.key, last'.t) :
              o.hasEv = last'.hasEv /\ o.ev = last'.ev /\ o.added = last'.added]_vars

WouldLaws ==
    \A k \in Keys : \A t \in ProbeTimes :
        LET w == WouldPutC(ents, nb, count, cmax, cmin, k)
            outs == PutOutcomesC(ents, nb, count, cmax, cmin, k, t)
            a == AcceptC(ents, nb, count, cmax, cmin)
        IN /\ RoomAgreesP(ents, nb, count, cmax, cmin, k, w, outs)
           /\ PresentAgreesP(ents, nb, count, cmax, cmin, k, w, outs)
           /\ NewBucketAgreesP(ents, nb, count, cmax, cmin, k, w, outs)
           /\ FullCodedP(ents, nb, count, cmax, cmin, k, w)
           /\ FartherEvictsP(ents, nb, count, cmax, cmin, k, outs)
           /\ OwnBucketP(ents, nb, count, cmax, cmin, k, outs)
           /\ AcceptSoundP(ents, nb, count, cmax, cmin, k, a, outs)
           /\ AcceptIsEvictBucketP(ents, nb, count, cmax, cmin, k, a, outs)
           /\ WouldAddP(ents, nb, k, w, WouldAddC(ents, nb, count, cmax, cmin, k))
\* the documented law (Put with the newest CreatedAt)
WouldPutYesStores ==
    \A k \in Keys : WouldPutSoundP(cmax, WouldPutC(ents, nb, count, cmax, cmin, k), PutOutcomesC(ents, nb, count, cmax, cmin, k, 9))
\* soundness holds for every CreatedAt
WouldPutYesStoresAnyTime ==
    \A k \in Keys : \A t \in ProbeTimes :
        WouldPutSoundP(cmax, WouldPutC(ents, nb, count, cmax, cmin, k), PutOutcomesC(ents, nb, count, cmax, cmin, k, t))
WouldPutComplete ==
    \A k \in Keys : WouldPutCompleteP(ents, nb, count, cmax, cmin, k, WouldPutC(ents, nb, count, cmax, cmin, k),
                                      PutOutcomesC(ents, nb, count, cmax, cmin, k, 9))
\* AcceptingPrefixLen and WouldPut agree: every absent key at least that deep gets a yes
AcceptImpliesWould ==
    \A k \in Keys : (cmax > 0 /\ k \notin DOMAIN ents /\ Bucket(k) >= AcceptC(ents, nb, count, cmax, cmin))
                        => WouldPutC(ents, nb, count, cmax, cmin, k)

\* the two recorded corners: each invariant is EXPECTED TO BE VIOLATED (KadWould_kf_undermin.cfg, _zero.cfg)
NoUnderMinGap ==
    \A k \in Keys : (cmax > 0 /\ ~WouldPutC(ents, nb, count, cmax, cmin, k)) =>
        \E o \in PutOutcomesC(ents, nb, count, cmax, cmin, k, 9) : ~o.stored
ZeroCapNo == \A k \in Keys : cmax = 0 => ~WouldPutC(ents, nb, count, cmax, cmin, k)

\* anti-vacuity self-tests: the same two laws over the comparison as it was before the repair; each is
\* EXPECTED TO BE VIOLATED (KadWould_old_no.cfg, KadWould_old_yes.cfg) -- a model property, never a finding
OldComplete ==
    \A k \in Keys : WouldPutCompleteP(ents, nb, count, cmax, cmin, k, WouldPutOld(ents, nb, count, cmax, cmin, k),
                                      PutOutcomesC(ents, nb, count, cmax, cmin, k, 9))
OldSound ==
    \A k \in Keys : WouldPutSoundP(cmax, WouldPutOld(ents, nb, count, cmax, cmin, k), PutOutcomesC(ents, nb, count, cmax, cmin, k, 9))
\* AcceptingPrefixLen is 0 only with two free slots, WouldPut already says yes with one: at
\* count = max-1 AcceptingPrefixLen may exclude keys that WouldPut (and Put) accept.  Conservative.
AcceptZeroIffRoom == (AcceptC(ents, nb, count, cmax, cmin) = 0) <=> (count + 1 < cmax \/ (OverMin(ents, nb, cmin) = {} /\ nb = 0))
=============================================================================
