SPECIFICATION Spec
CONSTANTS
  QLen = 2
  MaxOps = 3
PROPERTIES DeadlineWakesBlocked
CHECK_DEADLOCK FALSE
