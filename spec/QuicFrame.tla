------------------------------ MODULE QuicFrame ------------------------------
(***************************************************************************)
(* quicswarm writeFrame / readFrame (/repo/s/quicswarm/quicswarm.go:490):  *)
(* a frame on a QUIC stream is a 4-byte big-endian length followed by the  *)
(* concatenation of the IOVec's segments.                                  *)
(*                                                                         *)
(* A case: the segment lengths, readFrame's maxLen, len(dst), how much of  *)
(* the stream the reader yields before it fails (cut; -1 = all of it) and  *)
(* with what (io.EOF or another error), whether the reader hands out one   *)
(* byte per Read, and how many bytes follow the frame on the stream.  The  *)
(* module is the as-coded model (Read), the laws over observables, and the *)
(* case generator (one initial state per case); QuicFrameTrace evaluates   *)
(* the same laws on what the real functions did with in-memory readers.    *)
(***************************************************************************)
EXTENDS Integers, Sequences, FiniteSets, TLC, Json

CONSTANTS MaxSeg, MaxSegs, MaxTotal

VARIABLES segs, maxLen, dst, cut, fail, mode, extra

PW == 4                                                   \* bytes of the length prefix
RECURSIVE Sum(_)
Sum(s) == IF s = <<>> THEN 0 ELSE s[1] + Sum(Tail(s))
Prefix(n) == <<(n \div 16777216) % 256, (n \div 65536) % 256, (n \div 256) % 256, n % 256>>    \* binary.BigEndian uint32
Decode(p) == ((p[1] * 256 + p[2]) * 256 + p[3]) * 256 + p[4]
\* the harness fills the segments with this pattern (position k of the concatenation, from 0)
Data(n) == [k \in 1..n |-> 1 + (((k - 1) * 7 + 3) % 160)]
Wire(n) == Prefix(n) \o Data(n)                            \* writeFrame (quicswarm.go:490)
Trailer(n) == [k \in 1..n |-> 191 + k]
Stream(t, ex) == Wire(t) \o Trailer(ex)
Avail(t, ex, c) == IF c >= 0 /\ c < PW + t + ex THEN c ELSE PW + t + ex   \* bytes the reader yields
Min(a, b) == IF a < b THEN a ELSE b

\* readFrame as coded (quicswarm.go:498): binary.Read of the prefix (io.ReadFull: io.EOF when nothing was read,
\* io.ErrUnexpectedEOF after a partial read, the reader's own error otherwise), the two size checks, io.ReadFull of the body
Read(t, ex, mx, d, c, fl) ==
    LET av == Avail(t, ex, c)
        endErr(got) == IF fl = "err" THEN "injected" ELSE IF got = 0 THEN "eof" ELSE "ueof" IN
    IF av < PW THEN [n |-> 0, err |-> endErr(av), consumed |-> av]
    ELSE IF t > mx THEN [n |-> 0, err |-> "toobig", consumed |-> PW]
    ELSE IF d < t THEN [n |-> 0, err |-> "shortbuf", consumed |-> PW]
    ELSE IF av - PW >= t THEN [n |-> t, err |-> "none", consumed |-> PW + t]
    ELSE [n |-> av - PW, err |-> endErr(av - PW), consumed |-> av]

-----------------------------------------------------------------------------
(* Laws over observables: o = [n, err, consumed]; outok: dst[:n] is the first n bytes of the concatenation *)
Complete(t, ex, c) == Avail(t, ex, c) >= PW + t
\* readFrame(writeFrame(v)) = concat(v)
RoundTripP(t, ex, mx, d, c, o, outok) == (Complete(t, ex, c) /\ mx >= t /\ d >= t) => (o.err = "none" /\ o.n = t /\ outok)
\* a success is never truncated (nor padded)
NoTruncatedSuccessP(t, o, outok) == o.err = "none" => (o.n = t /\ outok)
TooBigIsErrorP(t, mx, o) == t > mx => o.err # "none"
ShortReadIsErrorP(t, ex, c, o) == ~Complete(t, ex, c) => o.err # "none"
ShortDstIsErrorP(t, d, o) == d < t => o.err # "none"
\* the frame leaves the rest of the stream for the next readFrame
ExactConsumptionP(t, o) == o.err = "none" => o.consumed = PW + t
NoOverrunP(d, o, tailok, guardok) == o.n >= 0 /\ o.n <= d /\ tailok /\ guardok
WireFormP(t, wire, wirelen) == wirelen = PW + t /\ wire = SubSeq(Wire(t), 1, Min(16, PW + t))
\* a writer that fails after wcut bytes: the failure is reported, what was written is a prefix of the frame
WriteErrorP(t, wcut, werr, wirelen, wireok) == wireok /\ (IF wcut < PW + t THEN werr # "none" ELSE werr = "none" /\ wirelen = PW + t)

-----------------------------------------------------------------------------
(* Case generator *)
Shapes == {s \in UNION {[1..k -> 0..MaxSeg] : k \in 0..MaxSegs} : Sum(s) <= MaxTotal}
Init == /\ segs \in Shapes
        /\ maxLen \in {m \in {Sum(segs) - 1, Sum(segs), Sum(segs) + 1, 0} : m >= 0}
        /\ dst \in {m \in {Sum(segs) - 1, Sum(segs), Sum(segs) + 2} : m >= 0}
        /\ extra \in {0, 2}
        /\ cut \in -1..(PW + Sum(segs) + extra - 1)
        /\ fail \in {"eof", "err"}
        /\ mode \in {"whole", "one"}
        /\ (cut = -1 => fail = "eof")
        /\ (extra # 0 => cut \in {-1, PW + Sum(segs)})
Next == UNCHANGED <<segs, maxLen, dst, cut, fail, mode, extra>>
Spec == Init /\ [][Next]_<<segs, maxLen, dst, cut, fail, mode, extra>>

\* the as-coded model obeys the laws
ModelLaws == LET t == Sum(segs)
                 o == Read(t, extra, maxLen, dst, cut, fail)
                 out == TRUE IN
             /\ RoundTripP(t, extra, maxLen, dst, cut, o, out)
             /\ NoTruncatedSuccessP(t, o, out)
             /\ TooBigIsErrorP(t, maxLen, o)
             /\ ShortReadIsErrorP(t, extra, cut, o)
             /\ ShortDstIsErrorP(t, dst, o)
             /\ ExactConsumptionP(t, o)
             /\ o.n >= 0 /\ o.n <= dst
             /\ Decode(Prefix(t)) = t
Dump == PrintT(ToJson(<<"CASE", [segs |-> segs, maxLen |-> maxLen, dst |-> dst, cut |-> cut, fail |-> fail, mode |-> mode, extra |-> extra]>>))

ASSUME PrefixBigEndian == \A n \in {0, 1, 255, 256, 65535, 65536, 16777215, 16777216, 2147483647} : Decode(Prefix(n)) = n
=============================================================================
