-------------------------------- MODULE Mux --------------------------------
(***************************************************************************)
(* Byte-exact framing and dispatch of the five multiplexer kinds of        *)
(* p/p2pmux (C15):                                                          *)
(*   "str"  stringmux.go   uvarint(len c) ++ c ++ payload                   *)
(*   "var"  varintmux.go   uvarint(c) ++ payload                            *)
(*   "u16" / "u32" / "u64"  uintNNmux.go   big-endian c ++ payload          *)
(* uvarint is written as in encoding/binary (PutUvarint / Uvarint with its  *)
(* 10-byte limit and overflow rule).  Bytes are integers 0..255.            *)
(*                                                                         *)
(* TLC integers are 32 bit, so a 64-bit channel id is the SET of its one    *)
(* bits (subset of 0..63); string channel ids are byte sequences.           *)
(*                                                                         *)
(* The module is a case generator (Init picks a case, Next is FALSE): every *)
(* initial state is one case and the invariants are the laws of C15.        *)
(***************************************************************************)
EXTENDS Integers, Sequences, FiniteSets, TLC

Kinds == {"str", "var", "u16", "u32", "u64"}
Width(k) == CASE k = "u16" -> 2 [] k = "u32" -> 4 [] k = "u64" -> 8

Pow2(n) == 2 ^ n
\* --- 64-bit values as bit sets
IntBits(n) == {k \in 0..30 : (n \div Pow2(k)) % 2 = 1}              \* 0 <= n < 2^31
Ones(w) == 0..(w - 1)                                                \* 2^w - 1
Bit(k) == {k}                                                        \* 2^k
MaxOf(S) == CHOOSE x \in S : \A y \in S : y <= x
IsSmall(bits) == \A k \in bits : k <= 30
ToInt(bits) == LET RECURSIVE Sum(_)
                   Sum(S) == IF S = {} THEN 0 ELSE LET k == CHOOSE x \in S : TRUE IN Pow2(k) + Sum(S \ {k})
               IN Sum(bits)                                          \* only for IsSmall(bits)
\* value of the 8 (7) bits starting at bit lo
Byte8(bits, lo) == LET RECURSIVE S(_)
                       S(k) == IF k > 7 THEN 0 ELSE (IF lo + k \in bits THEN Pow2(k) ELSE 0) + S(k + 1)
                   IN S(0)
Group7(bits, lo) == LET RECURSIVE S(_)
                        S(k) == IF k > 6 THEN 0 ELSE (IF lo + k \in bits THEN Pow2(k) ELSE 0) + S(k + 1)
                    IN S(0)
ByteBits(b, lo) == {lo + k : k \in {j \in 0..7 : (b \div Pow2(j)) % 2 = 1}}

\* --- encoding/binary
\* binary.BigEndian.PutUintNN
BE(bits, w) == [j \in 1..w |-> Byte8(bits, 8 * (w - j))]
BEDec(b, w) == UNION {ByteBits(b[j], 8 * (w - j)) : j \in 1..w}
\* binary.PutUvarint: 7 bits per byte, least significant group first, continuation bit 0x80
NGroups(bits) == IF bits = {} THEN 1 ELSE (MaxOf(bits) \div 7) + 1
Uvarint(bits) == [i \in 1..NGroups(bits) |-> Group7(bits, 7 * (i - 1)) + (IF i < NGroups(bits) THEN 128 ELSE 0)]
\* binary.Uvarint: returns (value, n); n = 0 buffer too small, n < 0 overflow
UvarintDec(buf) ==
    LET lim == IF Len(buf) < 10 THEN Len(buf) ELSE 10
        ends == {i \in 1..lim : buf[i] < 128}
    IN IF ends = {}
       THEN [n |-> IF Len(buf) > 10 THEN -11 ELSE 0, v |-> {}]
       ELSE LET i == CHOOSE x \in ends : \A y \in ends : x <= y
            IN IF i = 10 /\ buf[i] > 1
               THEN [n |-> -10, v |-> {}]
               ELSE [n |-> i,
                     v |-> {k \in UNION {ByteBits(buf[j] % 128, 7 * (j - 1)) : j \in 1..i} : k <= 63}]

Drop(sq, n) == [i \in 1..(Len(sq) - n) |-> sq[n + i]]                \* sq[n:]
Take(sq, n) == [i \in 1..n |-> sq[i]]                                \* sq[:n]
IsPrefix(a, b) == Len(a) <= Len(b) /\ \A i \in 1..Len(a) : a[i] = b[i]

---------------------------------------------------------------------------
(* Framing: the muxFunc of every kind *)
Header(kind, c) ==
    CASE kind = "str" -> Uvarint(IntBits(Len(c))) \o c                  \* stringmux.go:26
      [] kind = "var" -> Uvarint(c)                                      \* varintmux.go:26
      [] OTHER -> BE(c, Width(kind))                                     \* uintNNmux.go:26
Frame0(kind, c, x) == Header(kind, c) \o x

(* Unframing: the demuxFunc of every kind, as coded (stringDemuxFunc with the repaired length  *)
(* comparison: a length that does not fit is refused instead of being converted to int, F07)   *)
NotOk == [ok |-> FALSE, c |-> <<>>, x |-> <<>>]
Unframe(kind, b) ==
    CASE kind = "str" ->
           LET d == UvarintDec(b) IN
           IF d.n < 1 THEN NotOk
           ELSE LET rest == Drop(b, d.n) IN
                IF ~IsSmall(d.v) \/ Len(rest) < ToInt(d.v) THEN NotOk
                ELSE [ok |-> TRUE, c |-> Take(rest, ToInt(d.v)), x |-> Drop(rest, ToInt(d.v))]
      [] kind = "var" ->
           LET d == UvarintDec(b) IN
           IF d.n < 1 THEN NotOk ELSE [ok |-> TRUE, c |-> d.v, x |-> Drop(b, d.n)]
      [] OTHER ->
           LET w == Width(kind) IN
           IF Len(b) < w THEN NotOk ELSE [ok |-> TRUE, c |-> BEDec(b, w), x |-> Drop(b, w)]

(* Dispatch: mux.go handleRecv / serveLoop + getSwarm.  A frame that does not demultiplex is     *)
(* dropped on both paths (serveLoop used to discard the error and go on with channel zero, F19). *)
NoDispatch == <<>>
Dispatch(kind, open, b) ==
    LET u == Unframe(kind, b) IN
    IF u.ok /\ u.c \in open THEN <<[c |-> u.c, x |-> u.x]>> ELSE NoDispatch

---------------------------------------------------------------------------
(* The laws of C15 as operators over (kind, channel, payload, frame bytes, dispatches):          *)
(* usable on the model's Frame/Dispatch and on OBSERVED frames and dispatches alike.             *)
RoundTripP(c, x, disp) == \A i \in 1..Len(disp) : disp[i].c = c /\ disp[i].x = x
InjectiveP(c1, x1, f1, c2, x2, f2) == (f1 = f2) => (c1 = c2 /\ x1 = x2)
PrefixFreeP(c1, h1, c2, h2) == (c1 # c2) => (~IsPrefix(h1, h2) /\ ~IsPrefix(h2, h1))
\* a message told / asked on c reaches only the swarm opened for c, unchanged
IsolationP(open, c, x, disp) ==
    \A i \in 1..Len(disp) : disp[i].c = c /\ disp[i].c \in open /\ disp[i].x = x
\* arbitrary bytes: whatever is handed to channel d as payload y must be a framing of (d, y)
RawIsolationP(kind, open, b, disp) ==
    \A i \in 1..Len(disp) : disp[i].c \in open /\ b = Frame0(kind, disp[i].c, disp[i].x)

---------------------------------------------------------------------------
(* Channel identifiers, payload classes, raw frames *)
Fill(n, b) == [i \in 1..n |-> b]
Name19 == <<109, 121, 45, 108, 111, 110, 103, 45, 99, 104, 97, 110, 110, 101, 108, 45, 48, 48, 49>>  \* "my-long-channel-001"

\* (zero-arity definitions: TLC evaluates them once)
StrIds == {<<>>, <<97>>, <<98>>, <<97, 98>>, <<97, 98, 99>>, <<0>>, <<1, 97>>, <<2, 97, 98>>, <<128>>, <<255>>,
           Name19, Fill(127, 120), Fill(128, 120), Fill(16383, 120), Fill(16384, 120)}
VarIds == {{}, IntBits(1), IntBits(127), IntBits(128), IntBits(16383), IntBits(16384), Ones(16), Ones(21), Bit(21),
           Ones(32), Ones(35), Bit(35), Ones(56), Bit(56), Ones(63), Bit(63), Ones(64)}
U16Ids == {{}, IntBits(1), IntBits(127), IntBits(128), IntBits(255), IntBits(256), IntBits(257), Bit(15), Ones(16)}
U32Ids == {{}, IntBits(1), IntBits(255), IntBits(256), Ones(16), Bit(16), Bit(24), Bit(31), Ones(32)}
U64Ids == {{}, IntBits(1), Ones(16), Ones(32), Bit(32), Bit(56), Bit(63), Ones(64)}
Ids(kind) == CASE kind = "str" -> StrIds [] kind = "var" -> VarIds [] kind = "u16" -> U16Ids
               [] kind = "u32" -> U32Ids [] kind = "u64" -> U64Ids

\* small sets of mutually confusable ids (prefixes of each other, zero value, byte-swapped, extremes)
StrIso == {<<>>, <<97>>, <<97, 98>>, <<1, 97>>, <<98>>, <<0>>}
VarIso == {{}, IntBits(1), IntBits(127), IntBits(128), IntBits(16384), Ones(64)}
U16Iso == {{}, IntBits(1), IntBits(256), IntBits(257), Ones(16)}
U32Iso == {{}, IntBits(1), Bit(24), Ones(16), Ones(32)}
U64Iso == {{}, IntBits(1), Bit(56), Ones(32), Ones(64)}
IsoIds(kind) == CASE kind = "str" -> StrIso [] kind = "var" -> VarIso [] kind = "u16" -> U16Iso
                  [] kind = "u32" -> U32Iso [] kind = "u64" -> U64Iso
ZeroId(kind) == IF kind = "str" THEN <<>> ELSE {}

Payloads == {<<>>, <<0>>, <<1>>, <<127>>, <<128>>, <<255>>, <<0, 0>>, <<0, 1>>, <<1, 97>>, <<128, 1>>, <<97, 98>>,
             <<0, 0, 0, 0, 0, 0, 0, 0, 7>>, Fill(200, 7)}
IsoPayloads == {<<>>, <<1, 97>>}
\* bytes nobody framed: too short, a bare length, a length of 2^64-1, ...
RawFrames == {<<>>, <<0>>, <<1>>, <<128>>, <<255>>, <<0, 0, 0>>, <<2, 97>>,
              <<255, 255, 255, 255, 255, 255, 255, 255, 255, 1, 122, 122>>,
              <<255, 255, 255, 255, 255, 255, 255, 255, 255, 127, 122>>}
Ops == {"tell", "ask"}

SubsetsUpTo3(S) == {T \in SUBSET S : Cardinality(T) >= 1 /\ Cardinality(T) <= 3}

\* class "frame": every boundary id x payload class, the channel open at the receiver
\* class "iso"  : every set of <= 3 open confusable channels x every confusable sending channel
\* class "raw"  : unframed bytes injected into receivers with / without channel zero open
RawOpens(k) == LET other == CHOOSE c \in IsoIds(k) : c # ZeroId(k)
               IN {{ZeroId(k)}, {ZeroId(k), other}, {other}}
\* (written as nested quantifiers so that TLC enumerates the cases without normalising one big set)
IsCase(k, r) ==
    \/ \E c \in Ids(k), x \in Payloads, op \in Ops :
          r = [cls |-> "frame", kind |-> k, open |-> {c}, c |-> c, x |-> x, op |-> op]
    \/ \E o \in SubsetsUpTo3(IsoIds(k)), c \in IsoIds(k), x \in IsoPayloads, op \in Ops :
          r = [cls |-> "iso", kind |-> k, open |-> o, c |-> c, x |-> x, op |-> op]
    \/ \E o \in RawOpens(k), x \in RawFrames, op \in Ops :
          r = [cls |-> "raw", kind |-> k, open |-> o, c |-> ZeroId(k), x |-> x, op |-> op]

\* headers of the listed ids, computed once (TLC caches zero-arity constant definitions)
HeaderTab == [k \in Kinds |-> [c \in Ids(k) \cup IsoIds(k) |-> Header(k, c)]]
HeaderOf(kind, c) == IF c \in DOMAIN HeaderTab[kind] THEN HeaderTab[kind][c] ELSE Header(kind, c)
Frame(kind, c, x) == HeaderOf(kind, c) \o x

---------------------------------------------------------------------------
CONSTANTS MKinds, Mode       \* Mode: "cases" (one case per state) or "pairs" (two framings per state)
VARIABLES cs, cs2

PairPayloads == IsoPayloads \cup {<<0>>}
Init ==
    IF Mode = "pairs"
    THEN \* all pairs of framings (c, x), (c2, x2) of one kind (the operation is irrelevant to framing)
         \E k \in MKinds : \E c \in Ids(k) \cup IsoIds(k), x \in PairPayloads, c2 \in Ids(k) \cup IsoIds(k), x2 \in PairPayloads :
            /\ cs = [cls |-> "frame", kind |-> k, open |-> {c}, c |-> c, x |-> x, op |-> "tell"]
            /\ cs2 = [c |-> c2, x |-> x2]
    ELSE /\ \E k \in MKinds : IsCase(k, cs)
         /\ cs2 = [c |-> cs.c, x |-> cs.x]
Next == FALSE /\ UNCHANGED <<cs, cs2>>
Spec == Init /\ [][Next]_<<cs, cs2>>

\* laws on the model's own Frame / Unframe / Dispatch
RoundTrip == cs.cls # "raw" =>
                LET u == Unframe(cs.kind, Frame(cs.kind, cs.c, cs.x)) IN u.ok /\ u.c = cs.c /\ u.x = cs.x
Isolation ==
    IF cs.cls = "raw"
    THEN RawIsolationP(cs.kind, cs.open, cs.x, Dispatch(cs.kind, cs.open, cs.x))
    ELSE LET disp == Dispatch(cs.kind, cs.open, Frame(cs.kind, cs.c, cs.x)) IN
         /\ IsolationP(cs.open, cs.c, cs.x, disp)
         /\ (cs.c \in cs.open) = (disp # NoDispatch)
Injective == cs.cls # "raw" =>
    InjectiveP(cs.c, cs.x, Frame(cs.kind, cs.c, cs.x), cs2.c, cs2.x, Frame(cs.kind, cs2.c, cs2.x))
PrefixFree == cs.cls # "raw" =>
    PrefixFreeP(cs.c, HeaderOf(cs.kind, cs.c), cs2.c, HeaderOf(cs.kind, cs2.c))
\* the decoder accepts exactly what the encoder produces for these ids (PutUvarint/Uvarint agree)
VarintAgree == cs.kind = "var" /\ cs.cls # "raw" =>
    LET d == UvarintDec(Uvarint(cs.c)) IN d.n = Len(Uvarint(cs.c)) /\ d.v = cs.c
=============================================================================
