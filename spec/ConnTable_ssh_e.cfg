SPECIFICATION Spec
CONSTANTS
  Nodes = {1, 2}
  Ids = {1, 2}
  Transport = "ssh"
  MaxConn = 3
  MaxOps = 1
  MaxEnv = 2
  Fixes <- MCFixes
INVARIANTS TypeOK TableIdentity StepLaws DeadRemoved AfterClose HealthyDelivered NoOrphan
CHECK_DEADLOCK FALSE
