----------------------------- MODULE MbappBitmap -----------------------------
(* /repo/p/mbapp/bitmap.go AS CODED: a byte array (bytes are 0..255, index from 0) and the masks,     *)
(* against the abstract meaning "the set of indices that are set".                                     *)
EXTENDS Integers, FiniteSets, TLC, Json
CONSTANTS MaxN, MaxOps
VARIABLES n, buf, abs, nops, panicked

RECURSIVE Pow2(_)
Pow2(k) == IF k = 0 THEN 1 ELSE 2 * Pow2(k - 1)
Mask(i) == Pow2(i % 8)                                                      \* bitmap.go:51 (i >= 0)
BitOn(b, i) == (b \div Mask(i)) % 2 = 1                                     \* b & mask(i) > 0
Or(b, i) == IF BitOn(b, i) THEN b ELSE b + Mask(i)                          \* b |= mask(i)       bitmap.go:24
AndNot(b, i) == IF BitOn(b, i) THEN b - Mask(i) ELSE b                      \* b &= maskInverse(i) bitmap.go:26
BufLen(k) == (k \div 8) + (IF k % 8 > 0 THEN 1 ELSE 0)                      \* bitmap.go:9-12
NewBuf(k) == [j \in 0..(BufLen(k) - 1) |-> 0]                               \* bitmap.go:14
OutOfRange(k, i) == i >= k                                                  \* bitmap.go:20,31 (negative i: see trace spec)
SetB(b, i, v) == [b EXCEPT ![i \div 8] = IF v THEN Or(@, i) ELSE AndNot(@, i)]
GetB(b, i) == BitOn(b[i \div 8], i)                                         \* bitmap.go:34
AllSetB(b, k) == \A i \in 0..(k - 1) : GetB(b, i)                           \* bitmap.go:41-49
\* the buffer that represents the set S (canonical: the padding bits of the last byte are 0)
RECURSIVE BufOfR(_, _, _)
BufOfR(b, S, k) == IF S = {} THEN b ELSE LET i == CHOOSE x \in S : TRUE IN BufOfR(SetB(b, i, TRUE), S \ {i}, k)
BufOf(k, S) == BufOfR(NewBuf(k), S, k)

Init == n \in 0..MaxN /\ buf = NewBuf(n) /\ abs = {} /\ nops = 0 /\ panicked = FALSE
SetOp(i, v) == /\ (MaxOps = 0 \/ nops < MaxOps) /\ nops' = (IF MaxOps = 0 THEN 0 ELSE nops + 1) /\ n' = n   \* MaxOps = 0: unbounded
               /\ IF OutOfRange(n, i) THEN panicked' = TRUE /\ UNCHANGED <<buf, abs>>
                  ELSE /\ panicked' = FALSE /\ buf' = SetB(buf, i, v)
                       /\ abs' = IF v THEN abs \cup {i} ELSE abs \ {i}
Next == \E i \in 0..n, v \in BOOLEAN : SetOp(i, v)
Spec == Init /\ [][Next]_<<n, buf, abs, nops, panicked>>

\* laws (also evaluated on the real observations by MbappBitmapTrace)
GetMeansMember == \A i \in 0..(n - 1) : GetB(buf, i) = (i \in abs)          \* get after set + frame condition
AllSetIff == AllSetB(buf, n) = (abs = 0..(n - 1))                           \* incl. n = 0 and n % 8 # 0
Canonical == buf = BufOf(n, abs) /\ DOMAIN buf = 0..(BufLen(n) - 1) /\ \A j \in DOMAIN buf : buf[j] \in 0..255
PaddingZero == \A i \in n..(8 * BufLen(n) - 1) : ~GetB(buf, i)
PanicOnlyOutOfRange == [][panicked' => UNCHANGED <<buf, abs>>]_<<n, buf, abs, nops, panicked>>
Laws == GetMeansMember /\ AllSetIff /\ Canonical /\ PaddingZero
Dump == PrintT(ToJson(<<"CASE", n, abs>>))
=============================================================================
