--------------------------- MODULE ChannelCrafted ---------------------------
(***************************************************************************)
(* A hand-crafted party (real cryptography, only its own key M) at the far *)
(* end of ONE real p2pke.Channel that accepts only key B.  It answers the  *)
(* channel's InitHello with a valid RespHello under its own key and then   *)
(* sends any sequence of records a protocol-conforming implementation      *)
(* would never emit in that order: RespDone or not, data records with      *)
(* ordinary counters, with counters at the top of the 32-bit range (which  *)
(* the replay filter refuses), with handshake-range counters, duplicates.  *)
(* Two situations: the channel is fresh (unbound), or it is bound to B by  *)
(* an honest handshake and M answers its next (re)handshake.               *)
(*                                                                         *)
(* The model of a correct channel is trivial on purpose - key M is never   *)
(* accepted, so NO sequence makes the channel hand up data, report M, or   *)
(* send application data under M's session - and that is the law the       *)
(* trace specification evaluates on the real channel for every sequence    *)
(* this module enumerates (case generator + oracle, like ChannelTime).     *)
(***************************************************************************)
EXTENDS Naturals, Sequences, TLC, Json

CONSTANTS Alphabet,     \* records the crafted party may send after its RespHello
          MaxLen,       \* length of the sequence
          Situations    \* subset of {"fresh", "bound"}

VARIABLES sit, seq, handed, rkM, done
vars == <<sit, seq, handed, rkM, done>>

Init == /\ sit \in Situations /\ seq = <<>> /\ handed = 0 /\ rkM = FALSE /\ done = FALSE

\* whatever M sends, a channel that does not accept M hands nothing up and never reports M
Step(x) == /\ ~done /\ Len(seq) < MaxLen
           /\ seq' = Append(seq, x)
           /\ UNCHANGED <<sit, handed, rkM, done>>
Finish == /\ ~done /\ seq # <<>>
          /\ done' = TRUE
          /\ PrintT(ToJson(<<"CASE", [sit |-> sit, seq |-> seq]>>))
          /\ UNCHANGED <<sit, seq, handed, rkM>>
Next == (\E x \in Alphabet : Step(x)) \/ Finish
Spec == Init /\ [][Next]_vars

OnlyAcceptedDataC == handed = 0
OnlyAcceptedReadyC == ~rkM
=============================================================================
