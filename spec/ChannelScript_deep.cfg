SPECIFICATION ScriptSpec
CONSTANTS
  MaxS = 10
  MaxRestart = 2
  MaxRekey = 2
  MaxSendCalls = 3
  AcceptA = {"A", "B", "M"}
  AcceptB = {"A", "B", "M"}
  RestartKeys = {"A", "M"}
  Eager = TRUE
  PrefixLen = 3
  SecondRound = TRUE
CHECK_DEADLOCK FALSE
