------------------------------- MODULE DHTGen -------------------------------
(***************************************************************************)
(* Case generation for harness/cmd/dhtreplay.  A case is a STATELESS        *)
(* adversarial topology: a function node id -> responder record (peer list, *)
(* fail / accept flags, value class, whether FindNode's Validate rejects    *)
(* the node's info), the initial peer list (duplicates allowed), the        *)
(* operation and MinAccepted.  What a node answers depends on its id only,  *)
(* so the order in which the real code contacts nodes does not matter.      *)
(*                                                                          *)
(*  - GenSpec (tlc -simulate): every step draws one random case and prints  *)
(*    it from the action; also draws descriptors of honest-network cases    *)
(*    (second family: real kademlia.DHTNode handlers as responders).        *)
(*  - SmallSpec (exhaustive case generator): every initial state is one     *)
(*    case over the universe 0..N-1 with "effective" peer lists (any set of *)
(*    strictly closer nodes, or all of them plus the node itself); Next is  *)
(*    FALSE; the case is printed by the invariant Dump.                     *)
(***************************************************************************)
EXTENDS MC_DHT, Json

CONSTANTS MaxReply,     \* longest peer list drawn in simulation
          MaxInitLen,   \* longest initial list
          HonestSizes,  \* network sizes of the honest family
          HonestEvery   \* one case in HonestEvery is of the honest family

VARIABLES cnt, case
genvars == <<st, cnt, case>>

\* weighted draws: RandomElement over index sets of tuples
Pick(t) == t[RandomElement(1..Len(t))]
FailDist == <<FALSE, FALSE, FALSE, TRUE>>
AcceptDist == <<TRUE, TRUE, FALSE>>
ValDist == <<0, 0, 0, 0, 1, 1, 2, 3, 3, 4, 4>>
BadDist == <<FALSE, FALSE, FALSE, FALSE, FALSE, TRUE>>

RandResponder(m) ==
    [id |-> m,
     reply |-> [i \in 1..RandomElement(0..MaxReply) |-> RandomElement(Nodes)],
     fail |-> Pick(FailDist), accept |-> Pick(AcceptDist), val |-> Pick(ValDist), bad |-> Pick(BadDist)]

\* a case of the adversarial family; topo is a sequence, entry m + 1 describes node m
\* (the parameter keeps TLC from caching the definitions as constants)
\* klen: length of the key in bytes (get / put; find-node and join look for a full 32-byte id); with a
\* short key the distances of the nodes are drawn from 0..2, so that distinct nodes tie
RandAdvCase(op, kl) ==
    [fam |-> "adv", op |-> op, n |-> N, min |-> RandomElement(Mins), vmode |-> RandomElement(0..3),
     klen |-> kl, dist |-> IF kl = 32 THEN IdDist(N) ELSE [i \in 1..N |-> RandomElement(0..2)],
     init |-> [i \in 1..RandomElement(0..MaxInitLen) |-> RandomElement(Nodes)],
     topo |-> [k \in 1..N |-> RandResponder(k - 1)]]

\* a case of the honest family: the replayer builds the network from these numbers
RandHonestCase(op, kl) ==
    [fam |-> "honest", op |-> op, min |-> RandomElement(Mins), vmode |-> RandomElement(0..3), klen |-> kl,
     size |-> RandomElement(HonestSizes), peers |-> RandomElement({2, 3, 5, 8, 10, 20, 256}),
     data |-> RandomElement({1, 2, 4}), dead |-> RandomElement(0..3), advn |-> RandomElement({0, 0, 1, 3}),
     ninit |-> RandomElement(0..3), dup |-> Pick(<<FALSE, FALSE, TRUE>>),
     holders |-> RandomElement(0..3), poison |-> RandomElement(0..1), prefill |-> RandomElement(0..6),
     exists |-> Pick(<<TRUE, TRUE, FALSE>>), seed |-> RandomElement(1..1000000)]

GenInit == st = Start("findnode", <<>>, 0, 0, <<>>) /\ cnt = 0 /\ case = <<>>
GenNext == /\ \E op \in {RandomElement(Ops)}, k0 \in {RandomElement({1, 2, 31, 32, 32})} :
              \E kl \in {IF op \in {"get", "put"} THEN k0 ELSE 32} :
              \E c \in {IF RandomElement(1..HonestEvery) = 1 THEN RandHonestCase(op, kl) ELSE RandAdvCase(op, kl)} :
                /\ PrintT(ToJson(<<"CASE", c>>))
                /\ case' = c
           /\ cnt' = cnt + 1
           /\ UNCHANGED st
GenSpec == GenInit /\ [][GenNext]_genvars

-----------------------------------------------------------------------------
\* exhaustive small family
EffReplies(m) == {SetToSeq(S) : S \in SUBSET (0..(m - 1))} \cup {SetToSeq(0..m)}
SmallResponders(op, m, vals, replies) ==
    {[id |-> m, reply |-> <<>>, fail |-> TRUE, accept |-> FALSE, val |-> 0, bad |-> FALSE]} \cup
    {[id |-> m, reply |-> r, fail |-> FALSE, accept |-> a, val |-> v, bad |-> FALSE] :
        r \in replies, a \in (IF op = "put" THEN BOOLEAN ELSE {FALSE}),
        v \in (IF op = "get" THEN vals ELSE {0})}
RECURSIVE Topos(_, _)
Topos(op, k) == IF k = 0 THEN {<<>>}
                ELSE {Append(t, r) : t \in Topos(op, k - 1), r \in SmallResponders(op, k - 1, ValClasses, EffReplies(k - 1))}
\* tie part (get / put with a short key): nodes 0 and 1 tie, node 2 is farther and may name a closer
\* node twice around the other one
TieReplies(m) == IF m < 2 THEN {<<>>, <<m>>} ELSE {<<>>, <<0>>, <<0, 1>>, <<0, 1, 0>>, <<1, 0, 1>>, <<1, 1, 0>>}
RECURSIVE TieTopos(_, _)
TieTopos(op, k) == IF k = 0 THEN {<<>>}
                   ELSE {Append(t, r) : t \in TieTopos(op, k - 1), r \in SmallResponders(op, k - 1, {0, 1}, TieReplies(k - 1))}
SmallInit == /\ cnt = 0
             /\ \/ \E op \in Ops : \E init \in (IF op = "get" THEN SmallGetInitials ELSE Initials) :
                  \E min \in (IF op = "put" THEN Mins ELSE {0}), vm \in (IF op = "get" THEN VModes ELSE {0}) :
                     /\ st = Start(op, init, min, vm, IdDist(N))
                     /\ case \in {[fam |-> "adv", op |-> op, n |-> N, min |-> min, vmode |-> vm, klen |-> 32,
                                    dist |-> IdDist(N), init |-> init, topo |-> t] : t \in Topos(op, N)}
                \/ \E op \in Ops \cap {"get", "put"}, init \in SmallTieInitials, kl \in {1} :
                     /\ st = Start(op, init, 0, 1, SmallTieDist)
                     /\ case \in {[fam |-> "adv", op |-> op, n |-> N, min |-> 0, vmode |-> 1, klen |-> kl,
                                    dist |-> SmallTieDist, init |-> init, topo |-> t] : t \in TieTopos(op, N)}
SmallNext == FALSE /\ UNCHANGED genvars
SmallSpec == SmallInit /\ [][SmallNext]_genvars
Dump == PrintT(ToJson(<<"CASE", case>>))
=============================================================================
