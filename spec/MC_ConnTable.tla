---------------------------- MODULE MC_ConnTable ----------------------------
(* Model-checking instance of ConnTable: free environment (any operation, any fault, any time,     *)
(* within the bounds of the config).                                                              *)
EXTENDS ConnTable
MCFixes == AllFixes
MCNoRemoveOwn == AllFixes \ {"removeOwn"}
MCNoCloseMismatch == AllFixes \ {"closeMismatch"}
MCNoSshRemoveDead == AllFixes \ {"sshRemoveDead"}
MCNoSshCloseLoser == AllFixes \ {"sshCloseLoser"}
MCNoSshCloseAll == AllFixes \ {"sshCloseAll"}
=============================================================================
