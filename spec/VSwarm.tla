------------------------------- MODULE VSwarm -------------------------------
(***************************************************************************)
(* G06: the REALM-level contract of s/vswarm (+ s/memswarm), the in-memory  *)
(* network almost every other stack of /repo is tested on.                  *)
(*                                                                         *)
(* The hubs and the queue (s/swarmutil) are specified in Hubs.tla (C12/C13);*)
(* here a node is what its owner can see of it: one bounded FIFO queue of   *)
(* tells, at most one blocked Receive, one blocked ServeAsk, blocked Asks.  *)
(* Every public method is ONE atomic function of the realm state             *)
(*     Apply(st, op)  ==  the set of [st, res, done] it may produce          *)
(* (res: what a call that cannot block returned; done: the blocking calls   *)
(* -- Receive / ServeAsk / Ask, always run in goroutines of their own --    *)
(* that completed because of it).  A GROUP of operations released together  *)
(* from racing goroutines may do whatever some order of its operations does *)
(* (GroupOutcomes): every method has a single commit point                  *)
(*   tell   vswarm.go:91   realm.tell: MTU, lookup, transform, Queue.Deliver*)
(*   recv   queue.go:78    Queue.Receive's select                           *)
(*   ask    vswarm.go:124  realm.ask -> AskHub.Deliver's select             *)
(*   serve  hubs.go:126    AskHub.ServeAsk                                  *)
(*   close  vswarm.go:61   realm.Drop: Queue.Close (drains), AskHub.Close   *)
(*   new    memswarm.go:24 counter;  create  vswarm.go:41 (address in use)  *)
(*                                                                         *)
(* AS CODED (named deviations from what one might expect):                  *)
(*   KF_ClosedSends   a closed swarm can still Tell and Ask (tell/ask never  *)
(*                    look at the sender's state)                           *)
(*   KF_NeverRemoved  Drop never deletes the swarm from the realm's map: Len *)
(*                    never decreases, a closed node's key is still found,   *)
(*                    its address can never be created again, a second       *)
(*                    Close is a silent no-op (the "already closed" panic is *)
(*                    dead code)                                             *)
(*   a queue slot is taken from Tell until the Receive CALLBACK has returned *)
(*   (the buffer goes back to Queue.freelist only then): QLen bounds queued   *)
(*   plus being-handled messages, so a tell that races with a delivery at its *)
(*   destination can be dropped although the queue is empty (busy)           *)
(*   the sender learns NOTHING about loss at the destination: unknown or     *)
(*   closed destination, full queue, transform drop, transform growth past   *)
(*   the MTU all return nil; only its own payload being larger than the MTU  *)
(*   is an error.  The transform is consulted only when the destination      *)
(*   exists, and routing uses the destination as told (a transform that      *)
(*   rewrites Dst does not re-route).                                        *)
(*                                                                         *)
(* The LAWS are operators over a history of OBSERVATIONS (what was called,  *)
(* what it returned, what the callbacks saw), so that TLC can evaluate them *)
(* on the model (MC_VSwarm) and on the real realm (VSwarmTrace).            *)
(* Wrappers.tla instantiates Admit/OutAllowed/ToIn for wlswarm and mapswarm.*)
(***************************************************************************)
EXTENDS Integers, Sequences, FiniteSets, TLC

CONSTANTS
    Addrs,       \* addresses that can come to exist: 0..MaxAddr-1
    Unknown,     \* an address that never exists
    QLen,        \* vswarm.WithQueueLen
    Kind,        \* "mem" (memswarm: NewSwarm allocates) | "vs" (vswarm: Create(addr), Len)
    TfKind,      \* "none" | "script" (per-tell decision) | "tuple" | "pair" (p2ptest.NewDropFirst*)
    Wrap,        \* "none" | "wl" | "map"
    Allow        \* wl: [Addrs -> SUBSET (Addrs \cup {Unknown})]

AllAddrs == Addrs \cup {Unknown}
Fits(sz) == sz # "x"                     \* "z" empty, "s" short, "m" exactly MTU, "x" MTU+1
KeyOf(a) == a                            \* the public key given to node a at creation (rendered "k<a>")

\* whitelists (values of the constant Allow)
AllowAll == [a \in Addrs |-> AllAddrs]
\* node 0 talks to everybody but 2 and the unknown address; node 1 to 0 only; node 2 to everybody
AllowMixed == [a \in Addrs |-> IF a = 0 THEN AllAddrs \ {2, Unknown} ELSE IF a = 1 THEN {0} ELSE AllAddrs]

\* wlswarm: what a node's wrapper lets in / out (TRUE for a bare realm)
Admit(at, src) == Wrap # "wl" \/ src \in Allow[at]
OutAllowed(from, dst) == Wrap # "wl" \/ dst \in Allow[from]

-----------------------------------------------------------------------------
(* Operations and completions: records of one shape each                    *)
NoOp == [op |-> "-", a |-> -1, b |-> -1, sz |-> "-", tf |-> "-", h |-> "-", ctx |-> "-", id |-> 0, t |-> 0]
OpNew(id) == [NoOp EXCEPT !.op = "new", !.id = id]
OpCreate(id, b) == [NoOp EXCEPT !.op = "create", !.b = b, !.id = id]
OpTell(id, a, b, sz, tf) == [NoOp EXCEPT !.op = "tell", !.a = a, !.b = b, !.sz = sz, !.tf = tf, !.id = id]
OpRecv(id, a, c) == [NoOp EXCEPT !.op = "recv", !.a = a, !.ctx = c, !.id = id]
OpServe(id, a, h) == [NoOp EXCEPT !.op = "serve", !.a = a, !.h = h, !.id = id]
OpAsk(id, a, b, sz) == [NoOp EXCEPT !.op = "ask", !.a = a, !.b = b, !.sz = sz, !.id = id]
OpClose(id, a) == [NoOp EXCEPT !.op = "close", !.a = a, !.id = id]
OpCancel(id, t) == [NoOp EXCEPT !.op = "cancel", !.t = t, !.id = id]
Blocking(o) == o.op \in {"recv", "serve", "ask"}

\* a completion of a blocking call: res "msg" / "req" carry what the callback saw
Comp(id, kind, res, pid, src, dst, sz) == [id |-> id, kind |-> kind, res |-> res, pid |-> pid, src |-> src, dst |-> dst, sz |-> sz]
Plain(id, kind, res) == Comp(id, kind, res, 0, -1, -1, "-")

\* pr[a]: the ids of the Receives blocked at a; ps[a]: the blocked ServeAsks [id, h]; pa: the blocked Asks
InitSt(n0) == [own |-> 0..(n0 - 1), open |-> 0..(n0 - 1), q |-> [a \in Addrs |-> <<>>], pr |-> [a \in Addrs |-> {}],
               ps |-> [a \in Addrs |-> {}], pa |-> {}, seen |-> {}, busy |-> [a \in Addrs |-> 0]]
\* busy[a]: messages handed to receivers of a WITHIN the running group.  A queue slot (a buffer of Queue.freelist,
\* queue.go:84) returns only after the Receive callback has finished: the capacity QLen covers the queued messages
\* AND those still being handled, so a tell that races with a delivery at its destination may find no slot although
\* the queue is empty.  Between groups (the harness waits for the completions) busy is 0.
Out(st, res, done) == [st |-> st, res |-> res, done |-> done]

-----------------------------------------------------------------------------
(* The transform                                                            *)
Flow(src, dst) == IF TfKind = "pair" THEN {src, dst} ELSE <<src, dst>>
Decision(st, o) ==
    CASE TfKind = "none" -> "none"                       \* DeliverVec path
      [] TfKind = "script" -> o.tf
      [] OTHER -> IF Flow(o.a, o.b) \in st.seen THEN "pass" ELSE "drop"
Passes(d) == d \notin {"drop", "grow"}

-----------------------------------------------------------------------------
(* Hand-over of queued tells to a blocked Receive, of blocked Asks to a       *)
(* blocked ServeAsk.  A wlswarm receiver discards what it does not admit and *)
(* keeps waiting; a wlswarm server answers -1 itself and keeps serving.     *)
RECURSIVE SettleRecv(_, _, _)
SettleRecv(st, b, done) ==   \* a SET of [st, done]: which of several blocked receivers is handed a message is not determined
    IF b \notin st.open \/ st.pr[b] = {} \/ st.q[b] = <<>> THEN {[st |-> st, done |-> done]}
    ELSE LET m == Head(st.q[b])
             st1 == [st EXCEPT !.q[b] = Tail(@)]
         IN IF Admit(b, m.src)
            THEN UNION {SettleRecv([st1 EXCEPT !.pr[b] = @ \ {r}, !.busy[b] = @ + 1], b, done \cup {Comp(r, "recv", "msg", m.id, m.src, m.dst, m.sz)}) : r \in st.pr[b]}
            ELSE SettleRecv([st1 EXCEPT !.busy[b] = @ + 1], b, done)       \* (consumed by the wrapper's callback, then dropped)

RECURSIVE SettleAsk(_, _, _)
SettleAsk(st, b, done) ==   \* a SET of [st, done]: neither which blocked ask is served nor by which blocked server
    LET cand == {k \in st.pa : k.to = b} IN
    IF b \notin st.open \/ st.ps[b] = {} \/ cand = {} THEN {[st |-> st, done |-> done]}
    ELSE UNION {
        LET st1 == [st EXCEPT !.pa = @ \ {k}] IN
        IF Admit(b, k.from)
        THEN UNION {SettleAsk([st1 EXCEPT !.ps[b] = @ \ {sv}], b,
                              done \cup {Comp(sv.id, "serve", "req", k.id, k.from, k.to, k.sz),
                                         IF sv.h = "neg" THEN Plain(k.id, "ask", "neg") ELSE Comp(k.id, "ask", "ok", sv.id, -1, -1, "-")})
                    : sv \in st.ps[b]}
        ELSE SettleAsk(st1, b, done \cup {Plain(k.id, "ask", "neg")})
      : k \in cand}

-----------------------------------------------------------------------------
(* One public method                                                        *)
Tell(st, o) ==
    IF ~OutAllowed(o.a, o.b) THEN {Out(st, "err", {})}                        \* whitelist.go:38
    ELSE IF ~Fits(o.sz) THEN {Out(st, "mtu", {})}                             \* vswarm.go:92
    ELSE IF o.b \notin st.own THEN {Out(st, "nil", {})}                       \* vswarm.go:99 (transform not consulted)
    ELSE LET d == Decision(st, o)
             st1 == IF TfKind \in {"tuple", "pair"} THEN [st EXCEPT !.seen = @ \cup {Flow(o.a, o.b)}] ELSE st
             m == [id |-> o.id, src |-> IF d = "altsrc" THEN Unknown ELSE o.a,
                   dst |-> IF d = "altdst" THEN Unknown ELSE o.b, sz |-> o.sz]
             accept == Passes(d) /\ o.b \in st.open /\ Len(st.q[o.b]) < QLen
             tight == Len(st.q[o.b]) + st.busy[o.b] >= QLen
         IN (IF accept THEN {Out(s.st, "nil", s.done) : s \in SettleRecv([st1 EXCEPT !.q[o.b] = Append(@, m)], o.b, {})} ELSE {})
            \cup (IF ~accept \/ tight THEN {Out(st1, "nil", {})} ELSE {})

Recv(st, o) ==
    LET a == o.a
        ready == (IF o.ctx = "cancelled" THEN {"ctx"} ELSE {}) \cup (IF a \notin st.open THEN {"closed"} ELSE {})
                 \cup (IF a \in st.open /\ st.q[a] # <<>> THEN {"msg"} ELSE {})
        wait == [st EXCEPT !.pr[a] = @ \cup {o.id}]
    IN IF ready = {} THEN {Out(wait, "-", {})}
       ELSE UNION {IF r = "msg" THEN {Out(s.st, "-", s.done) : s \in SettleRecv(wait, a, {})}
                   ELSE {Out(st, "-", {Plain(o.id, "recv", r)})}
                   : r \in ready}

Serve(st, o) ==
    IF o.a \notin st.open THEN {Out(st, "-", {Plain(o.id, "serve", "closed")})}        \* hubs.go:127 checkClosed
    ELSE {Out(s.st, "-", s.done) : s \in SettleAsk([st EXCEPT !.ps[o.a] = @ \cup {[id |-> o.id, h |-> o.h]}], o.a, {})}

Ask(st, o) ==
    IF ~OutAllowed(o.a, o.b) THEN {Out(st, "-", {Plain(o.id, "ask", "err")})}               \* whitelist.go:70
    ELSE IF ~Fits(o.sz) THEN {Out(st, "-", {Plain(o.id, "ask", "mtu")})}                    \* vswarm.go:125
    ELSE IF o.b \notin st.own THEN {Out(st, "-", {Plain(o.id, "ask", "err")})}              \* vswarm.go:135 "destination unreachable"
    ELSE IF o.b \notin st.open THEN {Out(st, "-", {Plain(o.id, "ask", "closed")})}          \* AskHub.Deliver: closed
    ELSE {Out(s.st, "-", s.done) : s \in SettleAsk([st EXCEPT !.pa = @ \cup {[id |-> o.id, from |-> o.a, to |-> o.b, sz |-> o.sz]}], o.b, {})}

Close(st, o) ==
    LET a == o.a IN
    IF a \notin st.open THEN {Out(st, "nil", {})}                                           \* KF_NeverRemoved: a second Close is a no-op
    ELSE LET gone == {k \in st.pa : k.to = a}
             done == {Plain(r, "recv", "closed") : r \in st.pr[a]} \cup {Plain(sv.id, "serve", "closed") : sv \in st.ps[a]}
                     \cup {Plain(k.id, "ask", "closed") : k \in gone}
         IN {Out([st EXCEPT !.open = @ \ {a}, !.q[a] = <<>>, !.pr[a] = {}, !.ps[a] = {}, !.pa = @ \ gone], "nil", done)}

Cancel(st, o) ==
    LET ra == {a \in Addrs : o.t \in st.pr[a]}
        sa == {a \in Addrs : \E sv \in st.ps[a] : sv.id = o.t}
        ka == {k \in st.pa : k.id = o.t}
    IN IF ra # {} THEN LET a == CHOOSE a \in ra : TRUE IN {Out([st EXCEPT !.pr[a] = @ \ {o.t}], "nil", {Plain(o.t, "recv", "ctx")})}
       ELSE IF sa # {} THEN LET a == CHOOSE a \in sa : TRUE IN {Out([st EXCEPT !.ps[a] = {sv \in @ : sv.id # o.t}], "nil", {Plain(o.t, "serve", "ctx")})}
       ELSE IF ka # {} THEN {Out([st EXCEPT !.pa = @ \ ka], "nil", {Plain(o.t, "ask", "ctx")})}
       ELSE {Out(st, "nil", {})}

AddrRes(a) == "a" \o ToString(a)
New(st, o) ==
    LET a == Cardinality(st.own) IN
    IF a \notin Addrs THEN {} ELSE {Out([st EXCEPT !.own = @ \cup {a}, !.open = @ \cup {a}], AddrRes(a), {})}
Create(st, o) ==
    IF o.b \in st.own THEN {Out(st, "inuse", {})}                                           \* vswarm.go:45 (also after Drop: KF_NeverRemoved)
    ELSE {Out([st EXCEPT !.own = @ \cup {o.b}, !.open = @ \cup {o.b}], AddrRes(o.b), {})}

Apply(st, o) ==
    CASE o.op = "tell" -> Tell(st, o)
      [] o.op = "recv" -> Recv(st, o)
      [] o.op = "serve" -> Serve(st, o)
      [] o.op = "ask" -> Ask(st, o)
      [] o.op = "close" -> Close(st, o)
      [] o.op = "cancel" -> Cancel(st, o)
      [] o.op = "new" -> New(st, o)
      [] o.op = "create" -> Create(st, o)

\* the operations of a group, released together: some order of their commit points
RECURSIVE Run(_, _, _)
Run(acc, ops, rem) ==
    IF rem = {} THEN {[acc EXCEPT !.st.busy = [a \in Addrs |-> 0]]}
    ELSE UNION {UNION {Run([st |-> out.st, res |-> [acc.res EXCEPT ![i] = out.res], done |-> acc.done \cup out.done], ops, rem \ {i})
                       : out \in Apply(acc.st, ops[i])} : i \in rem}
GroupOutcomes(st, ops) == Run([st |-> st, res |-> [i \in 1..Len(ops) |-> "?"], done |-> {}], ops, 1..Len(ops))

\* the read-only methods as functions of the state
LenOf(st) == Cardinality(st.own)                              \* KF_NeverRemoved (intended: Cardinality(st.open))
LookupOf(st, t) == IF t \in st.own THEN KeyOf(t) ELSE -1      \* -1: ErrPublicKeyNotFound

-----------------------------------------------------------------------------
(* HISTORY of observations.  An event E is one executed group:               *)
(*   E.i      step number                                                   *)
(*   E.ops    the operations, each with .res (and nothing else added)        *)
(*   E.done   completions: Comp records + ok (payload / response bytes are    *)
(*            the right ones) + lk (LookupPublicKeyInHandler(Src), -1 none)  *)
(*   E.obs    per existing node: [a, la, mtuok, pk, parse, lk: target -> key]*)
(*   E.len    Realm.Len() (vs kind; -1 otherwise)                           *)
(* H.t tells, H.d deliveries, H.created / H.closed: address -> step,        *)
(* H.pend blocked calls, H.serves / H.asks what ask handlers saw / askers got*)
EmptyH == [t |-> {}, d |-> {}, created |-> <<>>, closed |-> <<>>, pend |-> {}, sv |-> {}, seen |-> {}]
InitH(n0) == [EmptyH EXCEPT !.created = [a \in 0..(n0 - 1) |-> 0]]

Created(H, a) == a \in DOMAIN H.created
ClosedBefore(H, a) == a \in DOMAIN H.closed           \* Close(a) returned in an EARLIER step
OpsOf(E) == {E.ops[i] : i \in 1..Len(E.ops)}
TellsOf(E) == {o \in OpsOf(E) : o.op = "tell"}

\* the transform decision the contract implies for a tell (script: as told; DropFirst*: from the flows seen)
ExpDecision(H, o) ==
    CASE TfKind = "none" -> "none"
      [] TfKind = "script" -> o.tf
      [] OTHER -> IF Flow(o.a, o.b) \in H.seen THEN "pass" ELSE "drop"
ReachesTransform(H, o) == Fits(o.sz) /\ Created(H, o.b) /\ OutAllowed(o.a, o.b)

TellRec(H, E, o) == [id |-> o.id, step |-> E.i, src |-> o.a, dst |-> o.b, sz |-> o.sz, tf |-> ExpDecision(H, o), res |-> o.res]
\* all tells known after E (two racing tells of one DropFirst flow: either may be the dropped one, see DeliveredWasSendable)
TAll(H, E) == H.t \cup {TellRec(H, E, o) : o \in TellsOf(E)}
ExpSrc(t) == IF t.tf = "altsrc" THEN Unknown ELSE t.src
ExpDst(t) == IF t.tf = "altdst" THEN Unknown ELSE t.dst

\* where a blocking call runs / whom an ask addresses: from the group itself or from the blocked calls
CallOf(H, E, id) ==
    LET here == {o \in OpsOf(E) : o.id = id /\ Blocking(o)} IN
    IF here # {} THEN CHOOSE o \in here : TRUE
    ELSE IF \E p \in H.pend : p.id = id THEN CHOOSE p \in H.pend : p.id = id
    ELSE NoOp

\* deliveries of this event; a payload too short to carry its id (pid = -1) is attributed to the oldest
\* undelivered empty tell with the same addresses
Resolve(H, E, c, at) ==
    IF c.pid # -1 THEN c.pid
    ELSE LET cs == {t \in TAll(H, E) : /\ t.sz = "z" /\ t.dst = at /\ ExpSrc(t) = c.src /\ ExpDst(t) = c.dst
                                       /\ ~\E d \in H.d : d.id = t.id} IN
         IF cs = {} THEN -1 ELSE (CHOOSE t \in cs : \A u \in cs : t.id <= u.id).id
DelsOf(H, E) == {[at |-> CallOf(H, E, c.id).a, id |-> Resolve(H, E, c, CallOf(H, E, c.id).a), src |-> c.src, dst |-> c.dst, sz |-> c.sz,
                  ok |-> c.ok, lk |-> c.lk, step |-> E.i, rid |-> c.id]
                 : c \in {c \in E.done : c.kind = "recv" /\ c.res = "msg"}}
TellOfDel(H, E, d) == LET ts == {t \in TAll(H, E) : t.id = d.id} IN IF ts = {} THEN [id |-> -1] ELSE CHOOSE t \in ts : TRUE

Extend(H, E) ==
    LET ops == OpsOf(E)
        newc == {o \in ops : o.op \in {"new", "create"} /\ o.res \notin {"inuse", "?", "panic"}}
        addrOf(o) == CHOOSE a \in Addrs : AddrRes(a) = o.res
        clos == {o.a : o \in {o \in ops : o.op = "close" /\ o.res = "nil"}}
        doneIds == {c.id : c \in E.done}
        started == {o \in ops : Blocking(o) /\ o.id \notin doneIds}
    IN [t |-> TAll(H, E),
        d |-> H.d \cup DelsOf(H, E),
        created |-> [a \in DOMAIN H.created \cup {addrOf(o) : o \in {o \in newc : \E a \in Addrs : AddrRes(a) = o.res}} |->
                        IF a \in DOMAIN H.created THEN H.created[a] ELSE E.i],
        closed |-> [a \in DOMAIN H.closed \cup clos |-> IF a \in DOMAIN H.closed THEN H.closed[a] ELSE E.i],
        pend |-> {p \in H.pend : p.id \notin doneIds} \cup started,
        sv |-> H.sv \cup {c \in E.done : c.kind = "serve" /\ c.res = "req"},
        seen |-> H.seen \cup {Flow(o.a, o.b) : o \in {o \in TellsOf(E) : ReachesTransform(H, o)}}]

-----------------------------------------------------------------------------
(* THE LAWS.  Each is a predicate of (H, E); StepLaws returns the names of    *)
(* those that are false.                                                    *)

\* --- tells and deliveries
\* a message is handed only to the node that owns the address it was told to, with the true source and destination
Routing(H, E) == \A d \in DelsOf(H, E) :
    LET t == TellOfDel(H, E, d) IN
    /\ t.id # -1
    /\ (t.tf # "altdst" => d.at = t.dst)
    /\ d.src = ExpSrc(t) /\ d.dst = ExpDst(t)
Intact(H, E) == \A d \in DelsOf(H, E) : LET t == TellOfDel(H, E, d) IN t.id # -1 => (d.ok /\ d.sz = t.sz)
AtMostOnce(H, E) == \A d \in DelsOf(H, E) :
    /\ ~\E d0 \in H.d : d0.id = d.id
    /\ ~\E d1 \in DelsOf(H, E) : d1.id = d.id /\ d1.rid # d.rid
\* only what could be sent arrives: accepted by Tell, within the MTU, not dropped (or grown past the MTU) by the transform
\* (two racing tells of one DropFirst flow: either of them may be the one that is dropped)
FlowTwice(H, E, t) == TfKind \in {"tuple", "pair"} /\ \E u \in TAll(H, E) : u.id # t.id /\ u.step = t.step /\ Flow(u.src, u.dst) = Flow(t.src, t.dst)
DeliveredWasSendable(H, E) == \A d \in DelsOf(H, E) :
    LET t == TellOfDel(H, E, d) IN
    t.id # -1 => /\ t.res = "nil" /\ Fits(t.sz)
                 /\ (Passes(t.tf) \/ FlowTwice(H, E, t))
\* the in-handler key lookup of the source names the sender's key
HandlerKey(H, E) == \A d \in DelsOf(H, E) :
    LET t == TellOfDel(H, E, d) IN (t.id # -1 /\ d.lk # -2) => d.lk = (IF ExpSrc(t) = Unknown THEN -1 ELSE KeyOf(t.src))
\* nothing is delivered at a node whose Close has returned
NothingAfterClose(H, E) == \A d \in DelsOf(H, E) : ~ClosedBefore(H, d.at)
\* a node never holds more than QLen undelivered messages: of the messages told by the end of step x and
\* delivered later, at most QLen
QueueBound(H, E) == \A d \in DelsOf(H, E) :
    LET D == {x \in H.d \cup DelsOf(H, E) : x.at = d.at /\ TellOfDel(H, E, x).id # -1}
        ts(x) == TellOfDel(H, E, x).step
    IN \A y \in D : Cardinality({x \in D : ts(x) <= ts(y) /\ ts(y) < x.step}) <= QLen
\* per sender and receiver: first told, first delivered
FIFOPair(H, E) == \A d \in DelsOf(H, E) :
    LET t == TellOfDel(H, E, d) IN
    t.id # -1 => ~\E d0 \in H.d : LET t0 == TellOfDel(H, E, d0) IN
                    d0.at = d.at /\ t0.id # -1 /\ t0.src = t.src /\ t0.step > t.step

\* a tell that MUST be in its destination's queue: accepted, passes, the destination existed and was open, and even
\* if every earlier tell to that node that is not known to have left the queue were still there, there was room
Left(H, E, t, x) == \E d \in H.d \cup DelsOf(H, E) : d.id = t.id /\ d.step < x        \* delivered before step x
MayOccupy(H, E, t, x) == t.res = "nil" /\ Fits(t.sz) /\ (Passes(t.tf) \/ FlowTwice(H, E, t)) /\ ~Left(H, E, t, x)
Must(H, E, a) == {t \in TAll(H, E) :
    /\ t.dst = a /\ t.res = "nil" /\ Fits(t.sz) /\ Passes(t.tf) /\ OutAllowed(t.src, t.dst)
    /\ Created(H, a) /\ H.created[a] < t.step
    /\ ~(a \in DOMAIN Extend(H, E).closed)
    /\ Cardinality({u \in TAll(H, E) : u.dst = a /\ u.id # t.id /\ u.step <= t.step /\ MayOccupy(H, E, u, t.step)}) < QLen}
Delivered(H, E, t) == \E d \in H.d \cup DelsOf(H, E) : d.id = t.id
\* a Receive stays blocked only while nothing it must be handed is queued at its node
NoLoss(H, E) == \A p \in Extend(H, E).pend :
    p.op = "recv" => \A t \in Must(H, E, p.a) : Delivered(H, E, t) \/ ~Admit(p.a, t.src)
\* ... and a later tell of the same sender does not overtake it
NoOvertake(H, E) == \A d \in DelsOf(H, E) :
    LET t == TellOfDel(H, E, d) IN
    t.id # -1 => \A t0 \in Must(H, E, d.at) : (t0.src = t.src /\ t0.step < t.step /\ Admit(d.at, t0.src)) => Delivered(H, E, t0)

\* Tell returns, whatever the state of the destination
TellNeverBlocks(H, E) == \A o \in TellsOf(E) : o.res # "blocked"
\* ... with the MTU error exactly when the payload is larger than the MTU, and with nil otherwise (loss at the
\* destination is never reported); a whitelisted sender is refused a destination it may not talk to
SenderOpen(H, o) == ~ClosedBefore(H, o.a)
TellResult(H, E) == \A o \in TellsOf(E) :
    IF ~OutAllowed(o.a, o.b) THEN o.res # "nil"
    ELSE IF ~Fits(o.sz) THEN o.res = "mtu"
    ELSE o.res # "mtu" /\ (SenderOpen(H, o) => o.res = "nil")
\* KNOWN FINDING (KF_ClosedSends): a closed swarm sends nothing
ClosedCannotSend(H, E) ==
    /\ \A o \in TellsOf(E) : (~SenderOpen(H, o) /\ Fits(o.sz) /\ OutAllowed(o.a, o.b)) => o.res # "nil"
    /\ \A c \in E.done : (c.kind = "ask" /\ ClosedBefore(H, CallOf(H, E, c.id).a) /\ CallOf(H, E, c.id) \in OpsOf(E)) => c.res \notin {"ok", "neg"}

\* --- wlswarm
WlInbound(H, E) ==
    /\ \A d \in DelsOf(H, E) : Admit(d.at, d.src)
    /\ \A c \in E.done : (c.kind = "serve" /\ c.res = "req") => Admit(CallOf(H, E, c.id).a, c.src)
WlOutbound(H, E) ==
    /\ \A d \in DelsOf(H, E) : LET t == TellOfDel(H, E, d) IN t.id # -1 => OutAllowed(t.src, t.dst)
    /\ \A c \in E.done : (c.kind = "ask" /\ ~OutAllowed(CallOf(H, E, c.id).a, CallOf(H, E, c.id).b)) => c.res \notin {"ok", "neg", "closed", "ctx"}

\* --- asks
AsksOfE(E) == {c \in E.done : c.kind = "ask"}
ServesOfE(E) == {c \in E.done : c.kind = "serve" /\ c.res = "req"}
\* a handler sees only a real ask addressed to its node, with the asker's address, once
AskRouting(H, E) == \A s \in ServesOfE(E) :
    LET k == CallOf(H, E, s.pid)  me == CallOf(H, E, s.id) IN
    /\ k.op = "ask" /\ k.b = me.a /\ s.src = k.a /\ s.dst = k.b /\ s.ok /\ s.sz = k.sz
    /\ ~\E s0 \in H.sv : s0.pid = s.pid
    /\ ~\E s1 \in ServesOfE(E) : s1.pid = s.pid /\ s1.id # s.id
    /\ s.lk \in {-2, KeyOf(k.a)}
\* a successful Ask carries the bytes of the handler that served it; a handler's -1 is an error for its asker; an ask
\* that the destination's whitelist refuses is an error and no handler ever sees it
AskOwnAnswer(H, E) == \A c \in AsksOfE(E) :
    LET k == CallOf(H, E, c.id) IN
    /\ c.res = "ok" => (c.ok /\ \E s \in ServesOfE(E) : s.pid = c.id /\ s.id = c.pid /\ CallOf(H, E, s.id).h = "echo")
    /\ (\E s \in ServesOfE(E) : s.pid = c.id /\ CallOf(H, E, s.id).h = "neg") => c.res # "ok"
    /\ (k.op = "ask" /\ k.b \in Addrs /\ ~Admit(k.b, k.a)) => (c.res # "ok" /\ ~\E s \in ServesOfE(E) \cup H.sv : s.pid = c.id)
\* an Ask that no handler can serve is an error of the right kind, at once
AskErrors(H, E) == \A o \in {o \in OpsOf(E) : o.op = "ask"} :
    LET cs == {c \in AsksOfE(E) : c.id = o.id} IN
    IF ~OutAllowed(o.a, o.b) THEN cs # {} /\ \A c \in cs : c.res = "err"
    ELSE IF ~Fits(o.sz) THEN cs # {} /\ \A c \in cs : c.res = "mtu"
    ELSE /\ \A c \in cs : c.res # "mtu"
         /\ ~Created(H, o.b) /\ ~(\E n \in OpsOf(E) : n.op \in {"new", "create"}) => (cs # {} /\ \A c \in cs : c.res = "err")
         /\ ClosedBefore(H, o.b) => (cs # {} /\ \A c \in cs : c.res = "closed")

\* --- close and cancel
\* Receive / ServeAsk on a closed node fail with the closed error at once; the calls blocked on a node return when it closes
CloseTerminal(H, E) ==
    /\ \A o \in {o \in OpsOf(E) : o.op \in {"recv", "serve"} /\ ClosedBefore(H, o.a)} :
          \E c \in E.done : c.id = o.id /\ c.res \in (IF o.ctx = "cancelled" THEN {"closed", "ctx"} ELSE {"closed"})
    /\ \A p \in Extend(H, E).pend : ~((p.op \in {"recv", "serve"} /\ p.a \in DOMAIN Extend(H, E).closed)
                                     \/ (p.op = "ask" /\ p.b \in DOMAIN Extend(H, E).closed))
    /\ \A o \in {o \in OpsOf(E) : o.op = "close"} : o.res = "nil"
\* a cancelled call returns (at the end of a behaviour every context is cancelled: nothing stays blocked)
CancelPrompt(H, E) ==
    /\ \A o \in {o \in OpsOf(E) : o.op = "cancel"} : ~\E p \in Extend(H, E).pend : p.id = o.t
    /\ E.last => Extend(H, E).pend = {}
\* a blocked call ends only for a reason
WokenForReason(H, E) == \A c \in E.done :
    /\ c.res = "ctx" => (\E o \in OpsOf(E) : (o.op = "cancel" /\ o.t = c.id) \/ (o.id = c.id /\ o.ctx = "cancelled")) \/ E.last
    /\ c.res = "closed" => LET k == CallOf(H, E, c.id)  a == IF k.op = "ask" THEN k.b ELSE k.a IN
                              ClosedBefore(H, a) \/ \E o \in OpsOf(E) : o.op = "close" /\ o.a = a

\* --- addresses and identity
AddrFresh(H, E) == \A o \in {o \in OpsOf(E) : o.op \in {"new", "create"} /\ (o.op = "new" \/ o.res # "inuse")} :
    /\ \E a \in Addrs : AddrRes(a) = o.res /\ ~Created(H, a) /\ (o.op = "create" => a = o.b)
    /\ ~\E o2 \in OpsOf(E) : o2.id # o.id /\ o2.res = o.res
\* Create refuses an address that a live swarm owns
AddrExclusive(H, E) == \A o \in {o \in OpsOf(E) : o.op = "create"} : (Created(H, o.b) /\ ~ClosedBefore(H, o.b)) => o.res = "inuse"
NodeObs(H, E) == \A n \in E.obs :
    /\ n.la = <<n.a>> /\ n.mtuok /\ n.parse = n.a
    /\ n.pk \in {-2, KeyOf(n.a)}
    /\ \A t \in DOMAIN n.lk : n.lk[t] \in (IF n.pk = -2 THEN {-2} ELSE IF t \in DOMAIN Extend(H, E).created
                                            THEN (IF t \in DOMAIN Extend(H, E).closed THEN {KeyOf(t), -1} ELSE {KeyOf(t)})
                                            ELSE {-1})
\* KNOWN FINDING (KF_NeverRemoved): the realm forgets a swarm that was dropped
DropRemoves(H, E) == E.len # -1 => E.len = Cardinality(DOMAIN Extend(H, E).created \ DOMAIN Extend(H, E).closed)
NoPanic(H, E) == E.panic = ""
\* a Receive / ServeAsk that reports success has called its callback exactly once
CallbackOnce(H, E) == \A c \in E.done : c.res \notin {"nocall", "multi"}

LawNames == {"Routing", "Intact", "AtMostOnce", "DeliveredWasSendable", "HandlerKey", "NothingAfterClose", "QueueBound", "FIFOPair",
             "NoLoss", "NoOvertake", "TellNeverBlocks", "TellResult", "ClosedCannotSend", "WlInbound", "WlOutbound", "AskRouting",
             "AskOwnAnswer", "AskErrors", "CloseTerminal", "CancelPrompt", "WokenForReason", "AddrFresh", "AddrExclusive", "NodeObs",
             "DropRemoves", "NoPanic", "CallbackOnce"}
KnownLaws == {"ClosedCannotSend", "DropRemoves"}
Holds(nm, H, E) ==
    CASE nm = "Routing" -> Routing(H, E) [] nm = "Intact" -> Intact(H, E) [] nm = "AtMostOnce" -> AtMostOnce(H, E)
      [] nm = "DeliveredWasSendable" -> DeliveredWasSendable(H, E) [] nm = "HandlerKey" -> HandlerKey(H, E)
      [] nm = "NothingAfterClose" -> NothingAfterClose(H, E) [] nm = "QueueBound" -> QueueBound(H, E) [] nm = "FIFOPair" -> FIFOPair(H, E)
      [] nm = "NoLoss" -> NoLoss(H, E) [] nm = "NoOvertake" -> NoOvertake(H, E) [] nm = "TellNeverBlocks" -> TellNeverBlocks(H, E)
      [] nm = "TellResult" -> TellResult(H, E) [] nm = "ClosedCannotSend" -> ClosedCannotSend(H, E)
      [] nm = "WlInbound" -> WlInbound(H, E) [] nm = "WlOutbound" -> WlOutbound(H, E) [] nm = "AskRouting" -> AskRouting(H, E)
      [] nm = "AskOwnAnswer" -> AskOwnAnswer(H, E) [] nm = "AskErrors" -> AskErrors(H, E) [] nm = "CloseTerminal" -> CloseTerminal(H, E)
      [] nm = "CancelPrompt" -> CancelPrompt(H, E) [] nm = "WokenForReason" -> WokenForReason(H, E) [] nm = "AddrFresh" -> AddrFresh(H, E)
      [] nm = "AddrExclusive" -> AddrExclusive(H, E) [] nm = "NodeObs" -> NodeObs(H, E) [] nm = "DropRemoves" -> DropRemoves(H, E)
      [] nm = "NoPanic" -> NoPanic(H, E) [] nm = "CallbackOnce" -> CallbackOnce(H, E)
StepLaws(H, E) == {nm \in LawNames : ~Holds(nm, H, E)}

-----------------------------------------------------------------------------
(* The event the MODEL produces for a group and one of its outcomes          *)
ModelObs(st) == {[a |-> a, la |-> <<a>>, mtuok |-> TRUE, pk |-> KeyOf(a), parse |-> a,
                  lk |-> [t \in st.own \cup {Unknown} |-> LookupOf(st, t)]] : a \in st.own}
ModelEvent(i, ops, out, last) ==
    [i |-> i, ops |-> [j \in 1..Len(ops) |-> ops[j] @@ [res |-> out.res[j]]],
     done |-> {c @@ [ok |-> TRUE, lk |-> IF c.res \in {"msg", "req"} THEN (IF c.src = Unknown THEN -1 ELSE KeyOf(c.src)) ELSE -2] : c \in out.done},
     obs |-> ModelObs(out.st), len |-> IF Kind = "vs" THEN LenOf(out.st) ELSE -1, panic |-> "", last |-> last]
=============================================================================
