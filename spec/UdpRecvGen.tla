---------------------------- MODULE UdpRecvGen ----------------------------
(***************************************************************************)
(* Schedule generator for the receive / cancel / Tell race on a swarm whose *)
(* Receive is its own loop (udpswarm; also run on memswarm's queue).        *)
(* Every behaviour is a behaviour of UdpRecv!Spec; goal picks               *)
(*   k   concurrent receivers (1..3), nc of them are cancelled (0 = control)*)
(*   pos where the cancels fall relative to the Tell:                       *)
(*       before  cancels, the cancelled ops have returned (read deadline    *)
(*               fired), then Tell                                          *)
(*       ct      cancels, then Tell while the cancelled reader is still     *)
(*               inside ReadFromUDP (no Tick in between: "same moment")     *)
(*       tc      Tell, then the cancels before anything else runs           *)
(*       after   Tell, the callback has finished, then the cancels          *)
(* and a late Receive is called when no healthy receiver is left while the  *)
(* datagram is still unseen.  Finish prints the action sequence.            *)
(***************************************************************************)
EXTENDS UdpRecv, Json

CONSTANTS RLate, Ks, Poss
VARIABLES hist, goal, done
gvars == <<vars, hist, goal, done>>

PreR == R \ {RLate}
Started == {r \in PreR : rpc[r] # "idle"}
Cancelled == {r \in PreR : rctx[r]}
TheM == CHOOSE m \in M : TRUE
Told == told # {}
Seen == cbn[TheM] > 0
Settled == Cardinality(Started) = goal.k /\ \A r \in Started : rpc[r] \in {"inread", "parkacq"}

Goals == {[k |-> k, nc |-> 0, pos |-> "control"] : k \in Ks}
         \cup {[k |-> k, nc |-> nc, pos |-> pos] : k \in Ks, nc \in {1, 2}, pos \in Poss}

GenInit == /\ Init /\ hist = <<>> /\ done = FALSE
           /\ goal \in {g \in Goals : g.nc <= g.k /\ (g.nc = g.k => g.k = 1 \/ g.pos # "after")
                                      /\ (g.pos = "after" => g.k > 1) /\ (g.nc = 2 => g.k >= 2)}

NewRet == {<<r, rres'[r]>> : r \in {x \in R : rpc[x] # "ret" /\ rpc'[x] = "ret"}}
Tag(a, op, pc) == hist' = Append(hist, [a |-> a, op |-> op, pc |-> pc, retd |-> NewRet])

CancelsDone == Cardinality(Cancelled) = goal.nc
CancelledBack == \A r \in Cancelled : rpc[r] = "ret"

EnvStep ==
  \/ \E r \in PreR : Cardinality(Started) < goal.k /\ ~Told /\ Cancelled = {} /\ RCall(r) /\ Tag("RCall", r, "")
  \/ \E r \in PreR : /\ Settled \/ Cancelled # {} \/ Told
                     /\ r \in Started /\ rpc[r] # "ret" /\ ~CancelsDone
                     /\ CASE goal.pos \in {"before", "ct"} -> ~Told
                          [] goal.pos = "tc" -> Told
                          [] goal.pos = "after" -> Told /\ Seen /\ \A x \in R : rpc[x] \notin {"cb", "incb"}
                          [] OTHER -> FALSE
                     /\ Cancel(r) /\ Tag("Cancel", r, "")
  \/ /\ ~Told /\ (Settled \/ Cancelled # {})
     /\ CASE goal.pos = "before" -> CancelsDone /\ CancelledBack
          [] goal.pos = "ct" -> CancelsDone
          [] OTHER -> Cancelled = {}
     /\ Tell(TheM) /\ Tag("Tell", TheM, "")
  \/ /\ Told /\ CancelsDone /\ ~Seen /\ rpc[RLate] = "idle"
     /\ \A r \in Started : rpc[r] = "ret"
     /\ RCall(RLate) /\ Tag("RCall", RLate, "late")

\* scheduling choices that realise the goal: "same moment" = nothing of the victims runs in between
HoldTick == goal.pos = "ct" /\ ~Told
HoldAll == goal.pos = "tc" /\ Told /\ ~CancelsDone

IntStep ==
  ~HoldAll /\ \E r \in R :
     \/ RAcq(r) /\ Tag("RAcq", r, rpc'[r])
     \/ RChk(r) /\ Tag("RChk", r, rpc'[r])
     \/ RRead(r) /\ Tag("RRead", r, rpc'[r])
     \/ ~HoldTick /\ (goal.pos = "before" => Cancelled # {}) /\ rctx[r] /\ Tick(r) /\ Tag("Tick", r, rpc'[r])
     \/ RCbBegin(r) /\ Tag("CbBegin", r, rpc'[r])
     \/ RCbEnd(r) /\ Tag("CbEnd", r, rpc'[r])

Finish == /\ ~done /\ Told /\ Seen /\ CancelsDone /\ CancelledBack
          /\ \A r \in R : rpc[r] \notin {"acq", "chk", "read", "cb", "incb"}
          /\ PrintT(ToJson(<<"RACE", goal, hist>>))
          /\ done' = TRUE /\ UNCHANGED <<vars, hist, goal>>

GenNext == \/ ((EnvStep \/ IntStep) /\ UNCHANGED <<goal, done>>)
           \/ Finish
GenSpec == GenInit /\ [][GenNext]_gvars
=============================================================================
