SPECIFICATION Spec
CONSTANTS
  MKinds = {"str", "var", "u16", "u32", "u64"}
  Mode = "pairs"
INVARIANTS Injective PrefixFree
CHECK_DEADLOCK FALSE
