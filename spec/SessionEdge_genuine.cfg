SPECIFICATION CoverSpec
CONSTANTS
  Sess <- Pair
  Role <- PairRole
  KeyOf <- PairKey
  EphOf <- PairEph
  SessIdx <- PairIdx
  MaxForge = 0
  MaxSend = 2
  Window = 1000
  Weak = {}
  MaxSteps = 0
VIEW view
ACTION_CONSTRAINT EdgeDump
CHECK_DEADLOCK FALSE
