SPECIFICATION Spec
CONSTANTS
  Locus <- SmallLocus
  Keys <- BoundaryKeys
  Queries <- SmallQueries
  Configs <- RefConfigs
  RefBase <- BoundaryConfigs
  RefMax = 9
  RefMin = 1
  TimeDom <- [KadCacheAbs] RefTimes
  MaxNB <- [KadCacheAbs] RefMaxNB
  Vals = {1}
  Times = {1, 2}
  TouchTimes = {0}
  ExpTimes = {2}
  Exps = {0, 1}
  MaxOps = 2
VIEW view
INVARIANTS AbsParams AbsCtorPre AbsIndInv AbsEvictPossible CountExact Bounded
PROPERTIES AbsSpec
CHECK_DEADLOCK FALSE
