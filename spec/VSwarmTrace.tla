---------------------------- MODULE VSwarmTrace ----------------------------
(***************************************************************************)
(* Trace specification binding VSwarm.tla (and, through the constants Wrap  *)
(* and Allow, Wrappers.tla) to REAL realms.  The log of                      *)
(* harness/cmd/vswarmreplay holds, per executed group, what every call      *)
(* returned, which blocked calls completed and what their callbacks saw, and *)
(* what the read-only methods of every node answer.                          *)
(*   VIOL   a law operator of VSwarm.tla is false on the observations         *)
(*          (StepLaws over the history H of observations)                    *)
(*   DRIFT  the observation is not among the outcomes the as-coded model      *)
(*          allows for that group from any of the model states that are still *)
(*          consistent with everything observed before (cands)               *)
(* Validation never blocks.  All behaviours of one log share the constants   *)
(* (realm kind, transform kind, wrapper, whitelist, queue length).           *)
(***************************************************************************)
EXTENDS VSwarm, Json, IOUtils

Log == ndJsonDeserialize(IOEnv.TRACE)

VARIABLES l, cands, H
tvars == <<l, cands, H>>

MapOff == 100
ToIn(x) == IF Wrap = "map" THEN x - MapOff ELSE x
ToSet(s) == {s[i] : i \in 1..Len(s)}

OpOf(o) == [op |-> o.op, a |-> o.a, b |-> o.b, sz |-> o.sz, tf |-> o.tf, h |-> o.h, ctx |-> o.ctx, id |-> o.id, t |-> o.t]
ResOf(o) == IF o.res = "new" THEN AddrRes(ToIn(o.ad)) ELSE o.res
CompOf(c) == LET seen == c.res \in {"msg", "req"} IN
    [id |-> c.id, kind |-> c.kind, res |-> c.res, pid |-> c.pid, src |-> IF seen THEN ToIn(c.src) ELSE -1,
     dst |-> IF seen THEN ToIn(c.dst) ELSE -1, sz |-> c.sz, ok |-> c.ok, lk |-> c.lk]
ObsOf(n) == [a |-> ToIn(n.a), la |-> [i \in 1..Len(n.la) |-> ToIn(n.la[i])], mtuok |-> n.mtuok, pk |-> n.pk,
             parse |-> IF n.parse = -1 THEN -1 ELSE ToIn(n.parse),
             lk |-> [t \in {ToIn(x.t) : x \in ToSet(n.lk)} |-> (CHOOSE x \in ToSet(n.lk) : ToIn(x.t) = t).k]]
EventOf(ev) == [i |-> ev.i, ops |-> [j \in 1..Len(ev.ops) |-> OpOf(ev.ops[j]) @@ [res |-> ResOf(ev.ops[j])]],
                done |-> {CompOf(c) : c \in ToSet(ev.done)}, obs |-> {ObsOf(n) : n \in ToSet(ev.obs)},
                len |-> ev.len, panic |-> ev.panic, last |-> ev.last]

\* what the model is compared with: the results, and the completions in the model's shape (a payload too short
\* to carry an id is attributed as the laws attribute it)
ObsDone(Hh, E) == {Comp(c.id, c.kind, c.res,
                        IF c.kind = "recv" /\ c.res = "msg" THEN Resolve(Hh, E, c, CallOf(Hh, E, c.id).a)
                        ELSE IF c.res \in {"req", "ok"} THEN c.pid ELSE 0,
                        c.src, c.dst, c.sz) : c \in E.done}
ObsRes(E) == [j \in 1..Len(E.ops) |-> E.ops[j].res]
ModelOps(E) == [j \in 1..Len(E.ops) |-> [x \in DOMAIN NoOp |-> E.ops[j][x]]]

\* at the end every context is cancelled
EndOutcome(s) ==
    [st |-> [s EXCEPT !.pr = [a \in Addrs |-> {}], !.ps = [a \in Addrs |-> {}], !.pa = {}],
     res |-> <<>>,
     done |-> {Plain(r, "recv", "ctx") : r \in UNION {s.pr[a] : a \in Addrs}}
              \cup {Plain(sv.id, "serve", "ctx") : sv \in UNION {s.ps[a] : a \in Addrs}}
              \cup {Plain(k.id, "ask", "ctx") : k \in s.pa}]
Outcomes(s, E) == IF E.last THEN {EndOutcome(s)} ELSE GroupOutcomes(s, ModelOps(E))

TraceInit == l = 1 /\ cands = {} /\ H = EmptyH

TraceNext ==
    /\ l <= Len(Log)
    /\ l' = l + 1
    /\ LET ev == Log[l]
           E == EventOf(ev)
       IN IF ev.ev = "init"
          THEN LET H0 == InitH(ev.n0)
                   vs == {nm \in {"NodeObs", "NoPanic"} : ~Holds(nm, H0, E)}
               IN /\ cands' = {InitSt(ev.n0)}
                  /\ H' = H0
                  /\ (vs # {}) => PrintT(ToJson(<<"VIOL", l, ev.beh, vs>>))
          ELSE LET vs == StepLaws(H, E)
                   outs == UNION {Outcomes(s, E) : s \in cands}
                   od == ObsDone(H, E)
                   or == ObsRes(E)
                   match == {o \in outs : o.res = or /\ o.done = od}
               IN /\ cands' = IF match # {} THEN {o.st : o \in match} ELSE IF outs # {} THEN {o.st : o \in outs} ELSE cands
                  /\ H' = Extend(H, E)
                  /\ (vs # {}) => PrintT(ToJson(<<"VIOL", l, ev.beh, vs>>))
                  /\ (match = {}) => PrintT(ToJson(<<"DRIFT", l, ev.beh, IF outs = {} THEN "not-enabled" ELSE "outcome">>))

TraceSpec == TraceInit /\ [][TraceNext]_tvars
AllConsumed == TLCGet("distinct") >= Len(Log) + 1
=============================================================================
