SPECIFICATION Spec
CONSTANTS
  Addrs = {0, 1, 2}
  Unknown = 7
  QLen = 1
  Kind = "mem"
  TfKind = "none"
  Wrap = "none"
  Allow <- AllowAll
  N0 = 2
  Sizes = {"s", "x"}
  TFs = {"pass"}
  Ctxs = {"wait"}
  Handlers = {"echo"}
  PairKinds = {}
  MaxOps = 3
  MaxAsks = 1
INVARIANTS TypeOK LawsHold MustIsQueued
CHECK_DEADLOCK FALSE
