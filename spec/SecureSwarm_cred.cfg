SPECIFICATION Spec
CONSTANTS
  Kinds <- OnlyQUIC
  WLA <- AllWL
  WLB <- OnlyAll
  Weak <- NoWeak
  MaxConn = 1
  MaxSend = 2
  MaxAdv = 1
  CacheMax = 16
  Extras = {"A", "B", "M"}
  Asks = {FALSE}
INVARIANTS Attribution DialSafety Whitelist
CHECK_DEADLOCK FALSE
