------------------------------- MODULE Chord -------------------------------
(***************************************************************************)
(* /repo/p/chord/chord.go: DistanceForward and DistanceAbsolute on the ring *)
(* of NBytes-byte big-endian numbers (mod M = 2^(8*NBytes)), AS CODED:      *)
(*    DistanceForward(out, to, from)   out = (to - from) mod M              *)
(*    DistanceAbsolute(out, to, from)  out = |to - from|  (of the INTEGERS) *)
(* both written into out with leading zero bytes; they panic when the three *)
(* buffers do not have the same length (documented) and never otherwise.    *)
(*                                                                         *)
(* Laws (model: over integers, every pair (a, b) of As x Bs is an initial   *)
(* state; ChordTrace: the same statements on the bytes the real functions   *)
(* wrote, through the byte-wise subtraction BSub, which BytesAgree ties to  *)
(* the integer definitions):                                                *)
(*   FwdBwdZero       forward(a,b) + forward(b,a) = 0 mod M, = M iff a # b  *)
(*   Identity         forward(a,b) = 0 <=> a = b <=> absolute(a,b) = 0      *)
(*   FwdAdditive      forward(a,c) = forward(a,b) + forward(b,c) mod M      *)
(*   AbsSymmetric     absolute(a,b) = absolute(b,a)                         *)
(*   AbsOneDirection  absolute(a,b) is forward(a,b) or forward(b,a)         *)
(*   AbsTriangle      absolute(a,c) <= absolute(a,b) + absolute(b,c)        *)
(*   AbsIsLinear      absolute(a,b) = |b - a|: the distance along the arc   *)
(*                    that does NOT pass 0.  It is therefore NOT the ring   *)
(*                    metric min(forward(a,b), forward(b,a)) (AbsIsRingMin  *)
(*                    is violated, e.g. a = 1, b = M-1: M-2 instead of 2)   *)
(*                    and not invariant under rotation.  The function's     *)
(*                    comment gives exactly this formula ("dist = abs(to -  *)
(*                    from)"), so it is modelled as coded and named.        *)
(***************************************************************************)
EXTENDS Integers, Sequences, FiniteSets, TLC

CONSTANTS NBytes, As, Bs, Cs
VARIABLES a, b

RECURSIVE Pow256(_)
Pow256(n) == IF n = 0 THEN 1 ELSE 256 * Pow256(n - 1)
M == Pow256(NBytes)

Fwd(x, y) == (y - x) % M                         \* DistanceForward(out, to = y, from = x)
AbsD(x, y) == IF y >= x THEN y - x ELSE x - y    \* DistanceAbsolute(out, to = y, from = x)
Min2(x, y) == IF x < y THEN x ELSE y

-----------------------------------------------------------------------------
(* byte strings (big-endian), as the functions read and write them *)

ToBytes(n, x) == [i \in 1..n |-> (x \div Pow256(n - i)) % 256]
RECURSIVE ToInt(_)
ToInt(s) == IF s = <<>> THEN 0 ELSE ToInt(SubSeq(s, 1, Len(s) - 1)) * 256 + s[Len(s)]
Zeros(n) == [i \in 1..n |-> 0]

\* digits 1..i of x - y - borrow (mod 256^i)
RECURSIVE SubFrom(_, _, _, _)
SubFrom(x, y, i, borrow) ==
    IF i = 0 THEN <<>>
    ELSE LET d == x[i] - y[i] - borrow IN
         SubFrom(x, y, i - 1, IF d < 0 THEN 1 ELSE 0) \o <<(d + 256) % 256>>
BSub(x, y) == SubFrom(x, y, Len(x), 0)           \* (x - y) mod 2^(8 len)
RECURSIVE AddFrom(_, _, _, _)
AddFrom(x, y, i, carry) ==
    IF i = 0 THEN <<>>
    ELSE LET d == x[i] + y[i] + carry IN
         AddFrom(x, y, i - 1, IF d > 255 THEN 1 ELSE 0) \o <<d % 256>>
BAdd(x, y) == AddFrom(x, y, Len(x), 0)           \* (x + y) mod 2^(8 len)
RECURSIVE BLess(_, _)
BLess(x, y) == IF x = <<>> THEN FALSE
               ELSE IF x[1] # y[1] THEN x[1] < y[1] ELSE BLess(Tail(x), Tail(y))
BAbs(x, y) == IF BLess(y, x) THEN BSub(x, y) ELSE BSub(y, x)     \* |x - y|

-----------------------------------------------------------------------------
(* laws over what the functions wrote for one pair: r = [a, b, fwd, bwd, abs, absba] (byte strings) *)

RowLawNames == {"OutLen", "FwdExact", "AbsIsLinear", "FwdBwdZero", "Identity", "AbsSymmetric", "AbsOneDirection"}
RowLaws(r) ==
    LET n == Len(r.a) IN
    {nm \in RowLawNames :
        CASE nm = "OutLen" -> ~(Len(r.fwd) = n /\ Len(r.bwd) = n /\ Len(r.abs) = n /\ Len(r.absba) = n)
          [] nm = "FwdExact" -> ~(r.fwd = BSub(r.b, r.a) /\ r.bwd = BSub(r.a, r.b))
          [] nm = "AbsIsLinear" -> r.abs # BAbs(r.a, r.b)
          [] nm = "FwdBwdZero" -> Len(r.fwd) = n /\ Len(r.bwd) = n /\ BAdd(r.fwd, r.bwd) # Zeros(n)
          [] nm = "Identity" -> ~(/\ (r.a = r.b) = (r.fwd = Zeros(n))
                                  /\ (r.a = r.b) = (r.abs = Zeros(n)))
          [] nm = "AbsSymmetric" -> r.abs # r.absba
          [] nm = "AbsOneDirection" -> r.abs \notin {r.fwd, r.bwd}}

-----------------------------------------------------------------------------
(* the model: every pair is an initial state *)

Init == a \in As /\ b \in Bs
Next == UNCHANGED <<a, b>>
Spec == Init /\ [][Next]_<<a, b>>

Row(x, y) == [a |-> ToBytes(NBytes, x), b |-> ToBytes(NBytes, y),
              fwd |-> ToBytes(NBytes, Fwd(x, y)), bwd |-> ToBytes(NBytes, Fwd(y, x)),
              abs |-> ToBytes(NBytes, AbsD(x, y)), absba |-> ToBytes(NBytes, AbsD(y, x))]

\* the byte-wise operators are the integer ones
BytesAgree == LET x == ToBytes(NBytes, a)  y == ToBytes(NBytes, b) IN
              /\ ToInt(x) = a /\ ToInt(y) = b
              /\ ToInt(BSub(y, x)) = Fwd(a, b)
              /\ ToInt(BAbs(x, y)) = AbsD(a, b)
              /\ ToInt(BAdd(x, y)) = (a + b) % M
              /\ BLess(x, y) = (a < b)
RowLawsHold == RowLaws(Row(a, b)) = {}
FwdBwdZero == /\ (Fwd(a, b) + Fwd(b, a)) % M = 0
              /\ (a # b) = (Fwd(a, b) + Fwd(b, a) = M)
              /\ Fwd(a, b) \in 0..(M - 1)
Identity == (Fwd(a, b) = 0) = (a = b) /\ (AbsD(a, b) = 0) = (a = b)
FwdAdditive == \A c \in Cs : Fwd(a, c) = (Fwd(a, b) + Fwd(b, c)) % M
AbsSymmetric == AbsD(a, b) = AbsD(b, a)
AbsOneDirection == AbsD(a, b) \in {Fwd(a, b), Fwd(b, a)}
AbsTriangle == \A c \in Cs : AbsD(a, c) <= AbsD(a, b) + AbsD(b, c)
AbsFits == AbsD(a, b) \in 0..(M - 1)
\* NOT a law of the code (expected to be violated, Chord_ringmin.cfg)
AbsIsRingMin == AbsD(a, b) = Min2(Fwd(a, b), Fwd(b, a))
=============================================================================
