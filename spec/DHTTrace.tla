------------------------------ MODULE DHTTrace ------------------------------
(***************************************************************************)
(* Trace specification binding DHT.tla to the real DHTFindNode / DHTJoin /  *)
(* DHTGet / DHTPut (log written by harness/cmd/dhtreplay, one event per     *)
(* executed case).  Each event holds the case (operation, initial list,     *)
(* MinAccepted, what every node answers), the Ask invocations in order, the *)
(* result struct, the error flag, panic / non-termination.                  *)
(*                                                                          *)
(* monitor: the property operators of DHT.tla are evaluated on the logged   *)
(*   observations; every false operator is printed as <<"VIOL", line, case, *)
(*   {names}>> (the checker turns these into VIOLATION).                    *)
(* strict:  the same case is run through the specification (Run); where the *)
(*   real contacts / result differ from the model's, <<"DRIFT", line, case, *)
(*   what>> is printed: the code no longer behaves like the specification,  *)
(*   but no listed property is falsified.                                   *)
(* Validation never blocks: every line is consumed.                         *)
(***************************************************************************)
EXTENDS DHT, Json, IOUtils

Log == ndJsonDeserialize(IOEnv.TRACE)

VARIABLES l
tvars == <<st, l>>

\* node id -> [id, reply, fail, accept, val, bad, adv]
\* (a contacted id the case does not describe counts as an adversarial node whose Ask failed)
Unknown(m) == [id |-> m, reply |-> <<>>, fail |-> TRUE, accept |-> FALSE, val |-> 0, bad |-> FALSE, adv |-> TRUE]
TopoOf(ev) == LET S == ToSet(ev.topo)
                  D == {t.id : t \in S}
              IN [m \in D \cup ToSet(ev.contacts) |-> IF m \in D THEN CHOOSE t \in S : t.id = m ELSE Unknown(m)]

\* ids whose info FindNode's Validate rejects
BadOf(T) == {m \in DOMAIN T : T[m].bad}

\* was the target's id learned: in the initial list or in a validated reply of a node that answered
TargetKnown(ev, T) ==
    \/ InSeq(ev.init, Target)
    \/ \E m \in Responded(ev.contacts, T) : InSeq(T[m].reply, Target) /\ Target \notin BadOf(T)

ObsRes(ev) == [closest |-> ev.res.closest, contacted |-> ev.res.contacted, responded |-> ev.res.responded,
               accepted |-> ev.res.accepted, from |-> ev.res.from, hasval |-> ev.res.hasval, valok |-> ev.res.valok,
               valsrc |-> ToSet(ev.res.valsrc), added |-> ev.res.added]

\* strict comparison with the specification's prediction
Drift(ev, T, p) ==
    IF ev.panic \/ p.pc = "panic" THEN (IF ev.panic # (p.pc = "panic") THEN {"panic"} ELSE {})
    ELSE
    (IF p.order # ev.contacts THEN {"contacts"} ELSE {}) \cup
    (IF p.err # ev.err THEN {"err"} ELSE {}) \cup
    (LET r == ev.res IN
     IF CASE ev.op = "findnode" -> r.closest # p.closest \/ r.contacted # p.contacted
          [] ev.op = "join" -> r.added # p.added
          [] ev.op = "get" -> \/ r.closest # p.closest \/ r.contacted # p.contacted \/ r.responded # p.responded
                              \/ r.from # p.from \/ r.hasval # (p.from # None)
          [] ev.op = "put" -> \/ r.closest # p.closest \/ r.contacted # p.contacted \/ r.responded # p.responded
                              \/ r.accepted # p.accepted
     THEN {"result"} ELSE {}) \cup
    \* honest responders (real DHTNode handlers): HandleFindNode answers at most min(Limit, 10) nodes,
    \* closerNodes only nodes strictly closer to the key than the responder
    (IF \E m \in DOMAIN T : /\ ~T[m].adv /\ ~T[m].fail
                            /\ IF ev.op \in {"findnode", "join"}
                               THEN Len(T[m].reply) > (IF ev.op = "findnode" THEN 3 ELSE 10)
                               ELSE \E i \in 1..Len(T[m].reply) : ~Lt(ev.dist, T[m].reply[i], m)
     THEN {"cap"} ELSE {})

TraceInit == l = 1 /\ st = Start("findnode", <<>>, 0, 0, <<>>)

TraceNext ==
    /\ l <= Len(Log)
    /\ l' = l + 1
    /\ LET ev == Log[l]
           T == TopoOf(ev)
           p == Run(Start(ev.op, ev.init, ev.min, ev.vmode, ev.dist), T, BadOf(T))
           vs == Falsified(ev.op, ev.min, ev.vmode, ev.dist, ev.contacts, T, TargetKnown(ev, T), ObsRes(ev),
                           ev.err, ev.panic, ev.nonterm)
           ds == Drift(ev, T, p)
       IN /\ st' = p
          /\ (vs # {}) => PrintT(ToJson(<<"VIOL", l, ev.id, vs>>))
          /\ (ds # {}) => PrintT(ToJson(<<"DRIFT", l, ev.id, ds>>))

TraceSpec == TraceInit /\ [][TraceNext]_tvars

AllConsumed == TLCGet("distinct") >= Len(Log) + 1

TNone == {}
=============================================================================
