----------------------------- MODULE KeysTrace -----------------------------
(***************************************************************************)
(* Binds Keys.tla (C17) to the real codecs: each log line is what           *)
(* x509.MarshalPublicKey / ParsePublicKey / EqualPublicKeys, the two        *)
(* DefaultFingerprinters and PeerID.MarshalText / UnmarshalText / Compare   *)
(* returned for one concretised case of Keys.tla, or one fingerprint        *)
(* observed at one site of a running swarm (harvest).                       *)
(*                                                                          *)
(* Laws (a false one is a VIOLATION):                                       *)
(*   RoundTrip                    key with an object identifier that the    *)
(*                                parser can represent: parse(marshal k)=k  *)
(*   RoundTripBigArc              same for valid OIDs with arcs >= 2^31     *)
(*                                (recorded finding)                        *)
(*   CanonicalDER                 marshal k = the reference encoding the    *)
(*                                harness computes independently            *)
(*   EqualIffEncodingEqual        EqualPublicKeys(a,b) <=> marshal a =      *)
(*                                marshal b, and EqualPublicKeys symmetric  *)
(*   MarshalIdempotent, EqualImpliesSameEncoding, EqualImpliesSameIdentity, *)
(*   SameEncodingImpliesEqual, EqualIsEquivalence   the parse-first laws    *)
(*                                over the ACCEPTED wire forms of one key   *)
(*                                (parameters absent/NULL/junk, unused      *)
(*                                bits, long-form lengths, trailing bytes,  *)
(*                                standard RSA/ECDSA/Ed25519 SPKIs)         *)
(*   NonCanonicalSameFingerprint  an accepted non-canonical DER yields a    *)
(*                                key that round-trips and has the          *)
(*                                fingerprint of its canonical re-encoding  *)
(*   FingerprintIsFunctionOfKey   within ONE swarm kind every site computes *)
(*                                the same id for the same key (fp events   *)
(*                                are sorted by key, kind: adjacent lines)  *)
(*   PeerIDRoundTrip, OrderPreserving, RejectInvalid, NoPanic               *)
(* Cross-swarm fingerprint differences are printed as OBS, never VIOL.      *)
(* Model/code disagreement (Keys!Unmarshal, Keys!Encode, acceptance of DER  *)
(* forms) is DRIFT.                                                         *)
(***************************************************************************)
EXTENDS Integers, Sequences, FiniteSets, TLC, Json, IOUtils

K == INSTANCE Keys WITH Rich <- FALSE, StrictIdText <- TRUE, LengthFastPath <- FALSE, KeepParams <- FALSE, c <- [kind |-> "none"]

Log == ndJsonDeserialize(IOEnv.TRACE)
VARIABLES l, fresh, starts
NShards == atoi(IOEnv.NSHARDS)
ComputeStarts == {1} \cup {(k * Len(Log)) \div NShards + 1 : k \in 1..(NShards - 1)}
Sign(n) == IF n < 0 THEN -1 ELSE IF n > 0 THEN 1 ELSE 0

PrevSameKey(i) == i > 1 /\ Log[i - 1].ev = "fp" /\ Log[i - 1].key = Log[i].key

Viol(i) ==
    LET ev == Log[i] IN
    CASE ev.ev = "key" ->
            {n \in {"NoPanic", "RoundTrip", "RoundTripBigArc", "CanonicalDER"} :
               CASE n = "NoPanic" -> ev.panic
                 \* the marshalled bytes are those of the independent reference encoders (encoding/asn1 on the same
                 \* structure; crypto/x509 for a standard Ed25519 key): refok says a reference exists
                 [] n = "CanonicalDER" -> ~ev.panic /\ ~ev.empty /\ ev.refok /\ (~ev.canon \/ ~ev.canonstd)
                 [] n = "RoundTrip" -> ~ev.panic /\ ev.valid /\ ev.fits /\ (ev.empty \/ ev.perr \/ ~ev.eqkey)
                 [] n = "RoundTripBigArc" -> ~ev.panic /\ ev.valid /\ ~ev.fits /\ (ev.empty \/ ev.perr \/ ~ev.eqkey)}
      [] ev.ev = "pair" ->
            {n \in {"NoPanic", "EqualIffEncodingEqual"} :
               CASE n = "NoPanic" -> ev.panic
                 [] n = "EqualIffEncodingEqual" -> ~ev.panic /\ ((ev.valid /\ ev.equal # ev.enceq) \/ ev.equal # ev.equalba)}
      [] ev.ev = "der" ->
            {n \in {"NoPanic", "NonCanonicalSameFingerprint"} :
               CASE n = "NoPanic" -> ev.panic
                 [] n = "NonCanonicalSameFingerprint" -> ~ev.panic /\ ~ev.perr /\ (~ev.rt \/ ~ev.fpsame)}
      [] ev.ev = "wires" ->
            \* parse-first: x, y range over the wire forms of one case that ParsePublicKey ACCEPTED
            LET A == {x \in 1..Len(ev.forms) : ev.acc[x]} IN
            {n \in {"NoPanic", "MarshalIdempotent", "EqualImpliesSameEncoding", "EqualImpliesSameIdentity", "SameEncodingImpliesEqual", "EqualIsEquivalence"} :
               CASE n = "NoPanic" -> ev.panic
                 [] n = "MarshalIdempotent" -> ~ev.panic /\ \E x \in A : ~ev.idem[x]
                 [] n = "EqualImpliesSameEncoding" -> ~ev.panic /\ \E x \in A : \E y \in A : ev.eq[x][y] /\ ev.m[x] # ev.m[y]
                 \* (contrapositive: different identities => not EqualPublicKeys), under both default fingerprinters
                 [] n = "EqualImpliesSameIdentity" -> ~ev.panic /\ \E x \in A : \E y \in A : ev.eq[x][y] /\ (ev.fpk[x] # ev.fpk[y] \/ ev.fpq[x] # ev.fpq[y])
                 [] n = "SameEncodingImpliesEqual" -> ~ev.panic /\ \E x \in A : \E y \in A : ev.m[x] = ev.m[y] /\ ~ev.eq[x][y]
                 [] n = "EqualIsEquivalence" -> ~ev.panic /\ (\/ \E x \in A : ~ev.eq[x][x]
                                                              \/ \E x \in A : \E y \in A : ev.eq[x][y] # ev.eq[y][x]
                                                              \/ \E x \in A : \E y \in A : \E z \in A : ev.eq[x][y] /\ ev.eq[y][z] /\ ~ev.eq[x][z])}
      [] ev.ev = "fp" ->
            \* the previous event of the same key AND kind: directly before, or (sites that log both kinds
            \* alternately) two lines before
            {n \in {"FingerprintIsFunctionOfKey"} :
                 \/ PrevSameKey(i) /\ Log[i - 1].kind = ev.kind /\ Log[i - 1].id # ev.id
                 \/ i > 2 /\ PrevSameKey(i) /\ PrevSameKey(i - 1) /\ Log[i - 2].kind = ev.kind /\ Log[i - 2].id # ev.id}
      [] ev.ev = "idtext" ->
            {n \in {"NoPanic", "RejectInvalid"} :
               CASE n = "NoPanic" -> ev.panic
                 [] n = "RejectInvalid" -> ~ev.panic /\ ~ev.err /\ ev.back # ev.tb}
      [] ev.ev = "idpair" ->
            {n \in {"NoPanic", "PeerIDRoundTrip", "OrderPreserving"} :
               CASE n = "NoPanic" -> ev.panic
                 [] n = "PeerIDRoundTrip" -> ~ev.panic /\ (ev.uerr \/ ev.uback # ev.a)
                 [] n = "OrderPreserving" -> ~ev.panic /\ (\/ Sign(ev.cmp) # K!LexCmp(ev.ta, ev.tb)
                                                          \/ Sign(ev.cmp) # K!LexCmp(ev.a, ev.b)
                                                          \/ Sign(ev.cmp) # -Sign(ev.cmpba)
                                                          \/ ev.lt # (ev.cmp < 0))}
      [] OTHER -> {}

Drift(i) ==
    LET ev == Log[i] IN
    CASE ev.ev = "key" -> {n \in {"ReMarshalDiffers", "AppendSemantics", "NonOIDAccepted", "HandEncoderDisagrees", "SpecDERLength"} :
                              CASE n = "HandEncoderDisagrees" -> ~ev.panic /\ ev.valid /\ ev.refok /\ ev.canon /\ ~ev.canonhand
                                \* Keys!TLVLen(OuterContent): the total length the model computes for the encoding
                                [] n = "SpecDERLength" -> ~ev.panic /\ ev.valid /\ ~ev.empty /\ ev.derlen # ev.mderlen
                                [] n = "ReMarshalDiffers" -> ~ev.panic /\ ~ev.perr /\ ev.eqkey /\ ~ev.redereq
                                [] n = "AppendSemantics" -> ~ev.panic /\ ~ev.appendok
                                [] n = "NonOIDAccepted" -> ~ev.panic /\ ~ev.valid /\ ~ev.empty /\ ~ev.perr /\ ev.eqkey}
      [] ev.ev = "der" -> {n \in {"ModelDisagrees", "NotCanonicalAfterReMarshal"} :
                              CASE n = "ModelDisagrees" -> ~ev.panic /\ ev.accept = ev.perr
                                [] n = "NotCanonicalAfterReMarshal" -> ~ev.panic /\ ~ev.perr /\ ~ev.canon}
      [] ev.ev = "idtext" -> {n \in {"ModelDisagrees", "SpecText"} :
                              CASE n = "ModelDisagrees" -> ~ev.panic /\ LET u == K!Unmarshal(ev.tb) IN (K!IsErr(u) # ev.err) \/ (~ev.err /\ ~K!IsErr(u) /\ u.id # ev.id)
                                [] n = "SpecText" -> ev.textdrift}
      \* which wire forms are accepted is the code's choice: a difference from Keys!ParseW is drift only
      [] ev.ev = "wires" -> {n \in {"AcceptanceDiffers"} : ~ev.panic /\ Len(ev.macc) = Len(ev.acc) /\ ev.macc # ev.acc}
      [] ev.ev = "idpair" -> {n \in {"SpecText"} : ~ev.panic /\ K!Encode(ev.a) # ev.ta}
      [] OTHER -> {}

Obs(i) == Log[i].ev = "fp" /\ PrevSameKey(i) /\ Log[i - 1].kind # Log[i].kind /\ Log[i - 1].id # Log[i].id

TraceInit == starts = ComputeStarts /\ l \in starts /\ fresh = TRUE
TraceNext == /\ l <= Len(Log)
             /\ (fresh \/ l \notin starts)
             /\ fresh' = FALSE /\ starts' = starts
             /\ l' = l + 1
             /\ LET vs == Viol(l) IN (vs # {}) => PrintT(ToJson(<<"VIOL", l, l, vs>>))
             /\ LET ds == Drift(l) IN (ds # {}) => PrintT(ToJson(<<"DRIFT", l, l, ds>>))
             /\ Obs(l) => PrintT(ToJson(<<"OBS", l, "cross-swarm fingerprints differ", Log[l - 1].kind, Log[l].kind>>))
TraceSpec == TraceInit /\ [][TraceNext]_<<l, fresh, starts>>
AllConsumed == TLCGet("distinct") >= Len(Log) + 1
=============================================================================
