------------------------------ MODULE Session ------------------------------
(***************************************************************************)
(* Implementation-shaped symbolic (Dolev-Yao) model of p2pke.Session       *)
(* (/repo/p/p2pke/session.go): the 4-message Noise-NN handshake with       *)
(* signatures, AEAD data, replay filter and counters, for a set of honest  *)
(* sessions and an attacker who controls the network.                      *)
(*                                                                         *)
(* Messages are terms (records).  ref binds a message to the transcript it *)
(* belongs to: RH.ref = the InitHello it answers, ID/RD/D.ref = the        *)
(* RespHello of the handshake.  sig = the key whose private half produced  *)
(* the signature ("none" = garbage).  The network is a monotone set: drop, *)
(* duplicate, reorder, replay and reflect are "deliver any element at any  *)
(* time".  Session.Deliver dispatches on the header counter exactly like   *)
(* the code (0..3 handshake, otherwise data).                              *)
(***************************************************************************)
EXTENDS Integers, Sequences, FiniteSets, TLC

CONSTANTS
    Sess,       \* honest sessions
    Role,       \* [Sess -> {"init","resp"}]
    KeyOf,      \* [Sess -> honest key]
    EphOf,      \* [Sess -> ephemeral name]
    SessIdx,    \* [Sess -> 1..n] (plaintext ids are SessIdx*10 + ordinal)
    MaxForge,   \* number of attacker-forged messages
    MaxSend,    \* Send calls per session
    Window,     \* replay window (counters older than max-Window are refused)
    Weak        \* set of checks that are switched OFF (always {} when model checking; non-empty only to
                \* GENERATE attack scripts that go where only a defective implementation would let them)

AKey == "M"          \* the attacker's own key
AEph == "eM"         \* the attacker's own ephemeral
None == [t |-> "none"]

VARIABLES
    st,         \* [Sess -> session state record]
    net,        \* set of message terms ever emitted or forged
    msgs,       \* sequence of the distinct terms in creation order (ids for the replayer)
    forged,     \* number of forged messages so far
    out,        \* ghost: set of <<session, plaintext>> handed to the application by Deliver
    dup,        \* ghost: TRUE once a plaintext was handed twice to one session
    last        \* last action and its result (output only)

vars == <<st, net, msgs, forged, out, dup, last>>
view == <<st, net, forged, out, dup>>

-----------------------------------------------------------------------------
(* Terms *)
IH(by, eph, key, sig) == [t |-> "IH", by |-> by, eph |-> eph, key |-> key, sig |-> sig, ref |-> None, dir |-> "-", n |-> 0, pt |-> 0]
RH(by, eph, key, sig, ih) == [t |-> "RH", by |-> by, eph |-> eph, key |-> key, sig |-> sig, ref |-> ih, dir |-> "-", n |-> 1, pt |-> 0]
ID(by, sig, rh) == [t |-> "ID", by |-> by, eph |-> "-", key |-> "-", sig |-> sig, ref |-> rh, dir |-> "i2r", n |-> 2, pt |-> 0]
RD(by, rh) == [t |-> "RD", by |-> by, eph |-> "-", key |-> "-", sig |-> "-", ref |-> rh, dir |-> "r2i", n |-> 3, pt |-> 0]
D(by, rh, dir, n, pt) == [t |-> "D", by |-> by, eph |-> "-", key |-> "-", sig |-> "-", ref |-> rh, dir |-> dir, n |-> n, pt |-> pt]
BAD(n) == [t |-> "BAD", by |-> "M", eph |-> "-", key |-> "-", sig |-> "-", ref |-> None, dir |-> "-", n |-> n, pt |-> 0]

NoncePost == 16
\* the signature key k made as RESPONDER (RespHello: over the transcript up to the InitHello) presented where
\* an InitDone signature (over the transcript up to the RespHello) is expected: made by k, but not a proof
XSig(k) == IF k = "A" THEN "xA" ELSE IF k = "B" THEN "xB" ELSE "xM"
\* the signature key k made over the TIMESTAMP of one of its InitHellos (another purpose) presented where a
\* channel-binding signature is expected: made by k, but not a proof either
TSig(k) == IF k = "A" THEN "tA" ELSE IF k = "B" THEN "tB" ELSE "tM"

InitState(s) == [hs |-> 0,
                 ih |-> IF Role[s] = "init" THEN IH(s, EphOf[s], KeyOf[s], KeyOf[s]) ELSE None,
                 rh |-> None,       \* the RespHello of this handshake (own for a responder, accepted for an initiator)
                 idm |-> None,      \* responder: the InitDone it consumed
                 rk |-> "-",        \* RemoteKey()
                 nout |-> 0,        \* s.nonce
                 seen |-> {},       \* replay filter contents
                 nsent |-> 0,
                 rdseen |-> FALSE,  \* initiator: a RespDone was consumed (a session completed by data never consumed one)
                 dead |-> FALSE]    \* the Noise handshake state was consumed by a message that was then rejected

Init == /\ st = [s \in Sess |-> InitState(s)]
        /\ net = {}
        /\ msgs = <<>>
        /\ forged = 0
        /\ out = {}
        /\ dup = FALSE
        /\ last = [a |-> "init"]

-----------------------------------------------------------------------------
(* canSend / canReceive / IsReady (session.go:176-186) *)
CanSend(s, v) == IF "cansend" \in Weak THEN v.hs >= (IF Role[s] = "init" THEN 2 ELSE 1)
                 ELSE IF Role[s] = "init" THEN v.hs >= 3 ELSE v.hs >= 2
CanRecv(s, v) == v.hs >= (IF "early" \in Weak THEN 1 ELSE 2)
Ready(s, v) == CanSend(s, v) /\ CanRecv(s, v)

\* writeHandshake (session.go:204): the cached message for the current state, or None
HsMsg(s, v) ==
    IF v.hs >= 4 THEN None
    ELSE IF Role[s] = "init" /\ v.hs = 0 THEN v.ih
    ELSE IF Role[s] = "resp" /\ v.hs = 1 THEN v.rh
    ELSE IF Role[s] = "init" /\ v.hs = 2 THEN ID(s, KeyOf[s], v.rh)
    ELSE IF Role[s] = "resp" /\ v.hs = 3 THEN RD(s, v.rh)
    ELSE None

\* Noise NN derives the transport keys from the two ephemerals only (the payloads enter the handshake HASH, which the
\* signatures cover, not the chaining key): records sealed for one RespHello open under any RespHello with the same
\* pair of ephemerals
SameKeys(a, b) == /\ a.t = "RH" /\ b.t = "RH" /\ a.eph = b.eph
                  /\ a.ref.t = "IH" /\ b.ref.t = "IH" /\ a.ref.eph = b.ref.eph
InDir(s) == IF Role[s] = "init" THEN "r2i" ELSE "i2r"
OutDir(s) == IF Role[s] = "init" THEN "i2r" ELSE "r2i"

\* Session.Deliver (session.go:106) as a pure function of the session state and the message.
\* Result: [v: new state, res: "hs" | "app" | "drop" | "err", reply: term or None, pt]
R3(v, res, reply, pt) == [v |-> v, res |-> res, reply |-> reply, pt |-> pt]
Err(v) == R3(v, "err", None, 0)

ReadHandshake(s, v, m) ==
    \* readHandshake (session.go:238): the four progress cases, then the parity case, which (after
    \* the fix) accepts only an exact duplicate of a message this session already consumed.
    \* noise.HandshakeState.ReadMessage is not re-entrant: a first message is always readable (ephemeral
    \* and cleartext payload), so a responder that rejects it afterwards (bad signature, unparsable
    \* payload) has used up its handshake state; likewise an initiator that rejects a RespHello
    \* which Noise could open.  (Channel.newResp verifies the claim BEFORE creating the session.)
    IF Role[s] = "resp" /\ v.hs = 0 /\ m.n = 0 THEN
        IF v.dead THEN Err(v)
        ELSE IF m.t = "IH" /\ (m.sig = m.key \/ "ihsig" \in Weak)
        THEN LET rh == RH(s, EphOf[s], KeyOf[s], KeyOf[s], m)
                 v2 == [v EXCEPT !.hs = 1, !.ih = m, !.rh = rh, !.rk = m.key]
             IN R3(v2, "hs", HsMsg(s, v2), 0)
        ELSE Err([v EXCEPT !.dead = TRUE])
    ELSE IF Role[s] = "init" /\ v.hs = 0 /\ m.n = 1 THEN
        \* Noise: readable only if it answers this very InitHello; then the signature over the transcript
        IF v.dead THEN Err(v)
        ELSE IF m.t = "RH" /\ m.ref = v.ih /\ (m.sig = m.key \/ "rhsig" \in Weak \/ ("purpose" \in Weak /\ m.sig = TSig(m.key)))
        THEN LET v2 == [v EXCEPT !.hs = 2, !.rh = m, !.rk = m.key]
             IN R3(v2, "hs", HsMsg(s, v2), 0)
        ELSE IF m.t = "RH" /\ m.ref = v.ih THEN Err([v EXCEPT !.dead = TRUE])
        ELSE Err(v)
    ELSE IF Role[s] = "resp" /\ v.hs = 1 /\ m.n = 2 THEN
        IF m.t = "ID" /\ m.ref = v.rh /\ (m.sig = v.rk \/ "idsig" \in Weak \/ ("idcb" \in Weak /\ m.sig = XSig(v.rk)))
        THEN LET v2 == [v EXCEPT !.hs = 3, !.idm = m, !.nout = NoncePost]
             IN R3(v2, "hs", HsMsg(s, v2), 0)
        ELSE Err(v)
    ELSE IF Role[s] = "init" /\ v.hs = 2 /\ m.n = 3 THEN
        IF m.t = "RD" /\ SameKeys(m.ref, v.rh)
        THEN LET v2 == [v EXCEPT !.hs = 4, !.nout = NoncePost, !.rdseen = TRUE]
             IN R3(v2, "hs", HsMsg(s, v2), 0)
        ELSE Err(v)
    ELSE IF (Role[s] = "init" /\ m.n % 2 = 1) \/ (Role[s] = "resp" /\ m.n % 2 = 0) THEN
        \* duplicate of a consumed message: answered with the cached reply, state unchanged
        IF \/ "parity" \in Weak
           \/ (Role[s] = "resp" /\ m.n = 0 /\ v.hs >= 1 /\ m = v.ih)
           \/ (Role[s] = "init" /\ m.n = 1 /\ v.hs >= 2 /\ m = v.rh)
           \/ (Role[s] = "resp" /\ m.n = 2 /\ v.hs >= 3 /\ m = v.idm)
           \/ (Role[s] = "init" /\ m.n = 3 /\ v.hs >= 4 /\ v.rdseen /\ m.t = "RD" /\ SameKeys(m.ref, v.rh))
        THEN R3(v, "hs", HsMsg(s, v), 0)
        ELSE Err(v)
    ELSE Err(v)

\* wireguard replay.Filter.ValidateCounter over a window
Fresh(v, n) == \/ "replay" \in Weak
               \/ /\ n \notin v.seen
                  /\ \A k \in v.seen : n > k - Window

DeliverF(s, v, m) ==
    IF m.n \in {0, 1, 2, 3} THEN ReadHandshake(s, v, m)
    ELSE IF ~CanRecv(s, v) THEN Err(v)                               \* ErrEarlyData
    ELSE IF ~(m.t = "D" /\ SameKeys(m.ref, v.rh) /\ m.dir = InDir(s)) THEN Err(v)   \* decryption failure
    ELSE IF ~Fresh(v, m.n) THEN R3(v, "drop", None, 0)               \* replayed / too old: (false, nil, nil)
    ELSE LET v2 == [v EXCEPT !.seen = @ \cup {m.n}, !.hs = 8,
                             \* an initiator completed by data re-bases its counter like readRespDone does
                             !.nout = IF v.hs = 2 THEN NoncePost ELSE @]
         IN R3(v2, "app", None, m.pt)

-----------------------------------------------------------------------------
(* Actions *)
Emit(m) == /\ net' = net \cup {m}
           /\ msgs' = IF m \in net THEN msgs ELSE Append(msgs, m)
IdOf(m) == IF m = None THEN 0 ELSE CHOOSE i \in 1..Len(msgs') : msgs'[i] = m

\* Handshake(out): the driver asks for the current handshake message and puts it on the network
Hs(s) ==
    /\ HsMsg(s, st[s]) # None
    /\ Emit(HsMsg(s, st[s]))
    /\ last' = [a |-> "hs", s |-> s, m |-> IdOf(HsMsg(s, st[s]))]
    /\ UNCHANGED <<st, forged, out, dup>>

Deliver(s, m) ==
    /\ m \in net
    /\ LET r == DeliverF(s, st[s], m) IN
       /\ st' = [st EXCEPT ![s] = r.v]
       /\ IF r.reply # None THEN Emit(r.reply) ELSE UNCHANGED <<net, msgs>>
       /\ out' = IF r.res = "app" THEN out \cup {<<s, r.pt>>} ELSE out
       /\ dup' = (dup \/ (r.res = "app" /\ <<s, r.pt>> \in out))
       /\ last' = [a |-> "deliver", s |-> s, m |-> CHOOSE i \in 1..Len(msgs) : msgs[i] = m,
                   res |-> r.res, reply |-> IdOf(r.reply), pt |-> r.pt,
                   hs |-> r.v.hs, ready |-> Ready(s, r.v), rk |-> r.v.rk]
    /\ UNCHANGED forged

\* Send (session.go:139); plaintext ids are unique per (session, ordinal)
SendPt(s, k) == SessIdx[s] * 10 + k
Send(s) ==
    /\ st[s].nsent < MaxSend
    /\ IF CanSend(s, st[s])
       THEN LET pt == SendPt(s, st[s].nsent + 1)
                m == D(s, st[s].rh, OutDir(s), st[s].nout, pt) IN
            /\ Emit(m)
            /\ st' = [st EXCEPT ![s].nout = @ + 1, ![s].nsent = @ + 1]
            /\ last' = [a |-> "send", s |-> s, ok |-> TRUE, m |-> IdOf(m), pt |-> pt, n |-> st[s].nout]
       ELSE /\ st' = [st EXCEPT ![s].nsent = @ + 1]
            /\ last' = [a |-> "send", s |-> s, ok |-> FALSE, m |-> 0, pt |-> 0, n |-> 0]
            /\ UNCHANGED <<net, msgs>>
    /\ UNCHANGED <<forged, out, dup>>

\* The attacker: holds AKey and AEph, sees every term's public parts, can open and build sealed
\* terms only for handshakes in which it owns an ephemeral.
Owns(rh) == rh.t = "RH" /\ (rh.eph = AEph \/ rh.ref.eph = AEph)
SeenIH == {m \in net : m.t = "IH"}
SeenRH == {m \in net : m.t = "RH"}
HonestKeys == {KeyOf[s] : s \in Sess}
Forgeable ==
       {IH("M", AEph, AKey, AKey)}
  \cup {IH("M", AEph, m.key, m.key) : m \in {x \in SeenIH : x.by # "M"}}          \* spliced (key, ts, sig) triple
  \cup {IH("M", e, k, "none") : e \in {AEph} \cup {m.eph : m \in SeenIH}, k \in HonestKeys}
  \cup {IH("M", m.eph, AKey, AKey) : m \in SeenIH}                                \* victim's ephemeral, own identity
  \cup {RH("M", AEph, AKey, AKey, ih) : ih \in SeenIH}                            \* answer as oneself
  \cup {RH("M", AEph, k, "none", ih) : ih \in SeenIH, k \in HonestKeys}           \* claim a victim's key
  \cup {ID("M", sg, rh) : sg \in {AKey, "none"}, rh \in {x \in SeenRH : Owns(x)}}
  \* cross-purpose reuse: the timestamp signature of an honest InitHello (sent in the clear) used as the
  \* channel-binding signature of a RespHello that claims that key
  \cup {RH("M", AEph, m.key, TSig(m.key), ih) : m \in {x \in SeenIH : x.by # "M"}, ih \in SeenIH}
  \* signature reflection: an honest responder's RespHello signature, read by the attacker because it owns the
  \* initiator ephemeral, sealed into an InitDone for a (possibly different) responder that answered the SAME InitHello
  \cup {ID("M", XSig(p[2].key), p[1]) : p \in {q \in SeenRH \X SeenRH :
            /\ q[1].ref.eph = AEph /\ q[2].ref = q[1].ref
            /\ q[2].by \in Sess /\ q[2].sig = q[2].key}}
  \cup {RD("M", rh) : rh \in {x \in SeenRH : Owns(x)}}
  \cup {D("M", rh, d, n, 90 + (n - NoncePost) + (IF d = "i2r" THEN 0 ELSE 2)) : rh \in {x \in SeenRH : Owns(x)}, d \in {"i2r", "r2i"}, n \in {NoncePost, NoncePost + 1}}
  \cup {BAD(n) : n \in {0, 1, 2, 3, NoncePost}}
Forge(m) ==
    /\ forged < MaxForge
    /\ m \in Forgeable /\ m \notin net
    /\ Emit(m)
    /\ forged' = forged + 1
    /\ last' = [a |-> "forge", m |-> IdOf(m), term |-> m]
    /\ UNCHANGED <<st, out, dup>>

Next == \/ \E s \in Sess : Hs(s)
        \/ \E s \in Sess, m \in net : Deliver(s, m)
        \/ \E s \in Sess : Send(s)
        \/ \E m \in Forgeable : Forge(m)
Spec == Init /\ [][Next]_vars

\* the reflection scenario on its own (deep in the full attacker model): initiators only emit their InitHello (the
\* attacker needs one to splice a signed identity triple from), the attacker builds InitHellos around its own
\* ephemeral and InitDones, and everything is delivered to the responders in every order
ReflectForge == {m \in Forgeable : \/ (m.t = "IH" /\ m.eph = AEph /\ m.sig = m.key) \/ m.t = "ID"
                                    \/ (m.t = "RH" /\ m.sig = TSig(m.key)) \/ m.t = "RD"}
ReflectNext == \/ \E s \in Sess : Role[s] = "init" /\ st[s].hs = 0 /\ Hs(s)
               \/ \E s \in Sess, m \in net : Role[s] = "resp" /\ Deliver(s, m)
               \* the initiators only ever see what the attacker built for them
               \/ \E s \in Sess, m \in net : Role[s] = "init" /\ m.by = "M" /\ m.t \in {"RH", "RD"} /\ Deliver(s, m)
               \/ \E m \in ReflectForge : Forge(m)
ReflectSpec == Init /\ [][ReflectNext]_vars

-----------------------------------------------------------------------------
(* Properties.  C03 *)
Usable(s, v) == Ready(s, v) \/ CanSend(s, v) \/ v.seen # {}

\* the peer proved its key for THIS handshake: the signature this session verified was made with
\* the private half of the key it reports, over this handshake's transcript
ProvedP(s, v) ==
    IF Role[s] = "init" THEN v.rh.t = "RH" /\ v.rh.sig = v.rk /\ v.rh.ref = v.ih
    ELSE v.idm.t = "ID" /\ v.idm.sig = v.rk /\ v.idm.ref = v.rh
AuthBeforeUse == \A s \in Sess : Usable(s, st[s]) => ProvedP(s, st[s])

\* a session reporting an honest key as authenticated has an honest partner in the same handshake
Partner(s, p) == /\ Role[s] # Role[p]
                 /\ st[s].rh # None /\ st[s].rh = st[p].rh
Agreement == \A s \in Sess : (Usable(s, st[s]) /\ st[s].rk \in HonestKeys) =>
                 \E p \in Sess : KeyOf[p] = st[s].rk /\ Partner(s, p)
HonestPair == \A s, p \in Sess : (Partner(s, p) /\ Ready(s, st[s]) /\ Ready(p, st[p])) =>
                 (st[s].rk = KeyOf[p] /\ st[p].rk = KeyOf[s])

(* C02 at session level *)
Authentic == \A x \in out : \E m \in net : /\ m.t = "D" /\ m.pt = x[2] /\ m.by \in Sess \cup {"M"}
                                           /\ SameKeys(m.ref, st[x[1]].rh) /\ m.dir = InDir(x[1])
                                           /\ (m.by \in Sess => Partner(x[1], m.by))
                                           /\ (m.by = "M" => st[x[1]].rk = AKey)
AtMostOnce == ~dup
\* no two sealed records under one key (handshake, direction) and counter
Sealed == {m \in net : m.t \in {"ID", "RD", "D"} /\ m.by \in Sess}
NonceUnique == \A a, b \in Sealed : (a.ref = b.ref /\ a.dir = b.dir /\ a.n = b.n /\ a.by = b.by) => a = b
DataCountersHigh == \A m \in Sealed : m.t = "D" => m.n >= NoncePost

(* C06 (meaningful in the genuine-only configuration) *)
Monotone == [][\A s \in Sess : st'[s].hs >= st[s].hs]_vars

\* deliver X's current handshake message to Y; returns Y's new state (or unchanged)
Step(x, vx, y, vy) == LET m == HsMsg(x, vx) IN IF m = None THEN vy ELSE DeliverF(y, vy, m).v
SettlePair(i, r) ==
    LET r1 == Step(i, st[i], r, st[r])
        i1 == Step(r, r1, i, st[i])
        r2 == Step(i, i1, r, r1)
        i2 == Step(r, r2, i, i1)
    IN <<i2, r2>>
\* for an honest pair on the same handshake (or fresh), one more in-sequence exchange makes both ready
SameOrFresh(i, r) == /\ ~st[i].dead /\ ~st[r].dead
                     /\ \/ st[r].hs = 0
                        \/ st[r].ih = st[i].ih
NoPermanentFailure ==
    \A i, r \in Sess : (Role[i] = "init" /\ Role[r] = "resp" /\ SameOrFresh(i, r)) =>
        LET p == SettlePair(i, r) IN Ready(i, p[1]) /\ Ready(r, p[2])
DataFlows ==
    \A i, r \in Sess : (Role[i] = "init" /\ Role[r] = "resp" /\ SameOrFresh(i, r)) =>
        LET p == SettlePair(i, r)
            mi == D(i, p[1].rh, "i2r", p[1].nout, 77)
            mr == D(r, p[2].rh, "r2i", p[2].nout, 78)
        IN /\ DeliverF(r, p[2], mi).res = "app"
           /\ DeliverF(i, p[1], mr).res = "app"

TypeOK == /\ \A s \in Sess : st[s].hs \in {0, 1, 2, 3, 4, 8}
          /\ forged \in 0..MaxForge
=============================================================================
