SPECIFICATION CoverSpec
CONSTANTS
  Sess <- Pair
  Role <- PairRole
  KeyOf <- PairKey
  EphOf <- PairEph
  SessIdx <- PairIdx
  MaxForge = 0
  MaxSend = 3
  Window = 1000
  Weak = {}
  MaxSteps = 0
VIEW view
INVARIANTS DumpEvery
CHECK_DEADLOCK FALSE
