------------------------------- MODULE MuxGen -------------------------------
(* Case generator for harness/cmd/muxreplay: every case of Mux.tla printed as JSON.        *)
(* Integer channel ids are printed as the list of their one bits, string ids as byte lists. *)
EXTENDS Mux, Json
Dump == PrintT(ToJson(<<"CASE", [cls |-> cs.cls, kind |-> cs.kind, open |-> cs.open, c |-> cs.c, x |-> cs.x, op |-> cs.op]>>))
=============================================================================
