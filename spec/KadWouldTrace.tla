---------------------------- MODULE KadWouldTrace ----------------------------
(* Binds KadWould.tla to the real kademlia.Cache (funcreplay -mode would): each log line holds the *)
(* projection of the real cache after a prefix of a KadCache behaviour (contents, len(buckets),    *)
(* count), AcceptingPrefixLen, and per key of the universe WouldPut / WouldAdd and what Put(k) did  *)
(* on a fresh cache in the same state (with a newest and with an oldest CreatedAt).                 *)
(*   VIOL   an operator of KadWould is false on the observation (WouldPutAgrees/under-min and      *)
(*          /zero-cap are the two recorded corners of the documented law)                          *)
(*   DRIFT  the observation differs from the as-coded operators (WouldPutC, AcceptC, PutOutcomesC)  *)
EXTENDS MC_KadWould, Json, IOUtils

Log == ndJsonDeserialize(IOEnv.TRACE)
VARIABLES l
tvars == <<vars, l>>

ToSet(s) == {s[j] : j \in 1..Len(s)}
LogEnts(ev) == LET S == ToSet(ev.ents) IN
    [k \in {d.k : d \in S} |-> LET d == CHOOSE d \in S : d.k = k IN [v |-> 1, c |-> d.c, e |-> 0]]
Out(o) == [hasEv |-> o.hasEv, ev |-> o.ev, added |-> o.added, stored |-> o.stored]

ProbeViol(ev, E, p) ==
    LET n == ev.nb  c == ev.count  mx == ev.max  mn == ev.min  k == p.k  w == p.w  a == ev.a
        outs == {Out(p.new), Out(p.old)}
    IN {nm \in {"RoomAgrees", "PresentAgrees", "NewBucketAgrees", "FartherEvicts", "OwnBucket", "AcceptSound",
                "AcceptIsEvictBucket", "AcceptImpliesWould", "WouldAdd", "WouldPutYesStores", "WouldPutComplete",
                "WouldPutAgrees/under-min", "WouldPutAgrees/zero-cap"} :
        CASE nm = "RoomAgrees" -> ~RoomAgreesP(E, n, c, mx, mn, k, w, outs)
          [] nm = "PresentAgrees" -> ~PresentAgreesP(E, n, c, mx, mn, k, w, outs)
          [] nm = "NewBucketAgrees" -> ~NewBucketAgreesP(E, n, c, mx, mn, k, w, outs)
          [] nm = "FartherEvicts" -> ~FartherEvictsP(E, n, c, mx, mn, k, outs)
          [] nm = "OwnBucket" -> ~OwnBucketP(E, n, c, mx, mn, k, outs)
          [] nm = "AcceptSound" -> ~AcceptSoundP(E, n, c, mx, mn, k, a, outs)
          [] nm = "AcceptIsEvictBucket" -> ~AcceptIsEvictBucketP(E, n, c, mx, mn, k, a, outs)
          [] nm = "WouldAdd" -> ~WouldAddP(E, n, k, w, p.wa)
          [] nm = "AcceptImpliesWould" -> mx > 0 /\ k \notin DOMAIN E /\ Bucket(k) >= a /\ ~w
          \* the documented law: yes => stored (whatever the CreatedAt); no => not stored for a Put whose
          \* CreatedAt is the newest (what a caller's Put(now) is), outside the two recorded corners
          [] nm = "WouldPutYesStores" -> ~WouldPutSoundP(mx, w, outs)
          [] nm = "WouldPutComplete" -> ~WouldPutCompleteP(E, n, c, mx, mn, k, w, {Out(p.new)})
          [] nm = "WouldPutAgrees/under-min" -> ~w /\ p.new.stored /\ UnderMin(E, n, c, mx, mn, k)
          [] nm = "WouldPutAgrees/zero-cap" -> w /\ mx = 0 /\ ~p.new.stored}
ProbeDrift(ev, E, p) ==
    LET n == ev.nb  c == ev.count  mx == ev.max  mn == ev.min IN
    {nm \in {"WouldPutC", "PutOutcomesC"} :
        CASE nm = "WouldPutC" -> p.w # WouldPutC(E, n, c, mx, mn, p.k)
          [] nm = "PutOutcomesC" -> \/ Out(p.new) \notin PutOutcomesC(E, n, c, mx, mn, p.k, 9)
                                    \/ Out(p.old) \notin PutOutcomesC(E, n, c, mx, mn, p.k, 1)}

Viol(ev) == IF ev.panic THEN {"NoPanic"}
            ELSE LET E == LogEnts(ev) IN UNION {ProbeViol(ev, E, ev.probes[j]) : j \in 1..Len(ev.probes)}
Drift(ev) == IF ev.panic THEN {}
             ELSE LET E == LogEnts(ev) IN
                  UNION {ProbeDrift(ev, E, ev.probes[j]) : j \in 1..Len(ev.probes)}
                  \cup (IF ev.a # AcceptC(E, ev.nb, ev.count, ev.max, ev.min) THEN {"AcceptC"} ELSE {})
                  \cup (IF ev.count # Cardinality(DOMAIN E) THEN {"Count"} ELSE {})

TraceInit == /\ l = 1 /\ cmax = 0 /\ cmin = 0 /\ ents = <<>> /\ nb = 0 /\ count = 0
             /\ minExp = <<>> /\ panicked = FALSE /\ last = NoRes /\ nops = 0
TraceNext == /\ l <= Len(Log)
             /\ l' = l + 1
             /\ LET vs == Viol(Log[l]) IN (vs # {}) => PrintT(ToJson(<<"VIOL", l, Log[l].id, vs>>))
             /\ LET ds == Drift(Log[l]) IN (ds # {}) => PrintT(ToJson(<<"DRIFT", l, Log[l].id, ds>>))
             /\ UNCHANGED vars
TraceSpec == TraceInit /\ [][TraceNext]_tvars
AllConsumed == TLCGet("distinct") >= Len(Log) + 1
=============================================================================
