SPECIFICATION Spec
CONSTANTS
  N = 4
  Ops <- AllOps
  Initials <- Init3
  Replies <- McReplies
  Mins <- MinsAll
  ValClasses = {0, 1, 3}
  VModes = {1, 2}
  Dists <- TieDists4
  Orig = FALSE
INVARIANTS AtMostOnce NoPanic Terminates ClosestTruthful ValueFromContacted AcceptedDistinct ErrIffBelowMin
CHECK_DEADLOCK TRUE
