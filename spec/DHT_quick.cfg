SPECIFICATION Spec
CONSTANTS
  N = 4
  Ops <- AllOps
  Initials <- Init3
  Replies <- AllReplies
  Mins <- MinsAll
  Orig = FALSE
INVARIANTS AtMostOnce NoPanic Terminates ClosestTruthful ValueFromContacted AcceptedDistinct ErrIffBelowMin QueueSorted
CHECK_DEADLOCK TRUE
