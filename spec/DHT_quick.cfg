SPECIFICATION Spec
CONSTANTS
  N = 4
  Ops <- AllOps
  Initials <- Init3
  Replies <- McReplies
  Mins <- MinsAll
  ValClasses = {0, 1, 2, 3}
  VModes = {1, 2}
  Orig = FALSE
INVARIANTS AtMostOnce NoPanic Terminates ClosestTruthful ValueFromContacted AcceptedDistinct ErrIffBelowMin QueueSorted
CHECK_DEADLOCK TRUE
