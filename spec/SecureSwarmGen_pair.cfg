SPECIFICATION GenSpec
CONSTANTS
  Kinds <- AllKinds
  WLA <- AllWL
  WLB <- AllWL
  Weak <- NoWeak
  MaxConn = 3
  MaxSend = 4
  MaxAdv = 9
  CacheMax = 16
  Extras = {}
  Asks = {FALSE, TRUE}
  Fam = "pair"
  Depth = 0
  DepthAtomic = 0
  MaxSteps = 8
CHECK_DEADLOCK FALSE
