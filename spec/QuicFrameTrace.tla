--------------------------- MODULE QuicFrameTrace ---------------------------
(* Binds QuicFrame.tla to the real writeFrame / readFrame: each log line (wirereplay -mode frame) is   *)
(* one executed case.  kind "rw": writeFrame of the segments into a buffer, then readFrame from a      *)
(* reader over (a cut of) those bytes; kind "w": writeFrame into a writer that fails after wcut bytes. *)
(* VIOL: a law of QuicFrame is false on the observation.  DRIFT: the observation differs from Read.   *)
EXTENDS Integers, Sequences, FiniteSets, TLC, Json, IOUtils

QF == INSTANCE QuicFrame WITH MaxSeg <- 0, MaxSegs <- 0, MaxTotal <- 0,
                              segs <- 0, maxLen <- 0, dst <- 0, cut <- 0, fail <- 0, mode <- 0, extra <- 0

Log == ndJsonDeserialize(IOEnv.TRACE)
VARIABLES l

Obs(ev) == [n |-> ev.n, err |-> ev.err, consumed |-> ev.consumed]
\* dst[:n] is the first n bytes of the concatenation (the harness compares all of it, TLC the first 16 bytes)
OutOK(ev) == /\ ev.outeq
             /\ ev.n >= 0
             /\ ev.out = SubSeq(QF!Data(QF!Min(16, ev.total)), 1, QF!Min(16, ev.n))
             /\ ev.exp = QF!Data(QF!Min(16, ev.total))

Viol(ev) ==
    IF ev.panic THEN {"NoPanic"} ELSE
    CASE ev.kind = "rw" ->
           LET o == Obs(ev)
               t == ev.total
               ok == OutOK(ev) IN
           {n \in {"RoundTrip", "NoTruncatedSuccess", "TooBigIsError", "ShortReadIsError", "ShortDstIsError",
                   "ExactConsumption", "NoOverrun", "WireForm"} :
               CASE n = "RoundTrip" -> ~QF!RoundTripP(t, ev.extra, ev.maxLen, ev.dst, ev.cut, o, ok)
                 [] n = "NoTruncatedSuccess" -> ~QF!NoTruncatedSuccessP(t, o, ok)
                 [] n = "TooBigIsError" -> ~QF!TooBigIsErrorP(t, ev.maxLen, o)
                 [] n = "ShortReadIsError" -> ~QF!ShortReadIsErrorP(t, ev.extra, ev.cut, o)
                 [] n = "ShortDstIsError" -> ~QF!ShortDstIsErrorP(t, ev.dst, o)
                 [] n = "ExactConsumption" -> ~QF!ExactConsumptionP(t, o)
                 [] n = "NoOverrun" -> ~QF!NoOverrunP(ev.dst, o, ev.tailok, ev.guardok)
                 [] n = "WireForm" -> ~(ev.werr = "none" /\ ev.wireok /\ ev.segskept /\ QF!WireFormP(t, ev.wire, ev.wirelen))}
      [] ev.kind = "w" ->
           {n \in {"WriteError"} : ~QF!WriteErrorP(ev.total, ev.wcut, ev.werr, ev.wirelen, ev.wireok)}
      [] OTHER -> {}

Drift(ev) ==
    IF ev.panic \/ ev.kind # "rw" THEN {} ELSE
    {n \in {"Read"} : Obs(ev) # QF!Read(ev.total, ev.extra, ev.maxLen, ev.dst, ev.cut, ev.fail)}

TraceInit == l = 1
TraceNext == /\ l <= Len(Log)
             /\ l' = l + 1
             /\ LET vs == Viol(Log[l]) IN (vs # {}) => PrintT(ToJson(<<"VIOL", l, Log[l].id, vs>>))
             /\ LET ds == Drift(Log[l]) IN (ds # {}) => PrintT(ToJson(<<"DRIFT", l, Log[l].id, ds>>))
TraceSpec == TraceInit /\ [][TraceNext]_l
AllConsumed == TLCGet("distinct") >= Len(Log) + 1
=============================================================================
