---------------------------- MODULE ChannelTime ----------------------------
(***************************************************************************)
(* Time-dependent behaviour of an ESTABLISHED p2pke.Channel pair over a    *)
(* reliable network: keep-alive expiry, rekey-by-time and reject-by-age    *)
(* (channel.go expireSessions / onRekey / lastReceived), in discrete ticks *)
(* (one tick = one traffic period).  Handshakes are instantaneous here     *)
(* (their interleavings are Channel.tla's business); what this model       *)
(* decides is HOW OFTEN a handshake is started and whether a sender is     *)
(* ever left without a usable session.                                     *)
(*                                                                         *)
(* After the traffic a case may go silent until every session has expired,  *)
(* and then either the same peer resumes (C07: a new handshake, traffic    *)
(* flows) or a party with another acceptable key takes the peer's place    *)
(* (C05: the binding outlives the sessions, nothing is exchanged with it). *)
(*                                                                         *)
(* Case generator + oracle: every (K, R, J, pattern) of the configuration  *)
(* is one behaviour; harness/cmd/chanreplay -timed runs the same traffic   *)
(* pattern on two real channels with K, R, J scaled to milliseconds and    *)
(* ChannelTimeTrace checks the observed InitHello count against MaxHellos  *)
(* and that every Send returned.                                           *)
(***************************************************************************)
EXTENDS Naturals, Sequences, FiniteSets, TLC, Json

CONSTANTS Ks, Rs, Js,       \* sets of keep-alive / rekey / reject intervals, in ticks
          Patterns,         \* subset of {"both", "a2b", "b2a"}
          Horizon,          \* number of ticks of traffic
          Posts             \* what follows the traffic: subset of {"none", "stranger"}

Ch == {"a", "b"}
Peer(c) == IF c = "a" THEN "b" ELSE "a"

VARIABLES K, R, J, pat, post, \* the case
          bound,            \* [Ch -> key the channel is bound to]: set by the first ready session, NEVER reset
          phase,            \* "traffic" | "silent" | "waiting" | "end"
          strangerIn,       \* a handshake with a party holding another (acceptable) key completed
          t,
          est,              \* a current session exists
          created,          \* tick at which the current session was created
          initSide,         \* who initiated it (that side owns the rekey timer)
          lastRecv,         \* [Ch -> tick of the last authenticated receive through the current session]
          hellos,           \* InitHellos started so far
          failed            \* a Send found no session and could not get one (never, with instantaneous handshakes)
vars == <<K, R, J, pat, post, bound, phase, strangerIn, t, est, created, initSide, lastRecv, hellos, failed>>
KeyOf(c) == IF c = "a" THEN "A" ELSE "B"

Senders == IF pat = "both" THEN Ch ELSE IF pat = "a2b" THEN {"a"} ELSE {"b"}

Init == /\ K \in Ks /\ R \in Rs /\ J \in Js /\ pat \in Patterns /\ post \in Posts
        /\ bound = [c \in Ch |-> "none"] /\ phase = "traffic" /\ strangerIn = FALSE
        /\ K < J /\ R < J
        /\ t = 0 /\ est = FALSE /\ created = 0 /\ initSide = "a"
        /\ lastRecv = [c \in Ch |-> 0] /\ hellos = 0 /\ failed = FALSE

\* a handshake started by c at tick t (instantaneous): onReadySession sets lastReceived on both sides
Handshake(c) == /\ est' = TRUE /\ created' = t /\ initSide' = c
                /\ bound' = [x \in Ch |-> IF bound[x] = "none" THEN KeyOf(Peer(x)) ELSE bound[x]]
                /\ lastRecv' = [x \in Ch |-> t] /\ hellos' = hellos + 1

\* expireSessions as seen by endpoint c at tick t
Expired(c) == est /\ (t - created >= J \/ t - lastRecv[c] > K)

\* one tick: the rekey timer of the initiating side, then every sender sends one message
Step ==
    /\ t < Horizon /\ phase = "traffic"
    /\ t' = t + 1
    /\ LET rekeyDue == est /\ t - created >= R
           \* the first sender (if any) that finds its session expired re-initiates
           needy == {c \in Senders : ~est \/ Expired(c)}
       IN IF rekeyDue /\ ~Expired(initSide)
          THEN Handshake(initSide)
          ELSE IF needy # {}
          THEN Handshake(IF "a" \in needy THEN "a" ELSE "b")
          ELSE /\ lastRecv' = [x \in Ch |-> IF Peer(x) \in Senders THEN t ELSE lastRecv[x]]
               /\ UNCHANGED <<est, created, initSide, hellos, bound>>
    /\ UNCHANGED <<K, R, J, pat, post, phase, strangerIn, failed>>

\* after the traffic: nothing is sent or received for longer than the reject interval - every session of both
\* endpoints expires (expireSessions drops previous, current and prospective alike); the binding stays
Silence ==
    /\ t = Horizon /\ phase = "traffic" /\ post \in {"stranger", "resume", "pending"}
    /\ phase' = "silent" /\ t' = t + J + K + 1 /\ est' = FALSE
    /\ UNCHANGED <<K, R, J, pat, post, bound, strangerIn, created, initSide, lastRecv, hellos, failed>>
\* then a party with ANOTHER key, which AcceptKey would accept, takes the peer's place and both sides try to
\* handshake and send: checkKey compares with the bound key, so no session with it ever becomes ready
CheckKey(c, k) == IF bound[c] # "none" THEN bound[c] = k ELSE TRUE
Stranger ==
    /\ phase = "silent" /\ post = "stranger"
    /\ phase' = "end"
    /\ strangerIn' = CheckKey("a", "C")
    /\ UNCHANGED <<K, R, J, pat, post, bound, t, est, created, initSide, lastRecv, hellos, failed>>

\* or the same peer resumes: the first Send finds no session, initiates, and traffic flows again
Resume ==
    /\ phase = "silent" /\ post = "resume"
    /\ phase' = "end"
    /\ Handshake("a")
    /\ UNCHANGED <<K, R, J, pat, post, strangerIn, t, failed>>

\* or a Send is ENTERED while the outage still lasts (no session left: it initiates and waits), the outage goes on
\* for more than two reject intervals (the prospective session expires under the waiting Send, more than once), then
\* the network heals: that very Send completes after a handshake - nobody has to call Send again
PendingOutage ==
    /\ phase = "silent" /\ post = "pending"
    /\ phase' = "waiting" /\ t' = t + 2 * J + 2
    /\ UNCHANGED <<K, R, J, pat, post, bound, strangerIn, est, created, initSide, lastRecv, hellos, failed>>
Heal ==
    /\ phase = "waiting"
    /\ phase' = "end"
    /\ Handshake("a")
    /\ UNCHANGED <<K, R, J, pat, post, strangerIn, t, failed>>

Spec == Init /\ [][Step \/ Silence \/ Stranger \/ Resume \/ PendingOutage \/ Heal]_vars
\* C05: the key a channel talks to never changes, however long it was silent
ContinuityT == ~strangerIn /\ \A c \in Ch : bound[c] \in {"none", KeyOf(Peer(c))}

\* the number of handshakes a healthy pair needs up to tick t: the first one, one per rekey interval,
\* and - only when an endpoint never RECEIVES anything - one per keep-alive interval
Div(a, b) == a \div b
MaxHellosAt(tt) == 1 + Div(tt, R) + (IF pat = "both" THEN 0 ELSE Div(tt, K) + 1)
NoIdleTeardown == (phase = "traffic") => hellos <= MaxHellosAt(t)
NeverWithoutSession == ~failed

Dump == (t = Horizon /\ phase = "traffic") =>
           PrintT(ToJson(<<"CASE", [K |-> K, R |-> R, J |-> J, pat |-> pat, horizon |-> Horizon, post |-> post,
                                    hellos |-> hellos, maxhellos |-> MaxHellosAt(Horizon)]>>))
=============================================================================
