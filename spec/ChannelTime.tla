---------------------------- MODULE ChannelTime ----------------------------
(***************************************************************************)
(* Time-dependent behaviour of an ESTABLISHED p2pke.Channel pair over a    *)
(* reliable network: keep-alive expiry, rekey-by-time and reject-by-age    *)
(* (channel.go expireSessions / onRekey / lastReceived), in discrete ticks *)
(* (one tick = one traffic period).  Handshakes are instantaneous here     *)
(* (their interleavings are Channel.tla's business); what this model       *)
(* decides is HOW OFTEN a handshake is started and whether a sender is     *)
(* ever left without a usable session.                                     *)
(*                                                                         *)
(* Case generator + oracle: every (K, R, J, pattern) of the configuration  *)
(* is one behaviour; harness/cmd/chanreplay -timed runs the same traffic   *)
(* pattern on two real channels with K, R, J scaled to milliseconds and    *)
(* ChannelTimeTrace checks the observed InitHello count against MaxHellos  *)
(* and that every Send returned.                                           *)
(***************************************************************************)
EXTENDS Naturals, Sequences, FiniteSets, TLC, Json

CONSTANTS Ks, Rs, Js,       \* sets of keep-alive / rekey / reject intervals, in ticks
          Patterns,         \* subset of {"both", "a2b", "b2a"}
          Horizon           \* number of ticks of traffic

Ch == {"a", "b"}
Peer(c) == IF c = "a" THEN "b" ELSE "a"

VARIABLES K, R, J, pat,     \* the case
          t,
          est,              \* a current session exists
          created,          \* tick at which the current session was created
          initSide,         \* who initiated it (that side owns the rekey timer)
          lastRecv,         \* [Ch -> tick of the last authenticated receive through the current session]
          hellos,           \* InitHellos started so far
          failed            \* a Send found no session and could not get one (never, with instantaneous handshakes)
vars == <<K, R, J, pat, t, est, created, initSide, lastRecv, hellos, failed>>

Senders == IF pat = "both" THEN Ch ELSE IF pat = "a2b" THEN {"a"} ELSE {"b"}

Init == /\ K \in Ks /\ R \in Rs /\ J \in Js /\ pat \in Patterns
        /\ K < J /\ R < J
        /\ t = 0 /\ est = FALSE /\ created = 0 /\ initSide = "a"
        /\ lastRecv = [c \in Ch |-> 0] /\ hellos = 0 /\ failed = FALSE

\* a handshake started by c at tick t (instantaneous): onReadySession sets lastReceived on both sides
Handshake(c) == /\ est' = TRUE /\ created' = t /\ initSide' = c
                /\ lastRecv' = [x \in Ch |-> t] /\ hellos' = hellos + 1

\* expireSessions as seen by endpoint c at tick t
Expired(c) == est /\ (t - created >= J \/ t - lastRecv[c] > K)

\* one tick: the rekey timer of the initiating side, then every sender sends one message
Step ==
    /\ t < Horizon
    /\ t' = t + 1
    /\ LET rekeyDue == est /\ t - created >= R
           \* the first sender (if any) that finds its session expired re-initiates
           needy == {c \in Senders : ~est \/ Expired(c)}
       IN IF rekeyDue /\ ~Expired(initSide)
          THEN Handshake(initSide)
          ELSE IF needy # {}
          THEN Handshake(IF "a" \in needy THEN "a" ELSE "b")
          ELSE /\ lastRecv' = [x \in Ch |-> IF Peer(x) \in Senders THEN t ELSE lastRecv[x]]
               /\ UNCHANGED <<est, created, initSide, hellos>>
    /\ UNCHANGED <<K, R, J, pat, failed>>

Spec == Init /\ [][Step]_vars

\* the number of handshakes a healthy pair needs up to tick t: the first one, one per rekey interval,
\* and - only when an endpoint never RECEIVES anything - one per keep-alive interval
Div(a, b) == a \div b
MaxHellosAt(tt) == 1 + Div(tt, R) + (IF pat = "both" THEN 0 ELSE Div(tt, K) + 1)
NoIdleTeardown == hellos <= MaxHellosAt(t)
NeverWithoutSession == ~failed

Dump == (t = Horizon) => PrintT(ToJson(<<"CASE", [K |-> K, R |-> R, J |-> J, pat |-> pat, horizon |-> Horizon,
                                               hellos |-> hellos, maxhellos |-> MaxHellosAt(Horizon)]>>))
=============================================================================
