-------------------------- MODULE MbappBitmapTrace --------------------------
(* Binds MbappBitmap.tla to the real mbapp.bitMap (timerreplay -mode bitmap): one event per model     *)
(* state (n, S): the bitmap built by newBitMap(n) and set(i, true) for i in S, its len, buffer, every *)
(* get, allSet, get out of range, and for every i in -1..n and v the result of one more set(i, v).    *)
(* VIOL: a law about the abstract meaning is false.  DRIFT: the bytes differ from the as-coded model. *)
EXTENDS Integers, Sequences, FiniteSets, TLC, Json, IOUtils
BM == INSTANCE MbappBitmap WITH MaxN <- 0, MaxOps <- 0, n <- 0, buf <- <<>>, abs <- {}, nops <- 0, panicked <- FALSE
Log == ndJsonDeserialize(IOEnv.TRACE)
VARIABLES l
SetOf(seq) == {seq[j] : j \in DOMAIN seq}
GetsOf(k, S) == [j \in 1..k |-> (j - 1) \in S]
AsSeq(b, k) == [j \in 1..BM!BufLen(k) |-> b[j - 1]]
After(S, i, v) == IF v THEN S \cup {i} ELSE S \ {i}
Viol(ev) ==
    LET S == SetOf(ev.s) IN
    IF ev.broken # "" THEN {"NoPanicInRange"} ELSE
    {nm \in {"LenIs", "GetMeansMember", "AllSetIff", "OutOfRangePanics", "SetThenGet", "SetThenAllSet", "NoPanicInRange"} :
      CASE nm = "LenIs" -> ev.len # ev.n
        [] nm = "GetMeansMember" -> ev.gets # GetsOf(ev.n, S)
        [] nm = "AllSetIff" -> ev.allSet # (S = 0..(ev.n - 1))
        [] nm = "OutOfRangePanics" -> (\E j \in DOMAIN ev.oorPanic : ~ev.oorPanic[j])
                                      \/ \E j \in DOMAIN ev.sets : (ev.sets[j].i < 0 \/ ev.sets[j].i >= ev.n) /\
                                            (~ev.sets[j].panic \/ ev.sets[j].gets # ev.gets)
        [] nm = "NoPanicInRange" -> \E j \in DOMAIN ev.sets : ev.sets[j].i \in 0..(ev.n - 1) /\ ev.sets[j].panic
        [] nm = "SetThenGet" -> \E j \in DOMAIN ev.sets : LET r == ev.sets[j] IN
                                   r.i \in 0..(ev.n - 1) /\ ~r.panic /\ r.gets # GetsOf(ev.n, After(S, r.i, r.v))
        [] nm = "SetThenAllSet" -> \E j \in DOMAIN ev.sets : LET r == ev.sets[j] IN
                                   r.i \in 0..(ev.n - 1) /\ ~r.panic /\ r.allSet # (After(S, r.i, r.v) = 0..(ev.n - 1))}
Drift(ev) ==
    LET S == SetOf(ev.s)
        b0 == BM!BufOf(ev.n, S) IN
    IF ev.broken # "" THEN {} ELSE
    {nm \in {"Buf", "SetBuf"} :
      CASE nm = "Buf" -> ev.buf # AsSeq(b0, ev.n)
        [] nm = "SetBuf" -> \E j \in DOMAIN ev.sets : LET r == ev.sets[j] IN
                               r.i \in 0..(ev.n - 1) /\ r.buf # AsSeq(BM!SetB(b0, r.i, r.v), ev.n)}
TraceInit == l = 1
TraceNext == /\ l <= Len(Log) /\ l' = l + 1
             /\ LET vs == Viol(Log[l]) IN (vs # {}) => PrintT(ToJson(<<"VIOL", l, Log[l].id, vs>>))
             /\ LET ds == Drift(Log[l]) IN (ds # {}) => PrintT(ToJson(<<"DRIFT", l, Log[l].id, ds>>))
TraceSpec == TraceInit /\ [][TraceNext]_l
AllConsumed == TLCGet("distinct") >= Len(Log) + 1
=============================================================================
