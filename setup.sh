#!/bin/sh
# Offline setup: parse every specification with SANY and warm the Go build cache for the harness.
set -e
cd "$(dirname "$0")"
export GOFLAGS=-mod=mod GOPROXY=off GOSUMDB=off GOTOOLCHAIN=local
cp /repo/go.sum harness/go.sum
(cd harness && go build -tags verif ./... )
chmod +x check
echo setup ok
