// Package netsim is a harness-owned inner transport for the layers under verification
// (fragswarm, mbapp, p2pmux, ...).  A Node implements p2p.SecureAskSwarm[Addr, string]; TellOnly
// hides the Ask half.  A Node
//
//   - has a configurable MTU and is itself honest about it (a Tell or Ask above the MTU is
//     refused with p2p.ErrMTUExceeded, nothing is captured);
//   - captures every Tell / Ask the layer above emits (Take returns the captured packets);
//   - hands packets chosen by the driver to the layer's Receive / ServeAsk callers: Feed blocks
//     until one Receive caller has taken the packet and its callback has returned; WaitIdle blocks
//     until every receive worker of the layer is parked in Receive again, i.e. the layer has
//     finished processing everything fed so far (deterministic, one packet at a time), and
//     several Feed calls from different goroutines race for real (Direction B);
//   - in loop mode (Net.Loop) forwards every Tell / Ask to the destination node by itself, so
//     that two stacks built on two nodes of one Net talk to each other;
//   - is the most hostile LEGAL inner swarm with respect to buffer ownership (p2p.Receiver: the
//     message may be used until fn returns): every Receive / ServeAsk callback gets a private
//     scratch copy of the packet which is OVERWRITTEN as soon as the callback returns, with the
//     bytes of the previous, different packet delivered to the node (a valid-looking fragment of
//     another message) padded with 0xEE.  A layer that keeps an alias of the payload therefore
//     delivers foreign bytes, which the trace operators report.
//
// The implementation deliberately shares no code with /repo (no swarmutil hubs).
package netsim

import (
	"context"
	"errors"
	"strconv"
	"sync"
	"time"

	"go.brendoncarroll.net/p2p"
)

// Addr is the address of a Node: a small integer.
type Addr struct {
	N int
}

func (a Addr) MarshalText() ([]byte, error) { return []byte("n" + strconv.Itoa(a.N)), nil }
func (a Addr) String() string               { return "n" + strconv.Itoa(a.N) }

func ParseAddr(x []byte) (Addr, error) {
	if len(x) < 2 || x[0] != 'n' {
		return Addr{}, errors.New("netsim: bad address")
	}
	n, err := strconv.Atoi(string(x[1:]))
	if err != nil {
		return Addr{}, err
	}
	return Addr{N: n}, nil
}

// Packet is one captured or injected message.
type Packet struct {
	Src, Dst Addr
	Data     []byte
	IsAsk    bool
	// Seq is the capture order within the Net (1, 2, ...)
	Seq int
}

// Net is a set of nodes sharing an MTU.
type Net struct {
	mtu int
	// Loop makes Tell / Ask deliver to the destination node automatically.
	Loop bool
	// AskReply is what a non-loop Ask returns to the layer (after capturing the request).
	AskReply []byte

	mu    sync.Mutex
	nodes map[int]*Node
	seq   int
}

func NewNet(mtu int) *Net {
	return &Net{mtu: mtu, nodes: map[int]*Node{}}
}

func (n *Net) MTU() int { return n.mtu }

// Node returns (creating it if needed) node i.
func (n *Net) Node(i int) *Node {
	n.mu.Lock()
	defer n.mu.Unlock()
	if nd, ok := n.nodes[i]; ok {
		return nd
	}
	nd := &Node{net: n, addr: Addr{N: i}, closed: make(chan struct{}), tells: make(chan *tellReq), asks: make(chan *askReq)}
	nd.cond = sync.NewCond(&nd.mu)
	n.nodes[i] = nd
	return nd
}

func (n *Net) lookup(a Addr) *Node {
	n.mu.Lock()
	defer n.mu.Unlock()
	return n.nodes[a.N]
}

func (n *Net) nextSeq() int {
	n.mu.Lock()
	defer n.mu.Unlock()
	n.seq++
	return n.seq
}

type tellReq struct {
	pkt  Packet
	done chan struct{}
}

type askReq struct {
	pkt  Packet
	resp []byte
	n    int
	done chan struct{}
}

// Node is one endpoint. It implements p2p.SecureAskSwarm[Addr, string].
type Node struct {
	net  *Net
	addr Addr

	tells chan *tellReq
	asks  chan *askReq

	closeOnce sync.Once
	closed    chan struct{}

	mu        sync.Mutex
	cond      *sync.Cond
	out       []Packet
	parked    int    // Receive callers currently waiting for a packet
	parkedAsk int    // ServeAsk callers currently waiting for a request
	entered   int    // total Receive entries
	taken     int    // total packets handed to Receive callers
	prev      []byte // the previous packet handed to a callback of this node (poison source)
}

// Poison overwrites buf (a scratch copy whose callback has returned) with the bytes of the previous,
// different packet of the node, padded with 0xEE, and remembers orig as the next poison source.
func (nd *Node) poison(buf, orig []byte) {
	nd.mu.Lock()
	prev := nd.prev
	if !bytesEqual(prev, orig) {
		nd.prev = orig
	}
	nd.mu.Unlock()
	Poison(buf, prev)
}

// Scribble overwrites a payload the harness' own callback was handed (0xA5).  p2p.Receiver: "All of the
// message's fields may be modified inside fn. A message is only ever delivered to one place": the top-level
// Receive callbacks and ServeAsk handlers of the replayers use that right just before they return, so that a
// layer which hands the same buffer to a second callback, or reads it again later, delivers 0xA5 bytes.
func Scribble(buf []byte) {
	for i := range buf {
		buf[i] = 0xA5
	}
}

// Poison fills buf with src (if any) followed by 0xEE bytes.
func Poison(buf, src []byte) {
	n := copy(buf, src)
	for i := n; i < len(buf); i++ {
		buf[i] = 0xEE
	}
}

func bytesEqual(a, b []byte) bool {
	if len(a) != len(b) {
		return false
	}
	for i := range a {
		if a[i] != b[i] {
			return false
		}
	}
	return true
}

var _ p2p.SecureAskSwarm[Addr, string] = &Node{}

func (nd *Node) Addr() Addr { return nd.addr }

// ---- p2p.Swarm

func (nd *Node) Tell(ctx context.Context, dst Addr, v p2p.IOVec) error {
	if nd.isClosed() {
		return p2p.ErrClosed
	}
	if p2p.VecSize(v) > nd.net.mtu {
		return p2p.ErrMTUExceeded
	}
	pkt := Packet{Src: nd.addr, Dst: dst, Data: p2p.VecBytes(nil, v), Seq: nd.net.nextSeq()}
	nd.mu.Lock()
	nd.out = append(nd.out, pkt)
	nd.mu.Unlock()
	if nd.net.Loop {
		if peer := nd.net.lookup(dst); peer != nil {
			// a datagram network: delivery is asynchronous and unordered, never refused
			go peer.Feed(context.Background(), pkt)
		}
	}
	return nil
}

func (nd *Node) Receive(ctx context.Context, fn func(p2p.Message[Addr])) error {
	if nd.isClosed() {
		return p2p.ErrClosed
	}
	nd.mu.Lock()
	nd.parked++
	nd.entered++
	nd.cond.Broadcast()
	nd.mu.Unlock()
	unpark := func(took bool) {
		nd.mu.Lock()
		nd.parked--
		if took {
			nd.taken++
		}
		nd.cond.Broadcast()
		nd.mu.Unlock()
	}
	select {
	case <-ctx.Done():
		unpark(false)
		return ctx.Err()
	case <-nd.closed:
		unpark(false)
		return p2p.ErrClosed
	case req := <-nd.tells:
		unpark(true)
		defer close(req.done)
		// the callback owns the buffer for its duration only: hand it a private copy and overwrite it afterwards
		scratch := append([]byte{}, req.pkt.Data...)
		fn(p2p.Message[Addr]{Src: req.pkt.Src, Dst: req.pkt.Dst, Payload: scratch})
		nd.poison(scratch, req.pkt.Data)
		return nil
	}
}

func (nd *Node) LocalAddrs() []Addr { return []Addr{nd.addr} }
func (nd *Node) MTU() int           { return nd.net.mtu }

func (nd *Node) Close() error {
	nd.closeOnce.Do(func() { close(nd.closed) })
	nd.mu.Lock()
	nd.cond.Broadcast()
	nd.mu.Unlock()
	return nil
}

func (nd *Node) ParseAddr(x []byte) (Addr, error) { return ParseAddr(x) }

// ---- p2p.Asker / p2p.AskServer

func (nd *Node) Ask(ctx context.Context, resp []byte, dst Addr, v p2p.IOVec) (int, error) {
	if nd.isClosed() {
		return 0, p2p.ErrClosed
	}
	if p2p.VecSize(v) > nd.net.mtu {
		return 0, p2p.ErrMTUExceeded
	}
	pkt := Packet{Src: nd.addr, Dst: dst, Data: p2p.VecBytes(nil, v), IsAsk: true, Seq: nd.net.nextSeq()}
	nd.mu.Lock()
	nd.out = append(nd.out, pkt)
	nd.mu.Unlock()
	if !nd.net.Loop {
		return copy(resp, nd.net.AskReply), nil
	}
	peer := nd.net.lookup(dst)
	if peer == nil {
		return 0, errors.New("netsim: ask: no such node")
	}
	out, n, err := peer.FeedAsk(ctx, pkt, len(resp))
	if err != nil {
		return 0, err
	}
	if n < 0 {
		return 0, errors.New("netsim: ask: handler reported an error")
	}
	return copy(resp, out[:n]), nil
}

func (nd *Node) ServeAsk(ctx context.Context, fn func(ctx context.Context, resp []byte, req p2p.Message[Addr]) int) error {
	if nd.isClosed() {
		return p2p.ErrClosed
	}
	nd.mu.Lock()
	nd.parkedAsk++
	nd.cond.Broadcast()
	nd.mu.Unlock()
	unpark := func() {
		nd.mu.Lock()
		nd.parkedAsk--
		nd.cond.Broadcast()
		nd.mu.Unlock()
	}
	select {
	case <-ctx.Done():
		unpark()
		return ctx.Err()
	case <-nd.closed:
		unpark()
		return p2p.ErrClosed
	case req := <-nd.asks:
		unpark()
		defer close(req.done)
		scratch := append([]byte{}, req.pkt.Data...)
		resp := make([]byte, len(req.resp))
		req.n = fn(ctx, resp, p2p.Message[Addr]{Src: req.pkt.Src, Dst: req.pkt.Dst, Payload: scratch})
		// the handler's view of the request and of the response buffer ends here
		copy(req.resp, resp)
		nd.poison(scratch, req.pkt.Data)
		Poison(resp, nil)
		return nil
	}
}

// ---- p2p.Secure

func (nd *Node) PublicKey() string { return "key-" + nd.addr.String() }

func (nd *Node) LookupPublicKey(ctx context.Context, a Addr) (string, error) {
	if nd.net.lookup(a) == nil {
		return "", p2p.ErrPublicKeyNotFound
	}
	return "key-" + a.String(), nil
}

// ---- driver side

func (nd *Node) isClosed() bool {
	select {
	case <-nd.closed:
		return true
	default:
		return false
	}
}

// Take returns and forgets everything the layer above has emitted through this node so far.
func (nd *Node) Take() []Packet {
	nd.mu.Lock()
	defer nd.mu.Unlock()
	out := nd.out
	nd.out = nil
	return out
}

// Feed hands pkt to one Receive caller and returns when that caller's callback has returned.
func (nd *Node) Feed(ctx context.Context, pkt Packet) error {
	req := &tellReq{pkt: pkt, done: make(chan struct{})}
	select {
	case <-ctx.Done():
		return ctx.Err()
	case <-nd.closed:
		return p2p.ErrClosed
	case nd.tells <- req:
		<-req.done
		return nil
	}
}

// FeedAsk hands an ask request to one ServeAsk caller; it returns the response buffer and the
// handler's return value.
func (nd *Node) FeedAsk(ctx context.Context, pkt Packet, respLen int) ([]byte, int, error) {
	req := &askReq{pkt: pkt, resp: make([]byte, respLen), done: make(chan struct{})}
	select {
	case <-ctx.Done():
		return nil, 0, ctx.Err()
	case <-nd.closed:
		return nil, 0, p2p.ErrClosed
	case nd.asks <- req:
		<-req.done
		if req.n > len(req.resp) {
			return req.resp, req.n, errors.New("netsim: handler returned more than the buffer holds")
		}
		return req.resp, req.n, nil
	}
}

// Parked returns the number of Receive callers currently waiting for a packet.
func (nd *Node) Parked() int {
	nd.mu.Lock()
	defer nd.mu.Unlock()
	return nd.parked
}

// WaitParked blocks until at least n Receive callers (and nAsk ServeAsk callers) are waiting.
// It returns false on timeout.
func (nd *Node) WaitParked(n, nAsk int, timeout time.Duration) bool {
	deadline := time.Now().Add(timeout)
	timer := time.AfterFunc(timeout, func() {
		nd.mu.Lock()
		nd.cond.Broadcast()
		nd.mu.Unlock()
	})
	defer timer.Stop()
	nd.mu.Lock()
	defer nd.mu.Unlock()
	for nd.parked < n || nd.parkedAsk < nAsk {
		if !time.Now().Before(deadline) {
			return false
		}
		nd.cond.Wait()
	}
	return true
}

// Workers waits for the layer's receive workers to start: it returns once n callers are parked,
// or, after the timeout, the number that are (the driver then uses that number for WaitIdle).
func (nd *Node) Workers(n int, timeout time.Duration) int {
	if nd.WaitParked(n, 0, timeout) {
		return n
	}
	return nd.Parked()
}

// WaitIdle blocks until n Receive callers are parked again, i.e. every worker that took a packet
// has finished processing it and come back.  False on timeout.
func (nd *Node) WaitIdle(n int, timeout time.Duration) bool {
	return nd.WaitParked(n, 0, timeout)
}

// TellOnly hides the Ask half of a Node (p2p.SecureSwarm[Addr, string]).
type TellOnly struct {
	nd *Node
}

var _ p2p.SecureSwarm[Addr, string] = TellOnly{}

func (nd *Node) TellOnly() TellOnly { return TellOnly{nd} }

func (t TellOnly) Node() *Node { return t.nd }
func (t TellOnly) Tell(ctx context.Context, dst Addr, v p2p.IOVec) error {
	return t.nd.Tell(ctx, dst, v)
}
func (t TellOnly) Receive(ctx context.Context, fn func(p2p.Message[Addr])) error {
	return t.nd.Receive(ctx, fn)
}
func (t TellOnly) LocalAddrs() []Addr               { return t.nd.LocalAddrs() }
func (t TellOnly) MTU() int                         { return t.nd.MTU() }
func (t TellOnly) Close() error                     { return t.nd.Close() }
func (t TellOnly) ParseAddr(x []byte) (Addr, error) { return ParseAddr(x) }
func (t TellOnly) PublicKey() string                { return t.nd.PublicKey() }
func (t TellOnly) LookupPublicKey(ctx context.Context, a Addr) (string, error) {
	return t.nd.LookupPublicKey(ctx, a)
}
