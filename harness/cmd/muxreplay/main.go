// muxreplay executes the cases of spec/MuxGen.tla on the real p/p2pmux through its public API.
// The sending mux sits on a netsim node, so the frame is observed as the bytes handed to the
// inner swarm; the receiving mux (with the case's set of open channels) gets those bytes
// injected and the harness records which opened swarm's Receive / ServeAsk callback saw which
// payload.  One ndjson line per case, validated by spec/MuxTrace.tla.
package main

import (
	"bufio"
	"context"
	"encoding/json"
	"flag"
	"fmt"
	"os"
	"sort"
	"sync"
	"time"

	"go.brendoncarroll.net/p2p"
	"go.brendoncarroll.net/p2p/p/p2pmux"
	"verifharness/netsim"
	"verifharness/trace"
)

type Case struct {
	ID   int     `json:"id"`
	Cls  string  `json:"cls"`
	Kind string  `json:"kind"`
	Open [][]int `json:"open"`
	C    []int   `json:"c"`
	X    []int   `json:"x"`
	Op   string  `json:"op"`
}

type Disp struct {
	C []int `json:"c"`
	X []int `json:"x"`
}

func toBytes(k []int) []byte {
	out := make([]byte, len(k))
	for i, x := range k {
		out[i] = byte(x)
	}
	return out
}

func fromBytes(b []byte) []int {
	out := make([]int, len(b))
	for i, x := range b {
		out[i] = int(x)
	}
	return out
}

func bitsToU64(bits []int) uint64 {
	var v uint64
	for _, b := range bits {
		v |= 1 << uint(b)
	}
	return v
}

func u64ToBits(v uint64) []int {
	out := []int{}
	for i := 0; i < 64; i++ {
		if v&(1<<uint(i)) != 0 {
			out = append(out, i)
		}
	}
	return out
}

func errClass(err error) string {
	switch {
	case err == nil:
		return "nil"
	case p2p.IsErrMTUExceeded(err):
		return "mtu"
	default:
		return "other"
	}
}

type opener[C comparable] interface {
	Open(c C) p2p.AskSwarm[netsim.Addr]
}

// kindRunner executes the cases of one multiplexer kind.
type kindRunner[C comparable] struct {
	kind   string
	newMux func(x p2p.AskSwarm[netsim.Addr]) opener[C]
	conv   func([]int) C
	back   func(C) []int

	net      *netsim.Net
	sendNode *netsim.Node
	sendMux  opener[C]
	sendCh   map[C]p2p.AskSwarm[netsim.Addr]
	recvs    map[string]*receiver[C]
	nextNode int
	ctx      context.Context
}

type receiver[C comparable] struct {
	node *netsim.Node
	mu   sync.Mutex
	disp []Disp
}

func newKindRunner[C comparable](ctx context.Context, kind string, newMux func(x p2p.AskSwarm[netsim.Addr]) opener[C], conv func([]int) C, back func(C) []int) *kindRunner[C] {
	kr := &kindRunner[C]{kind: kind, newMux: newMux, conv: conv, back: back, ctx: ctx,
		net: netsim.NewNet(1 << 20), sendCh: map[C]p2p.AskSwarm[netsim.Addr]{}, recvs: map[string]*receiver[C]{}, nextNode: 2}
	kr.sendNode = kr.net.Node(1)
	kr.sendMux = newMux(kr.sendNode)
	return kr
}

func (kr *kindRunner[C]) receiver(open [][]int) (*receiver[C], error) {
	keys := make([]string, len(open))
	for i, o := range open {
		keys[i] = fmt.Sprint(o)
	}
	sort.Strings(keys)
	key := fmt.Sprint(keys)
	if r, ok := kr.recvs[key]; ok {
		return r, nil
	}
	r := &receiver[C]{node: kr.net.Node(kr.nextNode)}
	kr.nextNode++
	m := kr.newMux(r.node)
	for _, o := range open {
		c := kr.conv(o)
		sw := m.Open(c)
		cb := kr.back(c)
		go func() {
			for {
				if err := sw.Receive(kr.ctx, func(msg p2p.Message[netsim.Addr]) {
					r.mu.Lock()
					r.disp = append(r.disp, Disp{C: cb, X: fromBytes(msg.Payload)})
					r.mu.Unlock()
					netsim.Scribble(msg.Payload) // the callback owns the message: modify it before returning
				}); err != nil {
					return
				}
			}
		}()
		go func() {
			for {
				if err := sw.ServeAsk(kr.ctx, func(ctx context.Context, resp []byte, msg p2p.Message[netsim.Addr]) int {
					r.mu.Lock()
					r.disp = append(r.disp, Disp{C: cb, X: fromBytes(msg.Payload)})
					r.mu.Unlock()
					netsim.Scribble(msg.Payload)
					return copy(resp, "ok")
				}); err != nil {
					return
				}
			}
		}()
	}
	// the mux runs one Receive loop and one ServeAsk loop on its inner swarm
	if !r.node.WaitParked(1, 1, 5*time.Second) {
		return nil, fmt.Errorf("%s mux did not start its receive/serve loops on the inner swarm", kr.kind)
	}
	kr.recvs[key] = r
	return r, nil
}

func (kr *kindRunner[C]) run(c Case, w *trace.Writer) error {
	r, err := kr.receiver(c.Open)
	if err != nil {
		return err
	}
	x := toBytes(c.X)
	ev := map[string]any{"ev": "case", "id": c.ID, "cls": c.Cls, "kind": c.Kind, "open": c.Open, "c": c.C, "x": c.X, "op": c.Op}
	var frame []byte
	sent := false
	serr := "nil"
	ev["mtu"], ev["innermtu"] = 0, 0
	if c.Cls == "raw" {
		frame, sent = x, true
	} else {
		cid := kr.conv(c.C)
		sw, ok := kr.sendCh[cid]
		if !ok {
			sw = kr.sendMux.Open(cid)
			kr.sendCh[cid] = sw
		}
		kr.sendNode.Take()
		ctx, cf := context.WithTimeout(kr.ctx, 10*time.Second)
		var e error
		if c.Op == "tell" {
			e = sw.Tell(ctx, r.node.Addr(), p2p.IOVec{x})
		} else {
			_, e = sw.Ask(ctx, make([]byte, 16), r.node.Addr(), p2p.IOVec{x})
		}
		cf()
		serr = errClass(e)
		// the law MTU(channel) = MTU(inner) - header length of THAT channel, whatever its siblings did (all
		// channels of a kind share one sending mux here); judged as drift by MuxTrace (the verdict is C09's)
		ev["mtu"] = sw.MTU()
		ev["innermtu"] = kr.sendNode.MTU()
		pk := kr.sendNode.Take()
		if len(pk) == 1 && pk[0].IsAsk == (c.Op == "ask") {
			frame, sent = pk[0].Data, true
		} else if len(pk) != 0 {
			return fmt.Errorf("case %d: the mux emitted %d packets for one %s", c.ID, len(pk), c.Op)
		}
	}
	if sent {
		ctx, cf := context.WithTimeout(kr.ctx, 10*time.Second)
		pkt := netsim.Packet{Src: kr.sendNode.Addr(), Dst: r.node.Addr(), Data: frame, IsAsk: c.Op == "ask"}
		if c.Op == "tell" {
			err = r.node.Feed(ctx, pkt)
			if err == nil && !r.node.WaitIdle(1, 10*time.Second) {
				err = fmt.Errorf("receive loop did not come back")
			}
		} else {
			_, _, err = r.node.FeedAsk(ctx, pkt, 16)
		}
		cf()
		if err != nil {
			return fmt.Errorf("case %d: feeding the receiving %s mux: %v", c.ID, kr.kind, err)
		}
	}
	r.mu.Lock()
	disp := r.disp
	r.disp = nil
	r.mu.Unlock()
	if disp == nil {
		disp = []Disp{}
	}
	ev["sent"] = sent
	ev["serr"] = serr
	ev["frame"] = fromBytes(frame)
	ev["disp"] = disp
	w.Emit(ev)
	return nil
}

type runner interface {
	run(c Case, w *trace.Writer) error
}

type strOpener struct {
	m p2pmux.AskMux[netsim.Addr, string]
}

func (o strOpener) Open(c string) p2p.AskSwarm[netsim.Addr] { return o.m.Open(c) }

type u64Opener struct {
	m p2pmux.AskMux[netsim.Addr, uint64]
}

func (o u64Opener) Open(c uint64) p2p.AskSwarm[netsim.Addr] { return o.m.Open(c) }

type u32Opener struct {
	m p2pmux.AskMux[netsim.Addr, uint32]
}

func (o u32Opener) Open(c uint32) p2p.AskSwarm[netsim.Addr] { return o.m.Open(c) }

type u16Opener struct {
	m p2pmux.AskMux[netsim.Addr, uint16]
}

func (o u16Opener) Open(c uint16) p2p.AskSwarm[netsim.Addr] { return o.m.Open(c) }

func main() {
	in := flag.String("in", "", "cases (ndjson)")
	out := flag.String("out", "", "trace (ndjson)")
	flag.Parse()
	ctx := context.Background()
	f, err := os.Open(*in)
	if err != nil {
		fmt.Fprintln(os.Stderr, err)
		os.Exit(2)
	}
	w, err := trace.Create(*out)
	if err != nil {
		fmt.Fprintln(os.Stderr, err)
		os.Exit(2)
	}
	runners := map[string]runner{
		"str": newKindRunner[string](ctx, "str",
			func(x p2p.AskSwarm[netsim.Addr]) opener[string] {
				return strOpener{p2pmux.NewStringAskMux[netsim.Addr](x)}
			},
			func(k []int) string { return string(toBytes(k)) }, func(c string) []int { return fromBytes([]byte(c)) }),
		"var": newKindRunner[uint64](ctx, "var",
			func(x p2p.AskSwarm[netsim.Addr]) opener[uint64] {
				return u64Opener{p2pmux.NewVarintAskMux[netsim.Addr](x)}
			},
			bitsToU64, u64ToBits),
		"u64": newKindRunner[uint64](ctx, "u64",
			func(x p2p.AskSwarm[netsim.Addr]) opener[uint64] {
				return u64Opener{p2pmux.NewUint64AskMux[netsim.Addr](x)}
			},
			bitsToU64, u64ToBits),
		"u32": newKindRunner[uint32](ctx, "u32",
			func(x p2p.AskSwarm[netsim.Addr]) opener[uint32] {
				return u32Opener{p2pmux.NewUint32AskMux[netsim.Addr](x)}
			},
			func(k []int) uint32 { return uint32(bitsToU64(k)) }, func(c uint32) []int { return u64ToBits(uint64(c)) }),
		"u16": newKindRunner[uint16](ctx, "u16",
			func(x p2p.AskSwarm[netsim.Addr]) opener[uint16] {
				return u16Opener{p2pmux.NewUint16AskMux[netsim.Addr](x)}
			},
			func(k []int) uint16 { return uint16(bitsToU64(k)) }, func(c uint16) []int { return u64ToBits(uint64(c)) }),
	}
	sc := bufio.NewScanner(f)
	sc.Buffer(make([]byte, 1<<20), 1<<28)
	n := 0
	for sc.Scan() {
		var c Case
		if err := json.Unmarshal(sc.Bytes(), &c); err != nil {
			fmt.Fprintln(os.Stderr, "bad case:", err)
			os.Exit(2)
		}
		r, ok := runners[c.Kind]
		if !ok {
			fmt.Fprintln(os.Stderr, "unknown kind", c.Kind)
			os.Exit(2)
		}
		if err := r.run(c, w); err != nil {
			w.Close()
			fmt.Fprintln(os.Stderr, err)
			os.Exit(3)
		}
		n++
	}
	if err := w.Close(); err != nil {
		fmt.Fprintln(os.Stderr, err)
		os.Exit(2)
	}
	fmt.Printf("executed %d cases\n", n)
}
