package main

import (
	"sort"
	"time"

	"go.brendoncarroll.net/p2p/p/kademlia"
	"verifharness/trace"
)

// Behaviours of KadCache.tla (the format kadreplay reads).  After every operation the real cache is
// asked WouldPut / WouldAdd for every key of the universe and AcceptingPrefixLen, and "what Put(k)
// then does" is observed on a fresh cache built in the same state (wClone).

type wKey = []int

type wOp struct {
	Op  string `json:"op"`
	Key wKey   `json:"key"`
	V   int    `json:"v"`
	T   int    `json:"t"`
	E   int    `json:"e"`
}

type wBehaviour struct {
	ID      int    `json:"id"`
	Locus   wKey   `json:"locus"`
	Max     int    `json:"max"`
	Min     int    `json:"min"`
	Prefill []wKey `json:"prefill"`
	Keys    []wKey `json:"keys"`
	Ops     []wOp  `json:"ops"`
}

type wEnt struct {
	K wKey `json:"k"`
	C int  `json:"c"`
}

type wPut struct {
	HasEv  bool `json:"hasEv"`
	Ev     wKey `json:"ev"`
	Added  bool `json:"added"`
	Stored bool `json:"stored"` // the key is in the cache with the probe's value after Put
}

type wProbe struct {
	K  wKey `json:"k"`
	W  bool `json:"w"`  // WouldPut
	WA bool `json:"wa"` // WouldAdd
	// Put(k) with a CreatedAt newer than every entry / as old as the oldest
	New wPut `json:"new"`
	Old wPut `json:"old"`
}

type wEvent struct {
	Ev     string   `json:"ev"`
	ID     int      `json:"id"`
	Step   int      `json:"step"`
	Max    int      `json:"max"`
	Min    int      `json:"min"`
	Count  int      `json:"count"`
	NB     int      `json:"nb"`
	Ents   []wEnt   `json:"ents"`
	A      int      `json:"a"` // AcceptingPrefixLen
	Probes []wProbe `json:"probes"`
	Panic  bool     `json:"panic"`
	What   string   `json:"what"`
}

const wEpoch = 1_000_000

func wBytes(k wKey) []byte {
	out := make([]byte, len(k))
	for i, x := range k {
		out[i] = byte(x)
	}
	return out
}

func wFromBytes(b []byte) wKey {
	out := make(wKey, len(b))
	for i, x := range b {
		out[i] = int(x)
	}
	return out
}

func wTime(t int) time.Time {
	if t == 0 {
		return time.Time{}
	}
	return time.Unix(wEpoch+int64(t), 0)
}

func wApply(c *kademlia.Cache[int], op wOp) {
	kb := wBytes(op.Key)
	switch op.Op {
	case "put":
		c.Put(kb, op.V, wTime(op.T), wTime(op.E))
	case "touch":
		c.Update(kb, func(e kademlia.Entry[int], exists bool) kademlia.Entry[int] {
			e2 := e
			if !exists {
				e2.Key = kb
				e2.CreatedAt = wTime(op.T)
			}
			e2.ExpiresAt = wTime(op.E)
			e2.Value = op.V
			return e2
		})
	case "delete":
		c.Delete(kb)
	case "expire":
		c.Expire(nil, wTime(op.T))
	default:
		panic("unknown op " + op.Op)
	}
}

// wClone builds a fresh cache in the observed state: the same entries (with their CreatedAt /
// ExpiresAt) and the same number of buckets.  Replaying the behaviour's prefix instead would not do:
// an eviction among entries with equal CreatedAt follows Go's map order, so two replays may diverge.
func wClone(b wBehaviour, buckets []kademlia.VerifBucket[int]) *kademlia.Cache[int] {
	c := kademlia.NewCache[int](wBytes(b.Locus), b.Max, b.Min)
	if b.Max == 0 || len(buckets) == 0 {
		return c
	}
	// create the buckets 0 .. len(buckets)-1: put and delete a key of the deepest one
	locus := wBytes(b.Locus)
	tmp := append([]byte{}, locus...)
	if deepest := len(buckets) - 1; deepest < 8*len(locus) {
		tmp[deepest/8] ^= 0x80 >> (deepest % 8)
	}
	c.Put(tmp, 0, wTime(1), time.Time{})
	c.Delete(tmp)
	for _, bu := range buckets {
		for _, e := range bu.Entries {
			e := e
			c.Update(e.Key, func(kademlia.Entry[int], bool) kademlia.Entry[int] { return e })
		}
	}
	return c
}

const probeValue = 77

func wProbePut(b wBehaviour, buckets []kademlia.VerifBucket[int], k wKey, t int) wPut {
	c := wClone(b, buckets)
	kb := wBytes(k)
	evicted, added := c.Put(kb, probeValue, wTime(t), time.Time{})
	res := wPut{Added: added, Ev: wKey{}}
	if evicted != nil {
		res.HasEv, res.Ev = true, wFromBytes(evicted.Key)
	}
	v, ok := c.Get(kb, wTime(t))
	res.Stored = ok && v == probeValue
	return res
}

func runWould(in string, w *trace.Writer) {
	readLines(in, func(line []byte) {
		var b wBehaviour
		mustUnmarshal(line, &b)
		var c *kademlia.Cache[int]
		for step := 0; step <= len(b.Ops); step++ {
			ev := wEvent{Ev: "would", ID: b.ID, Step: step, Max: b.Max, Min: b.Min, Ents: []wEnt{}, Probes: []wProbe{}}
			p, what := guard(func() {
				if step == 0 {
					c = kademlia.NewCache[int](wBytes(b.Locus), b.Max, b.Min)
					for _, k := range b.Prefill {
						c.Put(wBytes(k), 1, wTime(1), time.Time{})
					}
				} else {
					wApply(c, b.Ops[step-1])
				}
				count, buckets := c.VerifDump()
				ev.Count, ev.NB = count, len(buckets)
				for _, bu := range buckets {
					for _, e := range bu.Entries {
						ct := 0
						if !e.CreatedAt.IsZero() {
							ct = int(e.CreatedAt.Unix() - wEpoch)
						}
						ev.Ents = append(ev.Ents, wEnt{K: wFromBytes(e.Key), C: ct})
					}
				}
				sort.Slice(ev.Ents, func(i, j int) bool { return ev.Ents[i].K[0] < ev.Ents[j].K[0] })
				ev.A = c.AcceptingPrefixLen()
				for _, k := range b.Keys {
					kb := wBytes(k)
					pr := wProbe{K: k, W: c.WouldPut(kb), WA: c.WouldAdd(kb, wTime(9))}
					pr.New = wProbePut(b, buckets, k, 9)
					pr.Old = wProbePut(b, buckets, k, 1)
					ev.Probes = append(ev.Probes, pr)
				}
			})
			if p {
				ev.Panic, ev.What = true, what
			}
			w.Emit(ev)
		}
	})
}
