package main

import (
	"bytes"
	"context"
	"errors"
	"fmt"
	"net"
	"strings"
	"sync"
	"time"

	"go.brendoncarroll.net/p2p"
	"go.brendoncarroll.net/p2p/p2pconn"
	"go.brendoncarroll.net/p2p/s/memswarm"
	"verifharness/trace"
)

// One behaviour = one memswarm realm with two swarms: A (the connection under test) and B (the
// peer).  The operations are executed one after the other; ReadFrom runs in its own goroutine
// because it may block.  Whether a call "blocked" is the only timing-based observation:
//   something the harness did can make the call return -> wait up to waitLong (a hang is then a real
//   observation); nothing can -> wait settle; a later return is picked up before/after the next ops.

const (
	settle   = 40 * time.Millisecond
	waitLong = 4 * time.Second
	soonD    = 200 * time.Millisecond
)

type pcOp struct {
	Op   string `json:"op"`
	K    string `json:"k"`
	Out  string `json:"out"`
	Wake string `json:"wake"`
}

type pcBehaviour struct {
	ID  int    `json:"id"`
	Ops []pcOp `json:"ops"`
}

type pcWake struct {
	K         string `json:"k"` // none | pkt | timeout | closed | other
	Pid       int    `json:"pid"`
	Intact    bool   `json:"intact"`
	FromOK    bool   `json:"fromOk"`
	IsTimeout bool   `json:"isTimeout"` // the error is a net.Error with Timeout() == true
	What      string `json:"what"`
}

type pcEvent struct {
	Ev  string `json:"ev"` // init | op
	ID  int    `json:"id"`
	Op  string `json:"op"`
	K   string `json:"k"`
	Pid int    `json:"pid"`
	// read: Res; write: Out/PeerGot/PeerFromOK; every op: Pre (the blocked reader had already returned
	// when the op started) and Wake (it returned after the op)
	Res        pcWake `json:"res"`
	Out        string `json:"out"`
	PeerGot    bool   `json:"peerGot"`
	PeerFromOK bool   `json:"peerFromOk"`
	Pre        pcWake `json:"pre"`
	Wake       pcWake `json:"wake"`
	Final      bool   `json:"final"`
	// init
	AddrOK    bool   `json:"addrOk"`
	NetworkOK bool   `json:"networkOk"`
	ParseOK   bool   `json:"parseOk"`
	Panic     bool   `json:"panic"`
	What      string `json:"what"`
}

func payload(pid int) []byte {
	n := 1 + (pid*5)%23
	out := make([]byte, n+1)
	out[0] = byte(pid)
	for i := 1; i <= n; i++ {
		out[i] = byte(pid*31 + i)
	}
	return out
}

// tapSwarm is the swarm handed to NewPacketConn: memswarm's swarm with a Receive that reports when it
// is entered.  packetConn.ReadFrom has built its context by then (getReadContext), so a deadline set
// after that moment cannot be the one this ReadFrom captured -- however late the goroutine was scheduled.
type tapSwarm struct {
	p2p.Swarm[memswarm.Addr]
	mu      sync.Mutex
	onEnter func()
}

func (ts *tapSwarm) Receive(ctx context.Context, fn func(p2p.Message[memswarm.Addr])) error {
	ts.mu.Lock()
	f := ts.onEnter
	ts.onEnter = nil
	ts.mu.Unlock()
	if f != nil {
		f()
	}
	return ts.Swarm.Receive(ctx, fn)
}

type pcRun struct {
	tap    *tapSwarm
	a, b   p2p.Swarm[memswarm.Addr]
	A, B   net.PacketConn
	reader chan pcWake // non-nil while a ReadFrom of A is outstanding
	// closed by the reader goroutine right before it calls ReadFrom: the settle window of a "read"
	// starts only then (on a loaded machine the goroutine may be scheduled late, and a deadline set
	// by the NEXT operation must not be the one this ReadFrom captures)
	started chan struct{}
}

func classify(err error) (string, bool) {
	var ne net.Error
	isTimeout := errors.As(err, &ne) && ne.Timeout()
	switch {
	case isTimeout:
		return "timeout", true
	case errors.Is(err, p2p.ErrClosed) || errors.Is(err, net.ErrClosed) || p2p.IsErrClosed(err):
		return "closed", false
	}
	return "other", false
}

func (r *pcRun) fromIs(from net.Addr, s p2p.Swarm[memswarm.Addr]) bool {
	fa, ok := from.(p2pconn.Addr[memswarm.Addr])
	if !ok {
		return false
	}
	want, _ := s.LocalAddrs()[0].MarshalText()
	return fa.Addr == s.LocalAddrs()[0] && from.String() == string(want)
}

func (r *pcRun) startRead() {
	ch := make(chan pcWake, 1)
	started := make(chan struct{})
	r.reader, r.started = ch, started
	var once sync.Once
	enter := func() { once.Do(func() { close(started) }) }
	r.tap.mu.Lock()
	r.tap.onEnter = enter
	r.tap.mu.Unlock()
	go func() {
		var res pcWake
		defer enter()
		p, what := guard(func() {
			buf := make([]byte, 64)
			n, from, err := r.A.ReadFrom(buf)
			if err != nil {
				res.K, res.IsTimeout = classify(err)
				res.What = err.Error()
				if n != 0 || from != nil {
					res.K, res.What = "other", "error with n != 0 or from != nil"
				}
				return
			}
			res.K = "pkt"
			if n > 0 {
				res.Pid = int(buf[0])
				res.Intact = bytes.Equal(buf[:n], payload(res.Pid))
			}
			res.FromOK = r.fromIs(from, r.b)
		})
		if p {
			res = pcWake{K: "other", What: "panic: " + what}
		}
		ch <- res
	}()
}

// poll reports the outstanding reader's result if it arrives within d.
func (r *pcRun) poll(d time.Duration) pcWake {
	if r.reader == nil {
		return pcWake{K: "none"}
	}
	var t <-chan time.Time
	if d > 0 {
		tm := time.NewTimer(d)
		defer tm.Stop()
		t = tm.C
	} else {
		c := make(chan time.Time)
		close(c)
		// give a reader that is already done a chance first
		select {
		case res := <-r.reader:
			r.reader = nil
			return res
		default:
		}
		t = c
	}
	select {
	case res := <-r.reader:
		r.reader = nil
		return res
	case <-t:
		// both may be ready when this goroutine was scheduled late: the result wins
		select {
		case res := <-r.reader:
			r.reader = nil
			return res
		default:
		}
		return pcWake{K: "none"}
	}
}

// The harness keeps its own ground truth about the inputs it has applied (which deadline is stored,
// which one the outstanding ReadFrom captured, which packets may be queued, whether Close was called)
// ONLY to choose how long to wait for a result: long (waitLong) whenever something it did can make the
// call return, short (settle) only when nothing can.  The verdict never depends on it: the monitor
// (PacketConnTrace) follows the connection from the logged observations alone.
type pcTruth struct {
	closed     bool
	rdKind     string // the read deadline stored in the connection
	rdAt       time.Time
	readerKind string // the deadline the outstanding ReadFrom captured
	readerAt   time.Time
	queued     []int // packets that may sit in A's queue
	lastSoon   time.Time
	// a call that had to return did not within waitLong: that observation is logged (a violation);
	// from then on only short waits, so that a hanging implementation costs seconds, not hours
	hung bool
}

func (t *pcTruth) set(which, k string) time.Time {
	var at time.Time
	switch k {
	case "past":
		at = time.Now().Add(-time.Second)
	case "soon":
		at = time.Now().Add(soonD)
		t.lastSoon = at
	case "far":
		at = time.Now().Add(time.Hour)
	}
	if which != "setw" {
		t.rdKind, t.rdAt = k, at
	}
	return at
}

func (t *pcTruth) drop(pid int) {
	for i, p := range t.queued {
		if p == pid {
			t.queued = append(t.queued[:i], t.queued[i+1:]...)
			return
		}
	}
}

// passed: a deadline of that kind has passed (or is about to)
func passed(kind string, at time.Time) bool {
	return kind == "past" || (kind == "soon" && time.Until(at) < 20*time.Millisecond)
}

func runPCBehaviour(b pcBehaviour, w *trace.Writer, mu *sync.Mutex) {
	var evs []pcEvent
	realm := memswarm.NewRealm(memswarm.WithQueueLen(2))
	r := &pcRun{}
	r.tap = &tapSwarm{Swarm: realm.NewSwarm()}
	r.a, r.b = r.tap, realm.NewSwarm()
	r.A, r.B = p2pconn.NewPacketConn[memswarm.Addr](r.a), p2pconn.NewPacketConn[memswarm.Addr](r.b)
	init := pcEvent{Ev: "init", ID: b.ID}
	p, what := guard(func() {
		la := r.A.LocalAddr()
		text, _ := r.a.LocalAddrs()[0].MarshalText()
		init.AddrOK = r.fromIs(la, r.a) && la.String() == string(text) &&
			p2pconn.NewAddr[memswarm.Addr](r.a, r.a.LocalAddrs()[0]).String() == string(text)
		init.NetworkOK = strings.HasPrefix(la.Network(), "p2p-") && la.Network() == fmt.Sprintf("p2p-%T", r.a) &&
			r.B.LocalAddr().Network() == fmt.Sprintf("p2p-%T", r.b)
		parsed, err := r.a.ParseAddr([]byte(la.String()))
		init.ParseOK = err == nil && parsed == r.a.LocalAddrs()[0]
	})
	if p {
		init.Panic, init.What = true, what
	}
	evs = append(evs, init)
	t := &pcTruth{rdKind: "none"}
	nsent := 0
	collect := func(res pcWake) pcWake {
		if res.K == "pkt" {
			t.drop(res.Pid)
		}
		return res
	}
	exec := func(op pcOp, final bool) {
		ev := pcEvent{Ev: "op", ID: b.ID, Op: op.Op, K: op.K, Final: final, Res: pcWake{K: "none"}, Wake: pcWake{K: "none"}}
		ev.Pre = collect(r.poll(0))
		p, what := guard(func() {
			after := settle // how long to wait for the outstanding ReadFrom after the operation
			switch op.Op {
			case "setr":
				r.A.SetReadDeadline(t.set(op.Op, op.K))
			case "setw":
				r.A.SetWriteDeadline(t.set(op.Op, op.K))
			case "setb":
				r.A.SetDeadline(t.set(op.Op, op.K))
			case "arrive":
				nsent++
				ev.Pid = nsent
				r.B.WriteTo(payload(nsent), r.A.LocalAddr())
				if !t.closed && len(t.queued) < 2 {
					t.queued = append(t.queued, nsent)
					after = waitLong // a blocked reader must take it
				}
			case "read":
				if r.reader != nil {
					ev.Out = "skipped" // a ReadFrom is still outstanding: the monitor ignores this op
					return
				}
				d := settle
				if t.closed || len(t.queued) > 0 || passed(t.rdKind, t.rdAt) {
					d = waitLong
				}
				t.readerKind, t.readerAt = t.rdKind, t.rdAt
				r.startRead()
				select {
				case <-r.started:
				case <-time.After(waitLong):
				}
				if t.hung {
					d = settle
				}
				ev.Res = collect(r.poll(d))
				if ev.Res.K == "none" {
					ev.Res.K = "blocked"
					t.hung = t.hung || d == waitLong
				}
				return
			case "expire":
				if !t.lastSoon.IsZero() {
					if d := time.Until(t.lastSoon) + 30*time.Millisecond; d > 0 {
						time.Sleep(d)
					}
				}
			case "close":
				t.closed = true
				t.queued = nil
				after = waitLong // Close must release the reader
				if err := r.A.Close(); err != nil {
					ev.What = err.Error()
				}
			case "write":
				pl := payload(200 + len(evs)%50)
				n, err := r.A.WriteTo(pl, r.B.LocalAddr())
				switch {
				case err == nil && n == len(pl):
					ev.Out = "ok"
				case err == nil:
					ev.Out, ev.What = "other", "short write without error"
				default:
					ev.Out, _ = classify(err)
					ev.What = err.Error()
				}
				// whatever WriteTo said: did the peer get it?  (the wait is the harness's own timer: the peer's
				// read deadline is the code under test as well)
				type peerRes struct{ got, fromOK bool }
				pch := make(chan peerRes, 1)
				r.B.SetReadDeadline(time.Now().Add(waitLong))
				go func() {
					var pr peerRes
					guard(func() {
						buf := make([]byte, 64)
						n2, from, err2 := r.B.ReadFrom(buf)
						if err2 == nil {
							pr.got = bytes.Equal(buf[:n2], pl)
							pr.fromOK = r.fromIs(from, r.a)
						}
					})
					pch <- pr
				}()
				pw := settle
				if ev.Out == "ok" && !t.hung {
					pw = waitLong
				}
				select {
				case pr := <-pch:
					ev.PeerGot, ev.PeerFromOK = pr.got, pr.fromOK
				case <-time.After(pw):
					// not delivered: release the peer's reader so that the next write starts clean
					r.B.SetReadDeadline(time.Now().Add(-time.Second))
					r.a.Tell(context.Background(), r.b.LocalAddrs()[0], p2p.IOVec{[]byte{0}})
					select {
					case <-pch:
					case <-time.After(waitLong):
					}
					t.hung = t.hung || pw == waitLong
				}
			}
			if r.reader != nil {
				switch {
				case passed(t.readerKind, t.readerAt):
					after = waitLong // its own deadline has passed: it must return
				case after == settle && (op.Op == "setr" || op.Op == "setb") && op.K == "past":
					after = 6 * settle // net.PacketConn says this wakes it: give an implementation that does the time
				}
				if t.hung {
					after = settle
				}
				ev.Wake = collect(r.poll(after))
				t.hung = t.hung || (after == waitLong && ev.Wake.K == "none")
			}
		})
		if p {
			ev.Panic, ev.What = true, what
		}
		evs = append(evs, ev)
	}
	for _, op := range b.Ops {
		exec(op, false)
	}
	// the end: Close (if the behaviour did not) must release an outstanding ReadFrom
	if !t.closed || r.reader != nil {
		exec(pcOp{Op: "close"}, true)
	}
	guard(func() { r.B.Close() })
	mu.Lock()
	for _, ev := range evs {
		w.Emit(ev)
	}
	mu.Unlock()
}

func runPacketConn(in string, w *trace.Writer, par int) {
	var behs []pcBehaviour
	readLines(in, func(line []byte) {
		var b pcBehaviour
		mustUnmarshal(line, &b)
		behs = append(behs, b)
	})
	var mu sync.Mutex
	var wg sync.WaitGroup
	sem := make(chan struct{}, par)
	for _, b := range behs {
		wg.Add(1)
		sem <- struct{}{}
		go func(b pcBehaviour) {
			defer wg.Done()
			defer func() { <-sem }()
			runPCBehaviour(b, w, &mu)
		}(b)
	}
	wg.Wait()
}
